/-
Shared basics of the coalescer model: byte strings, Go maps as association lists,
strconv-style number parsing/printing.  Core-only (linked into the driver).
-/
namespace LA.Coalesce

abbrev Bytes := List UInt8

/-- A Go `map[string]string`: association list.  The invariant "no key twice"
(`NoDupKeys`) is stated separately where a theorem needs it. -/
abbrev KV := List (Bytes × Bytes)

open Lean in
/-- `b! "abc"` is the byte list of the UTF-8 encoding of the literal (expanded at
elaboration time to a plain list literal, so the kernel never evaluates `String`). -/
macro "b!" s:str : term => do
  let xs : Array (TSyntax `term) :=
    (s.getString.toUTF8.toList.map fun c => (Syntax.mkNumLit (toString c.toNat) : TSyntax `term)).toArray
  `(([$xs,*] : List UInt8))

/-! ### maps -/

/-- `m[k]` with the comma-ok result. -/
def lookup (k : Bytes) : KV → Option Bytes
  | [] => none
  | p :: r => if p.1 = k then some p.2 else lookup k r

def hasKey (k : Bytes) (m : KV) : Bool := (lookup k m).isSome

/-- `m[k]` (zero value `""` when absent). -/
def getD (k : Bytes) (m : KV) : Bytes := (lookup k m).getD []

/-- `delete(m, k)`. -/
def erase (k : Bytes) (m : KV) : KV := m.filter (fun p => !decide (p.1 = k))

/-- `m[k] = v`. -/
def setKV (k v : Bytes) : KV → KV
  | [] => [(k, v)]
  | p :: r => if p.1 = k then (k, v) :: r else p :: setKV k v r

def keys (m : KV) : List Bytes := m.map (·.1)

def NoDupKeys (m : KV) : Prop := (keys m).Nodup

instance (m : KV) : Decidable (NoDupKeys m) := by unfold NoDupKeys; infer_instance

/-! ### strings -/

def hasPrefix (p s : Bytes) : Bool := p.isPrefixOf s
def hasSuffix (p s : Bytes) : Bool := p.isSuffixOf s

/-! ### strconv -/

/-- value of an ASCII digit/letter as `strconv.ParseUint` reads it. -/
def digitVal (c : UInt8) : Option Nat :=
  if 48 ≤ c.toNat ∧ c.toNat ≤ 57 then some (c.toNat - 48)
  else if 97 ≤ c.toNat ∧ c.toNat ≤ 122 then some (c.toNat - 97 + 10)
  else if 65 ≤ c.toNat ∧ c.toNat ≤ 90 then some (c.toNat - 65 + 10)
  else none

def parseDigits (base : Nat) : Bytes → Nat → Option Nat
  | [], acc => some acc
  | c :: r, acc =>
    match digitVal c with
    | some d => if d < base then parseDigits base r (acc * base + d) else none
    | none => none

/-- `strconv.ParseUint(s, base, bits)` for an explicit base 2..36 (no sign, no
underscores, no prefix; empty string and values ≥ 2^bits are errors). -/
def parseUint (base bits : Nat) (s : Bytes) : Option Nat :=
  if s = [] then none else
  match parseDigits base s 0 with
  | some n => if n < 2 ^ bits then some n else none
  | none => none

def digitChar (d : Nat) : UInt8 := UInt8.ofNat (48 + d)

/-- `strconv.Itoa` for a non-negative number. -/
def decBytes (n : Nat) : Bytes := (Nat.toDigits 10 n).map (fun c => UInt8.ofNat c.toNat)

/-- `fmt.Sprintf("%04o", n)` for `n < 4096` (the only arguments it is applied to). -/
def oct4 (n : Nat) : Bytes :=
  [digitChar (n / 512 % 8), digitChar (n / 64 % 8), digitChar (n / 8 % 8), digitChar (n % 8)]

end LA.Coalesce
