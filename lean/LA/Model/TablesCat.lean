/-
Categorisation (GetAuditEventType) and the tables that only C20 looks at, kept apart from
Model/Tables so that the parser and rule models do not import them.
-/
import LA.Model.Tables
import LA.Gen.EventTypes
import LA.Gen.RuleTables
import LA.Gen.NormNames

namespace LA.Tables

/-- `GetAuditEventType`: first matching case of the switch, else the default. -/
def categoryIn : List (Nat × Nat × Nat) → Nat → Nat
  | [], _ => LA.Gen.EventTypes.defaultCategory
  | (lo, hi, c) :: rest, t => if lo ≤ t ∧ t ≤ hi then c else categoryIn rest t

def category (t : Nat) : Nat := categoryIn LA.Gen.EventTypes.ranges t

end LA.Tables
