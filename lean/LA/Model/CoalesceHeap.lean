/-
Heap layer over Model.Coalesce for C15: what `CoalesceMessages` / `ResolveIDs` share with
their callers and with each other.

* every `*auparse.AuditMessage` is a cell: the immutable parse result of its text and the
  cache that `Data()` fills on first use and then hands out **by reference**;
* the `[]string` values of the normalisation tables are slice headers `(cell, len, cap)` over
  backing-array cells; `append` writes in place when `len + n ≤ cap`, else allocates;
* a returned event holds references: `Paths[i]` are the messages' cached maps, `Tags` is the
  primary message's slice, `ECS.Event.Category/Type` are slices that may alias a table.
  `deref` reads an event through the current heap — what a caller sees *now*.

Core-only (linked into the driver).
-/
import LA.Model.Coalesce

namespace LA.Coalesce

/-- result of parsing a message's text (what the first `Data()` call computes). -/
structure Parsed where
  data : Option KV
  tags : List Bytes
deriving Repr, DecidableEq, Inhabited

structure MsgCell where
  typ : Nat
  seq : Nat
  ts : Nat
  parse : Parsed
  cache : Option Parsed      -- m.data / m.tags / m.error once Data() has run
deriving Repr, DecidableEq, Inhabited

/-- a Go slice header of a `[]string` -/
structure Slice where
  cell : Nat
  len : Nat
  cap : Nat
deriving Repr, DecidableEq, Inhabited

def nilSlice : Slice := ⟨0, 0, 0⟩

structure Heap where
  msgs : List MsgCell
  arrs : List (List Bytes)     -- backing arrays
  catSlices : List Slice       -- norm index ↦ header of norm.ECS.Category.Values
  typSlices : List Slice       -- norm index ↦ header of norm.ECS.Type.Values
deriving Repr, DecidableEq, Inhabited

def pad (l : List Bytes) (cap : Nat) : List Bytes := l ++ List.replicate (cap - l.length) []

/-- backing arrays of the tables: norm `i` owns arrays `2i` (category) and `2i+1` (type), of
the capacities the YAML decoder produced. -/
def initArrs : List Norm → List (List Bytes)
  | [] => []
  | n :: r => pad n.ecsCategory n.catCap :: pad n.ecsType n.typCap :: initArrs r

def initCatSlices (i : Nat) : List Norm → List Slice
  | [] => []
  | n :: r => ⟨2 * i, n.ecsCategory.length, n.catCap⟩ :: initCatSlices (i + 1) r

def initTypSlices (i : Nat) : List Norm → List Slice
  | [] => []
  | n :: r => ⟨2 * i + 1, n.ecsType.length, n.typCap⟩ :: initTypSlices (i + 1) r

/-- heap after package `init`. -/
def Heap.init (T : Tables) : Heap :=
  { msgs := [], arrs := initArrs T.norms, catSlices := initCatSlices 0 T.norms,
    typSlices := initTypSlices 0 T.norms }

def Heap.newMsg (h : Heap) (v : View) : Heap × Nat :=
  ({ h with msgs := h.msgs ++ [{ typ := v.typ, seq := v.seq, ts := v.ts, parse := ⟨v.data, v.tags⟩, cache := none }] },
   h.msgs.length)

/-- what `Data()`/`Tags()` report for the message now. -/
def obsCell (c : MsgCell) : Parsed := c.cache.getD c.parse

def obsAt (h : Heap) (i : Nat) : Parsed :=
  match h.msgs[i]? with
  | some c => obsCell c
  | none => ⟨none, []⟩

def viewAt (h : Heap) (i : Nat) : View :=
  match h.msgs[i]? with
  | some c => { typ := c.typ, seq := c.seq, ts := c.ts, data := (obsCell c).data, tags := (obsCell c).tags }
  | none => default

/-- `msg.Data()`: fills the cache on first use. -/
def dataH (h : Heap) (i : Nat) : Heap × Parsed :=
  match h.msgs[i]? with
  | none => (h, ⟨none, []⟩)
  | some c =>
    match c.cache with
    | some p => (h, p)
    | none => ({ h with msgs := h.msgs.set i { c with cache := some c.parse } }, c.parse)

def fill (h : Heap) (ids : List Nat) : Heap := ids.foldl (fun h i => (dataH h i).1) h

def readSlice (h : Heap) (s : Slice) : List Bytes := ((h.arrs[s.cell]?).getD []).take s.len

/-- overwrite `xs` into `a` starting at `pos` (positions past the end are dropped). -/
def writeAt (a : List Bytes) (pos : Nat) (xs : List Bytes) : List Bytes :=
  a.take pos ++ xs.take (a.length - pos) ++ a.drop (pos + xs.length)

/-- Go's `append(s, xs...)`. -/
def appendSlice (h : Heap) (s : Slice) (xs : List Bytes) : Heap × Slice :=
  if xs = [] then (h, s)
  else if s.len + xs.length ≤ s.cap then
    ({ h with arrs := h.arrs.set s.cell (writeAt ((h.arrs[s.cell]?).getD []) s.len xs) },
     { s with len := s.len + xs.length })
  else
    let new := readSlice h s ++ xs
    ({ h with arrs := h.arrs ++ [new] }, ⟨h.arrs.length, new.length, new.length⟩)

/-- an event as the caller holds it: plain fields plus references into the heap. -/
structure EventH where
  core : Event
  pathRefs : List Nat      -- message ids whose cached maps are `Paths[i]`
  tagRef : Option Nat      -- message whose `tags` slice is `Tags`
  cat : Slice
  typ : Slice
deriving Repr, DecidableEq, Inhabited

/-- `Tags` read through the reference. -/
def tagsRead (h : Heap) (t : Option Nat) : List Bytes :=
  match t with
  | some i => (obsAt h i).tags
  | none => []

/-- the event as it reads through the heap now. -/
def deref (h : Heap) (eh : EventH) : Event :=
  { eh.core with
    paths := eh.pathRefs.map (fun i => ((obsAt h i).data).getD [])
    tags := tagsRead h eh.tagRef
    ecsCategory := readSlice h eh.cat
    ecsType := readSlice h eh.typ }

/-- the records that survive `filterEOE`, with their ids. -/
def kept (ids : List Nat) (views : List View) : List (Nat × View) :=
  (ids.zip views).take (filterEOE views).length

/-- the messages on which `CoalesceMessages` calls `Data()`. -/
def touched (pv : List (Nat × View)) : List Nat :=
  match pv with
  | [] => []
  | [p] => [p.1]
  | _ =>
    match pv.find? (fun p => decide (p.2.typ = SYSCALL)) with
    | none => []
    | some s => s.1 :: (pv.filter (fun p => !decide (p.2.typ = SYSCALL))).map (·.1)

/-- the message whose fields `newEvent` distributes (`none`: no event is built). -/
def primaryOf (pv : List (Nat × View)) : Option (Nat × View) :=
  match pv with
  | [] => none
  | [p] => some p
  | _ => pv.find? (fun p => decide (p.2.typ = SYSCALL))

/-- the message whose `tags` slice the event's `Tags` is (none: `newEvent` returned early). -/
def tagRefOf (pv : List (Nat × View)) : Option Nat :=
  match primaryOf pv with
  | some p => if p.2.data.isSome then some p.1 else none
  | none => none

def pathRefsOf (pv : List (Nat × View)) : List Nat :=
  match pv with
  | [] => []
  | [_] => []
  | _ => (pv.filter (fun p => decide (p.2.typ = PATH) && p.2.data.isSome)).map (·.1)

/-- the normalisation chosen for the assembled event and the additional syscall one. -/
def normChoice (T : Tables) (views : List View) : Option (Nat × Option Nat) :=
  match assemble T views with
  | .ok e0 =>
    let e := setHowDefaults e0
    match selectNorm T e with
    | none => none
    | some ni =>
      some (ni, extraNorm ni (syscallNormOf T e))
  | _ => none

def catSliceAt (h : Heap) (i : Nat) : Slice := (h.catSlices[i]?).getD nilSlice
def typSliceAt (h : Heap) (i : Nat) : Slice := (h.typSlices[i]?).getD nilSlice

/-- `event.ECS.Event.Category = norm.ECS.Category.Values` (an alias of the table's slice) and,
with an additional syscall normalisation, `append(…, syscallNorm.ECS.Category.Values...)`;
the same for `Type`. -/
def ecsSlices (h1 : Heap) (nc : Option (Nat × Option Nat)) : Heap × Slice × Slice :=
  match nc with
  | none => (h1, nilSlice, nilSlice)
  | some (ni, none) => (h1, catSliceAt h1 ni, typSliceAt h1 ni)
  | some (ni, some si) =>
    let a := appendSlice h1 (catSliceAt h1 ni) (readSlice h1 (catSliceAt h1 si))
    let b := appendSlice a.1 (typSliceAt a.1 ni) (readSlice a.1 (typSliceAt a.1 si))
    (b.1, a.2, b.2)

/-- `CoalesceMessages` on message objects. -/
def coalesceH (T : Tables) (h : Heap) (ids : List Nat) : Heap × Outcome EventH :=
  let views := ids.map (viewAt h)
  let pv := kept ids views
  let h1 := fill h (touched pv)
  let r := ecsSlices h1 (normChoice T views)
  match coalesce T views with
  | .ok e =>
    (r.1, .ok { core := e, pathRefs := pathRefsOf pv,
                tagRef := tagRefOf pv,
                cat := r.2.1, typ := r.2.2 })
  | .err x => (r.1, .err x)
  | .panic => (r.1, .panic)

/-- `ResolveIDsFromCaches`: rewrites plain fields of the one event only. -/
def resolveH (L : Lookups) (eh : EventH) : EventH := { eh with core := resolveIDs L eh.core }

/-! ### the ID caches (`stringCache`) -/

structure CacheItem where
  expire : Int
  value : Bytes
deriving Repr, DecidableEq, Inhabited

abbrev Cache := List (Bytes × CacheItem)

def Cache.find (k : Bytes) : Cache → Option CacheItem
  | [] => none
  | p :: r => if p.1 = k then some p.2 else Cache.find k r

def Cache.put (k : Bytes) (it : CacheItem) : Cache → Cache
  | [] => [(k, it)]
  | p :: r => if p.1 = k then (k, it) :: r else p :: Cache.put k it r

/-- `stringCache.lookup` — one atomic step (the whole body runs under the mutex).
`f` is `lookupFn`, `now1`/`now2` the two clock reads. -/
def Cache.lookup (f : Bytes → Bytes) (expiration : Int) (c : Cache) (key : Bytes) (now1 now2 : Int) :
    Cache × Bytes :=
  if key = [] ∨ key = vUnset then (c, [])
  else
    match Cache.find key c with
    | some it =>
      if now1 > it.expire then (Cache.put key ⟨now2 + expiration, f key⟩ c, f key) else (c, it.value)
    | none => (Cache.put key ⟨now2 + expiration, f key⟩ c, f key)

/-- a schedule: lookups in the order in which they take the mutex. -/
def Cache.run (f : Bytes → Bytes) (expiration : Int) (c : Cache) :
    List (Bytes × Int × Int) → Cache × List Bytes
  | [] => (c, [])
  | (k, t1, t2) :: rest =>
    let r := Cache.lookup f expiration c k t1 t2
    let rr := Cache.run f expiration r.1 rest
    (rr.1, r.2 :: rr.2)

end LA.Coalesce
