/-
Model of /repo/rule/flags/flags.go on a token list (shellquote.Split is outside the model: the
harness tokenises with the real library). Go's `flag.FlagSet.Parse` semantics are spelled out.
-/
import LA.Model.Rule

namespace LA.Flags
open LA LA.Rule
open LA.Auparse (Res)

structure FS where
  deleteAll : Bool := false
  append : Option (Bytes × Bytes) := none     -- (list, action)
  prepend : Option (Bytes × Bytes) := none
  filters : List FilterSpec := []
  syscalls : List Bytes := []
  path : Bytes := []
  pathSet : Bool := false
  perms : List Nat := []
  keys : List Bytes := []
  visited : List Nat := []                    -- flag letters seen (for validate)
deriving Repr, Inhabited

/-- strconv.ParseBool -/
def parseBool (s : Bytes) : Option Bool :=
  if [ofString "1", ofString "t", ofString "T", ofString "TRUE", ofString "true", ofString "True"].contains s then some true
  else if [ofString "0", ofString "f", ofString "F", ofString "FALSE", ofString "false", ofString "False"].contains s then some false
  else none

/-- addFlag.Set -/
def setAdd (cur : Option (Bytes × Bytes)) (value : Bytes) : Option (Bytes × Bytes) :=
  match cur with
  | some _ => none   -- given more than once
  | none =>
    let parts := splitByte 44 value
    if parts.length > 2 then none else
    let r := parts.foldl (fun (acc : Option (Bytes × Bytes)) part =>
      match acc with
      | none => none
      | some (l, a) =>
        let p := trimSpace part
        if p == ofString "task" || p == ofString "exit" || p == ofString "user" || p == ofString "exclude" then some (p, a)
        else if p == ofString "never" || p == ofString "always" then some (l, p)
        else none) (some ([], []))
    match r with
    | some (l, a) => if l.isEmpty || a.isEmpty then none else some (l, a)
    | none => none

def filterOps : List Bytes :=
  [ofString "<=", ofString ">=", ofString "&=", ofString "=", ofString "!=", ofString "<", ofString ">", ofString "&"]

/-- `(?s)^(\w+)\s*(<=|>=|&=|=|!=|<|>|&)(.+)$`: (lhs, op, rhs) -/
def matchFilter (value : Bytes) : Option (Bytes × Bytes × Bytes) :=
  let lhs := value.takeWhile isReWord
  if lhs.isEmpty then none else
  let r1 := (value.drop lhs.length).dropWhile isReSpace
  match filterOps.find? (fun op => hasPrefix op r1 && !(r1.drop op.length).isEmpty) with
  | some op => some (lhs, op, r1.drop op.length)
  | none => none

/-- `^(\w+)\s*(!?=)(\w+)$` -/
def matchComparison (value : Bytes) : Option (Bytes × Bytes × Bytes) :=
  let lhs := value.takeWhile isReWord
  if lhs.isEmpty then none else
  let r1 := (value.drop lhs.length).dropWhile isReSpace
  let (op, r2) : Bytes × Bytes := match r1 with
    | 33 :: 61 :: r => ([33, 61], r)
    | 61 :: r => ([61], r)
    | _ => ([], [])
  if op.isEmpty then none
  else if r2.isEmpty || !(r2.all isReWord) then none
  else some (lhs, op, r2)

/-- fileAccessTypeFlags.Set -/
def setPerms (cur : List Nat) (value : Bytes) : Option (List Nat) :=
  value.foldl (fun (acc : Option (List Nat)) b =>
    match acc with
    | none => none
    | some l =>
      if b == 114 then some (l ++ [1]) else if b == 119 then some (l ++ [2])
      else if b == 120 then some (l ++ [3]) else if b == 97 then some (l ++ [4]) else none) (some cur)

def splitList (value : Bytes) : List Bytes := (splitByte 44 value).map trimSpace

/-- apply one non-boolean flag (by its letter) with its value. -/
def setFlag (fs : FS) (name : Nat) (value : Bytes) : Option FS :=
  let fs := { fs with visited := fs.visited ++ [name] }
  if name == 97 then (setAdd fs.append value).map (fun v => { fs with append := some v })
  else if name == 65 then (setAdd fs.prepend value).map (fun v => { fs with prepend := some v })
  else if name == 67 then (matchComparison value).map (fun m => { fs with filters := fs.filters ++ [⟨1, m.1, m.2.1, m.2.2⟩] })
  else if name == 70 then (matchFilter value).map (fun m => { fs with filters := fs.filters ++ [⟨2, m.1, m.2.1, m.2.2⟩] })
  else if name == 83 then some { fs with syscalls := fs.syscalls ++ splitList value }
  else if name == 112 then (setPerms fs.perms value).map (fun p => { fs with perms := p })
  else if name == 119 then (if fs.pathSet then none else some { fs with path := value, pathSet := true })
  else if name == 107 then some { fs with keys := fs.keys ++ splitList value }
  else none

def valueFlags : List Nat := [97, 65, 67, 70, 83, 112, 119, 107]

/-- what flag.FlagSet.parseOne makes of one token -/
inductive Tok where
  | nonflag                                   -- shorter than two bytes or no leading '-': stops the flag loop
  | term                                      -- "--" terminates the flags
  | bad                                       -- bad flag syntax, or a name that is not one letter (incl. -help)
  | flag (n : Nat) (hasValue : Bool) (value : Bytes)   -- -n, -n=value, --n, --n=value
deriving Repr, DecidableEq

def classify (s : Bytes) : Tok :=
  match s with
  | 45 :: c :: tl =>
    if c == 45 && tl.isEmpty then .term else
    let name0 := if c == 45 then tl else c :: tl
    match name0 with
    | [] => .bad
    | h :: _ =>
      if h == 45 || h == 61 then .bad else            -- bad flag syntax
      let r : Bytes × Bool × Bytes :=
        match indexOf 61 (name0.drop 1) with
        | some i => (name0.take (i + 1), true, name0.drop (i + 2))
        | none => (name0, false, [])
      match r.1 with
      | [n] => .flag n r.2.1 r.2.2
      | _ => .bad
  | _ => .nonflag

/-- flag.FlagSet.Parse: returns the flag set and the number of positional arguments left. -/
def parseLoop : Nat → List Bytes → FS → Option (FS × Nat)
  | 0, _, _ => none
  | _, [], fs => some (fs, 0)
  | fuel + 1, s :: rest, fs =>
    match classify s with
    | .nonflag => some (fs, (s :: rest).length)           -- first non-flag argument stops parsing
    | .term => some (fs, rest.length)
    | .bad => none
    | .flag n hasValue value =>
      if n == 68 then                                      -- -D, boolean
        if hasValue then
          match parseBool value with
          | some b => parseLoop fuel rest { fs with deleteAll := b, visited := fs.visited ++ [68] }
          | none => none
        else parseLoop fuel rest { fs with deleteAll := true, visited := fs.visited ++ [68] }
      else if valueFlags.contains n then
        if hasValue then (setFlag fs n value).bind (parseLoop fuel rest)
        else match rest with
          | v :: rest' => (setFlag fs n v).bind (parseLoop fuel rest')
          | [] => none                                      -- flag needs an argument
      else none                                            -- unknown flag (incl. -h)

/-- validate + building the rule. -/
def finish (fs : FS) : Option Rule :=
  let del := fs.visited.contains 68
  let watch := fs.visited.any (fun n => n == 119 || n == 112)
  let sys := fs.visited.any (fun n => n == 97 || n == 65 || n == 67 || n == 70 || n == 83)
  let count := (if del then 1 else 0) + (if watch then 1 else 0) + (if sys then 1 else 0)
  if count != 1 then none
  else if del then some (.deleteAll fs.keys)
  else if watch then some (.watch fs.path fs.perms fs.keys)
  else
    match fs.prepend, fs.append with
    | none, none => none
    | some _, some _ => none
    | some p, none => some (.syscall 4 p.1 p.2 fs.filters fs.syscalls fs.keys)
    | none, some a => some (.syscall 3 a.1 a.2 fs.filters fs.syscalls fs.keys)

/-- flags.Parse on the tokens of the line: none = error. -/
def parseArgs (args : List Bytes) : Option Rule :=
  match parseLoop (args.length + 1) args {} with
  | none => none
  | some (fs, nargs) => if nargs > 0 then none else finish fs

end LA.Flags
