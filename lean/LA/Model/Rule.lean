/-
Model of /repo/rule (rule.go, binary.go, tables.go) and /repo/rule/flags (flags.go):
Build, ToCommandLine (resolveIds = false), flags.Parse on a token list.
Go index/slice expressions and array stores are checked; `Res.panic` is a distinct outcome.
Externals are parameters (`Env`): the runtime architecture is x86_64 (linux/amd64), os.Stat's
IsDir bit for the watch path, and the user/group databases.
-/
import LA.Base.Num
import LA.Model.MsgType
import LA.Model.Tables
import LA.Gen.RuleTables
import LA.Model.Auparse

namespace LA.Rule
open LA
open LA.Auparse (Res slice sliceFrom)


/-! ### rule values -/

structure FilterSpec where
  typ : Nat          -- 1 = inter-field (-C), 2 = value (-F); anything else is ignored by Build
  lhs : Bytes
  op : Bytes
  rhs : Bytes
deriving Repr, DecidableEq, Inhabited

inductive Rule where
  | syscall (typ : Nat) (list action : Bytes) (filters : List FilterSpec) (syscalls keys : List Bytes)
  | watch (path : Bytes) (perms : List Nat) (keys : List Bytes)
  | deleteAll (keys : List Bytes)
deriving Repr, DecidableEq, Inhabited

structure Env where
  isDir : Bool                      -- os.Stat(clean path).IsDir()
  users : List (Bytes × Nat)        -- user.Lookup(name).Uid for the names that resolve
  groups : List (Bytes × Nat)
deriving Repr, Inhabited

/-! ### ruleData -/

structure RuleData where
  flags : Nat := 0
  action : Nat := 0
  allSyscalls : Bool := true
  explicitAll : Bool := false
  syscalls : List Nat := []
  trips : List (Nat × Nat × Nat) := []   -- (field, value, operator): Go keeps three parallel slices
  strings : List Bytes := []
  arch : Bytes := []
deriving Repr, DecidableEq, Inhabited

def RuleData.fields (r : RuleData) : List Nat := r.trips.map (·.1)
def RuleData.values (r : RuleData) : List Nat := r.trips.map (·.2.1)
def RuleData.fieldFlags (r : RuleData) : List Nat := r.trips.map (·.2.2)

def runtimeArch : Bytes := ofString "x86_64"

def lookupB {α : Type} (l : List (Bytes × α)) (k : Bytes) : Option α := (l.find? (fun p => p.1 == k)).map (·.2)

def setList (list : Bytes) : Option Nat :=
  if list == ofString "exit" then some LA.Gen.RuleTables.exitFilter
  else if list == ofString "task" then some LA.Gen.RuleTables.taskFilter
  else if list == ofString "user" then some LA.Gen.RuleTables.userFilter
  else if list == ofString "exclude" then some LA.Gen.RuleTables.excludeFilter
  else none

def setAction (a : Bytes) : Option Nat :=
  if a == ofString "always" then some LA.Gen.RuleTables.alwaysAction
  else if a == ofString "never" then some LA.Gen.RuleTables.neverAction
  else none

/-! ### value parsers -/

def getUID (env : Env) (uid : Bytes) : Option Nat :=
  if uid == ofString "unset" || uid == ofString "-1" then some 4294967295 else
  match parseUintGo uid 10 32 with
  | .ok v => some v.toNat
  | .range => none
  | .syntax => lookupB env.users uid

def getGID (env : Env) (gid : Bytes) : Option Nat :=
  match parseUintGo gid 10 32 with
  | .ok v => some v.toNat
  | .range => none
  | .syntax => lookupB env.groups gid

def getExitCode (exit : Bytes) : Option Int :=
  match parseIntGo exit 0 32 with
  | .ok v => some v
  | .range => none
  | .syntax =>
    let (sign, code) : Int × Bytes := match exit with
      | 45 :: r => (-1, r)
      | r => (1, r)
    match Tables.errnoNum code with
    | some n => some (sign * n)
    | none => none

def getAuditMsgType (s : Bytes) : Option Nat :=
  match parseUintGo s 0 32 with
  | .ok v => some v.toNat
  | .range => none
  | .syntax => MsgType.getType s

def parseNum (s : Bytes) : Option Nat :=
  if s.head? == some 45 then
    match parseIntGo s 0 32 with
    | .ok v => some (toU32 v)
    | _ => none
  else
    match parseUintGo s 0 32 with
    | .ok v => some v.toNat
    | _ => none

def getArch (arch : Bytes) : Option (Bytes × Nat) :=
  let l := arch.map lowerB
  let real : Bytes := if l == ofString "b64" then runtimeArch else if l == ofString "b32" then ofString "i386" else arch
  match Tables.archCode real with
  | some c => some (real, c)
  | none => none

def getPerm (perm : Bytes) : Option Nat :=
  perm.foldl (fun (acc : Option Nat) b =>
    match acc with
    | none => none
    | some bits =>
      if b == 114 then some (bits ||| LA.Gen.RuleTables.readPerm)
      else if b == 119 then some (bits ||| LA.Gen.RuleTables.writePerm)
      else if b == 120 then some (bits ||| LA.Gen.RuleTables.execPerm)
      else if b == 97 then some (bits ||| LA.Gen.RuleTables.attrPerm)
      else none) (some 0)

def filetypeNames : List (Bytes × Nat) :=
  [(ofString "file", LA.Gen.RuleTables.fileFiletype), (ofString "dir", LA.Gen.RuleTables.dirFiletype), (ofString "socket", LA.Gen.RuleTables.socketFiletype),
   (ofString "symlink", LA.Gen.RuleTables.linkFiletype), (ofString "char", LA.Gen.RuleTables.characterFiletype), (ofString "block", LA.Gen.RuleTables.blockFiletype),
   (ofString "fifo", LA.Gen.RuleTables.fifoFiletype)]

def getFiletype (name : Bytes) : Option Nat :=
  match lookupB filetypeNames (name.map lowerB) with
  | some v => some v
  | none =>
    match parseUintGo name 10 32 with
    | .ok v => if filetypeNames.any (fun p => (p.2 : Int) == v) then some v.toNat else none
    | _ => none

/-! ### addFilter -/

def uidFields : List Nat := [LA.Gen.RuleTables.uidField, LA.Gen.RuleTables.euidField, LA.Gen.RuleTables.suidField, LA.Gen.RuleTables.fsuidField, LA.Gen.RuleTables.auidField, LA.Gen.RuleTables.objectUIDField]
def gidFields : List Nat := [LA.Gen.RuleTables.gidField, LA.Gen.RuleTables.egidField, LA.Gen.RuleTables.sgidField, LA.Gen.RuleTables.fsgidField, LA.Gen.RuleTables.objectGIDField]
def exitOnlyStringFields : List Nat :=
  [LA.Gen.RuleTables.objectUserField, LA.Gen.RuleTables.objectRoleField, LA.Gen.RuleTables.objectTypeField, LA.Gen.RuleTables.objectLevelLowField, LA.Gen.RuleTables.objectLevelHighField, LA.Gen.RuleTables.pathField, LA.Gen.RuleTables.dirField]
def otherStringFields : List Nat :=
  [LA.Gen.RuleTables.subjectUserField, LA.Gen.RuleTables.subjectRoleField, LA.Gen.RuleTables.subjectTypeField, LA.Gen.RuleTables.subjectSensitivityField, LA.Gen.RuleTables.subjectClearanceField, LA.Gen.RuleTables.keyField, LA.Gen.RuleTables.exeField]
def stringFields : List Nat := exitOnlyStringFields ++ otherStringFields
def excludeOkFields : List Nat :=
  [LA.Gen.RuleTables.pidField, LA.Gen.RuleTables.uidField, LA.Gen.RuleTables.gidField, LA.Gen.RuleTables.auidField, LA.Gen.RuleTables.msgTypeField, LA.Gen.RuleTables.subjectUserField, LA.Gen.RuleTables.subjectRoleField,
   LA.Gen.RuleTables.subjectTypeField, LA.Gen.RuleTables.subjectSensitivityField, LA.Gen.RuleTables.subjectClearanceField, LA.Gen.RuleTables.exeField]

def eqOp : Nat := 0x40000000
def neOp : Nat := 0x30000000

/-- the value word of a filter of field `f` with operator code `opc` on the rule so far, together
with the string to append to the buffer (string-valued fields) and the architecture it selects
(arch filter); none on error. -/
def filterValue (env : Env) (r : RuleData) (f opc : Nat) (rhs : Bytes) : Option (Nat × Option Bytes × Option Bytes) :=
  if uidFields.contains f then (getUID env rhs).map (fun v => (v, none, none))
  else if gidFields.contains f then (getGID env rhs).map (fun v => (v, none, none))
  else if f == LA.Gen.RuleTables.exitField then
    if r.flags != LA.Gen.RuleTables.exitFilter then none else (getExitCode rhs).map (fun c => (toU32 c, none, none))
  else if f == LA.Gen.RuleTables.msgTypeField then
    if r.flags != LA.Gen.RuleTables.userFilter && r.flags != LA.Gen.RuleTables.excludeFilter then none
    else (getAuditMsgType rhs).map (fun v => (v, none, none))
  else if stringFields.contains f then
    if exitOnlyStringFields.contains f && r.flags != LA.Gen.RuleTables.exitFilter then none
    else if f == LA.Gen.RuleTables.keyField && rhs.length > LA.Gen.RuleTables.maxKeyLength then none
    else if rhs.length > LA.Gen.RuleTables.pathMax then none
    else some (rhs.length, some rhs, none)
  else if f == LA.Gen.RuleTables.archField then
    if opc != eqOp && opc != neOp then none else
    (getArch rhs).map (fun p => (p.2, none, some p.1))
  else if f == LA.Gen.RuleTables.permField then
    if r.flags != LA.Gen.RuleTables.exitFilter then none
    else if opc != eqOp then none
    else (getPerm rhs).map (fun v => (v, none, none))
  else if f == LA.Gen.RuleTables.filetypeField then
    if r.flags != LA.Gen.RuleTables.exitFilter then none else (getFiletype rhs).map (fun v => (v, none, none))
  else if f == LA.Gen.RuleTables.inodeField then
    if r.flags != LA.Gen.RuleTables.exitFilter then none
    else if opc != eqOp && opc != neOp then none
    else (parseNum rhs).map (fun v => (v, none, none))
  else if f == LA.Gen.RuleTables.saddrFamField then
    (parseNum rhs).bind (fun n => if n == 2 || n == 10 then some (n, none, none) else none)
  else if [LA.Gen.RuleTables.devMajorField, LA.Gen.RuleTables.devMinorField, LA.Gen.RuleTables.successField, LA.Gen.RuleTables.ppidField].contains f then
    if r.flags != LA.Gen.RuleTables.exitFilter then none else (parseNum rhs).map (fun v => (v, none, none))
  else (parseNum rhs).map (fun v => (v, none, none))

/-- addFilter: look up operator and field, apply the exclude-list restriction, compute the value
and append the (field, value, operator) triple; none on error. -/
def addFilter (env : Env) (r : RuleData) (lhs op rhs : Bytes) : Option RuleData :=
  match lookupB LA.Gen.RuleTables.operatorsTable op, lookupB LA.Gen.RuleTables.fieldsTable lhs with
  | some opc, some f =>
    if r.flags == LA.Gen.RuleTables.excludeFilter && !(excludeOkFields.contains f) then none else
    (filterValue env r f opc rhs).map (fun x =>
      { r with trips := r.trips ++ [(f, x.1, opc)],
               strings := match x.2.1 with | some s => r.strings ++ [s] | none => r.strings,
               arch := match x.2.2 with | some a => a | none => r.arch })
  | _, _ => none

def lookupComparison (l r : Nat) : Option Nat :=
  (LA.Gen.RuleTables.comparisonsTable.find? (fun e => e.1 == l && e.2.1 == r)).map (·.2.2)

def addInterField (r : RuleData) (lhs op rhs : Bytes) : Option RuleData :=
  match lookupB LA.Gen.RuleTables.operatorsTable op with
  | none => none
  | some opc =>
    if opc != eqOp && opc != neOp then none else
    match lookupB LA.Gen.RuleTables.fieldsTable lhs, lookupB LA.Gen.RuleTables.fieldsTable rhs with
    | some lf, some rf =>
      if !(LA.Gen.RuleTables.comparisonsTable.any (fun e => e.1 == lf)) then none else
      match lookupComparison lf rf with
      | none => none
      | some c => some { r with trips := r.trips ++ [(LA.Gen.RuleTables.fieldCompare, c, opc)] }
    | _, _ => none

def addSyscall (r : RuleData) (sc : Bytes) : Option RuleData :=
  if sc == ofString "all" then some { r with allSyscalls := true, explicitAll := true } else
  let r := { r with allSyscalls := r.explicitAll }
  let num : Option Int :=
    match atoiGo sc with
    | .ok n => some n
    | .range => none
    | .syntax =>
      let arch := if r.arch.isEmpty then runtimeArch else r.arch
      match Tables.sysTable arch with
      | none => none
      | some _ => (Tables.syscallNum arch sc).map (fun n => (n : Int))
  match num with
  | none => none
  | some n =>
    if n < 0 ∨ n ≥ (LA.Gen.RuleTables.syscallBitmaskSize * 32 : Nat) then none
    else some { r with syscalls := r.syscalls ++ [n.toNat] }

def addKeys (env : Env) (r : RuleData) (keys : List Bytes) : Option RuleData :=
  if keys.isEmpty then some r else addFilter env r (ofString "key") [61] (joinWith [LA.Gen.RuleTables.keySeparator] keys)

/-! ### filepath.Clean (rooted and relative paths, Unix) -/

def splitSlash (p : Bytes) : List Bytes := (splitByte 47 p).filter (fun c => !c.isEmpty)

/-- lexical processing of path components; `out` is the reversed stack. -/
def cleanComps (rooted : Bool) : List Bytes → List Bytes → List Bytes
  | [], out => out.reverse
  | c :: cs, out =>
    if c == [46] then cleanComps rooted cs out
    else if c == [46, 46] then
      match out with
      | top :: rest => if top == [46, 46] then cleanComps rooted cs (c :: out) else cleanComps rooted cs rest
      | [] => if rooted then cleanComps rooted cs [] else cleanComps rooted cs [c]
    else cleanComps rooted cs (c :: out)

def pathClean (p : Bytes) : Bytes :=
  if p.isEmpty then [46] else
  let rooted := p.head? == some 47
  let comps := cleanComps rooted (splitSlash p) []
  let body := joinWith [47] comps
  if rooted then 47 :: body else if body.isEmpty then [46] else body

def addFileWatch (env : Env) (path : Bytes) (perms : List Nat) (keys : List Bytes) : Option RuleData :=
  let path := pathClean path
  if path.head? != some 47 then none else
  let watchType := if env.isDir then ofString "dir" else ofString "path"
  let permStr : Bytes := if perms.isEmpty then ofString "rwxa" else
    perms.flatMap (fun p => if p == 1 then [114] else if p == 2 then [119] else if p == 3 then [120] else if p == 4 then [97] else [])
  let r : RuleData := { flags := LA.Gen.RuleTables.exitFilter, action := LA.Gen.RuleTables.alwaysAction, allSyscalls := true }
  (addFilter env r watchType [61] path).bind fun r =>
  (addFilter env r (ofString "perm") [61] permStr).bind fun r =>
  addKeys env r keys

/-- the ruleData that Build accumulates, or none on error. -/
def ruleDataOf (env : Env) : Rule → Option RuleData
  | .syscall _ list action filters syscalls keys =>
    match setList list, setAction action with
    | some fl, some ac =>
      let r0 : RuleData := { flags := fl, action := ac, allSyscalls := true }
      let r1 := filters.foldl (fun (acc : Option RuleData) f =>
        acc.bind fun r =>
          if f.typ == 2 then addFilter env r f.lhs f.op f.rhs
          else if f.typ == 1 then addInterField r f.lhs f.op f.rhs
          else some r) (some r0)
      let r2 := syscalls.foldl (fun (acc : Option RuleData) s => acc.bind fun r => addSyscall r s) r1
      r2.bind fun r => addKeys env r keys
    | _, _ => none
  | .watch path perms keys => addFileWatch env path perms keys
  | .deleteAll _ => none

/-! ### wire format -/

def le32 (w : Nat) : Bytes := [w % 256, w / 256 % 256, w / 65536 % 256, w / 16777216 % 256]

def padTo (n : Nat) (l : List Nat) : List Nat := l ++ List.replicate (n - l.length) 0

/-- mask word `w` for the syscall list (bits of numbers in [32w, 32w+32)). -/
def maskWord (syscalls : List Nat) (w : Nat) : Nat :=
  (List.range 32).foldl (fun acc bit => if syscalls.contains (w * 32 + bit) then acc + 2 ^ bit else acc) 0

def maskOf (r : RuleData) : List Nat :=
  if r.allSyscalls then List.replicate 63 0xFFFFFFFF ++ [0x0000FFFF]
  else (List.range 64).map (maskWord r.syscalls)

/-- `for i := range r.fields { data.Fields[i] = … }`: stores into a fixed array of `n` words;
a store beyond the array is a panic. -/
def storeAll (n : Nat) (vals : List Nat) : Res (List Nat) :=
  if vals.length ≤ n then Res.ok (padTo n vals) else Res.panic

/-- toAuditRuleData + toWireFormat; error when there are too many fields. -/
def toWire (r : RuleData) : Res Bytes :=
  if r.fields.length > LA.Gen.RuleTables.maxFields then Res.err "err" else do
  let fields ← storeAll 64 r.fields
  let values ← storeAll 64 r.values
  let fflags ← storeAll 64 r.fieldFlags
  let buf := r.strings.flatten
  let hdr := le32 r.flags ++ le32 r.action ++ le32 r.fields.length ++ (maskOf r).flatMap le32 ++
    fields.flatMap le32 ++ values.flatMap le32 ++ fflags.flatMap le32 ++
    le32 (buf.length % 4294967296)
  let n := hdr.length + buf.length
  Res.ok (hdr ++ buf ++ List.replicate ((4 - n % 4) % 4) 0)

/-- rule.Build -/
def build (env : Env) (rule : Rule) : Res Bytes :=
  match ruleDataOf env rule with
  | none => Res.err "err"
  | some r => toWire r

/-! ### decoding -/

def rd32 (b : Bytes) (off : Nat) : Res Nat :=
  match slice b off (off + 4) with
  | .ok [a, c, d, e] => Res.ok (a + c * 256 + d * 65536 + e * 16777216)
  | .ok _ => Res.panic
  | .err x => Res.err x
  | .panic => Res.panic

def rdWords (b : Bytes) (off : Nat) : Nat → Res (List Nat)
  | 0 => Res.ok []
  | n + 1 => do
    let w ← rd32 b off
    let rest ← rdWords b (off + 4) n
    Res.ok (w :: rest)

structure Ard where
  flags : Nat
  action : Nat
  fieldCount : Nat
  mask : List Nat
  fields : List Nat
  values : List Nat
  fieldFlags : List Nat
  bufLen : Nat
  buf : Bytes
deriving Repr, DecidableEq, Inhabited

def headerSize : Nat := 1040

/-- fromWireFormat -/
def fromWire (data : Bytes) : Res Ard :=
  if data.length < headerSize then Res.err "err" else do
  let flags ← rd32 data 0
  let action ← rd32 data 4
  let fc ← rd32 data 8
  let mask ← rdWords data 12 64
  let fields ← rdWords data 268 64
  let values ← rdWords data 524 64
  let ff ← rdWords data 780 64
  let bufLen ← rd32 data 1036
  if (data.length - headerSize) % 4294967296 < bufLen then Res.err "err" else
  let buf ← slice data headerSize (headerSize + bufLen)
  Res.ok { flags := flags, action := action, fieldCount := fc, mask := mask, fields := fields, values := values,
           fieldFlags := ff, bufLen := bufLen, buf := buf }

def getAt (l : List Nat) (i : Nat) : Res Nat := match l[i]? with | some v => Res.ok v | none => Res.panic

def syscallsOfMask (mask : List Nat) : List Nat :=
  (mask.zipIdx).flatMap (fun p => (List.range 32).filterMap (fun bit => if p.1 / 2 ^ bit % 2 == 1 then some (p.2 * 32 + bit) else none))

/-- the field loop of fromAuditRuleData: collects fields/values/flags and the strings. -/
def decodeFields (a : Ard) : Nat → Nat → Nat → Res (List Nat × List Nat × List Nat × List Bytes)
  | 0, _, _ => Res.ok ([], [], [], [])
  | n + 1, i, offset => do
    let f ← getAt a.fields i
    let op ← getAt a.fieldFlags i
    let v ← getAt a.values i
    if stringFields.contains f then
      if v > a.bufLen - offset then Res.err "err" else
      let s ← slice a.buf offset (offset + v)
      let (fs, vs, ops, ss) ← decodeFields a n (i + 1) (offset + v)
      Res.ok (f :: fs, v :: vs, op :: ops, s :: ss)
    else
      let (fs, vs, ops, ss) ← decodeFields a n (i + 1) offset
      Res.ok (f :: fs, v :: vs, op :: ops, ss)

/-- fromAuditRuleData -/
def fromArd (a : Ard) : Res RuleData :=
  if a.fieldCount > LA.Gen.RuleTables.maxFields then Res.err "err" else do
  let allSys := (a.mask.take 63).all (· == 0xFFFFFFFF)
  let (fs, vs, ops, ss) ← decodeFields a a.fieldCount 0 0
  Res.ok { flags := a.flags, action := a.action, allSyscalls := allSys,
           syscalls := if allSys then [] else syscallsOfMask a.mask,
           trips := List.zip fs (List.zip vs ops), strings := ss }

/-! ### ToCommandLine -/

def getList (f : Nat) : Option Bytes :=
  if f == LA.Gen.RuleTables.exitFilter then some (ofString "exit") else if f == LA.Gen.RuleTables.taskFilter then some (ofString "task")
  else if f == LA.Gen.RuleTables.userFilter then some (ofString "user") else if f == LA.Gen.RuleTables.excludeFilter then some (ofString "exclude") else none

def getAction (a : Nat) : Option Bytes :=
  if a == LA.Gen.RuleTables.alwaysAction then some (ofString "always") else if a == LA.Gen.RuleTables.neverAction then some (ofString "never") else none

def revLookup (l : List (Bytes × Nat)) (v : Nat) : Option Bytes := (l.find? (fun p => p.2 == v)).map (·.1)

def permString (bits : Nat) : Bytes :=
  (if bits &&& LA.Gen.RuleTables.readPerm != 0 then [114] else []) ++ (if bits &&& LA.Gen.RuleTables.writePerm != 0 then [119] else []) ++
  (if bits &&& LA.Gen.RuleTables.execPerm != 0 then [120] else []) ++ (if bits &&& LA.Gen.RuleTables.attrPerm != 0 then [97] else [])

def X86_64 : Nat := 0xc000003e
def I386 : Nat := 0x40000003

def getDisplayArch (archID : Nat) : Option Bytes :=
  if archID == X86_64 then some (ofString "b64")
  else if archID == I386 then some (ofString "b32")
  else Tables.archName archID

/-- asFileWatch -/
def asFileWatch (r : RuleData) : Option (Bytes × Bytes × Bytes) :=
  let n := r.fields.length
  if !r.allSyscalls || r.flags != LA.Gen.RuleTables.exitFilter || r.action != LA.Gen.RuleTables.alwaysAction || (n != 2 && n != 3) || r.strings.length != n - 1 then none
  else if !(r.fieldFlags.all (· == eqOp)) then none
  else match r.fields, r.values, r.strings with
    | f0 :: f1 :: frest, _ :: v1 :: _, path :: srest =>
      if (f0 != LA.Gen.RuleTables.pathField && f0 != LA.Gen.RuleTables.dirField) || f1 != LA.Gen.RuleTables.permField then none
      else if path.head? != some 47 || pathClean path != path then none
      else if v1 == 0 || v1 &&& 15 != v1 then none
      else match frest, srest with
        | [], _ => some (path, permString v1, [])
        | f2 :: _, key :: _ =>
          if f2 != LA.Gen.RuleTables.keyField || key.isEmpty || key.contains 44 then none else some (path, permString v1, key)
        | _, _ => none
    | _, _, _ => none

def exitString (value : Nat) : Bytes :=
  let code : Int := if value ≥ 2147483648 then (value : Int) - 4294967296 else value
  match (if code ≤ 0 then Tables.errnoName (-code).toNat else none) with
  | some name => 45 :: name
  | none => decInt code

def fieldRhs (f value : Nat) : Bytes :=
  if f == LA.Gen.RuleTables.exitField then exitString value
  else if uidFields.contains f then (if value == 4294967295 then ofString "-1" else dec value)
  else if f == LA.Gen.RuleTables.msgTypeField then (if value ≤ 65535 then MsgType.typeName value else dec value)
  else if f == LA.Gen.RuleTables.permField then permString value
  else dec value

/-- the "-F"/"-C" arguments for the fields; strings are consumed in order. -/
def printFields : List Nat → List Nat → List Nat → List Bytes → Option (List Bytes)
  | [], _, _, _ => some []
  | f :: fs, v :: vs, op :: ops, strs =>
    match revLookup LA.Gen.RuleTables.operatorsTable op with
    | none => none
    | some opS =>
      if f == LA.Gen.RuleTables.archField then printFields fs vs ops strs
      else if f == LA.Gen.RuleTables.fieldCompare then
        match LA.Gen.RuleTables.comparisonsTable.find? (fun e => e.2.2 == v) with
        | none => none
        | some e =>
          let a := min e.1 e.2.1
          let b := max e.1 e.2.1
          match revLookup LA.Gen.RuleTables.fieldsTable a, revLookup LA.Gen.RuleTables.fieldsTable b with
          | some an, some bn =>
            (printFields fs vs ops strs).map (fun rest => (ofString "-C " ++ an ++ opS ++ bn) :: rest)
          | _, _ => none
      else
        match revLookup LA.Gen.RuleTables.fieldsTable f with
        | none => none
        | some lhs =>
          if stringFields.contains f then
            match strs with
            | [] => none
            | s :: srest => (printFields fs vs ops srest).map (fun rest => (ofString "-F " ++ lhs ++ opS ++ s) :: rest)
          else (printFields fs vs ops strs).map (fun rest => (ofString "-F " ++ lhs ++ opS ++ fieldRhs f v) :: rest)
  | _, _, _, _ => none

def lastIndexOf (l : List Nat) (x : Nat) : Option Nat :=
  ((l.zipIdx).filter (fun p => p.1 == x)).getLast?.map (·.2)

/-- ToCommandLine on decoded rule data (resolveIds = false). -/
def cmdLineOf (r : RuleData) : Option Bytes :=
  match getList r.flags, getAction r.action with
  | some list, some act =>
    match asFileWatch r with
    | some (path, perm, key) =>
      some (joinWith [32] ([ofString "-w", path, ofString "-p", perm] ++ (if key.isEmpty then [] else [ofString "-k", key])))
    | none =>
      let head := [ofString "-a", act ++ [44] ++ list]
      -- arch first
      let archPart : Option (List Bytes × Bytes) :=
        match lastIndexOf r.fields LA.Gen.RuleTables.archField with
        | none => some ([], [])
        | some i =>
          match r.values[i]?, r.fieldFlags[i]? with
          | some v, some op =>
            match getDisplayArch v, revLookup LA.Gen.RuleTables.operatorsTable op with
            | some a, some opS => some ([ofString "-F", ofString "arch" ++ opS ++ a], a)
            | _, _ => none
          | _, _ => none
      match archPart with
      | none => none
      | some (archArgs, rarch) =>
        let sysArgs : List Bytes :=
          if r.allSyscalls then
            (if r.flags == LA.Gen.RuleTables.exitFilter || r.flags == LA.Gen.RuleTables.entryFilter then [ofString "-S", ofString "all"] else [])
          else if r.syscalls.isEmpty then []
          else
            let arch := if rarch == ofString "b32" then ofString "i386"
              else if !rarch.isEmpty && rarch != ofString "b64" then rarch else runtimeArch
            [ofString "-S", joinWith [44] (r.syscalls.map (fun n =>
              match Tables.syscallName arch n with | some nm => nm | none => dec n))]
        match printFields r.fields r.values r.fieldFlags r.strings with
        | none => none
        | some fieldArgs => some (joinWith [32] (head ++ archArgs ++ sysArgs ++ fieldArgs))
  | _, _ => none

/-- rule.ToCommandLine(wf, false) -/
def toCommandLine (wf : Bytes) : Res Bytes := do
  let a ← fromWire wf
  let r ← fromArd a
  match cmdLineOf r with
  | some s => Res.ok s
  | none => Res.err "err"

end LA.Rule
