/-
Model of auparse's record-type name conversions (zaudit_msg_types.go):
AuditMessageType.String / MarshalText / GetAuditMessageType / UnmarshalText,
over the regenerated tables LA.Gen.MsgTypes.
Fidelity domain of `getType`: ASCII names (Go's strings.ToUpper applies Unicode case
mapping to non-ASCII input).
-/
import LA.Base.Ascii
import LA.Base.Table
import LA.Gen.MsgTypes

namespace LA.MsgType
open LA LA.Gen.MsgTypes

def unknownPrefix : Bytes := [85, 78, 75, 78, 79, 87, 78, 91]  -- "UNKNOWN["

def unknownName (t : Nat) : Bytes := unknownPrefix ++ dec (t % 65536) ++ [93]

/-- `AuditMessageType(t).String()` -/
def typeName (t : Nat) : Bytes :=
  match typeTree.find t with
  | some i =>
    match typeToName[i]? with
    | some (t', n) => if t' == t then n else unknownName t
    | none => unknownName t
  | none => unknownName t

/-- `MarshalText` -/
def marshalText (t : Nat) : Bytes := lower (typeName t)

/-- `GetAuditMessageType(name)`; `none` is the error result. -/
def getType (name : Bytes) : Option Nat :=
  let u := upper name
  match nameTree.find (encode u) with
  | some t => some t
  | none =>
    match indexOf 91 u with
    | none => none
    | some i =>
      let rest := u.drop (i + 1)
      match indexOf 93 rest with
      | none => none
      | some j => parseUint (rest.take j) 65535

/-- `UnmarshalText` -/
def unmarshalText (text : Bytes) : Option Nat := getType text

end LA.MsgType
