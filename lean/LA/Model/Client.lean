/-
Model of AuditClient (/repo/audit.go) over an abstract netlink endpoint (the simulated kernel of
harness/cmd/drive/client_sim.go).

Endpoint: `send` assigns the next sequence number (as NetlinkClient.Send does), logs the message
and appends the response plan of that request to the receive queue; `receive` pops the next queue
item: a transient failure (EINTR / EAGAIN), a hard failure, "no messages", or a raw datagram that
is copied into THE receive buffer (one buffer, reused, as in NetlinkClient) and handed to
parseNetlinkAuditMessage.  An exhausted queue is a hard failure.

Returned byte slices are `Ref`s: `owned` (a copy) or `view` (a window of the receive buffer whose
content is whatever the buffer holds when it is read), so that "GetRules returns copies" is a
statement and not a modelling accident.

External inputs: `os.Getpid()` is an argument of `setPID`.  `time.Sleep` after EAGAIN has no
observable effect and is not modelled.  Errors are classes, not texts.
-/
import LA.Model.Netlink

namespace LA.Client
open LA.Netlink

/-! ### constants (tied to the source through `LA.Gen.ClientConsts`, see Props/C16) -/

def AuditGet : Nat := 1000
def AuditSet : Nat := 1001
def AUDIT_ADD_RULE : Nat := 1011
def AUDIT_DEL_RULE : Nat := 1012
def AUDIT_LIST_RULES : Nat := 1013

def WaitForReply : Nat := 1
def NoWait : Nat := 2

def AuditStatusEnabled : Nat := 1
def AuditStatusFailure : Nat := 2
def AuditStatusPID : Nat := 4
def AuditStatusRateLimit : Nat := 8
def AuditStatusBacklogLimit : Nat := 16
def AuditStatusBacklogWaitTime : Nat := 32
def AuditStatusLost : Nat := 64

def sizeofAuditStatus : Nat := 44
def MinSizeofAuditStatus : Nat := 32

/-! ### AuditStatus -/

structure Status where
  mask : Nat := 0
  enabled : Nat := 0
  failure : Nat := 0
  pid : Nat := 0
  rateLimit : Nat := 0
  backlogLimit : Nat := 0
  lost : Nat := 0
  backlog : Nat := 0
  featureBitmap : Nat := 0
  backlogWaitTime : Nat := 0
  backlogWaitTimeActual : Nat := 0
deriving Repr, DecidableEq, Inhabited

def Status.zero : Status := {}

/-- the eleven uint32 fields in declaration order -/
def Status.words (s : Status) : List Nat :=
  [s.mask, s.enabled, s.failure, s.pid, s.rateLimit, s.backlogLimit, s.lost, s.backlog,
   s.featureBitmap, s.backlogWaitTime, s.backlogWaitTimeActual]

/-- `toWireFormat`: the memory image of the struct (44 bytes). -/
def Status.toWire (s : Status) : Bytes :=
  le32 s.mask ++ le32 s.enabled ++ le32 s.failure ++ le32 s.pid ++ le32 s.rateLimit ++
  le32 s.backlogLimit ++ le32 s.lost ++ le32 s.backlog ++ le32 s.featureBitmap ++
  le32 s.backlogWaitTime ++ le32 s.backlogWaitTimeActual

/-- the struct whose memory image is the first 44 bytes of `b` -/
def Status.ofBytes (b : Bytes) : Status :=
  { mask := rd32 b 0, enabled := rd32 b 4, failure := rd32 b 8, pid := rd32 b 12,
    rateLimit := rd32 b 16, backlogLimit := rd32 b 20, lost := rd32 b 24, backlog := rd32 b 28,
    featureBitmap := rd32 b 32, backlogWaitTime := rd32 b 36, backlogWaitTimeActual := rd32 b 40 }

/-- Go's builtin `copy(dst, src)`: the first `min (len dst) (len src)` bytes of `dst` are replaced. -/
def copyInto (dst src : Bytes) : Bytes := src.take dst.length ++ dst.drop src.length

/-- memory image of the receiver after `FromWireFormat(buf)`; `none` = `io.ErrUnexpectedEOF`
(receiver untouched).  `recv` is the receiver's previous value. -/
def fromWireBytes (recv : Status) (buf : Bytes) : Option Bytes :=
  if buf.length < MinSizeofAuditStatus then none
  else
    let base := if buf.length < sizeofAuditStatus then Status.zero else recv
    some (copyInto base.toWire buf)

def fromWire (recv : Status) (buf : Bytes) : Option Status :=
  (fromWireBytes recv buf).map Status.ofBytes

/-! ### the endpoint -/

/-- one thing `Netlink.Receive` can do -/
inductive Item where
  | eintr
  | eagain
  | fail               -- any error that is neither EINTR nor EAGAIN
  | nothing            -- empty message slice, nil error
  | raw (b : Bytes)    -- a datagram
deriving Repr, DecidableEq, Inhabited

def Item.transient : Item → Bool
  | .eintr => true
  | .eagain => true
  | _ => false

/-- a planned item: `patch = some d` overwrites bytes 8..11 of a datagram (the header's sequence
field) with the request's own sequence number plus `d` (mod 2^32). -/
structure PItem where
  item  : Item
  patch : Option Nat := none
deriving Repr, DecidableEq, Inhabited

/-- the simulated kernel's reaction to one request -/
structure Plan where
  sendOk : Bool := true
  items  : List PItem := []
deriving Repr, DecidableEq, Inhabited

def patchSeq (b : Bytes) (q : Nat) : Bytes :=
  if b.length < 12 then b else b.take 8 ++ le32 q ++ b.drop 12

def resolve (own : Nat) (p : PItem) : Item :=
  match p.item, p.patch with
  | .raw b, some d => .raw (patchSeq b ((own + d) % 4294967296))
  | it, _ => it

/-- a message as logged by the endpoint's `Send` -/
structure Sent where
  typ   : Nat
  flags : Nat
  seq   : Nat
  data  : Bytes
deriving Repr, DecidableEq, Inhabited

structure St where
  seq      : Nat                -- endpoint: last sequence number handed out
  plans    : List Plan          -- endpoint: reactions to the coming requests
  queue    : List Item          -- endpoint: what the coming Receive calls will do
  buf      : Bytes              -- endpoint: THE receive buffer
  sent     : List Sent          -- endpoint: every message passed to Send
  recvs    : Nat                -- endpoint: number of Receive calls
  closes   : Nat                -- endpoint: number of Close calls
  closeOk  : Bool               -- endpoint: whether Close succeeds
  pending  : List Nat           -- AuditClient.pendingAcks
  clearPID : Bool               -- AuditClient.clearPIDOnClose
  once     : Bool               -- AuditClient.closeOnce has fired
deriving Repr, DecidableEq, Inhabited

def St.init (seq0 bufLen : Nat) (closeOk : Bool) : St :=
  { seq := seq0, plans := [], queue := [], buf := List.replicate bufLen 0, sent := [], recvs := 0,
    closes := 0, closeOk := closeOk, pending := [], clearPID := false, once := false }

/-- `Netlink.Send`: returns the state, the sequence number and whether the send succeeded. -/
def send (s : St) (typ flags : Nat) (data : Bytes) : St × Nat × Bool :=
  let q := (s.seq + 1) % 4294967296
  let plan := s.plans.headD {}
  ({ s with seq := q, plans := s.plans.tail, sent := s.sent ++ [⟨typ, flags, q, data⟩],
            queue := s.queue ++ plan.items.map (resolve q) }, q, plan.sendOk)

inductive Recv where
  | transient (again : Bool)     -- EINTR (false) / EAGAIN (true)
  | hard
  | msgs (m : Option Msg)        -- parseNetlinkAuditMessage yields exactly one message
deriving Repr, DecidableEq, Inhabited

/-- `Netlink.Receive(nonBlocking, parseNetlinkAuditMessage)` -/
def receive (s : St) : St × Recv :=
  match s.queue with
  | [] => ({ s with recvs := s.recvs + 1 }, .hard)
  | it :: q =>
    let s' := { s with queue := q, recvs := s.recvs + 1 }
    match it with
    | .eintr => (s', .transient false)
    | .eagain => (s', .transient true)
    | .fail => (s', .hard)
    | .nothing => (s', .msgs none)
    | .raw b =>
      let s'' := { s' with buf := b ++ s.buf.drop b.length }
      match parseAudit b with
      | .ok m => (s'', .msgs (some m))
      | _ => (s'', .hard)

/-! ### results -/

inductive Err where
  | send                     -- Netlink.Send failed
  | recv                     -- Netlink.Receive failed hard
  | noReply                  -- ten transient failures in a row, or no message
  | seqMismatch (got : Nat)  -- reply carries another request's sequence number
  | ackType (t : Nat)        -- the ACK is not NLMSG_ERROR
  | replyType (t : Nat)      -- a data message of an unexpected type
  | short                    -- NLMSG_ERROR payload shorter than 4 bytes
  | errno (n : Nat)          -- the kernel's errno
  | eof                      -- io.ErrUnexpectedEOF (status reply shorter than 32 bytes)
  | close                    -- Netlink.Close failed
  | fuel                     -- never produced (see Proofs/Client: `getReply_fuel`)
deriving Repr, DecidableEq, Inhabited

/-- a byte slice handed to the caller -/
inductive Ref where
  | owned (b : Bytes)          -- freshly allocated copy
  | view (off len : Nat)       -- window of the receive buffer
deriving Repr, DecidableEq, Inhabited

def Ref.deref (buf : Bytes) : Ref → Bytes
  | .owned b => b
  | .view off len => (buf.drop off).take len

inductive Data where
  | none
  | status (s : Status)
  | rules (rs : List Ref)
  | count (n : Nat)
  | seq (n : Nat)
  | raw (typ : Nat) (d : Ref)
deriving Repr, DecidableEq, Inhabited

inductive Out where
  | ok (d : Data)
  | fail (e : Err)
  | panic                      -- Go run-time panic (index out of range)
deriving Repr, DecidableEq, Inhabited

/-! ### getReply -/

/-- the inner retry loop: up to `n` non-blocking receives, stopping at the first that is not a
transient failure.  Falling out of the loop leaves `msgs` nil. -/
def tryRecv : Nat → St → St × Recv
  | 0, s => (s, .msgs none)
  | n + 1, s =>
    match receive s with
    | (s', .transient _) => tryRecv n s'
    | r => r

/-- `getReply` with explicit fuel for the outer "skip sequence-0 events" loop. -/
def getReplyF (seq : Nat) : Nat → St → St × Except Err Msg
  | 0, s => (s, .error .fuel)
  | f + 1, s =>
    match tryRecv 10 s with
    | (s', .transient _) => (s', .error .noReply)   -- not produced by tryRecv
    | (s', .hard) => (s', .error .recv)
    | (s', .msgs none) => (s', .error .noReply)
    | (s', .msgs (some m)) =>
      if m.hdr.seq = 0 ∧ seq ≠ 0 then getReplyF seq f s'
      else if m.hdr.seq ≠ seq then (s', .error (.seqMismatch m.hdr.seq))
      else (s', .ok m)

/-- every iteration that continues has consumed a queue item, so `queue.length + 1` iterations suffice -/
def getReply (seq : Nat) (s : St) : St × Except Err Msg := getReplyF seq (s.queue.length + 1) s

/-- the check every command applies to its ACK: `NLMSG_ERROR` whose errno is 0 -/
def checkAck (m : Msg) : Option Err :=
  if m.hdr.typ ≠ NLMSG_ERROR then some (.ackType m.hdr.typ)
  else match parseNetlinkError m.data with
    | .none => none
    | .errno n => some (.errno n)
    | .short => some .short
    | .oob => some .fuel

/-! ### commands -/

/-- `GetStatusAsync(requireACK)` -/
def getStatusAsync (s : St) (requireACK : Bool) : St × Nat × Bool :=
  send s AuditGet (if requireACK then NLM_F_REQUEST + NLM_F_ACK else NLM_F_REQUEST) []

/-- `GetStatus` -/
def getStatus (s : St) : St × Out :=
  match getStatusAsync s true with
  | (s1, _, false) => (s1, .fail .send)
  | (s1, q, true) =>
    match getReply q s1 with
    | (s2, .error e) => (s2, .fail e)
    | (s2, .ok ack) =>
      match checkAck ack with
      | some e => (s2, .fail e)
      | none =>
        match getReply q s2 with
        | (s3, .error e) => (s3, .fail e)
        | (s3, .ok reply) =>
          if reply.hdr.typ ≠ AuditGet then (s3, .fail (.replyType reply.hdr.typ))
          else match fromWire Status.zero reply.data with
            | none => (s3, .fail .eof)
            | some st => (s3, .ok (.status st))

/-- the receive loop of `GetRules`: collect copies of the payloads until NLMSG_DONE -/
def rulesLoop (q : Nat) : Nat → St → List Ref → St × Except Err (List Ref)
  | 0, s, _ => (s, .error .fuel)
  | f + 1, s, acc =>
    match getReply q s with
    | (s1, .error e) => (s1, .error e)
    | (s1, .ok reply) =>
      if reply.hdr.typ = NLMSG_DONE then (s1, .ok acc)
      else if reply.hdr.typ ≠ AUDIT_LIST_RULES then (s1, .error (.replyType reply.hdr.typ))
      else rulesLoop q f s1 (acc ++ [.owned reply.data])   -- make + copy

/-- `GetRules` (as a function returning the list, used by DeleteRules too) -/
def getRulesE (s : St) : St × Except Err (List Ref) :=
  match send s AUDIT_LIST_RULES (NLM_F_REQUEST + NLM_F_ACK) [] with
  | (s1, _, false) => (s1, .error .send)
  | (s1, q, true) =>
    match getReply q s1 with
    | (s2, .error e) => (s2, .error e)
    | (s2, .ok ack) =>
      match checkAck ack with
      | some e => (s2, .error e)
      | none => rulesLoop q (s2.queue.length + 1) s2 []

def getRules (s : St) : St × Out :=
  match getRulesE s with
  | (s1, .error e) => (s1, .fail e)
  | (s1, .ok rs) => (s1, .ok (.rules rs))

/-- `DeleteRule` (after the fix: the ACK's type and errno are checked) -/
def deleteRule (s : St) (rule : Bytes) : St × Out :=
  match send s AUDIT_DEL_RULE (NLM_F_REQUEST + NLM_F_ACK) rule with
  | (s1, _, false) => (s1, .fail .send)
  | (s1, q, true) =>
    match getReply q s1 with
    | (s2, .error e) => (s2, .fail e)
    | (s2, .ok ack) =>
      match checkAck ack with
      | some e => (s2, .fail e)
      | none => (s2, .ok .none)

/-- `AddRule` (EEXIST is reported as the text "rule exists"; same class here: errno 17) -/
def addRule (s : St) (rule : Bytes) : St × Out :=
  match send s AUDIT_ADD_RULE (NLM_F_REQUEST + NLM_F_ACK) rule with
  | (s1, _, false) => (s1, .fail .send)
  | (s1, q, true) =>
    match getReply q s1 with
    | (s2, .error e) => (s2, .fail e)
    | (s2, .ok ack) =>
      match checkAck ack with
      | some e => (s2, .fail e)
      | none => (s2, .ok .none)

/-- the loop of `DeleteRules` over the rules it fetched -/
def deleteLoop : List Ref → St → St × Option Err
  | [], s => (s, none)
  | r :: rs, s =>
    match deleteRule s (r.deref s.buf) with
    | (s1, .ok _) => deleteLoop rs s1
    | (s1, .fail e) => (s1, some e)
    | (s1, .panic) => (s1, some .fuel)

/-- `DeleteRules` -/
def deleteRules (s : St) : St × Out :=
  match getRulesE s with
  | (s1, .error e) => (s1, .fail e)
  | (s1, .ok rs) =>
    match deleteLoop rs s1 with
    | (s2, some e) => (s2, .fail e)
    | (s2, none) => (s2, .ok (.count rs.length))

/-- `set(status, mode)` -/
def set (s : St) (st : Status) (mode : Nat) : St × Out :=
  match send s AuditSet (NLM_F_REQUEST + NLM_F_ACK) st.toWire with
  | (s1, _, false) => (s1, .fail .send)
  | (s1, q, true) =>
    if mode = NoWait then ({ s1 with pending := s1.pending ++ [q] }, .ok .none)
    else
      match getReply q s1 with
      | (s2, .error e) => (s2, .fail e)
      | (s2, .ok ack) =>
        match checkAck ack with
        | some e => (s2, .fail e)
        | none => (s2, .ok .none)

/-- `uint32(waitTime)` for an int32 -/
def u32OfInt (w : Int) : Nat := (w % 4294967296).toNat

def setPID (s : St) (pid : Nat) (wm : Nat) : St × Out :=
  set { s with clearPID := true } { mask := AuditStatusPID, pid := pid } wm
def setRateLimit (s : St) (v wm : Nat) : St × Out := set s { mask := AuditStatusRateLimit, rateLimit := v } wm
def setBacklogLimit (s : St) (v wm : Nat) : St × Out := set s { mask := AuditStatusBacklogLimit, backlogLimit := v } wm
def setEnabled (s : St) (e : Bool) (wm : Nat) : St × Out :=
  set s { mask := AuditStatusEnabled, enabled := if e then 1 else 0 } wm
def setImmutable (s : St) (wm : Nat) : St × Out := set s { mask := AuditStatusEnabled, enabled := 2 } wm
def setFailure (s : St) (fm wm : Nat) : St × Out := set s { mask := AuditStatusFailure, failure := fm } wm
def setBacklogWaitTime (s : St) (w : Int) (wm : Nat) : St × Out :=
  set s { mask := AuditStatusBacklogWaitTime, backlogWaitTime := u32OfInt w } wm

/-- the loop of `WaitForPendingACKs` (after the fix): the head is popped once a reply carrying
its sequence number has been read, before the reply is inspected.  `ps` is `s.pending`. -/
def waitLoop : List Nat → St → St × Out
  | [], s => (s, .ok .none)
  | p :: ps, s =>
    match getReply p s with
    | (s1, .error e) => (s1, .fail e)
    | (s1, .ok ack) =>
      let s2 := { s1 with pending := ps }
      match checkAck ack with
      | some e => (s2, .fail e)
      | none => waitLoop ps s2

def waitForPendingACKs (s : St) : St × Out := waitLoop s.pending s

/-- `Close`: `sync.Once` around { optional PID clear in NoWait mode; Netlink.Close }, errors joined -/
def close (s : St) : St × Out :=
  if s.once then (s, .ok .none)
  else
    let s0 := { s with once := true }
    let r := if s0.clearPID then set s0 { mask := AuditStatusPID, pid := 0 } NoWait else (s0, .ok .none)
    let s2 := { r.1 with closes := r.1.closes + 1 }
    match r.2, s.closeOk with
    | .ok _, true => (s2, .ok .none)
    | .ok _, false => (s2, .fail .close)
    | .fail e, _ => (s2, .fail e)
    | .panic, _ => (s2, .panic)

/-- `Receive(nonBlocking)`: one receive; the data is a window of the receive buffer.
EINTR / EAGAIN are passed through as errno 4 / 11.  An empty message slice makes `msgs[0]` panic. -/
def receiveMsg (s : St) : St × Out :=
  match receive s with
  | (s1, .transient false) => (s1, .fail (.errno 4))
  | (s1, .transient true) => (s1, .fail (.errno 11))
  | (s1, .hard) => (s1, .fail .recv)
  | (s1, .msgs none) => (s1, .panic)
  | (s1, .msgs (some m)) => (s1, .ok (.raw m.hdr.typ (.view NLMSG_HDRLEN m.data.length)))

/-! ### histories -/

inductive Op where
  | getStatus
  | getStatusAsync (ack : Bool)
  | getRules
  | deleteRules
  | deleteRule (r : Bytes)
  | addRule (r : Bytes)
  | setPID (pid wm : Nat)
  | setRateLimit (v wm : Nat)
  | setBacklogLimit (v wm : Nat)
  | setEnabled (e : Bool) (wm : Nat)
  | setImmutable (wm : Nat)
  | setFailure (fm wm : Nat)
  | setBacklogWaitTime (w : Int) (wm : Nat)
  | waitAcks
  | close
  | receive
  | plans (ps : List Plan)      -- the harness installs the reactions to the coming requests
  | enqueue (its : List Item)   -- unsolicited traffic arrives
deriving Repr, DecidableEq, Inhabited

def step (s : St) : Op → St × Out
  | .getStatus => getStatus s
  | .getStatusAsync a =>
    match getStatusAsync s a with
    | (s1, q, true) => (s1, .ok (.seq q))
    | (s1, _, false) => (s1, .fail .send)
  | .getRules => getRules s
  | .deleteRules => deleteRules s
  | .deleteRule r => deleteRule s r
  | .addRule r => addRule s r
  | .setPID p wm => setPID s p wm
  | .setRateLimit v wm => setRateLimit s v wm
  | .setBacklogLimit v wm => setBacklogLimit s v wm
  | .setEnabled e wm => setEnabled s e wm
  | .setImmutable wm => setImmutable s wm
  | .setFailure fm wm => setFailure s fm wm
  | .setBacklogWaitTime w wm => setBacklogWaitTime s w wm
  | .waitAcks => waitForPendingACKs s
  | .close => close s
  | .receive => receiveMsg s
  | .plans ps => ({ s with plans := ps }, .ok .none)
  | .enqueue its => ({ s with queue := s.queue ++ its }, .ok .none)

def run (s : St) : List Op → St × List Out
  | [] => (s, [])
  | op :: ops =>
    let r := step s op
    let rr := run r.1 ops
    (rr.1, r.2 :: rr.2)

/-! ### Close from several goroutines

`sync.Once.Do(f)`: the first caller runs `f`; every other caller blocks until `f` has returned
and then returns.  A `Close` call goes through: `begin` (atomic test-and-set of the once flag),
then for the winner `body` (the optional PID-clear send), `sock` (Netlink.Close, after which the
Once is done), for a loser `wait` (enabled only when the Once is done).  A schedule is a list of
call ids; a scheduled call that is blocked or has returned does nothing. -/

inductive CPhase where
  | idle
  | body            -- won the Once, about to clear the PID (if needed)
  | sock (e : Bool) -- about to call Netlink.Close; `e`: the PID-clear send failed
  | waiting         -- lost the Once, blocked until it is done
  | ret (err : Bool)
deriving Repr, DecidableEq, Inhabited

inductive CEv where
  | clearPID        -- the AUDIT_SET {mask PID, pid 0} request was handed to Netlink.Send
  | sockClose       -- Netlink.Close was called
deriving Repr, DecidableEq, Inhabited

structure CC where
  once     : Bool                -- Once flag taken
  done     : Bool                -- Once finished
  clearPID : Bool
  sendOk   : Bool                -- whether the PID-clear send succeeds
  closeOk  : Bool
  phase    : Nat → CPhase
  log      : List CEv
  pendingN : Nat                 -- number of pending ACK entries added

def CC.init (clearPID sendOk closeOk : Bool) : CC :=
  { once := false, done := false, clearPID := clearPID, sendOk := sendOk, closeOk := closeOk,
    phase := fun _ => .idle, log := [], pendingN := 0 }

def CC.setPhase (c : CC) (i : Nat) (p : CPhase) : CC :=
  { c with phase := fun j => if j = i then p else c.phase j }

def ccStep (c : CC) (i : Nat) : CC :=
  match c.phase i with
  | .idle => if c.once then c.setPhase i .waiting else { c.setPhase i .body with once := true }
  | .body =>
    if c.clearPID then
      { c.setPhase i (.sock (!c.sendOk)) with log := c.log ++ [.clearPID],
                                               pendingN := if c.sendOk then c.pendingN + 1 else c.pendingN }
    else c.setPhase i (.sock false)
  | .sock e => { c.setPhase i (.ret (e || !c.closeOk)) with log := c.log ++ [.sockClose], done := true }
  | .waiting => if c.done then c.setPhase i (.ret false) else c
  | .ret _ => c

def ccRun (c : CC) : List Nat → CC
  | [] => c
  | i :: is => ccRun (ccStep c i) is

end LA.Client
