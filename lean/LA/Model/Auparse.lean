/-
Model of /repo/auparse: ParseLogLine, Parse, parseAuditHeader, Data (with its cache),
Tags, ToMapStr's key precedence, normalizeAuditMessage, extractKeyValuePairs (the kvRegex
as a hand-written leftmost-first matcher), enrichData and the helpers of hex.go and
sockaddr.go. Go index/slice expressions are modelled by checked accessors: an access out of
range is the distinct outcome `Res.panic`.

Fidelity domain (`unmodelled` otherwise, decided by `modelled…` predicates below):
 * record type *names* are ASCII (Go upper-cases with Unicode rules);
 * AVC messages are ASCII and contain no newline (regexp `.` and strings.Fields).
-/
import LA.Base.Str
import LA.Model.MsgType
import LA.Model.Tables
import LA.Gen.Signals

namespace LA.Auparse
open LA

inductive Res (α : Type) where
  | ok (a : α)
  | err (cls : String)
  | panic
deriving Repr, Inhabited, DecidableEq

instance : Monad Res where
  pure := Res.ok
  bind x f := match x with
    | .ok a => f a
    | .err c => .err c
    | .panic => .panic

/-- Go slice expression s[i:j] with bounds check. -/
def slice (s : Bytes) (i j : Int) : Res Bytes :=
  if 0 ≤ i ∧ i ≤ j ∧ j ≤ s.length then .ok ((s.drop i.toNat).take (j.toNat - i.toNat)) else .panic

def sliceFrom (s : Bytes) (i : Int) : Res Bytes := slice s i s.length

/-! ### header -/

structure Msg where
  typ : Nat
  sec : Int       -- Timestamp.Unix()
  nsec : Int      -- Timestamp.Nanosecond()
  seq : Nat
  raw : Bytes
  offset : Int    -- unexported; observed only through Data()
deriving Repr, Inhabited, DecidableEq

/-- time.Unix(sec, nsec): normalise nsec into [0, 1e9) with int64 wrap-around. -/
def timeUnix (sec nsec : Int) : Int × Int :=
  if nsec < 0 ∨ nsec ≥ 1000000000 then
    let n := Int.tdiv nsec 1000000000
    let sec1 := wrap64 (sec + n)
    let nsec1 := nsec - n * 1000000000
    if nsec1 < 0 then (wrap64 (sec1 - 1), nsec1 + 1000000000) else (sec1, nsec1)
  else (sec, nsec)

def optInt (i : Option Nat) : Int := match i with | some n => (n : Int) | none => -1

/-- positions of '(' , the first '.' after it, the first ':' after that and the first ')' after
that (strings.IndexRune on successive suffixes, as parseAuditHeader does). -/
def headerIdx (line : Bytes) : Option (Nat × Nat × Nat × Nat) :=
  match indexOf 40 line with
  | none => none
  | some start =>
    match indexOf 46 (line.drop start) with
    | none => none
    | some d =>
      match indexOf 58 (line.drop (start + d)) with
      | none => none
      | some s =>
        match indexOf 41 (line.drop (start + d + s)) with
        | none => none
        | some e => some (start, start + d, start + d + s, start + d + s + e)

/-- the numbers of a header from its three digit strings. -/
def headerNums (secS msS seqS : Bytes) : Option (Int × Int × Nat) :=
  match parseInt 10 64 secS with
  | none => none
  | some sec =>
    match parseInt 10 64 msS with
    | none => none
    | some ms =>
      match parseUint seqS 4294967295 with
      | none => none
      | some seq =>
        let t := timeUnix sec (wrap64 (ms * 1000000))
        some (t.1, t.2, seq)

/-- parseAuditHeader: returns (sec, nsec, seq, end). -/
def parseAuditHeader (line : Bytes) : Res (Int × Int × Nat × Int) :=
  match headerIdx line with
  | none => Res.err "hdr"
  | some (start, dot, sep, end_) =>
    match slice line (start + 1) dot, slice line (dot + 1) sep, slice line (sep + 1) end_ with
    | .ok secS, .ok msS, .ok seqS =>
      match headerNums secS msS seqS with
      | none => Res.err "hdr"
      | some (sec, nsec, seq) => Res.ok (sec, nsec, seq, (end_ : Int))
    | _, _, _ => Res.panic

/-- indexOfMessage: first ':' or ' ' -/
def indexOfMessage : Bytes → Option Nat
  | [] => none
  | b :: bs => if b == 58 || b == 32 then some 0 else (indexOfMessage bs).map (· + 1)

/-- auparse.Parse -/
def parse (typ : Nat) (message : Bytes) : Res Msg := do
  let message := trimSpace message
  let (sec, nsec, seq, end_) ← parseAuditHeader message
  let tail ← sliceFrom message end_
  Res.ok { typ := typ, sec := sec, nsec := nsec, seq := seq, raw := message, offset := optInt (indexOfMessage tail) }

def msgToken : Bytes := [109, 115, 103, 61]   -- "msg="

/-- auparse.ParseLogLine (type names in the fidelity domain: ASCII) -/
def parseLogLine (line : Bytes) : Res Msg := do
  let msgIndex := optInt (indexOfSub msgToken line)
  if msgIndex == -1 then Res.err "hdr" else
  if msgIndex < 6 then Res.err "hdr" else
  let typName ← slice line 5 (msgIndex - 1)
  match MsgType.getType typName with
  | none => Res.err "typ"
  | some typ =>
    let msg ← sliceFrom line (msgIndex + 4)
    parse typ msg

/-- the part of a log line that must be ASCII for the model to be faithful. -/
def modelledLine (line : Bytes) : Bool :=
  match indexOfSub msgToken line with
  | some i => if i < 6 then true else isAscii ((line.drop 5).take (i - 1 - 5))
  | none => true

/-! ### key/value extraction (kvRegex) -/

def isKeyByte (b : Nat) : Bool := isLower b || isDigit b || b == 95 || b == 45

def isPlainValByte (b : Nat) : Bool := !(b == 34 || b == 39 || isReSpace b)

/-- quoted body after the opening quote `q`: `(?:\\q|[^q])*q` with leftmost-first
(backtracking) semantics; returns the number of bytes consumed including the closing quote. -/
def matchQuoted (q : Nat) : Bytes → Option Nat
  | [] => none
  | [b] => if b == q then some 1 else none
  | b :: tail@(c :: rest') =>
    if b == 92 && c == q then
      (if rest'.contains q then (matchQuoted q rest').map (· + 2) else some 2)
    else if b == q then some 1
    else (matchQuoted q tail).map (· + 1)

/-- value alternatives at the position after '=': returns the matched length. -/
def matchValue (s : Bytes) : Option Nat :=
  match s with
  | [] => none
  | b :: rest =>
    if isPlainValByte b then some ((b :: rest).takeWhile isPlainValByte).length
    else if b == 39 then (matchQuoted 39 rest).map (· + 1)
    else if b == 34 then (matchQuoted 34 rest).map (· + 1)
    else none

/-- all non-overlapping leftmost-first matches of kvRegex: (key, orig) pairs in order.
`fuel` bounds the number of scanning steps (length + 1 suffices). -/
def kvMatches : Nat → Bytes → List (Bytes × Bytes)
  | 0, _ => []
  | _, [] => []
  | fuel + 1, b :: rest =>
    if isKeyByte b then
      let key := (b :: rest).takeWhile isKeyByte
      let after := (b :: rest).drop key.length
      match after with
      | 61 :: vs =>
        match matchValue vs with
        | some n => (key, vs.take n) :: kvMatches fuel (vs.drop n)
        | none => kvMatches fuel after
      | _ => kvMatches fuel after
    else kvMatches fuel rest

def trimQuotesAndSpace (v : Bytes) : Bytes := trimSet [39, 34, 32] v

structure Field where
  orig : Bytes
  value : Bytes
deriving Repr, Inhabited, BEq

abbrev FieldMap := List (Bytes × Field)

def fmFind (fm : FieldMap) (k : Bytes) : Option Field := (fm.find? (fun p => p.1 == k)).map (·.2)

def fmDelete (fm : FieldMap) (k : Bytes) : FieldMap := fm.filter (fun p => !(p.1 == k))

/-- map assignment: replace if present, else append. -/
def fmAdd (fm : FieldMap) (k : Bytes) (f : Field) : FieldMap :=
  if fm.any (fun p => p.1 == k) then fm.map (fun p => if p.1 == k then (k, f) else p) else fm ++ [(k, f)]

def fmSetValue (fm : FieldMap) (k : Bytes) (v : Bytes) : FieldMap :=
  fm.map (fun p => if p.1 == k then (p.1, { p.2 with value := v }) else p)

def isPlaceholder (v : Bytes) : Bool := v == [] || v == [63] || v == [63, 44] || v == [40, 110, 117, 108, 108, 41]

def keyMsg : Bytes := [109, 115, 103]

/-- extractKeyValuePairs (recursion into msg='…' bounded by fuel = length). -/
def extractKV : Nat → Bytes → FieldMap
  | 0, _ => []
  | fuel + 1, msg =>
    (kvMatches (msg.length + 1) msg).foldl (fun (data : FieldMap) (m : Bytes × Bytes) =>
      let value := trimQuotesAndSpace m.2
      if isPlaceholder value then data
      else if m.1 == keyMsg then (extractKV fuel value).foldl (fun d p => fmAdd d p.1 p.2) data
      else fmAdd data m.1 { orig := m.2, value := value }) []

/-! ### normalizeAuditMessage -/

def avcToken : Bytes := [97, 118, 99, 58]   -- "avc:"

/-- try to match `avc:\s+(\w+)\s+\{\s*(.*)\s*\}\s+for\s+` at the start of `s` (which begins
with "avc:"), for input without newline. Returns (group1, group2, total match length). -/
def matchAvcAt (s : Bytes) : Option (Bytes × Bytes × Nat) :=
  let r0 := s.drop 4
  let ws1 := r0.takeWhile isReSpace
  if ws1.isEmpty then none else
  let r1 := r0.drop ws1.length
  let g1 := r1.takeWhile isReWord
  if g1.isEmpty then none else
  let r2 := r1.drop g1.length
  let ws2 := r2.takeWhile isReSpace
  if ws2.isEmpty then none else
  let r3 := r2.drop ws2.length
  match r3 with
  | 123 :: r4 =>
    let ws3 := r4.takeWhile isReSpace
    let body := r4.drop ws3.length
    -- right-most k in body with body[k] = '}' followed by \s+ "for" \s+
    let cands := (List.range body.length).filter (fun k =>
      match body.drop k with
      | 125 :: t =>
        let w := t.takeWhile isReSpace
        if w.isEmpty then false else
        let t2 := t.drop w.length
        hasPrefix [102, 111, 114] t2 && !((t2.drop 3).takeWhile isReSpace).isEmpty
      | _ => false)
    match cands.getLast? with
    | none => none
    | some k =>
      let t := body.drop (k + 1)
      let w := t.takeWhile isReSpace
      let t2 := (t.drop w.length).drop 3
      let w2 := t2.takeWhile isReSpace
      let total := 4 + ws1.length + g1.length + ws2.length + 1 + ws3.length + k + 1 + w.length + 3 + w2.length
      some (g1, body.take k, total)
  | _ => none

/-- leftmost match of the AVC expression: (prefix length, g1, g2, match length). -/
def findAvc : Nat → Bytes → Option (Bytes × Bytes × Bytes)
  | 0, _ => none
  | _, [] => none
  | fuel + 1, b :: rest =>
    if hasPrefix avcToken (b :: rest) then
      match matchAvcAt (b :: rest) with
      | some (g1, g2, n) => some (g1, g2, (b :: rest).drop n)
      | none => findAvc fuel rest
    else findAvc fuel rest

def AUDIT_AVC := LA.Gen.MsgTypes.AUDIT_AVC
def AUDIT_LOGIN := LA.Gen.MsgTypes.AUDIT_LOGIN

def normalizeAuditMessage (typ : Nat) (msg : Bytes) : Bytes :=
  if typ == LA.Gen.MsgTypes.AUDIT_AVC then
    match findAvc (msg.length + 1) msg with
    | none => msg
    | some (g1, g2, rest) =>
      ofString "seresult=" ++ g1 ++ ofString " seperms=" ++ joinWith [44] (fieldsAscii g2) ++ [32] ++ rest
  else if typ == LA.Gen.MsgTypes.AUDIT_LOGIN then
    replaceN (replaceN msg (ofString "old ") (ofString "old_") 2) (ofString "new ") (ofString "new_") 2
  else if typ == LA.Gen.MsgTypes.AUDIT_CRED_DISP || typ == LA.Gen.MsgTypes.AUDIT_USER_START || typ == LA.Gen.MsgTypes.AUDIT_USER_END then
    trimRightSet [41, 39] (replaceN msg (ofString " (hostname=") (ofString " hostname=") 2)
  else msg

/-- AVC messages must be ASCII without newline for `normalizeAuditMessage` to be faithful. -/
def modelledBody (typ : Nat) (msg : Bytes) : Bool :=
  if typ == LA.Gen.MsgTypes.AUDIT_AVC then isAscii msg && !msg.contains 10 else true

/-! ### hex.go -/

def decodeUpperHex : Bytes → Option Bytes
  | [] => some []
  | [_] => none
  | a :: b :: rest =>
    match upperHexVal a, upperHexVal b, decodeUpperHex rest with
    | some x, some y, some r => some ((x * 16 + y) :: r)
    | _, _, _ => none

/-- decodeUppercaseHexString: odd length is an error before any digit is looked at. -/
def decodeUppercaseHexString (s : Bytes) : Option Bytes :=
  if s.length % 2 == 1 then none else decodeUpperHex s

def hexToString (h : Bytes) : Option Bytes :=
  (decodeUppercaseHexString h).map (fun out => out.takeWhile (fun b => !(b == 0)))

def hexToStrings (h : Bytes) : Option (List Bytes) :=
  (decodeUppercaseHexString h).map (splitByte 0)

def decodeHexAny : Bytes → Option Bytes
  | [] => some []
  | [_] => none
  | a :: b :: rest =>
    match hexVal a, hexVal b, decodeHexAny rest with
    | some x, some y, some r => some ((x * 16 + y) :: r)
    | _, _, _ => none

/-- hexToDec, errors ignored (value 0 on syntax error; range errors cannot occur on 2 digits). -/
def hexToDecOr0 (h : Bytes) : Int := match parseInt 16 32 h with | some v => v | none => 0

/-- net.IP(b).String() for 16 bytes. -/
def groups16 : Bytes → List Nat
  | a :: b :: rest => (a * 256 + b) :: groups16 rest
  | _ => []

/-- first longest run of zero groups of length ≥ 2: (start, end). -/
def zeroRun (g : List Nat) : Option (Nat × Nat) :=
  (List.range g.length).foldl (fun (best : Option (Nat × Nat)) i =>
    let l := ((g.drop i).takeWhile (· == 0)).length
    if l ≥ 2 then
      match best with
      | some (s, e) => if l > e - s then some (i, i + l) else best
      | none => some (i, i + l)
    else best) none

def ip6String (b : Bytes) : Bytes :=
  let g := groups16 b
  match zeroRun g with
  | none => joinWith [58] (g.map hexLower)
  | some (s, e) =>
    joinWith [58] ((g.take s).map hexLower) ++ [58, 58] ++ joinWith [58] ((g.drop e).map hexLower)

def ipString16 (b : Bytes) : Bytes :=
  if (b.take 10).all (· == 0) && b[10]? == some 255 && b[11]? == some 255 then
    joinWith [46] ((b.drop 12).map dec)
  else ip6String b

def hexToIP (h : Bytes) : Res Bytes :=
  if h.length == 8 then
    Res.ok (joinWith [46] [decInt (hexToDecOr0 (h.take 2)), decInt (hexToDecOr0 ((h.drop 2).take 2)),
      decInt (hexToDecOr0 ((h.drop 4).take 2)), decInt (hexToDecOr0 ((h.drop 6).take 2))])
  else if h.length == 32 then
    match decodeHexAny h with
    | some b => Res.ok (ipString16 b)
    | none => Res.err "saddr"
  else Res.err "saddr"

/-! ### sockaddr.go -/

def parseSockaddr (s : Bytes) : Res (List (Bytes × Bytes)) := do
  if s.length < 4 then Res.err "saddr" else
  let a ← slice s 2 4
  let b ← slice s 0 2
  match parseInt 16 32 (a ++ b) with
  | none => Res.err "saddr"
  | some fam =>
    if fam == 1 then
      let rest ← sliceFrom s 4
      match hexToString rest with
      | none => Res.err "saddr"
      | some p => Res.ok [(ofString "family", ofString "unix"), (ofString "path", p)]
    else if fam == 2 then
      if s.length < 16 then Res.err "saddr" else
      let ps ← slice s 4 8
      match parseInt 16 32 ps with
      | none => Res.err "saddr"
      | some port =>
        let ips ← slice s 8 16
        let ip ← hexToIP ips
        Res.ok [(ofString "family", ofString "ipv4"), (ofString "addr", ip), (ofString "port", decInt port)]
    else if fam == 10 then
      if s.length < 48 then Res.err "saddr" else
      let ps ← slice s 4 8
      match parseInt 16 32 ps with
      | none => Res.err "saddr"
      | some port =>
        let fs ← slice s 8 16
        match parseInt 16 32 fs with
        | none => Res.err "saddr"
        | some flow =>
          let ips ← slice s 16 48
          let ip ← hexToIP ips
          Res.ok ([(ofString "family", ofString "ipv6"), (ofString "addr", ip), (ofString "port", decInt port)] ++
            (if flow > 0 then [(ofString "flow", decInt flow)] else []))
    else if fam == 16 then Res.ok [(ofString "family", ofString "netlink"), (ofString "saddr", s)]
    else Res.ok [(ofString "family", decInt fam), (ofString "saddr", s)]

/-! ### enrichment -/

def keyNotFound (k : Bytes) : String := "keynotfound:" ++ String.join (k.map (fun b => (Char.ofNat b).toString))

def normalizeUnsetID (fm : FieldMap) (k : Bytes) : FieldMap :=
  match fmFind fm k with
  | none => fm
  | some f => if f.value == ofString "4294967295" || f.value == ofString "-1" then fmSetValue fm k (ofString "unset") else fm

def selinuxSuffixes : List Bytes :=
  [ofString "_user", ofString "_role", ofString "_domain", ofString "_level", ofString "_category"]

def parseSELinuxContext (fm : FieldMap) (k : Bytes) : FieldMap :=
  match fmFind fm k with
  | none => fm
  | some f =>
    let parts := splitNByte 58 5 f.value
    (parts.zip selinuxSuffixes).foldl (fun d p => fmAdd d (k ++ p.2) { orig := p.1, value := p.1 }) (fmDelete fm k)

def lowerAsciiPrefix (v : Bytes) : Bytes := v.map toLower

def resultOf (v : Bytes) : Bytes :=
  let l := lowerAsciiPrefix v
  if l == ofString "yes" || l == ofString "1" || hasPrefix (ofString "suc") l then ofString "success" else ofString "fail"

def resultStep (fm : FieldMap) : FieldMap :=
  match fmFind fm (ofString "success") with
  | some f => fmAdd (fmDelete fm (ofString "success")) (ofString "result") { orig := resultOf f.value, value := resultOf f.value }
  | none =>
    match fmFind fm (ofString "res") with
    | some f => fmAdd (fmDelete fm (ofString "res")) (ofString "result") { orig := resultOf f.value, value := resultOf f.value }
    | none => fm

def exitStep (fm : FieldMap) : FieldMap :=
  match fmFind fm (ofString "exit") with
  | none => fm
  | some f =>
    match parseInt 10 64 f.value with
    | none => fm
    | some code =>
      if code ≥ 0 then fm else
      match Tables.errnoName (-code).toNat with
      | some name => fmSetValue fm (ofString "exit") name
      | none => fm

/-- auditRuleKeyNew: returns the new map and the tags (none = tags untouched). -/
def auditRuleKeyNew (fm : FieldMap) : FieldMap × Option (List Bytes) :=
  match fmFind fm (ofString "key") with
  | none => (fm, none)
  | some f =>
    let fm' := fmDelete fm (ofString "key")
    match decodeUppercaseHexString f.orig with
    | some d => (fm', some (splitByte 1 d))
    | none =>
      match splitNByte 61 2 f.value with
      | [a] => (fm', some [a])
      | [_, b] => (fm', some [b])
      | _ => (fm', none)

/-- hexDecode(key): error iff the key is missing. -/
def hexDecode (fm : FieldMap) (k : Bytes) : Res FieldMap :=
  match fmFind fm k with
  | none => Res.err (keyNotFound k)
  | some f =>
    match hexToStrings f.orig with
    | none => Res.ok fm
    | some parts => Res.ok (fmSetValue fm k (joinWith [32] parts))

def hexDecodeIgnore (fm : FieldMap) (k : Bytes) : FieldMap :=
  match hexDecode fm k with
  | .ok fm' => fm'
  | _ => fm

def archStep (fm : FieldMap) : Res FieldMap :=
  match fmFind fm (ofString "arch") with
  | none => Res.err (keyNotFound (ofString "arch"))
  | some f =>
    match parseInt 16 64 f.value with
    | none => Res.err "parsearch"
    | some a =>
      let code := (a % 4294967296).toNat
      let name := match Tables.archName code with
        | some n => n
        | none => ofString "unknown[" ++ hexLower code ++ [93]
      Res.ok (fmSetValue fm (ofString "arch") name)

def syscallStep (fm : FieldMap) : Res FieldMap :=
  match fmFind fm (ofString "syscall") with
  | none => Res.err (keyNotFound (ofString "syscall"))
  | some f =>
    match parseInt 10 64 f.value with
    | none => Res.err "parsesyscall"
    | some n =>
      match fmFind fm (ofString "arch") with
      | none => Res.err "noarch"
      | some a =>
        if n < 0 then Res.ok fm else
        match Tables.syscallName a.value n.toNat with
        | some name => Res.ok (fmSetValue fm (ofString "syscall") name)
        | none => Res.ok fm

def signalStep (fm : FieldMap) : Res FieldMap :=
  match fmFind fm (ofString "sig") with
  | none => Res.err (keyNotFound (ofString "sig"))
  | some f =>
    match parseInt 10 64 f.value with
    | none => Res.err "parsesig"
    | some n =>
      if n < 0 then Res.ok fm else
      match lookupN LA.Gen.Signals.signalNames n.toNat with
      | some name => Res.ok (fmSetValue fm (ofString "sig") name)
      | none => Res.ok fm

def saddrStep (fm : FieldMap) : Res FieldMap :=
  match fmFind fm (ofString "saddr") with
  | none => Res.err (keyNotFound (ofString "saddr"))
  | some f =>
    match parseSockaddr f.value with
    | .ok kvs => Res.ok (kvs.foldl (fun d p => fmAdd d p.1 { orig := p.2, value := p.2 }) (fmDelete fm (ofString "saddr")))
    | .err _ => Res.err "saddr"
    | .panic => Res.panic

def execveArgsLoop (fm : FieldMap) : Nat → Nat → Res FieldMap
  | 0, _ => Res.ok fm
  | n + 1, i =>
    let key := [97] ++ dec i
    match fmFind fm key with
    | none => Res.err ("arg:" ++ toString i)
    | some f =>
      let fm' := match hexToString f.orig with
        | some v => fmSetValue fm key v
        | none => fm
      execveArgsLoop fm' n (i + 1)

/-- execveArgs: the loop stops at the first missing aN, so at most (number of fields) + 1
iterations happen however large argc is. -/
def execveStep (fm : FieldMap) : Res FieldMap :=
  match fmFind fm (ofString "argc") with
  | none => Res.err (keyNotFound (ofString "argc"))
  | some f =>
    match parseUint f.value 4294967295 with
    | none => Res.err "argc"
    | some count => execveArgsLoop fm (min count (fm.length + 1)) 0

structure DataOut where
  data : Res (List (Bytes × Bytes))
  tags : List Bytes
deriving Inhabited

def enrichData (typ : Nat) (fm0 : FieldMap) : Res FieldMap × List Bytes :=
  let fm := normalizeUnsetID fm0 (ofString "auid")
  let fm := normalizeUnsetID fm (ofString "old-auid")
  let fm := normalizeUnsetID fm (ofString "ses")
  let fm := parseSELinuxContext fm (ofString "subj")
  let fm := resultStep fm
  let fm := exitStep fm
  let (fm, tg) := auditRuleKeyNew fm
  let tags := tg.getD []
  let fm := hexDecodeIgnore fm (ofString "cwd")
  let M := LA.Gen.MsgTypes.AUDIT_SECCOMP
  let r : Res FieldMap :=
    if typ == M then do
      let fm ← signalStep fm
      let fm ← archStep fm
      let fm ← syscallStep fm
      hexDecode fm (ofString "exe")
    else if typ == LA.Gen.MsgTypes.AUDIT_SYSCALL then do
      let fm ← archStep fm
      let fm ← syscallStep fm
      hexDecode fm (ofString "exe")
    else if typ == LA.Gen.MsgTypes.AUDIT_SOCKADDR then saddrStep fm
    else if typ == LA.Gen.MsgTypes.AUDIT_PROCTITLE then hexDecode fm (ofString "proctitle")
    else if typ == LA.Gen.MsgTypes.AUDIT_USER_CMD then hexDecode fm (ofString "cmd")
    else if typ == LA.Gen.MsgTypes.AUDIT_TTY || typ == LA.Gen.MsgTypes.AUDIT_USER_TTY then hexDecode fm (ofString "data")
    else if typ == LA.Gen.MsgTypes.AUDIT_EXECVE then execveStep fm
    else if typ == LA.Gen.MsgTypes.AUDIT_PATH then
      Res.ok (hexDecodeIgnore (parseSELinuxContext fm (ofString "obj")) (ofString "name"))
    else if typ == LA.Gen.MsgTypes.AUDIT_USER_LOGIN then Res.ok (hexDecodeIgnore fm (ofString "acct"))
    else Res.ok fm
  (r, tags)

/-- AuditMessage.Data() on a fresh message (empty cache). -/
def dataOf (m : Msg) : DataOut :=
  if m.offset < 0 then { data := Res.err "nodata", tags := [] } else
  match sliceFrom m.raw m.offset with
  | .panic => { data := Res.panic, tags := [] }
  | .err c => { data := Res.err c, tags := [] }
  | .ok body =>
    let message := normalizeAuditMessage m.typ body
    let kv := extractKV (message.length + 1) message
    let (r, tags) := enrichData m.typ kv
    match r with
    | .ok fm => { data := Res.ok (fm.map (fun p => (p.1, p.2.value))), tags := tags }
    | .err c => { data := Res.err c, tags := tags }
    | .panic => { data := Res.panic, tags := tags }

/-- the cache cell of a message: `none` = not computed yet. -/
abbrev Cache := Option DataOut

/-- Data() with the cache: computes once, afterwards returns the stored result. -/
def dataCached (m : Msg) (c : Cache) : DataOut × Cache :=
  match c with
  | some d => (d, some d)
  | none => let d := dataOf m; (d, some d)

end LA.Auparse

namespace LA.Auparse
open LA

/-- values of the ToMapStr map: strings, or the tag list. -/
inductive MVal where
  | str (b : Bytes)
  | tags (t : List Bytes)
  | timestamp (sec nsec : Int)   -- rendered by Go as Timestamp.UTC().String(); the calendar is not modelled
deriving Repr, Inhabited, BEq

/-- map assignment on an association list. -/
def mset (m : List (Bytes × MVal)) (k : Bytes) (v : MVal) : List (Bytes × MVal) :=
  if m.any (fun p => p.1 == k) then m.map (fun p => if p.1 == k then (k, v) else p) else m ++ [(k, v)]

def mget (m : List (Bytes × MVal)) (k : Bytes) : Option MVal := (m.find? (fun p => p.1 == k)).map (·.2)

/-- ToMapStr: the parsed pairs first, then the well-known keys written over them. -/
def toMapStr (m : Msg) (d : DataOut) : List (Bytes × MVal) :=
  let out : List (Bytes × MVal) := match d.data with
    | .ok kvs => kvs.map (fun p => (p.1, MVal.str p.2))
    | _ => []
  let out := mset out (ofString "record_type") (.str (MsgType.typeName m.typ))
  let out := mset out (ofString "@timestamp") (.timestamp m.sec m.nsec)
  let out := mset out (ofString "sequence") (.str (dec m.seq))
  let out := mset out (ofString "raw_msg") (.str m.raw)
  let out := if d.tags.isEmpty then out else mset out (ofString "tags") (.tags d.tags)
  match d.data with
  | .err c => mset out (ofString "error") (.str (ofString c))
  | _ => out

end LA.Auparse
