/-
Model of /repo/reassembler.go (sequential behaviour).

State fuses Go's `seqs` slice and `events` map into one association list kept in
the order of `seqs`.  Every operation carries the clock values the Go code reads
(`time.Now()` in Put for a new event, `time.Now()` in IsExpired during CleanUp).

Core-only (no Mathlib) so that the driver links as an executable.
-/
namespace LA.Reasm

/-- `maxSortRange` of reassembler.go (tied to the source by `LA.Gen.Consts`). -/
def maxSortRange : Nat := 16777215

def EOE : Nat := 1320
def PROCTITLE : Nat := 1327
def LAST_DAEMON : Nat := 1299
def ANOM_LOGIN_FAILURES : Nat := 2100

/-- A message: `id` stands for the pointer identity of `*auparse.AuditMessage`. -/
structure Msg where
  id  : Nat
  seq : Nat
  typ : Nat
deriving Repr, DecidableEq, Inhabited

structure Ev where
  expire   : Int
  msgs     : List Msg
  complete : Bool
deriving Repr, DecidableEq, Inhabited

abbrev Buf := List (Nat × Ev)

structure St where
  buf     : Buf
  last    : Option Nat
  maxSize : Int
  timeout : Int
  closed  : Bool
deriving Repr, DecidableEq, Inhabited

def init (maxSize timeout : Int) : St :=
  { buf := [], last := none, maxSize := maxSize, timeout := timeout, closed := false }

/-- `sequenceNumSlice.Less`: roll-over aware comparison. -/
def less (a b : Nat) : Bool :=
  if (if a ≤ b then b - a else a - b) > maxSortRange then decide (a > b) else decide (a < b)

/-- record types that complete an event on arrival (`event.Add`). -/
def completes (typ : Nat) : Bool :=
  typ == PROCTITLE || decide (typ ≤ LAST_DAEMON) || decide (typ ≥ ANOM_LOGIN_FAILURES)

def hasKey (k : Nat) (b : Buf) : Bool := b.any (fun p => p.1 == k)

/-- append `m` to the event with key `m.seq` (Put, found case). -/
def appendTo (m : Msg) : Buf → Buf
  | [] => []
  | (k, e) :: rest =>
    if k == m.seq then
      (k, { e with msgs := e.msgs ++ [m], complete := e.complete || completes m.typ }) :: rest
    else (k, e) :: appendTo m rest

/-- EOE: mark the event with that key complete, if buffered. -/
def markComplete (seq : Nat) : Buf → Buf
  | [] => []
  | (k, e) :: rest =>
    if k == seq then (k, { e with complete := true }) :: rest
    else (k, e) :: markComplete seq rest

/-- Go appends the new sequence and runs `sort.Sort`.  For slices of at most 12
elements that is insertion sort; on a list whose prefix is already a fixpoint the
new last element moves left past the longest suffix of elements it is `less` than. -/
def insertEnd (x : Nat × Ev) : Buf → Buf
  | [] => [x]
  | y :: ys =>
    if (y :: ys).all (fun z => less x.1 z.1) then x :: y :: ys
    else y :: insertEnd x ys

def put (s : St) (m : Msg) (t : Int) : St :=
  if m.typ == EOE then { s with buf := markComplete m.seq s.buf }
  else if hasKey m.seq s.buf then { s with buf := appendTo m s.buf }
  else { s with buf := insertEnd (m.seq, { expire := t + s.timeout, msgs := [m],
                                           complete := completes m.typ }) s.buf }

/-- eviction predicate of CleanUp for the head `e` when `n` events are buffered. -/
def evictable (now maxSize : Int) (n : Nat) (e : Ev) : Bool :=
  e.complete || decide ((n : Int) > maxSize) || decide (now > e.expire)

/-- CleanUp: returns (evicted, remaining). -/
def cleanUp (now maxSize : Int) : Buf → Buf × Buf
  | [] => ([], [])
  | (k, e) :: rest =>
    if evictable now maxSize (rest.length + 1) e then
      let r := cleanUp now maxSize rest
      ((k, e) :: r.1, r.2)
    else ([], (k, e) :: rest)

/-- `eventList.advance` (post-fix): lost count contributed by delivering `seq`. -/
def advance (last : Option Nat) (seq : Nat) : Option Nat × Nat :=
  match last with
  | none => (some seq, 0)
  | some l => if less l seq then (some seq, (seq + 4294967296 - l - 1) % 4294967296)
              else (some l, 0)

def account (last : Option Nat) : List Nat → Option Nat × Nat
  | [] => (last, 0)
  | s :: rest =>
    let a := advance last s
    let r := account a.1 rest
    (r.1, a.2 + r.2)

inductive Out where
  | group (ms : List Msg)
  | lost (n : Nat)
  | err
deriving Repr, DecidableEq, Inhabited

/-- `Reassembler.callback` -/
def callback (evicted : Buf) (lost : Nat) : List Out :=
  evicted.map (fun p => Out.group p.2.msgs) ++ (if lost > 0 then [Out.lost lost] else [])

inductive Op where
  | push (m : Msg) (tPut tClean : Int)
  | pushNil
  | maintain (t : Int)
  | close
deriving Repr, DecidableEq, Inhabited

def evictStep (s : St) (r : Buf × Buf) : St × List Out :=
  let a := account s.last (r.1.map (·.1))
  ({ s with buf := r.2, last := a.1 }, callback r.1 a.2)

def step (s : St) : Op → St × List Out
  | .push m tPut tClean =>
    let s1 := put s m tPut
    evictStep s1 (cleanUp tClean s1.maxSize s1.buf)
  | .pushNil => (s, [])
  | .maintain t =>
    if s.closed then (s, [Out.err])
    else evictStep s (cleanUp t s.maxSize s.buf)
  | .close =>
    if s.closed then (s, [Out.err])
    else evictStep { s with closed := true } (s.buf, [])

def run (s : St) : List Op → St × List (List Out)
  | [] => (s, [])
  | op :: ops =>
    let r := step s op
    let rr := run r.1 ops
    (rr.1, r.2 :: rr.2)

end LA.Reasm
