/-
Model of /repo/reassembler.go under concurrent use (property C11): a transition system
whose steps are the *atomic steps* of PushMessage, Maintain and Close, i.e. exactly the
code between two consecutive `verifYield` points of one goroutine.

Shared state
  * `st`     the sequential reassembler state of `LA.Reasm` (buffer, lastSeq, closed flag);
             `put`, `cleanUp`, `Clear` each run entirely under the eventList mutex, so each
             is ONE step here and re-uses the sequential definitions unchanged;
  * `trace`  a history variable (never read by `step`): every shared-visible action, NEWEST
             FIRST.  "delivered", "the messages whose put has run", "before the clear of the
             successful Close" are all functions of it.

Threads
  A thread is a stack of frames.  `body ops` is the rest of a program (the goroutine's main
  program at the bottom, the script of a running Stream callback above the method that made
  the callback); the other frames are a method call in progress, positioned at one of the
  yield points.  A Stream callback may call PushMessage/Maintain/Close again: the `deliver`
  step pushes a new `body` frame on top of the delivering call.  The data a call delivers
  (`outs`) is thread-local: it was detached from the table by CleanUp/Clear.

Yield point ↔ frame on top of the stack (numbers as in /repo/verif_on.go):
   1 verifPushStart           body (push … :: _)      next step: Put
   2 verifPushAfterPut        clean t .push           next step: CleanUp (clock read t)
   3 verifPushAfterCleanUp    evicted outs .push      next step: enter callback loop (silent)
   4 verifMaintainStart       body (maintain … :: _)  next step: atomic load of closed
   5 verifMaintainAfterLoad   clean t .maintain       next step: CleanUp
   6 verifMaintainAfterCleanUp evicted outs .maintain
   7 verifCloseStart          body (close :: _)       next step: CompareAndSwap(closed,0,1)
   8 verifCloseAfterCAS       clear                   next step: Clear
   9 verifCloseAfterClear     evicted outs .close
  10 verifBeforeCallback      deliver (o :: outs) k   next step: the Stream callback for `o`
One `step` of thread `i` = what goroutine `i` does from being resumed at its current yield
point until it blocks at its next one (or ends): the action of the top frame, followed by
`settle`, the chain of plain returns that touches no shared state (a callback script that is
exhausted returns into the delivering call; a call with nothing left to deliver returns —
its return value is appended to the thread's `rets` — into the body it was called from).

Clock reads are parameters of the operations, exactly as in the sequential model.
Core-only (no Mathlib) so that the driver links as an executable.
-/
import LA.Model.Reasm

namespace LA.ReasmConc
open LA.Reasm

abbrev Tid := Nat

/-- what a finished call returned (`push`: PushMessage returned; it has no result). -/
inductive Ret where
  | push | maintOk | maintErr | closeOk | closeErr
deriving Repr, DecidableEq, Inhabited

inductive Op where
  | push (m : Msg) (tPut tClean : Int)
  | maintain (t : Int)
  | close
deriving Repr, DecidableEq, Inhabited

/-- which method a call frame belongs to. -/
inductive Meth where
  | push | maintain | close
deriving Repr, DecidableEq, Inhabited

/-- value returned when the method completes after its callbacks. -/
def Meth.ret : Meth → Ret
  | .push => .push
  | .maintain => .maintOk
  | .close => .closeOk

inductive Frame where
  /-- rest of a program: the goroutine's main program or a Stream callback's script -/
  | body (ops : List Op)
  /-- after Put / after the closed load: about to run CleanUp with clock read `t` -/
  | clean (t : Int) (k : Meth)
  /-- Close after a successful CAS: about to run Clear -/
  | clear
  /-- after CleanUp/Clear: holds the detached callbacks-to-make, about to enter `callback` -/
  | evicted (outs : List Out) (k : Meth)
  /-- inside `Reassembler.callback`, before the next Stream callback -/
  | deliver (outs : List Out) (k : Meth)
deriving Repr, DecidableEq, Inhabited

/-- history events (newest first in `Sys.trace`). -/
inductive Ev where
  | put (i : Tid) (m : Msg)
  | load (i : Tid) (closed : Bool)
  | cas (i : Tid) (ok : Bool)
  | cleanUp (i : Tid) (outs : List Out)
  | clear (i : Tid) (outs : List Out)
  | cb (i : Tid) (o : Out)
deriving Repr, DecidableEq, Inhabited

structure Thread where
  stack   : List Frame
  /-- script run by the `n`-th Stream callback made on this thread (counting from 0, all
  nesting levels together), which may depend on what is delivered. -/
  cbs     : Nat → Out → List Op
  cbCount : Nat
  rets    : List Ret

structure Sys where
  st      : St
  threads : List Thread
  trace   : List Ev

/-- effect of the action of the top frame. -/
structure Act where
  st   : St
  evs  : List Ev
  /-- frames that replace the top frame -/
  repl : List Frame
  rets : List Ret
  /-- a Stream callback was made -/
  cb   : Bool

def act (st : St) (i : Tid) (cbs : Nat → Out → List Op) (n : Nat) : Frame → Act
  | .body [] => ⟨st, [], [.body []], [], false⟩
  | .body (.push m tp tc :: rest) =>
      ⟨put st m tp, [.put i m], [.clean tc .push, .body rest], [], false⟩
  | .body (.maintain t :: rest) =>
      if st.closed then ⟨st, [.load i true], [.body rest], [.maintErr], false⟩
      else ⟨st, [.load i false], [.clean t .maintain, .body rest], [], false⟩
  | .body (.close :: rest) =>
      if st.closed then ⟨st, [.cas i false], [.body rest], [.closeErr], false⟩
      else ⟨{ st with closed := true }, [.cas i true], [.clear, .body rest], [], false⟩
  | .clean t k =>
      let r := evictStep st (cleanUp t st.maxSize st.buf)
      ⟨r.1, [.cleanUp i r.2], [.evicted r.2 k], [], false⟩
  | .clear =>
      let r := evictStep st (st.buf, [])
      ⟨r.1, [.clear i r.2], [.evicted r.2 .close], [], false⟩
  | .evicted outs k => ⟨st, [], [.deliver outs k], [], false⟩
  | .deliver [] k => ⟨st, [], [.deliver [] k], [], false⟩
  | .deliver (o :: outs) k => ⟨st, [.cb i o], [.body (cbs n o), .deliver outs k], [], true⟩

/-- frames that return without touching shared state, with what they return. -/
def Frame.done : Frame → Option (List Ret)
  | .body [] => some []
  | .deliver [] k => some [k.ret]
  | _ => none

/-- plain returns up to the next yield point. -/
def settle : List Frame → List Frame × List Ret
  | [] => ([], [])
  | f :: stk =>
    match f.done with
    | some rs => let x := settle stk; (x.1, rs ++ x.2)
    | none => (f :: stk, [])

/-- thread `t` after the action `a` of its top frame (`stk`: the frames below the top). -/
def Thread.after (t : Thread) (a : Act) (stk : List Frame) : Thread :=
  let x := settle (a.repl ++ stk)
  { t with stack := x.1, rets := t.rets ++ (a.rets ++ x.2),
           cbCount := if a.cb then t.cbCount + 1 else t.cbCount }

/-- one step of thread `i`; `none` iff there is no such thread or it has finished. -/
def step (s : Sys) (i : Tid) : Option Sys :=
  match s.threads[i]? with
  | none => none
  | some t =>
    match t.stack with
    | [] => none
    | f :: stk =>
      let a := act s.st i t.cbs t.cbCount f
      some { st := a.st, trace := a.evs ++ s.trace, threads := s.threads.set i (t.after a stk) }

/-- a schedule is any list of thread ids; picks that name no unfinished thread are skipped. -/
def run (s : Sys) : List Tid → Sys
  | [] => s
  | i :: is =>
    match step s i with
    | some s' => run s' is
    | none => run s is

structure Prog where
  main : List Op
  cbs  : Nat → Out → List Op

def mkThread (p : Prog) : Thread :=
  { stack := (settle [.body p.main]).1, cbs := p.cbs, cbCount := 0, rets := [] }

def init (maxSize timeout : Int) (progs : List Prog) : Sys :=
  { st := Reasm.init maxSize timeout, threads := progs.map mkThread, trace := [] }

/-- every thread has finished. -/
def Terminal (s : Sys) : Prop := ∀ t ∈ s.threads, t.stack = []

def terminal (s : Sys) : Bool := s.threads.all (fun t => t.stack.isEmpty)

/-- the yield point a frame waits at (0: none). -/
def Frame.point : Frame → Nat
  | .body (.push _ _ _ :: _) => 1
  | .clean _ .push => 2
  | .evicted _ .push => 3
  | .body (.maintain _ :: _) => 4
  | .clean _ .maintain => 5
  | .evicted _ .maintain => 6
  | .body (.close :: _) => 7
  | .clear => 8
  | .evicted _ .close => 9
  | .deliver (_ :: _) _ => 10
  | _ => 0

def Thread.point (t : Thread) : Nat :=
  match t.stack with
  | [] => 0
  | f :: _ => f.point

end LA.ReasmConc
