/-
Model of /repo/netlink.go (NetlinkClient: serialize, Send, Receive's guards, ParseNetlinkError)
and of parseNetlinkAuditMessage (audit.go).

Byte strings are `List UInt8`; integers are unbounded `Nat` with explicit `% 2^32` where the Go
code wraps.  Little-endian, 64-bit `uintptr` (linux/amd64).

Unsafe pointer reads of the Go code (`*(*syscall.NlMsghdr)(unsafe.Pointer(&buf[0]))`,
`*(*int32)(unsafe.Pointer(&netlinkData[0]))`) are modelled by `unsafeRead`, which has the explicit
outcome `oob` when the read would leave the slice, so that "never reads outside the buffer" is a
theorem about the guards and not an artefact of a totalised accessor.

Core-only (no Mathlib) so that the driver links as an executable.
-/
namespace LA.Netlink

abbrev Bytes := List UInt8

/-! ### little-endian words -/

def byte (n : Nat) : UInt8 := UInt8.ofNat n

def le16 (n : Nat) : Bytes := [byte n, byte (n / 256)]

def le32 (n : Nat) : Bytes := [byte n, byte (n / 256), byte (n / 65536), byte (n / 16777216)]

def rd8 (b : Bytes) (i : Nat) : Nat := (b.getD i 0).toNat

def rd16 (b : Bytes) (i : Nat) : Nat := rd8 b i + 256 * rd8 b (i + 1)

def rd32 (b : Bytes) (i : Nat) : Nat :=
  rd8 b i + 256 * rd8 b (i + 1) + 65536 * rd8 b (i + 2) + 16777216 * rd8 b (i + 3)

/-! ### constants of package syscall used by the library (tied to the source by `LA.Gen.ClientConsts`) -/

def NLMSG_HDRLEN : Nat := 16
def NLMSG_ERROR : Nat := 2
def NLMSG_DONE : Nat := 3
def NLM_F_REQUEST : Nat := 1
def NLM_F_ACK : Nat := 4

/-! ### nlmsghdr -/

/-- `syscall.NlMsghdr`: Len uint32, Type uint16, Flags uint16, Seq uint32, Pid uint32. -/
structure Hdr where
  len   : Nat
  typ   : Nat
  flags : Nat
  seq   : Nat
  pid   : Nat
deriving Repr, DecidableEq, Inhabited

/-- the values fit their Go types -/
def Hdr.WF (h : Hdr) : Prop :=
  h.len < 4294967296 ∧ h.typ < 65536 ∧ h.flags < 65536 ∧ h.seq < 4294967296 ∧ h.pid < 4294967296

/-- memory image of the struct (what the unsafe cast in `serialize` writes) -/
def Hdr.bytes (h : Hdr) : Bytes :=
  le32 h.len ++ le16 h.typ ++ le16 h.flags ++ le32 h.seq ++ le32 h.pid

/-- the struct read back from 16 bytes of memory -/
def Hdr.parse (b : Bytes) : Hdr :=
  { len := rd32 b 0, typ := rd16 b 4, flags := rd16 b 6, seq := rd32 b 8, pid := rd32 b 12 }

/-- `syscall.NetlinkMessage` -/
structure Msg where
  hdr  : Hdr
  data : Bytes
deriving Repr, DecidableEq, Inhabited

/-- `serialize` (netlink.go): `Len = uint32(16 + len(Data))`, header image, payload.
Faithful for `16 + len(Data) < 2^32` (beyond that `make` allocates the wrapped length and the
unsafe header store leaves the slice; such payloads cannot be sent on a netlink socket anyway). -/
def serialize (m : Msg) : Bytes :=
  ({ m.hdr with len := (16 + m.data.length) % 4294967296 }).bytes ++ m.data

/-! ### checked unsafe reads -/

inductive R (α : Type) where
  | ok (a : α)
  | err          -- the function returned an error
  | oob          -- memory outside the slice was read (Go: index panic or unsafe over-read)
deriving Repr, DecidableEq, Inhabited

/-- read `n` bytes at the start of `buf` through an unsafe pointer -/
def unsafeRead (n : Nat) (buf : Bytes) : R Bytes :=
  if n ≤ buf.length then .ok (buf.take n) else .oob

/-- `parseNetlinkAuditMessage` (audit.go): one message, the header's length field is ignored. -/
def parseAudit (buf : Bytes) : R Msg :=
  if buf.length < NLMSG_HDRLEN then .err
  else match unsafeRead 16 buf with
    | .ok h => .ok { hdr := Hdr.parse h, data := buf.drop NLMSG_HDRLEN }
    | .err => .err
    | .oob => .oob

/-- the same function with the length guard removed (used to show the guard is what prevents `oob`) -/
def parseAuditUnguarded (buf : Bytes) : R Msg :=
  match unsafeRead 16 buf with
  | .ok h => .ok { hdr := Hdr.parse h, data := buf.drop NLMSG_HDRLEN }
  | .err => .err
  | .oob => .oob

/-! ### ParseNetlinkError -/

/-- `syscall.Errno(-int32(u))` for the unsigned reading `u ≠ 0` of the payload's first word:
negate in int32 (wrapping), convert to the 64-bit `uintptr` (sign-extending). -/
def errnoOf (u : Nat) : Nat :=
  if u > 2147483648 then 4294967296 - u          -- int32 value u-2^32 < 0, negated: small positive errno
  else if u = 2147483648 then 18446744071562067968  -- -MinInt32 = MinInt32, sign-extended: 2^64 - 2^31
  else 18446744073709551616 - u                   -- positive int32, negated and sign-extended: 2^64 - u

inductive NlErr where
  | none               -- nil: the kernel reported success
  | errno (n : Nat)    -- syscall.Errno(n)
  | short              -- "data too short to read errno"
  | oob
deriving Repr, DecidableEq, Inhabited

/-- `ParseNetlinkError` (netlink.go) -/
def parseNetlinkError (data : Bytes) : NlErr :=
  if data.length ≥ 4 then
    match unsafeRead 4 data with
    | .ok w => if rd32 w 0 = 0 then .none else .errno (errnoOf (rd32 w 0))
    | _ => .oob
  else .short

/-! ### NetlinkClient.Send -/

/-- the fields of `NetlinkClient` that `Send` uses -/
structure NL where
  pid : Nat     -- port id of the local socket
  seq : Nat     -- sequence counter
deriving Repr, DecidableEq, Inhabited

/-- `Send`: fill in the pid if 0, advance the counter atomically, serialize.
Returns the new client state, the sequence number returned to the caller and the bytes handed to
`sendto`. -/
def NL.send (c : NL) (m : Msg) : NL × Nat × Bytes :=
  let pid := if m.hdr.pid = 0 then c.pid else m.hdr.pid
  let q := (c.seq + 1) % 4294967296
  ({ c with seq := q }, q, serialize { m with hdr := { m.hdr with pid := pid, seq := q } })

/-! ### Send from several goroutines

Each `Send` is two steps: the atomic fetch-and-add on the shared counter (the only access to
shared state), and later `sendto` with the header built from the value obtained.  A schedule is
a list of sender ids; a sender's step is the add if it has no value in hand, else the `sendto`. -/

structure CSt where
  seq  : Nat                    -- shared counter
  cur  : Nat → Option Nat       -- per sender: value obtained by its add, not yet put on the wire
  adds : List (Nat × Nat)       -- (sender, value returned by the add), in the order of the atomic steps
  wire : List (Nat × Nat)       -- (sender, header sequence = value returned by Send), in `sendto` order

def CSt.init (c0 : Nat) : CSt := { seq := c0, cur := fun _ => none, adds := [], wire := [] }

def cstep (s : CSt) (tid : Nat) : CSt :=
  match s.cur tid with
  | none =>
    let q := (s.seq + 1) % 4294967296
    { s with seq := q, cur := fun t => if t = tid then some q else s.cur t, adds := s.adds ++ [(tid, q)] }
  | some q =>
    { s with cur := fun t => if t = tid then none else s.cur t, wire := s.wire ++ [(tid, q)] }

def crun (s : CSt) : List Nat → CSt
  | [] => s
  | t :: ts => crun (cstep s t) ts

/-! ### NetlinkClient.Receive -/

/-- the source address `recvfrom` reports -/
inductive From where
  | netlink (pid groups : Nat)   -- *syscall.SockaddrNetlink
  | other                         -- any other Sockaddr type (or nil)
deriving Repr, DecidableEq, Inhabited

inductive RecvErr where
  | sys          -- recvfrom failed (EAGAIN, EINTR, …)
  | tooShort     -- fewer than NLMSG_HDRLEN bytes
  | notKernel    -- sender is not the kernel
  | writer       -- the optional response writer failed
  | parse        -- the caller's parser failed
deriving Repr, DecidableEq, Inhabited

/-- `Receive`: `io` is what `recvfrom` did (`none` = error; otherwise the `nr` bytes written to the
read buffer and the source address), `writerOk` the result of the optional debug writer,
`p` the caller's parser. -/
def NL.receive {α : Type} (io : Option (Bytes × From)) (writerOk : Bool) (p : Bytes → Option α) :
    Except RecvErr α :=
  match io with
  | none => .error .sys
  | some (buf, src) =>
    if buf.length < NLMSG_HDRLEN then .error .tooShort
    else match src with
      | .other => .error .notKernel
      | .netlink pid _ =>
        if pid ≠ 0 then .error .notKernel
        else if !writerOk then .error .writer
        else match p buf with
          | some x => .ok x
          | none => .error .parse

end LA.Netlink
