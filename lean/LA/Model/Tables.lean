/-
Executable models of the table lookups (errno, arch, syscalls, event categories) over
the regenerated data. The Go maps are modelled by search trees / lists emitted by the
translator; agreement with the runtime maps is part of the correspondence (`tab …`).
-/
import LA.Base.Ascii
import LA.Base.Table
import LA.Gen.Errno
import LA.Gen.Arches
import LA.Gen.Syscalls

namespace LA.Tables
open LA

/-- `AuditErrnoToName[n]` -/
def errnoName (n : Nat) : Option Bytes := lookupN LA.Gen.Errno.errnoToName n

/-- `AuditErrnoToNum[name]` -/
def errnoNum (name : Bytes) : Option Nat := LA.Gen.Errno.numTree.find (encode name)

/-- `AuditArchNames[code]` -/
def archName (code : Nat) : Option Bytes := lookupN LA.Gen.Arches.archNames code

/-- `reverseArch[name]` (rule/tables.go, built from AuditArchNames at init) -/
def archCode (name : Bytes) : Option Nat :=
  (LA.Gen.Arches.archNames.find? (fun p => p.2 == name)).map (·.1)

abbrev SysTable := List Nat × List (Nat × List Nat) × Tree × Tree

def sysTable (arch : Bytes) : Option SysTable := LA.Gen.Syscalls.tables.find? (fun t => t.1 == arch)

/-- `AuditSyscalls[arch][num]` -/
def syscallName (arch : Bytes) (num : Nat) : Option Bytes :=
  match sysTable arch with
  | none => none
  | some (_, tbl, _, numTree) =>
    match numTree.find num with
    | none => none
    | some i => match tbl[i]? with
      | some (n, nm) => if n == num then some nm else none
      | none => none

/-- `reverseSyscall[arch][name]` -/
def syscallNum (arch : Bytes) (name : Bytes) : Option Nat :=
  match sysTable arch with
  | none => none
  | some (_, _, nameTree, _) => nameTree.find (encode name)

end LA.Tables
