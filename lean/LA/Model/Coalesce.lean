/-
Model of /repo/aucoalesce (coalesce.go, normalize.go tables, event_type.go, id_lookup.go's
ResolveIDsFromCaches) as pure functions.

Input: message *views* — what `msg.RecordType`, `msg.Sequence`, `msg.Timestamp`, `msg.Data()`
and `msg.Tags()` report for each message (the harness feeds the real results, so this model
does not depend on the parser model).  A Go `map[string]string` is an association list; Go
ranges over maps in an unspecified order, the model folds over the list in list order and
`Proofs/CoalesceOrder` shows the results agree up to permutation of map entries / warnings.

The tables (`normalizations.yaml`, `GetAuditEventType`) are a parameter `T : Tables`; the
driver and the data obligations instantiate it with the regenerated `LA.Gen.*`.

Core-only (linked into the driver).
-/
import LA.Model.CoalesceBase
import LA.Gen.Norms
import LA.Gen.CoalEventTypes
import LA.Gen.CoalesceConsts

namespace LA.Coalesce

/-! ### constants -/

def SYSCALL : Nat := 1300
def PATH : Nat := 1302
def SOCKADDR : Nat := 1306
def EXECVE : Nat := 1309
def EOE : Nat := 1320

def kResult : Bytes := b! "result"
def kSes : Bytes := b! "ses"
def kAuid : Bytes := b! "auid"
def kUid : Bytes := b! "uid"
def kGid : Bytes := b! "gid"
def kSubj_ : Bytes := b! "subj_"
def kObj_ : Bytes := b! "obj_"
def kSocket_ : Bytes := b! "socket_"
def kSyscall : Bytes := b! "syscall"
def kItems : Bytes := b! "items"
def kArgc : Bytes := b! "argc"
def kAddr : Bytes := b! "addr"
def kPort : Bytes := b! "port"
def kPath : Bytes := b! "path"
def kPid : Bytes := b! "pid"
def kPpid : Bytes := b! "ppid"
def kProctitle : Bytes := b! "proctitle"
def kComm : Bytes := b! "comm"
def kExe : Bytes := b! "exe"
def kCwd : Bytes := b! "cwd"
def kNametype : Bytes := b! "nametype"
def kName : Bytes := b! "name"
def kInode : Bytes := b! "inode"
def kRdev : Bytes := b! "rdev"
def kMode : Bytes := b! "mode"
def kOuid : Bytes := b! "ouid"
def kOgid : Bytes := b! "ogid"
def vUnknown : Bytes := b! "unknown"
def vUnset : Bytes := b! "unset"
def vFail : Bytes := b! "fail"
def vFailure : Bytes := b! "failure"
def vFile : Bytes := b! "file"
def vFilesystem : Bytes := b! "filesystem"
def vSocket : Bytes := b! "socket"
def vDirectory : Bytes := b! "directory"
def vCharDevice : Bytes := b! "character-device"
def vBlockDevice : Bytes := b! "block-device"
def vNamedPipe : Bytes := b! "named-pipe"
def vSymlink : Bytes := b! "symlink"
def vPARENT : Bytes := b! "PARENT"
def vUNKNOWN : Bytes := b! "UNKNOWN"
def vStar : Bytes := b! "*"

/-! ### input -/

/-- What a message reports.  `data = none` stands for `Data()` returning an error. -/
structure View where
  typ  : Nat
  seq  : Nat
  ts   : Nat
  data : Option KV
  tags : List Bytes
deriving Repr, DecidableEq, Inhabited

/-! ### output -/

/-- `Event.Warnings`, by the site that produced them. -/
inductive Warn where
  | dataErr                       -- newEvent: the primary record's Data() error, as is
  | parseFail (typ : Nat)         -- "failed to parse SOCKADDR|PATH|EXECVE message" / "failed to parse message"
  | sockaddrNoSyscall             -- "failed to add SOCKADDR data because syscall is unknown"
  | dupKey (key : Bytes) (typ : Nat)  -- "duplicate key (k) from T message"
  | noArgc                        -- "argc key not found in EXECVE message"
  | badArgc                       -- "failed to convert argc=.. to number"
  | noArg (key : Bytes)           -- "failed to find arg aN"
  | noNorm                        -- "no normalization found for event"
  | fileObj                       -- "failed to set file object: …"
  | subjPrimary | subjSecondary | objPrimary | objSecondary | how | sourceIP  -- "failed to set … using keys=…"
deriving Repr, DecidableEq, Inhabited

structure File where
  path    : Bytes := []
  device  : Bytes := []
  inode   : Bytes := []
  mode    : Bytes := []
  uid     : Bytes := []
  gid     : Bytes := []
  owner   : Bytes := []
  group   : Bytes := []
  selinux : KV := []
deriving Repr, DecidableEq, Inhabited

structure Addr where
  hostname : Bytes := []
  ip       : Bytes := []
  port     : Bytes := []
  path     : Bytes := []
deriving Repr, DecidableEq, Inhabited

/-- `ECSEntityData` -/
structure Entity where
  name : Bytes := []
  id   : Bytes := []
deriving Repr, DecidableEq, Inhabited

/-- `aucoalesce.Event`, flattened (every exported field). `net`: 1 ingress, 2 egress. -/
structure Event where
  ts : Nat := 0
  seq : Nat := 0
  cat : Nat := 0
  typ : Nat := 0
  result : Bytes := []
  session : Bytes := []
  tags : List Bytes := []
  actorPrimary : Bytes := []
  actorSecondary : Bytes := []
  action : Bytes := []
  objType : Bytes := []
  objPrimary : Bytes := []
  objSecondary : Bytes := []
  how : Bytes := []
  ids : KV := []
  names : KV := []
  selinux : KV := []
  pid : Bytes := []
  ppid : Bytes := []
  title : Bytes := []
  pname : Bytes := []
  exe : Bytes := []
  cwd : Bytes := []
  args : List Bytes := []
  file : Option File := none
  source : Option Addr := none
  dest : Option Addr := none
  net : Option Nat := none
  data : KV := []
  paths : List KV := []
  ecsKind : Bytes := []
  ecsCategory : List Bytes := []
  ecsType : List Bytes := []
  ecsOutcome : Bytes := []
  ecsUser : Entity := {}
  ecsEffective : Entity := {}
  ecsTarget : Entity := {}
  ecsChanges : Entity := {}
  ecsGroup : Entity := {}
  warnings : List Warn := []
deriving Repr, DecidableEq, Inhabited

inductive CErr where
  | empty        -- "messages is empty"
  | noSyscall    -- "missing syscall message in compound event"
deriving Repr, DecidableEq, Inhabited

/-- Result of a Go call: value, returned error, or run-time panic. -/
inductive Outcome (α : Type) where
  | ok (a : α)
  | err (e : CErr)
  | panic
deriving Repr, DecidableEq, Inhabited

/-! ### tables -/

abbrev Norm := LA.Gen.Norms.Norm

structure Tables where
  norms : List Norm                  -- index = identity of the *Normalization
  syscalls : List (Bytes × Nat)      -- syscallNorms
  recordTypes : List (Nat × List Nat) -- recordTypeNorms, keyed by record type number
  ranges : List (Nat × Nat × Nat)    -- GetAuditEventType cases
  defaultCat : Nat

def genTables : Tables :=
  { norms := LA.Gen.Norms.norms, syscalls := LA.Gen.Norms.syscalls,
    recordTypes := LA.Gen.Norms.recordTypes, ranges := LA.Gen.CoalEventTypes.ranges,
    defaultCat := LA.Gen.CoalEventTypes.defaultCategory }

/-- `GetAuditEventType`: first matching case. -/
def categoryOf (T : Tables) (t : Nat) : Nat :=
  match T.ranges.find? (fun r => decide (r.1 ≤ t) && decide (t ≤ r.2.1)) with
  | some r => r.2.2
  | none => T.defaultCat

def normAt (T : Tables) (i : Nat) : Norm := (T.norms[i]?).getD default

def sysLookup (tbl : List (Bytes × Nat)) (name : Bytes) : Option Nat :=
  match tbl.find? (fun p => decide (p.1 = name)) with
  | some p => some p.2
  | none => none

/-! ### CoalesceMessages -/

def filterEOE (msgs : List View) : List View :=
  match msgs.getLast? with
  | some m => if m.typ = EOE then msgs.dropLast else msgs
  | none => msgs

def warn (e : Event) (w : Warn) : Event := { e with warnings := e.warnings ++ [w] }

def isIdKey (k : Bytes) : Bool := hasSuffix kUid k || hasSuffix kGid k

/-- body of the `for k, v := range data` loop of `newEvent`. -/
def distribute (e : Event) (kv : Bytes × Bytes) : Event :=
  if kv.1 = kResult ∨ kv.1 = kSes then e
  else if isIdKey kv.1 then { e with ids := setKV kv.1 kv.2 e.ids }
  else if hasPrefix kSubj_ kv.1 then { e with selinux := setKV (kv.1.drop 5) kv.2 e.selinux }
  else { e with data := setKV kv.1 kv.2 e.data }

/-- `newEvent(msg, syscall)`: identity from `first`, fields from `src`. -/
def newEvent (T : Tables) (first src : View) : Event :=
  let e0 : Event := { ts := first.ts, seq := first.seq, cat := categoryOf T first.typ, typ := first.typ }
  match src.data with
  | none => warn e0 .dataErr
  | some d =>
    let e1 : Event := { e0 with
      result := (lookup kResult d).getD vUnknown
      session := getD kSes d
      actorPrimary := getD kAuid d
      actorSecondary := getD kUid d
      tags := src.tags }
    d.foldl distribute e1

/-- one iteration of the loops in `addFieldsToEventData` / `addSockaddrRecord`: keep the
first value of a key, warn about later ones. -/
def addField (typ : Nat) (e : Event) (kv : Bytes × Bytes) : Event :=
  if hasKey kv.1 e.data then warn e (.dupKey kv.1 typ)
  else { e with data := e.data ++ [kv] }

def addOther (v : View) (e : Event) : Event :=
  match v.data with
  | none => warn e (.parseFail v.typ)
  | some d => d.foldl (addField v.typ) e

def addPath (v : View) (e : Event) : Event :=
  match v.data with
  | none => warn e (.parseFail v.typ)
  | some d => { e with paths := e.paths ++ [d] }

/-- `addAddress`: the new value of the `*Address`. -/
def addAddress (d : KV) (cur : Option Addr) : Option Addr :=
  let ip := getD kAddr d
  let port := getD kPort d
  let path := getD kPath d
  if ip ≠ [] ∨ port ≠ [] ∨ path ≠ [] then some { ip := ip, port := port, path := path } else cur

def incomingSyscalls : List Bytes := [b! "recvfrom", b! "recvmsg", b! "accept", b! "accept4"]
def outgoingSyscalls : List Bytes := [b! "connect", b! "sendto", b! "sendmsg"]

def addSockaddr (v : View) (e : Event) : Event :=
  match v.data with
  | none => warn e (.parseFail v.typ)
  | some d =>
    match lookup kSyscall e.data with
    | none => warn e .sockaddrNoSyscall
    | some sc =>
      let e1 := d.foldl (fun e kv => addField v.typ e (kSocket_ ++ kv.1, kv.2)) e
      if sc ∈ incomingSyscalls then { e1 with source := addAddress d e1.source, net := some 1 }
      else if sc ∈ outgoingSyscalls then { e1 with dest := addAddress d e1.dest, net := some 2 }
      else e1

def argKey (i : Nat) : Bytes := b! "a" ++ decBytes i

/-- the `for i := 0; i < int(count); i++` loop of `addExecveRecord` (`n` iterations left). -/
def collectArgs (d : KV) : Nat → Nat → Except Bytes (List Bytes)
  | 0, _ => .ok []
  | n + 1, i =>
    match lookup (argKey i) d with
    | none => .error (argKey i)
    | some a =>
      match collectArgs d n (i + 1) with
      | .ok as => .ok (a :: as)
      | .error k => .error k

def addExecve (v : View) (e : Event) : Event :=
  match v.data with
  | none => warn e (.parseFail v.typ)
  | some d =>
    match lookup kArgc d with
    | none => warn e .noArgc
    | some argc =>
      let e1 := addField v.typ e (kArgc, argc)
      match parseUint 10 32 argc with
      | none => warn e1 .badArgc
      | some n =>
        match collectArgs d n 0 with
        | .error k => warn e1 (.noArg k)
        | .ok as => { e1 with args := as }

/-- body of the record loop of `normalizeCompound`. -/
def step (e : Event) (v : View) : Event :=
  if v.typ = SYSCALL then { e with data := erase kItems e.data }
  else if v.typ = PATH then addPath v e
  else if v.typ = SOCKADDR then addSockaddr v e
  else if v.typ = EXECVE then addExecve v e
  else addOther v e

/-! ### applyNormalization -/

def setHowDefaults (e : Event) : Event :=
  let exe? := match lookup kExe e.data with
    | some x => some x
    | none => lookup kComm e.data
  match exe? with
  | none => e
  | some exe =>
    let e1 := { e with how := exe }
    if hasPrefix (b! "/usr/bin/python") exe || hasPrefix (b! "/usr/bin/sh") exe ||
       hasPrefix (b! "/usr/bin/bash") exe || hasPrefix (b! "/usr/bin/perl") exe then
      match lookup kComm e.data with
      | some comm => { e1 with how := comm }
      | none => e1
    else e1

def syscallNormOf (T : Tables) (e : Event) : Option Nat :=
  match lookup kSyscall e.data with
  | none => none
  | some sc =>
    match sysLookup T.syscalls sc with
    | some i => some i
    | none => sysLookup T.syscalls vStar

def hasAllFields (n : Norm) (e : Event) : Bool := n.hasFields.all (fun f => hasKey f e.data)

def recordNormOf (T : Tables) (e : Event) : Option Nat :=
  match (T.recordTypes.lookup e.typ).getD [] with
  | [] => none
  | [i] => some i
  | idxs => idxs.foldl (fun acc i => if hasAllFields (normAt T i) e then some i else acc) none

def selectNorm (T : Tables) (e : Event) : Option Nat :=
  if e.typ = SYSCALL then syscallNormOf T e else recordNormOf T e

/-- `getValue`: Data, then user IDs. -/
def getValue (k : Bytes) (e : Event) : Option Bytes :=
  match lookup k e.data with
  | some v => some v
  | none => lookup k e.ids

/-- first key of the list that `getValue` finds. -/
def firstValue (ks : List Bytes) (e : Event) : Option Bytes :=
  match ks with
  | [] => none
  | k :: r => match getValue k e with
    | some v => some v
    | none => firstValue r e

/-- `os.FileMode` tests of `setFileObject`'s switch on the 32-bit value `m`; `cur` is kept
when no case applies. -/
def classifyMode (m : Nat) (cur : Bytes) : Bytes :=
  if !(m.testBit 19 || m.testBit 21 || m.testBit 24 || m.testBit 25 || m.testBit 26 || m.testBit 27 || m.testBit 31) then vFile
  else if m.testBit 31 then vDirectory
  else if m.testBit 21 then vCharDevice
  else if m.testBit 13 || m.testBit 14 then vBlockDevice
  else if m.testBit 25 then vNamedPipe
  else if m.testBit 27 then vSymlink
  else if m.testBit 24 then vSocket
  else cur

/-- the PATH record `setFileObject` works from; `none` = index out of range (Go panics). -/
def selectPath (paths : List KV) (hint : Int) : Option KV :=
  let idx : Int := if (paths.length : Int) > hint then hint else 0
  if idx < 0 then none else
  match paths[idx.toNat]? with
  | none => none
  | some p0 =>
    some (((paths.drop idx.toNat).find? (fun p =>
      let nt := getD kNametype p
      !(decide (nt = vPARENT)) && !(decide (nt = vUNKNOWN)))).getD p0)

def objLabels (p : KV) : KV :=
  p.foldl (fun acc kv => if hasPrefix kObj_ kv.1 then setKV (kv.1.drop 4) kv.2 acc else acc) []

/-- `setFileObject` after the PATH record has been chosen.  (`if v, found := path[k]; found
{ f.X = v }` on the fresh `File` is `f.X = path[k]`.) -/
def fileFromPath (e : Event) (p : KV) : Event :=
  let e1 := match lookup kName p with
    | some v => { e with objPrimary := v }
    | none => e
  let f3 : File := { path := getD kName p, inode := getD kInode p, device := getD kRdev p }
  match lookup kMode p with
  | none =>
    { e1 with file := some { f3 with uid := getD kOuid p, gid := getD kOgid p, selinux := objLabels p } }
  | some mv =>
    match parseUint 8 64 mv with
    | none => warn { e1 with file := some f3 } .fileObj
    | some n =>
      let m := n % 4294967296
      { e1 with
        objType := classifyMode m e1.objType
        file := some { f3 with mode := oct4 (m % 4096), uid := getD kOuid p, gid := getD kOgid p,
                               selinux := objLabels p } }

def setSocketObject (e : Event) : Event :=
  let e1 := match lookup (b! "socket_addr") e.data with
    | some v => { e with objPrimary := v }
    | none => match lookup (b! "socket_path") e.data with
      | some v => { e with objPrimary := v }
      | none => e
  match lookup (b! "socket_port") e1.data with
  | some v => { e1 with objSecondary := v }
  | none => e1

def isUnsetValue (v : Bytes) : Bool :=
  decide (v = []) || decide (v = vUnset) || decide (v = b! "4294967295") || decide (v = b! "-1")

/-- `ECSEntityData.set` -/
def Entity.set (x : Entity) (v : Bytes) : Entity :=
  if isUnsetValue v then { name := [], id := vUnset }
  else match parseUint 10 64 v with
    | some _ => { x with id := v }
    | none => { x with name := v }

def readRef (code : Nat) (key : Bytes) (e : Event) : Bytes :=
  match code with
  | 1 => e.actorPrimary
  | 2 => e.actorSecondary
  | 3 => e.objPrimary
  | 4 => e.objSecondary
  | 5 => getD key e.data
  | 6 => getD key e.ids
  | _ => []

def applyMapping (e : Event) (m : Nat × Bytes × Nat) : Event :=
  if m.1 = 0 ∨ m.2.2 = 0 then e else
  let v := readRef m.1 m.2.1 e
  match m.2.2 with
  | 1 => { e with ecsUser := e.ecsUser.set v }
  | 2 => { e with ecsEffective := e.ecsEffective.set v }
  | 3 => { e with ecsTarget := e.ecsTarget.set v }
  | 4 => { e with ecsChanges := e.ecsChanges.set v }
  | 5 => { e with ecsGroup := e.ecsGroup.set v }
  | _ => e

/-- first key of `ks` present in `Data`: (key, value) (`setSourceIP` looks at Data only). -/
def firstDataKey (ks : List Bytes) (e : Event) : Option (Bytes × Bytes) :=
  match ks with
  | [] => none
  | k :: r => match lookup k e.data with
    | some v => some (k, v)
    | none => firstDataKey r e

def setBy (ks : List Bytes) (w : Warn) (upd : Event → Bytes → Event) (e : Event) : Event :=
  if ks = [] then e else
  match firstValue ks e with
  | some v => upd e v
  | none => warn e w

/-- `if event.Source == nil && len(norm.SourceIP.Values) > 0 { … setSourceIP … }` -/
def setSourceIPStage (n : Norm) (e : Event) : Event :=
  if e.source.isNone ∧ n.sourceIP ≠ [] then
    match firstDataKey n.sourceIP e with
    | some kv => { e with data := erase kv.1 e.data, source := some { ip := kv.2 }, net := some 1 }
    | none => warn e .sourceIP
  else e

/-- the part of `applyNormalization` after the object has been set. -/
def applyTail (n : Norm) (e : Event) : Event :=
  let e := setBy n.subjPrimary .subjPrimary (fun e v => { e with actorPrimary := v }) e
  let e := setBy n.subjSecondary .subjSecondary (fun e v => { e with actorSecondary := v }) e
  let e := setBy n.objPrimary .objPrimary (fun e v => { e with objPrimary := v }) e
  let e := setBy n.objSecondary .objSecondary (fun e v => { e with objSecondary := v }) e
  let e := setBy n.how .how (fun e v => { e with how := v }) e
  let e := setSourceIPStage n e
  n.mappings.foldl applyMapping e

/-- `hasAdditionalNormalization`: the syscall normalisation when it is another entry. -/
def extraNorm (ni : Nat) (sysNorm : Option Nat) : Option Nat :=
  match sysNorm with
  | some si => if si ≠ ni then some si else none
  | none => none

/-- ECS kind/category/type, action and the default object type. -/
def setEcs (T : Tables) (ni : Nat) (sysNorm : Option Nat) (e : Event) : Event :=
  let n := normAt T ni
  let e := { e with ecsKind := n.ecsKind, ecsCategory := n.ecsCategory, ecsType := n.ecsType }
  let e := match extraNorm ni sysNorm with
    | some si =>
      { e with ecsCategory := e.ecsCategory ++ (normAt T si).ecsCategory,
               ecsType := e.ecsType ++ (normAt T si).ecsType,
               ecsOutcome := if e.result = vFail then vFailure else e.ecsOutcome }
    | none => e
  { e with action := n.action, objType := n.objectWhat }

/-- the `switch norm.ObjectWhat`; `panic` when `event.Paths[pathIndex]` is out of range. -/
def setObject (n : Norm) (e : Event) : Outcome Event :=
  if n.objectWhat = vFile ∨ n.objectWhat = vFilesystem then
    if e.paths = [] then .ok e
    else match selectPath e.paths n.objectPathIndex with
      | none => .panic
      | some p => .ok (fileFromPath e p)
  else if n.objectWhat = vSocket then .ok (setSocketObject e)
  else .ok e

/-- `applyNormalization`. -/
def applyNorm (T : Tables) (e0 : Event) : Outcome Event :=
  let e := setHowDefaults e0
  match selectNorm T e with
  | none => .ok (warn e .noNorm)
  | some ni =>
    match setObject (normAt T ni) (setEcs T ni (syscallNormOf T e) e) with
    | .ok e1 => .ok (applyTail (normAt T ni) e1)
    | .err x => .err x
    | .panic => .panic

def addProcess (e : Event) : Event :=
  { e with
    pid := getD kPid e.data, ppid := getD kPpid e.data, title := getD kProctitle e.data,
    pname := getD kComm e.data, exe := getD kExe e.data, cwd := getD kCwd e.data,
    data := erase kCwd (erase kExe (erase kComm (erase kProctitle (erase kPpid (erase kPid e.data))))) }

/-- the event before `applyNormalization`. -/
def assemble (T : Tables) (msgs : List View) : Outcome Event :=
  match filterEOE msgs with
  | [] => .err .empty
  | [m] => .ok (newEvent T m m)
  | first :: rest =>
    match (first :: rest).find? (fun v => decide (v.typ = SYSCALL)) with
    | none => .err .noSyscall
    | some s => .ok ((first :: rest).foldl step (newEvent T first s))

/-- `CoalesceMessages`. -/
def coalesce (T : Tables) (msgs : List View) : Outcome Event :=
  match assemble T msgs with
  | .ok e =>
    match applyNorm T e with
    | .ok e' => .ok (addProcess e')
    | .err x => .err x
    | .panic => .panic
  | .err x => .err x
  | .panic => .panic

/-! ### ResolveIDsFromCaches -/

/-- the user database as seen through the four caches (`lookupFn`s). -/
structure Lookups where
  userById : Bytes → Bytes
  groupById : Bytes → Bytes
  userByName : Bytes → Bytes
  groupByName : Bytes → Bytes

/-- `stringCache.lookup` as a function of the database (see `CoalesceHeap` for the cache state). -/
def cacheLookup (f : Bytes → Bytes) (k : Bytes) : Bytes :=
  if k = [] ∨ k = vUnset then [] else f k

def Entity.resolve (byId byName : Bytes → Bytes) (x : Entity) : Entity :=
  if decide (x.id = []) = decide (x.name = []) then x
  else if x.id ≠ [] then { x with name := cacheLookup byId x.id }
  else { x with id := cacheLookup byName x.name }

def resolveNames (L : Lookups) (ids : KV) : KV :=
  ids.foldl (fun acc kv =>
    if hasSuffix kUid kv.1 then
      (let v := cacheLookup L.userById kv.2; if v ≠ [] then setKV kv.1 v acc else acc)
    else if hasSuffix kGid kv.1 then
      (let v := cacheLookup L.groupById kv.2; if v ≠ [] then setKV kv.1 v acc else acc)
    else acc) []

def resolveIDs (L : Lookups) (e : Event) : Event :=
  let p := cacheLookup L.userById e.actorPrimary
  let e := if p ≠ [] then { e with actorPrimary := p } else e
  let s := cacheLookup L.userById e.actorSecondary
  let e := if s ≠ [] then { e with actorSecondary := s } else e
  let names := resolveNames L e.ids
  let e := if names ≠ [] then { e with names := names } else e
  let e := match e.file with
    | none => e
    | some f =>
      let f := if f.uid ≠ [] then { f with owner := cacheLookup L.userById f.uid } else f
      let f := if f.gid ≠ [] then { f with group := cacheLookup L.groupById f.gid } else f
      { e with file := some f }
  { e with
    ecsUser := e.ecsUser.resolve L.userById L.userByName
    ecsEffective := e.ecsEffective.resolve L.userById L.userByName
    ecsTarget := e.ecsTarget.resolve L.userById L.userByName
    ecsChanges := e.ecsChanges.resolve L.userById L.userByName
    ecsGroup := e.ecsGroup.resolve L.groupById L.groupByName }

end LA.Coalesce
