/-
ASCII helpers over byte strings represented as `List Nat` (Go strings are byte strings).
Decimal printing/parsing with Go's strconv acceptance rules. Core-only.
-/
namespace LA

abbrev Bytes := List Nat

def isDigit (b : Nat) : Bool := decide (48 ≤ b) && decide (b ≤ 57)
def isLower (b : Nat) : Bool := decide (97 ≤ b) && decide (b ≤ 122)
def isUpper (b : Nat) : Bool := decide (65 ≤ b) && decide (b ≤ 90)
def toUpper (b : Nat) : Nat := if isLower b then b - 32 else b
def toLower (b : Nat) : Nat := if isUpper b then b + 32 else b
def upper (bs : Bytes) : Bytes := bs.map toUpper
def lower (bs : Bytes) : Bytes := bs.map toLower
def isAscii (bs : Bytes) : Bool := bs.all (fun b => decide (b < 128))

/-- index of the first occurrence of byte `c` (strings.IndexByte). -/
def indexOf (c : Nat) : Bytes → Option Nat
  | [] => none
  | b :: bs => if b == c then some 0 else (indexOf c bs).map (· + 1)

/-- decimal digits of `n` (strconv.FormatUint base 10). -/
def dec (n : Nat) : Bytes :=
  if h : n < 10 then [48 + n] else dec (n / 10) ++ [48 + n % 10]
decreasing_by omega

def parseDigits : Bytes → Nat → Option Nat
  | [], acc => some acc
  | b :: bs, acc => if isDigit b then parseDigits bs (acc * 10 + (b - 48)) else none

/-- strconv.ParseUint(s, 10, bits) with max = 2^bits - 1: non-empty, digits only, in range. -/
def parseUint (bs : Bytes) (max : Nat) : Option Nat :=
  if bs.isEmpty then none else
  match parseDigits bs 0 with
  | some v => if v ≤ max then some v else none
  | none => none

/-- bytes of an ASCII string literal (code points = bytes for ASCII; only used on ASCII
literals). Defined through `String.toList` so that the kernel can evaluate it. -/
def ofString (s : String) : Bytes := s.toList.map Char.toNat

/-! ### lemmas -/

theorem parseDigits_append (a b : Bytes) (acc : Nat) :
    parseDigits (a ++ b) acc = (parseDigits a acc).bind (parseDigits b) := by
  induction a generalizing acc with
  | nil => simp [parseDigits]
  | cons x a ih =>
    simp only [List.cons_append, parseDigits]
    split
    · exact ih _
    · rfl

theorem parseDigits_dec (n : Nat) : parseDigits (dec n) 0 = some n := by
  induction n using Nat.strongRecOn with
  | _ n ih =>
    rw [dec]
    split
    · simp [parseDigits, isDigit]; omega
    · rename_i h
      rw [parseDigits_append, ih (n / 10) (by omega)]
      simp [parseDigits, isDigit]
      omega

theorem dec_ne_nil (n : Nat) : dec n ≠ [] := by
  rw [dec]; split <;> simp

theorem dec_digits (n : Nat) : ∀ b ∈ dec n, isDigit b = true := by
  induction n using Nat.strongRecOn with
  | _ n ih =>
    rw [dec]
    split
    · simp [isDigit]; omega
    · intro b hb
      rcases List.mem_append.mp hb with hb | hb
      · exact ih (n / 10) (by omega) b hb
      · simp at hb; subst hb; simp [isDigit]; omega

theorem parseUint_dec (n max : Nat) (h : n ≤ max) : parseUint (dec n) max = some n := by
  unfold parseUint
  have h1 : (dec n).isEmpty = false := by
    cases hd : dec n with
    | nil => exact absurd hd (dec_ne_nil n)
    | cons x xs => rfl
  simp [h1, parseDigits_dec, h]

theorem toUpper_of_not_lower {b : Nat} (h : isLower b = false) : toUpper b = b := by simp [toUpper, h]

theorem upper_id_of {bs : Bytes} (h : ∀ b ∈ bs, isLower b = false) : upper bs = bs := by
  induction bs with
  | nil => rfl
  | cons x xs ih =>
    simp only [upper, List.map_cons] at *
    rw [toUpper_of_not_lower (h x (by simp)), ih (fun b hb => h b (by simp [hb]))]

theorem digit_not_lower {b : Nat} (h : isDigit b = true) : isLower b = false := by
  simp [isDigit, isLower] at *; omega

end LA
