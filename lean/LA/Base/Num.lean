/-
strconv.ParseUint / ParseInt / Atoi with Go's acceptance rules (base 10 given explicitly, or
base 0 with prefixes and underscores), distinguishing syntax errors from range errors because
the rule encoder falls back to name lookups only on syntax errors. Core-only.
-/
import LA.Base.Str

namespace LA

inductive NumRes where
  | ok (v : Int)
  | syntax
  | range
deriving Repr, DecidableEq, Inhabited

def lowerB (b : Nat) : Nat := if 65 ≤ b ∧ b ≤ 90 then b + 32 else b

/-- digit value of a byte in strconv's digit loop: 0-9, a-z / A-Z ↦ 10.. ; none = invalid. -/
def digitVal (b : Nat) : Option Nat :=
  if 48 ≤ b ∧ b ≤ 57 then some (b - 48)
  else if 97 ≤ lowerB b ∧ lowerB b ≤ 122 then some (lowerB b - 97 + 10)
  else none

/-- the digit loop of ParseUint: left to right, the first invalid digit is a syntax error, the
first point where the value exceeds `maxVal` is a range error. Returns (result, saw underscore). -/
def digitLoop (base maxVal : Nat) (base0 : Bool) : Bytes → Nat → Bool → NumRes × Bool
  | [], acc, us => (.ok acc, us)
  | b :: bs, acc, us =>
    if b == 95 && base0 then digitLoop base maxVal base0 bs acc true
    else match digitVal b with
      | none => (.syntax, us)
      | some d =>
        if d ≥ base then (.syntax, us)
        else if acc * base + d > maxVal then (.range, us)
        else digitLoop base maxVal base0 bs (acc * base + d) us

/-- strconv.underscoreOK -/
def underscoreOKAux (hex : Bool) : Bytes → Nat → Bool   -- saw: 0 = '^', 1 = digit, 2 = '_', 3 = other
  | [], saw => saw != 2
  | b :: bs, saw =>
    if (48 ≤ b ∧ b ≤ 57) || (hex && decide (97 ≤ lowerB b ∧ lowerB b ≤ 102)) then underscoreOKAux hex bs 1
    else if b == 95 then (if saw != 1 then false else underscoreOKAux hex bs 2)
    else if saw == 2 then false
    else underscoreOKAux hex bs 3

def underscoreOK (s0 : Bytes) : Bool :=
  let s := match s0 with
    | 45 :: r => r
    | 43 :: r => r
    | r => r
  match s with
  | 48 :: p :: rest =>
    if lowerB p == 98 || lowerB p == 111 || lowerB p == 120 then underscoreOKAux (lowerB p == 120) rest 1
    else underscoreOKAux false s 0
  | _ => underscoreOKAux false s 0

/-- base 0: detect the base from the prefix; returns (base, digits). -/
def basePrefix (s : Bytes) : Nat × Bytes :=
  match s with
  | 48 :: p :: rest =>
    if s.length ≥ 3 && lowerB p == 98 then (2, rest)
    else if s.length ≥ 3 && lowerB p == 111 then (8, rest)
    else if s.length ≥ 3 && lowerB p == 120 then (16, rest)
    else (8, p :: rest)
  | 48 :: rest => (8, rest)
  | _ => (10, s)

/-- strconv.ParseUint(s, base, bits) for base = 10 or base = 0. -/
def parseUintGo (s : Bytes) (base : Nat) (bits : Nat) : NumRes :=
  if s.isEmpty then .syntax else
  let maxVal := 2 ^ bits - 1
  if base == 0 then
    let bp := basePrefix s
    let r := digitLoop bp.1 maxVal true bp.2 0 false
    match r.1 with
    | .ok v => if r.2 && !underscoreOK s then .syntax else .ok v
    | e => e
  else (digitLoop base maxVal false s 0 false).1

/-- strconv.ParseInt(s, base, bits) for base = 10 or base = 0. -/
def parseIntGo (s : Bytes) (base : Nat) (bits : Nat) : NumRes :=
  if s.isEmpty then .syntax else
  let p := splitSign s
  match parseUintGo p.2 base bits with
  | .syntax => .syntax
  | .range => .range
  | .ok un =>
    let cutoff : Int := 2 ^ (bits - 1)
    if !p.1 && un ≥ cutoff then .range
    else if p.1 && un > cutoff then .range
    else .ok (if p.1 then -un else un)

/-- strconv.Atoi = ParseInt(s, 10, 64) -/
def atoiGo (s : Bytes) : NumRes := parseIntGo s 10 64

/-- uint32(x) for a signed value. -/
def toU32 (x : Int) : Nat := (x % 4294967296).toNat

end LA
