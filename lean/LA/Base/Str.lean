/-
Byte-string functions of Go's `strings`/`strconv` packages that the models need, over
`Bytes = List Nat`. Core-only.
-/
import LA.Base.Ascii

namespace LA

def isAsciiSpace (b : Nat) : Bool := b == 9 || b == 10 || b == 11 || b == 12 || b == 13 || b == 32

/-- `\s` of Go's regexp (RE2 Perl class): [\t\n\f\r ] -/
def isReSpace (b : Nat) : Bool := b == 9 || b == 10 || b == 12 || b == 13 || b == 32

/-- `\w` of Go's regexp: [0-9A-Za-z_] -/
def isReWord (b : Nat) : Bool := isDigit b || isUpper b || isLower b || b == 95

/-- length of a leading Unicode white-space rune (unicode.IsSpace) in UTF-8, 0 if none.
ASCII: \t \n \v \f \r space; U+0085, U+00A0, U+1680, U+2000–U+200A, U+2028, U+2029, U+202F,
U+205F, U+3000. -/
def leadingSpaceLen : Bytes → Nat
  | b :: rest =>
    if isAsciiSpace b then 1 else
    match b, rest with
    | 194, c :: _ => if c == 133 || c == 160 then 2 else 0
    | 225, 154 :: 128 :: _ => 3
    | 226, 128 :: c :: _ => if (128 ≤ c ∧ c ≤ 138) || c == 168 || c == 169 || c == 175 then 3 else 0
    | 226, 129 :: 159 :: _ => 3
    | 227, 128 :: 128 :: _ => 3
    | _, _ => 0
  | [] => 0

/-- strings.TrimLeftFunc(s, unicode.IsSpace) (fuel = length). -/
def trimLeftSpaceAux : Nat → Bytes → Bytes
  | 0, s => s
  | f + 1, s =>
    match leadingSpaceLen s with
    | 0 => s
    | n => trimLeftSpaceAux f (s.drop n)

def trimLeftSpace (s : Bytes) : Bytes := trimLeftSpaceAux s.length s

/-- length of a trailing white-space rune, looking at the reversed string. -/
def trailingSpaceLenRev : Bytes → Nat
  | b :: rest =>
    if isAsciiSpace b then 1 else
    match b, rest with
    | 133, 194 :: _ => 2
    | 160, 194 :: _ => 2
    | 128, 154 :: 225 :: _ => 3
    | c, 128 :: 226 :: _ => if (128 ≤ c ∧ c ≤ 138) || c == 168 || c == 169 || c == 175 then 3 else 0
    | 159, 129 :: 226 :: _ => 3
    | 128, 128 :: 227 :: _ => 3
    | _, _ => 0
  | [] => 0

def trimRightSpaceRevAux : Nat → Bytes → Bytes
  | 0, r => r
  | f + 1, r =>
    match trailingSpaceLenRev r with
    | 0 => r
    | n => trimRightSpaceRevAux f (r.drop n)

def trimRightSpace (s : Bytes) : Bytes := (trimRightSpaceRevAux s.length s.reverse).reverse

/-- strings.TrimSpace -/
def trimSpace (s : Bytes) : Bytes := trimRightSpace (trimLeftSpace s)

/-- strings.Trim(s, cutset) for an ASCII cutset. -/
def trimSet (cut : Bytes) (s : Bytes) : Bytes :=
  ((s.dropWhile (fun b => cut.contains b)).reverse.dropWhile (fun b => cut.contains b)).reverse

/-- strings.TrimRight(s, cutset) -/
def trimRightSet (cut : Bytes) (s : Bytes) : Bytes :=
  (s.reverse.dropWhile (fun b => cut.contains b)).reverse

def hasPrefix (p s : Bytes) : Bool := p.isPrefixOf s

/-- strings.Index(s, sub) for non-empty `sub`. -/
def indexOfSub (sub : Bytes) : Bytes → Option Nat
  | [] => if sub.isEmpty then some 0 else none
  | b :: bs => if hasPrefix sub (b :: bs) then some 0 else (indexOfSub sub bs).map (· + 1)

/-- strings.Replace(s, old, new, n) for non-empty `old` (fuel = length of s). -/
def replaceNAux (old new : Bytes) : Nat → Nat → Bytes → Bytes
  | 0, _, s => s
  | _, 0, s => s
  | fuel + 1, n + 1, s =>
    match s with
    | [] => []
    | b :: bs =>
      if hasPrefix old (b :: bs) then new ++ replaceNAux old new fuel n ((b :: bs).drop old.length)
      else b :: replaceNAux old new fuel (n + 1) bs

def replaceN (s old new : Bytes) (n : Nat) : Bytes := replaceNAux old new (s.length + 1) n s

/-- strings.Split(s, sep) for a one-byte separator. -/
def splitByte (sep : Nat) : Bytes → List Bytes
  | [] => [[]]
  | b :: bs =>
    match splitByte sep bs with
    | [] => [[]]
    | cur :: rest => if b == sep then [] :: cur :: rest else (b :: cur) :: rest

/-- strings.SplitN(s, sep, n) for a one-byte separator and n ≥ 1. -/
def splitNByte (sep : Nat) : Nat → Bytes → List Bytes
  | 0, _ => []
  | 1, s => [s]
  | n + 2, s =>
    match indexOf sep s with
    | none => [s]
    | some i => s.take i :: splitNByte sep (n + 1) (s.drop (i + 1))

/-- strings.Join -/
def joinWith (sep : Bytes) : List Bytes → Bytes
  | [] => []
  | [a] => a
  | a :: rest => a ++ sep ++ joinWith sep rest

/-- strings.Fields for ASCII input (callers guard non-ASCII). -/
def fieldsAscii (s : Bytes) : List Bytes :=
  let r := s.foldr (fun b (acc : List Bytes × Bytes) =>
      if isAsciiSpace b then (if acc.2.isEmpty then acc.1 else acc.2 :: acc.1, [])
      else (acc.1, b :: acc.2)) ([], [])
  if r.2.isEmpty then r.1 else r.2 :: r.1

/-- hex digit value, both cases (encoding/hex, strconv base 16). -/
def hexVal (b : Nat) : Option Nat :=
  if isDigit b then some (b - 48)
  else if 97 ≤ b ∧ b ≤ 102 then some (b - 87)
  else if 65 ≤ b ∧ b ≤ 70 then some (b - 55)
  else none

/-- upper-case-only hex digit value (auparse.fromHexChar). -/
def upperHexVal (b : Nat) : Option Nat :=
  if isDigit b then some (b - 48)
  else if 65 ≤ b ∧ b ≤ 70 then some (b - 55)
  else none

def parseHexDigits : Bytes → Nat → Option Nat
  | [], acc => some acc
  | b :: bs, acc => match hexVal b with
    | some v => parseHexDigits bs (acc * 16 + v)
    | none => none

/-- optional sign of strconv.ParseInt: (negative?, rest). -/
def splitSign : Bytes → Bool × Bytes
  | 43 :: r => (false, r)
  | 45 :: r => (true, r)
  | r => (false, r)

/-- strconv.ParseInt(s, base, bits) for base 10 or 16 given explicitly: optional sign, then
digits of the base only (no underscores, no prefix); `none` = syntax or range error. -/
def parseInt (base : Nat) (bits : Nat) (s : Bytes) : Option Int :=
  let p := splitSign s
  if p.2.isEmpty then none else
  let mag := if base == 16 then parseHexDigits p.2 0 else parseDigits p.2 0
  match mag with
  | none => none
  | some v =>
    if p.1 then (if v ≤ 2 ^ (bits - 1) then some (-(v : Int)) else none)
    else (if v < 2 ^ (bits - 1) then some (v : Int) else none)

/-- two's complement wrap to a signed 64-bit value. -/
def wrap64 (x : Int) : Int := (x + 9223372036854775808) % 18446744073709551616 - 9223372036854775808

/-- lower-case hex without leading zeros (fmt %x of an unsigned value). -/
def hexLower (n : Nat) : Bytes :=
  if h : n < 16 then [if n < 10 then 48 + n else 87 + n] else hexLower (n / 16) ++ [if n % 16 < 10 then 48 + n % 16 else 87 + n % 16]
decreasing_by omega

/-- decimal of a signed integer (strconv.Itoa). -/
def decInt (i : Int) : Bytes := if i < 0 then 45 :: dec i.natAbs else dec i.toNat

end LA
