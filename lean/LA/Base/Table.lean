/-
Shared table machinery: names as byte lists over Nat, their Nat codes (base 256 under a
leading 1), binary search trees keyed by Nat codes (emitted by the translator as
certificates: a lookup structure whose agreement with the plain list is checked by a
linear / n·log n evaluation), association-list lookup.
Core-only.
-/
namespace LA

/-- code of a byte string: digits base 256 under a leading 1. -/
def encode (bs : List Nat) : Nat := bs.foldl (fun acc b => acc * 256 + b) 1

inductive Tree where
  | leaf
  | node (l : Tree) (k v : Nat) (r : Tree)
deriving Repr, Inhabited

namespace Tree

def find : Tree → Nat → Option Nat
  | leaf, _ => none
  | node l k v r, x => if x < k then l.find x else if k < x then r.find x else some v

def toList : Tree → List (Nat × Nat)
  | leaf => []
  | node l k v r => l.toList ++ (k, v) :: r.toList

theorem find_mem {t : Tree} {x v : Nat} (h : t.find x = some v) : (x, v) ∈ t.toList := by
  induction t with
  | leaf => simp [find] at h
  | node l k v' r ihl ihr =>
    unfold find at h
    simp only [toList, List.mem_append, List.mem_cons]
    split at h
    · exact Or.inl (ihl h)
    · split at h
      · exact Or.inr (Or.inr (ihr h))
      · rename_i h1 h2
        have : x = k := by omega
        simp at h
        exact Or.inr (Or.inl (by rw [this, h]))

end Tree

/-- association-list lookup by Nat key. -/
def lookupN {α : Type} : List (Nat × α) → Nat → Option α
  | [], _ => none
  | (k, v) :: rest, x => if k == x then some v else lookupN rest x

theorem lookupN_mem {α : Type} {l : List (Nat × α)} {x : Nat} {v : α} (h : lookupN l x = some v) :
    (x, v) ∈ l := by
  induction l with
  | nil => simp [lookupN] at h
  | cons p l ih =>
    obtain ⟨k, w⟩ := p
    unfold lookupN at h
    split at h
    · rename_i hk
      simp at h hk
      simp [hk, h]
    · exact List.mem_cons_of_mem _ (ih h)

theorem lookupN_none {α : Type} {l : List (Nat × α)} {x : Nat} (h : lookupN l x = none) :
    ∀ v, (x, v) ∉ l := by
  induction l with
  | nil => simp
  | cons p l ih =>
    obtain ⟨k, w⟩ := p
    unfold lookupN at h
    split at h
    · simp at h
    · rename_i hk
      intro v hv
      rcases List.mem_cons.mp hv with hv | hv
      · simp at hv hk; exact hk hv.1.symm
      · exact ih h v hv

def strictlyIncreasing : List Nat → Bool
  | [] => true
  | [_] => true
  | a :: b :: rest => decide (a < b) && strictlyIncreasing (b :: rest)

/-- all elements are bytes. -/
def IsBytes (bs : List Nat) : Prop := ∀ b ∈ bs, b < 256

instance (bs : List Nat) : Decidable (IsBytes bs) := by unfold IsBytes; infer_instance

theorem encode_append_one (bs : List Nat) (b : Nat) : encode (bs ++ [b]) = encode bs * 256 + b := by
  simp [encode, List.foldl_append]

theorem encode_pos (bs : List Nat) : 1 ≤ encode bs := by
  suffices H : ∀ rs : List Nat, 1 ≤ encode rs.reverse by simpa using H bs.reverse
  intro rs
  induction rs with
  | nil => simp [encode]
  | cons x rs ih => rw [List.reverse_cons, encode_append_one]; omega

theorem encode_rev_inj : ∀ (ra rb : List Nat), IsBytes ra → IsBytes rb →
    encode ra.reverse = encode rb.reverse → ra = rb := by
  intro ra
  induction ra with
  | nil =>
    intro rb _ _ h
    cases rb with
    | nil => rfl
    | cons y rb =>
      rw [List.reverse_cons, encode_append_one] at h
      have := encode_pos rb.reverse
      have h0 : encode ([] : List Nat).reverse = 1 := rfl
      rw [h0] at h
      omega
  | cons x ra ih =>
    intro rb ha hb h
    cases rb with
    | nil =>
      rw [List.reverse_cons, encode_append_one] at h
      have := encode_pos ra.reverse
      have h0 : encode ([] : List Nat).reverse = 1 := rfl
      rw [h0] at h
      omega
    | cons y rb =>
      rw [List.reverse_cons, List.reverse_cons, encode_append_one, encode_append_one] at h
      have hx : x < 256 := ha x (by simp)
      have hy : y < 256 := hb y (by simp)
      have h1 : encode ra.reverse = encode rb.reverse := by omega
      have h2 : x = y := by omega
      rw [ih rb (fun z hz => ha z (by simp [hz])) (fun z hz => hb z (by simp [hz])) h1, h2]

/-- the code determines the byte string. -/
theorem encode_inj {a b : List Nat} (ha : IsBytes a) (hb : IsBytes b) (h : encode a = encode b) : a = b := by
  have := encode_rev_inj a.reverse b.reverse (fun z hz => ha z (by simpa using hz))
    (fun z hz => hb z (by simpa using hz)) (by simpa using h)
  simpa using congrArg List.reverse this

end LA
