/-
C08 — Audit client commands report the kernel's verdict for their own request.
Property theorems only; helper lemmas are in LA/Proofs/Client.lean and LA/Proofs/ClientCmd.lean.

Setting of every theorem: a request has been handed to the endpoint and got sequence number
`own ≠ 0`; the receive queue then reads  noise ++ ts ++ [b] ++ rest  (`Dialogue`), where noise is any
number of pieces "up to nine transient failures (EINTR/EAGAIN), then an unsolicited record
(well-formed datagram with sequence 0)", `ts` is one more run of up to nine transient failures,
and `b` is any datagram of at least 16 bytes whose sequence number is not 0.  All of `ns`, `ts`,
`b`, `rest`, the client state and the request are universally quantified; no length is bounded.

`own ≠ 0`: the kernel uses sequence 0 for unsolicited records, and getReply does not skip them
when the request itself has number 0 (reachable only after 2^32 Sends on one client, see
`C18_seq_wrap`); `C08_own_zero_accepts_event` states what happens there.
-/
import LA.Proofs.ClientCmd
import LA.Proofs.StateFacts
import LA.Gen.ClientFacts

namespace LA.Client
open LA.Netlink

/-- getReply reads through the noise, returns the datagram if it carries the request's sequence
number and an error naming the foreign number otherwise, and consumes exactly noise ++ ts ++ [b]:
`rest` stays queued, nothing else of the client changes. -/
theorem C08_getReply (seq : Nat) (hseq : seq ≠ 0) (s : St) {ns : List Seg} {ts : List Item} {b : Bytes}
    {rest : List Item} (d : Dialogue s.queue ns ts b rest) :
    (getReply seq s).2 =
      (if (Hdr.parse b).seq = seq then .ok { hdr := Hdr.parse b, data := b.drop 16 }
       else .error (.seqMismatch (Hdr.parse b).seq)) ∧
    Consumed s (getReply seq s).1 ((noise ns).length + ts.length + 1) rest :=
  getReply_dialogue seq hseq s d

/-- Ten transient failures in a row (wherever they come, after any amount of noise) make getReply
give up with "no reply received", having consumed exactly those ten. -/
theorem C08_getReply_gives_up (seq : Nat) (hseq : seq ≠ 0) (s : St) (ns : List Seg) (hns : ∀ n ∈ ns, n.Ok)
    (ts : List Item) (hts : ∀ t ∈ ts, t.transient = true) (hl : ts.length = 10) (rest : List Item)
    (hq : s.queue = noise ns ++ (ts ++ rest)) :
    (getReply seq s).2 = .error .noReply ∧ Consumed s (getReply seq s).1 ((noise ns).length + 10) rest :=
  getReply_ten_failures seq hseq s ns hns ts hts hl rest hq

/-- the loop's fuel is an artefact of the model: it never runs out -/
theorem C08_getReply_fuel (seq : Nat) (s : St) : (getReply seq s).2 ≠ .error .fuel := getReply_fuel seq s

/-- non-vacuity of `Dialogue`: EINTR, an event, EAGAIN, EINTR, then an ACK for request 7 -/
example : Dialogue
    [.eintr, .raw (serialize ⟨⟨0, 1300, 0, 0, 0⟩, [1]⟩), .eagain, .eintr, .raw (serialize ⟨⟨0, 2, 0, 7, 0⟩, le32 0⟩), .fail]
    [⟨[.eintr], serialize ⟨⟨0, 1300, 0, 0, 0⟩, [1]⟩⟩] [.eagain, .eintr] (serialize ⟨⟨0, 2, 0, 7, 0⟩, le32 0⟩) [.fail] :=
  ⟨rfl, by
    intro n hn
    simp only [List.mem_singleton] at hn
    subst hn
    exact ⟨⟨by decide, by decide⟩, by decide, by decide⟩,
   ⟨by decide, by decide⟩, by decide, by decide⟩

/-! ### commands with one acknowledgement: AddRule, DeleteRule, every Set* in WaitForReply mode -/

/-- the requests that wait for one ACK -/
inductive Req where
  | add (rule : Bytes)
  | del (rule : Bytes)
  | setSt (st : Status) (mode : Nat)

/-- the method -/
def Req.run (s : St) : Req → St × Out
  | .add r => addRule s r
  | .del r => deleteRule s r
  | .setSt st mode => set s st mode

/-- the Send it starts with -/
def Req.sent (s : St) : Req → St × Nat × Bool
  | .add r => send s AUDIT_ADD_RULE (NLM_F_REQUEST + NLM_F_ACK) r
  | .del r => send s AUDIT_DEL_RULE (NLM_F_REQUEST + NLM_F_ACK) r
  | .setSt st _ => send s AuditSet (NLM_F_REQUEST + NLM_F_ACK) st.toWire

def Req.Waits : Req → Prop
  | .setSt _ mode => mode ≠ NoWait
  | _ => True

theorem Req.run_eq (r : Req) (hw : r.Waits) (s : St) :
    r.run s = match r.sent s with
      | (s1, _, false) => (s1, .fail .send)
      | (s1, q, true) => awaitAck q s1 := by
  cases r with
  | add rule => exact addRule_eq s rule
  | del rule => exact deleteRule_eq s rule
  | setSt st mode => exact set_wait_eq s st mode hw

/-- every Set* method is `set` with a one-field status (so the theorems about `Req.setSt` are about them) -/
theorem C08_setters_are_set (s : St) (v : Nat) (e : Bool) (w : Int) (wm : Nat) :
    setRateLimit s v wm = set s { mask := AuditStatusRateLimit, rateLimit := v } wm ∧
    setBacklogLimit s v wm = set s { mask := AuditStatusBacklogLimit, backlogLimit := v } wm ∧
    setEnabled s e wm = set s { mask := AuditStatusEnabled, enabled := if e then 1 else 0 } wm ∧
    setImmutable s wm = set s { mask := AuditStatusEnabled, enabled := 2 } wm ∧
    setFailure s v wm = set s { mask := AuditStatusFailure, failure := v } wm ∧
    setBacklogWaitTime s w wm = set s { mask := AuditStatusBacklogWaitTime, backlogWaitTime := u32OfInt w } wm ∧
    setPID s v wm = set { s with clearPID := true } { mask := AuditStatusPID, pid := v } wm :=
  ⟨rfl, rfl, rfl, rfl, rfl, rfl, rfl⟩

/-- The verdict.  The command's result is the verdict `b` carries for the request's own sequence
number: success iff `b` has that number, type NLMSG_ERROR and errno 0; the kernel's errno if it has
one; an error otherwise — and the command consumed exactly its own dialogue. -/
theorem C08_command_verdict (r : Req) (hw : r.Waits) (s : St) (hs : (r.sent s).2.2 = true)
    (hown : (r.sent s).2.1 ≠ 0) {ns : List Seg} {ts : List Item} {b : Bytes} {rest : List Item}
    (d : Dialogue (r.sent s).1.queue ns ts b rest) :
    (r.run s).2 = outOfVerdict (verdict (r.sent s).2.1 b) ∧
    Consumed (r.sent s).1 (r.run s).1 ((noise ns).length + ts.length + 1) rest := by
  rw [r.run_eq hw s]
  cases hsent : r.sent s with
  | mk s1 x =>
    cases x with
    | mk q ok =>
      rw [hsent] at hs hown d
      simp only at hs hown d
      subst hs
      exact awaitAck_dialogue q hown s1 d

/-- nil ⇔ the request's own ACK carries errno 0 -/
theorem C08_command_ok_iff (r : Req) (hw : r.Waits) (s : St) (hs : (r.sent s).2.2 = true)
    (hown : (r.sent s).2.1 ≠ 0) {ns : List Seg} {ts : List Item} {b : Bytes} {rest : List Item}
    (d : Dialogue (r.sent s).1.queue ns ts b rest) :
    (r.run s).2 = .ok .none ↔
      (Hdr.parse b).seq = (r.sent s).2.1 ∧ (Hdr.parse b).typ = NLMSG_ERROR ∧ 20 ≤ b.length ∧ rd32 b 16 = 0 := by
  rw [(C08_command_verdict r hw s hs hown d).1, outOfVerdict_ok_iff, verdict_none_iff]

/-- otherwise the error determines the errno: an own-sequence NLMSG_ERROR whose payload word is
`-e` (two's complement, 1 ≤ e < 2^31) makes the command fail with exactly errno `e` -/
theorem C08_command_errno (r : Req) (hw : r.Waits) (s : St) (hs : (r.sent s).2.2 = true)
    (hown : (r.sent s).2.1 ≠ 0) {ns : List Seg} {ts : List Item} {b : Bytes} {rest : List Item}
    (d : Dialogue (r.sent s).1.queue ns ts b rest)
    (h0 : (Hdr.parse b).seq = (r.sent s).2.1) (h1 : (Hdr.parse b).typ = NLMSG_ERROR) (h2 : 20 ≤ b.length)
    (e : Nat) (he1 : 1 ≤ e) (he2 : e < 2147483648) (hw32 : rd32 b 16 = 4294967296 - e) :
    (r.run s).2 = .fail (.errno e) := by
  rw [(C08_command_verdict r hw s hs hown d).1, verdict_errno _ b h0 h1 h2 (by omega), hw32, errnoOf_neg e he1 he2]
  rfl

theorem C08_addRule_verdict (rule : Bytes) (s : St) (hs : (Req.sent s (.add rule)).2.2 = true)
    (hown : (Req.sent s (.add rule)).2.1 ≠ 0) {ns : List Seg} {ts : List Item} {b : Bytes} {rest : List Item}
    (d : Dialogue (Req.sent s (.add rule)).1.queue ns ts b rest) :
    ((addRule s rule).2 = .ok .none ↔
      (Hdr.parse b).seq = (Req.sent s (.add rule)).2.1 ∧ (Hdr.parse b).typ = NLMSG_ERROR ∧ 20 ≤ b.length ∧
      rd32 b 16 = 0) ∧
    (addRule s rule).1.queue = rest :=
  ⟨C08_command_ok_iff (.add rule) trivial s hs hown d, (C08_command_verdict (.add rule) trivial s hs hown d).2.queue⟩

theorem C08_deleteRule_verdict (rule : Bytes) (s : St) (hs : (Req.sent s (.del rule)).2.2 = true)
    (hown : (Req.sent s (.del rule)).2.1 ≠ 0) {ns : List Seg} {ts : List Item} {b : Bytes} {rest : List Item}
    (d : Dialogue (Req.sent s (.del rule)).1.queue ns ts b rest) :
    ((deleteRule s rule).2 = .ok .none ↔
      (Hdr.parse b).seq = (Req.sent s (.del rule)).2.1 ∧ (Hdr.parse b).typ = NLMSG_ERROR ∧ 20 ≤ b.length ∧
      rd32 b 16 = 0) ∧
    (deleteRule s rule).1.queue = rest :=
  ⟨C08_command_ok_iff (.del rule) trivial s hs hown d,
   (C08_command_verdict (.del rule) trivial s hs hown d).2.queue⟩

theorem C08_set_verdict (st : Status) (mode : Nat) (hm : mode ≠ NoWait) (s : St)
    (hs : (Req.sent s (.setSt st mode)).2.2 = true) (hown : (Req.sent s (.setSt st mode)).2.1 ≠ 0)
    {ns : List Seg} {ts : List Item} {b : Bytes} {rest : List Item}
    (d : Dialogue (Req.sent s (.setSt st mode)).1.queue ns ts b rest) :
    ((set s st mode).2 = .ok .none ↔
      (Hdr.parse b).seq = (Req.sent s (.setSt st mode)).2.1 ∧ (Hdr.parse b).typ = NLMSG_ERROR ∧ 20 ≤ b.length ∧
      rd32 b 16 = 0) ∧
    (set s st mode).1.queue = rest :=
  ⟨C08_command_ok_iff (.setSt st mode) hm s hs hown d, (C08_command_verdict (.setSt st mode) hm s hs hown d).2.queue⟩

/-- A reply carrying another request's sequence number is never a success, whatever it says. -/
theorem C08_foreign_never_ok (r : Req) (hw : r.Waits) (s : St) (hs : (r.sent s).2.2 = true)
    (hown : (r.sent s).2.1 ≠ 0) {ns : List Seg} {ts : List Item} {b : Bytes} {rest : List Item}
    (d : Dialogue (r.sent s).1.queue ns ts b rest) (hf : (Hdr.parse b).seq ≠ (r.sent s).2.1) :
    (r.run s).2 = .fail (.seqMismatch (Hdr.parse b).seq) := by
  rw [(C08_command_verdict r hw s hs hown d).1, verdict_foreign _ b hf]
  rfl

/-- a request that could not be sent fails without reading anything -/
theorem C08_send_failure (r : Req) (hw : r.Waits) (s : St) (hs : (r.sent s).2.2 = false) :
    r.run s = ((r.sent s).1, .fail .send) := by
  rw [r.run_eq hw s]
  cases hsent : r.sent s with
  | mk s1 x =>
    cases x with
    | mk q ok =>
      rw [hsent] at hs
      simp only at hs
      subst hs
      rfl

/-- non-vacuity, end to end: AddRule, the kernel answers EPERM after an event and an EINTR -/
example :
    (addRule { St.init 0 64 true with plans := [{ items := [⟨.raw (serialize ⟨⟨0, 1300, 0, 0, 0⟩, [1]⟩), none⟩, ⟨.eintr, none⟩,
        ⟨.raw (serialize ⟨⟨0, 2, 0, 0, 0⟩, le32 (4294967296 - 1)⟩), some 0⟩] }] } [9, 9]).2 = .fail (.errno 1) := by
  decide

/-! ### GetStatus -/

/-- GetStatus: if the request's ACK is not a success, that verdict is the result; if it is, the
next non-noise datagram must carry the request's number and type AUDIT_GET and at least 32 bytes,
and then the result is the status decoded from it — otherwise an error.  Exactly the two
dialogues are consumed. -/
theorem C08_getStatus_verdict (s : St) (hs : (getStatusAsync s true).2.2 = true)
    (hown : (getStatusAsync s true).2.1 ≠ 0) {ns : List Seg} {ts : List Item} {b : Bytes} {rest : List Item}
    (d : Dialogue (getStatusAsync s true).1.queue ns ts b rest) :
    (∀ e, verdict (getStatusAsync s true).2.1 b = some e →
        (getStatus s).2 = .fail e ∧ (getStatus s).1.queue = rest) ∧
    (verdict (getStatusAsync s true).2.1 b = none →
      ∀ {ns2 : List Seg} {ts2 : List Item} {b2 : Bytes} {rest2 : List Item}, Dialogue rest ns2 ts2 b2 rest2 →
        (getStatus s).2 = statusReply (getStatusAsync s true).2.1 b2 ∧ (getStatus s).1.queue = rest2) := by
  refine ⟨fun e hv => ?_, fun hv _ _ _ _ d2 => ?_⟩
  · have := getStatus_ack_fail s hs hown d e hv
    exact ⟨this.1, this.2.queue⟩
  · have := getStatus_ack_ok s hs hown d hv d2
    exact ⟨this.1, this.2.queue⟩

/-- data exact (status): when the reply carries a full audit_status, the struct returned has
exactly the kernel's first 44 payload bytes as its memory image -/
theorem C08_data_exact_status (own : Nat) (b2 : Bytes) (h0 : (Hdr.parse b2).seq = own)
    (h1 : (Hdr.parse b2).typ = AuditGet) (h2 : 16 + 44 ≤ b2.length) :
    ∃ st, statusReply own b2 = .ok (.status st) ∧ st.toWire = (b2.drop 16).take 44 := by
  have hl : 44 ≤ (b2.drop 16).length := by simp; omega
  refine ⟨Status.ofBytes ((b2.drop 16).take 44), ?_, ?_⟩
  · unfold statusReply fromWire
    rw [if_neg (by simpa using h0), if_neg (by simpa using h1), fromWireBytes_eq, if_neg (by omega)]
    have e0 : 44 - (b2.drop 16).length = 0 := by omega
    rw [e0]
    simp only [List.replicate_zero, List.append_nil, Option.map_some]
  · have hl2 : 44 ≤ ((b2.drop 16).take 44).length := by rw [List.length_take]; omega
    rw [toWire_ofBytes _ hl2, List.take_take, Nat.min_self]

/-! ### GetRules and DeleteRules -/

/-- GetRules: after a successful ACK, a complete listing (any number of AUDIT_LIST_RULES messages
of the request's sequence, each behind any noise, then NLMSG_DONE) yields copies of exactly the
payloads the kernel sent, in order, and consumes exactly the listing. -/
theorem C08_getRules_exact (s : St)
    (hs : (send s AUDIT_LIST_RULES (NLM_F_REQUEST + NLM_F_ACK) []).2.2 = true)
    (hown : (send s AUDIT_LIST_RULES (NLM_F_REQUEST + NLM_F_ACK) []).2.1 ≠ 0)
    {ns : List Seg} {ts : List Item} {b : Bytes} {rest : List Item}
    (d : Dialogue (send s AUDIT_LIST_RULES (NLM_F_REQUEST + NLM_F_ACK) []).1.queue ns ts b rest)
    (hv : verdict (send s AUDIT_LIST_RULES (NLM_F_REQUEST + NLM_F_ACK) []).2.1 b = none)
    (rs : List RuleMsg) (hrs : ∀ r ∈ rs, r.Ok (send s AUDIT_LIST_RULES (NLM_F_REQUEST + NLM_F_ACK) []).2.1)
    {nsD : List Seg} {tsD : List Item} {done : Bytes} {q rest2 : List Item}
    (hdone : (Hdr.parse done).seq = (send s AUDIT_LIST_RULES (NLM_F_REQUEST + NLM_F_ACK) []).2.1 ∧
             (Hdr.parse done).typ = NLMSG_DONE)
    (dD : Dialogue q nsD tsD done rest2) (hrest : rest = listing rs ++ q) :
    (getRules s).2 = .ok (.rules (rs.map fun r => .owned (r.b.drop 16))) ∧ (getRules s).1.queue = rest2 := by
  obtain ⟨hr, hc⟩ := awaitAck_dialogue _ hown _ d
  unfold awaitAck at hr hc
  unfold getRules getRulesE
  cases hsend : send s AUDIT_LIST_RULES (NLM_F_REQUEST + NLM_F_ACK) [] with
  | mk s1 x =>
    cases x with
    | mk own ok =>
      rw [hsend] at hs hown hr hc hv hrs hdone
      simp only at hs hown hr hc hv hrs hdone
      subst hs
      simp only
      cases hg : getReply own s1 with
      | mk s2 rr =>
        rw [hg] at hr hc
        cases rr with
        | error e' =>
          simp only at hr
          rw [hv] at hr
          simp [outOfVerdict] at hr
        | ok ack =>
          simp only at hr hc ⊢
          cases hck : checkAck ack with
          | some e' =>
            rw [hck] at hr
            simp only at hr
            rw [hv] at hr
            simp [outOfVerdict] at hr
          | none =>
            rw [hck] at hc
            simp only at hc ⊢
            obtain ⟨s', he, hc'⟩ := rulesLoop_listing own hown rs hrs hdone s2 q dD (by rw [hc.queue, hrest])
              (s2.queue.length + 1) (by
                have := listing_length_ge rs
                rw [hc.queue, hrest, List.length_append]; omega) []
            rw [he]
            exact ⟨by simp, hc'.queue⟩

/-- DeleteRules: the result is the count of listed rules exactly when every one of them was
deleted by its own DeleteRule request (each of which obeys `C08_deleteRule_verdict`), and
otherwise the error of the first deletion that failed (or of the listing). -/
theorem C08_deleteRules_verdict (s : St) :
    (∀ s1 e, getRulesE s = (s1, .error e) → deleteRules s = (s1, .fail e)) ∧
    (∀ s1 rs, getRulesE s = (s1, .ok rs) →
      (∀ s2, deleteRules s = (s2, .ok (.count rs.length)) ↔ AllDeleted rs s1 s2) ∧
      (∀ s2 e, deleteRules s = (s2, .fail e) ↔ FirstFailure rs s1 s2 e)) := by
  refine ⟨fun s1 e h => ?_, fun s1 rs h => ⟨fun s2 => ?_, fun s2 e => ?_⟩⟩
  · unfold deleteRules; rw [h]
  · rw [← (deleteLoop_spec rs s1).1 s2]
    unfold deleteRules; rw [h]; simp only
    cases hd : deleteLoop rs s1 with
    | mk s3 o => cases o <;> simp
  · rw [← (deleteLoop_spec rs s1).2 s2 e]
    unfold deleteRules; rw [h]; simp only
    cases hd : deleteLoop rs s1 with
    | mk s3 o => cases o <;> simp

/-- what is outside the property's domain, stated: a request whose own sequence number is 0 takes
an unsolicited record for its reply -/
theorem C08_own_zero_accepts_event (s : St) (ev : Bytes) (hev : IsEvent ev) (rest : List Item)
    (hq : s.queue = .raw ev :: rest) :
    (getReply 0 s).2 = .ok { hdr := Hdr.parse ev, data := ev.drop 16 } := by
  rw [getReply_eq_of_fuel 0 s (s.queue.length + 1) (Nat.lt_succ_self _)]
  unfold getReplyF
  rw [tryRecv_datagram [] (by simp) (by simp) s ev hev.1 rest (by simpa using hq)]
  simp [hev.2]

end LA.Client

/-! ### the code keeps nothing between calls that the model does not have -/

/-- Outside `init`, no function of the root package writes a package-level variable, hands the address of one to a function or calls a
sync/atomic method on one (regenerated list, see LA.Proofs.StateFacts): all state is in the object the model is given. -/
theorem C08_state_is_in_the_object : LA.StateFacts.ofPkg "" = [] := by decide

/-- The wait for a reply is bounded by what arrives, not by a clock: audit.go and netlink.go call nothing that reads a
clock or arms a timer or a deadline (`clientClocks`, regenerated with go/types on every run: package-level functions of
package time other than Sleep, anything of package context, Set…Deadline methods). The model's `getReply` skips any
number of unsolicited records, each after up to nine transient failures, and then reports the kernel's verdict
(`C08_getReply` above holds for every queue length); a wait that also gives up when some amount of wall-clock time
has passed reports a failure for a request the kernel acknowledged — after a wait (five seconds, thirty, an hour) that
no check can reproduce for every conceivable limit, which is why it is an obligation and the direct probe
(`probe-long-wait` in the client driver) only covers limits of a few seconds. -/
theorem C08_reply_wait_reads_no_clock : LA.Gen.ClientFacts.clientClocks = [] := by decide

/-- What the root package reads of the process it runs in is the clock (the Reassembler's deadlines, which the model is
given as readings), the process id (an input of SetPID) and the page size (the default receive buffer): `envReads`,
regenerated with go/types on every run, lists the package-level functions of os, os/user, os/exec, net, runtime,
math/rand, crypto/rand that are called, time.Now / Since / Until, file-system functions of path/filepath and process
queries of syscall. Nothing else of the machine — processors, environment variables, files, random numbers — can
influence what the Reassembler or the client does. -/
theorem C08_environment_is_clock_pid_pagesize : LA.StateFacts.envOf "" = LA.StateFacts.rootEnv := by decide
