/-
C05 — The audit log parser is total: no panic or hang on any input; repeated calls to
Data/Tags/ToMapStr give the same result.

Every Go index/slice expression of the parser is modelled by a checked accessor whose
failure is the distinct outcome `Res.panic`; the theorems say that outcome is unreachable.
Termination is Lean's: every definition of the model is structurally recursive or bounded by
fuel (and `C05_fuel_suffices` shows the fuel used for the key/value scan is enough).
Not covered by a theorem (assumed): the Go runtime and the standard library functions listed
in DESIGN.md section 3, and stack depth for pathological `msg=msg=…` nesting.
-/
import LA.Proofs.Auparse
import LA.Proofs.StateFacts

namespace LA.Auparse
open LA

/-- ParseLogLine and Parse never panic, for every input and every record type. -/
theorem C05_parse_no_panic (line : Bytes) (typ : Nat) :
    parseLogLine line ≠ Res.panic ∧ parse typ line ≠ Res.panic :=
  ⟨parseLogLine_no_panic line, parse_no_panic typ line⟩

/-- Data() (hence Tags() and ToMapStr(), which only read its result) never panics on any
message that Parse or ParseLogLine returned, whatever the record type. -/
theorem C05_data_no_panic (typ : Nat) (s : Bytes) (m : Msg) (h : parse typ s = Res.ok m) :
    (dataOf m).data ≠ Res.panic := dataOf_no_panic h

/-- … including messages produced from a whole log line. -/
theorem C05_line_data_no_panic (line : Bytes) (m : Msg) (h : parseLogLine line = Res.ok m) :
    (dataOf m).data ≠ Res.panic := by
  unfold parseLogLine at h
  simp only [bind, Bind.bind] at h
  split at h
  · simp at h
  · split at h
    · simp at h
    · cases hs : slice line 5 (optInt (indexOfSub msgToken line) - 1) with
      | panic => simp [hs] at h
      | err c => simp [hs] at h
      | ok tn =>
        simp only [hs] at h
        cases hg : MsgType.getType tn with
        | none => simp [hg] at h
        | some typ =>
          simp only [hg] at h
          cases hm : sliceFrom line (optInt (indexOfSub msgToken line) + 4) with
          | panic => simp [hm] at h
          | err c => simp [hm] at h
          | ok msg => simp only [hm] at h; exact dataOf_no_panic h

/-- Bad input is reported through the error result: the only outcomes are a message or an
error class (never both, never neither). -/
theorem C05_outcomes (typ : Nat) (s : Bytes) :
    (∃ m, parse typ s = Res.ok m) ∨ (∃ c, parse typ s = Res.err c) := by
  cases h : parse typ s with
  | ok m => exact Or.inl ⟨m, rfl⟩
  | err c => exact Or.inr ⟨c, rfl⟩
  | panic => exact absurd h (parse_no_panic typ s)

/-- Repeated calls return the same result: with the cache cell, the second (and any later)
Data() returns what the first one returned. -/
theorem C05_idempotent (m : Msg) (c : Cache) :
    let r1 := dataCached m c
    let r2 := dataCached m r1.2
    r2.1 = r1.1 ∧ r2.2 = r1.2 := by
  cases c <;> simp [dataCached]

theorem length_drop_takeWhile_lt (p : Nat → Bool) (b : Nat) (rest : Bytes) (h : p b = true) :
    ((b :: rest).drop ((b :: rest).takeWhile p).length).length < (b :: rest).length := by
  simp [List.takeWhile_cons, h]; omega

/-- The fuel given to the key/value scan is enough: any two amounts of fuel above the length
of the text give the same matches (so the scan is not cut short). -/
theorem C05_fuel_suffices (s : Bytes) : ∀ (f1 f2 : Nat), s.length < f1 → s.length < f2 →
    kvMatches f1 s = kvMatches f2 s := by
  induction hn : s.length using Nat.strongRecOn generalizing s with
  | _ n ih =>
    intro f1 f2 h1 h2
    cases s with
    | nil => cases f1 <;> cases f2 <;> simp [kvMatches]
    | cons b rest =>
      cases f1 with
      | zero => omega
      | succ f1 =>
        cases f2 with
        | zero => omega
        | succ f2 =>
          subst hn
          simp only [kvMatches]
          split
          · rename_i hk
            have hlt := length_drop_takeWhile_lt isKeyByte b rest hk
            generalize (b :: rest).drop ((b :: rest).takeWhile isKeyByte).length = after at hlt
            cases after with
            | nil => cases f1 <;> cases f2 <;> simp [kvMatches]
            | cons a vs =>
              by_cases ha : a = 61
              · subst ha
                simp only
                simp only [List.length_cons] at hlt h1 h2
                cases hmv : matchValue vs with
                | some n =>
                  simp only
                  congr 1
                  exact ih _ (by simp only [List.length_drop, List.length_cons]; omega) _ rfl _ _
                    (by simp only [List.length_drop]; omega) (by simp only [List.length_drop]; omega)
                | none =>
                  simp only
                  exact ih _ (by simp only [List.length_cons]; omega) _ rfl _ _ (by simp only [List.length_cons]; omega) (by simp only [List.length_cons]; omega)
              · simp only [List.length_cons] at hlt h1 h2
                split
                · rename_i heq; simp at heq; exact absurd heq.1 ha
                · exact ih _ (by simp only [List.length_cons]; omega) _ rfl _ _ (by simp only [List.length_cons]; omega) (by simp only [List.length_cons]; omega)
          · exact ih _ (by simp) _ rfl _ _ (by simp at h1 ⊢; omega) (by simp at h2 ⊢; omega)

/-- non-vacuity: a record on which Parse succeeds (so the hypothesis of C05_data_no_panic is
satisfiable). -/
example : parse 1307 (ofString "audit(1.000:2): cwd=\"/\"") =
    Res.ok ⟨1307, 1, 0, 2, ofString "audit(1.000:2): cwd=\"/\"", 1⟩ := by decide +kernel

end LA.Auparse

/-! ### the code keeps nothing between calls that the model does not have -/

/-- Outside `init`, no function of package auparse writes a package-level variable, hands the address of one to a function or calls a
sync/atomic method on one (regenerated list, see LA.Proofs.StateFacts): the parser is a function of its argument. -/
theorem C05_parser_keeps_nothing_between_calls : LA.StateFacts.ofPkg "auparse" = [] := by decide

/-- … and reads nothing of the process it runs in: package auparse calls no function of os, os/user, os/exec, net,
runtime, math/rand or crypto/rand, no time.Now / Since / Until, no file-system function of path/filepath and no
process query of syscall (`envReads`, regenerated with go/types on every run). What the parser answers is a function
of the bytes it is given — not of the machine's time zone, locale, user database, number of processors or files. -/
theorem C05_parser_reads_no_environment : LA.StateFacts.envOf "auparse" = [] := by decide
