/-
C11 — the Reassembler is safe under concurrent Push, Maintain and Close.
Property theorems only; the model is LA/Model/ReasmConc.lean, helper lemmas are in
LA/Proofs/ReasmConc.lean.

Every theorem quantifies over every configuration (maxInFlight, timeout), ANY number of
threads, ANY programs (including Stream callbacks that call PushMessage/Maintain/Close
again, to any depth, chosen by an arbitrary function of the callback's index and payload),
every clock, and EVERY schedule `sched : List Tid` of any length — i.e. every interleaving
at the granularity of the Reassembler's atomic steps (the code between two yield hooks).
`s.trace` is the history, newest event first.

Not expressible in this model, carried by other means (see design_notes/conc.md): data races
(the Go memory model) and the real mutex.  `C11_lock_facts` ties the lock discipline that
justifies "Put, CleanUp, Clear are one atomic step each / no step blocks" to the source.
-/
import LA.Proofs.ReasmConc
import LA.Gen.LockFacts
import LA.Proofs.StateFacts
import LA.Gen.ReasmFacts

namespace LA.ReasmConc
open LA.Reasm

/-! ### the property -/

/-- Conservation, at every point of every interleaving: the messages delivered so far, those
evicted from the table and waiting in some thread's locals to be delivered, and those still
buffered are together a permutation of the (non-EOE) messages whose `put` step has run.
Nothing is lost, duplicated or invented, whatever the schedule. -/
theorem C11_conservation (maxSize timeout : Int) (progs : List Prog) (sched : List Tid) :
    let s := run (init maxSize timeout progs) sched
    (delivered s.trace ++ pending s.threads ++ allMsgs s.st.buf).Perm (putLog s.trace) := by
  intro s
  rw [List.perm_iff_count]
  intro x
  have := reach_conserved maxSize timeout progs sched x
  simp only [List.count_append]
  exact this

/-- At most once: if the pushed messages are pairwise distinct, no message occurs twice in
delivered ∪ pending-in-thread-locals ∪ buffered — in particular nothing is delivered twice, and
nothing that was delivered or is about to be delivered is still in the table. -/
theorem C11_at_most_once (maxSize timeout : Int) (progs : List Prog) (sched : List Tid)
    (hd : (putLog (run (init maxSize timeout progs) sched).trace).Nodup) :
    let s := run (init maxSize timeout progs) sched
    (delivered s.trace ++ pending s.threads ++ allMsgs s.st.buf).Nodup :=
  (C11_conservation maxSize timeout progs sched).nodup_iff.mpr hd

/-- Quiescence.  In a terminal state (every thread has finished) nothing is pending; and for
every `Clear` step in the history (the successful Close's flush), every message whose `put`
step ran before that `Clear` has been delivered.  A push that returned before Close was
invoked has run its `put` before the Close's CAS, hence before its `Clear`: this is the
property's "every message whose push returned before Close was invoked has been delivered".
The last two clauses link "a Close succeeded" to that history event: a Close that returned nil
(in any state, terminal or not) has run its `Clear`; and in a terminal state the closed flag
being set (a CAS succeeded) implies the `Clear` has run. -/
theorem C11_quiescent (maxSize timeout : Int) (progs : List Prog) (sched : List Tid) :
    let s := run (init maxSize timeout progs) sched
    (Terminal s → pending s.threads = []) ∧
    (Terminal s → ∀ later earlier j outs, s.trace = later ++ Ev.clear j outs :: earlier →
        ∀ m ∈ putLog earlier, m ∈ delivered s.trace) ∧
    ((∃ t ∈ s.threads, Ret.closeOk ∈ t.rets) → ∃ j outs, Ev.clear j outs ∈ s.trace) ∧
    (Terminal s → s.st.closed = true → ∃ j outs, Ev.clear j outs ∈ s.trace) := by
  intro s
  have hclr : 0 < wClr.trace s.trace → ∃ j outs, Ev.clear j outs ∈ s.trace := by
    intro h
    obtain ⟨e, he, hw⟩ := trace_pos (w := wClr) (tr := s.trace) h
    cases e with
    | clear j outs => exact ⟨j, outs, he⟩
    | _ => simp [wClr] at hw
  have hpend : Terminal s → pending s.threads = [] := by
    intro hT
    unfold pending
    rw [List.flatMap_eq_nil_iff]
    intro t ht
    rw [hT t ht]; rfl
  refine ⟨hpend, ?_, ?_, ?_⟩
  · intro hT later earlier j outs hsplit m hm
    have := reach_flushed maxSize timeout progs sched later earlier j outs hsplit m hm
    rw [hpend hT] at this
    exact List.count_pos_iff.mp (by simpa using this)
  · rintro ⟨t, ht, hr⟩
    have hb : wClr.threads s.threads = wClr.trace s.trace := reach_balanced wClr_sound maxSize timeout progs sched
    have h1 := rets_le_threads wClr s.threads
    have h2 : 0 < (s.threads.map (fun t => wClr.rets t.rets)).sum := by
      have hpos : 0 < wClr.rets t.rets := by
        rw [wClr_rets]; exact List.count_pos_iff.mpr hr
      have hle : wClr.rets t.rets ≤ (s.threads.map (fun t => wClr.rets t.rets)).sum :=
        mem_le_sum _ _ (List.mem_map.mpr ⟨t, ht, rfl⟩)
      omega
    exact hclr (by omega)
  · intro hT hcl
    have hb : wClr.threads s.threads = wClr.trace s.trace := reach_balanced wClr_sound maxSize timeout progs sched
    have hb2 : wCas.threads s.threads = wCas.trace s.trace := reach_balanced wCas_sound maxSize timeout progs sched
    have h1 : wCas.trace s.trace = 1 := by
      rw [(reach_closedOnce maxSize timeout progs sched).1, hcl]; rfl
    have h2 : wClr.threads s.threads = wCas.threads s.threads := by
      rw [Weight.threads_terminal wClr hT, Weight.threads_terminal wCas hT]
      simp only [wClr_rets, wCas_rets]
    exact hclr (by omega)

/-- Exactly once after quiescence: with pairwise distinct pushed messages, in a terminal state
every message put before the successful Close's `Clear` has been delivered exactly once. -/
theorem C11_exactly_once (maxSize timeout : Int) (progs : List Prog) (sched : List Tid)
    (hd : (putLog (run (init maxSize timeout progs) sched).trace).Nodup) :
    let s := run (init maxSize timeout progs) sched
    Terminal s → ∀ later earlier j outs, s.trace = later ++ Ev.clear j outs :: earlier →
      ∀ m ∈ putLog earlier, (delivered s.trace).count m = 1 := by
  intro s hT later earlier j outs hsplit m hm
  have hmem := (C11_quiescent maxSize timeout progs sched).2.1 hT later earlier j outs hsplit m hm
  have hnd : (delivered s.trace).Nodup :=
    ((List.nodup_append.mp (List.nodup_append.mp (C11_at_most_once maxSize timeout progs sched hd)).1).1)
  rw [hnd.count]
  exact if_pos hmem

/-- Every group handed to `ReassemblyComplete`, by any thread under any schedule, is non-empty
and carries a single sequence number. -/
theorem C11_groups_uniform (maxSize timeout : Int) (progs : List Prog) (sched : List Tid) :
    let s := run (init maxSize timeout progs) sched
    ∀ j g, Ev.cb j (.group g) ∈ s.trace → g ≠ [] ∧ ∃ seq, ∀ m ∈ g, m.seq = seq := by
  intro s j g h
  exact (reach_uniform maxSize timeout progs sched).2.2 j (.group g) h g rfl

/-- Exactly one Close succeeds.  In every reachable state: at most one CompareAndSwap has
succeeded; the closed flag is set iff one has; as soon as ANY Close has run its CAS step
(successfully or not) exactly one CAS has succeeded; the Close calls that have returned nil
are at most the successful CAS steps; and in a terminal state the Close calls that returned
nil / the error are exactly the successful / failed CAS steps — so if Close was called at all,
exactly one call returned nil. -/
theorem C11_one_close (maxSize timeout : Int) (progs : List Prog) (sched : List Tid) :
    let s := run (init maxSize timeout progs) sched
    nCasOk s.trace ≤ 1 ∧
    (s.st.closed = true ↔ nCasOk s.trace = 1) ∧
    ((∃ j b, Ev.cas j b ∈ s.trace) → nCasOk s.trace = 1) ∧
    nRet .closeOk s.threads ≤ nCasOk s.trace ∧
    (Terminal s → nRet .closeOk s.threads = nCasOk s.trace ∧ nRet .closeErr s.threads = nCasFail s.trace) := by
  intro s
  have hc := reach_closedOnce maxSize timeout progs sched
  have hcount : nCasOk s.trace = if s.st.closed then 1 else 0 := by rw [← wCas_trace]; exact hc.1
  have hbal : wCas.threads s.threads = wCas.trace s.trace := reach_balanced wCas_sound maxSize timeout progs sched
  have hbalE : wErr.threads s.threads = wErr.trace s.trace := reach_balanced wErr_sound maxSize timeout progs sched
  have hok : nRet .closeOk s.threads = (s.threads.map (fun t => wCas.rets t.rets)).sum := by
    simp only [nRet, wCas_rets]
  have herr : nRet .closeErr s.threads = (s.threads.map (fun t => wErr.rets t.rets)).sum := by
    simp only [nRet, wErr_rets]
  refine ⟨?_, ?_, ?_, ?_, ?_⟩
  · rw [hcount]; split <;> omega
  · rw [hcount]; constructor
    · intro h; simp [h]
    · intro h; split at h
      · assumption
      · omega
  · intro h; rw [hcount, hc.2 h]; rfl
  · rw [hok, ← wCas_trace, ← hbal]; exact rets_le_threads wCas s.threads
  · intro hT
    rw [hok, herr, ← wCas_trace, ← wErr_trace, ← hbal, ← hbalE,
      Weight.threads_terminal wCas hT, Weight.threads_terminal wErr hT]
    exact ⟨rfl, rfl⟩

/-- No deadlock: in every reachable state every unfinished thread has an enabled step, and only
finished (or non-existent) threads have none.  No step of the model waits: each locked region
(Put, CleanUp, Clear) is a single step that contains no call-out, so the mutex is free at
every yield point; that the source has this shape is `C11_lock_facts` below, and the harness
watchdog checks that the real code completes every enumerated schedule. -/
theorem C11_no_deadlock (maxSize timeout : Int) (progs : List Prog) (sched : List Tid) :
    let s := run (init maxSize timeout progs) sched
    (∀ i t, s.threads[i]? = some t → t.stack ≠ [] → (step s i).isSome = true) ∧
    (∀ i, step s i = none ↔ ∀ t, s.threads[i]? = some t → t.stack = []) := by
  intro s
  refine ⟨fun i t ht hne => (step_isSome_iff s i).mpr ⟨t, ht, hne⟩, fun i => ?_⟩
  have := step_isSome_iff s i
  constructor
  · intro hn t ht
    by_cases hne : t.stack = []
    · exact hne
    · have := this.mpr ⟨t, ht, hne⟩
      rw [hn] at this; simp at this
  · intro h
    cases hs : step s i with
    | none => rfl
    | some s' =>
      obtain ⟨t, ht, hne⟩ := this.mp (by rw [hs]; rfl)
      exact absurd (h t ht) hne

/-! ### lock discipline, extracted from reassembler.go on every run (LA/Gen/LockFacts) -/

/-- every eventList method that touches seqs/events/lastSeq/hasLast starts with
`l.Lock(); defer l.Unlock()` or is called only from such methods, and nothing else touches them. -/
theorem C11_lock_facts_list_locked : LA.Gen.LockFacts.listStateOnlyUnderLock = true := by decide

/-- `closed` is only ever accessed through sync/atomic. -/
theorem C11_lock_facts_closed_atomic : LA.Gen.LockFacts.closedOnlyAtomic = true := by decide

/-- the only write to `closed` is one `CompareAndSwapInt32(&r.closed, 0, 1)` whose success
guards the only `Clear` call (the model's `cas`/`clear` frames). -/
theorem C11_lock_facts_single_cas : LA.Gen.LockFacts.closedSingleCasGuardsClear = true := by decide

/-- no Stream call-out and no yield point lies inside a locked region, and the mutex is taken
nowhere but in the `Lock(); defer Unlock()` prologue of eventList methods. -/
theorem C11_lock_facts_no_callout : LA.Gen.LockFacts.noCalloutUnderLock = true := by decide

/-- the model's atomic steps are exactly the eventList methods the Reassembler calls — Put,
CleanUp, Clear — and each of them runs under the lock from its first statement to its last (it has
the `Lock(); defer Unlock()` prologue itself, or does nothing but delegate to one method that has). -/
theorem C11_lock_facts_methods :
    LA.Gen.LockFacts.entryPoints = ["CleanUp", "Clear", "Put"] ∧ LA.Gen.LockFacts.entryPointsAtomic = true := by decide

theorem C11_lock_facts : LA.Gen.LockFacts.allHold = true := by decide

/-! ### non-vacuity: a concrete 3-thread system with a re-entrant callback -/

namespace Example

def hour : Int := 3600000000000

/-- thread 0 pushes a SYSCALL record and then its EOE; the callback that delivers that event
re-enters the Reassembler with a push (id 5) and a Maintain.  Thread 1 pushes a PROCTITLE
record (complete on arrival) for a later sequence and calls Maintain.  Thread 2 calls Close twice. -/
def progs : List Prog :=
  [ { main := [.push ⟨1, 100, 1300⟩ 0 0, .push ⟨2, 100, 1320⟩ 0 0],
      cbs := fun n _ => if n = 0 then [.push ⟨5, 102, 1300⟩ 0 0, .maintain 0] else [] },
    { main := [.push ⟨3, 101, 1327⟩ 0 0, .maintain 0], cbs := fun _ _ => [] },
    { main := [.close, .close], cbs := fun _ _ => [] } ]

/-- an interleaving (7 names no thread: such picks are skipped): thread 1's complete event
waits behind sequence 100; thread 0's EOE then evicts both events in one CleanUp; thread 0's
first callback re-enters and puts id 5; thread 2 closes and flushes id 5 while thread 0 is still
between its two callbacks; thread 0 delivers id 3 only after that Close has returned. -/
def sched : List Tid :=
  [0, 0, 0, 1, 1, 0, 0, 0, 0, 0, 2, 0, 2, 1, 2, 0, 2, 0, 1, 2, 0, 1, 2, 0, 1, 2, 0, 1, 2, 7, 0]

def final : Sys := run (init 4 hour progs) sched

example : Terminal final := by
  intro t ht
  have : terminal final = true := by decide
  simpa [terminal] using List.all_eq_true.mp this t ht
/-- the hypothesis of `C11_at_most_once`/`C11_exactly_once` holds … -/
example : (putLog final.trace).Nodup := by decide
/-- … ids 1 and 3 were delivered by thread 0, id 5 (put by the re-entrant push before the
Clear) by the Close of thread 2; one Close succeeded, one failed; both Maintain calls came
after the CAS and report the error. -/
example : (delivered final.trace).map (·.id) = [3, 5, 1] := by decide
example : final.threads.map (·.rets) =
    [[.push, .push, .maintErr, .push], [.push, .maintErr], [.closeOk, .closeErr]] := by decide
/-- the hypothesis of `C11_quiescent`/`C11_exactly_once`: there is a Clear in the history and
messages were put before it. -/
example : final.trace = final.trace.take 5 ++
      Ev.clear 2 [.group [⟨5, 102, 1300⟩]] :: final.trace.drop 6 ∧
    (putLog (final.trace.drop 6)).map (·.id) = [5, 3, 1] := by decide
/-- a state in the middle of that run has pending thread-local messages and an unfinished,
enabled thread (`C11_no_deadlock`, `C11_conservation` are not vacuous). -/
example : (pending (run (init 4 hour progs) (sched.take 13)).threads).map (·.id) = [3, 5] ∧
    (step (run (init 4 hour progs) (sched.take 13)) 0).isSome = true := by decide

end Example

end LA.ReasmConc

/-! ### the code keeps nothing between calls that the model does not have -/

/-- Outside `init`, no function of the root package writes a package-level variable, hands the address of one to a function or calls a
sync/atomic method on one (regenerated list, see LA.Proofs.StateFacts): all state is in the object the model is given. -/
theorem C11_state_is_in_the_object : LA.StateFacts.ofPkg "" = [] := by decide

/-- No component of a Reassembler's state counts operations in fewer than 64 bits: no integer field of at most 32 bits,
anywhere below the struct, grows by a constant small step per delivery, per call or per Close (read off running
Reassemblers through reflection on every run, fields found by behaviour, not by name; harness/cmd/extract/reasmfacts.go).
The model's state has sequence numbers, a flag and sizes, no counters; a counter that wraps after 2^32 events (a few hours
of a busy host, far beyond any history a check can run) would make whatever is decided from it wrong from then on. -/
theorem C11_no_narrow_operation_counters : LA.Gen.ReasmFacts.narrowCounters = [] := by decide

/-- What the root package reads of the process it runs in is the clock (the Reassembler's deadlines, which the model is
given as readings), the process id (an input of SetPID) and the page size (the default receive buffer): `envReads`,
regenerated with go/types on every run, lists the package-level functions of os, os/user, os/exec, net, runtime,
math/rand, crypto/rand that are called, time.Now / Since / Until, file-system functions of path/filepath and process
queries of syscall. Nothing else of the machine — processors, environment variables, files, random numbers — can
influence what the Reassembler or the client does. -/
theorem C11_environment_is_clock_pid_pagesize : LA.StateFacts.envOf "" = LA.StateFacts.rootEnv := by decide
