/-
C17 — Client ACK bookkeeping, Close and returned data behave once-and-only-once.
Property theorems only; helper lemmas are in LA/Proofs/ClientOnce.lean.

Partial by nature (named so in the manifest): "concurrently" is proved for a model in which
`sync.Once` is an atomic test-and-set plus "losers block until the winner's body has returned";
that this is what the Go runtime provides, and data-race freedom, are assumptions.  The tie for
that clause is a stress run of G goroutines x K Close calls on the real client.
-/
import LA.Proofs.ClientOnce
import LA.Proofs.StateFacts

namespace LA.Client
open LA.Netlink

/-! ### pending acknowledgements -/

/-- A NoWait request: one message sent, its sequence number appended to the pending list, nothing
received. -/
theorem C17_nowait_appends (s : St) (st : Status) (h : (send s AuditSet (NLM_F_REQUEST + NLM_F_ACK) st.toWire).2.2 = true) :
    (set s st NoWait).2 = .ok .none ∧
    (set s st NoWait).1.pending = s.pending ++ [(s.seq + 1) % 4294967296] ∧
    (set s st NoWait).1.recvs = s.recvs := by
  unfold set
  cases hs : send s AuditSet (NLM_F_REQUEST + NLM_F_ACK) st.toWire with
  | mk s1 x =>
    obtain ⟨q, ok⟩ := x
    rw [hs] at h
    simp only at h
    subst h
    have e : (s1, q, true) = send s AuditSet (NLM_F_REQUEST + NLM_F_ACK) st.toWire := hs.symm
    have hq : q = (s.seq + 1) % 4294967296 := congrArg (fun x => x.2.1) e
    have hp : s1.pending = s.pending := congrArg (fun x => x.1.pending) e
    have hr : s1.recvs = s.recvs := congrArg (fun x => x.1.recvs) e
    simp only [if_true, hp, hq, hr, and_self]

/-- a request that could not be sent is not pending -/
theorem C17_nowait_send_failure (s : St) (st : Status)
    (h : (send s AuditSet (NLM_F_REQUEST + NLM_F_ACK) st.toWire).2.2 = false) :
    (set s st NoWait).2 = .fail .send ∧ (set s st NoWait).1.pending = s.pending := by
  unfold set
  cases hs : send s AuditSet (NLM_F_REQUEST + NLM_F_ACK) st.toWire with
  | mk s1 x =>
    obtain ⟨q, ok⟩ := x
    rw [hs] at h
    simp only at h
    subst h
    have e : (s1, q, false) = send s AuditSet (NLM_F_REQUEST + NLM_F_ACK) st.toWire := hs.symm
    exact ⟨rfl, congrArg (fun x => x.1.pending) e⟩

/-- FIFO, all successes.  If the pending list is p₁ … pₙ and the queue holds, in that order, a
successful acknowledgement of each (each behind any noise), WaitForPendingACKs returns nil, the
list is empty afterwards, exactly those acknowledgements were consumed (what follows stays
queued) and nothing was sent. -/
theorem C17_pending_fifo (pa : List (Nat × AckMsg)) (hpa : ∀ x ∈ pa, x.2.Success x.1) (s : St) (q : List Item)
    (hp : s.pending = pa.map (·.1)) (hq : s.queue = acks pa ++ q) :
    (waitForPendingACKs s).2 = .ok .none ∧ (waitForPendingACKs s).1.pending = [] ∧
    (waitForPendingACKs s).1.queue = q ∧ (waitForPendingACKs s).1.recvs = s.recvs + (acks pa).length ∧
    (waitForPendingACKs s).1.sent = s.sent := by
  obtain ⟨s', h1, h2, h3, h4, h5⟩ := waitLoop_prefix pa hpa [] s q (by simpa using hp) hq
  unfold waitForPendingACKs
  rw [hp]
  simp only [List.append_nil] at h1
  rw [h1]
  simp only [waitLoop]
  exact ⟨by first | rfl | trivial, h2, h3, h4, h5⟩

/-- FIFO, first kernel error.  If the first k pending requests are acknowledged successfully and
the next one, `p`, gets its own acknowledgement `a` carrying a verdict `e` that is not a success
(an errno, a wrong type, a short payload), WaitForPendingACKs returns exactly that error; the
consumed prefix INCLUDING `p` is removed from the list, so a later call waits only for `more`; and
nothing behind `a` was consumed. -/
theorem C17_pending_first_error (pa : List (Nat × AckMsg)) (hpa : ∀ x ∈ pa, x.2.Success x.1)
    (p : Nat) (a : AckMsg) (more : List Nat) (e : Err) (s : St) (q : List Item)
    (hp0 : p ≠ 0) (hns : ∀ n ∈ a.ns, n.Ok) (hts : Retryable a.ts) (hlen : 16 ≤ a.b.length)
    (hseq : (Hdr.parse a.b).seq = p) (hv : verdict p a.b = some e)
    (hp : s.pending = pa.map (·.1) ++ p :: more) (hq : s.queue = acks pa ++ (a.items ++ q)) :
    (waitForPendingACKs s).2 = .fail e ∧ (waitForPendingACKs s).1.pending = more ∧
    (waitForPendingACKs s).1.queue = q := by
  obtain ⟨s', h1, h2, h3, _, _⟩ := waitLoop_prefix pa hpa (p :: more) s (a.items ++ q) hp hq
  unfold waitForPendingACKs
  rw [hp, h1]
  have d : Dialogue s'.queue a.ns a.ts a.b q := by
    refine ⟨?_, hns, hts, hlen, by rw [hseq]; exact hp0⟩
    rw [h3]; simp [AckMsg.items, List.append_assoc]
  obtain ⟨hr, hc⟩ := getReply_dialogue p hp0 s' d
  unfold waitLoop
  cases hg : getReply p s' with
  | mk s1 r =>
    rw [hg] at hr hc
    simp only at hr hc
    subst hr
    have hck : checkAck { hdr := Hdr.parse a.b, data := a.b.drop 16 } = some e := by
      rw [checkAck_parse _ hlen]
      unfold verdict at hv
      rw [if_neg (by simpa using hseq)] at hv
      exact hv
    simp only [replyOf, hseq, if_true, hck]
    exact ⟨by first | rfl | trivial, by first | rfl | trivial, hc.queue⟩

/-- … whereas a reply carrying another request's number is an error that leaves `p` pending:
its acknowledgement has not been consumed. -/
theorem C17_pending_foreign (p : Nat) (more : List Nat) (s : St) {ns : List Seg} {ts : List Item} {b : Bytes}
    {rest : List Item} (hp0 : p ≠ 0) (hp : s.pending = p :: more) (d : Dialogue s.queue ns ts b rest)
    (hf : (Hdr.parse b).seq ≠ p) :
    (waitForPendingACKs s).2 = .fail (.seqMismatch (Hdr.parse b).seq) ∧ (waitForPendingACKs s).1.pending = p :: more := by
  obtain ⟨hr, hc⟩ := getReply_dialogue p hp0 s d
  unfold waitForPendingACKs
  rw [hp]
  unfold waitLoop
  cases hg : getReply p s with
  | mk s1 r =>
    rw [hg] at hr hc
    simp only at hr hc
    subst hr
    simp only [replyOf, hf, if_false]
    exact ⟨by first | rfl | trivial, hc.frame.pending.trans hp⟩

/-- **A wait that does not get its reply leaves the request pending.** Whatever makes `getReply` fail
for the oldest pending request — a hard receive failure of any kind (ENOBUFS after an overrun, EIO, EBADF:
the model has one such failure because the code has one), ten transient failures in a row, an empty
read, a reply with another request's number — `WaitForPendingACKs` returns that error and the pending
list is exactly what it was: the acknowledgement has not been consumed, so the request is not forgotten. -/
theorem C17_failed_wait_keeps_pending (p : Nat) (more : List Nat) (s : St) (hp : s.pending = p :: more)
    (e : Err) (hg : (getReply p s).2 = .error e) :
    (waitForPendingACKs s).2 = .fail e ∧ (waitForPendingACKs s).1.pending = p :: more := by
  have hf := getReply_frame p s
  unfold waitForPendingACKs
  rw [hp]
  unfold waitLoop
  cases hgr : getReply p s with
  | mk s1 r =>
    rw [hgr] at hg hf
    simp only at hg hf
    subst hg
    exact ⟨rfl, hf.pending.trans hp⟩

/-- … in particular after a hard receive failure right at the front of the queue. -/
example :
    let ack (q e : Nat) : PItem := ⟨.raw (serialize ⟨⟨0, 2, 0, q, 0⟩, le32 ((4294967296 - e) % 4294967296)⟩), none⟩
    let s0 := { St.init 0 64 true with plans := [{ items := [⟨.fail, none⟩, ack 1 0] }, { items := [ack 2 0] }] }
    let r := run s0 [.setEnabled true NoWait, .setRateLimit 5 NoWait, .waitAcks, .waitAcks, .waitAcks]
    r.2 = [.ok .none, .ok .none, .fail .recv, .ok .none, .ok .none] ∧ r.1.pending = [] ∧ r.1.queue = [] := by
  decide

/-- calling again when nothing is pending does nothing at all: no re-waiting -/
theorem C17_wait_again (s : St) (h : s.pending = []) : waitForPendingACKs s = (s, .ok .none) := by
  unfold waitForPendingACKs; rw [h]; rfl

/-- non-vacuity: three NoWait requests, the second is refused with EPERM; the first wait returns
EPERM and leaves [3], the second returns nil and leaves [], the third does nothing -/
example :
    let ack (q e : Nat) : PItem := ⟨.raw (serialize ⟨⟨0, 2, 0, q, 0⟩, le32 ((4294967296 - e) % 4294967296)⟩), none⟩
    let s0 := { St.init 0 64 true with plans := [{ items := [ack 1 0] }, { items := [ack 2 1] }, { items := [ack 3 0] }] }
    let r := run s0 [.setEnabled true NoWait, .setRateLimit 5 NoWait, .setBacklogLimit 6 NoWait, .waitAcks, .waitAcks, .waitAcks]
    r.2 = [.ok .none, .ok .none, .ok .none, .fail (.errno 1), .ok .none, .ok .none] ∧ r.1.pending = [] ∧ r.1.queue = [] := by
  decide

/-! ### Close, sequentially -/

/-- The first Close: sends the PID clear — AUDIT_SET {mask PID, pid 0}, recorded as pending, not
waited for — iff SetPID was used, then closes the socket (once), receiving nothing; it returns nil
iff both succeeded.  Every later Close changes nothing and returns nil. -/
theorem C17_close_first (s : St) (h : s.once = false) :
    (close s).1.closes = s.closes + 1 ∧ (close s).1.once = true ∧ (close s).1.recvs = s.recvs ∧
    (close s).1.sent = (if s.clearPID then
        s.sent ++ [⟨AuditSet, NLM_F_REQUEST + NLM_F_ACK, (s.seq + 1) % 4294967296,
                    ({ mask := AuditStatusPID, pid := 0 } : Status).toWire⟩]
      else s.sent) := by
  obtain ⟨h1, h2, _⟩ := (close_facts s).2 h
  refine ⟨h2, h1, ?_, ?_⟩
  · rw [close_fst s h]
    unfold closeBody
    by_cases hp : s.clearPID = true
    · rw [if_pos hp]
      exact set_nowait_recvs _ _
    · rw [if_neg hp]
  · rw [close_fst s h]
    unfold closeBody
    by_cases hp : s.clearPID = true
    · rw [if_pos hp, if_pos hp]
      exact set_sent _ _ _
    · rw [if_neg hp, if_neg hp]

theorem C17_close_later (s : St) (h : s.once = true) : close s = (s, .ok .none) := (close_facts s).1 h

/-- Over every history of operations (any operations, any kernel behaviour, any number of Close
calls anywhere): the socket is never closed twice, and it has been closed exactly once from the
first Close on. -/
theorem C17_close_once (seq0 bufLen : Nat) (closeOk : Bool) (ops : List Op) :
    (run (St.init seq0 bufLen closeOk) ops).1.closes ≤ 1 ∧
    (Op.close ∈ ops → (run (St.init seq0 bufLen closeOk) ops).1.closes = 1) := by
  have hinv := closeInv_run (St.init seq0 bufLen closeOk) ops rfl
  refine ⟨by unfold CloseInv at hinv; rw [hinv]; split <;> omega, fun hm => ?_⟩
  obtain ⟨a, b, rfl⟩ := List.append_of_mem hm
  rw [run_append]
  simp only
  have h1 := closeInv_run (St.init seq0 bufLen closeOk) a rfl
  have h2 : (run (run (St.init seq0 bufLen closeOk) a).1 (Op.close :: b)).1.once = true := by
    simp only [run]
    exact once_run _ b (close_sets_once _)
  have h3 := closeInv_run (run (St.init seq0 bufLen closeOk) a).1 (Op.close :: b) h1
  unfold CloseInv at h3
  rw [h3, h2]; rfl

/-- non-vacuity: SetPID, Close, Close, a command after Close, Close -/
example :
    let r := run (St.init 0 64 true) [.setPID 77 NoWait, .close, .close, .setEnabled true NoWait, .close]
    r.1.closes = 1 ∧ r.2 = [.ok .none, .ok .none, .ok .none, .ok .none, .ok .none] ∧
    r.1.sent.map (fun m => (m.typ, rd32 m.data 0, rd32 m.data 12)) = [(1001, 4, 77), (1001, 4, 0), (1001, 1, 0)] := by
  decide

/-! ### Close, concurrently -/

/-- Any number of Close calls from any number of goroutines, under every interleaving of their
steps (`sched`; a call's steps are: take the Once or find it taken; [winner] send the PID clear if
needed; [winner] Netlink.Close; [loser] return once the winner's body is done).  At every point:
* what has been done so far is a prefix of "PID clear (iff SetPID was used), then Netlink.Close":
  never two closes, never two clears, never a clear after the close, no clear without SetPID;
* as soon as ANY call has returned, all of it has been done — the socket is closed exactly once;
* at most one call returns an error, namely the one that ran the body, and only if the PID clear
  could not be sent or Netlink.Close failed; every other call returns nil.

PARTIAL: proved of the atomic-step model of `sync.Once` (`ccStep`).  Missing: that the Go runtime's
`sync.Once` behaves like that model, and data-race freedom of the client under concurrent use — runtime
facts, supported by the stress run of the harness only. -/
theorem C17_close_once_concurrent_partial (clearPID sendOk closeOk : Bool) (sched : List Nat) :
    let c := ccRun (CC.init clearPID sendOk closeOk) sched
    (c.log = [] ∨ c.log = midLog clearPID ∨ c.log = fullLog clearPID) ∧
    (∀ i r, c.phase i = .ret r → c.log = fullLog clearPID ∧ (fullLog clearPID).count .sockClose = 1) ∧
    (∀ i j, c.phase i = .ret true → c.phase j = .ret true → i = j) ∧
    (∀ i, c.phase i = .ret true → ((clearPID && !sendOk) || !closeOk) = true) := by
  have hinv := ccInv_run sched (ccInv_init clearPID sendOk closeOk)
  obtain ⟨p1, p2, p3⟩ := ccRun_params sched (CC.init clearPID sendOk closeOk)
  generalize ccRun (CC.init clearPID sendOk closeOk) sched = c at *
  replace p1 : c.clearPID = clearPID := p1
  replace p2 : c.sendOk = sendOk := p2
  replace p3 : c.closeOk = closeOk := p3
  have hcount : (fullLog clearPID).count .sockClose = 1 := by cases clearPID <;> decide
  cases ho : c.once with
  | false =>
    obtain ⟨hl, _, hall⟩ := hinv.fresh ho
    refine ⟨Or.inl hl, ?_, ?_, ?_⟩
    · intro i r h; rw [hall i] at h; cases h
    · intro i j h; rw [hall i] at h; cases h
    · intro i h; rw [hall i] at h; cases h
  | true =>
    obtain ⟨w, hw, hlos⟩ := hinv.taken ho
    have retw : ∀ i r, c.phase i = .ret r → c.log = fullLog clearPID := by
      intro i r h
      by_cases hi : i = w
      · subst hi
        cases hw with
        | body h1 _ _ => rw [h] at h1; cases h1
        | sock h1 _ _ => rw [h] at h1; cases h1
        | ret _ h2 _ => rw [h2, p1]
      · rcases hlos i hi with h1 | h1 | ⟨_, hd⟩
        · rw [h] at h1; cases h1
        · rw [h] at h1; cases h1
        · cases hw with
          | body _ _ h3 => rw [hd] at h3; cases h3
          | sock _ _ h3 => rw [hd] at h3; cases h3
          | ret _ h2 _ => rw [h2, p1]
    have errw : ∀ i, c.phase i = .ret true → i = w := by
      intro i h
      apply Classical.byContradiction; intro hi
      rcases hlos i hi with h1 | h1 | ⟨h1, _⟩ <;> rw [h] at h1 <;> cases h1
    refine ⟨?_, fun i r h => ⟨retw i r h, hcount⟩, fun i j hi hj => (errw i hi).trans (errw j hj).symm, ?_⟩
    · cases hw with
      | body _ h2 _ => exact Or.inl h2
      | sock _ h2 _ => right; left; rw [h2, p1]
      | ret _ h2 _ => right; right; rw [h2, p1]
    · intro i h
      have := errw i h
      subst this
      cases hw with
      | body h1 _ _ => rw [h] at h1; cases h1
      | sock h1 _ _ => rw [h] at h1; cases h1
      | ret h1 _ _ =>
        rw [h] at h1
        simp only [CPhase.ret.injEq, bodyErr, p1, p2, p3] at h1
        exact h1.symm

/-- non-vacuity: three calls; call 1 wins, call 0 finds the Once taken and has to wait, call 2
arrives after everything is done -/
example :
    let c := ccRun (CC.init true true true) [1, 0, 0, 1, 0, 1, 0, 2, 2]
    c.log = [.clearPID, .sockClose] ∧ c.phase 0 = .ret false ∧ c.phase 1 = .ret false ∧ c.phase 2 = .ret false ∧
    (ccRun (CC.init true true true) [1, 0, 0, 1, 0]).phase 0 = .waiting := by
  decide

/-! ### returned rule data -/

/-- Every rule GetRules returns is a copy, so whatever is received into the (one, reused) receive
buffer afterwards — by any later history — reading the rule gives the same bytes. -/
theorem C17_rules_stable (s : St) (rs : List Ref) (h : (getRules s).2 = .ok (.rules rs)) (later : List Op) :
    ∀ r ∈ rs, r.deref (run (getRules s).1 later).1.buf = r.deref (getRules s).1.buf := by
  have ho : ∀ r ∈ rs, r.Owned := by
    apply getRulesE_owned s rs
    unfold getRules at h
    cases hg : getRulesE s with
    | mk s1 x =>
      rw [hg] at h
      cases x with
      | error e => simp at h
      | ok rs' => simp only [Out.ok.injEq, Data.rules.injEq] at h; rw [h]
  intro r hr
  exact deref_owned r (ho r hr) _ _

/-- … which is not true of everything the client returns: Receive hands out a window of the
buffer (as its documentation says), and the next receive changes what it reads.  This is what the
copy in GetRules is for. -/
theorem C17_receive_is_a_view (s : St) (t : Nat) (d : Ref) (h : (receiveMsg s).2 = .ok (.raw t d)) :
    ∃ n, d = .view 16 n := by
  unfold receiveMsg at h
  cases hr : receive s with
  | mk s1 r =>
    rw [hr] at h
    cases r with
    | transient b => cases b <;> simp at h
    | hard => simp at h
    | msgs m =>
      cases m with
      | none => simp at h
      | some m =>
        simp only [Out.ok.injEq, Data.raw.injEq] at h
        exact ⟨m.data.length, h.2.symm⟩

example :
    let s0 := { St.init 0 64 true with queue := [.raw (serialize ⟨⟨0, 1300, 0, 0, 0⟩, [1, 2]⟩), .raw (serialize ⟨⟨0, 1300, 0, 0, 0⟩, [3, 4]⟩)] }
    let r1 := receiveMsg s0
    let r2 := receiveMsg r1.1
    r1.2 = .ok (.raw 1300 (.view 16 2)) ∧ (Ref.view 16 2).deref r1.1.buf = [1, 2] ∧ (Ref.view 16 2).deref r2.1.buf = [3, 4] := by
  decide

end LA.Client

/-! ### the code keeps nothing between calls that the model does not have -/

/-- Outside `init`, no function of the root package writes a package-level variable, hands the address of one to a function or calls a
sync/atomic method on one (regenerated list, see LA.Proofs.StateFacts): all state is in the object the model is given. -/
theorem C17_state_is_in_the_object : LA.StateFacts.ofPkg "" = [] := by decide

/-- What the root package reads of the process it runs in is the clock (the Reassembler's deadlines, which the model is
given as readings), the process id (an input of SetPID) and the page size (the default receive buffer): `envReads`,
regenerated with go/types on every run, lists the package-level functions of os, os/user, os/exec, net, runtime,
math/rand, crypto/rand that are called, time.Now / Since / Until, file-system functions of path/filepath and process
queries of syscall. Nothing else of the machine — processors, environment variables, files, random numbers — can
influence what the Reassembler or the client does. -/
theorem C17_environment_is_clock_pid_pagesize : LA.StateFacts.envOf "" = LA.StateFacts.rootEnv := by decide
