/-
C14 — Rule flag parsing accounts for every token or rejects the line.
`shellquote.Split` is outside the model (the harness tokenises with the real library).
-/
import LA.Model.Flags
import LA.Proofs.FlagsLine
import LA.Proofs.StateFacts

namespace LA.Flags
open LA LA.Rule

theorem drop_takeWhile_length (p : Nat → Bool) (l : Bytes) : l.drop (l.takeWhile p).length = l.dropWhile p := by
  induction l with
  | nil => rfl
  | cons b bs ih =>
    simp only [List.takeWhile_cons, List.dropWhile_cons]
    split
    · simpa using ih
    · rfl

theorem mem_takeWhile_true {p : Nat → Bool} {l : Bytes} {b : Nat} (h : b ∈ l.takeWhile p) : p b = true := by
  induction l with
  | nil => simp at h
  | cons x xs ih =>
    simp only [List.takeWhile_cons] at h
    split at h
    · rename_i hx
      rcases List.mem_cons.mp h with rfl | h
      · exact hx
      · exact ih h
    · simp at h

/-- -F: if the argument is accepted, the field, operator and value returned are the complete
text: arg = field ++ spaces ++ operator ++ value, nothing before, between or after is dropped;
the field is a non-empty run of word characters, the operator one of the eight, the value
non-empty (and may contain anything, spaces included). -/
theorem C14_filter_complete (v lhs op rhs : Bytes) (h : matchFilter v = some (lhs, op, rhs)) :
    ∃ ws, v = lhs ++ ws ++ op ++ rhs ∧ (∀ b ∈ ws, isReSpace b = true) ∧ lhs ≠ [] ∧
      (∀ b ∈ lhs, isReWord b = true) ∧ op ∈ filterOps ∧ rhs ≠ [] := by
  unfold matchFilter at h
  simp only at h
  split at h
  · simp at h
  · rename_i hl
    cases hf : filterOps.find? (fun op => hasPrefix op ((v.drop (v.takeWhile isReWord).length).dropWhile isReSpace) &&
        !(((v.drop (v.takeWhile isReWord).length).dropWhile isReSpace).drop op.length).isEmpty) with
    | none => simp [hf] at h
    | some o =>
      simp only [hf, Option.some.injEq, Prod.mk.injEq] at h
      obtain ⟨rfl, rfl, rfl⟩ := h
      have hmem := List.mem_of_find?_eq_some hf
      have hp := List.find?_some hf
      simp only [Bool.and_eq_true, Bool.not_eq_true', hasPrefix] at hp
      obtain ⟨hpre, hne⟩ := hp
      obtain ⟨t, ht⟩ := List.isPrefixOf_iff_prefix.mp hpre
      refine ⟨(v.drop (v.takeWhile isReWord).length).takeWhile isReSpace, ?_, ?_, ?_, ?_, hmem, ?_⟩
      · have e1 : v = v.takeWhile isReWord ++ v.drop (v.takeWhile isReWord).length := by
          rw [drop_takeWhile_length]; exact (List.takeWhile_append_dropWhile).symm
        have e2 : v.drop (v.takeWhile isReWord).length =
            (v.drop (v.takeWhile isReWord).length).takeWhile isReSpace ++ (v.drop (v.takeWhile isReWord).length).dropWhile isReSpace :=
          (List.takeWhile_append_dropWhile).symm
        have e3 : ((v.drop (v.takeWhile isReWord).length).dropWhile isReSpace).drop o.length = t := by
          rw [← ht]; simp
        rw [e3]
        conv => lhs; rw [e1, e2, ← ht]
        simp [List.append_assoc]
      · intro b hb; exact (mem_takeWhile_true hb)
      · intro hh; simp [hh] at hl
      · intro b hb; exact (mem_takeWhile_true hb)
      · intro hh; simp [hh] at hne

/-- -C: likewise the whole argument is field (=|!=) field with nothing else. -/
theorem C14_comparison_complete (v lhs op rhs : Bytes) (h : matchComparison v = some (lhs, op, rhs)) :
    ∃ ws, v = lhs ++ ws ++ op ++ rhs ∧ (∀ b ∈ ws, isReSpace b = true) ∧ lhs ≠ [] ∧
      (∀ b ∈ lhs, isReWord b = true) ∧ (op = [61] ∨ op = [33, 61]) ∧ rhs ≠ [] ∧ (∀ b ∈ rhs, isReWord b = true) := by
  unfold matchComparison at h
  simp only at h
  split at h
  · simp at h
  · rename_i hl
    have e1 : v = v.takeWhile isReWord ++ v.drop (v.takeWhile isReWord).length := by
      rw [drop_takeWhile_length]; exact (List.takeWhile_append_dropWhile).symm
    have e2 : v.drop (v.takeWhile isReWord).length =
        (v.drop (v.takeWhile isReWord).length).takeWhile isReSpace ++ (v.drop (v.takeWhile isReWord).length).dropWhile isReSpace :=
      (List.takeWhile_append_dropWhile).symm
    generalize hr1 : (v.drop (v.takeWhile isReWord).length).dropWhile isReSpace = r1 at h e2
    have fin : ∀ (o r2 : Bytes), r1 = o ++ r2 → (o = [61] ∨ o = [33, 61]) →
        (if o.isEmpty then none else if r2.isEmpty || !(r2.all isReWord) then none else some (v.takeWhile isReWord, o, r2)) = some (lhs, op, rhs) →
        ∃ ws, v = lhs ++ ws ++ op ++ rhs ∧ (∀ b ∈ ws, isReSpace b = true) ∧ lhs ≠ [] ∧
          (∀ b ∈ lhs, isReWord b = true) ∧ (op = [61] ∨ op = [33, 61]) ∧ rhs ≠ [] ∧ (∀ b ∈ rhs, isReWord b = true) := by
      intro o r2 hr ho hh
      have hoe : o.isEmpty = false := by rcases ho with rfl | rfl <;> rfl
      simp only [hoe, Bool.false_eq_true, if_false] at hh
      split at hh
      · simp at hh
      · rename_i hc
        simp only [Option.some.injEq, Prod.mk.injEq] at hh
        obtain ⟨rfl, rfl, rfl⟩ := hh
        simp only [Bool.or_eq_true, Bool.not_eq_true', not_or, Bool.not_eq_true, Bool.not_eq_false] at hc
        refine ⟨(v.drop (v.takeWhile isReWord).length).takeWhile isReSpace, ?_, ?_, ?_, ?_, ho, ?_, ?_⟩
        · conv => lhs; rw [e1, e2, hr]
          simp [List.append_assoc]
        · intro b hb; exact (mem_takeWhile_true hb)
        · intro hh; simp [hh] at hl
        · intro b hb; exact (mem_takeWhile_true hb)
        · intro hh; simp [hh] at hc
        · intro b hb; exact List.all_eq_true.mp hc.2 b hb
    split at h
    · rename_i r
      simp only at h
      exact fin [33, 61] r rfl (Or.inr rfl) h
    · rename_i r
      simp only at h
      exact fin [61] r rfl (Or.inl rfl) h
    · simp at h

/-- -S / -k: the comma-separated items, each trimmed, in order — none dropped. -/
theorem C14_list_items (value : Bytes) : (splitList value).length = (splitByte 44 value).length ∧
    splitList value = (splitByte 44 value).map trimSpace := by
  simp [splitList]

/-- Mixing delete, watch and syscall-rule flags, or giving none of them, is rejected; a syscall
rule needs exactly one of -a / -A. -/
theorem C14_exclusive (fs : FS) (r : Rule) (h : finish fs = some r) :
    ((fs.visited.contains 68 && !(fs.visited.any (fun n => n == 119 || n == 112)) &&
        !(fs.visited.any (fun n => n == 97 || n == 65 || n == 67 || n == 70 || n == 83))) ||
     (!(fs.visited.contains 68) && fs.visited.any (fun n => n == 119 || n == 112) &&
        !(fs.visited.any (fun n => n == 97 || n == 65 || n == 67 || n == 70 || n == 83))) ||
     (!(fs.visited.contains 68) && !(fs.visited.any (fun n => n == 119 || n == 112)) &&
        fs.visited.any (fun n => n == 97 || n == 65 || n == 67 || n == 70 || n == 83))) = true ∧
    (fs.visited.any (fun n => n == 97 || n == 65 || n == 67 || n == 70 || n == 83) = true →
      (fs.prepend.isSome != fs.append.isSome) = true) := by
  unfold finish at h
  simp only at h
  generalize fs.visited.contains 68 = del at h ⊢
  generalize (fs.visited.any fun n => n == 119 || n == 112) = watch at h ⊢
  generalize (fs.visited.any fun n => n == 97 || n == 65 || n == 67 || n == 70 || n == 83) = sys at h ⊢
  cases del <;> cases watch <;> cases sys <;> simp at h ⊢
  cases hp : fs.prepend <;> cases ha : fs.append <;> simp [hp, ha] at h ⊢

/-- a flag counts by having been given, not by what its value left behind: a `-w` or `-p` whose value is the empty
word still makes a delete-all or a syscall line a mixed one (the class is decided over the flags *visited*). -/
example : parseArgs [ofString "-D", ofString "-p", []] = none ∧
    parseArgs [ofString "-a", ofString "always,exit", ofString "-S", ofString "open", ofString "-w", []] = none := by
  constructor <;> decide +kernel

/-- A repeated -w, -a or -A is an error (no occurrence is silently overridden). -/
theorem C14_single_valued (fs : FS) (value : Bytes) :
    (fs.pathSet = true → setFlag fs 119 value = none) ∧
    (fs.append.isSome = true → setFlag fs 97 value = none) ∧
    (fs.prepend.isSome = true → setFlag fs 65 value = none) := by
  refine ⟨?_, ?_, ?_⟩
  · intro h; simp [setFlag, h]
  · intro h
    cases ha : fs.append with
    | none => simp [ha] at h
    | some p => simp [setFlag, setAdd, ha]
  · intro h
    cases ha : fs.prepend with
    | none => simp [ha] at h
    | some p => simp [setFlag, setAdd, ha]

/-- No argument or trailing word is silently ignored: if flags.Parse returns a rule, the flag
loop consumed every token (no positional word was left). -/
theorem C14_no_positional (args : List Bytes) (r : Rule) (h : parseArgs args = some r) :
    ∃ fs, parseLoop (args.length + 1) args {} = some (fs, 0) ∧ finish fs = some r := by
  unfold parseArgs at h
  cases hp : parseLoop (args.length + 1) args {} with
  | none => simp [hp] at h
  | some q =>
    obtain ⟨fs, n⟩ := q
    simp only [hp] at h
    split at h
    · simp at h
    · rename_i hn
      exact ⟨fs, by rw [show n = 0 by omega], h⟩

/-- a stray word (anything not starting with '-' or shorter than two bytes) stops the flag loop
and is counted as positional, hence the line is rejected. -/
theorem C14_stray_word_rejected (w : Bytes) (rest : List Bytes)
    (hw : ∀ c tl, w ≠ 45 :: c :: tl) : parseArgs (w :: rest) = none := by
  unfold parseArgs
  have hc : classify w = .nonflag := by
    unfold classify
    split
    · rename_i c tl; exact absurd rfl (hw c tl)
    · rfl
  have : parseLoop ((w :: rest).length + 1) (w :: rest) {} = some ({}, (w :: rest).length) := by
    simp only [List.length_cons, parseLoop, hc]
  rw [this]
  simp

/-- number of -C / -F occurrences among the flags visited -/
def nFC (l : List Nat) : Nat := (l.filter (fun x => x == 67 || x == 70)).length

theorem nFC_append (a b : List Nat) : nFC (a ++ b) = nFC a + nFC b := by
  simp [nFC, List.filter_append]

/-- one flag occurrence: it is recorded as visited, and it adds exactly one filter if it is -F or
-C and none otherwise. -/
theorem setFlag_accounting {fs fs1 : FS} {n : Nat} {v : Bytes} (h : setFlag fs n v = some fs1) :
    fs1.visited = fs.visited ++ [n] ∧
    fs1.filters.length = fs.filters.length + (if n == 67 || n == 70 then 1 else 0) := by
  unfold setFlag at h
  simp only at h
  by_cases h97 : (n == 97) = true
  · have : n = 97 := by simpa using h97
    subst this
    simp only [beq_self_eq_true, if_true] at h
    cases hs : setAdd fs.append v with
    | none => rw [hs] at h; simp at h
    | some x => rw [hs] at h; simp at h; subst h; simp
  rw [if_neg h97] at h
  by_cases h65 : (n == 65) = true
  · have : n = 65 := by simpa using h65
    subst this
    simp only [beq_self_eq_true, if_true] at h
    cases hs : setAdd fs.prepend v with
    | none => rw [hs] at h; simp at h
    | some x => rw [hs] at h; simp at h; subst h; simp
  rw [if_neg h65] at h
  by_cases h67 : (n == 67) = true
  · have : n = 67 := by simpa using h67
    subst this
    simp only [beq_self_eq_true, if_true] at h
    cases hs : matchComparison v with
    | none => rw [hs] at h; simp at h
    | some x => rw [hs] at h; simp at h; subst h; simp
  rw [if_neg h67] at h
  by_cases h70 : (n == 70) = true
  · have : n = 70 := by simpa using h70
    subst this
    simp only [beq_self_eq_true, if_true] at h
    cases hs : matchFilter v with
    | none => rw [hs] at h; simp at h
    | some x => rw [hs] at h; simp at h; subst h; simp
  rw [if_neg h70] at h
  have hno : (n == 67 || n == 70) = false := by simp [h67, h70]
  rw [hno]
  by_cases h83 : (n == 83) = true
  · rw [if_pos h83] at h; simp at h; subst h; simp
  rw [if_neg h83] at h
  by_cases h112 : (n == 112) = true
  · rw [if_pos h112] at h
    cases hs : setPerms fs.perms v with
    | none => rw [hs] at h; simp at h
    | some x => rw [hs] at h; simp at h; subst h; simp
  rw [if_neg h112] at h
  by_cases h119 : (n == 119) = true
  · rw [if_pos h119] at h
    split at h
    · simp at h
    · simp at h; subst h; simp
  rw [if_neg h119] at h
  by_cases h107 : (n == 107) = true
  · rw [if_pos h107] at h; simp at h; subst h; simp
  rw [if_neg h107] at h
  simp at h

/-- Accounting over the whole line: however the flag loop ends, the number of filters it has
produced equals the number of -F and -C occurrences it has visited — each contributes exactly
one filter, none is dropped and none is invented. -/
theorem parseLoop_accounting (fuel : Nat) (args : List Bytes) (fs fs' : FS) (n : Nat)
    (h : parseLoop fuel args fs = some (fs', n)) :
    fs'.filters.length + nFC fs.visited = fs.filters.length + nFC fs'.visited := by
  induction fuel generalizing args fs with
  | zero => simp [parseLoop] at h
  | succ fuel ih =>
    cases args with
    | nil => simp [parseLoop] at h; obtain ⟨rfl, _⟩ := h; rfl
    | cons s rest =>
      have cont : ∀ (k : Nat) (v : Bytes) (rest' : List Bytes),
          (setFlag fs k v).bind (parseLoop fuel rest') = some (fs', n) →
          fs'.filters.length + nFC fs.visited = fs.filters.length + nFC fs'.visited := by
        intro k v rest' hb
        obtain ⟨fs1, h1, h2⟩ := Option.bind_eq_some_iff.mp hb
        obtain ⟨hv, hf⟩ := setFlag_accounting h1
        have := ih rest' fs1 h2
        rw [hv, nFC_append, hf] at this
        have e : nFC [k] = (if k == 67 || k == 70 then 1 else 0) := by
          simp only [nFC, List.filter_cons, List.filter_nil]
          split <;> simp
        rw [e] at this
        omega
      have dcase : ∀ (b : Bool), parseLoop fuel rest { fs with deleteAll := b, visited := fs.visited ++ [68] } = some (fs', n) →
          fs'.filters.length + nFC fs.visited = fs.filters.length + nFC fs'.visited := by
        intro b hb
        have := ih rest _ hb
        simp only [nFC_append] at this
        have e : nFC [68] = 0 := by decide
        rw [e] at this
        simpa using this
      unfold parseLoop at h
      cases hc : classify s with
      | nonflag => rw [hc] at h; simp only [Option.some.injEq, Prod.mk.injEq] at h; obtain ⟨rfl, _⟩ := h; rfl
      | term => rw [hc] at h; simp only [Option.some.injEq, Prod.mk.injEq] at h; obtain ⟨rfl, _⟩ := h; rfl
      | bad => rw [hc] at h; simp at h
      | flag k hasValue value =>
        rw [hc] at h
        simp only at h
        split at h
        · split at h
          · split at h
            · exact dcase _ h
            · simp at h
          · exact dcase _ h
        · split at h
          · split at h
            · exact cont _ _ _ h
            · split at h
              · exact cont _ _ _ h
              · simp at h
          · simp at h

/-- … hence for an accepted line: the rule's filters are as many as the -F and -C occurrences. -/
theorem C14_one_filter_per_flag (args : List Bytes) (fs : FS) (n : Nat)
    (h : parseLoop (args.length + 1) args {} = some (fs, n)) :
    fs.filters.length = nFC fs.visited := by
  have := parseLoop_accounting _ _ _ _ _ h
  simpa [nFC] using this

/-- The whole line is reflected. If flags.Parse accepts the tokens, then the token list reads, with
no token left over, as a list of flag occurrences (`Reads`: each token is a flag with an inline value,
a flag followed by the token that is its value, a `-D`, or the final `--`), and the rule is built
from a flag set in which
* the syscalls are the comma-separated items of all `-S` values, in order, and the keys those of all
  `-k` values;
* the filters are exactly one per `-F` / `-C` occurrence, in order, each made of the complete text
  before, at and after the operator (`C14_filter_complete`, `C14_comparison_complete`);
* the permissions are the letters of all `-p` values, in order, each one of r, w, x, a;
* there is at most one `-w`, one `-a` and one `-A` occurrence, and the path, the list and the action
  are read from its complete value.
Nothing else contributes and no occurrence is dropped. -/
theorem C14_whole_line (args : List Bytes) (rule : Rule) (h : parseArgs args = some rule) :
    ∃ (its : List Item) (fs : FS),
      Reads args its ∧ applyItems its {} = some fs ∧ finish fs = some rule ∧
      fs.syscalls = its.flatMap Item.syscalls ∧ fs.keys = its.flatMap Item.keys ∧
      fs.filters = its.flatMap Item.filters ∧ fs.perms = its.flatMap Item.perms ∧
      (∀ it ∈ its, it.Ok) ∧
      ((its.filterMap Item.wval = [] ∧ fs.pathSet = false) ∨ (∃ v, its.filterMap Item.wval = [v] ∧ fs.path = v)) ∧
      ((its.filterMap Item.aval = [] ∧ fs.append = none) ∨
        (∃ v, its.filterMap Item.aval = [v] ∧ fs.append = setAdd none v ∧ fs.append.isSome = true)) ∧
      ((its.filterMap Item.pval = [] ∧ fs.prepend = none) ∨
        (∃ v, its.filterMap Item.pval = [v] ∧ fs.prepend = setAdd none v ∧ fs.prepend.isSome = true)) := by
  obtain ⟨fs, hp, hf⟩ := C14_no_positional args rule h
  obtain ⟨its, hr, ha⟩ := parseLoop_reads _ _ _ _ hp
  obtain ⟨c1, c2, c3, c4, c5⟩ := applyItems_content its {} fs ha
  refine ⟨its, fs, hr, ha, hf, by simpa using c1, by simpa using c2, by simpa using c3, by simpa using c4, c5, ?_, ?_, ?_⟩
  · rcases (applyItems_path its {} fs ha).2 rfl with ⟨e1, _, e3⟩ | ⟨v, e1, e2, _⟩
    · exact Or.inl ⟨e1, e3⟩
    · exact Or.inr ⟨v, e1, e2⟩
  · rcases (applyItems_append its {} fs ha).2 rfl with ⟨e1, e2⟩ | ⟨v, e1, e2, e3⟩
    · exact Or.inl ⟨e1, e2⟩
    · exact Or.inr ⟨v, e1, e2, e3⟩
  · rcases (applyItems_prepend its {} fs ha).2 rfl with ⟨e1, e2⟩ | ⟨v, e1, e2, e3⟩
    · exact Or.inl ⟨e1, e2⟩
    · exact Or.inr ⟨v, e1, e2, e3⟩

/-- non-vacuity of `C14_whole_line`: an accepted line with every kind of occurrence. -/
example : (parseArgs [ofString "-a", ofString "always,exit", ofString "-S", ofString "open, close", ofString "-F",
    ofString "auid>=1000", ofString "-C", ofString "uid!=euid", ofString "-k=a,b", ofString "--"]).isSome = true := by
  decide +kernel

/-- non-vacuity: a line that is accepted, and the same line with a stray word. -/
example : (parseArgs [ofString "-w", ofString "/etc/passwd", ofString "-p", ofString "r"]).isSome = true ∧
    parseArgs [ofString "-w", ofString "/etc/passwd", ofString "extra", ofString "-p", ofString "r"] = none := by
  decide +kernel

end LA.Flags

/-! ### the code keeps nothing between calls that the model does not have -/

/-- Packages rule and rule/flags write package-level variables only in the five table builders, which nothing but `init`
mentions (regenerated list, see LA.Proofs.StateFacts): Parse, Build and ToCommandLine are functions of their arguments. -/
theorem C14_rule_packages_keep_nothing_between_calls : LA.StateFacts.ofPkg "rule" = LA.StateFacts.ruleTableBuilders ∧ LA.StateFacts.ofPkg "rule/flags" = [] := by decide

/-- What the rule packages read of the process they run in is what the model is given as `Env`: the file type of a
watched path (os.Stat) and the user and group databases; package flags reads nothing (`envReads`, regenerated with
go/types on every run: package-level functions of os, os/user, os/exec, net, runtime, math/rand, crypto/rand,
time.Now / Since / Until, file-system functions of path/filepath, process queries of syscall). -/
theorem C14_environment_is_stat_and_the_id_databases :
    LA.StateFacts.envOf "rule" = LA.StateFacts.ruleEnv ∧ LA.StateFacts.envOf "rule/flags" = [] := by decide
