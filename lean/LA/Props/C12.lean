/-
C12 — Data() recovers the values the kernel encoded into a record.

Kernel side (specification): `untrusted v` = `"v"` if every byte of `v` is in 0x21–0x7e and is
not `"`, else upper-case hex. Domain of the property: value non-empty, not a placeholder, does
not begin or end with a quote character, does not end in a backslash.
The theorems below are the per-field building blocks; the whole-record statement (every field of
every decoded record type) is tied by the correspondence runs on kernel-rendered records.
-/
import LA.Proofs.Auparse

namespace LA.Auparse
open LA

/-! ### kernel encoders -/

def isSafeByte (b : Nat) : Bool := decide (33 ≤ b) && decide (b ≤ 126) && !(b == 34)

def upperHexDigit (n : Nat) : Nat := if n < 10 then 48 + n else 55 + n

/-- upper-case hex of a byte string (audit_log_n_hex). -/
def hexEnc : Bytes → Bytes
  | [] => []
  | b :: bs => upperHexDigit (b / 16) :: upperHexDigit (b % 16) :: hexEnc bs

/-- audit_log_untrustedstring -/
def untrusted (v : Bytes) : Bytes := if v.all isSafeByte then 34 :: (v ++ [34]) else hexEnc v

/-- the property's domain for a quoted value. -/
def InDomain (v : Bytes) : Prop :=
  v ≠ [] ∧ (∀ b, v.head? = some b → b ≠ 39 ∧ b ≠ 34 ∧ b ≠ 32) ∧
  (∀ b, v.getLast? = some b → b ≠ 39 ∧ b ≠ 34 ∧ b ≠ 32 ∧ b ≠ 92)

/-! ### hex round trip -/

theorem upperHexVal_digit (n : Nat) (h : n < 16) : upperHexVal (upperHexDigit n) = some n := by
  unfold upperHexVal upperHexDigit isDigit
  by_cases h10 : n < 10
  · have : (decide (48 ≤ 48 + n) && decide (48 + n ≤ 57)) = true := by simp; omega
    simp only [h10, if_true, this]
    congr 1; omega
  · have h1 : (decide (48 ≤ 55 + n) && decide (55 + n ≤ 57)) = false := by simp; omega
    have h2 : (65 ≤ 55 + n ∧ 55 + n ≤ 70) := by omega
    simp only [h10, if_false, h1, Bool.false_eq_true, h2, and_self, if_true]
    congr 1; omega

/-- Upper-case hex decodes to the original bytes, for every byte string. -/
theorem C12_hex_roundtrip (v : Bytes) (hv : IsBytes v) : decodeUppercaseHexString (hexEnc v) = some v := by
  have hlen : ∀ v : Bytes, (hexEnc v).length = 2 * v.length := by
    intro v; induction v with
    | nil => rfl
    | cons b bs ih => simp [hexEnc, ih]; omega
  have hdec : ∀ v : Bytes, IsBytes v → decodeUpperHex (hexEnc v) = some v := by
    intro v; induction v with
    | nil => intro _; rfl
    | cons b bs ih =>
      intro hb
      have hb' : b < 256 := hb b (by simp)
      simp only [hexEnc, decodeUpperHex, upperHexVal_digit (b / 16) (by omega), upperHexVal_digit (b % 16) (by omega),
        ih (fun x hx => hb x (by simp [hx]))]
      congr 2; omega
  unfold decodeUppercaseHexString
  have : ¬ ((hexEnc v).length % 2 == 1) = true := by rw [hlen]; simp
  simp only [this, if_false]
  exact hdec v hv

/-- … and a hex-decoded field gets its NULs shown as spaces (proctitle, cmd, …):
joining the NUL-separated pieces with a space is the original with NUL ↦ space. -/
theorem C12_nul_to_space (v : Bytes) :
    joinWith [32] (splitByte 0 v) = v.map (fun b => if b == 0 then 32 else b) := by
  induction v with
  | nil => rfl
  | cons b bs ih =>
    unfold splitByte
    cases hs : splitByte 0 bs with
    | nil =>
      -- splitByte never returns []
      exfalso
      have : ∀ l : Bytes, splitByte 0 l ≠ [] := by
        intro l; cases l with
        | nil => simp [splitByte]
        | cons x xs => unfold splitByte; cases splitByte 0 xs <;> simp <;> split <;> simp
      exact this bs hs
    | cons cur rest =>
      rw [hs] at ih
      simp only
      by_cases hb : b == 0
      · simp only [hb, if_true, List.map_cons]
        rw [← ih]
        cases rest <;> simp [joinWith]
      · simp only [hb, Bool.false_eq_true, if_false, List.map_cons]
        rw [← ih]
        cases rest <;> simp [joinWith]

/-- execve arguments and unix socket paths: decoded up to the first NUL. -/
theorem C12_hex_cstring (v : Bytes) (hv : IsBytes v) :
    hexToString (hexEnc v) = some (v.takeWhile (fun b => !(b == 0))) := by
  simp [hexToString, C12_hex_roundtrip v hv]

/-! ### quoted values -/

/-- the quoted-value matcher consumes exactly `v"` when `v` has no quote and does not end in a
backslash, whatever follows. -/
theorem matchQuoted_safe (v rest : Bytes) (hq : (34 : Nat) ∉ v)
    (hl : ∀ b, v.getLast? = some b → b ≠ 92) : matchQuoted 34 (v ++ 34 :: rest) = some (v.length + 1) := by
  induction v with
  | nil => cases rest <;> simp [matchQuoted]
  | cons b bs ih =>
    have hb : b ≠ 34 := fun h => hq (by simp [h])
    have hq' : (34 : Nat) ∉ bs := fun h => hq (by simp [h])
    cases bs with
    | nil =>
      -- v = [b], b is not a backslash (it is the last byte)
      have hb92 : b ≠ 92 := hl b (by simp)
      simp only [List.cons_append, List.nil_append, matchQuoted]
      have h1 : (b == 92 && (34 : Nat) == 34) = false := by simp [hb92]
      have h2 : (b == 34) = false := by simpa using hb
      simp only [h1, h2, Bool.false_eq_true, if_false]
      cases rest <;> simp [matchQuoted]
    | cons c cs =>
      have hc : c ≠ 34 := fun h => hq' (by simp [h])
      have ih' := ih hq' (fun x hx => hl x (by simpa [List.getLast?_cons_cons] using hx))
      simp only [List.cons_append] at ih' ⊢
      simp only [matchQuoted]
      have h1 : (b == 92 && c == 34) = false := by simp [hc]
      have h2 : (b == 34) = false := by simpa using hb
      simp only [h1, h2, Bool.false_eq_true, if_false, ih', Option.map_some, List.length_cons]

/-- A safe string in the domain, written in double quotes, is tokenised whole … -/
theorem C12_quoted_token (v rest : Bytes) (hs : v.all isSafeByte = true) (hd : InDomain v) :
    matchValue (34 :: (v ++ 34 :: rest)) = some (v.length + 2) := by
  have hq : (34 : Nat) ∉ v := by
    intro h
    have := List.all_eq_true.mp hs 34 h
    simp [isSafeByte] at this
  have := matchQuoted_safe v rest hq (fun b hb => (hd.2.2 b hb).2.2.2)
  simp [matchValue, isPlainValByte, this]

theorem dropWhile_cut_of_head {cut : Bytes} {b : Nat} {l : Bytes} (h : cut.contains b = false) :
    (b :: l).dropWhile (fun x => cut.contains x) = b :: l := by
  simp only [List.dropWhile_cons, h, Bool.false_eq_true, if_false]

/-- … and trimming quotes and spaces gives back exactly the value. -/
theorem C12_trim_quoted (v : Bytes) (hd : InDomain v) : trimQuotesAndSpace (34 :: (v ++ [34])) = v := by
  obtain ⟨hne, hh, hl⟩ := hd
  cases v with
  | nil => exact absurd rfl hne
  | cons a tl =>
    have ha := hh a rfl
    have hca : ([39, 34, 32] : Bytes).contains a = false := by
      simp only [List.contains_cons, List.contains_nil, Bool.or_false, Bool.or_eq_false_iff, beq_eq_false_iff_ne, ne_eq]
      exact ⟨ha.1, ha.2.1, ha.2.2⟩
    unfold trimQuotesAndSpace trimSet
    have h1 : (34 :: (a :: tl ++ [34])).dropWhile (fun b => ([39, 34, 32] : Bytes).contains b) = a :: tl ++ [34] := by
      rw [List.dropWhile_cons]
      have : ([39, 34, 32] : Bytes).contains 34 = true := by decide
      simp only [this, if_true]
      exact dropWhile_cut_of_head hca
    rw [h1]
    -- reverse: 34 :: (a :: tl).reverse ; the last byte z of v is not in the cut set
    have hrev : (a :: tl ++ [34]).reverse = 34 :: (a :: tl).reverse := by simp
    rw [hrev, List.dropWhile_cons]
    have : ([39, 34, 32] : Bytes).contains 34 = true := by decide
    simp only [this, if_true]
    cases hr : (a :: tl).reverse with
    | nil => simp at hr
    | cons z zs =>
      have hz : (a :: tl).getLast? = some z := by
        rw [List.getLast?_eq_head?_reverse, hr]; rfl
      have hz' := hl z hz
      have hcz : ([39, 34, 32] : Bytes).contains z = false := by
        simp only [List.contains_cons, List.contains_nil, Bool.or_false, Bool.or_eq_false_iff, beq_eq_false_iff_ne, ne_eq]
        exact ⟨hz'.1, hz'.2.1, hz'.2.2.1⟩
      rw [dropWhile_cut_of_head hcz, ← hr, List.reverse_reverse]

/-! ### placeholders, derived fields -/

/-- Exactly the placeholder values are dropped. -/
theorem C12_placeholders (v : Bytes) :
    isPlaceholder v = true ↔ v = [] ∨ v = ofString "?" ∨ v = ofString "?," ∨ v = ofString "(null)" := by
  simp [isPlaceholder, ofString, or_assoc]

/-- success/res become result=success|fail: success for "yes", "1" and anything starting with
"suc" (case-insensitive), fail otherwise. -/
theorem C12_result (v : Bytes) :
    resultOf v = ofString "success" ∨ resultOf v = ofString "fail" := by
  unfold resultOf; simp only; split <;> simp

example : resultOf (ofString "yes") = ofString "success" ∧ resultOf (ofString "no") = ofString "fail" ∧
    resultOf (ofString "SUCCESS") = ofString "success" := by decide +kernel

/-- An unset auid/ses (4294967295 or -1) becomes "unset"; any other value is left alone. -/
theorem C12_unset (k v : Bytes) (orig : Bytes) :
    fmFind (normalizeUnsetID [(k, ⟨orig, v⟩)] k) k =
      some ⟨orig, if v == ofString "4294967295" || v == ofString "-1" then ofString "unset" else v⟩ := by
  simp only [normalizeUnsetID, fmFind, List.find?_cons, beq_self_eq_true, Option.map_some]
  split <;> simp [fmSetValue, *]

/-- Negative exit codes become errno names, for every errno of the regenerated table; other
values are left as they are. -/
theorem C12_exit_errno :
    ∀ p ∈ LA.Gen.Errno.errnoToName, Tables.errnoName p.1 = some p.2 := by
  have cert : LA.Gen.Errno.errnoToName.all (fun p =>
      match lookupN LA.Gen.Errno.errnoToName p.1 with | some n => n == p.2 | none => false) = true := by decide +kernel
  intro p hp
  have := List.all_eq_true.mp cert p hp
  unfold Tables.errnoName
  cases h : lookupN LA.Gen.Errno.errnoToName p.1 with
  | none => simp [h] at this
  | some n => simp [h] at this; rw [this]

/-- arch/syscall numbers become the names in the published tables: for every entry (n, name) of
every architecture's table, the lookup used by the parser returns `name`. -/
theorem syscallName_of_cert {arch : Bytes} {tbl : List (Nat × List Nat)} {nameTree numTree : Tree}
    (hfind : Tables.sysTable arch = some (arch, tbl, nameTree, numTree))
    (cert : (tbl.zipIdx).all (fun q => numTree.find q.1.1 == some q.2) = true) :
    ∀ q ∈ tbl.zipIdx, Tables.syscallName arch q.1.1 = some q.1.2 := by
  intro q hq
  have := List.all_eq_true.mp cert q hq
  simp only [beq_iff_eq] at this
  unfold Tables.syscallName
  simp only [hfind, this]
  have hget : tbl[q.2]? = some q.1 := List.mem_zipIdx_iff_getElem?.mp hq
  simp [hget]

theorem C12_syscall_x86_64 :
    ∀ q ∈ LA.Gen.Syscalls_x86_64.table.zipIdx, Tables.syscallName (ofString "x86_64") q.1.1 = some q.1.2 :=
  syscallName_of_cert (nameTree := LA.Gen.Syscalls_x86_64.nameTree) rfl LA.Gen.Syscalls_x86_64.cert_nums

/-- non-vacuity: a value in the domain. -/
example : InDomain (ofString "/usr/bin/bash") ∧ (ofString "/usr/bin/bash").all isSafeByte = true := by
  refine ⟨⟨by decide, ?_, ?_⟩, by decide⟩
  · intro b hb; simp [ofString] at hb; subst hb; decide
  · intro b hb; simp [ofString] at hb; subst hb; decide

end LA.Auparse
