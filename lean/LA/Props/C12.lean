/-
C12 — Data() recovers the values the kernel encoded into a record.

Kernel side (specification): `untrusted v` = `"v"` if every byte of `v` is in 0x21–0x7e and is
not `"`, else upper-case hex. Domain of the property: value non-empty, not a placeholder, does
not begin or end with a quote character, does not end in a backslash.
The theorems below are the per-field building blocks; the whole-record statement (every field of
every decoded record type) is tied by the correspondence runs on kernel-rendered records.
-/
import LA.Proofs.Auparse
import LA.Proofs.StateFacts

namespace LA.Auparse
open LA

/-! ### kernel encoders -/

def isSafeByte (b : Nat) : Bool := decide (33 ≤ b) && decide (b ≤ 126) && !(b == 34)

def upperHexDigit (n : Nat) : Nat := if n < 10 then 48 + n else 55 + n

/-- upper-case hex of a byte string (audit_log_n_hex). -/
def hexEnc : Bytes → Bytes
  | [] => []
  | b :: bs => upperHexDigit (b / 16) :: upperHexDigit (b % 16) :: hexEnc bs

/-- audit_log_untrustedstring -/
def untrusted (v : Bytes) : Bytes := if v.all isSafeByte then 34 :: (v ++ [34]) else hexEnc v

/-- the property's domain for a quoted value. -/
def InDomain (v : Bytes) : Prop :=
  v ≠ [] ∧ (∀ b, v.head? = some b → b ≠ 39 ∧ b ≠ 34 ∧ b ≠ 32) ∧
  (∀ b, v.getLast? = some b → b ≠ 39 ∧ b ≠ 34 ∧ b ≠ 32 ∧ b ≠ 92)

/-! ### hex round trip -/

theorem upperHexVal_digit (n : Nat) (h : n < 16) : upperHexVal (upperHexDigit n) = some n := by
  unfold upperHexVal upperHexDigit isDigit
  by_cases h10 : n < 10
  · have : (decide (48 ≤ 48 + n) && decide (48 + n ≤ 57)) = true := by simp; omega
    simp only [h10, if_true, this]
    congr 1; omega
  · have h1 : (decide (48 ≤ 55 + n) && decide (55 + n ≤ 57)) = false := by simp; omega
    have h2 : (65 ≤ 55 + n ∧ 55 + n ≤ 70) := by omega
    simp only [h10, if_false, h1, Bool.false_eq_true, h2, and_self, if_true]
    congr 1; omega

/-- Upper-case hex decodes to the original bytes, for every byte string. -/
theorem C12_hex_roundtrip (v : Bytes) (hv : IsBytes v) : decodeUppercaseHexString (hexEnc v) = some v := by
  have hlen : ∀ v : Bytes, (hexEnc v).length = 2 * v.length := by
    intro v; induction v with
    | nil => rfl
    | cons b bs ih => simp [hexEnc, ih]; omega
  have hdec : ∀ v : Bytes, IsBytes v → decodeUpperHex (hexEnc v) = some v := by
    intro v; induction v with
    | nil => intro _; rfl
    | cons b bs ih =>
      intro hb
      have hb' : b < 256 := hb b (by simp)
      simp only [hexEnc, decodeUpperHex, upperHexVal_digit (b / 16) (by omega), upperHexVal_digit (b % 16) (by omega),
        ih (fun x hx => hb x (by simp [hx]))]
      congr 2; omega
  unfold decodeUppercaseHexString
  have : ¬ ((hexEnc v).length % 2 == 1) = true := by rw [hlen]; simp
  simp only [this, if_false]
  exact hdec v hv

/-- … and a hex-decoded field gets its NULs shown as spaces (proctitle, cmd, …):
joining the NUL-separated pieces with a space is the original with NUL ↦ space. -/
theorem C12_nul_to_space (v : Bytes) :
    joinWith [32] (splitByte 0 v) = v.map (fun b => if b == 0 then 32 else b) := by
  induction v with
  | nil => rfl
  | cons b bs ih =>
    unfold splitByte
    cases hs : splitByte 0 bs with
    | nil =>
      -- splitByte never returns []
      exfalso
      have : ∀ l : Bytes, splitByte 0 l ≠ [] := by
        intro l; cases l with
        | nil => simp [splitByte]
        | cons x xs => unfold splitByte; cases splitByte 0 xs <;> simp <;> split <;> simp
      exact this bs hs
    | cons cur rest =>
      rw [hs] at ih
      simp only
      by_cases hb : b == 0
      · simp only [hb, if_true, List.map_cons]
        rw [← ih]
        cases rest <;> simp [joinWith]
      · simp only [hb, Bool.false_eq_true, if_false, List.map_cons]
        rw [← ih]
        cases rest <;> simp [joinWith]

/-- execve arguments and unix socket paths: decoded up to the first NUL. -/
theorem C12_hex_cstring (v : Bytes) (hv : IsBytes v) :
    hexToString (hexEnc v) = some (v.takeWhile (fun b => !(b == 0))) := by
  simp [hexToString, C12_hex_roundtrip v hv]

/-! ### quoted values -/

/-- the quoted-value matcher consumes exactly `v"` when `v` has no quote and does not end in a
backslash, whatever follows. -/
theorem matchQuoted_safe (v rest : Bytes) (hq : (34 : Nat) ∉ v)
    (hl : ∀ b, v.getLast? = some b → b ≠ 92) : matchQuoted 34 (v ++ 34 :: rest) = some (v.length + 1) := by
  induction v with
  | nil => cases rest <;> simp [matchQuoted]
  | cons b bs ih =>
    have hb : b ≠ 34 := fun h => hq (by simp [h])
    have hq' : (34 : Nat) ∉ bs := fun h => hq (by simp [h])
    cases bs with
    | nil =>
      -- v = [b], b is not a backslash (it is the last byte)
      have hb92 : b ≠ 92 := hl b (by simp)
      simp only [List.cons_append, List.nil_append, matchQuoted]
      have h1 : (b == 92 && (34 : Nat) == 34) = false := by simp [hb92]
      have h2 : (b == 34) = false := by simpa using hb
      simp only [h1, h2, Bool.false_eq_true, if_false]
      cases rest <;> simp [matchQuoted]
    | cons c cs =>
      have hc : c ≠ 34 := fun h => hq' (by simp [h])
      have ih' := ih hq' (fun x hx => hl x (by simpa [List.getLast?_cons_cons] using hx))
      simp only [List.cons_append] at ih' ⊢
      simp only [matchQuoted]
      have h1 : (b == 92 && c == 34) = false := by simp [hc]
      have h2 : (b == 34) = false := by simpa using hb
      simp only [h1, h2, Bool.false_eq_true, if_false, ih', Option.map_some, List.length_cons]

/-- A safe string in the domain, written in double quotes, is tokenised whole … -/
theorem C12_quoted_token (v rest : Bytes) (hs : v.all isSafeByte = true) (hd : InDomain v) :
    matchValue (34 :: (v ++ 34 :: rest)) = some (v.length + 2) := by
  have hq : (34 : Nat) ∉ v := by
    intro h
    have := List.all_eq_true.mp hs 34 h
    simp [isSafeByte] at this
  have := matchQuoted_safe v rest hq (fun b hb => (hd.2.2 b hb).2.2.2)
  simp [matchValue, isPlainValByte, this]

theorem dropWhile_cut_of_head {cut : Bytes} {b : Nat} {l : Bytes} (h : cut.contains b = false) :
    (b :: l).dropWhile (fun x => cut.contains x) = b :: l := by
  simp only [List.dropWhile_cons, h, Bool.false_eq_true, if_false]

/-- … and trimming quotes and spaces gives back exactly the value. -/
theorem C12_trim_quoted (v : Bytes) (hd : InDomain v) : trimQuotesAndSpace (34 :: (v ++ [34])) = v := by
  obtain ⟨hne, hh, hl⟩ := hd
  cases v with
  | nil => exact absurd rfl hne
  | cons a tl =>
    have ha := hh a rfl
    have hca : ([39, 34, 32] : Bytes).contains a = false := by
      simp only [List.contains_cons, List.contains_nil, Bool.or_false, Bool.or_eq_false_iff, beq_eq_false_iff_ne, ne_eq]
      exact ⟨ha.1, ha.2.1, ha.2.2⟩
    unfold trimQuotesAndSpace trimSet
    have h1 : (34 :: (a :: tl ++ [34])).dropWhile (fun b => ([39, 34, 32] : Bytes).contains b) = a :: tl ++ [34] := by
      rw [List.dropWhile_cons]
      have : ([39, 34, 32] : Bytes).contains 34 = true := by decide
      simp only [this, if_true]
      exact dropWhile_cut_of_head hca
    rw [h1]
    -- reverse: 34 :: (a :: tl).reverse ; the last byte z of v is not in the cut set
    have hrev : (a :: tl ++ [34]).reverse = 34 :: (a :: tl).reverse := by simp
    rw [hrev, List.dropWhile_cons]
    have : ([39, 34, 32] : Bytes).contains 34 = true := by decide
    simp only [this, if_true]
    cases hr : (a :: tl).reverse with
    | nil => simp at hr
    | cons z zs =>
      have hz : (a :: tl).getLast? = some z := by
        rw [List.getLast?_eq_head?_reverse, hr]; rfl
      have hz' := hl z hz
      have hcz : ([39, 34, 32] : Bytes).contains z = false := by
        simp only [List.contains_cons, List.contains_nil, Bool.or_false, Bool.or_eq_false_iff, beq_eq_false_iff_ne, ne_eq]
        exact ⟨hz'.1, hz'.2.1, hz'.2.2.1⟩
      rw [dropWhile_cut_of_head hcz, ← hr, List.reverse_reverse]

/-! ### a whole record: the tokenizer over a list of fields -/

/-- a value as the kernel writes it after `key=`: plain (a number, a word, upper-case hex — no
quote, no white space) or a double-quoted string without a quote inside that does not end in a
backslash. -/
inductive EncOk : Bytes → Prop
  | plain (v : Bytes) : v ≠ [] → (∀ b ∈ v, isPlainValByte b = true) → EncOk v
  | quoted (v : Bytes) : (34 : Nat) ∉ v → (∀ b, v.getLast? = some b → b ≠ 92) → EncOk (34 :: (v ++ [34]))

/-- `k1=e1 k2=e2 …` -/
def render : List (Bytes × Bytes) → Bytes
  | [] => []
  | [(k, e)] => k ++ 61 :: e
  | (k, e) :: rest => k ++ 61 :: (e ++ 32 :: render rest)

theorem takeWhile_append_stop {p : Nat → Bool} (a tail : Bytes) (ha : ∀ b ∈ a, p b = true)
    (ht : tail = [] ∨ ∃ c t, tail = c :: t ∧ p c = false) : (a ++ tail).takeWhile p = a := by
  induction a with
  | nil =>
    rcases ht with rfl | ⟨c, t, rfl, hc⟩
    · rfl
    · simp [List.takeWhile_cons, hc]
  | cons x xs ih =>
    simp only [List.cons_append, List.takeWhile_cons, ha x (by simp), if_true]
    rw [ih (fun b hb => ha b (by simp [hb]))]

/-- the value matcher consumes exactly the encoded value when it is followed by nothing or by a
space. -/
theorem matchValue_enc (e tail : Bytes) (he : EncOk e) (ht : tail = [] ∨ ∃ t, tail = 32 :: t) :
    matchValue (e ++ tail) = some e.length := by
  cases he with
  | plain _ hne hp =>
    cases e with
    | nil => exact absurd rfl hne
    | cons b bs =>
      have hb := hp b (by simp)
      have htw : ((b :: bs) ++ tail).takeWhile isPlainValByte = b :: bs := by
        apply takeWhile_append_stop _ _ hp
        rcases ht with rfl | ⟨t, rfl⟩
        · exact Or.inl rfl
        · exact Or.inr ⟨32, t, rfl, by decide⟩
      simp only [List.cons_append] at htw ⊢
      simp only [matchValue, hb, if_true, htw]
  | quoted v hq hl =>
    have := matchQuoted_safe v tail hq hl
    have e1 : (34 :: (v ++ [34])) ++ tail = 34 :: (v ++ 34 :: tail) := by simp
    rw [e1]
    simp [matchValue, isPlainValByte, this]

/-- Tokenizer over a whole record: a record rendered as `k1=e1 k2=e2 …` — keys made of key bytes,
values as the kernel encodes them — is cut into exactly those (key, encoded value) pairs, in
order: no field is lost, merged, split or truncated, whatever the values contain. -/
theorem C12_tokenize (fs : List (Bytes × Bytes))
    (hk : ∀ p ∈ fs, p.1 ≠ [] ∧ ∀ b ∈ p.1, isKeyByte b = true) (he : ∀ p ∈ fs, EncOk p.2)
    (fuel : Nat) (hf : (render fs).length + 1 ≤ fuel) : kvMatches fuel (render fs) = fs := by
  induction fs generalizing fuel with
  | nil => cases fuel <;> rfl
  | cons p rest ih =>
    obtain ⟨k, e⟩ := p
    obtain ⟨hkne, hkb⟩ := hk (k, e) (by simp)
    have hee := he (k, e) (by simp)
    have hene : e ≠ [] := by
      cases hee with
      | plain _ h _ => exact h
      | quoted v _ _ => simp
    -- the text is k ++ '=' :: (e ++ tail) with tail = [] or ' ' :: render rest
    obtain ⟨tail, hr, ht⟩ : ∃ tail, render ((k, e) :: rest) = k ++ 61 :: (e ++ tail) ∧
        ((tail = [] ∧ rest = []) ∨ (tail = 32 :: render rest ∧ rest ≠ [])) := by
      cases rest with
      | nil => exact ⟨[], by simp [render], Or.inl ⟨rfl, rfl⟩⟩
      | cons q qs => exact ⟨32 :: render (q :: qs), by simp [render], Or.inr ⟨rfl, by simp⟩⟩
    rw [hr] at hf ⊢
    obtain ⟨kb, kt, rfl⟩ : ∃ kb kt, k = kb :: kt := by
      cases k with
      | nil => exact absurd rfl hkne
      | cons kb kt => exact ⟨kb, kt, rfl⟩
    obtain ⟨fuel', rfl⟩ : ∃ f', fuel = f' + 1 := ⟨fuel - 1, by omega⟩
    have hkey : ((kb :: kt) ++ 61 :: (e ++ tail)).takeWhile isKeyByte = kb :: kt :=
      takeWhile_append_stop _ _ hkb (Or.inr ⟨61, _, rfl, by decide⟩)
    have hmv : matchValue (e ++ tail) = some e.length :=
      matchValue_enc e tail hee (by rcases ht with ⟨h, _⟩ | ⟨h, _⟩ <;> simp [h])
    simp only [List.cons_append] at hkey hf ⊢
    simp only [kvMatches, hkb kb (by simp), if_true, hkey]
    have hdrop : (kb :: (kt ++ 61 :: (e ++ tail))).drop (kb :: kt).length = 61 :: (e ++ tail) := by
      have : kb :: (kt ++ 61 :: (e ++ tail)) = (kb :: kt) ++ 61 :: (e ++ tail) := by simp
      rw [this, List.drop_left' rfl]
    rw [hdrop]
    simp only [hmv, List.take_left' rfl, List.drop_left' rfl]
    congr 1
    rcases ht with ⟨rfl, rfl⟩ | ⟨rfl, hne⟩
    · cases fuel' <;> rfl
    · -- one step over the separating space, then the induction hypothesis
      have hlen : (render rest).length + 2 ≤ fuel' := by
        simp only [List.length_cons, List.length_append] at hf
        have : 0 < e.length := List.length_pos_iff.mpr hene
        omega
      obtain ⟨f2, rfl⟩ : ∃ f2, fuel' = f2 + 1 := ⟨fuel' - 1, by omega⟩
      have hsp : isKeyByte 32 = false := by decide
      simp only [kvMatches, hsp, Bool.false_eq_true, if_false]
      exact ih (fun q hq => hk q (by simp [hq])) (fun q hq => he q (by simp [hq])) f2 (by omega)

/-- non-vacuity: the hypotheses hold for the fields of `a=42 exe="/x"`, and the theorem then gives
the two tokens. -/
example : kvMatches 40 (render [([97], [52, 50]), ([101, 120, 101], 34 :: ([47, 120] ++ [34]))]) =
    [([97], [52, 50]), ([101, 120, 101], 34 :: ([47, 120] ++ [34]))] := by
  apply C12_tokenize
  · intro p hp
    simp only [List.mem_cons, List.mem_nil_iff, or_false] at hp
    rcases hp with rfl | rfl <;> exact ⟨by simp, by decide⟩
  · intro p hp
    simp only [List.mem_cons, List.mem_nil_iff, or_false] at hp
    rcases hp with rfl | rfl
    · exact .plain _ (by simp) (by decide)
    · exact .quoted _ (by decide) (by intro b hb; simp at hb; omega)
  · simp [render]

/-- what Data() starts from for one token: the raw token and its value with quotes trimmed -/
def fieldOf (p : Bytes × Bytes) : Bytes × Field := (p.1, { orig := p.2, value := trimQuotesAndSpace p.2 })

theorem fmAdd_fresh (fm : FieldMap) (k : Bytes) (f : Field) (h : ∀ q ∈ fm, q.1 ≠ k) : fmAdd fm k f = fm ++ [(k, f)] := by
  unfold fmAdd
  have : fm.any (fun p => p.1 == k) = false := by
    rw [List.any_eq_false]
    intro q hq
    simpa using h q hq
  simp [this]

/-- Field extraction over a whole record: for a record `k1=e1 k2=e2 …` with distinct keys, none
of them `msg`, whose values are not placeholders, extractKeyValuePairs yields exactly one entry
per field, in order, holding the raw token and the value with its quotes trimmed — nothing is
lost, merged or invented, whatever bytes the (kernel-encoded) values contain. -/
theorem C12_record_fields (fs : List (Bytes × Bytes))
    (hk : ∀ p ∈ fs, p.1 ≠ [] ∧ ∀ b ∈ p.1, isKeyByte b = true) (he : ∀ p ∈ fs, EncOk p.2)
    (hnd : (fs.map (·.1)).Nodup) (hmsg : ∀ p ∈ fs, (p.1 == keyMsg) = false)
    (hph : ∀ p ∈ fs, isPlaceholder (trimQuotesAndSpace p.2) = false) (fuel : Nat) :
    extractKV (fuel + 1) (render fs) = fs.map fieldOf := by
  unfold extractKV
  rw [C12_tokenize fs hk he _ (Nat.le_refl _)]
  -- the fold appends one fresh entry per field
  have key : ∀ (todo done : List (Bytes × Bytes)), (∀ p ∈ todo, (p.1 == keyMsg) = false) →
      (∀ p ∈ todo, isPlaceholder (trimQuotesAndSpace p.2) = false) → ((done ++ todo).map (·.1)).Nodup →
      todo.foldl (fun (data : FieldMap) (m : Bytes × Bytes) =>
        let value := trimQuotesAndSpace m.2
        if isPlaceholder value then data
        else if m.1 == keyMsg then (extractKV fuel value).foldl (fun d p => fmAdd d p.1 p.2) data
        else fmAdd data m.1 { orig := m.2, value := value }) (done.map fieldOf) = (done ++ todo).map fieldOf := by
    intro todo
    induction todo with
    | nil => intro done _ _ _; simp
    | cons m ms ih =>
      intro done hm hp hn
      simp only [List.foldl_cons]
      have h1 := hm m (by simp)
      have h2 := hp m (by simp)
      simp only [h2, Bool.false_eq_true, if_false, h1]
      have hfresh : ∀ q ∈ done.map fieldOf, q.1 ≠ m.1 := by
        intro q hq
        obtain ⟨d, hd, rfl⟩ := List.mem_map.mp hq
        simp only [fieldOf]
        intro heq
        simp only [List.map_append, List.map_cons] at hn
        have := (List.nodup_append.mp hn).2.2 d.1 (List.mem_map.mpr ⟨d, hd, rfl⟩) m.1 (by simp)
        exact this heq
      rw [fmAdd_fresh _ _ _ hfresh]
      have e : done.map fieldOf ++ [(m.1, { orig := m.2, value := trimQuotesAndSpace m.2 })] = (done ++ [m]).map fieldOf := by
        simp [fieldOf]
      rw [e]
      have := ih (done ++ [m]) (fun p hp' => hm p (by simp [hp'])) (fun p hp' => hp p (by simp [hp']))
        (by simpa [List.append_assoc] using hn)
      simpa [List.append_assoc] using this
  have := key fs [] hmsg hph (by simpa using hnd)
  simpa using this

/-! ### placeholders, derived fields -/

/-- Exactly the placeholder values are dropped. -/
theorem C12_placeholders (v : Bytes) :
    isPlaceholder v = true ↔ v = [] ∨ v = ofString "?" ∨ v = ofString "?," ∨ v = ofString "(null)" := by
  simp [isPlaceholder, ofString, or_assoc]

/-- success/res become result=success|fail: success for "yes", "1" and anything starting with
"suc" (case-insensitive), fail otherwise. -/
theorem C12_result (v : Bytes) :
    resultOf v = ofString "success" ∨ resultOf v = ofString "fail" := by
  unfold resultOf; simp only; split <;> simp

example : resultOf (ofString "yes") = ofString "success" ∧ resultOf (ofString "no") = ofString "fail" ∧
    resultOf (ofString "SUCCESS") = ofString "success" := by decide +kernel

/-- An unset auid/ses (4294967295 or -1) becomes "unset"; any other value is left alone. -/
theorem C12_unset (k v : Bytes) (orig : Bytes) :
    fmFind (normalizeUnsetID [(k, ⟨orig, v⟩)] k) k =
      some ⟨orig, if v == ofString "4294967295" || v == ofString "-1" then ofString "unset" else v⟩ := by
  simp only [normalizeUnsetID, fmFind, List.find?_cons, beq_self_eq_true, Option.map_some]
  split <;> simp [fmSetValue, *]

/-- Negative exit codes become errno names, for every errno of the regenerated table; other
values are left as they are. -/
theorem C12_exit_errno :
    ∀ p ∈ LA.Gen.Errno.errnoToName, Tables.errnoName p.1 = some p.2 := by
  have cert : LA.Gen.Errno.errnoToName.all (fun p =>
      match lookupN LA.Gen.Errno.errnoToName p.1 with | some n => n == p.2 | none => false) = true := by decide +kernel
  intro p hp
  have := List.all_eq_true.mp cert p hp
  unfold Tables.errnoName
  cases h : lookupN LA.Gen.Errno.errnoToName p.1 with
  | none => simp [h] at this
  | some n => simp [h] at this; rw [this]

/-- arch/syscall numbers become the names in the published tables: for every entry (n, name) of
every architecture's table, the lookup used by the parser returns `name`. -/
theorem syscallName_of_cert {arch : Bytes} {tbl : List (Nat × List Nat)} {nameTree numTree : Tree}
    (hfind : Tables.sysTable arch = some (arch, tbl, nameTree, numTree))
    (cert : (tbl.zipIdx).all (fun q => numTree.find q.1.1 == some q.2) = true) :
    ∀ q ∈ tbl.zipIdx, Tables.syscallName arch q.1.1 = some q.1.2 := by
  intro q hq
  have := List.all_eq_true.mp cert q hq
  simp only [beq_iff_eq] at this
  unfold Tables.syscallName
  simp only [hfind, this]
  have hget : tbl[q.2]? = some q.1 := List.mem_zipIdx_iff_getElem?.mp hq
  simp [hget]

theorem C12_syscall_x86_64 :
    ∀ q ∈ LA.Gen.Syscalls_x86_64.table.zipIdx, Tables.syscallName (ofString "x86_64") q.1.1 = some q.1.2 :=
  syscallName_of_cert (nameTree := LA.Gen.Syscalls_x86_64.nameTree) rfl LA.Gen.Syscalls_x86_64.cert_nums

/-- A syscall name is reported only for a number the architecture's table lists, and it is the name listed there: a
number that is a table entry with a bit added (the x32 bit 0x40000000, say) or an offset names nothing unless the
table lists that very number, and is then reported as the number it is. (Completeness, every listed pair is found,
is `C12_syscall_x86_64` and the certificates behind it.) -/
theorem C12_syscall_name_only_from_table (arch : Bytes) (num : Nat) (nm : Bytes)
    (h : Tables.syscallName arch num = some nm) :
    ∃ t, Tables.sysTable arch = some t ∧ (num, nm) ∈ t.2.1 := by
  unfold Tables.syscallName at h
  cases ht : Tables.sysTable arch with
  | none => simp [ht] at h
  | some t =>
    obtain ⟨a, tbl, nameTree, numTree⟩ := t
    simp only [ht] at h
    refine ⟨_, rfl, ?_⟩
    cases hf : numTree.find num with
    | none => simp [hf] at h
    | some i =>
      simp only [hf] at h
      cases hg : tbl[i]? with
      | none => simp [hg] at h
      | some p =>
        obtain ⟨n, nm'⟩ := p
        simp only [hg] at h
        split at h
        · rename_i hn
          simp only [Option.some.injEq] at h
          have hn' : n = num := by simpa using hn
          subst hn'; subst h
          exact List.mem_of_getElem? hg
        · cases h

example : Tables.syscallName (ofString "x86_64") (59 + 1073741824) = none := by decide +kernel
example : Tables.syscallName (ofString "x86_64") 59 = some (ofString "execve") := by decide +kernel

/-! ### socket addresses: hex of struct sockaddr -/

theorem hexVal_digit (n : Nat) (h : n < 16) : hexVal (upperHexDigit n) = some n := by
  unfold hexVal upperHexDigit isDigit
  by_cases h10 : n < 10
  · have : (decide (48 ≤ 48 + n) && decide (48 + n ≤ 57)) = true := by simp; omega
    simp only [h10, if_true, this]
    congr 1; omega
  · have h1 : (decide (48 ≤ 55 + n) && decide (55 + n ≤ 57)) = false := by simp; omega
    have h2 : ¬ (97 ≤ 55 + n ∧ 55 + n ≤ 102) := by omega
    have h3 : (65 ≤ 55 + n ∧ 55 + n ≤ 70) := by omega
    simp only [h10, if_false, h1, Bool.false_eq_true, h2, h3, and_self, if_true]
    congr 1; omega

/-- strconv base-16 digits of an upper-case hex rendering: the big-endian value of the bytes. -/
theorem parseHexDigits_hexEnc (bs : Bytes) (hb : IsBytes bs) (acc : Nat) :
    parseHexDigits (hexEnc bs) acc = some (bs.foldl (fun a b => a * 256 + b) acc) := by
  induction bs generalizing acc with
  | nil => rfl
  | cons b bs ih =>
    have hb' : b < 256 := hb b (by simp)
    simp only [hexEnc, parseHexDigits, hexVal_digit (b / 16) (by omega), hexVal_digit (b % 16) (by omega), List.foldl_cons]
    rw [ih (fun x hx => hb x (by simp [hx]))]
    congr 2; omega

theorem hexEnc_length (v : Bytes) : (hexEnc v).length = 2 * v.length := by
  induction v with
  | nil => rfl
  | cons b bs ih => simp [hexEnc, ih]; omega

theorem hexEnc_append (u v : Bytes) : hexEnc (u ++ v) = hexEnc u ++ hexEnc v := by
  induction u with
  | nil => rfl
  | cons b bs ih => simp [hexEnc, ih]

/-- ParseInt(·, 16, 32) of the hex of a non-empty byte string is its big-endian value, when that
fits a signed 32-bit integer. -/
theorem parseInt16_hexEnc_lt (bs : Bytes) (hb : IsBytes bs) (hne : bs ≠ [])
    (hbound : bs.foldl (fun a b => a * 256 + b) 0 < 2 ^ (32 - 1)) :
    parseInt 16 32 (hexEnc bs) = some ((bs.foldl (fun a b => a * 256 + b) 0 : Nat) : Int) := by
  obtain ⟨b, tl, rfl⟩ : ∃ b tl, bs = b :: tl := by
    cases bs with
    | nil => exact absurd rfl hne
    | cons b tl => exact ⟨b, tl, rfl⟩
  have hb' : b < 256 := hb b (by simp)
  have hd : ∀ n, n < 16 → upperHexDigit n ≠ 43 ∧ upperHexDigit n ≠ 45 := by
    intro n hn; unfold upperHexDigit; split <;> omega
  have hss : splitSign (hexEnc (b :: tl)) = (false, hexEnc (b :: tl)) := by
    simp only [hexEnc]
    unfold splitSign
    have := hd (b / 16) (by omega)
    split
    · rename_i heq; simp at heq; omega
    · rename_i heq; simp at heq; omega
    · rfl
  unfold parseInt
  simp only [hss, beq_self_eq_true, if_true, parseHexDigits_hexEnc _ hb 0]
  have hne' : (hexEnc (b :: tl)).isEmpty = false := by simp [hexEnc]
  simp only [hne', Bool.false_eq_true, if_false, hbound, if_true]

theorem be_value_lt (l : Bytes) (acc : Nat) (hl : IsBytes l) :
    l.foldl (fun a b => a * 256 + b) acc < (acc + 1) * 256 ^ l.length := by
  induction l generalizing acc with
  | nil => simp
  | cons x xs ih =>
    have hx : x < 256 := hl x (by simp)
    have := ih (acc * 256 + x) (fun y hy => hl y (by simp [hy]))
    simp only [List.foldl_cons, List.length_cons]
    calc _ < (acc * 256 + x + 1) * 256 ^ xs.length := this
      _ ≤ ((acc + 1) * 256) * 256 ^ xs.length := Nat.mul_le_mul_right _ (by omega)
      _ = (acc + 1) * 256 ^ (xs.length + 1) := by rw [Nat.pow_succ, Nat.mul_assoc, Nat.mul_comm 256]

/-- ParseInt(·, 16, 32) of the hex of one to three bytes is their big-endian value. -/
theorem parseInt16_hexEnc (bs : Bytes) (hb : IsBytes bs) (hne : bs ≠ []) (hlen : bs.length ≤ 3) :
    parseInt 16 32 (hexEnc bs) = some ((bs.foldl (fun a b => a * 256 + b) 0 : Nat) : Int) := by
  refine parseInt16_hexEnc_lt bs hb hne ?_
  have h1 := be_value_lt bs 0 hb
  have h2 : 256 ^ bs.length ≤ 256 ^ 3 := Nat.pow_le_pow_right (by omega) hlen
  have h3 : (256 : Nat) ^ 3 < 2 ^ (32 - 1) := by decide
  omega

theorem slice_nat (s : Bytes) (i j : Nat) (hij : i ≤ j) (hj : j ≤ s.length) :
    slice s (i : Int) (j : Int) = Res.ok ((s.drop i).take (j - i)) := by
  unfold slice
  have c : (0 : Int) ≤ (i : Int) ∧ (i : Int) ≤ (j : Int) ∧ (j : Int) ≤ (s.length : Int) := by omega
  rw [if_pos c]
  have e1 : (j : Int).toNat - (i : Int).toNat = j - i := by omega
  have e2 : (i : Int).toNat = i := by omega
  rw [e1, e2]

/-- IPv4: the hex of a struct sockaddr_in {AF_INET little-endian, port big-endian, 4 address
bytes, padding} decodes to family ipv4, the dotted-quad address and the port — for every port,
every address and any padding. -/
theorem C12_sockaddr_ipv4 (p a b c d : Nat) (pad : Bytes) (hp : p < 65536) (ha : a < 256) (hb : b < 256) (hc : c < 256)
    (hd : d < 256) :
    parseSockaddr (hexEnc ([2, 0, p / 256, p % 256, a, b, c, d] ++ pad)) =
      Res.ok [(ofString "family", ofString "ipv4"),
              (ofString "addr", joinWith [46] [dec a, dec b, dec c, dec d]),
              (ofString "port", dec p)] := by
  have hl : (hexEnc ([2, 0, p / 256, p % 256, a, b, c, d] ++ pad)).length = 16 + 2 * pad.length := by
    rw [hexEnc_length]; simp; omega
  have hs : hexEnc ([2, 0, p / 256, p % 256, a, b, c, d] ++ pad) =
      hexEnc [2] ++ (hexEnc [0] ++ (hexEnc [p / 256, p % 256] ++ (hexEnc [a, b, c, d] ++ hexEnc pad))) := by
    rw [← hexEnc_append, ← hexEnc_append, ← hexEnc_append, ← hexEnc_append]; rfl
  have one : ∀ x, x < 256 → decInt (hexToDecOr0 (hexEnc [x])) = dec x := by
    intro x hx
    unfold hexToDecOr0
    rw [parseInt16_hexEnc [x] (by intro y hy; simp at hy; omega) (by simp) (by simp)]
    simp [decInt]
  unfold parseSockaddr
  have c0 : ¬ (hexEnc ([2, 0, p / 256, p % 256, a, b, c, d] ++ pad)).length < 4 := by omega
  rw [if_neg c0]
  have s1 := slice_nat (hexEnc ([2, 0, p / 256, p % 256, a, b, c, d] ++ pad)) 2 4 (by omega) (by omega)
  have s2 := slice_nat (hexEnc ([2, 0, p / 256, p % 256, a, b, c, d] ++ pad)) 0 2 (by omega) (by omega)
  have s3 := slice_nat (hexEnc ([2, 0, p / 256, p % 256, a, b, c, d] ++ pad)) 4 8 (by omega) (by omega)
  have s4 := slice_nat (hexEnc ([2, 0, p / 256, p % 256, a, b, c, d] ++ pad)) 8 16 (by omega) (by omega)
  have d1 : ((hexEnc ([2, 0, p / 256, p % 256, a, b, c, d] ++ pad)).drop 2).take (4 - 2) = hexEnc [0] := by rw [hs]; rfl
  have d2 : ((hexEnc ([2, 0, p / 256, p % 256, a, b, c, d] ++ pad)).drop 0).take (2 - 0) = hexEnc [2] := by rw [hs]; rfl
  have d3 : ((hexEnc ([2, 0, p / 256, p % 256, a, b, c, d] ++ pad)).drop 4).take (8 - 4) = hexEnc [p / 256, p % 256] := by rw [hs]; rfl
  have d4 : ((hexEnc ([2, 0, p / 256, p % 256, a, b, c, d] ++ pad)).drop 8).take (16 - 8) = hexEnc [a, b, c, d] := by rw [hs]; rfl
  rw [d1] at s1; rw [d2] at s2; rw [d3] at s3; rw [d4] at s4
  have s1' : slice (hexEnc ([2, 0, p / 256, p % 256, a, b, c, d] ++ pad)) 2 4 = Res.ok (hexEnc [0]) := s1
  have s2' : slice (hexEnc ([2, 0, p / 256, p % 256, a, b, c, d] ++ pad)) 0 2 = Res.ok (hexEnc [2]) := s2
  have s3' : slice (hexEnc ([2, 0, p / 256, p % 256, a, b, c, d] ++ pad)) 4 8 = Res.ok (hexEnc [p / 256, p % 256]) := s3
  have s4' : slice (hexEnc ([2, 0, p / 256, p % 256, a, b, c, d] ++ pad)) 8 16 = Res.ok (hexEnc [a, b, c, d]) := s4
  have fam : parseInt 16 32 (hexEnc [0] ++ hexEnc [2]) = some 2 := by decide +kernel
  have port : parseInt 16 32 (hexEnc [p / 256, p % 256]) = some (p : Int) := by
    rw [parseInt16_hexEnc [p / 256, p % 256] (by intro y hy; simp at hy; omega) (by simp) (by simp)]
    simp only [List.foldl_cons, List.foldl_nil]
    congr 2; omega
  have c16 : ¬ (hexEnc ([2, 0, p / 256, p % 256, a, b, c, d] ++ pad)).length < 16 := by omega
  have ip : hexToIP (hexEnc [a, b, c, d]) = Res.ok (joinWith [46] [dec a, dec b, dec c, dec d]) := by
    unfold hexToIP
    have l8 : (hexEnc [a, b, c, d]).length = 8 := by rw [hexEnc_length]; rfl
    simp only [l8, beq_self_eq_true, if_true]
    have t1 : (hexEnc [a, b, c, d]).take 2 = hexEnc [a] := rfl
    have t2 : ((hexEnc [a, b, c, d]).drop 2).take 2 = hexEnc [b] := rfl
    have t3 : ((hexEnc [a, b, c, d]).drop 4).take 2 = hexEnc [c] := rfl
    have t4 : ((hexEnc [a, b, c, d]).drop 6).take 2 = hexEnc [d] := rfl
    rw [t1, t2, t3, t4, one a ha, one b hb, one c hc, one d hd]
  simp only [s1', s2', s3', s4', fam, port, ip, c16, bind, Bind.bind, if_false]
  have dp : decInt (p : Int) = dec p := by simp [decInt]
  simp [dp]

/-- Unix sockets: the hex of {AF_UNIX little-endian, path, NUL, anything} decodes to family unix
and the path up to the first NUL. -/
theorem C12_sockaddr_unix (path junk : Bytes) (hp : IsBytes path) (hj : IsBytes junk) (h0 : (0 : Nat) ∉ path) :
    parseSockaddr (hexEnc ([1, 0] ++ path ++ 0 :: junk)) =
      Res.ok [(ofString "family", ofString "unix"), (ofString "path", path)] := by
  have hs : hexEnc ([1, 0] ++ path ++ 0 :: junk) = hexEnc [1] ++ (hexEnc [0] ++ hexEnc (path ++ 0 :: junk)) := by
    rw [← hexEnc_append, ← hexEnc_append]; simp
  have hl : (hexEnc ([1, 0] ++ path ++ 0 :: junk)).length = 4 + (hexEnc (path ++ 0 :: junk)).length := by
    rw [hs]; simp [hexEnc_length]; omega
  unfold parseSockaddr
  have c0 : ¬ (hexEnc ([1, 0] ++ path ++ 0 :: junk)).length < 4 := by omega
  rw [if_neg c0]
  have s1 := slice_nat (hexEnc ([1, 0] ++ path ++ 0 :: junk)) 2 4 (by omega) (by omega)
  have s2 := slice_nat (hexEnc ([1, 0] ++ path ++ 0 :: junk)) 0 2 (by omega) (by omega)
  have d1 : ((hexEnc ([1, 0] ++ path ++ 0 :: junk)).drop 2).take (4 - 2) = hexEnc [0] := by rw [hs]; rfl
  have d2 : ((hexEnc ([1, 0] ++ path ++ 0 :: junk)).drop 0).take (2 - 0) = hexEnc [1] := by rw [hs]; rfl
  rw [d1] at s1; rw [d2] at s2
  have s1' : slice (hexEnc ([1, 0] ++ path ++ 0 :: junk)) 2 4 = Res.ok (hexEnc [0]) := s1
  have s2' : slice (hexEnc ([1, 0] ++ path ++ 0 :: junk)) 0 2 = Res.ok (hexEnc [1]) := s2
  have fam : parseInt 16 32 (hexEnc [0] ++ hexEnc [1]) = some 1 := by decide +kernel
  have s3 : sliceFrom (hexEnc ([1, 0] ++ path ++ 0 :: junk)) 4 = Res.ok (hexEnc (path ++ 0 :: junk)) := by
    unfold sliceFrom
    have := slice_nat (hexEnc ([1, 0] ++ path ++ 0 :: junk)) 4 (hexEnc ([1, 0] ++ path ++ 0 :: junk)).length (by omega) (by omega)
    have this' : slice (hexEnc ([1, 0] ++ path ++ 0 :: junk)) 4 ((hexEnc ([1, 0] ++ path ++ 0 :: junk)).length : Int) = _ := this
    rw [this', hs]
    have : (hexEnc [1] ++ (hexEnc [0] ++ hexEnc (path ++ 0 :: junk))).drop 4 = hexEnc (path ++ 0 :: junk) := rfl
    rw [this, List.take_of_length_le]
    rw [← hs, hl]; omega
  have hbytes : IsBytes (path ++ 0 :: junk) := by
    intro x hx
    simp only [List.mem_append, List.mem_cons] at hx
    rcases hx with hx | rfl | hx
    · exact hp x hx
    · omega
    · exact hj x hx
  have hstr : hexToString (hexEnc (path ++ 0 :: junk)) = some path := by
    rw [C12_hex_cstring _ hbytes]
    congr 1
    rw [List.takeWhile_append_of_pos (by intro x hx; simp; intro h; exact h0 (h ▸ hx))]
    simp
  simp only [s1', s2', fam, s3, hstr, bind, Bind.bind]
  rfl

theorem decodeHexAny_hexEnc (v : Bytes) (hv : IsBytes v) : decodeHexAny (hexEnc v) = some v := by
  induction v with
  | nil => rfl
  | cons b bs ih =>
    have hb' : b < 256 := hv b (by simp)
    simp only [hexEnc, decodeHexAny, hexVal_digit (b / 16) (by omega), hexVal_digit (b % 16) (by omega),
      ih (fun x hx => hv x (by simp [hx]))]
    congr 2; omega

/-- IPv6: the hex of a struct sockaddr_in6 {AF_INET6 little-endian, port big-endian, flowinfo
big-endian, 16 address bytes, scope id} decodes to family ipv6, the port, the flow label when it
is non-zero, and the text form of exactly those 16 address bytes (`ipString16` is the model of
net.IP.String: dotted quad for v4-mapped addresses, else RFC 5952 compression). -/
theorem C12_sockaddr_ipv6 (p flow : Nat) (addr scope : Bytes) (hp : p < 65536) (hf : flow < 2147483648)
    (ha : IsBytes addr) (hal : addr.length = 16) :
    parseSockaddr (hexEnc ([10, 0, p / 256, p % 256, flow / 16777216, flow / 65536 % 256, flow / 256 % 256, flow % 256] ++
        (addr ++ scope))) =
      Res.ok ([(ofString "family", ofString "ipv6"), (ofString "addr", ipString16 addr), (ofString "port", dec p)] ++
        (if flow > 0 then [(ofString "flow", dec flow)] else [])) := by
  generalize hS : hexEnc ([10, 0, p / 256, p % 256, flow / 16777216, flow / 65536 % 256, flow / 256 % 256, flow % 256] ++
        (addr ++ scope)) = S
  have hs : S = hexEnc [10] ++ (hexEnc [0] ++ (hexEnc [p / 256, p % 256] ++
      (hexEnc [flow / 16777216, flow / 65536 % 256, flow / 256 % 256, flow % 256] ++ (hexEnc addr ++ hexEnc scope)))) := by
    rw [← hS, ← hexEnc_append, ← hexEnc_append, ← hexEnc_append, ← hexEnc_append, ← hexEnc_append]; rfl
  have hla : (hexEnc addr).length = 32 := by rw [hexEnc_length, hal]
  have hl : S.length = 48 + 2 * scope.length := by
    rw [← hS, hexEnc_length]; simp [hal]; omega
  unfold parseSockaddr
  have c0 : ¬ S.length < 4 := by omega
  rw [if_neg c0]
  have s1 : slice S 2 4 = Res.ok (hexEnc [0]) := by
    exact (slice_nat S 2 4 (by omega) (by omega)).trans (by rw [hs]; rfl)
  have s2 : slice S 0 2 = Res.ok (hexEnc [10]) := by
    exact (slice_nat S 0 2 (by omega) (by omega)).trans (by rw [hs]; rfl)
  have s3 : slice S 4 8 = Res.ok (hexEnc [p / 256, p % 256]) := by
    exact (slice_nat S 4 8 (by omega) (by omega)).trans (by rw [hs]; rfl)
  have s4 : slice S 8 16 = Res.ok (hexEnc [flow / 16777216, flow / 65536 % 256, flow / 256 % 256, flow % 256]) := by
    exact (slice_nat S 8 16 (by omega) (by omega)).trans (by rw [hs]; rfl)
  have s5 : slice S 16 48 = Res.ok (hexEnc addr) := by
    refine (slice_nat S 16 48 (by omega) (by omega)).trans ?_
    rw [hs]
    have : (hexEnc [10] ++ (hexEnc [0] ++ (hexEnc [p / 256, p % 256] ++
      (hexEnc [flow / 16777216, flow / 65536 % 256, flow / 256 % 256, flow % 256] ++ (hexEnc addr ++ hexEnc scope))))).drop 16 =
        hexEnc addr ++ hexEnc scope := rfl
    rw [this, List.take_left' hla]
  have fam : parseInt 16 32 (hexEnc [0] ++ hexEnc [10]) = some 10 := by decide +kernel
  have port : parseInt 16 32 (hexEnc [p / 256, p % 256]) = some (p : Int) := by
    rw [parseInt16_hexEnc [p / 256, p % 256] (by intro y hy; simp at hy; omega) (by simp) (by simp)]
    simp only [List.foldl_cons, List.foldl_nil]
    congr 2; omega
  have hfv : [flow / 16777216, flow / 65536 % 256, flow / 256 % 256, flow % 256].foldl (fun a b => a * 256 + b) 0 = flow := by
    simp only [List.foldl_cons, List.foldl_nil]; omega
  have flw : parseInt 16 32 (hexEnc [flow / 16777216, flow / 65536 % 256, flow / 256 % 256, flow % 256]) = some (flow : Int) := by
    rw [parseInt16_hexEnc_lt _ (by intro y hy; simp at hy; omega) (by simp) (by rw [hfv]; exact hf), hfv]
  have c48 : ¬ S.length < 48 := by omega
  have ip : hexToIP (hexEnc addr) = Res.ok (ipString16 addr) := by
    unfold hexToIP
    have n8 : ((32 : Nat) == 8) = false := by decide
    simp only [hla, n8, Bool.false_eq_true, if_false, beq_self_eq_true, if_true, decodeHexAny_hexEnc addr ha]
  have dp : decInt (p : Int) = dec p := by simp [decInt]
  have df : decInt (flow : Int) = dec flow := by simp [decInt]
  simp only [s1, s2, s3, s4, s5, fam, port, flw, ip, c48, bind, Bind.bind, if_false, dp, df]
  have e10 : ((10 : Int) == 1) = false := by decide
  have e2 : ((10 : Int) == 2) = false := by decide
  simp only [e10, e2, Bool.false_eq_true, if_false, beq_self_eq_true, if_true]
  by_cases hz : flow > 0
  · have : (flow : Int) > 0 := by omega
    simp [hz, this]
  · have : ¬ (flow : Int) > 0 := by omega
    simp [hz, this]

/-- non-vacuity: a value in the domain. -/
example : InDomain (ofString "/usr/bin/bash") ∧ (ofString "/usr/bin/bash").all isSafeByte = true := by
  refine ⟨⟨by decide, ?_, ?_⟩, by decide⟩
  · intro b hb; simp [ofString] at hb; subst hb; decide
  · intro b hb; simp [ofString] at hb; subst hb; decide

/-- **A syscall number the tables have no name for is left as the kernel wrote it** — in particular a
negative one (`syscall=-1` after a seccomp trap or an interrupted restart): when the field is a valid
decimal and the record has an arch, the step that resolves the name succeeds and changes nothing unless
the number is non-negative *and* the arch's table has a name for it. -/
theorem C12_syscall_without_name_is_kept (fm : FieldMap) (f a : Field) (n : Int)
    (hf : fmFind fm (ofString "syscall") = some f) (hn : parseInt 10 64 f.value = some n)
    (ha : fmFind fm (ofString "arch") = some a)
    (h : n < 0 ∨ Tables.syscallName a.value n.toNat = none) : syscallStep fm = Res.ok fm := by
  unfold syscallStep
  simp only [hf, hn, ha]
  rcases h with h | h
  · simp [h]
  · split
    · rfl
    · simp [h]

end LA.Auparse

/-! ### the code keeps nothing between calls that the model does not have -/

/-- Outside `init`, no function of package auparse writes a package-level variable, hands the address of one to a function or calls a
sync/atomic method on one (regenerated list, see LA.Proofs.StateFacts): the parser is a function of its argument. -/
theorem C12_parser_keeps_nothing_between_calls : LA.StateFacts.ofPkg "auparse" = [] := by decide

/-- … and reads nothing of the process it runs in: package auparse calls no function of os, os/user, os/exec, net,
runtime, math/rand or crypto/rand, no time.Now / Since / Until, no file-system function of path/filepath and no
process query of syscall (`envReads`, regenerated with go/types on every run). What the parser answers is a function
of the bytes it is given — not of the machine's time zone, locale, user database, number of processors or files. -/
theorem C12_parser_reads_no_environment : LA.StateFacts.envOf "auparse" = [] := by decide
