/-
C04 — Parsed record header equals the header that was written.
-/
import LA.Proofs.AuparseHeader
import LA.Proofs.TablesRT
import LA.Proofs.Trim
import LA.Proofs.StateFacts

namespace LA.Auparse
open LA LA.MsgType

/-! ### the written header -/

def pad3 (ms : Nat) : Bytes := [48 + ms / 100, 48 + ms / 10 % 10, 48 + ms % 10]

/-- "audit(S.mmm:N)" -/
def writtenHeader (sec ms seq : Nat) : Bytes :=
  ofString "audit" ++ 40 :: (dec sec ++ 46 :: (pad3 ms ++ 58 :: (dec seq ++ [41])))

theorem dec_head (n : Nat) : ∃ d tl, dec n = d :: tl ∧ isDigit d = true := by
  cases h : dec n with
  | nil => exact absurd h (dec_ne_nil n)
  | cons d tl => exact ⟨d, tl, rfl, dec_digits n d (by rw [h]; simp)⟩

theorem parseInt_of_digits {s : Bytes} {v : Nat} (hd : ∃ d tl, s = d :: tl ∧ isDigit d = true)
    (hp : parseDigits s 0 = some v) (hv : v < 2 ^ 63) : parseInt 10 64 s = some (v : Int) := by
  obtain ⟨d, tl, rfl, hdig⟩ := hd
  have h43 : d ≠ 43 := by intro h; subst h; simp [isDigit] at hdig
  have h45 : d ≠ 45 := by intro h; subst h; simp [isDigit] at hdig
  have hsp : splitSign (d :: tl) = (false, d :: tl) := by
    unfold splitSign
    split
    · rename_i h; simp at h; exact absurd h.1 h43
    · rename_i h; simp at h; exact absurd h.1 h45
    · rfl
  unfold parseInt
  simp only [hsp, List.isEmpty_cons, Bool.false_eq_true, if_false, hp]
  simp [hv]

theorem parseDigits_pad3 (ms : Nat) (h : ms < 1000) : parseDigits (pad3 ms) 0 = some ms := by
  simp only [pad3, parseDigits, isDigit]
  have h1 : (decide (48 ≤ 48 + ms / 100) && decide (48 + ms / 100 ≤ 57)) = true := by simp; omega
  have h2 : (decide (48 ≤ 48 + ms / 10 % 10) && decide (48 + ms / 10 % 10 ≤ 57)) = true := by simp; omega
  have h3 : (decide (48 ≤ 48 + ms % 10) && decide (48 + ms % 10 ≤ 57)) = true := by simp; omega
  simp only [h1, h2, h3, if_true]
  congr 1
  omega

theorem headerNums_written (sec ms seq : Nat) (hs : sec < 2 ^ 63) (hm : ms < 1000) (hq : seq < 2 ^ 32) :
    headerNums (dec sec) (pad3 ms) (dec seq) = some ((sec : Int), ((ms * 1000000 : Nat) : Int), seq) := by
  unfold headerNums
  rw [parseInt_of_digits (dec_head sec) (parseDigits_dec sec) hs]
  have hp3 : ∃ d tl, pad3 ms = d :: tl ∧ isDigit d = true := ⟨48 + ms / 100, _, rfl, by simp [isDigit]; omega⟩
  rw [parseInt_of_digits hp3 (parseDigits_pad3 ms hm) (by omega)]
  rw [parseUint_dec seq 4294967295 (by omega)]
  simp only
  have hw : wrap64 ((ms : Int) * 1000000) = (ms : Int) * 1000000 := by
    unfold wrap64; omega
  rw [hw]
  have : ¬ ((ms : Int) * 1000000 < 0 ∨ (ms : Int) * 1000000 ≥ 1000000000) := by omega
  simp only [timeUnix, this, if_false]
  simp

theorem not_mem_of_digits {c : Nat} {s : Bytes} (hs : ∀ b ∈ s, isDigit b = true) (hc : isDigit c = false) : c ∉ s := by
  intro h
  have := hs c h
  rw [hc] at this
  exact absurd this (by simp)

theorem pad3_digits (ms : Nat) (h : ms < 1000) : ∀ b ∈ pad3 ms, isDigit b = true := by
  intro b hb
  simp only [pad3, List.mem_cons, List.mem_nil_iff, or_false] at hb
  rcases hb with rfl | rfl | rfl <;> simp [isDigit] <;> omega

/-- The written header parses back to exactly what was written, whatever follows it:
seconds, milliseconds (as nanoseconds), sequence, and the index of the closing parenthesis. -/
theorem C04_header_roundtrip (sec ms seq : Nat) (rest : Bytes) (hs : sec < 2 ^ 63) (hm : ms < 1000) (hq : seq < 2 ^ 32) :
    parseAuditHeader (writtenHeader sec ms seq ++ rest) =
      Res.ok ((sec : Int), ((ms * 1000000 : Nat) : Int), seq, (((writtenHeader sec ms seq).length - 1 : Nat) : Int)) := by
  have e : writtenHeader sec ms seq ++ rest =
      ofString "audit" ++ 40 :: (dec sec ++ 46 :: (pad3 ms ++ 58 :: (dec seq ++ 41 :: rest))) := by
    simp [writtenHeader]
  rw [e, parseAuditHeader_decomp _ _ _ _ _ (by decide)
    (not_mem_of_digits (dec_digits sec) (by decide))
    (not_mem_of_digits (pad3_digits ms hm) (by decide))
    (not_mem_of_digits (dec_digits seq) (by decide)),
    headerNums_written sec ms seq hs hm hq]
  simp only [Res.ok.injEq, Prod.mk.injEq, true_and]
  simp [writtenHeader, pad3]
  omega

/-- ParseLogLine and Parse agree: a line 'type=NAME msg=M' parses as Parse(T, M) whenever NAME
names T (record type names contain no 'm', so the first 'msg=' is the intended one). -/
theorem C04_parse_agrees (name m : Bytes) (t : Nat) (hn : (109 : Nat) ∉ name) (ht : getType name = some t) :
    parseLogLine (ofString "type=" ++ name ++ ofString " msg=" ++ m) = parse t m := by
  have e : ofString "type=" ++ name ++ ofString " msg=" ++ m =
      (ofString "type=" ++ name ++ [32]) ++ msgToken ++ m := by
    simp [ofString, msgToken]
  have hidx : indexOfSub msgToken (ofString "type=" ++ name ++ ofString " msg=" ++ m) = some (5 + name.length + 1) := by
    rw [e]
    have := indexOfSub_append (t := [115, 103, 61]) (a := ofString "type=" ++ name ++ [32]) m (by
      simp only [List.mem_append, not_or]
      exact ⟨⟨by decide, hn⟩, by decide⟩)
    simpa [msgToken, ofString, Nat.add_comm, Nat.add_left_comm] using this
  unfold parseLogLine
  simp only [bind, Bind.bind, hidx, optInt]
  have h1 : ¬ ((((5 + name.length + 1 : Nat) : Int) == -1) = true) := by simp; omega
  have h2 : ¬ (((5 + name.length + 1 : Nat) : Int) < 6) := by omega
  simp only [h1, h2, if_false, Bool.false_eq_true]
  have s1 : slice (ofString "type=" ++ name ++ ofString " msg=" ++ m) 5 (((5 + name.length + 1 : Nat) : Int) - 1) = Res.ok name := by
    have := slice_mid (ofString "type=") name (ofString " msg=" ++ m)
    simp only [List.append_assoc] at this ⊢
    have e1 : ((ofString "type=").length : Int) = 5 := by decide
    have e2 : (((ofString "type=").length + name.length : Nat) : Int) = ((5 + name.length + 1 : Nat) : Int) - 1 := by
      have : (ofString "type=").length = 5 := by decide
      omega
    rw [e1, e2] at this
    exact this
  rw [s1]
  simp only [ht, sliceFrom]
  have s2 : slice (ofString "type=" ++ name ++ ofString " msg=" ++ m) (((5 + name.length + 1 : Nat) : Int) + 4)
      ((ofString "type=" ++ name ++ ofString " msg=" ++ m).length : Int) = Res.ok m := by
    have := slice_mid (ofString "type=" ++ name ++ ofString " msg=") m []
    simp only [List.append_nil] at this
    have l1 : (ofString "type=" ++ name ++ ofString " msg=").length = 5 + name.length + 1 + 4 := by
      simp [ofString]; omega
    have e1 : (((ofString "type=" ++ name ++ ofString " msg=").length : Nat) : Int) = ((5 + name.length + 1 : Nat) : Int) + 4 := by
      rw [l1]; omega
    have e2 : ((ofString "type=" ++ name ++ ofString " msg=").length + m.length : Nat) = (ofString "type=" ++ name ++ ofString " msg=" ++ m).length := by
      simp only [List.length_append]
    rw [e1, e2] at this
    exact this
  rw [s2]

/-- no record type name (table names and UNKNOWN[n]) contains the byte 'm'. -/
theorem typeName_no_m (t : Nat) : (109 : Nat) ∉ typeName t := by
  have cert : LA.Gen.MsgTypes.typeToName.all (fun p => !p.2.contains 109) = true := by decide +kernel
  rcases typeName_cases t with h | ⟨n, h, hm⟩
  · rw [h]
    intro hc
    simp only [unknownName, unknownPrefix, List.mem_append, List.mem_cons, List.mem_nil_iff, or_false] at hc
    rcases hc with (hc | hc) | hc
    · omega
    · have := dec_digits _ _ hc; simp [isDigit] at this
    · omega
  · rw [h]
    have := List.all_eq_true.mp cert (t, n) hm
    simpa using this

/-- Round trip, for every record type (named or UNKNOWN[n]), time stamp, sequence and body,
under the hypothesis `hk` that trimming white space from the text after 'msg=' leaves the header
in place (`trim_keeps_written_header` discharges it for every body; `C04_roundtrip` below is the
statement without it).
RecordType, Timestamp, Sequence are what was written and RawData is the trimmed text. -/
theorem C04_roundtrip_partial (t sec ms seq : Nat) (body rest' : Bytes) (ht : t < 65536) (hs : sec < 2 ^ 34)
    (hm : ms < 1000) (hq : seq < 2 ^ 32)
    (hk : trimSpace (writtenHeader sec ms seq ++ ofString ": " ++ body) = writtenHeader sec ms seq ++ rest') :
    ∃ off, parseLogLine (ofString "type=" ++ typeName t ++ ofString " msg=" ++ (writtenHeader sec ms seq ++ ofString ": " ++ body)) =
      Res.ok { typ := t, sec := sec, nsec := ((ms * 1000000 : Nat) : Int), seq := seq,
               raw := trimSpace (writtenHeader sec ms seq ++ ofString ": " ++ body), offset := off } := by
  rw [C04_parse_agrees _ _ t (typeName_no_m t) (LA.TablesRT.type_roundtrip t ht)]
  unfold parse
  simp only [bind, Bind.bind]
  rw [hk, C04_header_roundtrip sec ms seq rest' (by omega) hm hq]
  simp only [sliceFrom]
  have hl : 1 ≤ (writtenHeader sec ms seq).length := by simp [writtenHeader]; omega
  rw [slice_ok (by simp; omega)]
  exact ⟨_, rfl⟩

/-- TrimSpace never eats into the written header: whatever the body is (any bytes, including
Unicode white space and invalid UTF-8), the trimmed text after 'msg=' still starts with the
complete header. -/
theorem trim_keeps_written_header (sec ms seq : Nat) (tail : Bytes) :
    ∃ rest', trimSpace (writtenHeader sec ms seq ++ tail) = writtenHeader sec ms seq ++ rest' := by
  have e : writtenHeader sec ms seq ++ tail =
      97 :: ((ofString "udit" ++ 40 :: (dec sec ++ 46 :: (pad3 ms ++ 58 :: dec seq))) ++ 41 :: tail) := by
    simp [writtenHeader, ofString]
  obtain ⟨t', ht'⟩ := trimSpace_keeps_prefix 97 (ofString "udit" ++ 40 :: (dec sec ++ 46 :: (pad3 ms ++ 58 :: dec seq))) 41 tail
    (by decide) (by decide) (by decide) (by decide)
  refine ⟨t', ?_⟩
  rw [e, ht']
  simp [writtenHeader, ofString]

/-- The property's round trip with no side condition: for every record type (named or
UNKNOWN[n]), time stamp, sequence number and every body, the line
'type=T msg=audit(S.mmm:N): body' parses to RecordType T, Timestamp S.mmm, Sequence N and
RawData = the trimmed text after 'msg=', which still begins with the written header. -/
theorem C04_roundtrip (t sec ms seq : Nat) (body : Bytes) (ht : t < 65536) (hs : sec < 2 ^ 34)
    (hm : ms < 1000) (hq : seq < 2 ^ 32) :
    ∃ off rest', trimSpace (writtenHeader sec ms seq ++ ofString ": " ++ body) = writtenHeader sec ms seq ++ rest' ∧
      parseLogLine (ofString "type=" ++ typeName t ++ ofString " msg=" ++ (writtenHeader sec ms seq ++ ofString ": " ++ body)) =
      Res.ok { typ := t, sec := sec, nsec := ((ms * 1000000 : Nat) : Int), seq := seq,
               raw := trimSpace (writtenHeader sec ms seq ++ ofString ": " ++ body), offset := off } := by
  obtain ⟨rest', hk⟩ := trim_keeps_written_header sec ms seq (ofString ": " ++ body)
  rw [← List.append_assoc] at hk
  obtain ⟨off, h⟩ := C04_roundtrip_partial t sec ms seq body rest' ht hs hm hq hk
  exact ⟨off, rest', hk, h⟩

/-- text that starts with a non-space ASCII byte and ends with one is left alone by TrimSpace. -/
theorem C04_trim_keeps_header (a : Nat) (mid : Bytes) (z : Nat) (ha : a < 128) (ha' : isAsciiSpace a = false)
    (hz : z < 128) (hz' : isAsciiSpace z = false) : trimSpace (a :: (mid ++ [z])) = a :: (mid ++ [z]) := by
  have lead0 : ∀ (x : Nat) (r : Bytes), x < 128 → isAsciiSpace x = false → leadingSpaceLen (x :: r) = 0 := by
    intro x r hx hx'
    unfold leadingSpaceLen
    simp only [hx', Bool.false_eq_true, if_false]
    split
    all_goals first | rfl | omega | (rw [if_neg]; simp; omega)
  have trail0 : ∀ (x : Nat) (r : Bytes), x < 128 → isAsciiSpace x = false → trailingSpaceLenRev (x :: r) = 0 := by
    intro x r hx hx'
    unfold trailingSpaceLenRev
    simp only [hx', Bool.false_eq_true, if_false]
    split
    all_goals first | rfl | omega | (rw [if_neg]; simp; omega)
  have hl : trimLeftSpace (a :: (mid ++ [z])) = a :: (mid ++ [z]) := by
    simp [trimLeftSpace, trimLeftSpaceAux, lead0 a _ ha ha']
  have hr : trimRightSpace (a :: (mid ++ [z])) = a :: (mid ++ [z]) := by
    have hrev : (a :: (mid ++ [z])).reverse = z :: (mid.reverse ++ [a]) := by simp
    unfold trimRightSpace
    rw [hrev]
    simp only [List.length_cons, trimRightSpaceRevAux, trail0 z _ hz hz']
    simp
  unfold trimSpace
  rw [hl, hr]

/-- ToMapStr always reports record_type, sequence, raw_msg and @timestamp from the header,
whatever keys the parsed body contains (they are written after the copy). -/
theorem mget_mset_same (m : List (Bytes × MVal)) (k : Bytes) (v : MVal) : mget (mset m k v) k = some v := by
  unfold mset mget
  split
  · rename_i h
    induction m with
    | nil => simp at h
    | cons p m ih =>
      simp only [List.map_cons, List.find?_cons]
      by_cases hp : p.1 == k
      · simp [hp]
      · simp only [hp, Bool.false_eq_true, if_false]
        have : m.any (fun p => p.1 == k) = true := by simpa [hp] using h
        simpa [hp] using ih this
  · rename_i h
    have hn : ∀ p ∈ m, (p.1 == k) = false := by
      intro p hp
      cases hh : p.1 == k with
      | false => rfl
      | true => exact absurd (List.any_eq_true.mpr ⟨p, hp, hh⟩) h
    rw [List.find?_append]
    have : m.find? (fun p => p.1 == k) = none := List.find?_eq_none.mpr (fun p hp => by simp [hn p hp])
    simp [this]

theorem find_map_other (m : List (Bytes × MVal)) (k k' : Bytes) (v : MVal) (h : (k == k') = false) :
    (m.map (fun p => if (p.1 == k) = true then (k, v) else p)).find? (fun p => p.1 == k') =
      m.find? (fun p => p.1 == k') := by
  induction m with
  | nil => rfl
  | cons p m ih =>
    simp only [List.map_cons, List.find?_cons]
    by_cases hp : (p.1 == k) = true
    · have hpk' : (p.1 == k') = false := by rw [beq_iff_eq.mp hp]; exact h
      simp only [hp, if_true, h, hpk']
      exact ih
    · have hp' : (p.1 == k) = false := by simpa using hp
      simp only [hp', Bool.false_eq_true, if_false]
      cases p.1 == k' with
      | true => rfl
      | false => exact ih

theorem mget_mset_other (m : List (Bytes × MVal)) (k k' : Bytes) (v : MVal) (h : (k == k') = false) :
    mget (mset m k v) k' = mget m k' := by
  unfold mset mget
  split
  · rw [find_map_other m k k' v h]
  · rw [List.find?_append]
    cases hf : m.find? (fun p => p.1 == k') with
    | some q => simp
    | none => simp [h]

theorem C04_wellknown_keys (m : Msg) (d : DataOut) :
    mget (toMapStr m d) (ofString "record_type") = some (.str (typeName m.typ)) ∧
    mget (toMapStr m d) (ofString "sequence") = some (.str (dec m.seq)) ∧
    mget (toMapStr m d) (ofString "raw_msg") = some (.str m.raw) ∧
    mget (toMapStr m d) (ofString "@timestamp") = some (.timestamp m.sec m.nsec) := by
  have n1 : (ofString "@timestamp" == ofString "record_type") = false := by decide
  have n2 : (ofString "sequence" == ofString "record_type") = false := by decide
  have n3 : (ofString "raw_msg" == ofString "record_type") = false := by decide
  have n4 : (ofString "tags" == ofString "record_type") = false := by decide
  have n5 : (ofString "error" == ofString "record_type") = false := by decide
  have n6 : (ofString "raw_msg" == ofString "sequence") = false := by decide
  have n7 : (ofString "tags" == ofString "sequence") = false := by decide
  have n8 : (ofString "error" == ofString "sequence") = false := by decide
  have n9 : (ofString "tags" == ofString "raw_msg") = false := by decide
  have n10 : (ofString "error" == ofString "raw_msg") = false := by decide
  have n11 : (ofString "sequence" == ofString "@timestamp") = false := by decide
  have n12 : (ofString "raw_msg" == ofString "@timestamp") = false := by decide
  have n13 : (ofString "tags" == ofString "@timestamp") = false := by decide
  have n14 : (ofString "error" == ofString "@timestamp") = false := by decide
  unfold toMapStr
  simp only
  refine ⟨?_, ?_, ?_, ?_⟩ <;>
  · split <;> split <;>
      simp only [mget_mset_same, mget_mset_other _ _ _ _ n1, mget_mset_other _ _ _ _ n2, mget_mset_other _ _ _ _ n3,
        mget_mset_other _ _ _ _ n4, mget_mset_other _ _ _ _ n5, mget_mset_other _ _ _ _ n6, mget_mset_other _ _ _ _ n7,
        mget_mset_other _ _ _ _ n8, mget_mset_other _ _ _ _ n9, mget_mset_other _ _ _ _ n10, mget_mset_other _ _ _ _ n11,
        mget_mset_other _ _ _ _ n12, mget_mset_other _ _ _ _ n13, mget_mset_other _ _ _ _ n14]

/-- A malformed header yields an error and no message: when the separators '(' '.' ':' ')' do not
occur in this order, or one of the three numbers is not a valid int64 / int64 / uint32 decimal. -/
theorem C04_error_cases (line : Bytes) :
    (headerIdx line = none → parseAuditHeader line = Res.err "hdr") ∧
    (∀ pre S M N rest, (40 : Nat) ∉ pre → (46 : Nat) ∉ S → (58 : Nat) ∉ M → (41 : Nat) ∉ N →
      line = pre ++ 40 :: (S ++ 46 :: (M ++ 58 :: (N ++ 41 :: rest))) →
      headerNums S M N = none → parseAuditHeader line = Res.err "hdr") ∧
    (∀ c typ, parseAuditHeader (trimSpace line) = Res.err c → parse typ line = Res.err c) := by
  refine ⟨?_, ?_, ?_⟩
  · intro h; simp [parseAuditHeader, h]
  · intro pre S M N rest h1 h2 h3 h4 hl hn
    rw [hl, parseAuditHeader_decomp _ _ _ _ _ h1 h2 h3 h4, hn]
  · intro c typ h
    simp [parse, bind, Bind.bind, h]

/-- truncation before ')' is an error: if the line has no ')' at all, parsing fails. -/
theorem C04_truncated (line : Bytes) (h : (41 : Nat) ∉ line) : parseAuditHeader line = Res.err "hdr" := by
  apply (C04_error_cases line).1
  unfold headerIdx
  cases h1 : indexOf 40 line with
  | none => rfl
  | some a =>
    simp only
    cases h2 : indexOf 46 (line.drop a) with
    | none => rfl
    | some b =>
      simp only
      cases h3 : indexOf 58 (line.drop (a + b)) with
      | none => rfl
      | some c =>
        simp only
        cases h4 : indexOf 41 (line.drop (a + b + c)) with
        | none => rfl
        | some d =>
          exfalso
          obtain ⟨_, hd, _⟩ := indexOf_spec h4
          have : (41 : Nat) ∈ (line.drop (a + b + c)).drop d := by rw [hd]; simp
          exact h (List.mem_of_mem_drop (List.mem_of_mem_drop this))

/-- A line decomposes when it is cut at '(' '.' ':' ')' — the first '(' of the line, the first '.'
after it, the first ':' after that, the first ')' after that — into three digit strings that are a
valid int64, int64 and uint32. -/
def Decomposes (line : Bytes) (sec nsec : Int) (seq : Nat) (e : Int) : Prop :=
  ∃ pre S M N rest, (40 : Nat) ∉ pre ∧ (46 : Nat) ∉ S ∧ (58 : Nat) ∉ M ∧ (41 : Nat) ∉ N ∧
    line = pre ++ 40 :: (S ++ 46 :: (M ++ 58 :: (N ++ 41 :: rest))) ∧
    headerNums S M N = some (sec, nsec, seq) ∧
    e = ((pre.length + (1 + S.length) + (1 + M.length) + (1 + N.length) : Nat) : Int)

/-- success ⇔ decomposes (the direction `C04_error_cases` leaves open is the first one): the header
parser answers with numbers exactly when the line decomposes, and then with the numbers of the
decomposition and the position of its ')'. -/
theorem C04_success_iff_decomposes (line : Bytes) (sec nsec : Int) (seq : Nat) (e : Int) :
    parseAuditHeader line = Res.ok (sec, nsec, seq, e) ↔ Decomposes line sec nsec seq e := by
  constructor
  · exact parseAuditHeader_ok_decomp
  · rintro ⟨pre, S, M, N, rest, n1, n2, n3, n4, el, hn, he⟩
    rw [el, parseAuditHeader_decomp pre S M N rest n1 n2 n3 n4, hn, he]

/-- the header parser has three outcomes only, and the middle one is the error of the property:
numbers of a decomposition, or "hdr"; it never indexes out of range. -/
theorem C04_error_iff (line : Bytes) :
    parseAuditHeader line = Res.err "hdr" ↔ ¬ ∃ sec nsec seq e, Decomposes line sec nsec seq e := by
  constructor
  · rintro h ⟨sec, nsec, seq, e, hd⟩
    rw [(C04_success_iff_decomposes line sec nsec seq e).2 hd] at h
    cases h
  · intro h
    cases hp : parseAuditHeader line with
    | ok q =>
      obtain ⟨sec, nsec, seq, e⟩ := q
      exact absurd ⟨sec, nsec, seq, e, (C04_success_iff_decomposes line sec nsec seq e).1 hp⟩ h
    | panic => exact absurd hp (parseAuditHeader_no_panic line)
    | err c =>
      unfold parseAuditHeader at hp
      split at hp
      · cases hp; rfl
      · split at hp
        · split at hp
          · cases hp; rfl
          · cases hp
        · cases hp

/-- … and the same for `Parse` as a whole: a message comes back exactly when the trimmed text
decomposes; it then carries the given type, the trimmed text as RawData and the numbers of the
decomposition; otherwise the answer is the header error and no message. -/
theorem C04_parse_iff_decomposes (typ : Nat) (line : Bytes) :
    (∀ m, parse typ line = Res.ok m →
      m.typ = typ ∧ m.raw = trimSpace line ∧ ∃ e, Decomposes (trimSpace line) m.sec m.nsec m.seq e) ∧
    ((¬ ∃ sec nsec seq e, Decomposes (trimSpace line) sec nsec seq e) → parse typ line = Res.err "hdr") := by
  constructor
  · intro m hm
    unfold parse at hm
    cases hp : parseAuditHeader (trimSpace line) with
    | err c => simp [hp, bind, Bind.bind] at hm
    | panic => simp [hp, bind, Bind.bind] at hm
    | ok q =>
      obtain ⟨sec, nsec, seq, e⟩ := q
      have hd := (C04_success_iff_decomposes _ sec nsec seq e).1 hp
      simp only [hp, bind, Bind.bind] at hm
      cases hs : sliceFrom (trimSpace line) e with
      | err c => simp [hs] at hm
      | panic => simp [hs] at hm
      | ok tail =>
        simp only [hs, Res.ok.injEq] at hm
        subst hm
        exact ⟨rfl, rfl, e, hd⟩
  · intro h
    exact (C04_error_cases line).2.2 "hdr" typ ((C04_error_iff _).2 h)

/-- non-vacuity of `Decomposes`: the header every test log starts with. -/
example : Decomposes (ofString "audit(1490137971.011:50406): a=b") 1490137971 11000000 50406 26 :=
  ⟨ofString "audit", ofString "1490137971", ofString "011", ofString "50406", ofString ": a=b",
    by decide, by decide, by decide, by decide, by decide, by decide, by decide⟩

/-- the number a string of decimal digits denotes (no bound, no wrapping). -/
def digitsValue (bs : Bytes) : Nat := bs.foldl (fun a b => a * 10 + (b - 48)) 0

theorem parseDigits_value {bs : Bytes} {acc v : Nat} (h : parseDigits bs acc = some v) :
    (∀ b ∈ bs, isDigit b = true) ∧ v = bs.foldl (fun a b => a * 10 + (b - 48)) acc := by
  induction bs generalizing acc with
  | nil => simp [parseDigits] at h; simp [h]
  | cons x xs ih =>
    unfold parseDigits at h
    split at h
    · rename_i hx
      obtain ⟨h1, h2⟩ := ih h
      exact ⟨fun b hb => by rcases List.mem_cons.mp hb with rfl | hb; exact hx; exact h1 b hb, by simpa using h2⟩
    · simp at h

/-- **The sequence number of an accepted header is the number that was written.** Whatever header
the parser accepts, the text between ':' and ')' is a non-empty string of decimal digits, the
sequence number is the number those digits denote — as a natural number, not modulo anything — and
it fits in 32 bits. A digit string that denotes 2^32 or more (2^64 + 5, say, which is 5 modulo 2^64)
is a malformed header. -/
theorem C04_sequence_is_the_number_written (S M N : Bytes) (sec nsec : Int) (seq : Nat)
    (h : headerNums S M N = some (sec, nsec, seq)) :
    N ≠ [] ∧ (∀ b ∈ N, isDigit b = true) ∧ seq = digitsValue N ∧ seq < 2 ^ 32 := by
  unfold headerNums at h
  split at h
  · simp at h
  · split at h
    · simp at h
    · split at h
      · simp at h
      · rename_i q hq
        simp only [Option.some.injEq, Prod.mk.injEq] at h
        obtain ⟨_, _, rfl⟩ := h
        unfold parseUint at hq
        split at hq
        · simp at hq
        · rename_i hne
          split at hq
          · rename_i v hv
            split at hq
            · rename_i hle
              simp only [Option.some.injEq] at hq
              subst hq
              obtain ⟨h1, h2⟩ := parseDigits_value hv
              exact ⟨by intro hh; simp [hh] at hne, h1, h2, by omega⟩
            · simp at hq
          · simp at hq

example : headerNums (ofString "1490137971") (ofString "011") (ofString "18446744073709551621") = none := by
  decide +kernel

/-- non-vacuity: the hypotheses of the round trip hold for a concrete line. -/
example : trimSpace (writtenHeader 1490137971 11 50406 ++ ofString ": " ++ ofString "a=b") =
    writtenHeader 1490137971 11 50406 ++ ofString ": a=b" := by
  have := C04_trim_keeps_header 97 ((writtenHeader 1490137971 11 50406 ++ ofString ": a=").drop 1) 98
    (by decide) (by decide) (by decide) (by decide)
  simpa [writtenHeader, ofString] using this

end LA.Auparse

/-! ### the code keeps nothing between calls that the model does not have -/

/-- Outside `init`, no function of package auparse writes a package-level variable, hands the address of one to a function or calls a
sync/atomic method on one (regenerated list, see LA.Proofs.StateFacts): the parser is a function of its argument. -/
theorem C04_parser_keeps_nothing_between_calls : LA.StateFacts.ofPkg "auparse" = [] := by decide

/-- … and reads nothing of the process it runs in: package auparse calls no function of os, os/user, os/exec, net,
runtime, math/rand or crypto/rand, no time.Now / Since / Until, no file-system function of path/filepath and no
process query of syscall (`envReads`, regenerated with go/types on every run). What the parser answers is a function
of the bytes it is given — not of the machine's time zone, locale, user database, number of processors or files. -/
theorem C04_parser_reads_no_environment : LA.StateFacts.envOf "auparse" = [] := by decide
