/-
C09 — Coalescing keeps every record's fields, the event identity and file facts.

Theorems about `LA.Coalesce.coalesce` (Model/Coalesce.lean), for every table set `T`
(normalisations, syscall/record-type indexes, event-type ranges — the driver and the data
obligations instantiate `T` with the regenerated `genTables`), every list of message views
of any length and any field values.  Helper lemmas are in LA/Proofs/Coalesce*.lean.
-/
import LA.Proofs.CoalesceNorm

namespace LA.Coalesce

/-! ### statement vocabulary -/

/-- the pair `(k, v)` is present somewhere in the event: Data (also under `socket_`+k), user
ids, SELinux labels (`subj_`+label), Result, Session, some PATH record, `process.args[i]`
for `k = a<i>`, a `process.*` field for pid/ppid/proctitle/comm/exe/cwd, or the source address. -/
def Located (e : Event) (k v : Bytes) : Prop :=
  lookup k e.data = some v ∨ lookup (kSocket_ ++ k) e.data = some v ∨
  StableLoc e k v ∨ ArgsLoc e k v ∨ ProcLoc e k v ∨ (∃ a, e.source = some a ∧ a.ip = v)

/-- the groups the conservation clause is claimed for (`recs` = the records after the
trailing EOE has been dropped): every `Data()` result is a map; an EXECVE record carries
`argc`, `a0 … a(argc-1)` only; a group of two or more records has exactly one SYSCALL record
and at most one EXECVE record; and the SYSCALL record carries `items` (as every kernel
SYSCALL record does) unless no AVC/other record carries that key.  Mirrored by
`wellFormedC09` in harness/cmd/drive/coalesce.go. -/
structure WellFormed (recs : List View) : Prop where
  recOK : ∀ m ∈ recs, RecOK m
  oneSyscall : recs.length ≥ 2 → nSys recs = 1
  oneExecve : nExec recs ≤ 1
  items : recs.length ≥ 2 → ∀ s ∈ recs, s.typ = SYSCALL →
    (∃ d, s.data = some d ∧ hasKey kItems d = true) ∨
    (∀ m ∈ recs, IsOther m.typ → ∀ d, m.data = some d → lookup kItems d = none)

/-! ### constants the model shares with the Go sources (regenerated) -/

theorem C09_consts :
    SYSCALL = LA.Gen.CoalesceConsts.auditSyscall ∧ PATH = LA.Gen.CoalesceConsts.auditPath ∧
    SOCKADDR = LA.Gen.CoalesceConsts.auditSockaddr ∧ EXECVE = LA.Gen.CoalesceConsts.auditExecve ∧
    EOE = LA.Gen.CoalesceConsts.auditEOE ∧
    LA.Gen.CoalesceConsts.modeTypeBits = [19, 21, 24, 25, 26, 27, 31] ∧
    LA.Gen.CoalesceConsts.modeDirBit = 31 ∧ LA.Gen.CoalesceConsts.modeCharDeviceBit = 21 ∧
    LA.Gen.CoalesceConsts.modeNamedPipeBit = 25 ∧ LA.Gen.CoalesceConsts.modeSymlinkBit = 27 ∧
    LA.Gen.CoalesceConsts.modeSocketBit = 24 ∧ LA.Gen.CoalesceConsts.modeBlockDeviceBits = [13, 14] := by
  decide

/-! ### identity and errors -/

theorem assemble_ok_cases {T : Tables} {msgs : List View} {e0 : Event} (h : assemble T msgs = .ok e0) :
    (∃ m, filterEOE msgs = [m] ∧ e0 = newEvent T m m) ∨
    (∃ first second rest s, filterEOE msgs = first :: second :: rest ∧
      (first :: second :: rest).find? (fun v => decide (v.typ = SYSCALL)) = some s ∧
      e0 = (first :: second :: rest).foldl step (newEvent T first s)) := by
  unfold assemble at h
  cases hm : filterEOE msgs with
  | nil => rw [hm] at h; cases h
  | cons first rest =>
    cases rest with
    | nil =>
      rw [hm] at h
      simp only at h
      cases h
      exact Or.inl ⟨first, rfl, rfl⟩
    | cons second rest =>
      rw [hm] at h
      simp only at h
      split at h
      · cases h
      · rename_i s hs
        cases h
        exact Or.inr ⟨first, second, rest, s, rfl, hs, rfl⟩

theorem setObject_no_err (n : Norm) (e : Event) (x : CErr) : setObject n e ≠ .err x := by
  unfold setObject
  split
  · split
    · simp
    · split <;> simp
  · split <;> simp

theorem applyNorm_no_err (T : Tables) (e : Event) (x : CErr) : applyNorm T e ≠ .err x := by
  unfold applyNorm
  simp only
  split
  · simp
  · split
    · simp
    · rename_i y hy
      exact absurd hy (setObject_no_err _ _ _)
    · simp

theorem coalesce_ok_split {T : Tables} {msgs : List View} {e : Event} (h : coalesce T msgs = .ok e) :
    ∃ e0 e1, assemble T msgs = .ok e0 ∧ applyNorm T e0 = .ok e1 ∧ e = addProcess e1 := by
  unfold coalesce at h
  split at h
  · rename_i e0 h0
    split at h
    · rename_i e1 h1
      cases h
      exact ⟨e0, e1, h0, h1, rfl⟩
    · cases h
    · cases h
  · cases h
  · cases h

/-- The event carries the timestamp, sequence and record type of the first record (after
the trailing EOE is dropped) and the category `GetAuditEventType` gives that type. -/
theorem C09_identity (T : Tables) (msgs : List View) (e : Event) (h : coalesce T msgs = .ok e) :
    ∃ first rest, filterEOE msgs = first :: rest ∧
      e.ts = first.ts ∧ e.seq = first.seq ∧ e.typ = first.typ ∧ e.cat = categoryOf T first.typ := by
  obtain ⟨e0, e1, h0, h1, rfl⟩ := coalesce_ok_split h
  have hn := applyNorm_nframe T e0 e1 h1
  have key : ∃ first rest, filterEOE msgs = first :: rest ∧
      e0.ts = first.ts ∧ e0.seq = first.seq ∧ e0.typ = first.typ ∧ e0.cat = categoryOf T first.typ := by
    rcases assemble_ok_cases h0 with ⟨m, hm, rfl⟩ | ⟨first, second, rest, s, hm, _, rfl⟩
    · have := newEvent_identity T m m
      exact ⟨m, [], hm, this.1, this.2.1, this.2.2.1, this.2.2.2.1⟩
    · have := newEvent_identity T first s
      have hf := foldl_step_sframe (first :: second :: rest) (newEvent T first s)
      exact ⟨first, second :: rest, hm, hf.ts.trans this.1, hf.seq.trans this.2.1,
        hf.typ.trans this.2.2.1, hf.cat.trans this.2.2.2.1⟩
  obtain ⟨first, rest, hm, h1', h2', h3', h4'⟩ := key
  refine ⟨first, rest, hm, ?_, ?_, ?_, ?_⟩
  · show e1.ts = _; rw [hn.ts]; exact h1'
  · show e1.seq = _; rw [hn.seq]; exact h2'
  · show e1.typ = _; rw [hn.typ]; exact h3'
  · show e1.cat = _; rw [hn.cat]; exact h4'

/-- No records: an error and no event.  Two or more records without a SYSCALL record: an
error and no event.  And an error is returned in these two cases only. -/
theorem C09_errors (T : Tables) (msgs : List View) :
    (filterEOE msgs = [] → coalesce T msgs = .err .empty) ∧
    ((filterEOE msgs).length ≥ 2 → (∀ m ∈ filterEOE msgs, m.typ ≠ SYSCALL) →
      coalesce T msgs = .err .noSyscall) ∧
    (∀ x, coalesce T msgs = .err x →
      (x = .empty ∧ filterEOE msgs = []) ∨
      (x = .noSyscall ∧ (filterEOE msgs).length ≥ 2 ∧ ∀ m ∈ filterEOE msgs, m.typ ≠ SYSCALL)) := by
  refine ⟨?_, ?_, ?_⟩
  · intro h
    simp [coalesce, assemble, h]
  · intro hl hs
    unfold coalesce assemble
    cases hm : filterEOE msgs with
    | nil => rw [hm] at hl; simp at hl
    | cons first rest =>
      cases rest with
      | nil => rw [hm] at hl; simp at hl
      | cons second rest =>
        simp only
        have : (first :: second :: rest).find? (fun v => decide (v.typ = SYSCALL)) = none := by
          apply List.find?_eq_none.mpr
          intro x hx
          have := hs x (by rw [hm]; exact hx)
          simpa using this
        rw [this]
  · intro x h
    unfold coalesce at h
    cases ha : assemble T msgs with
    | ok e0 =>
      rw [ha] at h
      simp only at h
      cases hn : applyNorm T e0 with
      | ok e1 => rw [hn] at h; cases h
      | err y => exact absurd hn (applyNorm_no_err T e0 y)
      | panic => rw [hn] at h; cases h
    | panic => rw [ha] at h; cases h
    | err y =>
      rw [ha] at h
      cases h
      unfold assemble at ha
      cases hm : filterEOE msgs with
      | nil =>
        rw [hm] at ha
        cases ha
        exact Or.inl ⟨rfl, rfl⟩
      | cons first rest =>
        cases rest with
        | nil => rw [hm] at ha; cases ha
        | cons second rest =>
          rw [hm] at ha
          simp only at ha
          split at ha
          · rename_i hf
            cases ha
            right
            refine ⟨rfl, by simp, ?_⟩
            intro m hmem
            have := List.find?_eq_none.mp hf m hmem
            simpa using this
          · cases ha

/-! ### conservation -/

theorem socket_not_proc (k v : Bytes) (e : Event) : ¬ ProcLoc e (kSocket_ ++ k) v := by
  intro h
  rcases h with ⟨h, _⟩ | ⟨h, _⟩ | ⟨h, _⟩ | ⟨h, _⟩ | ⟨h, _⟩ | ⟨h, _⟩ <;>
    simp [kSocket_, kPid, kPpid, kProctitle, kComm, kExe, kCwd] at h

/-- what survives `applyNormalization` and `addProcess`. -/
theorem finish_located {T : Tables} {e0 e1 : Event} (h1 : applyNorm T e0 = .ok e1) (k v : Bytes) :
    (StableLoc e0 k v → Located (addProcess e1) k v) ∧
    (lookup k e0.data = some v → Located (addProcess e1) k v) ∧
    (lookup (kSocket_ ++ k) e0.data = some v → Located (addProcess e1) k v) ∧
    (ArgsLoc e0 k v → Located (addProcess e1) k v) ∧
    (∀ typ, Warned e0 typ k → Warned (addProcess e1) typ k) := by
  have hn := applyNorm_nframe T e0 e1 h1
  refine ⟨?_, ?_, ?_, ?_, ?_⟩
  · intro h
    refine Or.inr (Or.inr (Or.inl ?_))
    rcases h with h | ⟨hp, h⟩ | ⟨hk, h⟩ | ⟨hk, h⟩ | ⟨p, hp, h⟩
    · exact Or.inl (by show lookup k e1.ids = _; rw [hn.ids]; exact h)
    · exact Or.inr (Or.inl ⟨hp, by show lookup _ e1.selinux = _; rw [hn.selinux]; exact h⟩)
    · exact Or.inr (Or.inr (Or.inl ⟨hk, by show e1.result = _; rw [hn.result]; exact h⟩))
    · exact Or.inr (Or.inr (Or.inr (Or.inl ⟨hk, by show e1.session = _; rw [hn.session]; exact h⟩)))
    · exact Or.inr (Or.inr (Or.inr (Or.inr ⟨p, by show p ∈ e1.paths; rw [hn.paths]; exact hp, h⟩)))
  · intro h
    rcases hn.data k v h with h | ⟨a, ha, hv⟩
    · rcases addProcess_data e1 h with h | h
      · exact Or.inl h
      · exact Or.inr (Or.inr (Or.inr (Or.inr (Or.inl h))))
    · exact Or.inr (Or.inr (Or.inr (Or.inr (Or.inr ⟨a, ha, hv⟩))))
  · intro h
    rcases hn.data _ v h with h | ⟨a, ha, hv⟩
    · rcases addProcess_data e1 h with h | h
      · exact Or.inr (Or.inl h)
      · exact absurd h (socket_not_proc k v _)
    · exact Or.inr (Or.inr (Or.inr (Or.inr (Or.inr ⟨a, ha, hv⟩))))
  · intro ⟨i, hk, hi⟩
    exact Or.inr (Or.inr (Or.inr (Or.inl ⟨i, hk, by show e1.args[i]? = _; rw [hn.args]; exact hi⟩)))
  · intro typ h
    obtain ⟨w, hw⟩ := hn.warn
    have hm : ∀ x, x ∈ e0.warnings → x ∈ (addProcess e1).warnings := fun x hx => by
      show x ∈ e1.warnings; rw [hw]; exact List.mem_append_left _ hx
    rcases h with h | h | ⟨ht, h⟩ | ⟨ht, h | h | ⟨κ, h⟩⟩
    · exact Or.inl (hm _ h)
    · exact Or.inr (Or.inl (hm _ h))
    · exact Or.inr (Or.inr (Or.inl ⟨ht, hm _ h⟩))
    · exact Or.inr (Or.inr (Or.inr ⟨ht, Or.inl (hm _ h)⟩))
    · exact Or.inr (Or.inr (Or.inr ⟨ht, Or.inr (Or.inl (hm _ h))⟩))
    · exact Or.inr (Or.inr (Or.inr ⟨ht, Or.inr (Or.inr ⟨κ, hm _ h⟩)⟩))

theorem safeNA_finish {T : Tables} {e0 e1 : Event} (h1 : applyNorm T e0 = .ok e1) {typ : Nat} {k v : Bytes}
    (h : SafeNA e0 typ k v) : Located (addProcess e1) k v ∨ Warned (addProcess e1) typ k := by
  have f := finish_located h1 k v
  rcases h with h | h | ⟨_, h⟩ | h
  · exact Or.inl (f.1 h)
  · exact Or.inr (f.2.2.2.2 typ h)
  · exact Or.inl (f.2.1 h)
  · exact Or.inl (f.2.2.1 h)

theorem unique_syscall {recs : List View} (h : nSys recs = 1) {m s : View} (hm : m ∈ recs) (hs : s ∈ recs)
    (hmt : m.typ = SYSCALL) (hst : s.typ = SYSCALL) : m = s := by
  induction recs with
  | nil => cases hm
  | cons x tl ih =>
    rw [nSys_cons] at h
    by_cases hx : x.typ = SYSCALL
    · simp only [hx, if_true] at h
      have h0 : nSys tl = 0 := by omega
      have hz := nSys_zero h0
      rcases List.mem_cons.mp hm with rfl | hm'
      · rcases List.mem_cons.mp hs with rfl | hs'
        · rfl
        · exact absurd hst (hz s hs')
      · exact absurd hmt (hz m hm')
    · simp only [hx, if_false] at h
      rcases List.mem_cons.mp hm with rfl | hm'
      · exact absurd hmt hx
      · rcases List.mem_cons.mp hs with rfl | hs'
        · exact absurd hst hx
        · exact ih (by omega) hm' hs'

theorem items_routed : ∀ (e : Event) (v : Bytes), Routed e kItems v → lookup kItems e.data = some v := by
  intro e v h
  unfold Routed at h
  have h1 : ¬ (kItems = kResult ∨ kItems = kSes) := by decide
  have h2 : isIdKey kItems = false := by decide
  have h3 : hasPrefix kSubj_ kItems = false := by decide
  simpa [h1, h2, h3] using h

theorem newEvent_routed (T : Tables) (first src : View) {d : KV} (hd : src.data = some d) (hn : NoDupKeys d)
    {k v : Bytes} (h : (k, v) ∈ d) : Routed (newEvent T first src) k v := by
  unfold newEvent
  rw [hd]
  exact foldl_distribute_routes d _ hn h

/-- **Conservation.**  For a well-formed group, every key/value pair that any record's
`Data()` reports is present somewhere in the event, or a warning naming the record type and
the key (or the record as a whole) is attached; the only pair dropped on purpose is `items`
of the SYSCALL record of a compound event. -/
theorem C09_conservation (T : Tables) (msgs : List View) (e : Event)
    (hwf : WellFormed (filterEOE msgs)) (h : coalesce T msgs = .ok e) :
    ∀ m ∈ filterEOE msgs, ∀ d, m.data = some d → ∀ k v, (k, v) ∈ d →
      Located e k v ∨ Warned e m.typ k ∨
      ((filterEOE msgs).length ≥ 2 ∧ m.typ = SYSCALL ∧ k = kItems) := by
  obtain ⟨e0, e1, h0, h1, rfl⟩ := coalesce_ok_split h
  intro m hm d hd k v hkv
  have hok := hwf.recOK m hm
  have f := finish_located h1 k v
  rcases assemble_ok_cases h0 with ⟨m', hm', rfl⟩ | ⟨first, second, rest, s, hrecs, hs, rfl⟩
  · -- a single record
    rw [hm'] at hm
    have : m = m' := by simpa using hm
    subst this
    rcases newEvent_kept T m m hd (hok.nodup d hd) hkv with hst | ⟨_, hl⟩
    · exact Or.inl (f.1 hst)
    · exact Or.inl (f.2.1 hl)
  · -- a compound event
    rw [hrecs] at hm hwf
    have hlen : (first :: second :: rest).length ≥ 2 := by simp
    have hns := hwf.oneSyscall hlen
    have hsm : s ∈ first :: second :: rest := List.mem_of_find?_eq_some hs
    have hst : s.typ = SYSCALL := by simpa using List.find?_some hs
    have hfr := foldl_step_sframe (first :: second :: rest) (newEvent T first s)
    by_cases hmt : m.typ = SYSCALL
    · -- the SYSCALL record: routed by newEvent
      have : m = s := unique_syscall hns hm hsm hmt hst
      subst this
      by_cases hk : k = kItems
      · right; right
        rw [hrecs]
        exact ⟨hlen, hmt, hk⟩
      · rcases newEvent_kept T first m hd (hok.nodup d hd) hkv with hst' | ⟨_, hl⟩
        · exact Or.inl (f.1 (hst'.mono hfr))
        · exact Or.inl (f.2.1 (hfr.data k v (Or.inl hk) hl))
    · -- any other record: kept by the loop
      have hI : nSys (first :: second :: rest) = 1 →
          hasKey kItems (newEvent T first s).data = true ∨
          ∀ m ∈ first :: second :: rest, IsOther m.typ → ∀ d, m.data = some d → lookup kItems d = none := by
        intro _
        rcases hwf.items hlen s hsm hst with ⟨ds, hds, hi⟩ | hno
        · left
          obtain ⟨iv, hiv⟩ := hasKey_iff.mp hi
          have hr := newEvent_routed T first s hds ((hwf.recOK s hsm).nodup ds hds) (lookup_mem hiv)
          exact hasKey_iff.mpr ⟨iv, items_routed _ _ hr⟩
        · exact Or.inr hno
      rcases fold_kept (first :: second :: rest) (newEvent T first s) (by omega) hwf.oneExecve hI
        hwf.recOK m hm hmt d hd k v hkv with hsafe | hargs | hl
      · rcases safeNA_finish h1 hsafe with h' | h'
        · exact Or.inl h'
        · exact Or.inr (Or.inl h')
      · exact Or.inl (f.2.2.2.1 hargs)
      · exact Or.inl (f.2.1 hl)

/-- The `items` hypothesis of `WellFormed` cannot be dropped: if the SYSCALL record has no
`items` key, an `items` pair contributed by an earlier record is deleted without a warning
(the SYSCALL case of the record loop deletes the key unconditionally). -/
def C09_conservation_without_items_guard : Prop :=
  ∀ (T : Tables) (msgs : List View) (e : Event), coalesce T msgs = .ok e →
    ∀ m ∈ filterEOE msgs, ∀ d, m.data = some d → ∀ k v, (k, v) ∈ d →
      Located e k v ∨ Warned e m.typ k ∨ ((filterEOE msgs).length ≥ 2 ∧ m.typ = SYSCALL ∧ k = kItems)

/-! ### PATH records, file facts -/

theorem step_paths (e : Event) (m : View) :
    (step e m).paths = e.paths ++ (if m.typ = PATH then m.data.toList else []) := by
  unfold step
  by_cases h1 : m.typ = SYSCALL
  · have hsp : SYSCALL ≠ PATH := by decide
    simp [h1, hsp]
  · simp only [h1, if_false]
    by_cases h2 : m.typ = PATH
    · simp only [h2, if_true]
      unfold addPath
      cases m.data <;> simp [warn]
    · simp only [h2, if_false, List.append_nil]
      by_cases h3 : m.typ = SOCKADDR
      · simp only [h3, if_true]
        obtain ⟨x, hx⟩ := (addSockaddr_sframe True True m e).paths
        -- addSockaddr never appends a path
        unfold addSockaddr
        cases m.data with
        | none => simp [warn]
        | some d =>
          simp only
          cases lookup kSyscall e.data with
          | none => simp [warn]
          | some sc =>
            simp only
            have hp : ∀ (l : KV) (e : Event),
                (l.foldl (fun e kv => addField m.typ e (kSocket_ ++ kv.1, kv.2)) e).paths = e.paths := by
              intro l
              induction l with
              | nil => intro e; rfl
              | cons y l ih =>
                intro e
                simp only [List.foldl_cons, ih]
                unfold addField
                split <;> simp [warn]
            split
            · exact hp d e
            · split
              · exact hp d e
              · exact hp d e
      · simp only [h3, if_false]
        by_cases h4 : m.typ = EXECVE
        · simp only [h4, if_true]
          unfold addExecve
          have hf : ∀ (e : Event) (kv : Bytes × Bytes), (addField m.typ e kv).paths = e.paths := by
            intro e kv; unfold addField; split <;> simp [warn]
          cases m.data with
          | none => simp [warn]
          | some d =>
            simp only
            cases lookup kArgc d with
            | none => simp [warn]
            | some argc =>
              simp only
              cases parseUint 10 32 argc with
              | none => simp [warn, hf]
              | some n =>
                simp only
                cases collectArgs d n 0 <;> simp [warn, hf]
        · simp only [h4, if_false]
          unfold addOther
          cases m.data with
          | none => simp [warn]
          | some d =>
            simp only
            have hp : ∀ (l : KV) (e : Event), (l.foldl (addField m.typ) e).paths = e.paths := by
              intro l
              induction l with
              | nil => intro e; rfl
              | cons y l ih =>
                intro e
                simp only [List.foldl_cons, ih]
                unfold addField
                split <;> simp [warn]
            exact hp d e

theorem foldl_step_paths (recs : List View) (e : Event) :
    (recs.foldl step e).paths =
      e.paths ++ (recs.filter (fun m => decide (m.typ = PATH))).flatMap (fun m => m.data.toList) := by
  induction recs generalizing e with
  | nil => simp
  | cons m tl ih =>
    simp only [List.foldl_cons, ih, step_paths, List.filter_cons]
    by_cases h : m.typ = PATH <;> simp [h]

/-- `event.Paths` is exactly the `Data()` maps of the PATH records that parsed, in record
order (compound events; a single record yields no paths). -/
theorem C09_paths (T : Tables) (msgs : List View) (e : Event) (h : coalesce T msgs = .ok e) :
    e.paths = if (filterEOE msgs).length ≥ 2 then
      ((filterEOE msgs).filter (fun m => decide (m.typ = PATH))).flatMap (fun m => m.data.toList) else [] := by
  obtain ⟨e0, e1, h0, h1, rfl⟩ := coalesce_ok_split h
  have hn := applyNorm_nframe T e0 e1 h1
  show e1.paths = _
  rw [hn.paths]
  rcases assemble_ok_cases h0 with ⟨m, hm, rfl⟩ | ⟨first, second, rest, s, hm, _, rfl⟩
  · rw [hm]; simp [(newEvent_identity T m m).2.2.2.2.1]
  · rw [hm, foldl_step_paths, (newEvent_identity T first s).2.2.2.2.1]
    simp

/-- what `setFileObject` derives from the PATH record `p` it selected. -/
def FileMirrors (e : Event) (objectWhat : Bytes) (p : KV) : Prop :=
  ∃ f, e.file = some f ∧ f.path = getD kName p ∧ f.inode = getD kInode p ∧ f.device = getD kRdev p ∧
    f.owner = [] ∧ f.group = [] ∧
    match lookup kMode p with
    | none =>
      f.mode = [] ∧ f.uid = getD kOuid p ∧ f.gid = getD kOgid p ∧ f.selinux = objLabels p ∧
      e.objType = objectWhat
    | some mv =>
      match parseUint 8 64 mv with
      | none =>
        f.mode = [] ∧ f.uid = [] ∧ f.gid = [] ∧ f.selinux = [] ∧ Warn.fileObj ∈ e.warnings ∧
        e.objType = objectWhat
      | some n =>
        f.mode = oct4 (n % 4096) ∧ f.uid = getD kOuid p ∧ f.gid = getD kOgid p ∧ f.selinux = objLabels p ∧
        e.objType = classifyMode (n % 4294967296) objectWhat

theorem fileFromPath_mirrors (e : Event) (p : KV) : FileMirrors (fileFromPath e p) e.objType p := by
  have hmod : ∀ n : Nat, n % 4294967296 % 4096 = n % 4096 := fun n => by omega
  unfold FileMirrors fileFromPath
  simp only
  cases hn : lookup kName p <;> cases hm : lookup kMode p <;> simp only
  · exact ⟨_, rfl, by simp⟩
  · cases hp : parseUint 8 64 _ with
    | none => exact ⟨_, rfl, by simp [warn]⟩
    | some n => exact ⟨_, rfl, by simp [hmod]⟩
  · exact ⟨_, rfl, by simp⟩
  · cases hp : parseUint 8 64 _ with
    | none => exact ⟨_, rfl, by simp [warn]⟩
    | some n => exact ⟨_, rfl, by simp [hmod]⟩

/-- **File facts.**  When the normalisation chosen for the event describes a file or
filesystem object and the event has PATH records, `setFileObject` selects the record
`selectPath` names (never out of range here) and the file summary mirrors it: path, inode,
device (`rdev`), owner ids, SELinux labels (`obj_*`), the permission bits `mode & 07777`
printed as four octal digits — for **every** mode value that parses — and the object type
`classifyMode` gives the mode (see `C09_type_*`). -/
theorem C09_file (T : Tables) (msgs : List View) (e e0 : Event) (ni : Nat)
    (h : coalesce T msgs = .ok e) (h0 : assemble T msgs = .ok e0)
    (hsel : selectNorm T (setHowDefaults e0) = some ni)
    (hwhat : (normAt T ni).objectWhat = vFile ∨ (normAt T ni).objectWhat = vFilesystem)
    (hpaths : e0.paths ≠ []) :
    ∃ p, selectPath e0.paths (normAt T ni).objectPathIndex = some p ∧
      FileMirrors e (normAt T ni).objectWhat p := by
  obtain ⟨e0', e1, h0', h1, rfl⟩ := coalesce_ok_split h
  rw [h0] at h0'; cases h0'
  unfold applyNorm at h1
  simp only [hsel] at h1
  split at h1
  · rename_i e2 h2
    cases h1
    have hp2 : (setEcs T ni (syscallNormOf T (setHowDefaults e0)) (setHowDefaults e0)).paths = e0.paths :=
      ((setHowDefaults_nframe e0).trans (setEcs_nframe T ni _ _)).paths
    have hot : (setEcs T ni (syscallNormOf T (setHowDefaults e0)) (setHowDefaults e0)).objType =
        (normAt T ni).objectWhat := by
      unfold setEcs; simp only
    unfold setObject at h2
    simp only [hwhat, if_true, hp2, hpaths, if_false] at h2
    split at h2
    · cases h2
    · rename_i p hp
      cases h2
      refine ⟨p, hp, ?_⟩
      have hm := fileFromPath_mirrors (setEcs T ni (syscallNormOf T (setHowDefaults e0)) (setHowDefaults e0)) p
      rw [hot] at hm
      generalize fileFromPath (setEcs T ni (syscallNormOf T (setHowDefaults e0)) (setHowDefaults e0)) p = ef at hm ⊢
      have ht : TFrame ef (addProcess (applyTail (normAt T ni) ef)) :=
        (applyTail_tframe (normAt T ni) ef).trans (addProcess_tframe _)
      have hn := applyTail_nframe (normAt T ni) ef
      obtain ⟨f, hf, h1', h2', h3', h4', h5', hrest⟩ := hm
      refine ⟨f, by rw [ht.file]; exact hf, h1', h2', h3', h4', h5', ?_⟩
      obtain ⟨w, hw⟩ := hn.warn
      cases hmode : lookup kMode p with
      | none =>
        rw [hmode] at hrest
        simp only at hrest ⊢
        exact ⟨hrest.1, hrest.2.1, hrest.2.2.1, hrest.2.2.2.1, by rw [ht.objType]; exact hrest.2.2.2.2⟩
      | some mv =>
        rw [hmode] at hrest
        simp only at hrest ⊢
        cases hpm : parseUint 8 64 mv with
        | none =>
          rw [hpm] at hrest
          simp only at hrest ⊢
          refine ⟨hrest.1, hrest.2.1, hrest.2.2.1, hrest.2.2.2.1, ?_, by rw [ht.objType]; exact hrest.2.2.2.2.2⟩
          show Warn.fileObj ∈ (applyTail _ _).warnings
          rw [hw]; exact List.mem_append_left _ hrest.2.2.2.2.1
        | some n =>
          rw [hpm] at hrest
          simp only at hrest ⊢
          exact ⟨hrest.1, hrest.2.1, hrest.2.2.1, hrest.2.2.2.1, by rw [ht.objType]; exact hrest.2.2.2.2⟩
  · cases h1
  · cases h1

/-! ### object type -/

/-- the object type the property asks for, from the file-type bits `mode & 0170000`. -/
def specType (n : Nat) : Option Bytes :=
  let t := n / 4096 % 16
  if t = 8 then some vFile
  else if t = 4 then some vDirectory
  else if t = 2 then some vCharDevice
  else if t = 6 then some vBlockDevice
  else if t = 1 then some vNamedPipe
  else if t = 10 then some vSymlink
  else if t = 12 then some vSocket
  else none

/-- the full statement: for every st_mode the object type agrees with the file-type bits.
False of the code as it is (known finding KF-C09-objtype). -/
def C09_type_full : Prop :=
  ∀ (n : Nat) (cur t : Bytes), n < 65536 → specType n = some t → classifyMode n cur = t

/-- mode 040755 (a directory) is classified `file`. -/
theorem C09_type_counterexample : ¬ C09_type_full := by
  intro h
  have := h 16877 [] vDirectory (by decide) (by decide)
  revert this
  decide

/-- what does hold: every st_mode value (all 2^16) is classified `file`, because
`os.FileMode` keeps its type bits at positions ≥ 19 — so the object type agrees with the
file-type bits exactly for regular files (S_IFREG).  Missing w.r.t. `C09_type_full`:
directories, character/block devices, named pipes, symlinks and sockets. -/
theorem C09_type_partial (n : Nat) (cur : Bytes) (hn : n < 65536) :
    classifyMode n cur = vFile ∧ (specType n = some vFile → classifyMode n cur = vFile) := by
  have hb : ∀ i, 16 ≤ i → n.testBit i = false := by
    intro i hi
    apply Nat.testBit_lt_two_pow
    calc n < 65536 := hn
      _ = 2 ^ 16 := by decide
      _ ≤ 2 ^ i := Nat.pow_le_pow_right (by omega) hi
  have : classifyMode n cur = vFile := by
    unfold classifyMode
    simp [hb 19 (by decide), hb 21 (by decide), hb 24 (by decide), hb 25 (by decide), hb 26 (by decide),
      hb 27 (by decide), hb 31 (by decide)]
  exact ⟨this, fun _ => this⟩

/-! ### non-vacuity, and the corner the `items` hypothesis excludes -/

/-- a one-entry table set for the examples (the theorems above hold for every `T`). -/
def toyNorm : Norm :=
  { (default : Norm) with action := b! "opened-file", objectWhat := vFile, ecsCategory := [b! "file"], catCap := 1 }
def toyT : Tables :=
  { norms := [toyNorm], syscalls := [(b! "open", 0)], recordTypes := [], ranges := [(1300, 1399, 15)], defaultCat := 0 }

def exSys : View := { typ := 1300, seq := 7, ts := 1000, tags := [b! "k"], data := some [(kSyscall, b! "open"), (kItems, b! "1"), (b! "uid", b! "0"), (kResult, b! "success"), (kPid, b! "42")] }
def exCwd : View := { typ := 1307, seq := 7, ts := 1000, tags := [], data := some [(kCwd, b! "/"), (kPid, b! "43")] }
def exExecve : View := { typ := 1309, seq := 7, ts := 1000, tags := [], data := some [(kArgc, b! "1"), (b! "a0", b! "ls")] }
def exPath : View := { typ := 1302, seq := 7, ts := 1000, tags := [], data := some [(kName, b! "/tmp"), (kMode, b! "040755"), (kOuid, b! "0")] }
def exEOE : View := { typ := 1320, seq := 7, ts := 1000, tags := [], data := none }
/-- SYSCALL group with colliding `pid`, an EXECVE record, a directory PATH record, trailing EOE. -/
def exMsgs : List View := [exSys, exCwd, exExecve, exPath, exEOE]

/-- the hypotheses of `C09_conservation` are satisfiable by a non-trivial group … -/
example : WellFormed (filterEOE exMsgs) := by
  have hf : filterEOE exMsgs = [exSys, exCwd, exExecve, exPath] := by decide +kernel
  rw [hf]
  refine ⟨?_, fun _ => by decide +kernel, by decide +kernel, ?_⟩
  · intro m hm
    simp only [List.mem_cons, List.not_mem_nil, or_false] at hm
    rcases hm with rfl | rfl | rfl | rfl
    · exact ⟨fun d hd => by cases hd; decide +kernel, fun h => absurd h (by decide)⟩
    · exact ⟨fun d hd => by cases hd; decide +kernel, fun h => absurd h (by decide)⟩
    · refine ⟨fun d hd => by cases hd; decide +kernel, fun _ d hd argc n ha hp k hk => ?_⟩
      cases hd
      have hargc : argc = b! "1" := by
        have : lookup kArgc [(kArgc, b! "1"), (b! "a0", b! "ls")] = some (b! "1") := by decide +kernel
        rw [this] at ha; cases ha; rfl
      subst hargc
      have hn : n = 1 := by
        have : parseUint 10 32 (b! "1") = some 1 := by decide +kernel
        rw [this] at hp; cases hp; rfl
      subst hn
      simp only [keys, List.map_cons, List.map_nil, List.mem_cons, List.not_mem_nil, or_false] at hk
      rcases hk with rfl | rfl
      · exact Or.inl rfl
      · exact Or.inr ⟨0, by decide, by decide +kernel⟩
    · exact ⟨fun d hd => by cases hd; decide +kernel, fun h => absurd h (by decide)⟩
  · intro _ s hs hst
    left
    simp only [List.mem_cons, List.not_mem_nil, or_false] at hs
    rcases hs with rfl | rfl | rfl | rfl
    · exact ⟨_, rfl, by decide +kernel⟩
    · exact absurd hst (by decide)
    · exact absurd hst (by decide)
    · exact absurd hst (by decide)

/-- … on which the model returns an event: identity of the first record, the colliding
`pid` of the CWD record warned about, the first `pid` moved to `process.pid`, the args kept,
the directory's mode printed as `0755` — and its object type `file` (the known finding). -/
example : (match coalesce toyT exMsgs with
    | .ok e =>
      decide (e.seq = 7 ∧ e.ts = 1000 ∧ e.typ = 1300 ∧ e.cat = 15) &&
      decide (Warn.dupKey kPid 1307 ∈ e.warnings) && decide (e.pid = b! "42") &&
      decide (e.args = [b! "ls"]) && decide (e.paths.length = 1) &&
      decide (e.file.map (·.mode) = some (b! "0755")) && decide (e.file.map (·.path) = some (b! "/tmp")) &&
      decide (e.objType = vFile) && decide (lookup kItems e.data = none)
    | _ => false) = true := by decide +kernel

/-- the hypotheses of `C09_file` are satisfiable. -/
example : ∃ e0, assemble toyT exMsgs = .ok e0 ∧ selectNorm toyT (setHowDefaults e0) = some 0 ∧
    (normAt toyT 0).objectWhat = vFile ∧ e0.paths ≠ [] := by
  refine ⟨((filterEOE exMsgs).foldl step (newEvent toyT exSys exSys)), by decide +kernel, by decide +kernel,
    by decide +kernel, by decide +kernel⟩

/-- errors: an empty group and a two-record group without SYSCALL. -/
example : coalesce toyT [] = .err .empty ∧ coalesce toyT [exEOE] = .err .empty ∧
    coalesce toyT [exCwd, exPath] = .err .noSyscall := by decide +kernel

def ctrAvc : View := { typ := 1400, seq := 1, ts := 1, tags := [], data := some [(kItems, b! "5")] }
def ctrSys : View := { typ := 1300, seq := 1, ts := 1, tags := [], data := some [(kSyscall, b! "open")] }
def ctrEvent : Event :=
  { ts := 1, seq := 1, cat := 0, typ := 1400, result := vUnknown, data := [(kSyscall, b! "open")],
    warnings := [Warn.noNorm] }

/-- Without the `items` hypothesis conservation fails: an AVC record's `items=5` ahead of a
SYSCALL record that has no `items` key is added to Data and then deleted by the SYSCALL case
of the loop, with no warning.  (No kernel SYSCALL record lacks `items`; reported as an
observation, see design_notes/coalesce.md.) -/
theorem C09_conservation_items_counterexample : ¬ C09_conservation_without_items_guard := by
  intro h
  have he : coalesce toyT [ctrAvc, ctrSys] = .ok ctrEvent := by decide +kernel
  have hmem : ctrAvc ∈ filterEOE [ctrAvc, ctrSys] := by decide +kernel
  rcases h toyT _ _ he ctrAvc hmem _ rfl kItems (b! "5") (by simp) with hl | hw | ⟨_, ht, _⟩
  · rcases hl with h | h | h | ⟨i, _, hi⟩ | h | ⟨a, ha, _⟩
    · revert h; decide +kernel
    · revert h; decide +kernel
    · rcases h with h | ⟨_, h⟩ | ⟨h, _⟩ | ⟨h, _⟩ | ⟨p, hp, _⟩
      · revert h; decide +kernel
      · revert h; decide +kernel
      · revert h; decide +kernel
      · revert h; decide +kernel
      · simp [ctrEvent] at hp
    · simp [ctrEvent] at hi
    · rcases h with ⟨h, _⟩ | ⟨h, _⟩ | ⟨h, _⟩ | ⟨h, _⟩ | ⟨h, _⟩ | ⟨h, _⟩ <;> revert h <;> decide +kernel
    · simp [ctrEvent] at ha
  · rcases hw with h | h | ⟨h, _⟩ | ⟨h, _⟩
    · revert h; decide +kernel
    · revert h; decide +kernel
    · revert h; decide +kernel
    · revert h; decide +kernel
  · revert ht; decide +kernel

end LA.Coalesce
