/-
C09 — Coalescing keeps every record's fields, the event identity and file facts.

Theorems about `LA.Coalesce.coalesce` (Model/Coalesce.lean), for every table set `T`
(normalisations, syscall/record-type indexes, event-type ranges — the driver and the data
obligations instantiate `T` with the regenerated `genTables`), every list of message views
of any length and any field values.  Helper lemmas are in LA/Proofs/Coalesce*.lean.
-/
import LA.Proofs.CoalesceMain
import LA.Proofs.StateFacts

namespace LA.Coalesce

/-! ### statement vocabulary -/

/-- the groups the conservation clause is claimed for (`recs` = the records after the
trailing EOE has been dropped): every `Data()` result is a map; an EXECVE record carries
`argc`, `a0 … a(argc-1)` only; a group of two or more records has exactly one SYSCALL record
and at most one EXECVE record; and the SYSCALL record carries `items` (as every kernel
SYSCALL record does) unless no AVC/other record carries that key.  Mirrored by
`wellFormedC09` in harness/cmd/drive/coalesce.go. -/
structure WellFormed (recs : List View) : Prop where
  recOK : ∀ m ∈ recs, RecOK m
  oneSyscall : recs.length ≥ 2 → nSys recs = 1
  oneExecve : nExec recs ≤ 1
  items : recs.length ≥ 2 → ∀ s ∈ recs, s.typ = SYSCALL →
    (∃ d, s.data = some d ∧ hasKey kItems d = true) ∨
    (∀ m ∈ recs, IsOther m.typ → ∀ d, m.data = some d → lookup kItems d = none)

/-- `Located e k v` (Proofs/CoalesceMain.lean), spelled out: the pair is in Data (also under
`socket_`+k), the user ids, the SELinux labels (`subj_`+label), Result, Session, some PATH
record, `process.args[i]` for `k = a<i>`, a `process.*` field for
pid/ppid/proctitle/comm/exe/cwd, or it is the source address. -/
theorem C09_located_iff (e : Event) (k v : Bytes) :
    Located e k v ↔
      (lookup k e.data = some v ∨ lookup (kSocket_ ++ k) e.data = some v ∨
       (lookup k e.ids = some v ∨ (hasPrefix kSubj_ k = true ∧ lookup (k.drop 5) e.selinux = some v) ∨
        (k = kResult ∧ e.result = v) ∨ (k = kSes ∧ e.session = v) ∨ (∃ p ∈ e.paths, (k, v) ∈ p)) ∨
       (∃ i, k = argKey i ∧ e.args[i]? = some v) ∨
       ((k = kPid ∧ e.pid = v) ∨ (k = kPpid ∧ e.ppid = v) ∨ (k = kProctitle ∧ e.title = v) ∨
        (k = kComm ∧ e.pname = v) ∨ (k = kExe ∧ e.exe = v) ∨ (k = kCwd ∧ e.cwd = v)) ∨
       (∃ a, e.source = some a ∧ a.ip = v)) := Iff.rfl

/-- `Warned e typ k` (Proofs/CoalesceSteps.lean), spelled out: a duplicate-key warning for
`k` (or `socket_`+k) from a record of type `typ`, or — for a SOCKADDR record — the "syscall
is unknown" warning, or — for an EXECVE record — one of its argc/arg warnings. -/
theorem C09_warned_iff (e : Event) (typ : Nat) (k : Bytes) :
    Warned e typ k ↔
      (Warn.dupKey k typ ∈ e.warnings ∨ Warn.dupKey (kSocket_ ++ k) typ ∈ e.warnings ∨
       (typ = SOCKADDR ∧ Warn.sockaddrNoSyscall ∈ e.warnings) ∨
       (typ = EXECVE ∧ (Warn.noArgc ∈ e.warnings ∨ Warn.badArgc ∈ e.warnings ∨ ∃ κ, Warn.noArg κ ∈ e.warnings))) :=
  Iff.rfl

/-! ### constants the model shares with the Go sources (regenerated) -/

theorem C09_consts :
    SYSCALL = LA.Gen.CoalesceConsts.auditSyscall ∧ PATH = LA.Gen.CoalesceConsts.auditPath ∧
    SOCKADDR = LA.Gen.CoalesceConsts.auditSockaddr ∧ EXECVE = LA.Gen.CoalesceConsts.auditExecve ∧
    EOE = LA.Gen.CoalesceConsts.auditEOE ∧
    LA.Gen.CoalesceConsts.modeTypeBits = [19, 21, 24, 25, 26, 27, 31] ∧
    LA.Gen.CoalesceConsts.modeDirBit = 31 ∧ LA.Gen.CoalesceConsts.modeCharDeviceBit = 21 ∧
    LA.Gen.CoalesceConsts.modeNamedPipeBit = 25 ∧ LA.Gen.CoalesceConsts.modeSymlinkBit = 27 ∧
    LA.Gen.CoalesceConsts.modeSocketBit = 24 ∧ LA.Gen.CoalesceConsts.modeBlockDeviceBits = [13, 14] := by
  decide

/-! ### identity and errors -/

/-- The event carries the timestamp, sequence and record type of the first record (after
the trailing EOE is dropped) and the category `GetAuditEventType` gives that type. -/
theorem C09_identity (T : Tables) (msgs : List View) (e : Event) (h : coalesce T msgs = .ok e) :
    ∃ first rest, filterEOE msgs = first :: rest ∧
      e.ts = first.ts ∧ e.seq = first.seq ∧ e.typ = first.typ ∧ e.cat = categoryOf T first.typ := by
  obtain ⟨e0, e1, h0, h1, rfl⟩ := coalesce_ok_split h
  have hn := applyNorm_nframe T e0 e1 h1
  have key : ∃ first rest, filterEOE msgs = first :: rest ∧
      e0.ts = first.ts ∧ e0.seq = first.seq ∧ e0.typ = first.typ ∧ e0.cat = categoryOf T first.typ := by
    rcases assemble_ok_cases h0 with ⟨m, hm, rfl⟩ | ⟨first, second, rest, s, hm, _, rfl⟩
    · have := newEvent_identity T m m
      exact ⟨m, [], hm, this.1, this.2.1, this.2.2.1, this.2.2.2.1⟩
    · have := newEvent_identity T first s
      have hf := foldl_step_sframe (first :: second :: rest) (newEvent T first s)
      exact ⟨first, second :: rest, hm, hf.ts.trans this.1, hf.seq.trans this.2.1,
        hf.typ.trans this.2.2.1, hf.cat.trans this.2.2.2.1⟩
  obtain ⟨first, rest, hm, h1', h2', h3', h4'⟩ := key
  refine ⟨first, rest, hm, ?_, ?_, ?_, ?_⟩
  · show e1.ts = _; rw [hn.ts]; exact h1'
  · show e1.seq = _; rw [hn.seq]; exact h2'
  · show e1.typ = _; rw [hn.typ]; exact h3'
  · show e1.cat = _; rw [hn.cat]; exact h4'

/-- No records: an error and no event.  Two or more records without a SYSCALL record: an
error and no event.  And an error is returned in these two cases only. -/
theorem C09_errors (T : Tables) (msgs : List View) :
    (filterEOE msgs = [] → coalesce T msgs = .err .empty) ∧
    ((filterEOE msgs).length ≥ 2 → (∀ m ∈ filterEOE msgs, m.typ ≠ SYSCALL) →
      coalesce T msgs = .err .noSyscall) ∧
    (∀ x, coalesce T msgs = .err x →
      (x = .empty ∧ filterEOE msgs = []) ∨
      (x = .noSyscall ∧ (filterEOE msgs).length ≥ 2 ∧ ∀ m ∈ filterEOE msgs, m.typ ≠ SYSCALL)) := by
  refine ⟨?_, ?_, ?_⟩
  · intro h
    simp [coalesce, assemble, h]
  · intro hl hs
    unfold coalesce assemble
    cases hm : filterEOE msgs with
    | nil => rw [hm] at hl; simp at hl
    | cons first rest =>
      cases rest with
      | nil => rw [hm] at hl; simp at hl
      | cons second rest =>
        simp only
        have : (first :: second :: rest).find? (fun v => decide (v.typ = SYSCALL)) = none := by
          apply List.find?_eq_none.mpr
          intro x hx
          have := hs x (by rw [hm]; exact hx)
          simpa using this
        rw [this]
  · intro x h
    unfold coalesce at h
    cases ha : assemble T msgs with
    | ok e0 =>
      rw [ha] at h
      simp only at h
      cases hn : applyNorm T e0 with
      | ok e1 => rw [hn] at h; cases h
      | err y => exact absurd hn (applyNorm_no_err T e0 y)
      | panic => rw [hn] at h; cases h
    | panic => rw [ha] at h; cases h
    | err y =>
      rw [ha] at h
      cases h
      unfold assemble at ha
      cases hm : filterEOE msgs with
      | nil =>
        rw [hm] at ha
        cases ha
        exact Or.inl ⟨rfl, rfl⟩
      | cons first rest =>
        cases rest with
        | nil => rw [hm] at ha; cases ha
        | cons second rest =>
          rw [hm] at ha
          simp only at ha
          split at ha
          · rename_i hf
            cases ha
            right
            refine ⟨rfl, by simp, ?_⟩
            intro m hmem
            have := List.find?_eq_none.mp hf m hmem
            simpa using this
          · cases ha

/-! ### conservation -/

/-- **Conservation.**  For a well-formed group, every key/value pair that any record's
`Data()` reports is present somewhere in the event, or a warning naming the record type and
the key (or the record as a whole) is attached; the only pair dropped on purpose is `items`
of the SYSCALL record of a compound event. -/
theorem C09_conservation (T : Tables) (msgs : List View) (e : Event)
    (hwf : WellFormed (filterEOE msgs)) (h : coalesce T msgs = .ok e) :
    ∀ m ∈ filterEOE msgs, ∀ d, m.data = some d → ∀ k v, (k, v) ∈ d →
      Located e k v ∨ Warned e m.typ k ∨
      ((filterEOE msgs).length ≥ 2 ∧ m.typ = SYSCALL ∧ k = kItems) := by
  obtain ⟨e0, e1, h0, h1, rfl⟩ := coalesce_ok_split h
  intro m hm d hd k v hkv
  have hok := hwf.recOK m hm
  have f := finish_located h1 k v
  rcases assemble_ok_cases h0 with ⟨m', hm', rfl⟩ | ⟨first, second, rest, s, hrecs, hs, rfl⟩
  · -- a single record
    rw [hm'] at hm
    have : m = m' := by simpa using hm
    subst this
    rcases newEvent_kept T m m hd (hok.nodup d hd) hkv with hst | ⟨_, hl⟩
    · exact Or.inl (f.1 hst)
    · exact Or.inl (f.2.1 hl)
  · -- a compound event
    rw [hrecs] at hm hwf
    have hlen : (first :: second :: rest).length ≥ 2 := by simp
    have hns := hwf.oneSyscall hlen
    have hsm : s ∈ first :: second :: rest := List.mem_of_find?_eq_some hs
    have hst : s.typ = SYSCALL := by simpa using List.find?_some hs
    have hfr := foldl_step_sframe (first :: second :: rest) (newEvent T first s)
    by_cases hmt : m.typ = SYSCALL
    · -- the SYSCALL record: routed by newEvent
      have : m = s := unique_syscall hns hm hsm hmt hst
      subst this
      by_cases hk : k = kItems
      · right; right
        rw [hrecs]
        exact ⟨hlen, hmt, hk⟩
      · rcases newEvent_kept T first m hd (hok.nodup d hd) hkv with hst' | ⟨_, hl⟩
        · exact Or.inl (f.1 (hst'.mono hfr))
        · exact Or.inl (f.2.1 (hfr.data k v (Or.inl hk) hl))
    · -- any other record: kept by the loop
      have hI : nSys (first :: second :: rest) = 1 →
          hasKey kItems (newEvent T first s).data = true ∨
          ∀ m ∈ first :: second :: rest, IsOther m.typ → ∀ d, m.data = some d → lookup kItems d = none := by
        intro _
        rcases hwf.items hlen s hsm hst with ⟨ds, hds, hi⟩ | hno
        · left
          obtain ⟨iv, hiv⟩ := hasKey_iff.mp hi
          have hr := newEvent_routed T first s hds ((hwf.recOK s hsm).nodup ds hds) (lookup_mem hiv)
          exact hasKey_iff.mpr ⟨iv, items_routed _ _ hr⟩
        · exact Or.inr hno
      rcases fold_kept (first :: second :: rest) (newEvent T first s) (by omega) hwf.oneExecve hI
        hwf.recOK m hm hmt d hd k v hkv with hsafe | hargs | hl
      · rcases safeNA_finish h1 hsafe with h' | h'
        · exact Or.inl h'
        · exact Or.inr (Or.inl h')
      · exact Or.inl (f.2.2.2.1 hargs)
      · exact Or.inl (f.2.1 hl)

/-- The `items` hypothesis of `WellFormed` cannot be dropped: if the SYSCALL record has no
`items` key, an `items` pair contributed by an earlier record is deleted without a warning
(the SYSCALL case of the record loop deletes the key unconditionally). -/
def C09_conservation_without_items_guard : Prop :=
  ∀ (T : Tables) (msgs : List View) (e : Event), coalesce T msgs = .ok e →
    ∀ m ∈ filterEOE msgs, ∀ d, m.data = some d → ∀ k v, (k, v) ∈ d →
      Located e k v ∨ Warned e m.typ k ∨ ((filterEOE msgs).length ≥ 2 ∧ m.typ = SYSCALL ∧ k = kItems)

/-! ### PATH records, file facts -/

/-- `event.Paths` is exactly the `Data()` maps of the PATH records that parsed, in record
order (compound events; a single record yields no paths). -/
theorem C09_paths (T : Tables) (msgs : List View) (e : Event) (h : coalesce T msgs = .ok e) :
    e.paths = if (filterEOE msgs).length ≥ 2 then
      ((filterEOE msgs).filter (fun m => decide (m.typ = PATH))).flatMap (fun m => m.data.toList) else [] :=
  coalesce_paths T msgs e h

/-- `FileMirrors e what p` (Proofs/CoalesceMain.lean), spelled out. -/
theorem C09_file_mirrors_iff (e : Event) (objectWhat : Bytes) (p : KV) :
    FileMirrors e objectWhat p ↔
      ∃ f, e.file = some f ∧ f.path = getD kName p ∧ f.inode = getD kInode p ∧ f.device = getD kRdev p ∧
        f.owner = [] ∧ f.group = [] ∧
        match lookup kMode p with
        | none =>
          f.mode = [] ∧ f.uid = getD kOuid p ∧ f.gid = getD kOgid p ∧ f.selinux = objLabels p ∧
          e.objType = objectWhat
        | some mv =>
          match parseUint 8 64 mv with
          | none =>
            f.mode = [] ∧ f.uid = [] ∧ f.gid = [] ∧ f.selinux = [] ∧ Warn.fileObj ∈ e.warnings ∧
            e.objType = objectWhat
          | some n =>
            f.mode = oct4 (n % 4096) ∧ f.uid = getD kOuid p ∧ f.gid = getD kOgid p ∧ f.selinux = objLabels p ∧
            e.objType = classifyMode (n % 4294967296) objectWhat := Iff.rfl

/-- the SELinux labels of the file summary: every `obj_<label>` pair of the PATH record is
there under `<label>`. -/
theorem C09_file_labels (p : KV) (hn : NoDupKeys p) (k v : Bytes) (h : (k, v) ∈ p)
    (hp : hasPrefix kObj_ k = true) : lookup (k.drop 4) (objLabels p) = some v :=
  objLabels_spec p hn h hp

/-- **File facts.**  When the normalisation chosen for the event describes a file or
filesystem object and the event has PATH records, `setFileObject` selects the record
`selectPath` names (never out of range here) and the file summary mirrors it: path, inode,
device (`rdev`), owner ids, SELinux labels (`obj_*`), the permission bits `mode & 07777`
printed as four octal digits — for **every** mode value that parses — and the object type
`classifyMode` gives the mode (see `C09_type_*`). -/
theorem C09_file (T : Tables) (msgs : List View) (e e0 : Event) (ni : Nat)
    (h : coalesce T msgs = .ok e) (h0 : assemble T msgs = .ok e0)
    (hsel : selectNorm T (setHowDefaults e0) = some ni)
    (hwhat : (normAt T ni).objectWhat = vFile ∨ (normAt T ni).objectWhat = vFilesystem)
    (hpaths : e0.paths ≠ []) :
    ∃ p, selectPath e0.paths (normAt T ni).objectPathIndex = some p ∧
      FileMirrors e (normAt T ni).objectWhat p := by
  obtain ⟨e0', e1, h0', h1, rfl⟩ := coalesce_ok_split h
  rw [h0] at h0'; cases h0'
  unfold applyNorm at h1
  simp only [hsel] at h1
  split at h1
  · rename_i e2 h2
    cases h1
    have hp2 : (setEcs T ni (syscallNormOf T (setHowDefaults e0)) (setHowDefaults e0)).paths = e0.paths :=
      ((setHowDefaults_nframe e0).trans (setEcs_nframe T ni _ _)).paths
    have hot : (setEcs T ni (syscallNormOf T (setHowDefaults e0)) (setHowDefaults e0)).objType =
        (normAt T ni).objectWhat := by
      unfold setEcs; simp only
    unfold setObject at h2
    simp only [hwhat, if_true, hp2, hpaths, if_false] at h2
    split at h2
    · cases h2
    · rename_i p hp
      cases h2
      refine ⟨p, hp, ?_⟩
      have hm := fileFromPath_mirrors (setEcs T ni (syscallNormOf T (setHowDefaults e0)) (setHowDefaults e0)) p
      rw [hot] at hm
      generalize fileFromPath (setEcs T ni (syscallNormOf T (setHowDefaults e0)) (setHowDefaults e0)) p = ef at hm ⊢
      have ht : TFrame ef (addProcess (applyTail (normAt T ni) ef)) :=
        (applyTail_tframe (normAt T ni) ef).trans (addProcess_tframe _)
      have hn := applyTail_nframe (normAt T ni) ef
      obtain ⟨f, hf, h1', h2', h3', h4', h5', hrest⟩ := hm
      refine ⟨f, by rw [ht.file]; exact hf, h1', h2', h3', h4', h5', ?_⟩
      obtain ⟨w, hw⟩ := hn.warn
      cases hmode : lookup kMode p with
      | none =>
        rw [hmode] at hrest
        simp only at hrest ⊢
        exact ⟨hrest.1, hrest.2.1, hrest.2.2.1, hrest.2.2.2.1, by rw [ht.objType]; exact hrest.2.2.2.2⟩
      | some mv =>
        rw [hmode] at hrest
        simp only at hrest ⊢
        cases hpm : parseUint 8 64 mv with
        | none =>
          rw [hpm] at hrest
          simp only at hrest ⊢
          refine ⟨hrest.1, hrest.2.1, hrest.2.2.1, hrest.2.2.2.1, ?_, by rw [ht.objType]; exact hrest.2.2.2.2.2⟩
          show Warn.fileObj ∈ (applyTail _ _).warnings
          rw [hw]; exact List.mem_append_left _ hrest.2.2.2.2.1
        | some n =>
          rw [hpm] at hrest
          simp only at hrest ⊢
          exact ⟨hrest.1, hrest.2.1, hrest.2.2.1, hrest.2.2.2.1, by rw [ht.objType]; exact hrest.2.2.2.2⟩
  · cases h1
  · cases h1

/-- **All mode values.**  Whatever octal numeral the PATH record's `mode` field carries —
any digits, any length, with or without the kernel's leading `0`, in particular the numeral
of each of the 2^16 `st_mode` values — `ParseUint` reads its positional value `n`, and then
(by `C09_file`) the file summary's mode is `oct4 (n % 4096)`, i.e. `mode & 07777` as four
octal digits, and the object type is `classifyMode (n % 2^32)`. -/
theorem C09_mode_numeral (ds : List Nat) (hne : ds ≠ []) (hd : ∀ d ∈ ds, d < 8)
    (hv : octValue ds 0 < 2 ^ 64) (e : Event) (p : KV) (what : Bytes)
    (hm : lookup kMode p = some (ds.map digitChar)) (hf : FileMirrors e what p) :
    ∃ f, e.file = some f ∧ f.mode = oct4 (octValue ds 0 % 4096) ∧
      e.objType = classifyMode (octValue ds 0 % 4294967296) what := by
  obtain ⟨f, hfile, _, _, _, _, _, hrest⟩ := hf
  rw [hm] at hrest
  simp only [parseUint_octal ds hne hd hv] at hrest
  exact ⟨f, hfile, hrest.1, hrest.2.2.2.2⟩

/-- e.g. the numeral `040755`: value 16877, printed mode `0755`. -/
example : octValue [0, 4, 0, 7, 5, 5] 0 = 16877 ∧ [0, 4, 0, 7, 5, 5].map digitChar = b! "040755" ∧
    oct4 (16877 % 4096) = b! "0755" := by decide

/-! ### object type -/

/-- the object type the property asks for, from the file-type bits `mode & 0170000`. -/
def specType (n : Nat) : Option Bytes :=
  let t := n / 4096 % 16
  if t = 8 then some vFile
  else if t = 4 then some vDirectory
  else if t = 2 then some vCharDevice
  else if t = 6 then some vBlockDevice
  else if t = 1 then some vNamedPipe
  else if t = 10 then some vSymlink
  else if t = 12 then some vSocket
  else none

/-- the full statement: for every st_mode the object type agrees with the file-type bits.
False of the code as it is (known finding KF-C09-objtype). -/
def C09_type_full : Prop :=
  ∀ (n : Nat) (cur t : Bytes), n < 65536 → specType n = some t → classifyMode n cur = t

/-- mode 040755 (a directory) is classified `file`. -/
theorem C09_type_counterexample : ¬ C09_type_full := by
  intro h
  have := h 16877 [] vDirectory (by decide) (by decide)
  revert this
  decide

/-- what does hold: every st_mode value (all 2^16) is classified `file`, because
`os.FileMode` keeps its type bits at positions ≥ 19 — so the object type agrees with the
file-type bits exactly for regular files (S_IFREG).  Missing w.r.t. `C09_type_full`:
directories, character/block devices, named pipes, symlinks and sockets. -/
theorem C09_type_partial (n : Nat) (cur : Bytes) (hn : n < 65536) :
    classifyMode n cur = vFile ∧ (specType n = some vFile → classifyMode n cur = vFile) := by
  have hb : ∀ i, 16 ≤ i → n.testBit i = false := by
    intro i hi
    apply Nat.testBit_lt_two_pow
    calc n < 65536 := hn
      _ = 2 ^ 16 := by decide
      _ ≤ 2 ^ i := Nat.pow_le_pow_right (by omega) hi
  have : classifyMode n cur = vFile := by
    unfold classifyMode
    simp [hb 19 (by decide), hb 21 (by decide), hb 24 (by decide), hb 25 (by decide), hb 26 (by decide),
      hb 27 (by decide), hb 31 (by decide)]
  exact ⟨this, fun _ => this⟩

/-! ### non-vacuity, and the corner the `items` hypothesis excludes -/

/-- a one-entry table set for the examples (the theorems above hold for every `T`). -/
def toyNorm : Norm :=
  { (default : Norm) with action := b! "opened-file", objectWhat := vFile, ecsCategory := [b! "file"], catCap := 1 }
def toyT : Tables :=
  { norms := [toyNorm], syscalls := [(b! "open", 0)], recordTypes := [], ranges := [(1300, 1399, 15)], defaultCat := 0 }

def exSys : View := { typ := 1300, seq := 7, ts := 1000, tags := [b! "k"], data := some [(kSyscall, b! "open"), (kItems, b! "1"), (b! "uid", b! "0"), (kResult, b! "success"), (kPid, b! "42")] }
def exCwd : View := { typ := 1307, seq := 7, ts := 1000, tags := [], data := some [(kCwd, b! "/"), (kPid, b! "43")] }
def exExecve : View := { typ := 1309, seq := 7, ts := 1000, tags := [], data := some [(kArgc, b! "1"), (b! "a0", b! "ls")] }
def exPath : View := { typ := 1302, seq := 7, ts := 1000, tags := [], data := some [(kName, b! "/tmp"), (kMode, b! "040755"), (kOuid, b! "0")] }
def exEOE : View := { typ := 1320, seq := 7, ts := 1000, tags := [], data := none }
/-- SYSCALL group with colliding `pid`, an EXECVE record, a directory PATH record, trailing EOE. -/
def exMsgs : List View := [exSys, exCwd, exExecve, exPath, exEOE]

/-- the hypotheses of `C09_conservation` are satisfiable by a non-trivial group … -/
example : WellFormed (filterEOE exMsgs) := by
  have hf : filterEOE exMsgs = [exSys, exCwd, exExecve, exPath] := by decide +kernel
  rw [hf]
  refine ⟨?_, fun _ => by decide +kernel, by decide +kernel, ?_⟩
  · intro m hm
    simp only [List.mem_cons, List.not_mem_nil, or_false] at hm
    rcases hm with rfl | rfl | rfl | rfl
    · exact ⟨fun d hd => by cases hd; decide +kernel, fun h => absurd h (by decide)⟩
    · exact ⟨fun d hd => by cases hd; decide +kernel, fun h => absurd h (by decide)⟩
    · refine ⟨fun d hd => by cases hd; decide +kernel, fun _ d hd argc n ha hp k hk => ?_⟩
      cases hd
      have hargc : argc = b! "1" := by
        have : lookup kArgc [(kArgc, b! "1"), (b! "a0", b! "ls")] = some (b! "1") := by decide +kernel
        rw [this] at ha; cases ha; rfl
      subst hargc
      have hn : n = 1 := by
        have : parseUint 10 32 (b! "1") = some 1 := by decide +kernel
        rw [this] at hp; cases hp; rfl
      subst hn
      simp only [keys, List.map_cons, List.map_nil, List.mem_cons, List.not_mem_nil, or_false] at hk
      rcases hk with rfl | rfl
      · exact Or.inl rfl
      · exact Or.inr ⟨0, by decide, by decide +kernel⟩
    · exact ⟨fun d hd => by cases hd; decide +kernel, fun h => absurd h (by decide)⟩
  · intro _ s hs hst
    left
    simp only [List.mem_cons, List.not_mem_nil, or_false] at hs
    rcases hs with rfl | rfl | rfl | rfl
    · exact ⟨_, rfl, by decide +kernel⟩
    · exact absurd hst (by decide)
    · exact absurd hst (by decide)
    · exact absurd hst (by decide)

/-- … on which the model returns an event: identity of the first record, the colliding
`pid` of the CWD record warned about, the first `pid` moved to `process.pid`, the args kept,
the directory's mode printed as `0755` — and its object type `file` (the known finding). -/
example : (match coalesce toyT exMsgs with
    | .ok e =>
      decide (e.seq = 7 ∧ e.ts = 1000 ∧ e.typ = 1300 ∧ e.cat = 15) &&
      decide (Warn.dupKey kPid 1307 ∈ e.warnings) && decide (e.pid = b! "42") &&
      decide (e.args = [b! "ls"]) && decide (e.paths.length = 1) &&
      decide (e.file.map (·.mode) = some (b! "0755")) && decide (e.file.map (·.path) = some (b! "/tmp")) &&
      decide (e.objType = vFile) && decide (lookup kItems e.data = none)
    | _ => false) = true := by decide +kernel

/-- the hypotheses of `C09_file` are satisfiable. -/
example : ∃ e0, assemble toyT exMsgs = .ok e0 ∧ selectNorm toyT (setHowDefaults e0) = some 0 ∧
    (normAt toyT 0).objectWhat = vFile ∧ e0.paths ≠ [] := by
  refine ⟨((filterEOE exMsgs).foldl step (newEvent toyT exSys exSys)), by decide +kernel, by decide +kernel,
    by decide +kernel, by decide +kernel⟩

/-- errors: an empty group and a two-record group without SYSCALL. -/
example : coalesce toyT [] = .err .empty ∧ coalesce toyT [exEOE] = .err .empty ∧
    coalesce toyT [exCwd, exPath] = .err .noSyscall := by decide +kernel

def ctrAvc : View := { typ := 1400, seq := 1, ts := 1, tags := [], data := some [(kItems, b! "5")] }
def ctrSys : View := { typ := 1300, seq := 1, ts := 1, tags := [], data := some [(kSyscall, b! "open")] }
def ctrEvent : Event :=
  { ts := 1, seq := 1, cat := 0, typ := 1400, result := vUnknown, data := [(kSyscall, b! "open")],
    warnings := [Warn.noNorm] }

/-- Without the `items` hypothesis conservation fails: an AVC record's `items=5` ahead of a
SYSCALL record that has no `items` key is added to Data and then deleted by the SYSCALL case
of the loop, with no warning.  (No kernel SYSCALL record lacks `items`; reported as an
observation, see design_notes/coalesce.md.) -/
theorem C09_conservation_items_counterexample : ¬ C09_conservation_without_items_guard := by
  intro h
  have he : coalesce toyT [ctrAvc, ctrSys] = .ok ctrEvent := by decide +kernel
  have hmem : ctrAvc ∈ filterEOE [ctrAvc, ctrSys] := by decide +kernel
  rcases h toyT _ _ he ctrAvc hmem _ rfl kItems (b! "5") (by simp) with hl | hw | ⟨_, ht, _⟩
  · rcases hl with h | h | h | ⟨i, _, hi⟩ | h | ⟨a, ha, _⟩
    · revert h; decide +kernel
    · revert h; decide +kernel
    · rcases h with h | ⟨_, h⟩ | ⟨h, _⟩ | ⟨h, _⟩ | ⟨p, hp, _⟩
      · revert h; decide +kernel
      · revert h; decide +kernel
      · revert h; decide +kernel
      · revert h; decide +kernel
      · simp [ctrEvent] at hp
    · simp [ctrEvent] at hi
    · rcases h with ⟨h, _⟩ | ⟨h, _⟩ | ⟨h, _⟩ | ⟨h, _⟩ | ⟨h, _⟩ | ⟨h, _⟩ <;> revert h <;> decide +kernel
    · simp [ctrEvent] at ha
  · rcases hw with h | h | ⟨h, _⟩ | ⟨h, _⟩
    · revert h; decide +kernel
    · revert h; decide +kernel
    · revert h; decide +kernel
    · revert h; decide +kernel
  · revert ht; decide +kernel

end LA.Coalesce

/-! ### the code keeps nothing between calls that the model does not have -/

/-- Package aucoalesce keeps nothing between calls except the two id caches used by `ResolveIDs`, and package auparse
nothing at all (regenerated list, see LA.Proofs.StateFacts): `CoalesceMessages` is a function of its argument. -/
theorem C09_coalescer_keeps_nothing_between_calls : LA.StateFacts.ofPkg "aucoalesce" = LA.StateFacts.coalesceIdCaches ∧ LA.StateFacts.ofPkg "auparse" = [] := by decide

/-- What package aucoalesce reads of the process it runs in is the user and group databases and the clock of the id
caches — both only under ResolveIDs — and package auparse reads nothing (`envReads`, regenerated with go/types on every
run). CoalesceMessages is a function of the messages and the tables. -/
theorem C09_environment_is_the_id_databases :
    LA.StateFacts.envOf "aucoalesce" = LA.StateFacts.coalesceEnv ∧ LA.StateFacts.envOf "auparse" = [] := by decide
