import LA.Model.Coalesce
namespace LA.Coalesce
theorem C09_placeholder : True := trivial
end LA.Coalesce
