/-
C07 — Decoding a built rule gives text that re-encodes to the same rule.

Proved here: for every field class, the value parser accepts what the printer emits and returns
the same 32-bit word (the clause that made listed rules un-reinstallable before the fix
commits); the watch form is printed only for rules that are exactly what `-w` builds.
The whole-rule statement (text re-parses, bytes identical, text stable) is established by the
correspondence and the monitor on generated rules; three input classes on which it is false of
the code are recorded as known findings (KF-C07-arch-order, KF-C07-backslash,
KF-C07-all-syscalls-listed) and the full statement is kept below as `C07_roundtrip_full`.
-/
import LA.Proofs.Num
import LA.Proofs.Tables
import LA.Model.Flags
import LA.Proofs.TablesRT
import LA.Props.C06
import LA.Proofs.RuleWire
import LA.Proofs.RulePrint
import LA.Proofs.RuleExit

namespace LA.Rule
open LA LA.Flags
open LA.Auparse (Res)

/-- the full statement of the property (not proved: false on the recorded finding classes). -/
def C07_roundtrip_full : Prop :=
  ∀ (env : Env) (args : List Bytes) (r : Rule) (b text : Bytes),
    parseArgs args = some r → build env r = Res.ok b →
    toCommandLine b = Res.ok text ∧
    ∃ r', parseArgs (splitByte 32 text) = some r' ∧ build env r' = Res.ok b

/-- uid class: every 32-bit value is printed in a form the uid parser maps back to it
(4294967295 is printed as -1, everything else unsigned). -/
theorem C07_uid_print_parse (env : Env) (v : Nat) (h : v < 4294967296) :
    getUID env (if v == 4294967295 then ofString "-1" else dec v) = some v := by
  by_cases hv : v = 4294967295
  · subst hv; simp [getUID, ofString]
  · have hb : (v == 4294967295) = false := by simpa using hv
    simp only [hb, Bool.false_eq_true, if_false]
    obtain ⟨d, tl, hd, hdig⟩ : ∃ d tl, dec v = d :: tl ∧ isDigit d = true := by
      cases hh : dec v with
      | nil => exact absurd hh (dec_ne_nil v)
      | cons d tl => exact ⟨d, tl, rfl, dec_digits v d (by rw [hh]; simp)⟩
    have hd' : 48 ≤ d ∧ d ≤ 57 := by simpa [isDigit] using hdig
    unfold getUID
    have h1 : (dec v == ofString "unset" || dec v == ofString "-1") = false := by
      rw [hd]
      have a : (d :: tl == ofString "unset") = false := by
        simp only [ofString, beq_eq_false_iff_ne, ne_eq]
        intro hh
        have : d = 117 := by simpa using congrArg List.head? hh
        omega
      have b : (d :: tl == ofString "-1") = false := by
        simp only [ofString, beq_eq_false_iff_ne, ne_eq]
        intro hh
        have : d = 45 := by simpa using congrArg List.head? hh
        omega
      simp [a, b]
    simp only [h1, Bool.false_eq_true, if_false, parseUintGo_dec10 v 32 (by omega)]
    simp

/-- gid class: printed unsigned, parsed back to the same word. -/
theorem C07_gid_print_parse (env : Env) (v : Nat) (h : v < 4294967296) : getGID env (dec v) = some v := by
  simp [getGID, parseUintGo_dec10 v 32 (by omega)]

/-- generic numeric fields (pid, a0–a3, inode, devmajor, …) and numeric filetype / msgtype above
65535: printed as unsigned decimal, parsed back (base-0 parser) to the same word. -/
theorem C07_num_print_parse (v : Nat) (h : v < 4294967296) : parseNum (dec v) = some v := by
  obtain ⟨d, tl, hd, hdig⟩ : ∃ d tl, dec v = d :: tl ∧ isDigit d = true := by
    cases hh : dec v with
    | nil => exact absurd hh (dec_ne_nil v)
    | cons d tl => exact ⟨d, tl, rfl, dec_digits v d (by rw [hh]; simp)⟩
  have hd' : 48 ≤ d ∧ d ≤ 57 := by simpa [isDigit] using hdig
  unfold parseNum
  have hp := parseUintGo_dec0 v 32 (by omega)
  rw [hd] at hp ⊢
  split
  · rename_i heq; simp at heq; omega
  · simp [hp]

theorem C07_msgtype_number (v : Nat) (h : v < 4294967296) : getAuditMsgType (dec v) = some v := by
  simp [getAuditMsgType, parseUintGo_dec0 v 32 (by omega)]

/-- perm: the printed letters parse back to the same permission bits (for the 16 valid words). -/
theorem C07_perm_print_parse : ∀ bits < 16, getPerm (permString bits) = some bits := by decide +kernel

/-- filetype: each of the seven S_IF* values, printed as a number, is accepted and maps back. -/
theorem C07_filetype_print_parse :
    ∀ p ∈ filetypeNames, getFiletype (dec p.2) = some p.2 ∧ getFiletype p.1 = some p.2 := by
  have hdec : dec 32768 = ofString "32768" ∧ dec 16384 = ofString "16384" ∧ dec 49152 = ofString "49152" ∧
      dec 40960 = ofString "40960" ∧ dec 8192 = ofString "8192" ∧ dec 24576 = ofString "24576" ∧ dec 4096 = ofString "4096" := by
    refine ⟨?_, ?_, ?_, ?_, ?_, ?_, ?_⟩ <;> (simp [dec, ofString])
  obtain ⟨h1, h2, h3, h4, h5, h6, h7⟩ := hdec
  intro p hp
  simp only [filetypeNames, List.mem_cons, List.mem_nil_iff, or_false] at hp
  have c1 : LA.Gen.RuleTables.fileFiletype = 32768 := by decide
  have c2 : LA.Gen.RuleTables.dirFiletype = 16384 := by decide
  have c3 : LA.Gen.RuleTables.socketFiletype = 49152 := by decide
  have c4 : LA.Gen.RuleTables.linkFiletype = 40960 := by decide
  have c5 : LA.Gen.RuleTables.characterFiletype = 8192 := by decide
  have c6 : LA.Gen.RuleTables.blockFiletype = 24576 := by decide
  have c7 : LA.Gen.RuleTables.fifoFiletype = 4096 := by decide
  rcases hp with rfl | rfl | rfl | rfl | rfl | rfl | rfl
  · simp only [c1, h1]; decide +kernel
  · simp only [c2, h2]; decide +kernel
  · simp only [c3, h3]; decide +kernel
  · simp only [c4, h4]; decide +kernel
  · simp only [c5, h5]; decide +kernel
  · simp only [c6, h6]; decide +kernel
  · simp only [c7, h7]; decide +kernel

/-- msgtype up to 65535 is printed as its record type name (or UNKNOWN[n]) and the parser maps
the name back: no record type name is a number, so the numeric parser reports a syntax error
and the name lookup (C20) takes over. -/
theorem typeName_head (t : Nat) : ∃ d tl, MsgType.typeName t = d :: tl ∧ 65 ≤ d ∧ d ≤ 90 := by
  have cert : LA.Gen.MsgTypes.typeToName.all (fun p => match p.2 with | d :: _ => decide (65 ≤ d ∧ d ≤ 90) | [] => false) = true := by
    decide +kernel
  rcases MsgType.typeName_cases t with h | ⟨n, h, hm⟩
  · exact ⟨85, _, by rw [h]; rfl, by omega, by omega⟩
  · have := List.all_eq_true.mp cert (t, n) hm
    rw [h]
    cases n with
    | nil => simp at this
    | cons d tl => exact ⟨d, tl, rfl, by simpa using this⟩

theorem C07_msgtype_name (t : Nat) (h : t < 65536) : getAuditMsgType (MsgType.typeName t) = some t := by
  obtain ⟨d, tl, hd, hd1, hd2⟩ := typeName_head t
  unfold getAuditMsgType
  have hsyn : parseUintGo (MsgType.typeName t) 0 32 = .syntax := by
    rw [hd]
    unfold parseUintGo
    simp only [List.isEmpty_cons, Bool.false_eq_true, if_false, beq_self_eq_true, if_true]
    have hb : basePrefix (d :: tl) = (10, d :: tl) := by
      unfold basePrefix
      split
      · rename_i heq; simp at heq; omega
      · rename_i heq; simp at heq; omega
      · rfl
    simp only [hb]
    have hl : digitLoop 10 (2 ^ 32 - 1) true (d :: tl) 0 false = (.syntax, false) := by
      unfold digitLoop
      have h95 : (d == 95 && true) = false := by
        have : (d == 95) = false := by simp; omega
        simp [this]
      simp only [h95, Bool.false_eq_true, if_false]
      have hdv : digitVal d = some (d + 32 - 97 + 10) := by
        simp only [digitVal, lowerB]
        have h1 : ¬ (48 ≤ d ∧ d ≤ 57) := by omega
        have h2 : (65 ≤ d ∧ d ≤ 90) := ⟨hd1, hd2⟩
        simp only [h1, if_false, h2, and_self, if_true]
        have h3 : 97 ≤ d + 32 ∧ d + 32 ≤ 122 := by omega
        simp [h3]
      simp only [hdv]
      have : d + 32 - 97 + 10 ≥ 10 := by omega
      simp [this]
    simp [hl]
  simp only [hsyn]
  exact LA.TablesRT.type_roundtrip t h

/-- The watch form (-w PATH -p PERM [-k KEY]) is used only for rules that are exactly what -w
builds: always,exit, all syscalls, path=/dir= then perm= then optionally key=, all with '=',
a clean absolute path, a non-empty permission set, a key without comma. -/
theorem C07_watch_form_exact (r : RuleData) (path perm key : Bytes) (h : asFileWatch r = some (path, perm, key)) :
    r.allSyscalls = true ∧ r.flags = LA.Gen.RuleTables.exitFilter ∧ r.action = LA.Gen.RuleTables.alwaysAction ∧
    (r.fields.length = 2 ∨ r.fields.length = 3) ∧ r.fieldFlags.all (· == eqOp) = true := by
  unfold asFileWatch at h
  simp only at h
  split at h
  · simp at h
  · rename_i hc
    split at h
    · simp at h
    · rename_i hops
      simp only [Bool.or_eq_true, Bool.not_eq_true', bne_iff_ne, ne_eq, Bool.and_eq_true, not_or, not_and,
        Decidable.not_not, Bool.not_eq_false] at hc hops
      obtain ⟨⟨⟨⟨h1, h2⟩, h3⟩, h4⟩, _⟩ := hc
      refine ⟨h1, h2, h3, ?_, hops⟩
      by_cases h5 : r.fields.length = 2
      · exact Or.inl h5
      · exact Or.inr (h4 h5)

/-- exit class: every 32-bit exit value is printed (as -ENAME when the negated value is a known
errno, else as a signed decimal) in a form getExitCode reads back to the same word. -/
theorem C07_exit_print_parse (v : Nat) (h : v < 4294967296) :
    ∃ c, getExitCode (exitString v) = some c ∧ toU32 c = v := by
  unfold exitString
  simp only
  generalize hcode : (if v ≥ 2147483648 then (v : Int) - 4294967296 else (v : Int)) = code
  have hrange : -2147483648 ≤ code ∧ code < 2147483648 := by
    rw [← hcode]; split <;> omega
  have hback : toU32 code = v := by
    rw [← hcode]; unfold toU32; split <;> omega
  cases hn : (if code ≤ 0 then Tables.errnoName (-code).toNat else none) with
  | some name =>
    simp only
    split at hn
    · rename_i hle
      have hnum := LA.TablesRT.errno_num_name_num _ _ hn
      obtain ⟨c, tl, hname, hc⟩ := errno_names_upper ((-code).toNat, name) (lookupN_mem hn)
      simp only at hname
      refine ⟨code, ?_, hback⟩
      unfold getExitCode
      rw [hname, parseIntGo_minus_name c tl hc]
      simp only
      rw [← hname, hnum]
      simp only [Option.some.injEq]
      omega
    · cases hn
  | none =>
    simp only
    refine ⟨code, ?_, hback⟩
    unfold getExitCode decInt
    by_cases hneg : code < 0
    · rw [if_pos hneg, parseIntGo_dec_neg code.natAbs (by omega)]
      simp only [Option.some.injEq]
      omega
    · rw [if_neg hneg, parseIntGo_dec_pos code.toNat (by omega)]
      simp only [Option.some.injEq]
      omega

/-- One statement for every numeric filter: whatever value word Build computed for a filter on
field `f` (any field except the string-valued ones and arch, which are covered by
`C07_wire_roundtrip` and `C07_print_total`), the text ToCommandLine prints for that word
(`fieldRhs f v`) is accepted by the same value parser under the same list and operator and
yields the same word. Composes the per-class theorems above. -/
theorem C07_value_reparse (env : Env) (he : EnvOk env) (r : RuleData) (f opc : Nat) (rhs : Bytes) (v : Nat)
    (a : Option Bytes) (hs : stringFields.contains f = false) (harch : (f == LA.Gen.RuleTables.archField) = false)
    (h : filterValue env r f opc rhs = some (v, none, a)) :
    filterValue env r f opc (fieldRhs f v) = some (v, none, none) := by
  have uid_ne : uidFields.all (fun x => x != LA.Gen.RuleTables.exitField) = true := by decide +kernel
  have gid_ne : gidFields.all (fun x => x != LA.Gen.RuleTables.exitField && !(uidFields.contains x) &&
      x != LA.Gen.RuleTables.msgTypeField && x != LA.Gen.RuleTables.permField) = true := by decide +kernel
  unfold filterValue at h ⊢
  by_cases c1 : uidFields.contains f = true
  · rw [if_pos c1] at h ⊢
    obtain ⟨hw, _⟩ := mapTriple h
    have hne := List.all_eq_true.mp uid_ne f (by simpa using c1)
    have hne' : (f == LA.Gen.RuleTables.exitField) = false := by simpa using hne
    simp only [fieldRhs, hne', Bool.false_eq_true, if_false, c1, if_true]
    rw [C07_uid_print_parse env v (getUID_lt he hw)]; rfl
  rw [if_neg c1] at h ⊢
  by_cases c2 : gidFields.contains f = true
  · rw [if_pos c2] at h ⊢
    obtain ⟨hw, _⟩ := mapTriple h
    have hne := List.all_eq_true.mp gid_ne f (by simpa using c2)
    simp only [Bool.and_eq_true, bne_iff_ne, ne_eq, Bool.not_eq_true'] at hne
    obtain ⟨⟨⟨n1, n2⟩, n3⟩, n4⟩ := hne
    have e1 : (f == LA.Gen.RuleTables.exitField) = false := by simpa using n1
    have e3 : (f == LA.Gen.RuleTables.msgTypeField) = false := by simpa using n3
    have e4 : (f == LA.Gen.RuleTables.permField) = false := by simpa using n4
    simp only [fieldRhs, e1, n2, e3, e4, Bool.false_eq_true, if_false]
    rw [C07_gid_print_parse env v (getGID_lt he hw)]; rfl
  rw [if_neg c2] at h ⊢
  by_cases c3 : (f == LA.Gen.RuleTables.exitField) = true
  · rw [if_pos c3] at h ⊢
    split at h
    · simp at h
    · rename_i hfl
      rw [if_neg hfl]
      cases hg : getExitCode rhs with
      | none => rw [hg] at h; simp at h
      | some w =>
        rw [hg] at h
        simp only [Option.map_some, Option.some.injEq, Prod.mk.injEq] at h
        obtain ⟨hv, _⟩ := h
        obtain ⟨c, hc1, hc2⟩ := C07_exit_print_parse v (by rw [← hv]; exact toU32_lt w)
        simp only [fieldRhs, c3, if_true, hc1, Option.map_some, hc2]
  rw [if_neg c3] at h ⊢
  have e1 : (f == LA.Gen.RuleTables.exitField) = false := by simpa using c3
  have e2 : uidFields.contains f = false := by simpa using c1
  by_cases c4 : (f == LA.Gen.RuleTables.msgTypeField) = true
  · rw [if_pos c4] at h ⊢
    split at h
    · simp at h
    · rename_i hfl
      rw [if_neg hfl]
      obtain ⟨hw, _⟩ := mapTriple h
      have hlt := getAuditMsgType_lt hw
      simp only [fieldRhs, e1, e2, c4, Bool.false_eq_true, if_false, if_true]
      by_cases hv : v ≤ 65535
      · rw [if_pos hv, C07_msgtype_name v (by omega)]; rfl
      · rw [if_neg hv, C07_msgtype_number v hlt]; rfl
  rw [if_neg c4] at h ⊢
  have e3 : (f == LA.Gen.RuleTables.msgTypeField) = false := by simpa using c4
  simp only [hs, Bool.false_eq_true, if_false, harch] at h ⊢
  by_cases c7 : (f == LA.Gen.RuleTables.permField) = true
  · rw [if_pos c7] at h ⊢
    split at h
    · simp at h
    · rename_i hfl
      rw [if_neg hfl]
      split at h
      · simp at h
      · rename_i hop
        rw [if_neg hop]
        obtain ⟨hw, _⟩ := mapTriple h
        simp only [fieldRhs, e1, e2, e3, c7, Bool.false_eq_true, if_false, if_true]
        rw [C07_perm_print_parse v (getPerm_lt16 hw)]; rfl
  rw [if_neg c7] at h ⊢
  have e4 : (f == LA.Gen.RuleTables.permField) = false := by simpa using c7
  have hrhs : fieldRhs f v = dec v := by
    simp only [fieldRhs, e1, e2, e3, e4, Bool.false_eq_true, if_false]
  rw [hrhs]
  by_cases c8 : (f == LA.Gen.RuleTables.filetypeField) = true
  · rw [if_pos c8] at h ⊢
    split at h
    · simp at h
    · rename_i hfl
      rw [if_neg hfl]
      obtain ⟨hw, _⟩ := mapTriple h
      obtain ⟨p, hp1, hp2⟩ := getFiletype_mem hw
      rw [← hp2, (C07_filetype_print_parse p hp1).1]; rfl
  rw [if_neg c8] at h ⊢
  by_cases c9 : (f == LA.Gen.RuleTables.inodeField) = true
  · rw [if_pos c9] at h ⊢
    split at h
    · simp at h
    · rename_i hfl
      rw [if_neg hfl]
      split at h
      · simp at h
      · rename_i hop
        rw [if_neg hop]
        obtain ⟨hw, _⟩ := mapTriple h
        rw [C07_num_print_parse v (parseNum_lt hw)]; rfl
  rw [if_neg c9] at h ⊢
  by_cases c10 : (f == LA.Gen.RuleTables.saddrFamField) = true
  · rw [if_pos c10] at h ⊢
    cases hp : parseNum rhs with
    | none => rw [hp] at h; simp at h
    | some n =>
      rw [hp] at h
      simp only [Option.bind_some] at h
      split at h
      · rename_i hn
        simp only [Option.some.injEq, Prod.mk.injEq] at h
        obtain ⟨rfl, _⟩ := h
        rw [C07_num_print_parse n (parseNum_lt hp)]
        simp only [Option.bind_some, hn, if_true]
      · simp at h
  rw [if_neg c10] at h ⊢
  by_cases c11 : [LA.Gen.RuleTables.devMajorField, LA.Gen.RuleTables.devMinorField, LA.Gen.RuleTables.successField,
      LA.Gen.RuleTables.ppidField].contains f = true
  · rw [if_pos c11] at h ⊢
    split at h
    · simp at h
    · rename_i hfl
      rw [if_neg hfl]
      obtain ⟨hw, _⟩ := mapTriple h
      rw [C07_num_print_parse v (parseNum_lt hw)]; rfl
  rw [if_neg c11] at h ⊢
  obtain ⟨hw, _⟩ := mapTriple h
  rw [C07_num_print_parse v (parseNum_lt hw)]; rfl

/-! ### the printed `-F` token re-parses -/

theorem filterOps_eq : filterOps = [[60, 61], [62, 61], [38, 61], [61], [33, 61], [60], [62], [38]] := by decide

theorem takeWhile_append_stop' {p : Nat → Bool} (a : Bytes) (c : Nat) (t : Bytes) (ha : ∀ b ∈ a, p b = true)
    (hc : p c = false) : (a ++ c :: t).takeWhile p = a := by
  induction a with
  | nil => simp [List.takeWhile_cons, hc]
  | cons x xs ih =>
    simp only [List.cons_append, List.takeWhile_cons, ha x (by simp), if_true]
    rw [ih (fun b hb => ha b (by simp [hb]))]

/-- a printed `-F` token `lhs ++ op ++ rhs` — field name of word characters, one of the eight
operators, a value that is not empty and does not start with '=' — is split by the -F expression
into exactly those three parts (the value may contain anything after its first byte). -/
theorem C07_filter_token_reparse (lhs op : Bytes) (c : Nat) (tl : Bytes)
    (hl : lhs ≠ []) (hw : ∀ b ∈ lhs, isReWord b = true) (hop : op ∈ filterOps) (hc : c ≠ 61) :
    matchFilter (lhs ++ op ++ c :: tl) = some (lhs, op, c :: tl) := by
  rw [filterOps_eq] at hop
  -- every operator starts with a byte that is neither a word character nor white space
  obtain ⟨o, otl, rfl, ho1, ho2⟩ : ∃ o otl, op = o :: otl ∧ isReWord o = false ∧ isReSpace o = false := by
    simp only [List.mem_cons, List.mem_nil_iff, or_false] at hop
    rcases hop with rfl | rfl | rfl | rfl | rfl | rfl | rfl | rfl <;> exact ⟨_, _, rfl, by decide, by decide⟩
  have e0 : lhs ++ (o :: otl) ++ c :: tl = lhs ++ o :: (otl ++ c :: tl) := by simp
  have htw : (lhs ++ (o :: otl) ++ c :: tl).takeWhile isReWord = lhs := by
    rw [e0]; exact takeWhile_append_stop' lhs o _ hw ho1
  unfold matchFilter
  simp only [htw]
  have hne : lhs.isEmpty = false := by cases lhs with | nil => exact absurd rfl hl | cons _ _ => rfl
  simp only [hne, Bool.false_eq_true, if_false]
  have hd : (lhs ++ (o :: otl) ++ c :: tl).drop lhs.length = o :: (otl ++ c :: tl) := by
    rw [e0, List.drop_left' rfl]
  rw [hd]
  have hdw : (o :: (otl ++ c :: tl)).dropWhile isReSpace = o :: (otl ++ c :: tl) := by
    simp [List.dropWhile_cons, ho2]
  rw [hdw, filterOps_eq]
  have hc' : (c == 61) = false := by simpa using hc
  have hc'' : ((61 : Nat) == c) = false := by simp; omega
  simp only [List.mem_cons, List.mem_nil_iff, or_false] at hop
  rcases hop with h | h | h | h | h | h | h | h <;>
    (obtain ⟨rfl, rfl⟩ := List.cons.inj h
     simp [hasPrefix, List.find?_cons, List.isPrefixOf, hc', hc''])

theorem lookupB_of_mem_nodup {l : List (Bytes × Nat)} (hnd : (l.map (·.1)).Nodup) {k : Bytes} {v : Nat}
    (h : (k, v) ∈ l) : lookupB l k = some v := by
  induction l with
  | nil => cases h
  | cons p ps ih =>
    simp only [List.map_cons, List.nodup_cons] at hnd
    unfold lookupB
    simp only [List.find?_cons]
    rcases List.mem_cons.mp h with rfl | h'
    · simp
    · have hne : (p.1 == k) = false := by
        simp only [beq_eq_false_iff_ne, ne_eq]
        intro heq
        exact hnd.1 (List.mem_map.mpr ⟨(k, v), h', heq.symm⟩)
      simp only [hne]
      exact ih hnd.2 h'

theorem lookupB_of_revLookup {l : List (Bytes × Nat)} (hnd : (l.map (·.1)).Nodup) {k : Bytes} {v : Nat}
    (h : revLookup l v = some k) : lookupB l k = some v := by
  unfold revLookup at h
  cases hf : l.find? (fun p => p.2 == v) with
  | none => rw [hf] at h; simp at h
  | some p =>
    rw [hf] at h
    simp only [Option.map_some, Option.some.injEq] at h
    have hp := List.find?_some hf
    have hv : p.2 = v := by simpa using hp
    exact lookupB_of_mem_nodup hnd (by rw [← h, ← hv]; exact List.mem_of_find?_eq_some hf)

/-- the printed value of a numeric filter is not empty and does not start with '=' -/
theorem fieldRhs_head (f v : Nat) (hperm : f = LA.Gen.RuleTables.permField → 0 < v ∧ v < 16) :
    ∃ c tl, fieldRhs f v = c :: tl ∧ c ≠ 61 := by
  have hdec : ∀ n, ∃ c tl, dec n = c :: tl ∧ c ≠ 61 := by
    intro n
    obtain ⟨d, tl, hd, h1, h2⟩ := dec_cons_digit n
    exact ⟨d, tl, hd, by omega⟩
  unfold fieldRhs
  split
  · -- exit
    unfold exitString
    simp only
    generalize (if v ≥ 2147483648 then (v : Int) - 4294967296 else (v : Int)) = code
    cases (if code ≤ 0 then Tables.errnoName (-code).toNat else none) with
    | some name => exact ⟨45, _, rfl, by decide⟩
    | none =>
      simp only
      unfold decInt
      split
      · exact ⟨45, _, rfl, by decide⟩
      · exact hdec _
  · split
    · split
      · exact ⟨45, [49], rfl, by decide⟩
      · exact hdec _
    · split
      · split
        · obtain ⟨d, tl, hd, h1, h2⟩ := typeName_head v
          exact ⟨d, tl, hd, by omega⟩
        · exact hdec _
      · split
        · rename_i hp
          have hpf : f = LA.Gen.RuleTables.permField := by simpa using hp
          obtain ⟨h0, h16⟩ := hperm hpf
          have cert : (List.range 16).all (fun bits => bits == 0 ||
              (match permString bits with | c :: _ => c != 61 | [] => false)) = true := by decide +kernel
          have := List.all_eq_true.mp cert v (List.mem_range.mpr h16)
          have hv0 : (v == 0) = false := by simp; omega
          simp only [hv0, Bool.false_or] at this
          cases hps : permString v with
          | nil => rw [hps] at this; cases this
          | cons c tl => rw [hps] at this; exact ⟨c, tl, rfl, by simpa using this⟩
        · exact hdec _

/-- Per filter, the text half of the round trip: take any (field, value, operator) triple that
Build computed for a numeric filter. The token ToCommandLine prints for it
(`name ++ operator ++ printed value`) is split by the -F expression into the same three parts, the
names look up the same field and operator codes, and addFilter on those parts — on any rule data
under the same list — appends exactly the same triple. -/
theorem C07_filter_reparse (env : Env) (he : EnvOk env) (r : RuleData) (f v opc : Nat) (lhs opS rhs0 : Bytes)
    (a : Option Bytes)
    (hlhs : revLookup LA.Gen.RuleTables.fieldsTable f = some lhs)
    (hops : revLookup LA.Gen.RuleTables.operatorsTable opc = some opS)
    (hs : stringFields.contains f = false) (harch : (f == LA.Gen.RuleTables.archField) = false)
    (hbuilt : filterValue env r f opc rhs0 = some (v, none, a))
    (hexcl : (r.flags == LA.Gen.RuleTables.excludeFilter && !(excludeOkFields.contains f)) = false)
    (hperm : f = LA.Gen.RuleTables.permField → v ≠ 0) :
    matchFilter (lhs ++ opS ++ fieldRhs f v) = some (lhs, opS, fieldRhs f v) ∧
    addFilter env r lhs opS (fieldRhs f v) = some { r with trips := r.trips ++ [(f, v, opc)] } := by
  have nd1 : (LA.Gen.RuleTables.fieldsTable.map (·.1)).Nodup := by decide +kernel
  have nd2 : (LA.Gen.RuleTables.operatorsTable.map (·.1)).Nodup := by decide +kernel
  have names_ok : LA.Gen.RuleTables.fieldsTable.all (fun p => !p.1.isEmpty && p.1.all isReWord) = true := by decide +kernel
  have ops_ok : LA.Gen.RuleTables.operatorsTable.all (fun p => filterOps.contains p.1) = true := by decide +kernel
  have hf := lookupB_of_revLookup nd1 hlhs
  have ho := lookupB_of_revLookup nd2 hops
  obtain ⟨p1, hp1, hp1v⟩ := lookupB_mem hf
  -- the entry found by name is (lhs, f)
  have hlhs_ok : lhs ≠ [] ∧ ∀ b ∈ lhs, isReWord b = true := by
    unfold revLookup at hlhs
    cases hfd : LA.Gen.RuleTables.fieldsTable.find? (fun p => p.2 == f) with
    | none => rw [hfd] at hlhs; simp at hlhs
    | some q =>
      rw [hfd] at hlhs
      simp only [Option.map_some, Option.some.injEq] at hlhs
      have := List.all_eq_true.mp names_ok q (List.mem_of_find?_eq_some hfd)
      simp only [Bool.and_eq_true, Bool.not_eq_true', List.all_eq_true] at this
      rw [hlhs] at this
      exact ⟨by intro h; simp [h] at this, this.2⟩
  have hop_mem : opS ∈ filterOps := by
    unfold revLookup at hops
    cases hfd : LA.Gen.RuleTables.operatorsTable.find? (fun p => p.2 == opc) with
    | none => rw [hfd] at hops; simp at hops
    | some q =>
      rw [hfd] at hops
      simp only [Option.map_some, Option.some.injEq] at hops
      have := List.all_eq_true.mp ops_ok q (List.mem_of_find?_eq_some hfd)
      rw [hops] at this
      simpa using this
  have hperm' : f = LA.Gen.RuleTables.permField → 0 < v ∧ v < 16 := by
    intro hpf
    refine ⟨Nat.pos_of_ne_zero (hperm hpf), ?_⟩
    -- the perm branch of filterValue
    subst hpf
    have c1 : uidFields.contains LA.Gen.RuleTables.permField = false := by decide +kernel
    have c2 : gidFields.contains LA.Gen.RuleTables.permField = false := by decide +kernel
    have c3 : (LA.Gen.RuleTables.permField == LA.Gen.RuleTables.exitField) = false := by decide +kernel
    have c4 : (LA.Gen.RuleTables.permField == LA.Gen.RuleTables.msgTypeField) = false := by decide +kernel
    have c5 : stringFields.contains LA.Gen.RuleTables.permField = false := by decide +kernel
    have c6 : (LA.Gen.RuleTables.permField == LA.Gen.RuleTables.archField) = false := by decide +kernel
    unfold filterValue at hbuilt
    simp only [c1, c2, c3, c4, c5, c6, Bool.false_eq_true, if_false, beq_self_eq_true, if_true] at hbuilt
    split at hbuilt
    · simp at hbuilt
    · split at hbuilt
      · simp at hbuilt
      · obtain ⟨hw, _⟩ := mapTriple hbuilt
        exact getPerm_lt16 hw
  obtain ⟨c, tl, hrhs, hc⟩ := fieldRhs_head f v hperm'
  have hvr := C07_value_reparse env he r f opc rhs0 v a hs harch hbuilt
  refine ⟨?_, ?_⟩
  · rw [hrhs]; exact C07_filter_token_reparse lhs opS c tl hlhs_ok.1 hlhs_ok.2 hop_mem hc
  · unfold addFilter
    simp only [ho, hf, hexcl, Bool.false_eq_true, if_false, hvr, Option.map_some]

/-- String-valued filters and keys are printed verbatim (`name ++ operator ++ string`), so for
them the text half is: the token splits into the same three parts (when the string does not start
with '='), the names look up the same codes, and therefore addFilter on those parts does exactly
what it did on the original filter — same triple (value = length) and same string appended. -/
theorem C07_string_filter_reparse (env : Env) (r r' : RuleData) (f opc : Nat) (lhs0 op0 lhs opS : Bytes)
    (c : Nat) (tl : Bytes)
    (hlhs : revLookup LA.Gen.RuleTables.fieldsTable f = some lhs)
    (hops : revLookup LA.Gen.RuleTables.operatorsTable opc = some opS)
    (h0f : lookupB LA.Gen.RuleTables.fieldsTable lhs0 = some f)
    (h0o : lookupB LA.Gen.RuleTables.operatorsTable op0 = some opc)
    (hbuilt : addFilter env r lhs0 op0 (c :: tl) = some r') (hc : c ≠ 61) :
    matchFilter (lhs ++ opS ++ c :: tl) = some (lhs, opS, c :: tl) ∧
    addFilter env r lhs opS (c :: tl) = some r' := by
  have nd1 : (LA.Gen.RuleTables.fieldsTable.map (·.1)).Nodup := by decide +kernel
  have nd2 : (LA.Gen.RuleTables.operatorsTable.map (·.1)).Nodup := by decide +kernel
  have names_ok : LA.Gen.RuleTables.fieldsTable.all (fun p => !p.1.isEmpty && p.1.all isReWord) = true := by decide +kernel
  have ops_ok : LA.Gen.RuleTables.operatorsTable.all (fun p => filterOps.contains p.1) = true := by decide +kernel
  have hf := lookupB_of_revLookup nd1 hlhs
  have ho := lookupB_of_revLookup nd2 hops
  have hlhs_ok : lhs ≠ [] ∧ ∀ b ∈ lhs, isReWord b = true := by
    unfold revLookup at hlhs
    cases hfd : LA.Gen.RuleTables.fieldsTable.find? (fun p => p.2 == f) with
    | none => rw [hfd] at hlhs; simp at hlhs
    | some q =>
      rw [hfd] at hlhs
      simp only [Option.map_some, Option.some.injEq] at hlhs
      have := List.all_eq_true.mp names_ok q (List.mem_of_find?_eq_some hfd)
      simp only [Bool.and_eq_true, Bool.not_eq_true', List.all_eq_true] at this
      rw [hlhs] at this
      exact ⟨by intro h; simp [h] at this, this.2⟩
  have hop_mem : opS ∈ filterOps := by
    unfold revLookup at hops
    cases hfd : LA.Gen.RuleTables.operatorsTable.find? (fun p => p.2 == opc) with
    | none => rw [hfd] at hops; simp at hops
    | some q =>
      rw [hfd] at hops
      simp only [Option.map_some, Option.some.injEq] at hops
      have := List.all_eq_true.mp ops_ok q (List.mem_of_find?_eq_some hfd)
      rw [hops] at this
      simpa using this
  refine ⟨C07_filter_token_reparse lhs opS c tl hlhs_ok.1 hlhs_ok.2 hop_mem hc, ?_⟩
  unfold addFilter at hbuilt ⊢
  simp only [h0f, h0o] at hbuilt
  simp only [hf, ho]
  exact hbuilt

/-- Wire round trip: the library's own decoder (fromWireFormat + fromAuditRuleData, the first half
of ToCommandLine) inverts its encoder on everything rule.Build produces — list, action, every
(field, value, operator) triple in order, every string, and the syscall set (as a set; listed
syscalls come back sorted and de-duplicated). The only loss is the one recorded as
KF-C07-all-syscalls-listed: a mask whose first 63 words are all ones reads back as "all". -/
theorem C07_wire_roundtrip (env : Env) (he : EnvOk env) (rule : Rule) (b : Bytes) (h : build env rule = Res.ok b) :
    ∃ r a r', ruleDataOf env rule = some r ∧ fromWire b = Res.ok a ∧ fromArd a = Res.ok r' ∧
      r'.flags = r.flags ∧ r'.action = r.action ∧ r'.trips = r.trips ∧ r'.strings = r.strings ∧
      (r.allSyscalls = true → r'.allSyscalls = true) ∧
      (r'.allSyscalls = false → ∀ n, n ∈ r'.syscalls ↔ n ∈ r.syscalls) := by
  obtain ⟨r, hr, hdec, hlen, hcnt⟩ := C06_build_layout env he rule b h
  have hi := inv_ruleDataOf he hr
  have hal := aligned_ruleDataOf hr
  have hcnt' : r.trips.length ≤ 64 := by simpa [RuleData.fields] using hcnt
  have hw := wordsOk_of_inv hi hcnt'
  have hblen : b.length < 4294967296 := by
    have := strings_total_le hi
    omega
  have hfw := fromWire_of_decode hdec hblen
  simp only at hfw
  -- fromArd on the decoded struct
  have hdf := decodeFields_ok
    { flags := r.flags, action := r.action, fieldCount := r.fields.length, mask := maskOf r,
      fields := padTo 64 r.fields, values := padTo 64 r.values, fieldFlags := padTo 64 r.fieldFlags,
      bufLen := r.strings.flatten.length, buf := r.strings.flatten }
    r.trips r.strings 0 []
    (by intro k t hk; simp only [Nat.zero_add]; exact padTo_getElem? 64 _ k _ (by simp [RuleData.fields, hk]))
    (by intro k t hk; simp only [Nat.zero_add]; exact padTo_getElem? 64 _ k _ (by simp [RuleData.values, hk]))
    (by intro k t hk; simp only [Nat.zero_add]; exact padTo_getElem? 64 _ k _ (by simp [RuleData.fieldFlags, hk]))
    hal (by simp) rfl
  have hmf : LA.Gen.RuleTables.maxFields = 64 := by decide
  have hfl : r.fields.length = r.trips.length := by simp [RuleData.fields]
  have hnot : ¬ r.fields.length > LA.Gen.RuleTables.maxFields := by omega
  simp only [List.length_nil] at hdf
  rw [← hfl] at hdf
  have hfa : fromArd
      { flags := r.flags, action := r.action, fieldCount := r.fields.length, mask := maskOf r,
        fields := padTo 64 r.fields, values := padTo 64 r.values, fieldFlags := padTo 64 r.fieldFlags,
        bufLen := r.strings.flatten.length, buf := r.strings.flatten } =
      Res.ok { flags := r.flags, action := r.action,
               allSyscalls := ((maskOf r).take 63).all (· == 0xFFFFFFFF),
               syscalls := if ((maskOf r).take 63).all (· == 0xFFFFFFFF) then [] else syscallsOfMask (maskOf r),
               trips := r.trips, strings := r.strings } := by
    unfold fromArd
    simp only [hnot, if_false, hdf, bind, Bind.bind, zip_map3]
  refine ⟨r, _, _, hr, hfw, hfa, rfl, rfl, rfl, rfl, ?_, ?_⟩
  · intro hall
    simp [maskOf, hall]
  · intro hfalse n
    simp only at hfalse
    have hall : r.allSyscalls = false := by
      cases hra : r.allSyscalls with
      | false => rfl
      | true => simp [maskOf, hra] at hfalse
    simp only [hfalse, Bool.false_eq_true, if_false]
    exact syscalls_of_maskOf r hall hi.syscalls n

/-- First clause of C07: for every rule that Build accepts, ToCommandLine succeeds on its wire
form — every list, action, operator, field and comparison code Build can emit has a name, every
architecture it accepts can be displayed, and the strings are where the printer looks for them. -/
theorem C07_print_total (env : Env) (he : EnvOk env) (rule : Rule) (b : Bytes) (h : build env rule = Res.ok b) :
    ∃ text, toCommandLine b = Res.ok text := by
  obtain ⟨r, a, r', hr, hfw, hfa, hfl, hac, htr, hst, _, _⟩ := C07_wire_roundtrip env he rule b h
  have hp := printInv_ruleDataOf he hr
  have hal := aligned_ruleDataOf hr
  have hsome := cmdLineOf_isSome r' (by rw [hfl]; exact hp.list) (by rw [hac]; exact hp.action)
    (by rw [htr]; exact hp.trips) (by rw [htr, hst]; exact hal)
  cases hc : cmdLineOf r' with
  | none => rw [hc] at hsome; cases hsome
  | some text =>
    refine ⟨text, ?_⟩
    unfold toCommandLine
    simp only [hfw, hfa, hc, bind, Bind.bind]

/-- non-vacuity of the wire round trip: a rule with a string field, a numeric field, two syscalls. -/
example : (match build ⟨false, [], []⟩ (.syscall 3 (ofString "exit") (ofString "always")
    [⟨2, ofString "path", [61], ofString "/etc/passwd"⟩, ⟨2, ofString "pid", [61], ofString "1"⟩] [ofString "2", ofString "59"] [ofString "k"]) with
    | .ok b => (match fromWire b with
      | .ok a => (match fromArd a with
        | .ok r => decide (r.syscalls = [2, 59] ∧ r.strings = [ofString "/etc/passwd", ofString "k"] ∧ r.trips.length = 3)
        | _ => false)
      | _ => false)
    | _ => false) = true := by decide +kernel

end LA.Rule
