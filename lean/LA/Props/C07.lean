/-
C07 — Decoding a built rule gives text that re-encodes to the same rule.

Proved here: for every field class, the value parser accepts what the printer emits and returns
the same 32-bit word (the clause that made listed rules un-reinstallable before the fix
commits); the watch form is printed only for rules that are exactly what `-w` builds.
The whole-rule statement (text re-parses, bytes identical, text stable) is established by the
correspondence and the monitor on generated rules; three input classes on which it is false of
the code are recorded as known findings (KF-C07-arch-order, KF-C07-backslash,
KF-C07-all-syscalls-listed) and the full statement is kept below as `C07_roundtrip_full`.
-/
import LA.Proofs.Num
import LA.Proofs.Tables
import LA.Model.Flags
import LA.Proofs.TablesRT
import LA.Props.C06
import LA.Proofs.RuleWire
import LA.Proofs.RulePrint
import LA.Proofs.RuleExit
import LA.Proofs.RuleText
import LA.Proofs.RuleTextStr
import LA.Proofs.Trim
import LA.Gen.Syscalls_x86_64
import LA.Proofs.StateFacts

namespace LA.Rule
open LA LA.Flags
open LA.Auparse (Res)

/-- the full statement of the property (not proved: false on the recorded finding classes). -/
def C07_roundtrip_full : Prop :=
  ∀ (env : Env) (args : List Bytes) (r : Rule) (b text : Bytes),
    parseArgs args = some r → build env r = Res.ok b →
    toCommandLine b = Res.ok text ∧
    ∃ r', parseArgs (splitByte 32 text) = some r' ∧ build env r' = Res.ok b

/-- uid class: every 32-bit value is printed in a form the uid parser maps back to it
(4294967295 is printed as -1, everything else unsigned). -/
theorem C07_uid_print_parse (env : Env) (v : Nat) (h : v < 4294967296) :
    getUID env (if v == 4294967295 then ofString "-1" else dec v) = some v := by
  by_cases hv : v = 4294967295
  · subst hv; simp [getUID, ofString]
  · have hb : (v == 4294967295) = false := by simpa using hv
    simp only [hb, Bool.false_eq_true, if_false]
    obtain ⟨d, tl, hd, hdig⟩ : ∃ d tl, dec v = d :: tl ∧ isDigit d = true := by
      cases hh : dec v with
      | nil => exact absurd hh (dec_ne_nil v)
      | cons d tl => exact ⟨d, tl, rfl, dec_digits v d (by rw [hh]; simp)⟩
    have hd' : 48 ≤ d ∧ d ≤ 57 := by simpa [isDigit] using hdig
    unfold getUID
    have h1 : (dec v == ofString "unset" || dec v == ofString "-1") = false := by
      rw [hd]
      have a : (d :: tl == ofString "unset") = false := by
        simp only [ofString, beq_eq_false_iff_ne, ne_eq]
        intro hh
        have : d = 117 := by simpa using congrArg List.head? hh
        omega
      have b : (d :: tl == ofString "-1") = false := by
        simp only [ofString, beq_eq_false_iff_ne, ne_eq]
        intro hh
        have : d = 45 := by simpa using congrArg List.head? hh
        omega
      simp [a, b]
    simp only [h1, Bool.false_eq_true, if_false, parseUintGo_dec10 v 32 (by omega)]
    simp

/-- gid class: printed unsigned, parsed back to the same word. -/
theorem C07_gid_print_parse (env : Env) (v : Nat) (h : v < 4294967296) : getGID env (dec v) = some v := by
  simp [getGID, parseUintGo_dec10 v 32 (by omega)]

/-- generic numeric fields (pid, a0–a3, inode, devmajor, …) and numeric filetype / msgtype above
65535: printed as unsigned decimal, parsed back (base-0 parser) to the same word. -/
theorem C07_num_print_parse (v : Nat) (h : v < 4294967296) : parseNum (dec v) = some v := by
  obtain ⟨d, tl, hd, hdig⟩ : ∃ d tl, dec v = d :: tl ∧ isDigit d = true := by
    cases hh : dec v with
    | nil => exact absurd hh (dec_ne_nil v)
    | cons d tl => exact ⟨d, tl, rfl, dec_digits v d (by rw [hh]; simp)⟩
  have hd' : 48 ≤ d ∧ d ≤ 57 := by simpa [isDigit] using hdig
  unfold parseNum
  have hp := parseUintGo_dec0 v 32 (by omega)
  rw [hd] at hp ⊢
  split
  · rename_i heq; simp at heq; omega
  · simp [hp]

theorem C07_msgtype_number (v : Nat) (h : v < 4294967296) : getAuditMsgType (dec v) = some v := by
  simp [getAuditMsgType, parseUintGo_dec0 v 32 (by omega)]

/-- perm: the printed letters parse back to the same permission bits (for the 16 valid words). -/
theorem C07_perm_print_parse : ∀ bits < 16, getPerm (permString bits) = some bits := by decide +kernel

/-- filetype: each of the seven S_IF* values, printed as a number, is accepted and maps back. -/
theorem C07_filetype_print_parse :
    ∀ p ∈ filetypeNames, getFiletype (dec p.2) = some p.2 ∧ getFiletype p.1 = some p.2 := by
  have hdec : dec 32768 = ofString "32768" ∧ dec 16384 = ofString "16384" ∧ dec 49152 = ofString "49152" ∧
      dec 40960 = ofString "40960" ∧ dec 8192 = ofString "8192" ∧ dec 24576 = ofString "24576" ∧ dec 4096 = ofString "4096" := by
    refine ⟨?_, ?_, ?_, ?_, ?_, ?_, ?_⟩ <;> (simp [dec, ofString])
  obtain ⟨h1, h2, h3, h4, h5, h6, h7⟩ := hdec
  intro p hp
  simp only [filetypeNames, List.mem_cons, List.mem_nil_iff, or_false] at hp
  have c1 : LA.Gen.RuleTables.fileFiletype = 32768 := by decide
  have c2 : LA.Gen.RuleTables.dirFiletype = 16384 := by decide
  have c3 : LA.Gen.RuleTables.socketFiletype = 49152 := by decide
  have c4 : LA.Gen.RuleTables.linkFiletype = 40960 := by decide
  have c5 : LA.Gen.RuleTables.characterFiletype = 8192 := by decide
  have c6 : LA.Gen.RuleTables.blockFiletype = 24576 := by decide
  have c7 : LA.Gen.RuleTables.fifoFiletype = 4096 := by decide
  rcases hp with rfl | rfl | rfl | rfl | rfl | rfl | rfl
  · simp only [c1, h1]; decide +kernel
  · simp only [c2, h2]; decide +kernel
  · simp only [c3, h3]; decide +kernel
  · simp only [c4, h4]; decide +kernel
  · simp only [c5, h5]; decide +kernel
  · simp only [c6, h6]; decide +kernel
  · simp only [c7, h7]; decide +kernel

/-- msgtype up to 65535 is printed as its record type name (or UNKNOWN[n]) and the parser maps
the name back: no record type name is a number, so the numeric parser reports a syntax error
and the name lookup (C20) takes over. -/
theorem typeName_head (t : Nat) : ∃ d tl, MsgType.typeName t = d :: tl ∧ 65 ≤ d ∧ d ≤ 90 := by
  have cert : LA.Gen.MsgTypes.typeToName.all (fun p => match p.2 with | d :: _ => decide (65 ≤ d ∧ d ≤ 90) | [] => false) = true := by
    decide +kernel
  rcases MsgType.typeName_cases t with h | ⟨n, h, hm⟩
  · exact ⟨85, _, by rw [h]; rfl, by omega, by omega⟩
  · have := List.all_eq_true.mp cert (t, n) hm
    rw [h]
    cases n with
    | nil => simp at this
    | cons d tl => exact ⟨d, tl, rfl, by simpa using this⟩

theorem C07_msgtype_name (t : Nat) (h : t < 65536) : getAuditMsgType (MsgType.typeName t) = some t := by
  obtain ⟨d, tl, hd, hd1, hd2⟩ := typeName_head t
  unfold getAuditMsgType
  have hsyn : parseUintGo (MsgType.typeName t) 0 32 = .syntax := by
    rw [hd]
    unfold parseUintGo
    simp only [List.isEmpty_cons, Bool.false_eq_true, if_false, beq_self_eq_true, if_true]
    have hb : basePrefix (d :: tl) = (10, d :: tl) := by
      unfold basePrefix
      split
      · rename_i heq; simp at heq; omega
      · rename_i heq; simp at heq; omega
      · rfl
    simp only [hb]
    have hl : digitLoop 10 (2 ^ 32 - 1) true (d :: tl) 0 false = (.syntax, false) := by
      unfold digitLoop
      have h95 : (d == 95 && true) = false := by
        have : (d == 95) = false := by simp; omega
        simp [this]
      simp only [h95, Bool.false_eq_true, if_false]
      have hdv : digitVal d = some (d + 32 - 97 + 10) := by
        simp only [digitVal, lowerB]
        have h1 : ¬ (48 ≤ d ∧ d ≤ 57) := by omega
        have h2 : (65 ≤ d ∧ d ≤ 90) := ⟨hd1, hd2⟩
        simp only [h1, if_false, h2, and_self, if_true]
        have h3 : 97 ≤ d + 32 ∧ d + 32 ≤ 122 := by omega
        simp [h3]
      simp only [hdv]
      have : d + 32 - 97 + 10 ≥ 10 := by omega
      simp [this]
    simp [hl]
  simp only [hsyn]
  exact LA.TablesRT.type_roundtrip t h

/-- The watch form (-w PATH -p PERM [-k KEY]) is used only for rules that are exactly what -w
builds: always,exit, all syscalls, path=/dir= then perm= then optionally key=, all with '=',
a clean absolute path, a non-empty permission set, a key without comma. -/
theorem C07_watch_form_exact (r : RuleData) (path perm key : Bytes) (h : asFileWatch r = some (path, perm, key)) :
    r.allSyscalls = true ∧ r.flags = LA.Gen.RuleTables.exitFilter ∧ r.action = LA.Gen.RuleTables.alwaysAction ∧
    (r.fields.length = 2 ∨ r.fields.length = 3) ∧ r.fieldFlags.all (· == eqOp) = true := by
  unfold asFileWatch at h
  simp only at h
  split at h
  · simp at h
  · rename_i hc
    split at h
    · simp at h
    · rename_i hops
      simp only [Bool.or_eq_true, Bool.not_eq_true', bne_iff_ne, ne_eq, Bool.and_eq_true, not_or, not_and,
        Decidable.not_not, Bool.not_eq_false] at hc hops
      obtain ⟨⟨⟨⟨h1, h2⟩, h3⟩, h4⟩, _⟩ := hc
      refine ⟨h1, h2, h3, ?_, hops⟩
      by_cases h5 : r.fields.length = 2
      · exact Or.inl h5
      · exact Or.inr (h4 h5)

/-- exit class: every 32-bit exit value is printed (as -ENAME when the negated value is a known
errno, else as a signed decimal) in a form getExitCode reads back to the same word. -/
theorem C07_exit_print_parse (v : Nat) (h : v < 4294967296) :
    ∃ c, getExitCode (exitString v) = some c ∧ toU32 c = v := by
  unfold exitString
  simp only
  generalize hcode : (if v ≥ 2147483648 then (v : Int) - 4294967296 else (v : Int)) = code
  have hrange : -2147483648 ≤ code ∧ code < 2147483648 := by
    rw [← hcode]; split <;> omega
  have hback : toU32 code = v := by
    rw [← hcode]; unfold toU32; split <;> omega
  cases hn : (if code ≤ 0 then Tables.errnoName (-code).toNat else none) with
  | some name =>
    simp only
    split at hn
    · rename_i hle
      have hnum := LA.TablesRT.errno_num_name_num _ _ hn
      obtain ⟨c, tl, hname, hc⟩ := errno_names_upper ((-code).toNat, name) (lookupN_mem hn)
      simp only at hname
      refine ⟨code, ?_, hback⟩
      unfold getExitCode
      rw [hname, parseIntGo_minus_name c tl hc]
      simp only
      rw [← hname, hnum]
      simp only [Option.some.injEq]
      omega
    · cases hn
  | none =>
    simp only
    refine ⟨code, ?_, hback⟩
    unfold getExitCode decInt
    by_cases hneg : code < 0
    · rw [if_pos hneg, parseIntGo_dec_neg code.natAbs (by omega)]
      simp only [Option.some.injEq]
      omega
    · rw [if_neg hneg, parseIntGo_dec_pos code.toNat (by omega)]
      simp only [Option.some.injEq]
      omega

/-- One statement for every numeric filter: whatever value word Build computed for a filter on
field `f` (any field except the string-valued ones and arch, which are covered by
`C07_wire_roundtrip` and `C07_print_total`), the text ToCommandLine prints for that word
(`fieldRhs f v`) is accepted by the same value parser under the same list and operator and
yields the same word. Composes the per-class theorems above. -/
theorem C07_value_reparse (env : Env) (he : EnvOk env) (r : RuleData) (f opc : Nat) (rhs : Bytes) (v : Nat)
    (a : Option Bytes) (hs : stringFields.contains f = false) (harch : (f == LA.Gen.RuleTables.archField) = false)
    (h : filterValue env r f opc rhs = some (v, none, a)) :
    filterValue env r f opc (fieldRhs f v) = some (v, none, none) := by
  have uid_ne : uidFields.all (fun x => x != LA.Gen.RuleTables.exitField) = true := by decide +kernel
  have gid_ne : gidFields.all (fun x => x != LA.Gen.RuleTables.exitField && !(uidFields.contains x) &&
      x != LA.Gen.RuleTables.msgTypeField && x != LA.Gen.RuleTables.permField) = true := by decide +kernel
  unfold filterValue at h ⊢
  by_cases c1 : uidFields.contains f = true
  · rw [if_pos c1] at h ⊢
    obtain ⟨hw, _⟩ := mapTriple h
    have hne := List.all_eq_true.mp uid_ne f (by simpa using c1)
    have hne' : (f == LA.Gen.RuleTables.exitField) = false := by simpa using hne
    simp only [fieldRhs, hne', Bool.false_eq_true, if_false, c1, if_true]
    rw [C07_uid_print_parse env v (getUID_lt he hw)]; rfl
  rw [if_neg c1] at h ⊢
  by_cases c2 : gidFields.contains f = true
  · rw [if_pos c2] at h ⊢
    obtain ⟨hw, _⟩ := mapTriple h
    have hne := List.all_eq_true.mp gid_ne f (by simpa using c2)
    simp only [Bool.and_eq_true, bne_iff_ne, ne_eq, Bool.not_eq_true'] at hne
    obtain ⟨⟨⟨n1, n2⟩, n3⟩, n4⟩ := hne
    have e1 : (f == LA.Gen.RuleTables.exitField) = false := by simpa using n1
    have e3 : (f == LA.Gen.RuleTables.msgTypeField) = false := by simpa using n3
    have e4 : (f == LA.Gen.RuleTables.permField) = false := by simpa using n4
    simp only [fieldRhs, e1, n2, e3, e4, Bool.false_eq_true, if_false]
    rw [C07_gid_print_parse env v (getGID_lt he hw)]; rfl
  rw [if_neg c2] at h ⊢
  by_cases c3 : (f == LA.Gen.RuleTables.exitField) = true
  · rw [if_pos c3] at h ⊢
    split at h
    · simp at h
    · rename_i hfl
      rw [if_neg hfl]
      cases hg : getExitCode rhs with
      | none => rw [hg] at h; simp at h
      | some w =>
        rw [hg] at h
        simp only [Option.map_some, Option.some.injEq, Prod.mk.injEq] at h
        obtain ⟨hv, _⟩ := h
        obtain ⟨c, hc1, hc2⟩ := C07_exit_print_parse v (by rw [← hv]; exact toU32_lt w)
        simp only [fieldRhs, c3, if_true, hc1, Option.map_some, hc2]
  rw [if_neg c3] at h ⊢
  have e1 : (f == LA.Gen.RuleTables.exitField) = false := by simpa using c3
  have e2 : uidFields.contains f = false := by simpa using c1
  by_cases c4 : (f == LA.Gen.RuleTables.msgTypeField) = true
  · rw [if_pos c4] at h ⊢
    split at h
    · simp at h
    · rename_i hfl
      rw [if_neg hfl]
      obtain ⟨hw, _⟩ := mapTriple h
      have hlt := getAuditMsgType_lt hw
      simp only [fieldRhs, e1, e2, c4, Bool.false_eq_true, if_false, if_true]
      by_cases hv : v ≤ 65535
      · rw [if_pos hv, C07_msgtype_name v (by omega)]; rfl
      · rw [if_neg hv, C07_msgtype_number v hlt]; rfl
  rw [if_neg c4] at h ⊢
  have e3 : (f == LA.Gen.RuleTables.msgTypeField) = false := by simpa using c4
  simp only [hs, Bool.false_eq_true, if_false, harch] at h ⊢
  by_cases c7 : (f == LA.Gen.RuleTables.permField) = true
  · rw [if_pos c7] at h ⊢
    split at h
    · simp at h
    · rename_i hfl
      rw [if_neg hfl]
      split at h
      · simp at h
      · rename_i hop
        rw [if_neg hop]
        obtain ⟨hw, _⟩ := mapTriple h
        simp only [fieldRhs, e1, e2, e3, c7, Bool.false_eq_true, if_false, if_true]
        rw [C07_perm_print_parse v (getPerm_lt16 hw)]; rfl
  rw [if_neg c7] at h ⊢
  have e4 : (f == LA.Gen.RuleTables.permField) = false := by simpa using c7
  have hrhs : fieldRhs f v = dec v := by
    simp only [fieldRhs, e1, e2, e3, e4, Bool.false_eq_true, if_false]
  rw [hrhs]
  by_cases c8 : (f == LA.Gen.RuleTables.filetypeField) = true
  · rw [if_pos c8] at h ⊢
    split at h
    · simp at h
    · rename_i hfl
      rw [if_neg hfl]
      obtain ⟨hw, _⟩ := mapTriple h
      obtain ⟨p, hp1, hp2⟩ := getFiletype_mem hw
      rw [← hp2, (C07_filetype_print_parse p hp1).1]; rfl
  rw [if_neg c8] at h ⊢
  by_cases c9 : (f == LA.Gen.RuleTables.inodeField) = true
  · rw [if_pos c9] at h ⊢
    split at h
    · simp at h
    · rename_i hfl
      rw [if_neg hfl]
      split at h
      · simp at h
      · rename_i hop
        rw [if_neg hop]
        obtain ⟨hw, _⟩ := mapTriple h
        rw [C07_num_print_parse v (parseNum_lt hw)]; rfl
  rw [if_neg c9] at h ⊢
  by_cases c10 : (f == LA.Gen.RuleTables.saddrFamField) = true
  · rw [if_pos c10] at h ⊢
    cases hp : parseNum rhs with
    | none => rw [hp] at h; simp at h
    | some n =>
      rw [hp] at h
      simp only [Option.bind_some] at h
      split at h
      · rename_i hn
        simp only [Option.some.injEq, Prod.mk.injEq] at h
        obtain ⟨rfl, _⟩ := h
        rw [C07_num_print_parse n (parseNum_lt hp)]
        simp only [Option.bind_some, hn, if_true]
      · simp at h
  rw [if_neg c10] at h ⊢
  by_cases c11 : [LA.Gen.RuleTables.devMajorField, LA.Gen.RuleTables.devMinorField, LA.Gen.RuleTables.successField,
      LA.Gen.RuleTables.ppidField].contains f = true
  · rw [if_pos c11] at h ⊢
    split at h
    · simp at h
    · rename_i hfl
      rw [if_neg hfl]
      obtain ⟨hw, _⟩ := mapTriple h
      rw [C07_num_print_parse v (parseNum_lt hw)]; rfl
  rw [if_neg c11] at h ⊢
  obtain ⟨hw, _⟩ := mapTriple h
  rw [C07_num_print_parse v (parseNum_lt hw)]; rfl

/-! ### the printed `-F` token re-parses -/

theorem filterOps_eq : filterOps = [[60, 61], [62, 61], [38, 61], [61], [33, 61], [60], [62], [38]] := by decide

theorem takeWhile_append_stop' {p : Nat → Bool} (a : Bytes) (c : Nat) (t : Bytes) (ha : ∀ b ∈ a, p b = true)
    (hc : p c = false) : (a ++ c :: t).takeWhile p = a := by
  induction a with
  | nil => simp [List.takeWhile_cons, hc]
  | cons x xs ih =>
    simp only [List.cons_append, List.takeWhile_cons, ha x (by simp), if_true]
    rw [ih (fun b hb => ha b (by simp [hb]))]

/-- a printed `-F` token `lhs ++ op ++ rhs` — field name of word characters, one of the eight
operators, a value that is not empty and does not start with '=' — is split by the -F expression
into exactly those three parts (the value may contain anything after its first byte). -/
theorem C07_filter_token_reparse (lhs op : Bytes) (c : Nat) (tl : Bytes)
    (hl : lhs ≠ []) (hw : ∀ b ∈ lhs, isReWord b = true) (hop : op ∈ filterOps) (hc : c ≠ 61) :
    matchFilter (lhs ++ op ++ c :: tl) = some (lhs, op, c :: tl) := by
  rw [filterOps_eq] at hop
  -- every operator starts with a byte that is neither a word character nor white space
  obtain ⟨o, otl, rfl, ho1, ho2⟩ : ∃ o otl, op = o :: otl ∧ isReWord o = false ∧ isReSpace o = false := by
    simp only [List.mem_cons, List.mem_nil_iff, or_false] at hop
    rcases hop with rfl | rfl | rfl | rfl | rfl | rfl | rfl | rfl <;> exact ⟨_, _, rfl, by decide, by decide⟩
  have e0 : lhs ++ (o :: otl) ++ c :: tl = lhs ++ o :: (otl ++ c :: tl) := by simp
  have htw : (lhs ++ (o :: otl) ++ c :: tl).takeWhile isReWord = lhs := by
    rw [e0]; exact takeWhile_append_stop' lhs o _ hw ho1
  unfold matchFilter
  simp only [htw]
  have hne : lhs.isEmpty = false := by cases lhs with | nil => exact absurd rfl hl | cons _ _ => rfl
  simp only [hne, Bool.false_eq_true, if_false]
  have hd : (lhs ++ (o :: otl) ++ c :: tl).drop lhs.length = o :: (otl ++ c :: tl) := by
    rw [e0, List.drop_left' rfl]
  rw [hd]
  have hdw : (o :: (otl ++ c :: tl)).dropWhile isReSpace = o :: (otl ++ c :: tl) := by
    simp [List.dropWhile_cons, ho2]
  rw [hdw, filterOps_eq]
  have hc' : (c == 61) = false := by simpa using hc
  have hc'' : ((61 : Nat) == c) = false := by simp; omega
  simp only [List.mem_cons, List.mem_nil_iff, or_false] at hop
  rcases hop with h | h | h | h | h | h | h | h <;>
    (obtain ⟨rfl, rfl⟩ := List.cons.inj h
     simp [hasPrefix, List.find?_cons, List.isPrefixOf, hc', hc''])

theorem lookupB_of_mem_nodup {l : List (Bytes × Nat)} (hnd : (l.map (·.1)).Nodup) {k : Bytes} {v : Nat}
    (h : (k, v) ∈ l) : lookupB l k = some v := by
  induction l with
  | nil => cases h
  | cons p ps ih =>
    simp only [List.map_cons, List.nodup_cons] at hnd
    unfold lookupB
    simp only [List.find?_cons]
    rcases List.mem_cons.mp h with rfl | h'
    · simp
    · have hne : (p.1 == k) = false := by
        simp only [beq_eq_false_iff_ne, ne_eq]
        intro heq
        exact hnd.1 (List.mem_map.mpr ⟨(k, v), h', heq.symm⟩)
      simp only [hne]
      exact ih hnd.2 h'

theorem lookupB_of_revLookup {l : List (Bytes × Nat)} (hnd : (l.map (·.1)).Nodup) {k : Bytes} {v : Nat}
    (h : revLookup l v = some k) : lookupB l k = some v := by
  unfold revLookup at h
  cases hf : l.find? (fun p => p.2 == v) with
  | none => rw [hf] at h; simp at h
  | some p =>
    rw [hf] at h
    simp only [Option.map_some, Option.some.injEq] at h
    have hp := List.find?_some hf
    have hv : p.2 = v := by simpa using hp
    exact lookupB_of_mem_nodup hnd (by rw [← h, ← hv]; exact List.mem_of_find?_eq_some hf)

/-- the printed value of a numeric filter is not empty and does not start with '=' -/
theorem fieldRhs_head (f v : Nat) (hperm : f = LA.Gen.RuleTables.permField → 0 < v ∧ v < 16) :
    ∃ c tl, fieldRhs f v = c :: tl ∧ c ≠ 61 := by
  have hdec : ∀ n, ∃ c tl, dec n = c :: tl ∧ c ≠ 61 := by
    intro n
    obtain ⟨d, tl, hd, h1, h2⟩ := dec_cons_digit n
    exact ⟨d, tl, hd, by omega⟩
  unfold fieldRhs
  split
  · -- exit
    unfold exitString
    simp only
    generalize (if v ≥ 2147483648 then (v : Int) - 4294967296 else (v : Int)) = code
    cases (if code ≤ 0 then Tables.errnoName (-code).toNat else none) with
    | some name => exact ⟨45, _, rfl, by decide⟩
    | none =>
      simp only
      unfold decInt
      split
      · exact ⟨45, _, rfl, by decide⟩
      · exact hdec _
  · split
    · split
      · exact ⟨45, [49], rfl, by decide⟩
      · exact hdec _
    · split
      · split
        · obtain ⟨d, tl, hd, h1, h2⟩ := typeName_head v
          exact ⟨d, tl, hd, by omega⟩
        · exact hdec _
      · split
        · rename_i hp
          have hpf : f = LA.Gen.RuleTables.permField := by simpa using hp
          obtain ⟨h0, h16⟩ := hperm hpf
          have cert : (List.range 16).all (fun bits => bits == 0 ||
              (match permString bits with | c :: _ => c != 61 | [] => false)) = true := by decide +kernel
          have := List.all_eq_true.mp cert v (List.mem_range.mpr h16)
          have hv0 : (v == 0) = false := by simp; omega
          simp only [hv0, Bool.false_or] at this
          cases hps : permString v with
          | nil => rw [hps] at this; cases this
          | cons c tl => rw [hps] at this; exact ⟨c, tl, rfl, by simpa using this⟩
        · exact hdec _

/-- Per filter, the text half of the round trip: take any (field, value, operator) triple that
Build computed for a numeric filter. The token ToCommandLine prints for it
(`name ++ operator ++ printed value`) is split by the -F expression into the same three parts, the
names look up the same field and operator codes, and addFilter on those parts — on any rule data
under the same list — appends exactly the same triple. -/
theorem C07_filter_reparse (env : Env) (he : EnvOk env) (r : RuleData) (f v opc : Nat) (lhs opS rhs0 : Bytes)
    (a : Option Bytes)
    (hlhs : revLookup LA.Gen.RuleTables.fieldsTable f = some lhs)
    (hops : revLookup LA.Gen.RuleTables.operatorsTable opc = some opS)
    (hs : stringFields.contains f = false) (harch : (f == LA.Gen.RuleTables.archField) = false)
    (hbuilt : filterValue env r f opc rhs0 = some (v, none, a))
    (hexcl : (r.flags == LA.Gen.RuleTables.excludeFilter && !(excludeOkFields.contains f)) = false)
    (hperm : f = LA.Gen.RuleTables.permField → v ≠ 0) :
    matchFilter (lhs ++ opS ++ fieldRhs f v) = some (lhs, opS, fieldRhs f v) ∧
    addFilter env r lhs opS (fieldRhs f v) = some { r with trips := r.trips ++ [(f, v, opc)] } := by
  have nd1 : (LA.Gen.RuleTables.fieldsTable.map (·.1)).Nodup := by decide +kernel
  have nd2 : (LA.Gen.RuleTables.operatorsTable.map (·.1)).Nodup := by decide +kernel
  have names_ok : LA.Gen.RuleTables.fieldsTable.all (fun p => !p.1.isEmpty && p.1.all isReWord) = true := by decide +kernel
  have ops_ok : LA.Gen.RuleTables.operatorsTable.all (fun p => filterOps.contains p.1) = true := by decide +kernel
  have hf := lookupB_of_revLookup nd1 hlhs
  have ho := lookupB_of_revLookup nd2 hops
  obtain ⟨p1, hp1, hp1v⟩ := lookupB_mem hf
  -- the entry found by name is (lhs, f)
  have hlhs_ok : lhs ≠ [] ∧ ∀ b ∈ lhs, isReWord b = true := by
    unfold revLookup at hlhs
    cases hfd : LA.Gen.RuleTables.fieldsTable.find? (fun p => p.2 == f) with
    | none => rw [hfd] at hlhs; simp at hlhs
    | some q =>
      rw [hfd] at hlhs
      simp only [Option.map_some, Option.some.injEq] at hlhs
      have := List.all_eq_true.mp names_ok q (List.mem_of_find?_eq_some hfd)
      simp only [Bool.and_eq_true, Bool.not_eq_true', List.all_eq_true] at this
      rw [hlhs] at this
      exact ⟨by intro h; simp [h] at this, this.2⟩
  have hop_mem : opS ∈ filterOps := by
    unfold revLookup at hops
    cases hfd : LA.Gen.RuleTables.operatorsTable.find? (fun p => p.2 == opc) with
    | none => rw [hfd] at hops; simp at hops
    | some q =>
      rw [hfd] at hops
      simp only [Option.map_some, Option.some.injEq] at hops
      have := List.all_eq_true.mp ops_ok q (List.mem_of_find?_eq_some hfd)
      rw [hops] at this
      simpa using this
  have hperm' : f = LA.Gen.RuleTables.permField → 0 < v ∧ v < 16 := by
    intro hpf
    refine ⟨Nat.pos_of_ne_zero (hperm hpf), ?_⟩
    -- the perm branch of filterValue
    subst hpf
    have c1 : uidFields.contains LA.Gen.RuleTables.permField = false := by decide +kernel
    have c2 : gidFields.contains LA.Gen.RuleTables.permField = false := by decide +kernel
    have c3 : (LA.Gen.RuleTables.permField == LA.Gen.RuleTables.exitField) = false := by decide +kernel
    have c4 : (LA.Gen.RuleTables.permField == LA.Gen.RuleTables.msgTypeField) = false := by decide +kernel
    have c5 : stringFields.contains LA.Gen.RuleTables.permField = false := by decide +kernel
    have c6 : (LA.Gen.RuleTables.permField == LA.Gen.RuleTables.archField) = false := by decide +kernel
    unfold filterValue at hbuilt
    simp only [c1, c2, c3, c4, c5, c6, Bool.false_eq_true, if_false, beq_self_eq_true, if_true] at hbuilt
    split at hbuilt
    · simp at hbuilt
    · split at hbuilt
      · simp at hbuilt
      · obtain ⟨hw, _⟩ := mapTriple hbuilt
        exact getPerm_lt16 hw
  obtain ⟨c, tl, hrhs, hc⟩ := fieldRhs_head f v hperm'
  have hvr := C07_value_reparse env he r f opc rhs0 v a hs harch hbuilt
  refine ⟨?_, ?_⟩
  · rw [hrhs]; exact C07_filter_token_reparse lhs opS c tl hlhs_ok.1 hlhs_ok.2 hop_mem hc
  · unfold addFilter
    simp only [ho, hf, hexcl, Bool.false_eq_true, if_false, hvr, Option.map_some]

/-- String-valued filters and keys are printed verbatim (`name ++ operator ++ string`), so for
them the text half is: the token splits into the same three parts (when the string does not start
with '='), the names look up the same codes, and therefore addFilter on those parts does exactly
what it did on the original filter — same triple (value = length) and same string appended. -/
theorem C07_string_filter_reparse (env : Env) (r r' : RuleData) (f opc : Nat) (lhs0 op0 lhs opS : Bytes)
    (c : Nat) (tl : Bytes)
    (hlhs : revLookup LA.Gen.RuleTables.fieldsTable f = some lhs)
    (hops : revLookup LA.Gen.RuleTables.operatorsTable opc = some opS)
    (h0f : lookupB LA.Gen.RuleTables.fieldsTable lhs0 = some f)
    (h0o : lookupB LA.Gen.RuleTables.operatorsTable op0 = some opc)
    (hbuilt : addFilter env r lhs0 op0 (c :: tl) = some r') (hc : c ≠ 61) :
    matchFilter (lhs ++ opS ++ c :: tl) = some (lhs, opS, c :: tl) ∧
    addFilter env r lhs opS (c :: tl) = some r' := by
  have nd1 : (LA.Gen.RuleTables.fieldsTable.map (·.1)).Nodup := by decide +kernel
  have nd2 : (LA.Gen.RuleTables.operatorsTable.map (·.1)).Nodup := by decide +kernel
  have names_ok : LA.Gen.RuleTables.fieldsTable.all (fun p => !p.1.isEmpty && p.1.all isReWord) = true := by decide +kernel
  have ops_ok : LA.Gen.RuleTables.operatorsTable.all (fun p => filterOps.contains p.1) = true := by decide +kernel
  have hf := lookupB_of_revLookup nd1 hlhs
  have ho := lookupB_of_revLookup nd2 hops
  have hlhs_ok : lhs ≠ [] ∧ ∀ b ∈ lhs, isReWord b = true := by
    unfold revLookup at hlhs
    cases hfd : LA.Gen.RuleTables.fieldsTable.find? (fun p => p.2 == f) with
    | none => rw [hfd] at hlhs; simp at hlhs
    | some q =>
      rw [hfd] at hlhs
      simp only [Option.map_some, Option.some.injEq] at hlhs
      have := List.all_eq_true.mp names_ok q (List.mem_of_find?_eq_some hfd)
      simp only [Bool.and_eq_true, Bool.not_eq_true', List.all_eq_true] at this
      rw [hlhs] at this
      exact ⟨by intro h; simp [h] at this, this.2⟩
  have hop_mem : opS ∈ filterOps := by
    unfold revLookup at hops
    cases hfd : LA.Gen.RuleTables.operatorsTable.find? (fun p => p.2 == opc) with
    | none => rw [hfd] at hops; simp at hops
    | some q =>
      rw [hfd] at hops
      simp only [Option.map_some, Option.some.injEq] at hops
      have := List.all_eq_true.mp ops_ok q (List.mem_of_find?_eq_some hfd)
      rw [hops] at this
      simpa using this
  refine ⟨C07_filter_token_reparse lhs opS c tl hlhs_ok.1 hlhs_ok.2 hop_mem hc, ?_⟩
  unfold addFilter at hbuilt ⊢
  simp only [h0f, h0o] at hbuilt
  simp only [hf, ho]
  exact hbuilt

/-! ### the text half composed over a whole line: numeric syscall rules -/

theorem filterValue_flags (env : Env) (r1 r2 : RuleData) (h : r1.flags = r2.flags) (f opc : Nat) (rhs : Bytes) :
    filterValue env r1 f opc rhs = filterValue env r2 f opc rhs := by
  unfold filterValue
  rw [h]

/-- why a numeric triple is in a rule: Build computed its value word for a filter on that field
under the rule's list, and the exclude-list restriction let it through. -/
def Justified (env : Env) (fl : Nat) (t : Nat × Nat × Nat) : Prop :=
  (∃ rhs0 a, filterValue env { flags := fl } t.1 t.2.2 rhs0 = some (t.2.1, none, a)) ∧
  (fl == LA.Gen.RuleTables.excludeFilter && !(excludeOkFields.contains t.1)) = false

/-- every numeric triple of everything rule.Build accumulates is justified. -/
theorem justified_ruleDataOf {env : Env} {rule : Rule} {r : RuleData} (h : ruleDataOf env rule = some r) :
    ∀ t ∈ r.trips, stringFields.contains t.1 = false → (t.1 == LA.Gen.RuleTables.fieldCompare) = false →
      Justified env r.flags t := by
  refine ruleDataOf_induct (env := env)
    (fun r => ∀ t ∈ r.trips, stringFields.contains t.1 = false → (t.1 == LA.Gen.RuleTables.fieldCompare) = false →
      Justified env r.flags t) ?_ ?_ ?_ ?_ h
  · intro fl ac _ _ t ht; simp at ht
  · intro r r' l o v hp hf
    unfold addFilter at hf
    split at hf
    · rename_i opc f hop hfl
      split at hf
      · simp at hf
      · rename_i hex
        cases hv : filterValue env r f opc v with
        | none => rw [hv] at hf; simp at hf
        | some x =>
          obtain ⟨val, s, a⟩ := x
          rw [hv] at hf
          simp only [Option.map_some, Option.some.injEq] at hf
          subst hf
          intro t ht hs hc
          simp only [List.mem_append, List.mem_cons, List.mem_nil_iff, or_false] at ht
          rcases ht with ht | rfl
          · exact hp t ht hs hc
          · have hsn := (filterValue_string hv).2 hs
            subst hsn
            refine ⟨⟨v, a, ?_⟩, by simpa using hex⟩
            rw [filterValue_flags env { flags := r.flags } r rfl]
            exact hv
    · simp at hf
  · intro r r' l o v hp hi
    have hfl : r'.flags = r.flags ∧ ∀ t ∈ r'.trips, t ∈ r.trips ∨ t.1 = LA.Gen.RuleTables.fieldCompare := by
      unfold addInterField at hi
      cases hop : lookupB LA.Gen.RuleTables.operatorsTable o with
      | none => rw [hop] at hi; simp at hi
      | some opc =>
        rw [hop] at hi
        simp only at hi
        split at hi
        · simp at hi
        · split at hi
          · split at hi
            · simp at hi
            · rename_i lf rf _ _ _
              cases hc : lookupComparison lf rf with
              | none => rw [hc] at hi; simp at hi
              | some c =>
                rw [hc] at hi
                simp only [Option.some.injEq] at hi
                subst hi
                refine ⟨rfl, ?_⟩
                intro t ht
                simp only [List.mem_append, List.mem_cons, List.mem_nil_iff, or_false] at ht
                rcases ht with ht | rfl
                · exact Or.inl ht
                · exact Or.inr rfl
          · simp at hi
    intro t ht hs hc
    rw [hfl.1]
    rcases hfl.2 t ht with h1 | h1
    · exact hp t h1 hs hc
    · rw [h1] at hc; simp at hc
  · intro r r' sc hp hs
    have : r'.flags = r.flags ∧ r'.trips = r.trips := by
      unfold addSyscall at hs
      split at hs
      · simp only [Option.some.injEq] at hs; subst hs; exact ⟨rfl, rfl⟩
      · simp only at hs
        split at hs
        · simp at hs
        · split at hs
          · simp at hs
          · simp only [Option.some.injEq] at hs; subst hs; exact ⟨rfl, rfl⟩
    intro t ht hs' hc
    rw [this.1]
    exact hp t (by rw [← this.2]; exact ht) hs' hc

/-- re-adding the printed parts of a run of numeric triples, one after the other, appends exactly
those triples. -/
theorem foldl_addFilter_numeric (env : Env) (he : EnvOk env) (ts : List (Nat × Nat × Nat)) (names : List (Bytes × Bytes))
    (hlen : names.length = ts.length)
    (hn : ∀ (i : Nat) (t : Nat × Nat × Nat) (nm : Bytes × Bytes), ts[i]? = some t → names[i]? = some nm → NumTrip t nm.1 nm.2)
    (r0 : RuleData) (hj : ∀ t ∈ ts, Justified env r0.flags t) (hperm : ∀ t ∈ ts, t.1 = LA.Gen.RuleTables.permField → t.2.1 ≠ 0) :
    ((ts.zip names).map (fun p => mkFilter (partsOf p.1 p.2.1 p.2.2))).foldl (fun (acc : Option RuleData) f =>
        acc.bind fun r =>
          if (f.typ == 2) = true then addFilter env r f.lhs f.op f.rhs
          else if (f.typ == 1) = true then addInterField r f.lhs f.op f.rhs
          else some r) (some r0) = some { r0 with trips := r0.trips ++ ts } := by
  induction ts generalizing names r0 with
  | nil => simp
  | cons t ts ih =>
    cases names with
    | nil => simp at hlen
    | cons nm names =>
      have h0 := hn 0 t nm rfl rfl
      obtain ⟨⟨rhs0, a, hb⟩, hex⟩ := hj t (by simp)
      have hb' : filterValue env r0 t.1 t.2.2 rhs0 = some (t.2.1, none, a) := by
        rw [filterValue_flags env r0 { flags := r0.flags } rfl]; exact hb
      have step := (C07_filter_reparse env he r0 t.1 t.2.1 t.2.2 nm.1 nm.2 rhs0 a h0.lhs h0.op h0.notStr h0.notArch hb' hex
        (hperm t (by simp))).2
      simp only [List.zip_cons_cons, List.map_cons, List.foldl_cons, Option.bind_some, mkFilter, partsOf,
        beq_self_eq_true, if_true, step]
      have := ih names (by simpa using hlen)
        (fun i t' nm' ht hnm => hn (i + 1) t' nm' (by simpa using ht) (by simpa using hnm))
        { r0 with trips := r0.trips ++ [(t.1, t.2.1, t.2.2)] }
        (fun x hx => hj x (by simp [hx])) (fun x hx => hperm x (by simp [hx]))
      simp only [mkFilter, partsOf] at this
      rw [this]
      simp [List.append_assoc]

theorem toWire_congr (r1 r2 : RuleData) (h1 : r1.flags = r2.flags) (h2 : r1.action = r2.action) (h3 : r1.trips = r2.trips)
    (h4 : r1.strings = r2.strings) (h5 : r1.allSyscalls = r2.allSyscalls) (h6 : r1.syscalls = r2.syscalls) :
    toWire r1 = toWire r2 := by
  unfold toWire maskOf RuleData.fields RuleData.values RuleData.fieldFlags
  rw [h1, h2, h3, h4, h5, h6]

theorem aligned_no_strings {ts : List (Nat × Nat × Nat)} {ss : List Bytes} (h : Aligned ts ss)
    (hn : ∀ t ∈ ts, stringFields.contains t.1 = false) : ss = [] := by
  induction ts with
  | nil => simpa [Aligned] using h
  | cons t ts ih =>
    simp only [Aligned, hn t (by simp), Bool.false_eq_true, if_false] at h
    exact ih h (fun x hx => hn x (by simp [hx]))

theorem fTokens_length (parts : List (Bytes × Bytes × Bytes)) : (fTokens parts).length = 2 * parts.length := by
  induction parts with
  | nil => rfl
  | cons t ts ih => simp only [fTokens, List.flatMap_cons, List.length_append, List.length_cons, List.length_nil] at ih ⊢; omega

/-- the flag set after the printed line has been read -/
def fsAfter (l a : Bytes) (sys : List Bytes) (vis : List Nat) (parts : List (Bytes × Bytes × Bytes)) : FS :=
  { append := some (l, a), syscalls := sys, filters := parts.map mkFilter, visited := vis }

/-- the tokens of the line ToCommandLine prints for an all-syscalls rule with numeric filters -/
def numericTokens (fl : Nat) (l a : Bytes) (parts : List (Bytes × Bytes × Bytes)) : List Bytes :=
  [tokA, a ++ [44] ++ l] ++
  (if fl == LA.Gen.RuleTables.exitFilter || fl == LA.Gen.RuleTables.entryFilter then [tokS, ofString "all"] else []) ++
  fTokens parts

/-- Second clause of C07 as one theorem, for a whole class of rules: every syscall rule that Build
accepts, that applies to all syscalls and whose filters are all numeric (no string-valued field
or key, no arch filter, no inter-field comparison, no empty permission set). For such a rule
(1) ToCommandLine's text is `-a action,list [-S all] -F f1 … -F fn` with one element per filter,
(2) the tokens of that text are accepted by flags.Parse, and Build on the result accumulates the
same list, action and (field, value, operator) triples in the same order, and
(3) therefore re-encodes to byte-identical wire data.
(Shell tokenisation of the text into the tokens is outside the model, as in C14.) -/
theorem C07_roundtrip_numeric (env : Env) (he : EnvOk env) (rule : Rule) (r : RuleData)
    (hr : ruleDataOf env rule = some r)
    (hnum : ∀ t ∈ r.trips, stringFields.contains t.1 = false ∧ (t.1 == LA.Gen.RuleTables.archField) = false ∧
      (t.1 == LA.Gen.RuleTables.fieldCompare) = false)
    (hperm : ∀ t ∈ r.trips, t.1 = LA.Gen.RuleTables.permField → t.2.1 ≠ 0)
    (hall : r.allSyscalls = true) (hsys : r.syscalls = []) :
    ∃ (l a : Bytes) (names : List (Bytes × Bytes)),
      getList r.flags = some l ∧ getAction r.action = some a ∧ names.length = r.trips.length ∧
      cmdLineOf r = some (joinWith [32] ([ofString "-a", a ++ [44] ++ l] ++
        (if r.flags == LA.Gen.RuleTables.exitFilter || r.flags == LA.Gen.RuleTables.entryFilter then [ofString "-S", ofString "all"] else []) ++
        (r.trips.zip names).map (fun p => ofString "-F " ++ p.2.1 ++ p.2.2 ++ fieldRhs p.1.1 p.1.2.1))) ∧
      ∃ rule' r', parseArgs (numericTokens r.flags l a ((r.trips.zip names).map (fun p => partsOf p.1 p.2.1 p.2.2))) = some rule' ∧
        ruleDataOf env rule' = some r' ∧ r'.trips = r.trips ∧ toWire r' = toWire r := by
  have hp := printInv_ruleDataOf he hr
  have hal := aligned_ruleDataOf hr
  have hstr : r.strings = [] := aligned_no_strings hal (fun t ht => (hnum t ht).1)
  have hjust := justified_ruleDataOf hr
  -- names of list and action
  cases hl : getList r.flags with
  | none => have := hp.list; rw [hl] at this; cases this
  | some l =>
  cases ha : getAction r.action with
  | none => have := hp.action; rw [ha] at this; cases this
  | some a =>
  -- names of every field and operator
  have hnames : ∀ t ∈ r.trips, ∃ nm : Bytes × Bytes, NumTrip t nm.1 nm.2 := by
    intro t ht
    obtain ⟨h1, h2, h3⟩ := hnum t ht
    have hok := hp.trips t ht
    unfold tripOk at hok
    simp only [Bool.and_eq_true, h2, Bool.false_eq_true, if_false, h3] at hok
    cases ho : revLookup LA.Gen.RuleTables.operatorsTable t.2.2 with
    | none => rw [ho] at hok; cases hok.1
    | some opS =>
      cases hf : revLookup LA.Gen.RuleTables.fieldsTable t.1 with
      | none => rw [hf] at hok; cases hok.2
      | some lhs => exact ⟨(lhs, opS), ⟨h1, h2, h3, hf, ho⟩⟩
  obtain ⟨names, hlen, hn⟩ : ∃ names : List (Bytes × Bytes), names.length = r.trips.length ∧
      ∀ (i : Nat) (t : Nat × Nat × Nat) (nm : Bytes × Bytes), r.trips[i]? = some t → names[i]? = some nm → NumTrip t nm.1 nm.2 := by
    generalize r.trips = ts at hnames
    induction ts with
    | nil => exact ⟨[], rfl, by intro i t nm ht; simp at ht⟩
    | cons t ts ih =>
      obtain ⟨nm, hnm⟩ := hnames t (by simp)
      obtain ⟨ns, hl', hn'⟩ := ih (fun x hx => hnames x (by simp [hx]))
      refine ⟨nm :: ns, by simp [hl'], ?_⟩
      intro i t' nm' ht' hnm'
      cases i with
      | zero => simp at ht' hnm'; subst ht'; subst hnm'; exact hnm
      | succ j => exact hn' j t' nm' (by simpa using ht') (by simpa using hnm')
  refine ⟨l, a, names, rfl, rfl, hlen, ?_, ?_⟩
  · -- (1) the printed text
    unfold cmdLineOf
    rw [hl, ha]
    simp only
    have hw : asFileWatch r = none := by
      unfold asFileWatch
      simp only [hstr, List.length_nil]
      by_cases hn2 : r.fields.length = 2
      · simp [hn2, hall]
      · by_cases hn3 : r.fields.length = 3
        · simp [hn3, hall]
        · simp [hn2, hn3, hall]
    rw [hw]
    simp only
    have hnoarch : lastIndexOf r.fields LA.Gen.RuleTables.archField = none := by
      unfold lastIndexOf
      have : (r.fields.zipIdx).filter (fun p => p.1 == LA.Gen.RuleTables.archField) = [] := by
        rw [List.filter_eq_nil_iff]
        intro p hpm
        have hz := List.mem_zipIdx_iff_getElem?.mp hpm
        simp only [RuleData.fields, List.getElem?_map, Option.map_eq_some_iff] at hz
        obtain ⟨t, hti, htf⟩ := hz
        have := (hnum t (List.mem_of_getElem? hti)).2.1
        rw [htf] at this
        simpa using this
      rw [this]; rfl
    rw [hnoarch]
    simp only
    have hpf := printFields_numeric r.trips names r.strings hlen hn
    simp only [RuleData.fields, RuleData.values, RuleData.fieldFlags, hpf, hall, if_true]
    simp [List.append_assoc]
  · -- (2) the tokens re-parse and re-build
    obtain ⟨parts, hparts⟩ : ∃ parts, parts = (r.trips.zip names).map (fun p => partsOf p.1 p.2.1 p.2.2) := ⟨_, rfl⟩
    rw [← hparts]
    have hmatch : ∀ t ∈ parts, matchFilter (t.1 ++ t.2.1 ++ t.2.2) = some t := by
      intro t ht
      rw [hparts] at ht
      obtain ⟨p, hpz, rfl⟩ := List.mem_map.mp ht
      -- p = (triple, name) at some index
      obtain ⟨i, hi⟩ := List.getElem?_of_mem hpz
      rw [List.getElem?_zip_eq_some] at hi
      have hnt := hn i p.1 p.2 hi.1 hi.2
      have htrip : p.1 ∈ r.trips := List.mem_of_getElem? hi.1
      obtain ⟨⟨rhs0, a', hb⟩, hex⟩ := hjust p.1 htrip hnt.notStr hnt.notCmp
      have hb' : filterValue env r p.1.1 p.1.2.2 rhs0 = some (p.1.2.1, none, a') := by
        rw [filterValue_flags env r { flags := r.flags } rfl]; exact hb
      exact (C07_filter_reparse env he r p.1.1 p.1.2.1 p.1.2.2 p.2.1 p.2.2 rhs0 a' hnt.lhs hnt.op hnt.notStr hnt.notArch hb' hex
        (hperm p.1 htrip)).1
    have hplen : parts.length = r.trips.length := by
      rw [hparts]; simp [hlen]
    -- run the flag loop
    have hadd := setAdd_print hl ha
    have hsetA : setFlag {} 97 (a ++ [44] ++ l) = some (fsAfter l a [] [97] []) := by
      unfold setFlag
      simp only [beq_self_eq_true, if_true, hadd, Option.map_some, fsAfter, List.map_nil, List.nil_append]
    have hsplit : splitList (ofString "all") = [ofString "all"] := by decide +kernel
    have hnot : ∀ (x : Nat), x ∈ List.replicate parts.length 70 → x = 70 := fun x hx => (List.mem_replicate.mp hx).2
    have hfold := foldl_addFilter_numeric env he r.trips names hlen hn
      { flags := r.flags, action := r.action, allSyscalls := true }
      (fun t ht => hjust t ht (hnum t ht).1 (hnum t ht).2.2) hperm
    have hfold' : (parts.map mkFilter).foldl (fun (acc : Option RuleData) f =>
        acc.bind fun r =>
          if (f.typ == 2) = true then addFilter env r f.lhs f.op f.rhs
          else if (f.typ == 1) = true then addInterField r f.lhs f.op f.rhs
          else some r) (some { flags := r.flags, action := r.action, allSyscalls := true }) =
        some { flags := r.flags, action := r.action, allSyscalls := true, trips := r.trips } := by
      rw [hparts, List.map_map]
      have hcomp : (mkFilter ∘ fun (p : (Nat × Nat × Nat) × Bytes × Bytes) => partsOf p.1 p.2.1 p.2.2) =
          (fun p => mkFilter (partsOf p.1 p.2.1 p.2.2)) := rfl
      rw [hcomp]
      simpa using hfold
    by_cases hexit : (r.flags == LA.Gen.RuleTables.exitFilter || r.flags == LA.Gen.RuleTables.entryFilter) = true
    · -- "-S all" is printed
      have htok : numericTokens r.flags l a parts = tokA :: (a ++ [44] ++ l) :: tokS :: ofString "all" :: (fTokens parts ++ []) := by
        simp only [numericTokens, hexit, if_true, List.cons_append, List.nil_append, List.append_nil]
      have hfuel : (numericTokens r.flags l a parts).length + 1 = (((3 + parts.length) + parts.length) + 1) + 1 := by
        rw [htok]
        simp only [List.length_cons, List.length_append, List.length_nil, fTokens_length]
        omega
      have hloop : parseLoop ((numericTokens r.flags l a parts).length + 1) (numericTokens r.flags l a parts) {} =
          some (fsAfter l a [ofString "all"] ([97] ++ [83] ++ List.replicate parts.length 70) parts, 0) := by
        rw [hfuel, htok, parseLoop_a, hsetA]
        simp only [Option.bind_some]
        rw [parseLoop_S]
        have hsetS : setFlag (fsAfter l a [] [97] []) 83 (ofString "all") = some (fsAfter l a [ofString "all"] ([97] ++ [83]) []) := by
          unfold setFlag
          simp only [show ((83 : Nat) == 97) = false by decide, show ((83 : Nat) == 65) = false by decide,
            show ((83 : Nat) == 67) = false by decide, show ((83 : Nat) == 70) = false by decide, Bool.false_eq_true,
            if_false, beq_self_eq_true, if_true, hsplit, fsAfter, List.map_nil, List.nil_append]
        rw [hsetS]
        simp only [Option.bind_some]
        rw [parseLoop_fTokens parts hmatch]
        have e3 : 3 + parts.length = (2 + parts.length) + 1 := by omega
        rw [e3]
        simp only [fsAfter, List.map_nil, List.nil_append, parseLoop]
      have hfin : finish (fsAfter l a [ofString "all"] ([97] ++ [83] ++ List.replicate parts.length 70) parts) =
          some (.syscall 3 l a (parts.map mkFilter) [ofString "all"] []) := by
        unfold finish fsAfter
        have c1 : ([97] ++ [83] ++ List.replicate parts.length 70).contains 68 = false := by
          simp only [List.contains_eq_mem, decide_eq_false_iff_not, List.mem_append, List.mem_cons, List.mem_nil_iff, or_false]
          intro hh
          rcases hh with (hh | hh) | hh
          · omega
          · omega
          · have := hnot 68 hh; omega
        have c2 : ([97] ++ [83] ++ List.replicate parts.length 70).any (fun n => n == 119 || n == 112) = false := by
          rw [List.any_eq_false]
          intro x hx
          simp only [List.mem_append, List.mem_cons, List.mem_nil_iff, or_false] at hx
          rcases hx with (rfl | rfl) | hx
          · decide
          · decide
          · rw [hnot x hx]; decide
        have c3 : ([97] ++ [83] ++ List.replicate parts.length 70).any (fun n => n == 97 || n == 65 || n == 67 || n == 70 || n == 83) = true := by
          simp
        simp only [c1, c2, c3]
        rfl
      have hparse : parseArgs (numericTokens r.flags l a parts) = some (.syscall 3 l a (parts.map mkFilter) [ofString "all"] []) := by
        unfold parseArgs
        rw [hloop]
        simp only [Nat.lt_irrefl, if_false, gt_iff_lt]
        exact hfin
      have hrd : ruleDataOf env (.syscall 3 l a (parts.map mkFilter) [ofString "all"] []) =
          some { flags := r.flags, action := r.action, allSyscalls := true, explicitAll := true, trips := r.trips } := by
        simp only [ruleDataOf, setList_getList hl, setAction_getAction ha, hfold']
        simp [addSyscall, addKeys]
      refine ⟨_, _, hparse, hrd, rfl, ?_⟩
      exact toWire_congr _ _ rfl rfl rfl hstr.symm hall.symm hsys.symm
    · -- no "-S all" on this list
      have hexit' : (r.flags == LA.Gen.RuleTables.exitFilter || r.flags == LA.Gen.RuleTables.entryFilter) = false := by
        simpa using hexit
      have htok : numericTokens r.flags l a parts = tokA :: (a ++ [44] ++ l) :: (fTokens parts ++ []) := by
        simp only [numericTokens, hexit', Bool.false_eq_true, if_false, List.cons_append, List.nil_append, List.append_nil]
      have hfuel : (numericTokens r.flags l a parts).length + 1 = ((2 + parts.length) + parts.length) + 1 := by
        rw [htok]
        simp only [List.length_cons, List.length_append, List.length_nil, fTokens_length]
        omega
      have hloop : parseLoop ((numericTokens r.flags l a parts).length + 1) (numericTokens r.flags l a parts) {} =
          some (fsAfter l a [] ([97] ++ List.replicate parts.length 70) parts, 0) := by
        rw [hfuel, htok, parseLoop_a, hsetA]
        simp only [Option.bind_some]
        rw [parseLoop_fTokens parts hmatch]
        have e3 : 2 + parts.length = (1 + parts.length) + 1 := by omega
        rw [e3]
        simp only [fsAfter, List.map_nil, List.nil_append, parseLoop]
      have hfin : finish (fsAfter l a [] ([97] ++ List.replicate parts.length 70) parts) =
          some (.syscall 3 l a (parts.map mkFilter) [] []) := by
        unfold finish fsAfter
        have c1 : ([97] ++ List.replicate parts.length 70).contains 68 = false := by
          simp only [List.contains_eq_mem, decide_eq_false_iff_not, List.mem_append, List.mem_cons, List.mem_nil_iff, or_false]
          intro hh
          rcases hh with hh | hh
          · omega
          · have := hnot 68 hh; omega
        have c2 : ([97] ++ List.replicate parts.length 70).any (fun n => n == 119 || n == 112) = false := by
          rw [List.any_eq_false]
          intro x hx
          simp only [List.mem_append, List.mem_cons, List.mem_nil_iff, or_false] at hx
          rcases hx with rfl | hx
          · decide
          · rw [hnot x hx]; decide
        have c3 : ([97] ++ List.replicate parts.length 70).any (fun n => n == 97 || n == 65 || n == 67 || n == 70 || n == 83) = true := by
          simp
        simp only [c1, c2, c3]
        rfl
      have hparse : parseArgs (numericTokens r.flags l a parts) = some (.syscall 3 l a (parts.map mkFilter) [] []) := by
        unfold parseArgs
        rw [hloop]
        simp only [Nat.lt_irrefl, if_false, gt_iff_lt]
        exact hfin
      have hrd : ruleDataOf env (.syscall 3 l a (parts.map mkFilter) [] []) =
          some { flags := r.flags, action := r.action, allSyscalls := true, trips := r.trips } := by
        simp only [ruleDataOf, setList_getList hl, setAction_getAction ha, hfold']
        simp [addKeys]
      refine ⟨_, _, hparse, hrd, rfl, ?_⟩
      exact toWire_congr _ _ rfl rfl rfl hstr.symm hall.symm hsys.symm

/-- non-vacuity of `C07_roundtrip_numeric`: `-a always,exit -F pid=1 -F uid>=1000 -F exit=-2`
satisfies its hypotheses. -/
example : ((ruleDataOf ⟨false, [], []⟩ (.syscall 3 (ofString "exit") (ofString "always")
    [⟨2, ofString "pid", [61], ofString "1"⟩, ⟨2, ofString "uid", [62, 61], ofString "1000"⟩,
     ⟨2, ofString "exit", [61], ofString "-2"⟩] [] [])).map (fun r =>
      r.allSyscalls && r.syscalls.isEmpty && decide (r.trips.length = 3) &&
      r.trips.all (fun t => !(stringFields.contains t.1) && !(t.1 == LA.Gen.RuleTables.archField) &&
        !(t.1 == LA.Gen.RuleTables.fieldCompare) && !(t.1 == LA.Gen.RuleTables.permField)))) = some true := by
  decide +kernel

/-! ### the text half composed over a whole line: numeric and string-valued filters -/

/-- re-adding the printed parts of a run of printable triples (numeric or string-valued), one after
the other, appends exactly those triples and exactly their strings. -/
theorem foldl_addFilter_mixed (env : Env) (he : EnvOk env) (ts : List (Nat × Nat × Nat)) (names : List (Bytes × Bytes))
    (ss : List Bytes) (hlen : names.length = ts.length)
    (hn : ∀ (i : Nat) (t : Nat × Nat × Nat) (nm : Bytes × Bytes), ts[i]? = some t → names[i]? = some nm → PTrip t nm.1 nm.2)
    (r0 : RuleData) (hsa : SAligned env r0.flags ts ss)
    (hj : ∀ t ∈ ts, stringFields.contains t.1 = false → Justified env r0.flags t)
    (hperm : ∀ t ∈ ts, t.1 = LA.Gen.RuleTables.permField → t.2.1 ≠ 0) :
    ((partsMixed ts names (rhsList ts ss)).map mkFilter).foldl (fun (acc : Option RuleData) f =>
        acc.bind fun r =>
          if (f.typ == 2) = true then addFilter env r f.lhs f.op f.rhs
          else if (f.typ == 1) = true then addInterField r f.lhs f.op f.rhs
          else some r) (some r0) = some { r0 with trips := r0.trips ++ ts, strings := r0.strings ++ ss } := by
  have nd1 : (LA.Gen.RuleTables.fieldsTable.map (·.1)).Nodup := by decide +kernel
  have nd2 : (LA.Gen.RuleTables.operatorsTable.map (·.1)).Nodup := by decide +kernel
  induction ts generalizing names ss r0 with
  | nil =>
    simp only [SAligned] at hsa
    subst hsa
    simp [partsMixed]
  | cons t ts ih =>
    cases names with
    | nil => simp at hlen
    | cons nm names =>
      have h0 := hn 0 t nm rfl rfl
      simp only [SAligned] at hsa
      by_cases hs : stringFields.contains t.1 = true
      · rw [if_pos hs] at hsa
        obtain ⟨s, rest, rfl, hv, hok, hr⟩ := hsa
        have hf := lookupB_of_revLookup nd1 h0.lhs
        have ho := lookupB_of_revLookup nd2 h0.op
        have step : addFilter env r0 nm.1 nm.2 s = some { r0 with trips := r0.trips ++ [t], strings := r0.strings ++ [s] } := by
          unfold addFilter
          simp only [hf, ho, hok.2, Bool.false_eq_true, if_false]
          rw [filterValue_flags0 env r0 { flags := r0.flags } rfl, hok.1]
          simp only [Option.map_some, ← hv]
        simp only [rhsList, hs, if_true, partsMixed, List.map_cons, List.foldl_cons, Option.bind_some, mkFilter,
          beq_self_eq_true, step]
        have := ih names rest (by simpa using hlen)
          (fun i t' nm' ht hnm => hn (i + 1) t' nm' (by simpa using ht) (by simpa using hnm))
          { r0 with trips := r0.trips ++ [t], strings := r0.strings ++ [s] } hr
          (fun x hx => hj x (by simp [hx])) (fun x hx => hperm x (by simp [hx]))
        simp only [mkFilter] at this
        rw [this]
        simp [List.append_assoc]
      · rw [if_neg hs] at hsa
        have hs' : stringFields.contains t.1 = false := by simpa using hs
        obtain ⟨⟨rhs0, a, hb⟩, hex⟩ := hj t (by simp) hs'
        have hb' : filterValue env r0 t.1 t.2.2 rhs0 = some (t.2.1, none, a) := by
          rw [filterValue_flags env r0 { flags := r0.flags } rfl]; exact hb
        have step := (C07_filter_reparse env he r0 t.1 t.2.1 t.2.2 nm.1 nm.2 rhs0 a h0.lhs h0.op hs' h0.notArch hb' hex
          (hperm t (by simp))).2
        simp only [rhsList, hs', Bool.false_eq_true, if_false, partsMixed, List.map_cons, List.foldl_cons, Option.bind_some, mkFilter,
          beq_self_eq_true, if_true, step]
        have := ih names ss (by simpa using hlen)
          (fun i t' nm' ht hnm => hn (i + 1) t' nm' (by simpa using ht) (by simpa using hnm))
          { r0 with trips := r0.trips ++ [(t.1, t.2.1, t.2.2)] } hsa
          (fun x hx => hj x (by simp [hx])) (fun x hx => hperm x (by simp [hx]))
        simp only [mkFilter] at this
        rw [this]
        simp [List.append_assoc]

/-- field names are non-empty words and operator names are among the eight the -F expression knows. -/
theorem names_facts {f opc : Nat} {lhs opS : Bytes}
    (hlhs : revLookup LA.Gen.RuleTables.fieldsTable f = some lhs)
    (hops : revLookup LA.Gen.RuleTables.operatorsTable opc = some opS) :
    lhs ≠ [] ∧ (∀ b ∈ lhs, isReWord b = true) ∧ opS ∈ filterOps := by
  have names_ok : LA.Gen.RuleTables.fieldsTable.all (fun p => !p.1.isEmpty && p.1.all isReWord) = true := by decide +kernel
  have ops_ok : LA.Gen.RuleTables.operatorsTable.all (fun p => filterOps.contains p.1) = true := by decide +kernel
  have hlhs_ok : lhs ≠ [] ∧ ∀ b ∈ lhs, isReWord b = true := by
    unfold revLookup at hlhs
    cases hfd : LA.Gen.RuleTables.fieldsTable.find? (fun p => p.2 == f) with
    | none => rw [hfd] at hlhs; simp at hlhs
    | some q =>
      rw [hfd] at hlhs
      simp only [Option.map_some, Option.some.injEq] at hlhs
      have := List.all_eq_true.mp names_ok q (List.mem_of_find?_eq_some hfd)
      simp only [Bool.and_eq_true, Bool.not_eq_true', List.all_eq_true] at this
      rw [hlhs] at this
      exact ⟨by intro h; simp [h] at this, this.2⟩
  have hop_mem : opS ∈ filterOps := by
    unfold revLookup at hops
    cases hfd : LA.Gen.RuleTables.operatorsTable.find? (fun p => p.2 == opc) with
    | none => rw [hfd] at hops; simp at hops
    | some q =>
      rw [hfd] at hops
      simp only [Option.map_some, Option.some.injEq] at hops
      have := List.all_eq_true.mp ops_ok q (List.mem_of_find?_eq_some hfd)
      rw [hops] at this
      simpa using this
  exact ⟨hlhs_ok.1, hlhs_ok.2, hop_mem⟩

/-- every printed part of a run of printable triples is split by the -F expression into itself. -/
theorem partsMixed_match (env : Env) (he : EnvOk env) (fl : Nat) (ts : List (Nat × Nat × Nat)) (names : List (Bytes × Bytes))
    (ss : List Bytes) (hlen : names.length = ts.length)
    (hn : ∀ (i : Nat) (t : Nat × Nat × Nat) (nm : Bytes × Bytes), ts[i]? = some t → names[i]? = some nm → PTrip t nm.1 nm.2)
    (hsa : SAligned env fl ts ss)
    (hj : ∀ t ∈ ts, stringFields.contains t.1 = false → Justified env fl t)
    (hperm : ∀ t ∈ ts, t.1 = LA.Gen.RuleTables.permField → t.2.1 ≠ 0)
    (hstr : ∀ s ∈ ss, ∃ c tl, s = c :: tl ∧ c ≠ 61) :
    ∀ p ∈ partsMixed ts names (rhsList ts ss), matchFilter (p.1 ++ p.2.1 ++ p.2.2) = some p := by
  induction ts generalizing names ss with
  | nil => intro p hp; simp [partsMixed] at hp
  | cons t ts ih =>
    cases names with
    | nil => simp at hlen
    | cons nm names =>
      have h0 := hn 0 t nm rfl rfl
      simp only [SAligned] at hsa
      by_cases hs : stringFields.contains t.1 = true
      · rw [if_pos hs] at hsa
        obtain ⟨s, rest, rfl, hv, hok, hr⟩ := hsa
        obtain ⟨c, tl, rfl, hc⟩ := hstr s (by simp)
        obtain ⟨f1, f2, f3⟩ := names_facts h0.lhs h0.op
        intro p hp
        simp only [rhsList, hs, if_true, partsMixed, List.mem_cons] at hp
        rcases hp with rfl | hp
        · exact C07_filter_token_reparse nm.1 nm.2 c tl f1 f2 f3 hc
        · exact ih names rest (by simpa using hlen)
            (fun i t' nm' ht hnm => hn (i + 1) t' nm' (by simpa using ht) (by simpa using hnm)) hr
            (fun x hx => hj x (by simp [hx])) (fun x hx => hperm x (by simp [hx]))
            (fun x hx => hstr x (by simp [hx])) p hp
      · rw [if_neg hs] at hsa
        have hs' : stringFields.contains t.1 = false := by simpa using hs
        obtain ⟨⟨rhs0, a, hb⟩, hex⟩ := hj t (by simp) hs'
        have hm := (C07_filter_reparse env he { flags := fl } t.1 t.2.1 t.2.2 nm.1 nm.2 rhs0 a h0.lhs h0.op hs' h0.notArch hb hex
          (hperm t (by simp))).1
        intro p hp
        simp only [rhsList, hs', Bool.false_eq_true, if_false, partsMixed, List.mem_cons] at hp
        rcases hp with rfl | hp
        · exact hm
        · exact ih names ss (by simpa using hlen)
            (fun i t' nm' ht hnm => hn (i + 1) t' nm' (by simpa using ht) (by simpa using hnm)) hsa
            (fun x hx => hj x (by simp [hx])) (fun x hx => hperm x (by simp [hx])) hstr p hp

theorem partsMixed_length (ts : List (Nat × Nat × Nat)) (names : List (Bytes × Bytes)) (vals : List Bytes)
    (h1 : names.length = ts.length) (h2 : vals.length = ts.length) : (partsMixed ts names vals).length = ts.length := by
  induction ts generalizing names vals with
  | nil => simp [partsMixed]
  | cons t ts ih =>
    cases names with
    | nil => simp at h1
    | cons nm names =>
      cases vals with
      | nil => simp at h2
      | cons v vals => simp [partsMixed, ih names vals (by simpa using h1) (by simpa using h2)]


/-- the generic second half of the text round trip: if the printed parts each re-parse into
themselves and re-adding them rebuilds the rule's triples and strings, then the tokens of the line
are accepted by flags.Parse and Build re-encodes to byte-identical wire data. -/
theorem reparse_of_parts (env : Env) (r : RuleData) (l a : Bytes)
    (hl : getList r.flags = some l) (ha : getAction r.action = some a)
    (parts : List (Bytes × Bytes × Bytes))
    (hmatch : ∀ t ∈ parts, matchFilter (t.1 ++ t.2.1 ++ t.2.2) = some t)
    (hfold' : (parts.map mkFilter).foldl (fun (acc : Option RuleData) f =>
        acc.bind fun r =>
          if (f.typ == 2) = true then addFilter env r f.lhs f.op f.rhs
          else if (f.typ == 1) = true then addInterField r f.lhs f.op f.rhs
          else some r) (some { flags := r.flags, action := r.action, allSyscalls := true }) =
        some { flags := r.flags, action := r.action, allSyscalls := true, trips := r.trips, strings := r.strings })
    (hall : r.allSyscalls = true) (hsys : r.syscalls = []) :
    ∃ rule' r', parseArgs (numericTokens r.flags l a parts) = some rule' ∧
      ruleDataOf env rule' = some r' ∧ r'.trips = r.trips ∧ toWire r' = toWire r := by
  have hadd := setAdd_print hl ha
  have hsetA : setFlag {} 97 (a ++ [44] ++ l) = some (fsAfter l a [] [97] []) := by
    unfold setFlag
    simp only [beq_self_eq_true, if_true, hadd, Option.map_some, fsAfter, List.map_nil, List.nil_append]
  have hsplit : splitList (ofString "all") = [ofString "all"] := by decide +kernel
  have hnot : ∀ (x : Nat), x ∈ List.replicate parts.length 70 → x = 70 := fun x hx => (List.mem_replicate.mp hx).2
  by_cases hexit : (r.flags == LA.Gen.RuleTables.exitFilter || r.flags == LA.Gen.RuleTables.entryFilter) = true
  · have htok : numericTokens r.flags l a parts = tokA :: (a ++ [44] ++ l) :: tokS :: ofString "all" :: (fTokens parts ++ []) := by
      simp only [numericTokens, hexit, if_true, List.cons_append, List.nil_append, List.append_nil]
    have hfuel : (numericTokens r.flags l a parts).length + 1 = (((3 + parts.length) + parts.length) + 1) + 1 := by
      rw [htok]
      simp only [List.length_cons, List.length_append, List.length_nil, fTokens_length]
      omega
    have hloop : parseLoop ((numericTokens r.flags l a parts).length + 1) (numericTokens r.flags l a parts) {} =
        some (fsAfter l a [ofString "all"] ([97] ++ [83] ++ List.replicate parts.length 70) parts, 0) := by
      rw [hfuel, htok, parseLoop_a, hsetA]
      simp only [Option.bind_some]
      rw [parseLoop_S]
      have hsetS : setFlag (fsAfter l a [] [97] []) 83 (ofString "all") = some (fsAfter l a [ofString "all"] ([97] ++ [83]) []) := by
        unfold setFlag
        simp only [show ((83 : Nat) == 97) = false by decide, show ((83 : Nat) == 65) = false by decide,
          show ((83 : Nat) == 67) = false by decide, show ((83 : Nat) == 70) = false by decide, Bool.false_eq_true,
          if_false, beq_self_eq_true, if_true, hsplit, fsAfter, List.map_nil, List.nil_append]
      rw [hsetS]
      simp only [Option.bind_some]
      rw [parseLoop_fTokens parts hmatch]
      have e3 : 3 + parts.length = (2 + parts.length) + 1 := by omega
      rw [e3]
      simp only [fsAfter, List.map_nil, List.nil_append, parseLoop]
    have hfin : finish (fsAfter l a [ofString "all"] ([97] ++ [83] ++ List.replicate parts.length 70) parts) =
        some (.syscall 3 l a (parts.map mkFilter) [ofString "all"] []) := by
      unfold finish fsAfter
      have c1 : ([97] ++ [83] ++ List.replicate parts.length 70).contains 68 = false := by
        simp only [List.contains_eq_mem, decide_eq_false_iff_not, List.mem_append, List.mem_cons, List.mem_nil_iff, or_false]
        intro hh
        rcases hh with (hh | hh) | hh
        · omega
        · omega
        · have := hnot 68 hh; omega
      have c2 : ([97] ++ [83] ++ List.replicate parts.length 70).any (fun n => n == 119 || n == 112) = false := by
        rw [List.any_eq_false]
        intro x hx
        simp only [List.mem_append, List.mem_cons, List.mem_nil_iff, or_false] at hx
        rcases hx with (rfl | rfl) | hx
        · decide
        · decide
        · rw [hnot x hx]; decide
      have c3 : ([97] ++ [83] ++ List.replicate parts.length 70).any (fun n => n == 97 || n == 65 || n == 67 || n == 70 || n == 83) = true := by
        simp
      simp only [c1, c2, c3]
      rfl
    have hparse : parseArgs (numericTokens r.flags l a parts) = some (.syscall 3 l a (parts.map mkFilter) [ofString "all"] []) := by
      unfold parseArgs
      rw [hloop]
      simp only [Nat.lt_irrefl, if_false, gt_iff_lt]
      exact hfin
    have hrd : ruleDataOf env (.syscall 3 l a (parts.map mkFilter) [ofString "all"] []) =
        some { flags := r.flags, action := r.action, allSyscalls := true, explicitAll := true, trips := r.trips, strings := r.strings } := by
      simp only [ruleDataOf, setList_getList hl, setAction_getAction ha, hfold']
      simp [addSyscall, addKeys]
    refine ⟨_, _, hparse, hrd, rfl, ?_⟩
    exact toWire_congr _ _ rfl rfl rfl rfl hall.symm hsys.symm
  · have hexit' : (r.flags == LA.Gen.RuleTables.exitFilter || r.flags == LA.Gen.RuleTables.entryFilter) = false := by
      simpa using hexit
    have htok : numericTokens r.flags l a parts = tokA :: (a ++ [44] ++ l) :: (fTokens parts ++ []) := by
      simp only [numericTokens, hexit', Bool.false_eq_true, if_false, List.cons_append, List.nil_append, List.append_nil]
    have hfuel : (numericTokens r.flags l a parts).length + 1 = ((2 + parts.length) + parts.length) + 1 := by
      rw [htok]
      simp only [List.length_cons, List.length_append, List.length_nil, fTokens_length]
      omega
    have hloop : parseLoop ((numericTokens r.flags l a parts).length + 1) (numericTokens r.flags l a parts) {} =
        some (fsAfter l a [] ([97] ++ List.replicate parts.length 70) parts, 0) := by
      rw [hfuel, htok, parseLoop_a, hsetA]
      simp only [Option.bind_some]
      rw [parseLoop_fTokens parts hmatch]
      have e3 : 2 + parts.length = (1 + parts.length) + 1 := by omega
      rw [e3]
      simp only [fsAfter, List.map_nil, List.nil_append, parseLoop]
    have hfin : finish (fsAfter l a [] ([97] ++ List.replicate parts.length 70) parts) =
        some (.syscall 3 l a (parts.map mkFilter) [] []) := by
      unfold finish fsAfter
      have c1 : ([97] ++ List.replicate parts.length 70).contains 68 = false := by
        simp only [List.contains_eq_mem, decide_eq_false_iff_not, List.mem_append, List.mem_cons, List.mem_nil_iff, or_false]
        intro hh
        rcases hh with hh | hh
        · omega
        · have := hnot 68 hh; omega
      have c2 : ([97] ++ List.replicate parts.length 70).any (fun n => n == 119 || n == 112) = false := by
        rw [List.any_eq_false]
        intro x hx
        simp only [List.mem_append, List.mem_cons, List.mem_nil_iff, or_false] at hx
        rcases hx with rfl | hx
        · decide
        · rw [hnot x hx]; decide
      have c3 : ([97] ++ List.replicate parts.length 70).any (fun n => n == 97 || n == 65 || n == 67 || n == 70 || n == 83) = true := by
        simp
      simp only [c1, c2, c3]
      rfl
    have hparse : parseArgs (numericTokens r.flags l a parts) = some (.syscall 3 l a (parts.map mkFilter) [] []) := by
      unfold parseArgs
      rw [hloop]
      simp only [Nat.lt_irrefl, if_false, gt_iff_lt]
      exact hfin
    have hrd : ruleDataOf env (.syscall 3 l a (parts.map mkFilter) [] []) =
        some { flags := r.flags, action := r.action, allSyscalls := true, trips := r.trips, strings := r.strings } := by
      simp only [ruleDataOf, setList_getList hl, setAction_getAction ha, hfold']
      simp [addKeys]
    refine ⟨_, _, hparse, hrd, rfl, ?_⟩
    exact toWire_congr _ _ rfl rfl rfl rfl hall.symm hsys.symm


/-- Second clause of C07 as one theorem for the class of all-syscalls rules whose filters are numeric
**or string-valued** (path, dir, exe, key — including the joined keys of `-k` — and the SELinux
fields), i.e. every syscall rule Build accepts that has no arch filter, no inter-field comparison
and no explicit syscall list, is not of the exact shape `-w` produces, and whose string values are
non-empty and do not begin with '='. For such a rule (1) ToCommandLine's text is
`-a action,list [-S all] -F f1 … -F fn` with one element per filter, numeric values printed by
`fieldRhs` and strings verbatim, (2) the tokens of that text are accepted by flags.Parse, and Build
on the result accumulates the same triples and the same strings in the same order, and (3) the
wire data is byte-identical. (Shell tokenisation is outside the model, as in C14; a string with
white space or quotes would not survive it — KF-C07-backslash is the recorded instance.) -/
theorem C07_roundtrip_filters (env : Env) (he : EnvOk env) (rule : Rule) (r : RuleData)
    (hr : ruleDataOf env rule = some r)
    (hcls : ∀ t ∈ r.trips, (t.1 == LA.Gen.RuleTables.archField) = false ∧ (t.1 == LA.Gen.RuleTables.fieldCompare) = false)
    (hperm : ∀ t ∈ r.trips, t.1 = LA.Gen.RuleTables.permField → t.2.1 ≠ 0)
    (hstr : ∀ s ∈ r.strings, ∃ c tl, s = c :: tl ∧ c ≠ 61)
    (hw : asFileWatch r = none)
    (hall : r.allSyscalls = true) (hsys : r.syscalls = []) :
    ∃ (l a : Bytes) (names : List (Bytes × Bytes)),
      getList r.flags = some l ∧ getAction r.action = some a ∧ names.length = r.trips.length ∧
      cmdLineOf r = some (joinWith [32] ([ofString "-a", a ++ [44] ++ l] ++
        (if r.flags == LA.Gen.RuleTables.exitFilter || r.flags == LA.Gen.RuleTables.entryFilter then [ofString "-S", ofString "all"] else []) ++
        (partsMixed r.trips names (rhsList r.trips r.strings)).map (fun p => ofString "-F " ++ p.1 ++ p.2.1 ++ p.2.2))) ∧
      ∃ rule' r', parseArgs (numericTokens r.flags l a (partsMixed r.trips names (rhsList r.trips r.strings))) = some rule' ∧
        ruleDataOf env rule' = some r' ∧ r'.trips = r.trips ∧ toWire r' = toWire r := by
  have hp := printInv_ruleDataOf he hr
  have hal := aligned_ruleDataOf hr
  have hsa := saligned_ruleDataOf hr
  have hjust := justified_ruleDataOf hr
  cases hl : getList r.flags with
  | none => have := hp.list; rw [hl] at this; cases this
  | some l =>
  cases ha : getAction r.action with
  | none => have := hp.action; rw [ha] at this; cases this
  | some a =>
  have hnames : ∀ t ∈ r.trips, ∃ nm : Bytes × Bytes, PTrip t nm.1 nm.2 := by
    intro t ht
    obtain ⟨h2, h3⟩ := hcls t ht
    have hok := hp.trips t ht
    unfold tripOk at hok
    simp only [Bool.and_eq_true, h2, Bool.false_eq_true, if_false, h3] at hok
    cases ho : revLookup LA.Gen.RuleTables.operatorsTable t.2.2 with
    | none => rw [ho] at hok; cases hok.1
    | some opS =>
      cases hf : revLookup LA.Gen.RuleTables.fieldsTable t.1 with
      | none => rw [hf] at hok; cases hok.2
      | some lhs => exact ⟨(lhs, opS), ⟨h2, h3, hf, ho⟩⟩
  obtain ⟨names, hlen, hn⟩ : ∃ names : List (Bytes × Bytes), names.length = r.trips.length ∧
      ∀ (i : Nat) (t : Nat × Nat × Nat) (nm : Bytes × Bytes), r.trips[i]? = some t → names[i]? = some nm → PTrip t nm.1 nm.2 := by
    generalize r.trips = ts at hnames
    induction ts with
    | nil => exact ⟨[], rfl, by intro i t nm ht; simp at ht⟩
    | cons t ts ih =>
      obtain ⟨nm, hnm⟩ := hnames t (by simp)
      obtain ⟨ns, hl', hn'⟩ := ih (fun x hx => hnames x (by simp [hx]))
      refine ⟨nm :: ns, by simp [hl'], ?_⟩
      intro i t' nm' ht' hnm'
      cases i with
      | zero => simp at ht' hnm'; subst ht'; subst hnm'; exact hnm
      | succ j => exact hn' j t' nm' (by simpa using ht') (by simpa using hnm')
  refine ⟨l, a, names, rfl, rfl, hlen, ?_, ?_⟩
  · -- (1) the printed text
    unfold cmdLineOf
    rw [hl, ha]
    simp only
    rw [hw]
    simp only
    have hnoarch : lastIndexOf r.fields LA.Gen.RuleTables.archField = none := by
      unfold lastIndexOf
      have : (r.fields.zipIdx).filter (fun p => p.1 == LA.Gen.RuleTables.archField) = [] := by
        rw [List.filter_eq_nil_iff]
        intro p hpm
        have hz := List.mem_zipIdx_iff_getElem?.mp hpm
        simp only [RuleData.fields, List.getElem?_map, Option.map_eq_some_iff] at hz
        obtain ⟨t, hti, htf⟩ := hz
        have := (hcls t (List.mem_of_getElem? hti)).1
        rw [htf] at this
        simpa using this
      rw [this]; rfl
    rw [hnoarch]
    simp only
    have hpf := printFields_mixed r.trips names r.strings hal hlen hn
    simp only [RuleData.fields, RuleData.values, RuleData.fieldFlags, hpf, hall, if_true]
    simp [List.append_assoc]
  · -- (2), (3)
    have hj' : ∀ t ∈ r.trips, stringFields.contains t.1 = false → Justified env r.flags t :=
      fun t ht hs => hjust t ht hs (hcls t ht).2
    have hmatch := partsMixed_match env he r.flags r.trips names r.strings hlen hn hsa hj' hperm hstr
    have hfold := foldl_addFilter_mixed env he r.trips names r.strings hlen hn
      { flags := r.flags, action := r.action, allSyscalls := true } hsa hj' hperm
    refine reparse_of_parts env r l a hl ha _ hmatch ?_ hall hsys
    simpa using hfold

/-- non-vacuity of `C07_roundtrip_filters`: `-a always,exit -F pid=1 -F exe=/bin/ls -F key=a\x01b`
(what `-F pid=1 -F exe=/bin/ls -k a -k b` builds) satisfies its hypotheses. -/
example : ((ruleDataOf ⟨false, [], []⟩ (.syscall 3 (ofString "exit") (ofString "always")
    [⟨2, ofString "pid", [61], ofString "1"⟩, ⟨2, ofString "exe", [61], ofString "/bin/ls"⟩] [] [ofString "a", ofString "b"])).map (fun r =>
      r.allSyscalls && r.syscalls.isEmpty && decide (r.trips.length = 3) && decide (r.strings.length = 2) &&
      (asFileWatch r).isNone &&
      r.strings.all (fun s => match s with | c :: _ => c != 61 | [] => false) &&
      r.trips.all (fun t => !(t.1 == LA.Gen.RuleTables.archField) &&
        !(t.1 == LA.Gen.RuleTables.fieldCompare) && !(t.1 == LA.Gen.RuleTables.permField)))) = some true := by
  decide +kernel

/-! ### the text half composed over a whole line: every all-syscalls rule without an arch filter
(numeric, string-valued and inter-field comparison fields) -/

/-- the two field names printed for an inter-field comparison code (smaller field code first) -/
def cmpNames (v : Nat) : Option (Bytes × Bytes) :=
  match LA.Gen.RuleTables.comparisonsTable.find? (fun e => e.2.2 == v) with
  | none => none
  | some e =>
    match revLookup LA.Gen.RuleTables.fieldsTable (min e.1 e.2.1), revLookup LA.Gen.RuleTables.fieldsTable (max e.1 e.2.1) with
    | some an, some bn => some (an, bn)
    | _, _ => none

/-- table fact: for every comparison code of the table, the printed pair of names is accepted by
addInterField and looks up that same code. -/
theorem cmp_table_fact :
    LA.Gen.RuleTables.comparisonsTable.all (fun e0 =>
      match cmpNames e0.2.2 with
      | none => false
      | some (an, bn) =>
        match lookupB LA.Gen.RuleTables.fieldsTable an, lookupB LA.Gen.RuleTables.fieldsTable bn with
        | some lf, some rf =>
          LA.Gen.RuleTables.comparisonsTable.any (fun e => e.1 == lf) && (lookupComparison lf rf == some e0.2.2) &&
          !an.isEmpty && an.all isReWord && !bn.isEmpty && bn.all isReWord
        | _, _ => false) = true := by
  decide +kernel

theorem takeWhile_words_stop (an : Bytes) (c : Nat) (tl : Bytes) (ha : ∀ b ∈ an, isReWord b = true) (hc : isReWord c = false) :
    (an ++ c :: tl).takeWhile isReWord = an := by
  induction an with
  | nil => simp [List.takeWhile_cons, hc]
  | cons x xs ih =>
    simp only [List.cons_append, List.takeWhile_cons, ha x (by simp), if_true]
    rw [ih (fun b hb => ha b (by simp [hb]))]

/-- the printed `-C` value is split by the -C expression into the same three parts. -/
theorem comparison_token_reparse (an bn opS : Bytes) (ha0 : an ≠ []) (ha : ∀ b ∈ an, isReWord b = true)
    (hb0 : bn ≠ []) (hb : ∀ b ∈ bn, isReWord b = true) (hop : opS = [61] ∨ opS = [33, 61]) :
    matchComparison (an ++ opS ++ bn) = some (an, opS, bn) := by
  have h61 : isReWord 61 = false := by decide
  have h33 : isReWord 33 = false := by decide
  have hball : bn.all isReWord = true := List.all_eq_true.mpr hb
  have hbe : bn.isEmpty = false := by cases bn with | nil => exact absurd rfl hb0 | cons _ _ => rfl
  have hae : an.isEmpty = false := by cases an with | nil => exact absurd rfl ha0 | cons _ _ => rfl
  rcases hop with rfl | rfl
  · have e : an ++ [61] ++ bn = an ++ 61 :: bn := by simp
    rw [e]
    unfold matchComparison
    simp only [takeWhile_words_stop an 61 bn ha h61, hae, Bool.false_eq_true, if_false, List.drop_left]
    have : (61 :: bn).dropWhile isReSpace = 61 :: bn := by
      simp [List.dropWhile_cons, show isReSpace 61 = false by decide]
    rw [this]
    simp [hbe, hball]
  · have e : an ++ [33, 61] ++ bn = an ++ 33 :: 61 :: bn := by simp
    rw [e]
    unfold matchComparison
    simp only [takeWhile_words_stop an 33 (61 :: bn) ha h33, hae, Bool.false_eq_true, if_false, List.drop_left]
    have : (33 :: 61 :: bn).dropWhile isReSpace = 33 :: 61 :: bn := by
      simp [List.dropWhile_cons, show isReSpace 33 = false by decide]
    rw [this]
    simp [hbe, hball]

/-- why an inter-field comparison triple is in a rule: its operator is = or != and its value is a
code of the comparison table. -/
def CmpJust (t : Nat × Nat × Nat) : Prop :=
  t.1 = LA.Gen.RuleTables.fieldCompare → (t.2.2 = eqOp ∨ t.2.2 = neOp) ∧ ∃ e ∈ LA.Gen.RuleTables.comparisonsTable, e.2.2 = t.2.1

theorem cmpJust_ruleDataOf {env : Env} {rule : Rule} {r : RuleData} (h : ruleDataOf env rule = some r) :
    ∀ t ∈ r.trips, CmpJust t := by
  have nocmp : LA.Gen.RuleTables.fieldsTable.all (fun p => p.2 != LA.Gen.RuleTables.fieldCompare) = true := by decide +kernel
  refine ruleDataOf_induct (env := env) (fun r => ∀ t ∈ r.trips, CmpJust t) ?_ ?_ ?_ ?_ h
  · intro fl ac _ _ t ht; simp at ht
  · intro r r' l o v hp hf
    unfold addFilter at hf
    split at hf
    · rename_i opc f hop hfl
      split at hf
      · simp at hf
      · cases hv : filterValue env r f opc v with
        | none => rw [hv] at hf; simp at hf
        | some x =>
          rw [hv] at hf
          simp only [Option.map_some, Option.some.injEq] at hf
          subst hf
          intro t ht
          simp only [List.mem_append, List.mem_cons, List.mem_nil_iff, or_false] at ht
          rcases ht with ht | rfl
          · exact hp t ht
          · intro hc
            exfalso
            obtain ⟨p, hpm, hpv⟩ := lookupB_mem hfl
            have := List.all_eq_true.mp nocmp p hpm
            simp only [bne_iff_ne, ne_eq] at this
            exact this (hpv.trans hc)
    · simp at hf
  · intro r r' l o v hp hi
    unfold addInterField at hi
    cases hop : lookupB LA.Gen.RuleTables.operatorsTable o with
    | none => rw [hop] at hi; simp at hi
    | some opc =>
      rw [hop] at hi
      simp only at hi
      split at hi
      · simp at hi
      · rename_i hopc
        split at hi
        · split at hi
          · simp at hi
          · rename_i lf rf _ _ _
            cases hc : lookupComparison lf rf with
            | none => rw [hc] at hi; simp at hi
            | some c =>
              rw [hc] at hi
              simp only [Option.some.injEq] at hi
              subst hi
              intro t ht
              simp only [List.mem_append, List.mem_cons, List.mem_nil_iff, or_false] at ht
              rcases ht with ht | rfl
              · exact hp t ht
              · intro _
                refine ⟨?_, ?_⟩
                · simp only [Bool.and_eq_true, bne_iff_ne, ne_eq, not_and, Decidable.not_not] at hopc
                  by_cases h1 : opc = eqOp
                  · exact Or.inl h1
                  · exact Or.inr (hopc h1)
                · unfold lookupComparison at hc
                  cases hfd : LA.Gen.RuleTables.comparisonsTable.find? (fun e => e.1 == lf && e.2.1 == rf) with
                  | none => rw [hfd] at hc; simp at hc
                  | some e =>
                    rw [hfd] at hc
                    simp only [Option.map_some, Option.some.injEq] at hc
                    exact ⟨e, List.mem_of_find?_eq_some hfd, hc⟩
        · simp at hi
  · intro r r' sc hp hs
    have : r'.trips = r.trips := by
      unfold addSyscall at hs
      split at hs
      · simp only [Option.some.injEq] at hs; subst hs; rfl
      · simp only at hs
        split at hs
        · simp at hs
        · split at hs
          · simp at hs
          · simp only [Option.some.injEq] at hs; subst hs; rfl
    rw [this]; exact hp

/-- a printed argument with its flag letter (70 = -F, 67 = -C): letter, left side, operator, right side -/
abbrev GPart := Nat × Bytes × Bytes × Bytes

def gFilter (p : GPart) : FilterSpec := ⟨if p.1 == 67 then 1 else 2, p.2.1, p.2.2.1, p.2.2.2⟩
def gPrint (p : GPart) : Bytes := (if p.1 == 67 then ofString "-C " else ofString "-F ") ++ p.2.1 ++ p.2.2.1 ++ p.2.2.2

/-- how the triples (with their strings) of a rule are printed, one argument per triple, together
with the reason each triple is in the rule. -/
inductive Printed (env : Env) (fl : Nat) : List (Nat × Nat × Nat) → List Bytes → List GPart → Prop
  | nil : Printed env fl [] [] []
  | str (t : Nat × Nat × Nat) (s lhs opS : Bytes) (ts : List (Nat × Nat × Nat)) (ss : List Bytes) (ps : List GPart) :
      stringFields.contains t.1 = true → PTrip t lhs opS → t.2.1 = s.length → StrOk env fl t s →
      (∃ c tl, s = c :: tl ∧ c ≠ 61) → Printed env fl ts ss ps →
      Printed env fl (t :: ts) (s :: ss) ((70, lhs, opS, s) :: ps)
  | num (t : Nat × Nat × Nat) (lhs opS : Bytes) (ts : List (Nat × Nat × Nat)) (ss : List Bytes) (ps : List GPart) :
      stringFields.contains t.1 = false → PTrip t lhs opS → Justified env fl t →
      (t.1 = LA.Gen.RuleTables.permField → t.2.1 ≠ 0) → Printed env fl ts ss ps →
      Printed env fl (t :: ts) ss ((70, lhs, opS, fieldRhs t.1 t.2.1) :: ps)
  | cmp (t : Nat × Nat × Nat) (an bn opS : Bytes) (ts : List (Nat × Nat × Nat)) (ss : List Bytes) (ps : List GPart) :
      t.1 = LA.Gen.RuleTables.fieldCompare → cmpNames t.2.1 = some (an, bn) →
      revLookup LA.Gen.RuleTables.operatorsTable t.2.2 = some opS → (t.2.2 = eqOp ∨ t.2.2 = neOp) →
      (∃ e ∈ LA.Gen.RuleTables.comparisonsTable, e.2.2 = t.2.1) → Printed env fl ts ss ps →
      Printed env fl (t :: ts) ss ((67, an, opS, bn) :: ps)

theorem printed_length {env : Env} {fl : Nat} {ts : List (Nat × Nat × Nat)} {ss : List Bytes} {ps : List GPart}
    (h : Printed env fl ts ss ps) : ps.length = ts.length := by
  induction h with
  | nil => rfl
  | str _ _ _ _ _ _ _ _ _ _ _ _ _ ih => simp [ih]
  | num _ _ _ _ _ _ _ _ _ _ _ ih => simp [ih]
  | cmp _ _ _ _ _ _ _ _ _ _ _ _ _ ih => simp [ih]

/-- L1: printFields prints exactly the arguments of `Printed`. -/
theorem printFields_printed {env : Env} {fl : Nat} {ts : List (Nat × Nat × Nat)} {ss : List Bytes} {ps : List GPart}
    (h : Printed env fl ts ss ps) :
    printFields (ts.map (·.1)) (ts.map (·.2.1)) (ts.map (·.2.2)) ss = some (ps.map gPrint) := by
  have ca : (LA.Gen.RuleTables.fieldCompare == LA.Gen.RuleTables.archField) = false := by decide
  have cs : stringFields.contains LA.Gen.RuleTables.fieldCompare = false := by decide +kernel
  induction h with
  | nil => simp [printFields]
  | str t s lhs opS ts ss ps hs hp hv hok hne hrest ih =>
    simp only [List.map_cons, printFields, hp.op, hp.notArch, Bool.false_eq_true, if_false, hp.notCmp, hp.lhs, hs, if_true, ih,
      Option.map_some, gPrint]
    simp [List.append_assoc]
  | num t lhs opS ts ss ps hs hp hj hpm hrest ih =>
    simp only [List.map_cons, printFields, hp.op, hp.notArch, Bool.false_eq_true, if_false, hp.notCmp, hp.lhs, hs, ih,
      Option.map_some, gPrint]
    simp [List.append_assoc]
  | cmp t an bn opS ts ss ps hc hnames hop hops he hrest ih =>
    unfold cmpNames at hnames
    cases hfd : LA.Gen.RuleTables.comparisonsTable.find? (fun e => e.2.2 == t.2.1) with
    | none => rw [hfd] at hnames; cases hnames
    | some e =>
      rw [hfd] at hnames
      simp only at hnames
      cases h1 : revLookup LA.Gen.RuleTables.fieldsTable (min e.1 e.2.1) with
      | none => rw [h1] at hnames; cases hnames
      | some a1 =>
        cases h2 : revLookup LA.Gen.RuleTables.fieldsTable (max e.1 e.2.1) with
        | none => rw [h1, h2] at hnames; cases hnames
        | some b1 =>
          rw [h1, h2] at hnames
          simp only [Option.some.injEq, Prod.mk.injEq] at hnames
          obtain ⟨rfl, rfl⟩ := hnames
          simp only [List.map_cons, printFields, hop, hc, ca, Bool.false_eq_true, if_false, beq_self_eq_true, if_true, hfd, h1, h2, ih,
            Option.map_some, gPrint]

/-- L3: every printed argument is split by its own expression (-F or -C) into itself. -/
theorem printed_match {env : Env} (he : EnvOk env) {fl : Nat} {ts : List (Nat × Nat × Nat)} {ss : List Bytes} {ps : List GPart}
    (h : Printed env fl ts ss ps) :
    ∀ p ∈ ps, (p.1 = 70 ∧ matchFilter (p.2.1 ++ p.2.2.1 ++ p.2.2.2) = some p.2) ∨
              (p.1 = 67 ∧ matchComparison (p.2.1 ++ p.2.2.1 ++ p.2.2.2) = some p.2) := by
  have eqn : revLookup LA.Gen.RuleTables.operatorsTable eqOp = some [61] := by decide +kernel
  have nen : revLookup LA.Gen.RuleTables.operatorsTable neOp = some [33, 61] := by decide +kernel
  induction h with
  | nil => intro p hp; simp at hp
  | str t s lhs opS ts ss ps hs hp hv hok hne hrest ih =>
    intro p hpm
    rcases List.mem_cons.mp hpm with rfl | hpm
    · obtain ⟨c, tl, rfl, hc⟩ := hne
      obtain ⟨f1, f2, f3⟩ := names_facts hp.lhs hp.op
      exact Or.inl ⟨rfl, C07_filter_token_reparse lhs opS c tl f1 f2 f3 hc⟩
    · exact ih p hpm
  | num t lhs opS ts ss ps hs hp hj hpm' hrest ih =>
    intro p hpm
    rcases List.mem_cons.mp hpm with rfl | hpm
    · obtain ⟨⟨rhs0, a, hb⟩, hex⟩ := hj
      exact Or.inl ⟨rfl, (C07_filter_reparse env he { flags := fl } t.1 t.2.1 t.2.2 lhs opS rhs0 a hp.lhs hp.op hs hp.notArch hb hex hpm').1⟩
    · exact ih p hpm
  | cmp t an bn opS ts ss ps hc hnames hop hops he' hrest ih =>
    intro p hpm
    rcases List.mem_cons.mp hpm with rfl | hpm
    · obtain ⟨e, hem, hev⟩ := he'
      have tf := List.all_eq_true.mp cmp_table_fact e hem
      rw [hev, hnames] at tf
      simp only at tf
      cases h1 : lookupB LA.Gen.RuleTables.fieldsTable an with
      | none => rw [h1] at tf; simp at tf
      | some lf =>
        cases h2 : lookupB LA.Gen.RuleTables.fieldsTable bn with
        | none => rw [h1, h2] at tf; simp at tf
        | some rf =>
          rw [h1, h2] at tf
          simp only [Bool.and_eq_true, Bool.not_eq_true', List.all_eq_true] at tf
          obtain ⟨⟨⟨⟨⟨_, _⟩, a0⟩, a1⟩, b0⟩, b1⟩ := tf
          have hopS : opS = [61] ∨ opS = [33, 61] := by
            rcases hops with ho | ho
            · rw [ho, eqn] at hop; exact Or.inl (Option.some.inj hop).symm
            · rw [ho, nen] at hop; exact Or.inr (Option.some.inj hop).symm
          refine Or.inr ⟨rfl, comparison_token_reparse an bn opS ?_ a1 ?_ b1 hopS⟩
          · intro hh; subst hh; simp at a0
          · intro hh; subst hh; simp at b0
    · exact ih p hpm

/-- L4: re-adding the printed arguments, one after the other, appends exactly the triples and their strings. -/
theorem foldl_printed (env : Env) (he : EnvOk env) {fl : Nat} {ts : List (Nat × Nat × Nat)} {ss : List Bytes} {ps : List GPart}
    (h : Printed env fl ts ss ps) (r0 : RuleData) (hfl : r0.flags = fl) :
    (ps.map gFilter).foldl (fun (acc : Option RuleData) f =>
        acc.bind fun r =>
          if (f.typ == 2) = true then addFilter env r f.lhs f.op f.rhs
          else if (f.typ == 1) = true then addInterField r f.lhs f.op f.rhs
          else some r) (some r0) = some { r0 with trips := r0.trips ++ ts, strings := r0.strings ++ ss } := by
  have nd1 : (LA.Gen.RuleTables.fieldsTable.map (·.1)).Nodup := by decide +kernel
  have nd2 : (LA.Gen.RuleTables.operatorsTable.map (·.1)).Nodup := by decide +kernel
  induction h generalizing r0 with
  | nil => simp
  | str t s lhs opS ts ss ps hs hp hv hok hne hrest ih =>
    subst hfl
    have hf := lookupB_of_revLookup nd1 hp.lhs
    have ho := lookupB_of_revLookup nd2 hp.op
    have step : addFilter env r0 lhs opS s = some { r0 with trips := r0.trips ++ [t], strings := r0.strings ++ [s] } := by
      unfold addFilter
      simp only [hf, ho, hok.2, Bool.false_eq_true, if_false]
      rw [filterValue_flags0 env r0 { flags := r0.flags } rfl, hok.1]
      simp only [Option.map_some, ← hv]
    simp only [List.map_cons, List.foldl_cons, Option.bind_some, gFilter, show ((70 : Nat) == 67) = false by decide,
      Bool.false_eq_true, if_false, beq_self_eq_true, if_true, step]
    have := ih { r0 with trips := r0.trips ++ [t], strings := r0.strings ++ [s] } rfl
    simp only [gFilter] at this
    rw [this]
    simp [List.append_assoc]
  | num t lhs opS ts ss ps hs hp hj hpm hrest ih =>
    subst hfl
    obtain ⟨⟨rhs0, a, hb⟩, hex⟩ := hj
    have hb' : filterValue env r0 t.1 t.2.2 rhs0 = some (t.2.1, none, a) := by
      rw [filterValue_flags env r0 { flags := r0.flags } rfl]; exact hb
    have step := (C07_filter_reparse env he r0 t.1 t.2.1 t.2.2 lhs opS rhs0 a hp.lhs hp.op hs hp.notArch hb' hex hpm).2
    simp only [List.map_cons, List.foldl_cons, Option.bind_some, gFilter, show ((70 : Nat) == 67) = false by decide,
      Bool.false_eq_true, if_false, beq_self_eq_true, if_true, step]
    have := ih { r0 with trips := r0.trips ++ [(t.1, t.2.1, t.2.2)] } rfl
    simp only [gFilter] at this
    rw [this]
    simp [List.append_assoc]
  | cmp t an bn opS ts ss ps hc hnames hop hops he' hrest ih =>
    subst hfl
    obtain ⟨e, hem, hev⟩ := he'
    have tf := List.all_eq_true.mp cmp_table_fact e hem
    rw [hev, hnames] at tf
    simp only at tf
    have ho := lookupB_of_revLookup nd2 hop
    cases h1 : lookupB LA.Gen.RuleTables.fieldsTable an with
    | none => rw [h1] at tf; simp at tf
    | some lf =>
      cases h2 : lookupB LA.Gen.RuleTables.fieldsTable bn with
      | none => rw [h1, h2] at tf; simp at tf
      | some rf =>
        rw [h1, h2] at tf
        simp only [Bool.and_eq_true, Bool.not_eq_true', List.all_eq_true, beq_iff_eq] at tf
        obtain ⟨⟨⟨⟨⟨hany, hlc⟩, _⟩, _⟩, _⟩, _⟩ := tf
        have hopc : (t.2.2 != eqOp && t.2.2 != neOp) = false := by
          rcases hops with ho' | ho' <;> simp [ho']
        have step : addInterField r0 an opS bn = some { r0 with trips := r0.trips ++ [t] } := by
          unfold addInterField
          simp only [ho, hopc, Bool.false_eq_true, if_false, h1, h2, hany, Bool.not_true, hlc]
          have : t = (LA.Gen.RuleTables.fieldCompare, t.2.1, t.2.2) := by rw [← hc]
          rw [← this]
        simp only [List.map_cons, List.foldl_cons, Option.bind_some, gFilter, beq_self_eq_true, if_true,
          show ((1 : Nat) == 2) = false by decide, Bool.false_eq_true, if_false, step]
        have := ih { r0 with trips := r0.trips ++ [t] } rfl
        simp only [gFilter] at this
        rw [this]
        simp [List.append_assoc]

/-! ### the flag loop over printed -F / -C arguments -/

def tokC : Bytes := [45, 67]   -- "-C"

theorem parseLoop_C (fuel : Nat) (v : Bytes) (rest : List Bytes) (fs : FS) :
    parseLoop (fuel + 1) (tokC :: v :: rest) fs = (setFlag fs 67 v).bind (parseLoop fuel rest) :=
  parseLoop_value_flag 67 (by decide) (by decide) (by decide) fuel v rest fs

/-- the tokens of a list of printed arguments -/
def gTokens (ps : List GPart) : List Bytes := ps.flatMap (fun p => [[45, p.1], p.2.1 ++ p.2.2.1 ++ p.2.2.2])

theorem gTokens_length (ps : List GPart) : (gTokens ps).length = 2 * ps.length := by
  induction ps with
  | nil => rfl
  | cons t ts ih => simp only [gTokens, List.flatMap_cons, List.length_append, List.length_cons, List.length_nil] at ih ⊢; omega

def GMatch (p : GPart) : Prop :=
  (p.1 = 70 ∧ matchFilter (p.2.1 ++ p.2.2.1 ++ p.2.2.2) = some p.2) ∨
  (p.1 = 67 ∧ matchComparison (p.2.1 ++ p.2.2.1 ++ p.2.2.2) = some p.2)

/-- L5: the flag loop over a run of printed -F / -C arguments that each re-parse into their parts:
exactly one filter per argument, in order, of the right kind, and its letter recorded as visited. -/
theorem parseLoop_gTokens (ps : List GPart) (hm : ∀ p ∈ ps, GMatch p) (fuel : Nat) (rest : List Bytes) (fs : FS) :
    parseLoop (fuel + ps.length) (gTokens ps ++ rest) fs =
      parseLoop fuel rest { fs with filters := fs.filters ++ ps.map gFilter, visited := fs.visited ++ ps.map (·.1) } := by
  induction ps generalizing fs with
  | nil => simp [gTokens]
  | cons t ts ih =>
    have e : fuel + (t :: ts).length = (fuel + ts.length) + 1 := by simp; omega
    rw [e]
    simp only [gTokens, List.flatMap_cons, List.cons_append, List.nil_append]
    have hs : parseLoop (fuel + ts.length + 1) ([45, t.1] :: (t.2.1 ++ t.2.2.1 ++ t.2.2.2) :: (gTokens ts ++ rest)) fs =
        parseLoop (fuel + ts.length) (gTokens ts ++ rest)
          { fs with visited := fs.visited ++ [t.1], filters := fs.filters ++ [gFilter t] } := by
      rcases hm t (by simp) with ⟨h70, hmt⟩ | ⟨h67, hmt⟩
      · have : ([45, t.1] : Bytes) = tokF := by rw [h70]; rfl
        rw [this, parseLoop_F]
        have : setFlag fs 70 (t.2.1 ++ t.2.2.1 ++ t.2.2.2) =
            some { fs with visited := fs.visited ++ [t.1], filters := fs.filters ++ [gFilter t] } := by
          unfold setFlag
          simp only [show ((70 : Nat) == 97) = false by decide, show ((70 : Nat) == 65) = false by decide,
            show ((70 : Nat) == 67) = false by decide, Bool.false_eq_true, if_false, beq_self_eq_true, if_true, hmt,
            Option.map_some, gFilter, h70]
        rw [this]; rfl
      · have : ([45, t.1] : Bytes) = tokC := by rw [h67]; rfl
        rw [this, parseLoop_C]
        have : setFlag fs 67 (t.2.1 ++ t.2.2.1 ++ t.2.2.2) =
            some { fs with visited := fs.visited ++ [t.1], filters := fs.filters ++ [gFilter t] } := by
          unfold setFlag
          simp only [show ((67 : Nat) == 97) = false by decide, show ((67 : Nat) == 65) = false by decide,
            Bool.false_eq_true, if_false, beq_self_eq_true, if_true, hmt,
            Option.map_some, gFilter, h67]
        rw [this]; rfl
    have hs' : parseLoop (fuel + ts.length + 1) ([45, t.1] :: (t.2.1 ++ (t.2.2.1 ++ t.2.2.2)) :: (gTokens ts ++ rest)) fs =
        parseLoop (fuel + ts.length) (gTokens ts ++ rest)
          { fs with visited := fs.visited ++ [t.1], filters := fs.filters ++ [gFilter t] } := by
      rw [← hs]; simp [List.append_assoc]
    simp only [gTokens] at hs hs' ih ⊢
    first
      | rw [hs]
      | rw [hs']
    rw [ih (fun x hx => hm x (by simp [hx]))]
    simp [List.append_assoc]

/-- L2: everything Build accumulates (without arch filters, strings non-empty and not starting with
'=', no empty permission set) is printable. -/
theorem printed_exists (env : Env) (fl : Nat) (ts : List (Nat × Nat × Nat)) (ss : List Bytes)
    (hsa : SAligned env fl ts ss)
    (hok : ∀ t ∈ ts, tripOk t = true)
    (harch : ∀ t ∈ ts, (t.1 == LA.Gen.RuleTables.archField) = false)
    (hj : ∀ t ∈ ts, stringFields.contains t.1 = false → (t.1 == LA.Gen.RuleTables.fieldCompare) = false → Justified env fl t)
    (hcj : ∀ t ∈ ts, CmpJust t)
    (hperm : ∀ t ∈ ts, t.1 = LA.Gen.RuleTables.permField → t.2.1 ≠ 0)
    (hstr : ∀ s ∈ ss, ∃ c tl, s = c :: tl ∧ c ≠ 61) :
    ∃ ps, Printed env fl ts ss ps := by
  have cs : stringFields.contains LA.Gen.RuleTables.fieldCompare = false := by decide +kernel
  induction ts generalizing ss with
  | nil =>
    simp only [SAligned] at hsa
    subst hsa
    exact ⟨[], .nil⟩
  | cons t ts ih =>
    have hokt := hok t (by simp)
    have ha := harch t (by simp)
    unfold tripOk at hokt
    simp only [Bool.and_eq_true, ha, Bool.false_eq_true, if_false] at hokt
    obtain ⟨hop1, hrest1⟩ := hokt
    cases hop : revLookup LA.Gen.RuleTables.operatorsTable t.2.2 with
    | none => rw [hop] at hop1; cases hop1
    | some opS =>
      simp only [SAligned] at hsa
      by_cases hc : (t.1 == LA.Gen.RuleTables.fieldCompare) = true
      · have hce : t.1 = LA.Gen.RuleTables.fieldCompare := by simpa using hc
        have hs' : stringFields.contains t.1 = false := by rw [hce]; exact cs
        simp only [hs', Bool.false_eq_true, if_false] at hsa
        obtain ⟨ps, hps⟩ := ih ss hsa (fun x hx => hok x (by simp [hx])) (fun x hx => harch x (by simp [hx]))
          (fun x hx => hj x (by simp [hx])) (fun x hx => hcj x (by simp [hx])) (fun x hx => hperm x (by simp [hx])) hstr
        obtain ⟨hops, hex⟩ := hcj t (by simp) hce
        rw [if_pos hc] at hrest1
        -- names from tripOk
        cases hfd : LA.Gen.RuleTables.comparisonsTable.find? (fun e => e.2.2 == t.2.1) with
        | none => rw [hfd] at hrest1; cases hrest1
        | some e =>
          rw [hfd] at hrest1
          simp only [Bool.and_eq_true] at hrest1
          cases h1 : revLookup LA.Gen.RuleTables.fieldsTable (min e.1 e.2.1) with
          | none => rw [h1] at hrest1; cases hrest1.1
          | some an =>
            cases h2 : revLookup LA.Gen.RuleTables.fieldsTable (max e.1 e.2.1) with
            | none => rw [h2] at hrest1; cases hrest1.2
            | some bn =>
              have hn : cmpNames t.2.1 = some (an, bn) := by
                unfold cmpNames
                rw [hfd]
                simp only [h1, h2]
              exact ⟨_, .cmp t an bn opS ts ss ps hce hn hop hops hex hps⟩
      · have hc' : (t.1 == LA.Gen.RuleTables.fieldCompare) = false := by simpa using hc
        rw [if_neg hc] at hrest1
        cases hl : revLookup LA.Gen.RuleTables.fieldsTable t.1 with
        | none => rw [hl] at hrest1; cases hrest1
        | some lhs =>
          have hp : PTrip t lhs opS := ⟨ha, hc', hl, hop⟩
          by_cases hs : stringFields.contains t.1 = true
          · rw [if_pos hs] at hsa
            obtain ⟨s, rest, rfl, hv, hsok, hr⟩ := hsa
            obtain ⟨ps, hps⟩ := ih rest hr (fun x hx => hok x (by simp [hx])) (fun x hx => harch x (by simp [hx]))
              (fun x hx => hj x (by simp [hx])) (fun x hx => hcj x (by simp [hx])) (fun x hx => hperm x (by simp [hx]))
              (fun x hx => hstr x (by simp [hx]))
            exact ⟨_, .str t s lhs opS ts rest ps hs hp hv hsok (hstr s (by simp)) hps⟩
          · have hs' : stringFields.contains t.1 = false := by simpa using hs
            rw [if_neg hs] at hsa
            obtain ⟨ps, hps⟩ := ih ss hsa (fun x hx => hok x (by simp [hx])) (fun x hx => harch x (by simp [hx]))
              (fun x hx => hj x (by simp [hx])) (fun x hx => hcj x (by simp [hx])) (fun x hx => hperm x (by simp [hx])) hstr
            exact ⟨_, .num t lhs opS ts ss ps hs' hp (hj t (by simp) hs' hc') (hperm t (by simp)) hps⟩

/-- the tokens of the line ToCommandLine prints for an all-syscalls rule without arch filter -/
def lineTokens (fl : Nat) (l a : Bytes) (ps : List GPart) : List Bytes :=
  [tokA, a ++ [44] ++ l] ++
  (if fl == LA.Gen.RuleTables.exitFilter || fl == LA.Gen.RuleTables.entryFilter then [tokS, ofString "all"] else []) ++
  gTokens ps

def fsAfterG (l a : Bytes) (sys : List Bytes) (vis : List Nat) (ps : List GPart) : FS :=
  { append := some (l, a), syscalls := sys, filters := ps.map gFilter, visited := vis }

/-- L6: the generic second half of the text round trip over printed -F / -C arguments. -/
theorem reparse_of_gparts (env : Env) (r : RuleData) (l a : Bytes)
    (hl : getList r.flags = some l) (ha : getAction r.action = some a)
    (ps : List GPart) (hmatch : ∀ p ∈ ps, GMatch p)
    (hfold' : (ps.map gFilter).foldl (fun (acc : Option RuleData) f =>
        acc.bind fun r =>
          if (f.typ == 2) = true then addFilter env r f.lhs f.op f.rhs
          else if (f.typ == 1) = true then addInterField r f.lhs f.op f.rhs
          else some r) (some { flags := r.flags, action := r.action, allSyscalls := true }) =
        some { flags := r.flags, action := r.action, allSyscalls := true, trips := r.trips, strings := r.strings })
    (hall : r.allSyscalls = true) (hsys : r.syscalls = []) :
    ∃ rule' r', parseArgs (lineTokens r.flags l a ps) = some rule' ∧
      ruleDataOf env rule' = some r' ∧ r'.trips = r.trips ∧ toWire r' = toWire r := by
  have hadd := setAdd_print hl ha
  have hsetA : setFlag {} 97 (a ++ [44] ++ l) = some (fsAfterG l a [] [97] []) := by
    unfold setFlag
    simp only [beq_self_eq_true, if_true, hadd, Option.map_some, fsAfterG, List.map_nil, List.nil_append]
  have hsplit : splitList (ofString "all") = [ofString "all"] := by decide +kernel
  have hlet : ∀ x ∈ ps.map (fun p : GPart => p.1), x = 70 ∨ x = 67 := by
    intro x hx
    obtain ⟨p, hp, rfl⟩ := List.mem_map.mp hx
    rcases hmatch p hp with ⟨h, _⟩ | ⟨h, _⟩
    · exact Or.inl h
    · exact Or.inr h
  have hvlen : (ps.map (fun p : GPart => p.1)).length = ps.length := by simp
  by_cases hexit : (r.flags == LA.Gen.RuleTables.exitFilter || r.flags == LA.Gen.RuleTables.entryFilter) = true
  · have htok : lineTokens r.flags l a ps = tokA :: (a ++ [44] ++ l) :: tokS :: ofString "all" :: (gTokens ps ++ []) := by
      simp only [lineTokens, hexit, if_true, List.cons_append, List.nil_append, List.append_nil]
    have hfuel : (lineTokens r.flags l a ps).length + 1 = (((3 + ps.length) + ps.length) + 1) + 1 := by
      rw [htok]
      simp only [List.length_cons, List.length_append, List.length_nil, gTokens_length]
      omega
    have hloop : parseLoop ((lineTokens r.flags l a ps).length + 1) (lineTokens r.flags l a ps) {} =
        some (fsAfterG l a [ofString "all"] ([97] ++ [83] ++ ps.map (fun p : GPart => p.1)) ps, 0) := by
      rw [hfuel, htok, parseLoop_a, hsetA]
      simp only [Option.bind_some]
      rw [parseLoop_S]
      have hsetS : setFlag (fsAfterG l a [] [97] []) 83 (ofString "all") = some (fsAfterG l a [ofString "all"] ([97] ++ [83]) []) := by
        unfold setFlag
        simp only [show ((83 : Nat) == 97) = false by decide, show ((83 : Nat) == 65) = false by decide,
          show ((83 : Nat) == 67) = false by decide, show ((83 : Nat) == 70) = false by decide, Bool.false_eq_true,
          if_false, beq_self_eq_true, if_true, hsplit, fsAfterG, List.map_nil, List.nil_append]
      rw [hsetS]
      simp only [Option.bind_some]
      rw [parseLoop_gTokens ps hmatch]
      have e3 : 3 + ps.length = (2 + ps.length) + 1 := by omega
      rw [e3]
      simp only [fsAfterG, List.map_nil, List.nil_append, parseLoop]
    have hfin : finish (fsAfterG l a [ofString "all"] ([97] ++ [83] ++ ps.map (fun p : GPart => p.1)) ps) =
        some (.syscall 3 l a (ps.map gFilter) [ofString "all"] []) := by
      unfold finish fsAfterG
      have c1 : ([97] ++ [83] ++ ps.map (fun p : GPart => p.1)).contains 68 = false := by
        simp only [List.contains_eq_mem, decide_eq_false_iff_not, List.mem_append, List.mem_cons, List.mem_nil_iff, or_false]
        intro hh
        rcases hh with (hh | hh) | hh
        · omega
        · omega
        · rcases hlet 68 hh with h | h <;> omega
      have c2 : ([97] ++ [83] ++ ps.map (fun p : GPart => p.1)).any (fun n => n == 119 || n == 112) = false := by
        rw [List.any_eq_false]
        intro x hx
        simp only [List.mem_append, List.mem_cons, List.mem_nil_iff, or_false] at hx
        rcases hx with (rfl | rfl) | hx
        · decide
        · decide
        · rcases hlet x hx with rfl | rfl <;> decide
      have c3 : ([97] ++ [83] ++ ps.map (fun p : GPart => p.1)).any (fun n => n == 97 || n == 65 || n == 67 || n == 70 || n == 83) = true := by
        simp
      simp only [c1, c2, c3]
      rfl
    have hparse : parseArgs (lineTokens r.flags l a ps) = some (.syscall 3 l a (ps.map gFilter) [ofString "all"] []) := by
      unfold parseArgs
      rw [hloop]
      simp only [Nat.lt_irrefl, if_false, gt_iff_lt]
      exact hfin
    have hrd : ruleDataOf env (.syscall 3 l a (ps.map gFilter) [ofString "all"] []) =
        some { flags := r.flags, action := r.action, allSyscalls := true, explicitAll := true, trips := r.trips, strings := r.strings } := by
      simp only [ruleDataOf, setList_getList hl, setAction_getAction ha, hfold']
      simp [addSyscall, addKeys]
    refine ⟨_, _, hparse, hrd, rfl, ?_⟩
    exact toWire_congr _ _ rfl rfl rfl rfl hall.symm hsys.symm
  · have hexit' : (r.flags == LA.Gen.RuleTables.exitFilter || r.flags == LA.Gen.RuleTables.entryFilter) = false := by
      simpa using hexit
    have htok : lineTokens r.flags l a ps = tokA :: (a ++ [44] ++ l) :: (gTokens ps ++ []) := by
      simp only [lineTokens, hexit', Bool.false_eq_true, if_false, List.cons_append, List.nil_append, List.append_nil]
    have hfuel : (lineTokens r.flags l a ps).length + 1 = ((2 + ps.length) + ps.length) + 1 := by
      rw [htok]
      simp only [List.length_cons, List.length_append, List.length_nil, gTokens_length]
      omega
    have hloop : parseLoop ((lineTokens r.flags l a ps).length + 1) (lineTokens r.flags l a ps) {} =
        some (fsAfterG l a [] ([97] ++ ps.map (fun p : GPart => p.1)) ps, 0) := by
      rw [hfuel, htok, parseLoop_a, hsetA]
      simp only [Option.bind_some]
      rw [parseLoop_gTokens ps hmatch]
      have e3 : 2 + ps.length = (1 + ps.length) + 1 := by omega
      rw [e3]
      simp only [fsAfterG, List.map_nil, List.nil_append, parseLoop]
    have hfin : finish (fsAfterG l a [] ([97] ++ ps.map (fun p : GPart => p.1)) ps) =
        some (.syscall 3 l a (ps.map gFilter) [] []) := by
      unfold finish fsAfterG
      have c1 : ([97] ++ ps.map (fun p : GPart => p.1)).contains 68 = false := by
        simp only [List.contains_eq_mem, decide_eq_false_iff_not, List.mem_append, List.mem_cons, List.mem_nil_iff, or_false]
        intro hh
        rcases hh with hh | hh
        · omega
        · rcases hlet 68 hh with h | h <;> omega
      have c2 : ([97] ++ ps.map (fun p : GPart => p.1)).any (fun n => n == 119 || n == 112) = false := by
        rw [List.any_eq_false]
        intro x hx
        simp only [List.mem_append, List.mem_cons, List.mem_nil_iff, or_false] at hx
        rcases hx with rfl | hx
        · decide
        · rcases hlet x hx with rfl | rfl <;> decide
      have c3 : ([97] ++ ps.map (fun p : GPart => p.1)).any (fun n => n == 97 || n == 65 || n == 67 || n == 70 || n == 83) = true := by
        simp
      simp only [c1, c2, c3]
      rfl
    have hparse : parseArgs (lineTokens r.flags l a ps) = some (.syscall 3 l a (ps.map gFilter) [] []) := by
      unfold parseArgs
      rw [hloop]
      simp only [Nat.lt_irrefl, if_false, gt_iff_lt]
      exact hfin
    have hrd : ruleDataOf env (.syscall 3 l a (ps.map gFilter) [] []) =
        some { flags := r.flags, action := r.action, allSyscalls := true, trips := r.trips, strings := r.strings } := by
      simp only [ruleDataOf, setList_getList hl, setAction_getAction ha, hfold']
      simp [addKeys]
    refine ⟨_, _, hparse, hrd, rfl, ?_⟩
    exact toWire_congr _ _ rfl rfl rfl rfl hall.symm hsys.symm

/-- Second clause of C07 as one theorem for every all-syscalls rule without an arch filter: numeric
filters, string-valued filters (keys included) **and inter-field comparisons**, in any number and
order. For every syscall rule Build accepts that applies to all syscalls, has no arch filter, is
not of the exact shape `-w` produces, has no empty permission set and whose string values are
non-empty and do not begin with '=': (1) ToCommandLine's text is `-a action,list [-S all]` followed
by one `-F name op value` or `-C name op name` element per field, in order; (2) the tokens of that
text are accepted by flags.Parse (each `-F` / `-C` argument is split into the same three parts)
and Build on the result accumulates the same triples and strings in the same order; (3) the wire
data is byte-identical. -/
theorem C07_roundtrip_no_arch (env : Env) (he : EnvOk env) (rule : Rule) (r : RuleData)
    (hr : ruleDataOf env rule = some r)
    (harch : ∀ t ∈ r.trips, (t.1 == LA.Gen.RuleTables.archField) = false)
    (hperm : ∀ t ∈ r.trips, t.1 = LA.Gen.RuleTables.permField → t.2.1 ≠ 0)
    (hstr : ∀ s ∈ r.strings, ∃ c tl, s = c :: tl ∧ c ≠ 61)
    (hw : asFileWatch r = none)
    (hall : r.allSyscalls = true) (hsys : r.syscalls = []) :
    ∃ (l a : Bytes) (ps : List GPart),
      getList r.flags = some l ∧ getAction r.action = some a ∧ ps.length = r.trips.length ∧
      cmdLineOf r = some (joinWith [32] ([ofString "-a", a ++ [44] ++ l] ++
        (if r.flags == LA.Gen.RuleTables.exitFilter || r.flags == LA.Gen.RuleTables.entryFilter then [ofString "-S", ofString "all"] else []) ++
        ps.map gPrint)) ∧
      ∃ rule' r', parseArgs (lineTokens r.flags l a ps) = some rule' ∧
        ruleDataOf env rule' = some r' ∧ r'.trips = r.trips ∧ toWire r' = toWire r := by
  have hp := printInv_ruleDataOf he hr
  have hsa := saligned_ruleDataOf hr
  have hjust := justified_ruleDataOf hr
  have hcj := cmpJust_ruleDataOf hr
  cases hl : getList r.flags with
  | none => have := hp.list; rw [hl] at this; cases this
  | some l =>
  cases ha : getAction r.action with
  | none => have := hp.action; rw [ha] at this; cases this
  | some a =>
  obtain ⟨ps, hps⟩ := printed_exists env r.flags r.trips r.strings hsa hp.trips harch hjust hcj hperm hstr
  refine ⟨l, a, ps, rfl, rfl, printed_length hps, ?_, ?_⟩
  · unfold cmdLineOf
    rw [hl, ha]
    simp only
    rw [hw]
    simp only
    have hnoarch : lastIndexOf r.fields LA.Gen.RuleTables.archField = none := by
      unfold lastIndexOf
      have : (r.fields.zipIdx).filter (fun p => p.1 == LA.Gen.RuleTables.archField) = [] := by
        rw [List.filter_eq_nil_iff]
        intro p hpm
        have hz := List.mem_zipIdx_iff_getElem?.mp hpm
        simp only [RuleData.fields, List.getElem?_map, Option.map_eq_some_iff] at hz
        obtain ⟨t, hti, htf⟩ := hz
        have := harch t (List.mem_of_getElem? hti)
        rw [htf] at this
        simpa using this
      rw [this]; rfl
    rw [hnoarch]
    simp only
    have hpf := printFields_printed hps
    simp only [RuleData.fields, RuleData.values, RuleData.fieldFlags, hpf, hall, if_true]
    simp [List.append_assoc]
  · have hmatch := printed_match he hps
    have hfold := foldl_printed env he hps { flags := r.flags, action := r.action, allSyscalls := true } rfl
    refine reparse_of_gparts env r l a hl ha ps hmatch ?_ hall hsys
    simpa using hfold

/-- non-vacuity of `C07_roundtrip_no_arch`: `-a always,exit -F pid=1 -C auid!=uid -F exe=/bin/ls -k a`
satisfies its hypotheses. -/
example : ((ruleDataOf ⟨false, [], []⟩ (.syscall 3 (ofString "exit") (ofString "always")
    [⟨2, ofString "pid", [61], ofString "1"⟩, ⟨1, ofString "auid", [33, 61], ofString "uid"⟩,
     ⟨2, ofString "exe", [61], ofString "/bin/ls"⟩] [] [ofString "a"])).map (fun r =>
      r.allSyscalls && r.syscalls.isEmpty && decide (r.trips.length = 4) && decide (r.strings.length = 2) &&
      (asFileWatch r).isNone && r.trips.any (fun t => t.1 == LA.Gen.RuleTables.fieldCompare) &&
      r.strings.all (fun s => match s with | c :: _ => c != 61 | [] => false) &&
      r.trips.all (fun t => !(t.1 == LA.Gen.RuleTables.archField) && !(t.1 == LA.Gen.RuleTables.permField)))) = some true := by
  decide +kernel

/-! ### the text half composed over a whole line: the watch form -/

/-- what `asFileWatch r = some (path, perm, key)` says about `r`, spelled out. -/
theorem asFileWatch_some {r : RuleData} {path perm key : Bytes} (h : asFileWatch r = some (path, perm, key)) :
    r.allSyscalls = true ∧ r.flags = LA.Gen.RuleTables.exitFilter ∧ r.action = LA.Gen.RuleTables.alwaysAction ∧
    ∃ f0 v0 v1, (f0 = LA.Gen.RuleTables.pathField ∨ f0 = LA.Gen.RuleTables.dirField) ∧
      path.head? = some 47 ∧ pathClean path = path ∧ v1 ≠ 0 ∧ v1 < 16 ∧ perm = permString v1 ∧
      ((key = [] ∧ r.trips = [(f0, v0, eqOp), (LA.Gen.RuleTables.permField, v1, eqOp)] ∧ r.strings = [path]) ∨
       (key ≠ [] ∧ (44 : Nat) ∉ key ∧ ∃ v2, r.trips = [(f0, v0, eqOp), (LA.Gen.RuleTables.permField, v1, eqOp), (LA.Gen.RuleTables.keyField, v2, eqOp)] ∧
          r.strings = [path, key])) := by
  unfold asFileWatch at h
  simp only at h
  split at h
  · simp at h
  · rename_i hc
    split at h
    · simp at h
    · rename_i hops
      simp only [Bool.or_eq_true, Bool.not_eq_true', bne_iff_ne, ne_eq, Bool.and_eq_true, not_or, not_and,
        Decidable.not_not, Bool.not_eq_false] at hc hops
      obtain ⟨⟨⟨⟨h1, h2⟩, h3⟩, h4⟩, h5⟩ := hc
      refine ⟨h1, h2, h3, ?_⟩
      -- the shape of the three lists
      cases ht : r.trips with
      | nil => simp [RuleData.fields, RuleData.values, ht] at h
      | cons t0 rest0 =>
        cases rest0 with
        | nil => simp [RuleData.fields, RuleData.values, ht] at h
        | cons t1 rest1 =>
          cases hs : r.strings with
          | nil => simp [RuleData.fields, RuleData.values, ht, hs] at h
          | cons p srest =>
            simp only [RuleData.fields, RuleData.values, RuleData.fieldFlags, ht, hs, List.map_cons] at h hops h4 h5
            split at h
            · simp at h
            · rename_i hf
              split at h
              · simp at h
              · rename_i hp
                split at h
                · simp at h
                · rename_i hv
                  simp only [Bool.or_eq_true, Bool.and_eq_true, bne_iff_ne, ne_eq, not_or, not_and, Decidable.not_not,
                    Bool.not_eq_true', beq_iff_eq, Bool.or_eq_false_iff, beq_eq_false_iff_ne] at hf hp hv
                  simp only [List.all_cons, Bool.and_eq_true, beq_iff_eq] at hops
                  obtain ⟨ho0, ho1, horest⟩ := hops
                  have hf0 : t0.1 = LA.Gen.RuleTables.pathField ∨ t0.1 = LA.Gen.RuleTables.dirField := by
                    by_cases hh : t0.1 = LA.Gen.RuleTables.pathField
                    · exact Or.inl hh
                    · exact Or.inr (hf.1 hh)
                  have hv1lt : t1.2.1 < 16 := by
                    have := hv.2
                    have hle : t1.2.1 &&& 15 ≤ 15 := Nat.and_le_right
                    omega
                  cases rest1 with
                  | nil =>
                    simp only [List.map_nil] at h
                    simp only [Option.some.injEq, Prod.mk.injEq] at h
                    obtain ⟨rfl, rfl, rfl⟩ := h
                    simp only [List.length_cons, List.length_nil] at h5
                    have hsr : srest = [] := by
                      cases srest with
                      | nil => rfl
                      | cons _ _ => simp at h5
                    refine ⟨t0.1, t0.2.1, t1.2.1, hf0, hp.1, hp.2, hv.1, hv1lt, rfl, Or.inl ⟨rfl, ?_, by rw [hsr]⟩⟩
                    have e0 : t0 = (t0.1, t0.2.1, eqOp) := by rw [← ho0]
                    have e1 : t1 = (LA.Gen.RuleTables.permField, t1.2.1, eqOp) := by rw [← ho1, ← hf.2]
                    rw [← e0, ← e1]
                  | cons t2 rest2 =>
                    simp only [List.map_cons] at h
                    cases srest with
                    | nil => simp at h
                    | cons k srest2 =>
                      simp only at h
                      split at h
                      · simp at h
                      · rename_i hk
                        simp only [Bool.or_eq_true, bne_iff_ne, ne_eq, not_or, Decidable.not_not, Bool.not_eq_true',
                          List.isEmpty_eq_false_iff, List.contains_eq_mem, decide_eq_false_iff_not, decide_eq_true_eq] at hk
                        simp only [Option.some.injEq, Prod.mk.injEq] at h
                        obtain ⟨rfl, rfl, rfl⟩ := h
                        simp only [List.length_cons] at h4 h5
                        have hr2 : rest2 = [] := by
                          cases rest2 with
                          | nil => rfl
                          | cons _ _ => simp only [List.length_map, List.length_cons] at h4; omega
                        subst hr2
                        have hs2 : srest2 = [] := by
                          cases srest2 with
                          | nil => rfl
                          | cons _ _ => simp only [List.length_map, List.length_cons, List.length_nil] at h5; omega
                        subst hs2
                        simp only [List.map_cons, List.map_nil, List.all_cons, List.all_nil, Bool.and_true, beq_iff_eq] at horest
                        refine ⟨t0.1, t0.2.1, t1.2.1, hf0, hp.1, hp.2, hv.1, hv1lt, rfl, Or.inr ⟨?_, ?_, t2.2.1, ?_, rfl⟩⟩
                        · intro hh; exact hk.1.2 (by rw [hh]; rfl)
                        · exact hk.2
                        · have e0 : t0 = (t0.1, t0.2.1, eqOp) := by rw [← ho0]
                          have e1 : t1 = (LA.Gen.RuleTables.permField, t1.2.1, eqOp) := by rw [← ho1, ← hf.2]
                          have e2 : t2 = (LA.Gen.RuleTables.keyField, t2.2.1, eqOp) := by rw [← horest, ← hk.1.1]
                          rw [← e0, ← e1, ← e2]

/-- the letters of a printed permission set are read back by the -p flag as codes that spell the
same letters again (all 15 non-empty sets). -/
theorem perm_letters_roundtrip : ∀ v < 16, v ≠ 0 →
    ∃ codes, setPerms [] (permString v) = some codes ∧ codes.isEmpty = false ∧
      codes.flatMap (fun p => if p == 1 then [114] else if p == 2 then [119] else if p == 3 then [120] else if p == 4 then [97] else []) = permString v := by
  decide +kernel

theorem splitByte_no_sep (sep : Nat) (s : Bytes) (h : sep ∉ s) : splitByte sep s = [s] := by
  induction s with
  | nil => rfl
  | cons b bs ih =>
    have hb : (b == sep) = false := by
      have : b ≠ sep := fun e => h (by simp [e])
      simpa using this
    simp only [splitByte, ih (fun hh => h (by simp [hh])), hb, Bool.false_eq_true, if_false]

def tokW : Bytes := [45, 119]  -- "-w"
def tokP : Bytes := [45, 112]  -- "-p"
def tokK : Bytes := [45, 107]  -- "-k"

theorem parseLoop_w (fuel : Nat) (v : Bytes) (rest : List Bytes) (fs : FS) :
    parseLoop (fuel + 1) (tokW :: v :: rest) fs = (setFlag fs 119 v).bind (parseLoop fuel rest) :=
  parseLoop_value_flag 119 (by decide) (by decide) (by decide) fuel v rest fs
theorem parseLoop_p (fuel : Nat) (v : Bytes) (rest : List Bytes) (fs : FS) :
    parseLoop (fuel + 1) (tokP :: v :: rest) fs = (setFlag fs 112 v).bind (parseLoop fuel rest) :=
  parseLoop_value_flag 112 (by decide) (by decide) (by decide) fuel v rest fs
theorem parseLoop_k (fuel : Nat) (v : Bytes) (rest : List Bytes) (fs : FS) :
    parseLoop (fuel + 1) (tokK :: v :: rest) fs = (setFlag fs 107 v).bind (parseLoop fuel rest) :=
  parseLoop_value_flag 107 (by decide) (by decide) (by decide) fuel v rest fs

/-- the mask of an all-syscalls rule does not depend on the syscall list it may still carry. -/
theorem toWire_congr_all (r1 r2 : RuleData) (h1 : r1.flags = r2.flags) (h2 : r1.action = r2.action) (h3 : r1.trips = r2.trips)
    (h4 : r1.strings = r2.strings) (h5 : r1.allSyscalls = true) (h6 : r2.allSyscalls = true) :
    toWire r1 = toWire r2 := by
  unfold toWire maskOf RuleData.fields RuleData.values RuleData.fieldFlags
  rw [h1, h2, h3, h4, h5, h6]
  simp

/-- the tokens of a printed watch -/
def watchTokens (path perm key : Bytes) : List Bytes :=
  [tokW, path, tokP, perm] ++ (if key.isEmpty then [] else [tokK, key])

/-- Second clause of C07 for the watch form. If ToCommandLine recognises a rule that Build accepted
as a file watch (`asFileWatch`), and the path still is what it was when the rule was built (a
directory exactly if the rule's first field is `dir`: the `-w` form re-derives the kind by stat),
and the key is not padded with white space, then (1) the text is `-w path -p perm [-k key]`,
(2) its tokens are accepted by flags.Parse as a watch with that path, those permissions and that
key, and (3) Build on it yields byte-identical wire data. -/
theorem C07_roundtrip_watch (env : Env) (rule : Rule) (r : RuleData)
    (hr : ruleDataOf env rule = some r) (path perm key : Bytes)
    (hw : asFileWatch r = some (path, perm, key))
    (hfs : env.isDir = (r.fields.head? == some LA.Gen.RuleTables.dirField))
    (hkey : trimSpace key = key) :
    cmdLineOf r = some (joinWith [32] ([ofString "-w", path, ofString "-p", perm] ++ (if key.isEmpty then [] else [ofString "-k", key]))) ∧
    ∃ rule' r', parseArgs (watchTokens path perm key) = some rule' ∧ ruleDataOf env rule' = some r' ∧ toWire r' = toWire r := by
  have nd1 : (LA.Gen.RuleTables.fieldsTable.map (·.1)).Nodup := by decide +kernel
  obtain ⟨hall, hfl, hac, f0, v0, v1, hf0, hhead, hclean, hv1, hv1lt, hperm, hshape⟩ := asFileWatch_some hw
  have hsa := saligned_ruleDataOf hr
  obtain ⟨codes, hcodes, hcne, hletters⟩ := perm_letters_roundtrip v1 hv1lt hv1
  have hgp : getPerm (permString v1) = some v1 := C07_perm_print_parse v1 hv1lt
  have hpathS : stringFields.contains LA.Gen.RuleTables.pathField = true := by decide +kernel
  have hdirS : stringFields.contains LA.Gen.RuleTables.dirField = true := by decide +kernel
  have hkeyS : stringFields.contains LA.Gen.RuleTables.keyField = true := by decide +kernel
  have hpermS : stringFields.contains LA.Gen.RuleTables.permField = false := by decide +kernel
  have hf0S : stringFields.contains f0 = true := by rcases hf0 with rfl | rfl <;> assumption
  refine ⟨?_, ?_⟩
  · -- (1)
    unfold cmdLineOf
    have hl : getList r.flags = some (ofString "exit") := by rw [hfl]; decide +kernel
    have ha : getAction r.action = some (ofString "always") := by rw [hac]; decide +kernel
    rw [hl, ha]
    simp only [hw]
  · -- (2), (3)
    -- the name of the watch kind, as addFileWatch chooses it
    have hkind : lookupB LA.Gen.RuleTables.fieldsTable (if env.isDir then ofString "dir" else ofString "path") = some f0 := by
      have hd : lookupB LA.Gen.RuleTables.fieldsTable (ofString "dir") = some LA.Gen.RuleTables.dirField := by decide +kernel
      have hp : lookupB LA.Gen.RuleTables.fieldsTable (ofString "path") = some LA.Gen.RuleTables.pathField := by decide +kernel
      have hne : LA.Gen.RuleTables.pathField ≠ LA.Gen.RuleTables.dirField := by decide
      have hfield : r.fields.head? = some f0 := by
        rcases hshape with ⟨_, ht, _⟩ | ⟨_, _, v2, ht, _⟩ <;> simp [RuleData.fields, ht]
      rw [hfs, hfield]
      rcases hf0 with rfl | rfl
      · have : (some LA.Gen.RuleTables.pathField == some LA.Gen.RuleTables.dirField) = false := by decide
        simp only [this, Bool.false_eq_true, if_false, hp]
      · simp only [beq_self_eq_true, if_true, hd]
    have heq : lookupB LA.Gen.RuleTables.operatorsTable [61] = some eqOp := by decide +kernel
    have hpermN : lookupB LA.Gen.RuleTables.fieldsTable (ofString "perm") = some LA.Gen.RuleTables.permField := by decide +kernel
    have hkeyN : lookupB LA.Gen.RuleTables.fieldsTable (ofString "key") = some LA.Gen.RuleTables.keyField := by decide +kernel
    have hexP : (LA.Gen.RuleTables.exitFilter == LA.Gen.RuleTables.excludeFilter) = false := by decide
    let r0 : RuleData := { flags := LA.Gen.RuleTables.exitFilter, action := LA.Gen.RuleTables.alwaysAction, allSyscalls := true }
    -- the pieces of the original rule
    rcases hshape with ⟨hk0, ht, hs⟩ | ⟨hkne, hk44, v2, ht, hs⟩
    · -- no key
      subst hk0
      rw [ht, hs, hfl] at hsa
      simp only [SAligned, hf0S, if_true, hpermS, Bool.false_eq_true, if_false] at hsa
      obtain ⟨s, rest, hsr, hv0, hok0, hrest⟩ := hsa
      simp only [List.cons.injEq] at hsr
      obtain ⟨rfl, rfl⟩ := hsr
      have step0 : addFilter env r0 (if env.isDir then ofString "dir" else ofString "path") [61] path =
          some { r0 with trips := [(f0, v0, eqOp)], strings := [path] } := by
        unfold addFilter
        simp only [heq, hkind, r0, hexP, Bool.false_and, Bool.false_eq_true, if_false]
        have := hok0.1
        simp only at this
        rw [filterValue_flags0 env { flags := LA.Gen.RuleTables.exitFilter, action := LA.Gen.RuleTables.alwaysAction } { flags := LA.Gen.RuleTables.exitFilter } rfl, this]
        simp [hv0]
      have step1 : addFilter env { r0 with trips := [(f0, v0, eqOp)], strings := [path] } (ofString "perm") [61] (permString v1) =
          some { r0 with trips := [(f0, v0, eqOp), (LA.Gen.RuleTables.permField, v1, eqOp)], strings := [path] } := by
        unfold addFilter
        simp only [heq, hpermN, r0, hexP, Bool.false_and, Bool.false_eq_true, if_false]
        have hfv : filterValue env { r0 with trips := [(f0, v0, eqOp)], strings := [path] } LA.Gen.RuleTables.permField eqOp (permString v1) = some (v1, none, none) := by
          unfold filterValue
          simp only [r0, hgp, show uidFields.contains LA.Gen.RuleTables.permField = false by decide +kernel,
            show gidFields.contains LA.Gen.RuleTables.permField = false by decide +kernel,
            show (LA.Gen.RuleTables.permField == LA.Gen.RuleTables.exitField) = false by decide,
            show (LA.Gen.RuleTables.permField == LA.Gen.RuleTables.msgTypeField) = false by decide, hpermS,
            show (LA.Gen.RuleTables.permField == LA.Gen.RuleTables.archField) = false by decide,
            show (LA.Gen.RuleTables.exitFilter != LA.Gen.RuleTables.exitFilter) = false by decide,
            show (eqOp != eqOp) = false by decide, Bool.false_eq_true, if_false, beq_self_eq_true, if_true, Option.map_some]
        simp only [r0] at hfv
        rw [hfv]
        simp
      have hwt : watchTokens path (permString v1) [] = [tokW, path, tokP, permString v1] := by simp [watchTokens]
      have hparse : parseArgs (watchTokens path (permString v1) []) = some (.watch path codes []) := by
        rw [hwt]
        unfold parseArgs
        have : parseLoop ([tokW, path, tokP, permString v1].length + 1) [tokW, path, tokP, permString v1] {} =
            some ({ path := path, pathSet := true, perms := codes, visited := [119, 112] }, 0) := by
          show parseLoop (4 + 1) _ _ = _
          rw [parseLoop_w]
          have s1 : setFlag {} 119 path = some { path := path, pathSet := true, visited := [119] } := by
            simp [setFlag]
          rw [s1]
          simp only [Option.bind_some]
          rw [show (4 : Nat) = 3 + 1 from rfl, parseLoop_p]
          have s2 : setFlag { path := path, pathSet := true, visited := [119] } 112 (permString v1) =
              some { path := path, pathSet := true, perms := codes, visited := [119, 112] } := by
            simp [setFlag, hcodes]
          rw [s2]
          simp [parseLoop]
        rw [this]
        simp [finish]
      refine ⟨.watch path codes [], { r0 with trips := [(f0, v0, eqOp), (LA.Gen.RuleTables.permField, v1, eqOp)], strings := [path] },
        by rw [hperm]; exact hparse, ?_, ?_⟩
      · simp only [ruleDataOf, addFileWatch, hclean, hhead, bne_self_eq_false, Bool.false_eq_true, if_false, hcne, hletters, step0,
          Option.bind_some, step1, addKeys, List.isEmpty_nil, if_true, r0]
      · exact toWire_congr_all _ _ hfl.symm hac.symm ht.symm hs.symm rfl hall
    · -- with a key
      rw [ht, hs, hfl] at hsa
      simp only [SAligned, hf0S, if_true, hpermS, Bool.false_eq_true, if_false, hkeyS] at hsa
      obtain ⟨s, rest, hsr, hv0, hok0, s2, rest2, hsr2, hv2, hok2, hrest⟩ := hsa
      simp only [List.cons.injEq] at hsr
      obtain ⟨rfl, rfl⟩ := hsr
      simp only [List.cons.injEq] at hsr2
      obtain ⟨rfl, rfl⟩ := hsr2
      have step0 : addFilter env r0 (if env.isDir then ofString "dir" else ofString "path") [61] path =
          some { r0 with trips := [(f0, v0, eqOp)], strings := [path] } := by
        unfold addFilter
        simp only [heq, hkind, r0, hexP, Bool.false_and, Bool.false_eq_true, if_false]
        have := hok0.1
        simp only at this
        rw [filterValue_flags0 env { flags := LA.Gen.RuleTables.exitFilter, action := LA.Gen.RuleTables.alwaysAction } { flags := LA.Gen.RuleTables.exitFilter } rfl, this]
        simp [hv0]
      have step1 : addFilter env { r0 with trips := [(f0, v0, eqOp)], strings := [path] } (ofString "perm") [61] (permString v1) =
          some { r0 with trips := [(f0, v0, eqOp), (LA.Gen.RuleTables.permField, v1, eqOp)], strings := [path] } := by
        unfold addFilter
        simp only [heq, hpermN, r0, hexP, Bool.false_and, Bool.false_eq_true, if_false]
        have hfv : filterValue env { r0 with trips := [(f0, v0, eqOp)], strings := [path] } LA.Gen.RuleTables.permField eqOp (permString v1) = some (v1, none, none) := by
          unfold filterValue
          simp only [r0, hgp, show uidFields.contains LA.Gen.RuleTables.permField = false by decide +kernel,
            show gidFields.contains LA.Gen.RuleTables.permField = false by decide +kernel,
            show (LA.Gen.RuleTables.permField == LA.Gen.RuleTables.exitField) = false by decide,
            show (LA.Gen.RuleTables.permField == LA.Gen.RuleTables.msgTypeField) = false by decide, hpermS,
            show (LA.Gen.RuleTables.permField == LA.Gen.RuleTables.archField) = false by decide,
            show (LA.Gen.RuleTables.exitFilter != LA.Gen.RuleTables.exitFilter) = false by decide,
            show (eqOp != eqOp) = false by decide, Bool.false_eq_true, if_false, beq_self_eq_true, if_true, Option.map_some]
        simp only [r0] at hfv
        rw [hfv]
        simp
      have step2 : addFilter env { r0 with trips := [(f0, v0, eqOp), (LA.Gen.RuleTables.permField, v1, eqOp)], strings := [path] } (ofString "key") [61] key =
          some { r0 with trips := [(f0, v0, eqOp), (LA.Gen.RuleTables.permField, v1, eqOp), (LA.Gen.RuleTables.keyField, v2, eqOp)], strings := [path, key] } := by
        unfold addFilter
        simp only [heq, hkeyN, r0, hexP, Bool.false_and, Bool.false_eq_true, if_false]
        have := hok2.1
        simp only at this
        have hfv2 := filterValue_flags0 env ({ flags := LA.Gen.RuleTables.exitFilter, action := LA.Gen.RuleTables.alwaysAction, trips := [(f0, v0, eqOp), (LA.Gen.RuleTables.permField, v1, eqOp)], strings := [path] } : RuleData) { flags := LA.Gen.RuleTables.exitFilter } rfl LA.Gen.RuleTables.keyField eqOp key
        rw [hfv2, this]
        simp [hv2]
      have hkemp : key.isEmpty = false := by cases key with | nil => exact absurd rfl hkne | cons _ _ => rfl
      have hsplit : splitList key = [key] := by
        simp only [splitList, splitByte_no_sep 44 key hk44, List.map_cons, List.map_nil, hkey]
      have hwt : watchTokens path (permString v1) key = [tokW, path, tokP, permString v1, tokK, key] := by simp [watchTokens, hkemp]
      have hparse : parseArgs (watchTokens path (permString v1) key) = some (.watch path codes [key]) := by
        rw [hwt]
        unfold parseArgs
        have : parseLoop ([tokW, path, tokP, permString v1, tokK, key].length + 1) [tokW, path, tokP, permString v1, tokK, key] {} =
            some ({ path := path, pathSet := true, perms := codes, keys := [key], visited := [119, 112, 107] }, 0) := by
          show parseLoop (6 + 1) _ _ = _
          rw [parseLoop_w]
          have s1 : setFlag {} 119 path = some { path := path, pathSet := true, visited := [119] } := by
            simp [setFlag]
          rw [s1]
          simp only [Option.bind_some]
          rw [show (6 : Nat) = 5 + 1 from rfl, parseLoop_p]
          have s2 : setFlag { path := path, pathSet := true, visited := [119] } 112 (permString v1) =
              some { path := path, pathSet := true, perms := codes, visited := [119, 112] } := by
            simp [setFlag, hcodes]
          rw [s2]
          simp only [Option.bind_some]
          rw [show (5 : Nat) = 4 + 1 from rfl, parseLoop_k]
          have s3 : setFlag { path := path, pathSet := true, perms := codes, visited := [119, 112] } 107 key =
              some { path := path, pathSet := true, perms := codes, keys := [key], visited := [119, 112, 107] } := by
            simp [setFlag, hsplit]
          rw [s3]
          simp [parseLoop]
        rw [this]
        simp [finish]
      refine ⟨.watch path codes [key], { r0 with trips := [(f0, v0, eqOp), (LA.Gen.RuleTables.permField, v1, eqOp), (LA.Gen.RuleTables.keyField, v2, eqOp)], strings := [path, key] },
        by rw [hperm]; exact hparse, ?_, ?_⟩
      · simp only [ruleDataOf, addFileWatch, hclean, hhead, bne_self_eq_false, Bool.false_eq_true, if_false, hcne, hletters, step0,
          Option.bind_some, step1, addKeys, List.isEmpty_cons, joinWith, step2, r0]
      · exact toWire_congr_all _ _ hfl.symm hac.symm ht.symm hs.symm rfl hall

/-- non-vacuity of `C07_roundtrip_watch`: what `-w /etc/passwd -p wa -k k` builds is recognised as a
watch, and the hypotheses about the filesystem and the key hold. -/
example : ((ruleDataOf ⟨false, [], []⟩ (.watch (ofString "/etc/passwd") [2, 4] [ofString "k"])).map (fun r =>
      (asFileWatch r == some (ofString "/etc/passwd", ofString "wa", ofString "k")) &&
      ((false : Bool) == (r.fields.head? == some LA.Gen.RuleTables.dirField)) &&
      (trimSpace (ofString "k") == ofString "k"))) = some true := by
  decide +kernel

/-! ### the text half composed over a whole line: explicit syscall lists -/

/-- "names no architecture": every successful result has an empty arch component. -/
def NoArch (o : Option (Nat × Option Bytes × Option Bytes)) : Prop := ∀ x, o = some x → x.2.2 = none

theorem noArch_none : NoArch none := by intro x h; cases h
theorem noArch_ite {c : Prop} [Decidable c] {a b : Option (Nat × Option Bytes × Option Bytes)} (ha : NoArch a) (hb : NoArch b) :
    NoArch (if c then a else b) := by split <;> assumption
theorem noArch_map {α : Type} (o : Option α) (g : α → Nat) (z : α → Option Bytes) : NoArch (o.map (fun v => (g v, z v, none))) := by
  intro x h
  cases o with
  | none => simp at h
  | some w => simp only [Option.map_some, Option.some.injEq] at h; subst h; rfl
theorem noArch_some (n : Nat) (s : Option Bytes) : NoArch (some (n, s, none)) := by
  intro x h; simp only [Option.some.injEq] at h; subst h; rfl
theorem noArch_bind (o : Option Nat) (c : Nat → Bool) : NoArch (o.bind fun n => if c n = true then some (n, none, none) else none) := by
  intro x h
  cases o with
  | none => simp at h
  | some w =>
    simp only [Option.bind_some] at h
    split at h
    · simp only [Option.some.injEq] at h; subst h; rfl
    · cases h

/-- filterValue names an architecture only for the arch field. -/
theorem filterValue_arch_none {env : Env} {r : RuleData} {f opc : Nat} {rhs : Bytes} {v : Nat} {s a : Option Bytes}
    (hf : (f == LA.Gen.RuleTables.archField) = false) (h : filterValue env r f opc rhs = some (v, s, a)) : a = none := by
  unfold filterValue at h
  simp only [hf, Bool.false_eq_true, if_false] at h
  have key : ∀ o, o = some (v, s, a) → NoArch o → a = none := fun o ho hn => hn _ ho
  refine key _ h ?_
  repeat' first
    | exact noArch_none
    | exact noArch_some _ _
    | exact noArch_map _ (fun v => v) (fun _ => none)
    | exact noArch_map _ toU32 (fun _ => none)
    | exact noArch_bind _ _
    | apply noArch_ite

/-- without an arch filter Build leaves the rule's arch empty; an explicit "all" is the only way
to keep allSyscalls once a syscall was named; a rule that does not apply to all syscalls names one. -/
structure SysInv (r : RuleData) : Prop where
  arch : (∀ t ∈ r.trips, (t.1 == LA.Gen.RuleTables.archField) = false) → r.arch = []
  expl : r.allSyscalls = false → r.explicitAll = false ∧ r.syscalls ≠ []

theorem sysInv_ruleDataOf {env : Env} {rule : Rule} {r : RuleData} (h : ruleDataOf env rule = some r) : SysInv r := by
  refine ruleDataOf_induct (env := env) SysInv ?_ ?_ ?_ ?_ h
  · intro fl ac _ _
    exact ⟨fun _ => rfl, fun h => by cases h⟩
  · intro r r' l o v hp hf
    unfold addFilter at hf
    split at hf
    · rename_i opc f hop hfl
      split at hf
      · simp at hf
      · cases hv : filterValue env r f opc v with
        | none => rw [hv] at hf; simp at hf
        | some x =>
          obtain ⟨val, s, a⟩ := x
          rw [hv] at hf
          simp only [Option.map_some, Option.some.injEq] at hf
          subst hf
          refine ⟨?_, hp.expl⟩
          intro hna
          have hf' : (f == LA.Gen.RuleTables.archField) = false := hna (f, val, opc) (by simp)
          have := filterValue_arch_none hf' hv
          subst this
          simp only
          exact hp.arch (fun t ht => hna t (by simp [ht]))
    · simp at hf
  · intro r r' l o v hp hi
    have hsame : r'.arch = r.arch ∧ r'.allSyscalls = r.allSyscalls ∧ r'.explicitAll = r.explicitAll ∧ r'.syscalls = r.syscalls ∧
        ∀ t ∈ r.trips, t ∈ r'.trips := by
      unfold addInterField at hi
      cases hop : lookupB LA.Gen.RuleTables.operatorsTable o with
      | none => rw [hop] at hi; simp at hi
      | some opc =>
        rw [hop] at hi
        simp only at hi
        split at hi
        · simp at hi
        · split at hi
          · split at hi
            · simp at hi
            · rename_i lf rf _ _ _
              cases hc : lookupComparison lf rf with
              | none => rw [hc] at hi; simp at hi
              | some c =>
                rw [hc] at hi
                simp only [Option.some.injEq] at hi
                subst hi
                exact ⟨rfl, rfl, rfl, rfl, fun t ht => by simp [ht]⟩
          · simp at hi
    obtain ⟨e1, e2, e3, e4, e5⟩ := hsame
    refine ⟨fun hna => by rw [e1]; exact hp.arch (fun t ht => hna t (e5 t ht)), fun hh => ?_⟩
    rw [e3, e4]; exact hp.expl (by rw [← e2]; exact hh)
  · intro r r' sc hp hs
    unfold addSyscall at hs
    split at hs
    · simp only [Option.some.injEq] at hs; subst hs
      exact ⟨hp.arch, fun hh => by cases hh⟩
    · simp only at hs
      split at hs
      · simp at hs
      · split at hs
        · simp at hs
        · simp only [Option.some.injEq] at hs; subst hs
          refine ⟨hp.arch, fun hh => ?_⟩
          simp only at hh ⊢
          exact ⟨hh, by simp⟩

/-! ### explicit syscall lists on the runtime architecture -/

/-- what ToCommandLine prints for a syscall number when the rule has no arch filter -/
def sysText (n : Nat) : Bytes :=
  match Tables.syscallName runtimeArch n with
  | some nm => nm
  | none => dec n

theorem x86_names_clean :
    LA.Gen.Syscalls_x86_64.table.all (fun p =>
      (match atoiGo p.2 with | .syntax => true | _ => false) && !(p.2 == ofString "all") && !(p.2.contains 44) &&
      (trimSpace p.2 == p.2) && !p.2.isEmpty) = true := by
  decide +kernel

theorem sysTable_runtime : Tables.sysTable runtimeArch =
    some (ofString "x86_64", LA.Gen.Syscalls_x86_64.table, LA.Gen.Syscalls_x86_64.nameTree, LA.Gen.Syscalls_x86_64.numTree) := rfl

/-- a name the runtime table gives for a number is a clean word that the table maps back to it. -/
theorem syscallName_facts {n : Nat} {nm : Bytes} (h : Tables.syscallName runtimeArch n = some nm) :
    atoiGo nm = .syntax ∧ (nm == ofString "all") = false ∧ (44 : Nat) ∉ nm ∧ trimSpace nm = nm ∧ nm ≠ [] ∧
    Tables.syscallNum runtimeArch nm = some n := by
  unfold Tables.syscallName at h
  rw [sysTable_runtime] at h
  simp only at h
  cases hf : LA.Gen.Syscalls_x86_64.numTree.find n with
  | none => rw [hf] at h; cases h
  | some i =>
    rw [hf] at h
    simp only at h
    cases hg : LA.Gen.Syscalls_x86_64.table[i]? with
    | none => rw [hg] at h; cases h
    | some p =>
      rw [hg] at h
      simp only at h
      split at h
      · rename_i hn
        simp only [Option.some.injEq] at h
        have hmem : p ∈ LA.Gen.Syscalls_x86_64.table := List.mem_of_getElem? hg
        have hc := List.all_eq_true.mp x86_names_clean p hmem
        have hnm := List.all_eq_true.mp LA.Gen.Syscalls_x86_64.cert_names p hmem
        simp only [Bool.and_eq_true, Bool.not_eq_true', beq_iff_eq, List.contains_eq_mem, decide_eq_false_iff_not] at hc hnm
        obtain ⟨⟨⟨⟨c1, c2⟩, c3⟩, c4⟩, c5⟩ := hc
        have hpn : p.1 = n := by simpa using hn
        rw [h] at c1 c2 c3 c4 c5 hnm
        refine ⟨?_, by simpa using c2, c3, c4, ?_, ?_⟩
        · cases ha : atoiGo nm with
          | «syntax» => rfl
          | ok _ => rw [ha] at c1; cases c1
          | range => rw [ha] at c1; cases c1
        · intro hh; rw [hh] at c5; simp at c5
        · unfold Tables.syscallNum
          rw [sysTable_runtime]
          simp only [hnm, hpn]
      · cases h

theorem atoiGo_dec (n : Nat) (h : n < 2048) : atoiGo (dec n) = .ok (n : Int) := by
  obtain ⟨d, tl, hd, hdig⟩ := dec_cons_digit n
  unfold atoiGo parseIntGo
  have hp := parseUintGo_dec10 n 64 (by omega)
  rw [hd] at hp ⊢
  simp only [List.isEmpty_cons, Bool.false_eq_true, if_false, splitSign_digit hdig, hp]
  simp
  omega

theorem dec_ne_all (n : Nat) : (dec n == ofString "all") = false := by
  obtain ⟨d, tl, hd, hdig⟩ := dec_cons_digit n
  rw [hd]
  have : d ≠ 97 := by
    intro hh; subst hh; simp [isDigit] at hdig
  have e : ofString "all" = [97, 108, 108] := by decide
  rw [e]
  simp [this]

/-- naming a syscall number the way it is printed adds exactly that number. -/
theorem addSyscall_sysText (r : RuleData) (n : Nat) (hn : n < 2048) (harch : r.arch = []) (hexp : r.explicitAll = false) :
    addSyscall r (sysText n) = some { r with allSyscalls := false, syscalls := r.syscalls ++ [n] } := by
  have hsz : (LA.Gen.RuleTables.syscallBitmaskSize * 32 : Nat) = 2048 := by decide
  unfold sysText
  cases hnm : Tables.syscallName runtimeArch n with
  | some nm =>
    obtain ⟨f1, f2, _, _, _, f6⟩ := syscallName_facts hnm
    unfold addSyscall
    simp only [f2, Bool.false_eq_true, if_false, f1, harch, List.isEmpty_nil, if_true, sysTable_runtime, f6, Option.map_some, hexp, hsz]
    have hx : ¬((n : Int) < 0 ∨ (n : Int) ≥ ((2048 : Nat) : Int)) := by omega
    simp [hx]
    omega
  | none =>
    unfold addSyscall
    simp only [dec_ne_all n, Bool.false_eq_true, if_false, atoiGo_dec n hn, hexp, hsz]
    have hx : ¬((n : Int) < 0 ∨ (n : Int) ≥ ((2048 : Nat) : Int)) := by omega
    simp [hx]
    omega

theorem trailingSpaceLenRev_ascii (z : Nat) (q : Bytes) (hz : z < 128) (hz' : isAsciiSpace z = false) :
    trailingSpaceLenRev (z :: q) = 0 := by
  unfold trailingSpaceLenRev
  simp only [hz', Bool.false_eq_true, if_false]
  split
  all_goals first | rfl | omega | (rw [if_neg]; simp; omega)

/-- TrimSpace leaves text alone that begins and ends with non-space ASCII bytes. -/
theorem trimSpace_fixed (s : Bytes) (a z : Nat) (ha : s.head? = some a) (hz : s.getLast? = some z)
    (ha1 : a < 128) (ha2 : isAsciiSpace a = false) (hz1 : z < 128) (hz2 : isAsciiSpace z = false) : trimSpace s = s := by
  cases s with
  | nil => simp at ha
  | cons x rest =>
    simp only [List.head?_cons, Option.some.injEq] at ha
    subst ha
    have hl : trimLeftSpace (x :: rest) = x :: rest := by
      simp [trimLeftSpace, trimLeftSpaceAux, leadingSpaceLen_ascii x _ ha1 ha2]
    unfold trimSpace
    rw [hl]
    unfold trimRightSpace
    have hrev : ∃ q, (x :: rest).reverse = z :: q := by
      have := List.getLast?_eq_head?_reverse (xs := x :: rest)
      rw [hz] at this
      cases hr : (x :: rest).reverse with
      | nil => rw [hr] at this; simp at this
      | cons y q =>
        rw [hr] at this
        simp only [List.head?_cons, Option.some.injEq] at this
        exact ⟨q, by rw [this]⟩
    obtain ⟨q, hq⟩ := hrev
    rw [hq]
    have : trimRightSpaceRevAux (x :: rest).length (z :: q) = z :: q := by
      simp only [List.length_cons, trimRightSpaceRevAux, trailingSpaceLenRev_ascii z q hz1 hz2]
    rw [this, ← hq]
    simp

theorem dec_trim (n : Nat) : trimSpace (dec n) = dec n := by
  have hd := dec_digits n
  cases hs : dec n with
  | nil => exact absurd hs (dec_ne_nil n)
  | cons a rest =>
    have hlast : ∃ z, (a :: rest).getLast? = some z := by
      cases h : (a :: rest).getLast? with
      | none => simp at h
      | some z => exact ⟨z, rfl⟩
    obtain ⟨z, hz⟩ := hlast
    have ha : isDigit a = true := by simpa using hd a (by rw [hs]; simp)
    have hzm : z ∈ a :: rest := List.mem_of_getLast? hz
    have hzd : isDigit z = true := by simpa using hd z (by rw [hs]; exact hzm)
    have dig : ∀ b, isDigit b = true → b < 128 ∧ isAsciiSpace b = false := by
      intro b hb
      simp only [isDigit, Bool.and_eq_true, decide_eq_true_eq] at hb
      refine ⟨by omega, ?_⟩
      unfold isAsciiSpace
      simp
      omega
    exact trimSpace_fixed (a :: rest) a z rfl hz (dig a ha).1 (dig a ha).2 (dig z hzd).1 (dig z hzd).2

theorem dec_no_comma (n : Nat) : (44 : Nat) ∉ dec n := by
  intro h
  have := dec_digits n 44 h
  simp [isDigit] at this

/-- printed syscall names are clean list items. -/
theorem sysText_clean (n : Nat) : (44 : Nat) ∉ sysText n ∧ trimSpace (sysText n) = sysText n := by
  unfold sysText
  cases hnm : Tables.syscallName runtimeArch n with
  | some nm =>
    obtain ⟨_, _, f3, f4, _, _⟩ := syscallName_facts hnm
    exact ⟨f3, f4⟩
  | none => exact ⟨dec_no_comma n, dec_trim n⟩

theorem splitByte_cons_no_sep (sep : Nat) (a rest : Bytes) (ha : sep ∉ a) :
    splitByte sep (a ++ sep :: rest) = a :: splitByte sep rest := by
  induction a with
  | nil =>
    simp only [List.nil_append, splitByte, beq_self_eq_true, if_true]
    cases h : splitByte sep rest with
    | nil =>
      exfalso
      cases rest with
      | nil => simp [splitByte] at h
      | cons y ys =>
        simp only [splitByte] at h
        split at h
        · simp at h
        · split at h <;> simp at h
    | cons c r => rfl
  | cons b bs ih =>
    have hb : (b == sep) = false := by
      have : b ≠ sep := fun e => ha (by simp [e])
      simpa using this
    simp only [List.cons_append, splitByte, ih (fun hh => ha (by simp [hh])), hb, Bool.false_eq_true, if_false]

theorem splitByte_join (sep : Nat) (items : List Bytes) (hne : items ≠ []) (h : ∀ it ∈ items, sep ∉ it) :
    splitByte sep (joinWith [sep] items) = items := by
  induction items with
  | nil => exact absurd rfl hne
  | cons a rest ih =>
    cases rest with
    | nil => simp only [joinWith]; exact splitByte_no_sep sep a (h a (by simp))
    | cons b rest2 =>
      have e : joinWith [sep] (a :: b :: rest2) = a ++ sep :: joinWith [sep] (b :: rest2) := by
        simp [joinWith]
      rw [e, splitByte_cons_no_sep sep a _ (h a (by simp)), ih (by simp) (fun it hit => h it (by simp [hit]))]

theorem splitList_sysTexts (ns : List Nat) (hne : ns ≠ []) :
    splitList (joinWith [44] (ns.map sysText)) = ns.map sysText := by
  unfold splitList
  rw [splitByte_join 44 (ns.map sysText) (by simpa using hne) (fun it hit => by
    obtain ⟨n, _, rfl⟩ := List.mem_map.mp hit
    exact (sysText_clean n).1)]
  rw [List.map_map]
  apply List.map_congr_left
  intro n _
  exact (sysText_clean n).2

/-- naming the syscalls of a list the way they are printed, one after the other, adds exactly them. -/
theorem foldl_addSyscall_sysText (n : Nat) (rest : List Nat) (hn : ∀ m ∈ n :: rest, m < 2048) (r0 : RuleData)
    (harch : r0.arch = []) (hexp : r0.explicitAll = false) :
    ((n :: rest).map sysText).foldl (fun (acc : Option RuleData) s => acc.bind fun r => addSyscall r s) (some r0) =
      some { r0 with allSyscalls := false, syscalls := r0.syscalls ++ n :: rest } := by
  induction rest generalizing n r0 with
  | nil =>
    simp only [List.map_cons, List.map_nil, List.foldl_cons, List.foldl_nil, Option.bind_some]
    exact addSyscall_sysText r0 n (hn n (by simp)) harch hexp
  | cons m rest ih =>
    simp only [List.map_cons, List.foldl_cons, Option.bind_some]
    rw [addSyscall_sysText r0 n (hn n (by simp)) harch hexp]
    have := ih m (fun x hx => hn x (by simp [hx])) { r0 with allSyscalls := false, syscalls := r0.syscalls ++ [n] } harch hexp
    simp only [List.map_cons, List.foldl_cons] at this
    rw [this]
    simp [List.append_assoc]

/-- the tokens of the line ToCommandLine prints for a rule with an explicit syscall list and no arch filter -/
def lineTokensS (l a : Bytes) (ns : List Nat) (ps : List GPart) : List Bytes :=
  [tokA, a ++ [44] ++ l, tokS, joinWith [44] (ns.map sysText)] ++ gTokens ps

/-- Second clause of C07 for rules with an **explicit syscall list** (no arch filter, so the names
are those of the runtime architecture's table; numbers without a name are printed as numbers):
every syscall rule Build accepts that names its syscalls, has no arch filter, no empty permission
set, and string values that are non-empty and do not begin with '=' prints as
`-a action,list -S s1,…,sn` followed by one `-F` / `-C` element per field; the `-S` value is split
at the commas into exactly those items, each resolves to the number it was printed for (the table
maps every name it gives for a number back to that number; a printed number parses to itself),
the fields re-parse and re-build as in `C07_roundtrip_no_arch`, and the wire data — syscall mask
included — is byte-identical. -/
theorem C07_roundtrip_syscalls (env : Env) (he : EnvOk env) (rule : Rule) (r : RuleData)
    (hr : ruleDataOf env rule = some r)
    (harch : ∀ t ∈ r.trips, (t.1 == LA.Gen.RuleTables.archField) = false)
    (hperm : ∀ t ∈ r.trips, t.1 = LA.Gen.RuleTables.permField → t.2.1 ≠ 0)
    (hstr : ∀ s ∈ r.strings, ∃ c tl, s = c :: tl ∧ c ≠ 61)
    (hall : r.allSyscalls = false) :
    ∃ (l a : Bytes) (ps : List GPart),
      getList r.flags = some l ∧ getAction r.action = some a ∧ ps.length = r.trips.length ∧
      cmdLineOf r = some (joinWith [32] ([ofString "-a", a ++ [44] ++ l] ++
        [ofString "-S", joinWith [44] (r.syscalls.map sysText)] ++ ps.map gPrint)) ∧
      ∃ rule' r', parseArgs (lineTokensS l a r.syscalls ps) = some rule' ∧
        ruleDataOf env rule' = some r' ∧ r'.trips = r.trips ∧ toWire r' = toWire r := by
  have hp := printInv_ruleDataOf he hr
  have hsa := saligned_ruleDataOf hr
  have hjust := justified_ruleDataOf hr
  have hcj := cmpJust_ruleDataOf hr
  have hsi := sysInv_ruleDataOf hr
  obtain ⟨hexp, hsne⟩ := hsi.expl hall
  cases hl : getList r.flags with
  | none => have := hp.list; rw [hl] at this; cases this
  | some l =>
  cases ha : getAction r.action with
  | none => have := hp.action; rw [ha] at this; cases this
  | some a =>
  obtain ⟨ps, hps⟩ := printed_exists env r.flags r.trips r.strings hsa hp.trips harch hjust hcj hperm hstr
  have hw : asFileWatch r = none := by
    unfold asFileWatch
    simp [hall]
  refine ⟨l, a, ps, rfl, rfl, printed_length hps, ?_, ?_⟩
  · unfold cmdLineOf
    rw [hl, ha]
    simp only
    rw [hw]
    simp only
    have hnoarch : lastIndexOf r.fields LA.Gen.RuleTables.archField = none := by
      unfold lastIndexOf
      have : (r.fields.zipIdx).filter (fun p => p.1 == LA.Gen.RuleTables.archField) = [] := by
        rw [List.filter_eq_nil_iff]
        intro p hpm
        have hz := List.mem_zipIdx_iff_getElem?.mp hpm
        simp only [RuleData.fields, List.getElem?_map, Option.map_eq_some_iff] at hz
        obtain ⟨t, hti, htf⟩ := hz
        have := harch t (List.mem_of_getElem? hti)
        rw [htf] at this
        simpa using this
      rw [this]; rfl
    rw [hnoarch]
    simp only
    have hpf := printFields_printed hps
    have hse : r.syscalls.isEmpty = false := by
      cases hs : r.syscalls with
      | nil => exact absurd hs hsne
      | cons _ _ => rfl
    have hb32 : (([] : Bytes) == ofString "b32") = false := by decide
    simp only [RuleData.fields, RuleData.values, RuleData.fieldFlags, hpf, hall, Bool.false_eq_true, if_false, hse, hb32,
      List.isEmpty_nil, Bool.not_true, Bool.false_and]
    simp only [List.append_nil, List.append_assoc]
    rfl
  · have hmatch := printed_match he hps
    have hfold := foldl_printed env he hps { flags := r.flags, action := r.action, allSyscalls := true } rfl
    have hfold' : (ps.map gFilter).foldl (fun (acc : Option RuleData) f =>
        acc.bind fun r =>
          if (f.typ == 2) = true then addFilter env r f.lhs f.op f.rhs
          else if (f.typ == 1) = true then addInterField r f.lhs f.op f.rhs
          else some r) (some { flags := r.flags, action := r.action, allSyscalls := true }) =
        some { flags := r.flags, action := r.action, allSyscalls := true, trips := r.trips, strings := r.strings } := by
      simpa using hfold
    -- the syscall list
    obtain ⟨n, rest, hns⟩ : ∃ n rest, r.syscalls = n :: rest := by
      cases hs : r.syscalls with
      | nil => exact absurd hs hsne
      | cons n rest => exact ⟨n, rest, rfl⟩
    have hbound : ∀ m ∈ n :: rest, m < 2048 := fun m hm => hp.words.syscalls m (by rw [hns]; exact hm)
    have hsysfold := foldl_addSyscall_sysText n rest hbound
      { flags := r.flags, action := r.action, allSyscalls := true, trips := r.trips, strings := r.strings } rfl rfl
    have hsplit : splitList (joinWith [44] (r.syscalls.map sysText)) = r.syscalls.map sysText :=
      splitList_sysTexts r.syscalls hsne
    -- the flag loop
    have hadd := setAdd_print hl ha
    have hsetA : setFlag {} 97 (a ++ [44] ++ l) = some (fsAfterG l a [] [97] []) := by
      unfold setFlag
      simp only [beq_self_eq_true, if_true, hadd, Option.map_some, fsAfterG, List.map_nil, List.nil_append]
    have hlet : ∀ x ∈ ps.map (fun p : GPart => p.1), x = 70 ∨ x = 67 := by
      intro x hx
      obtain ⟨p, hpm, rfl⟩ := List.mem_map.mp hx
      rcases hmatch p hpm with ⟨h, _⟩ | ⟨h, _⟩
      · exact Or.inl h
      · exact Or.inr h
    have htok : lineTokensS l a r.syscalls ps = tokA :: (a ++ [44] ++ l) :: tokS :: joinWith [44] (r.syscalls.map sysText) :: (gTokens ps ++ []) := by
      simp only [lineTokensS, List.cons_append, List.nil_append, List.append_nil]
    have hfuel : (lineTokensS l a r.syscalls ps).length + 1 = (((3 + ps.length) + ps.length) + 1) + 1 := by
      rw [htok]
      simp only [List.length_cons, List.length_append, List.length_nil, gTokens_length]
      omega
    have hloop : parseLoop ((lineTokensS l a r.syscalls ps).length + 1) (lineTokensS l a r.syscalls ps) {} =
        some (fsAfterG l a (r.syscalls.map sysText) ([97] ++ [83] ++ ps.map (fun p : GPart => p.1)) ps, 0) := by
      rw [hfuel, htok, parseLoop_a, hsetA]
      simp only [Option.bind_some]
      rw [parseLoop_S]
      have hsetS : setFlag (fsAfterG l a [] [97] []) 83 (joinWith [44] (r.syscalls.map sysText)) =
          some (fsAfterG l a (r.syscalls.map sysText) ([97] ++ [83]) []) := by
        unfold setFlag
        simp only [show ((83 : Nat) == 97) = false by decide, show ((83 : Nat) == 65) = false by decide,
          show ((83 : Nat) == 67) = false by decide, show ((83 : Nat) == 70) = false by decide, Bool.false_eq_true,
          if_false, beq_self_eq_true, if_true, hsplit, fsAfterG, List.map_nil, List.nil_append]
      rw [hsetS]
      simp only [Option.bind_some]
      rw [parseLoop_gTokens ps hmatch]
      have e3 : 3 + ps.length = (2 + ps.length) + 1 := by omega
      rw [e3]
      simp only [fsAfterG, List.map_nil, List.nil_append, parseLoop]
    have hfin : finish (fsAfterG l a (r.syscalls.map sysText) ([97] ++ [83] ++ ps.map (fun p : GPart => p.1)) ps) =
        some (.syscall 3 l a (ps.map gFilter) (r.syscalls.map sysText) []) := by
      unfold finish fsAfterG
      have c1 : ([97] ++ [83] ++ ps.map (fun p : GPart => p.1)).contains 68 = false := by
        simp only [List.contains_eq_mem, decide_eq_false_iff_not, List.mem_append, List.mem_cons, List.mem_nil_iff, or_false]
        intro hh
        rcases hh with (hh | hh) | hh
        · omega
        · omega
        · rcases hlet 68 hh with h | h <;> omega
      have c2 : ([97] ++ [83] ++ ps.map (fun p : GPart => p.1)).any (fun n => n == 119 || n == 112) = false := by
        rw [List.any_eq_false]
        intro x hx
        simp only [List.mem_append, List.mem_cons, List.mem_nil_iff, or_false] at hx
        rcases hx with (rfl | rfl) | hx
        · decide
        · decide
        · rcases hlet x hx with rfl | rfl <;> decide
      have c3 : ([97] ++ [83] ++ ps.map (fun p : GPart => p.1)).any (fun n => n == 97 || n == 65 || n == 67 || n == 70 || n == 83) = true := by
        simp
      simp only [c1, c2, c3]
      rfl
    have hparse : parseArgs (lineTokensS l a r.syscalls ps) = some (.syscall 3 l a (ps.map gFilter) (r.syscalls.map sysText) []) := by
      unfold parseArgs
      rw [hloop]
      simp only [Nat.lt_irrefl, if_false, gt_iff_lt]
      exact hfin
    have hrd : ruleDataOf env (.syscall 3 l a (ps.map gFilter) (r.syscalls.map sysText) []) =
        some { flags := r.flags, action := r.action, allSyscalls := false, syscalls := r.syscalls, trips := r.trips, strings := r.strings } := by
      simp only [ruleDataOf, setList_getList hl, setAction_getAction ha, hfold']
      rw [hns, hsysfold]
      simp [addKeys]
    refine ⟨_, _, hparse, hrd, rfl, ?_⟩
    exact toWire_congr _ _ rfl rfl rfl rfl hall.symm rfl

/-- non-vacuity of `C07_roundtrip_syscalls`: `-a always,exit -S open,close -F pid=1 -k a` satisfies its hypotheses. -/
example : ((ruleDataOf ⟨false, [], []⟩ (.syscall 3 (ofString "exit") (ofString "always")
    [⟨2, ofString "pid", [61], ofString "1"⟩] [ofString "open", ofString "close", ofString "2000"] [ofString "a"])).map (fun r =>
      !r.allSyscalls && decide (r.syscalls = [2, 3, 2000]) && decide (r.trips.length = 2) &&
      r.strings.all (fun s => match s with | c :: _ => c != 61 | [] => false) &&
      r.trips.all (fun t => !(t.1 == LA.Gen.RuleTables.archField) && !(t.1 == LA.Gen.RuleTables.permField)))) = some true := by
  decide +kernel

/-- Wire round trip: the library's own decoder (fromWireFormat + fromAuditRuleData, the first half
of ToCommandLine) inverts its encoder on everything rule.Build produces — list, action, every
(field, value, operator) triple in order, every string, and the syscall set (as a set; listed
syscalls come back sorted and de-duplicated). The only loss is the one recorded as
KF-C07-all-syscalls-listed: a mask whose first 63 words are all ones reads back as "all". -/
theorem C07_wire_roundtrip (env : Env) (he : EnvOk env) (rule : Rule) (b : Bytes) (h : build env rule = Res.ok b) :
    ∃ r a r', ruleDataOf env rule = some r ∧ fromWire b = Res.ok a ∧ fromArd a = Res.ok r' ∧
      r'.flags = r.flags ∧ r'.action = r.action ∧ r'.trips = r.trips ∧ r'.strings = r.strings ∧
      (r.allSyscalls = true → r'.allSyscalls = true) ∧
      (r'.allSyscalls = false → ∀ n, n ∈ r'.syscalls ↔ n ∈ r.syscalls) := by
  obtain ⟨r, hr, hdec, hlen, hcnt⟩ := C06_build_layout env he rule b h
  have hi := inv_ruleDataOf he hr
  have hal := aligned_ruleDataOf hr
  have hcnt' : r.trips.length ≤ 64 := by simpa [RuleData.fields] using hcnt
  have hw := wordsOk_of_inv hi hcnt'
  have hblen : b.length < 4294967296 := by
    have := strings_total_le hi
    omega
  have hfw := fromWire_of_decode hdec hblen
  simp only at hfw
  -- fromArd on the decoded struct
  have hdf := decodeFields_ok
    { flags := r.flags, action := r.action, fieldCount := r.fields.length, mask := maskOf r,
      fields := padTo 64 r.fields, values := padTo 64 r.values, fieldFlags := padTo 64 r.fieldFlags,
      bufLen := r.strings.flatten.length, buf := r.strings.flatten }
    r.trips r.strings 0 []
    (by intro k t hk; simp only [Nat.zero_add]; exact padTo_getElem? 64 _ k _ (by simp [RuleData.fields, hk]))
    (by intro k t hk; simp only [Nat.zero_add]; exact padTo_getElem? 64 _ k _ (by simp [RuleData.values, hk]))
    (by intro k t hk; simp only [Nat.zero_add]; exact padTo_getElem? 64 _ k _ (by simp [RuleData.fieldFlags, hk]))
    hal (by simp) rfl
  have hmf : LA.Gen.RuleTables.maxFields = 64 := by decide
  have hfl : r.fields.length = r.trips.length := by simp [RuleData.fields]
  have hnot : ¬ r.fields.length > LA.Gen.RuleTables.maxFields := by omega
  simp only [List.length_nil] at hdf
  rw [← hfl] at hdf
  have hfa : fromArd
      { flags := r.flags, action := r.action, fieldCount := r.fields.length, mask := maskOf r,
        fields := padTo 64 r.fields, values := padTo 64 r.values, fieldFlags := padTo 64 r.fieldFlags,
        bufLen := r.strings.flatten.length, buf := r.strings.flatten } =
      Res.ok { flags := r.flags, action := r.action,
               allSyscalls := ((maskOf r).take 63).all (· == 0xFFFFFFFF),
               syscalls := if ((maskOf r).take 63).all (· == 0xFFFFFFFF) then [] else syscallsOfMask (maskOf r),
               trips := r.trips, strings := r.strings } := by
    unfold fromArd
    simp only [hnot, if_false, hdf, bind, Bind.bind, zip_map3]
  refine ⟨r, _, _, hr, hfw, hfa, rfl, rfl, rfl, rfl, ?_, ?_⟩
  · intro hall
    simp [maskOf, hall]
  · intro hfalse n
    simp only at hfalse
    have hall : r.allSyscalls = false := by
      cases hra : r.allSyscalls with
      | false => rfl
      | true => simp [maskOf, hra] at hfalse
    simp only [hfalse, Bool.false_eq_true, if_false]
    exact syscalls_of_maskOf r hall hi.syscalls n

/-- First clause of C07: for every rule that Build accepts, ToCommandLine succeeds on its wire
form — every list, action, operator, field and comparison code Build can emit has a name, every
architecture it accepts can be displayed, and the strings are where the printer looks for them. -/
theorem C07_print_total (env : Env) (he : EnvOk env) (rule : Rule) (b : Bytes) (h : build env rule = Res.ok b) :
    ∃ text, toCommandLine b = Res.ok text := by
  obtain ⟨r, a, r', hr, hfw, hfa, hfl, hac, htr, hst, _, _⟩ := C07_wire_roundtrip env he rule b h
  have hp := printInv_ruleDataOf he hr
  have hal := aligned_ruleDataOf hr
  have hsome := cmdLineOf_isSome r' (by rw [hfl]; exact hp.list) (by rw [hac]; exact hp.action)
    (by rw [htr]; exact hp.trips) (by rw [htr, hst]; exact hal)
  cases hc : cmdLineOf r' with
  | none => rw [hc] at hsome; cases hsome
  | some text =>
    refine ⟨text, ?_⟩
    unfold toCommandLine
    simp only [hfw, hfa, hc, bind, Bind.bind]

/-- non-vacuity of the wire round trip: a rule with a string field, a numeric field, two syscalls. -/
example : (match build ⟨false, [], []⟩ (.syscall 3 (ofString "exit") (ofString "always")
    [⟨2, ofString "path", [61], ofString "/etc/passwd"⟩, ⟨2, ofString "pid", [61], ofString "1"⟩] [ofString "2", ofString "59"] [ofString "k"]) with
    | .ok b => (match fromWire b with
      | .ok a => (match fromArd a with
        | .ok r => decide (r.syscalls = [2, 59] ∧ r.strings = [ofString "/etc/passwd", ofString "k"] ∧ r.trips.length = 3)
        | _ => false)
      | _ => false)
    | _ => false) = true := by decide +kernel

end LA.Rule

/-! ### the code keeps nothing between calls that the model does not have -/

/-- Packages rule and rule/flags write package-level variables only in the five table builders, which nothing but `init`
mentions (regenerated list, see LA.Proofs.StateFacts): Parse, Build and ToCommandLine are functions of their arguments. -/
theorem C07_rule_packages_keep_nothing_between_calls : LA.StateFacts.ofPkg "rule" = LA.StateFacts.ruleTableBuilders ∧ LA.StateFacts.ofPkg "rule/flags" = [] := by decide

/-- What the rule packages read of the process they run in is what the model is given as `Env`: the file type of a
watched path (os.Stat) and the user and group databases; package flags reads nothing (`envReads`, regenerated with
go/types on every run: package-level functions of os, os/user, os/exec, net, runtime, math/rand, crypto/rand,
time.Now / Since / Until, file-system functions of path/filepath, process queries of syscall). -/
theorem C07_environment_is_stat_and_the_id_databases :
    LA.StateFacts.envOf "rule" = LA.StateFacts.ruleEnv ∧ LA.StateFacts.envOf "rule/flags" = [] := by decide
