/-
C18 — Netlink transport frames requests correctly and trusts only the kernel.
Property theorems only; helper lemmas are in LA/Proofs/Netlink.lean.

What is proved of the model (Model/Netlink.lean) for all inputs; the model is tied to netlink.go
on every run by the kernel's verbatim echo on a real NETLINK_ROUTE socket, by datagrams from a
second NETLINK_USERSOCK socket, by N goroutines x M Sends, and by the simulated kernel handing
raw bytes to the library's own parseNetlinkAuditMessage (harness/cmd/drive/client*.go).

Partial by nature (named so in the manifest): the atomicity of `atomic.AddUint32`, the Go memory
model and the kernel's side of netlink are assumptions of the interleaving model, not theorems.
-/
import LA.Proofs.Uapi
import LA.Proofs.StateFacts

namespace LA.Netlink
open LA.Spec

/-- Framing: for every header and payload that fit their Go types, the serialized message is
16 + |payload| bytes; decoded at the offsets of `struct nlmsghdr` it carries that length, the
caller's type and flags, the sequence and port id given; the payload follows verbatim. -/
theorem C18_serialize (m : Msg) (hw : m.hdr.WF) (hl : 16 + m.data.length < 4294967296) :
    (serialize m).length = 16 + m.data.length ∧
    Uapi.decode Uapi.nlmsghdr (serialize m) =
      [("nlmsg_len", 16 + m.data.length), ("nlmsg_type", m.hdr.typ), ("nlmsg_flags", m.hdr.flags),
       ("nlmsg_seq", m.hdr.seq), ("nlmsg_pid", m.hdr.pid)] ∧
    (serialize m).drop 16 = m.data := by
  obtain ⟨_, h2, h3, h4, h5⟩ := hw
  have hp := parseAudit_serialize m
  rw [parseAudit_of_le (by rw [serialize_length]; omega)] at hp
  simp only [R.ok.injEq, Msg.mk.injEq, Hdr.parse, Hdr.mk.injEq] at hp
  obtain ⟨⟨e1, e2, e3, e4, e5⟩, e6⟩ := hp
  refine ⟨serialize_length m, ?_, e6⟩
  simp only [Uapi.decode, Uapi.nlmsghdr, List.map_cons, List.map_nil, uapi_field4, uapi_field2, e1, e2, e3, e4, e5]
  rw [Nat.mod_eq_of_lt hl, Nat.mod_eq_of_lt h2, Nat.mod_eq_of_lt h3, Nat.mod_eq_of_lt h4, Nat.mod_eq_of_lt h5]

/-- parse ∘ serialize = id (up to the length field, which serialize sets) -/
theorem C18_parse_serialize (m : Msg) (hw : m.hdr.WF) (hl : 16 + m.data.length < 4294967296) :
    parseAudit (serialize m) = .ok { hdr := { m.hdr with len := 16 + m.data.length }, data := m.data } := by
  obtain ⟨_, h2, h3, h4, h5⟩ := hw
  rw [parseAudit_serialize, Nat.mod_eq_of_lt hl, Nat.mod_eq_of_lt h2, Nat.mod_eq_of_lt h3, Nat.mod_eq_of_lt h4,
    Nat.mod_eq_of_lt h5]

/-- non-vacuity: a request with a payload -/
example : parseAudit (serialize ⟨⟨0, 1001, 5, 7, 99⟩, [1, 2, 3]⟩) = .ok ⟨⟨19, 1001, 5, 7, 99⟩, [1, 2, 3]⟩ := by
  decide

/-- Send: the sequence number returned is the previous one plus one (mod 2^32), it is the one in
the header on the wire, the port id is filled in iff the caller left it 0, type, flags and payload
are the caller's, the length is right. -/
theorem C18_send (c : NL) (m : Msg) (hw : m.hdr.WF) (hc : c.pid < 4294967296)
    (hl : 16 + m.data.length < 4294967296) :
    let r := c.send m
    r.2.1 = (c.seq + 1) % 4294967296 ∧ r.1.seq = r.2.1 ∧ r.1.pid = c.pid ∧
    parseAudit r.2.2 = .ok { hdr := { len := 16 + m.data.length, typ := m.hdr.typ, flags := m.hdr.flags, seq := r.2.1,
                                       pid := if m.hdr.pid = 0 then c.pid else m.hdr.pid },
                             data := m.data } := by
  obtain ⟨h1, h2, h3, h4, h5⟩ := hw
  refine ⟨rfl, rfl, rfl, ?_⟩
  have hp : (if m.hdr.pid = 0 then c.pid else m.hdr.pid) < 4294967296 := by split <;> assumption
  exact C18_parse_serialize
    ⟨{ m.hdr with pid := if m.hdr.pid = 0 then c.pid else m.hdr.pid, seq := (c.seq + 1) % 4294967296 }, m.data⟩
    ⟨h1, h2, h3, Nat.mod_lt _ (by decide), hp⟩ hl

example : ((⟨4242, 6⟩ : NL).send ⟨⟨0, 1000, 5, 0, 0⟩, []⟩).2 = (7, serialize ⟨⟨16, 1000, 5, 7, 4242⟩, []⟩) := by decide

/-- Concurrent senders.  For any number of senders and any interleaving (`sched`: which sender
makes its next step; a Send is the atomic fetch-and-add followed later by sendto), as long as the
counter does not wrap (`c0 + steps < 2^32`):
* the values obtained by the atomic steps are `c0+1, c0+2, …` in step order (gap-free, increasing);
* every message on the wire carries (and its Send returns) a value some atomic step of the same
  sender produced; these values are pairwise distinct over all senders;
* each sender's values appear on the wire in increasing order.

PARTIAL: proved of the model in which `atomic.AddUint32` is one indivisible step (`cstep`).  Missing:
that the Go runtime and the hardware provide that atomicity — supported by the N x M concurrent Send
run of the harness only. -/
theorem C18_seq_concurrent_partial (c0 : Nat) (sched : List Nat) (hb : c0 + sched.length < 4294967296) :
    let s := crun (CSt.init c0) sched
    vals s.adds = List.range' (c0 + 1) s.adds.length ∧
    (∀ x ∈ s.wire, x ∈ s.adds) ∧
    (vals s.wire).Nodup ∧
    ∀ t, (vals (s.wire.filter (·.1 == t))).Pairwise (· < ·) := by
  have h := cinv_run sched (cinv_init c0) (by simpa [CSt.init] using hb)
  refine ⟨h.adds_eq, h.wire_sub, h.wire_nd, ?_⟩
  intro t
  have hs : (vals ((crun (CSt.init c0) sched).adds.filter (·.1 == t))).Pairwise (· < ·) := by
    have hsub : (vals ((crun (CSt.init c0) sched).adds.filter (·.1 == t))).Sublist (vals (crun (CSt.init c0) sched).adds) :=
      List.Sublist.map _ List.filter_sublist
    refine List.Pairwise.sublist hsub ?_
    rw [h.adds_eq]
    exact List.pairwise_lt_range'
  rw [← h.per_tid t] at hs
  simp only [vals, List.map_append] at hs
  exact (List.pairwise_append.mp hs).1

/-- non-vacuity: two senders, interleaved so that sender 1 obtains its number second but sends first -/
example : (crun (CSt.init 0) [0, 1, 1, 0, 0, 1]).wire = [(1, 2), (0, 1)] ∧
          (crun (CSt.init 0) [0, 1, 1, 0, 0, 1]).adds = [(0, 1), (1, 2), (0, 3), (1, 4)] := by
  constructor <;> rfl

/-- The wrap, stated rather than hidden: the counter is a uint32.  From 2^32-1 the next Send
returns 0 — the number the kernel uses for unsolicited records — and 2^32 Sends later the same
numbers come round again, so "distinct" holds only for fewer than 2^32 Sends on one client. -/
theorem C18_seq_wrap (pid : Nat) (m : Msg) :
    ((⟨pid, 4294967295⟩ : NL).send m).2.1 = 0 ∧
    ∀ c : NL, (c.send m).2.1 = (({ c with seq := c.seq + 4294967296 } : NL).send m).2.1 := by
  refine ⟨by simp [NL.send], ?_⟩
  intro c
  simp only [NL.send]
  omega

/-- Receive's guards.  Data is returned exactly when recvfrom succeeded with at least a header's
worth of bytes from a netlink address whose port id is 0 (the kernel) and the caller's parser
accepts the bytes — and then it is exactly what the parser makes of the `nr` bytes received.
In every other case the result is an error and nothing is returned. -/
theorem C18_receive_guard {α : Type} (io : Option (Bytes × From)) (p : Bytes → Option α) (x : α) :
    NL.receive io true p = .ok x ↔
      ∃ buf groups, io = some (buf, From.netlink 0 groups) ∧ 16 ≤ buf.length ∧ p buf = some x := by
  constructor
  · intro h
    unfold NL.receive at h
    split at h
    · cases h
    · rename_i buf src
      split at h
      · cases h
      · rename_i hlen
        split at h
        · cases h
        · rename_i pid groups
          split at h
          · cases h
          · rename_i hpid
            simp only [Bool.not_true, Bool.false_eq_true, if_false] at h
            split at h
            · rename_i y hy
              cases h
              refine ⟨buf, groups, ?_, by simp only [NLMSG_HDRLEN] at hlen; omega, hy⟩
              have : pid = 0 := by simpa using hpid
              rw [this]
            · cases h
  · rintro ⟨buf, groups, rfl, hlen, hp⟩
    have : ¬ buf.length < 16 := by omega
    simp [NL.receive, NLMSG_HDRLEN, this, hp]

/-- … in particular a datagram from any other sender, or one shorter than a header, is an error
whatever the parser would say. -/
theorem C18_receive_rejects {α : Type} (buf : Bytes) (src : From) (w : Bool) (p : Bytes → Option α)
    (h : buf.length < 16 ∨ src = From.other ∨ ∃ pid groups, src = From.netlink pid groups ∧ pid ≠ 0) :
    ∃ e, NL.receive (some (buf, src)) w p = .error e := by
  rcases h with h | h | ⟨pid, groups, rfl, h⟩
  · exact ⟨.tooShort, by simp [NL.receive, NLMSG_HDRLEN, h]⟩
  · subst h
    by_cases hl : buf.length < 16
    · exact ⟨.tooShort, by simp [NL.receive, NLMSG_HDRLEN, hl]⟩
    · exact ⟨.notKernel, by simp [NL.receive, NLMSG_HDRLEN, hl]⟩
  · by_cases hl : buf.length < 16
    · exact ⟨.tooShort, by simp [NL.receive, NLMSG_HDRLEN, hl]⟩
    · exact ⟨.notKernel, by simp [NL.receive, NLMSG_HDRLEN, hl, h]⟩

/-- non-vacuity: the kernel's datagram is returned, the same bytes from port 4711 (even through a
multicast group) are not -/
example : NL.receive (some (serialize ⟨⟨0, 1300, 0, 0, 0⟩, [65]⟩, From.netlink 0 1)) true (fun b => some b) =
            .ok (serialize ⟨⟨0, 1300, 0, 0, 0⟩, [65]⟩) ∧
          NL.receive (some (serialize ⟨⟨0, 1300, 0, 0, 0⟩, [65]⟩, From.netlink 4711 1)) true (fun b => some b) =
            .error .notKernel := by
  constructor <;> rfl

/-- parseNetlinkAuditMessage: a buffer shorter than 16 bytes is an error; otherwise the header is
the first 16 bytes decoded, the data is everything after them — whatever the header's length
field says — and in no case is memory outside the buffer read. -/
theorem C18_parse_audit (buf : Bytes) :
    (buf.length < 16 → parseAudit buf = .err) ∧
    (16 ≤ buf.length → parseAudit buf = .ok { hdr := Hdr.parse (buf.take 16), data := buf.drop 16 }) ∧
    parseAudit buf ≠ .oob := by
  refine ⟨parseAudit_of_lt, ?_, ?_⟩
  · intro h; rw [parseAudit_of_le h, Hdr.parse_take]
  · by_cases h : buf.length < 16
    · rw [parseAudit_of_lt h]; simp
    · rw [parseAudit_of_le (by omega)]; simp

/-- the length guard is what keeps the unsafe header read inside the buffer -/
theorem C18_parse_audit_guard_needed (buf : Bytes) (h : buf.length < 16) : parseAuditUnguarded buf = .oob := by
  have : ¬ 16 ≤ buf.length := by omega
  simp [parseAuditUnguarded, unsafeRead, this]

/-- the length field is ignored: same bytes, any length field, same type / sequence / data -/
example : parseAudit (Hdr.bytes ⟨4000000000, 1305, 0, 0, 0⟩ ++ [1, 2]) = .ok ⟨⟨4000000000, 1305, 0, 0, 0⟩, [1, 2]⟩ := by
  decide

/-! ### one message per datagram -/

/-- How the kernel reads a datagram it receives on a netlink socket (`netlink_rcv_skb`, `audit_receive`): while at
least a header is left (`nlmsg_ok`: 16 bytes, a length field of at least 16 and of at most what is left) it takes one
message, then moves on by the length field rounded up to a multiple of four (`nlmsg_next`). Every message found is
processed as a request of its own. -/
def kernelWalk : Nat → Bytes → List Msg
  | 0, _ => []
  | fuel + 1, buf =>
    if buf.length < 16 then []
    else
      let h := Hdr.parse buf
      if h.len < 16 ∨ buf.length < h.len then []
      else ⟨h, (buf.take h.len).drop 16⟩ :: kernelWalk fuel (buf.drop ((h.len + 3) / 4 * 4))

/-- One message on the wire, and nothing behind it: the kernel, walking the datagram `Send` hands to the socket, finds
exactly one message — the caller's type, flags and payload, the length set — however many more it is prepared to look
for. (The seeded change C18-y, a reused send buffer transmitted whole, is the failure this excludes: there the
walk finds the headers an earlier payload left behind the message.) -/
theorem C18_one_message_on_the_wire (m : Msg) (hw : m.hdr.WF) (hl : 16 + m.data.length < 4294967296) (fuel : Nat) :
    kernelWalk (fuel + 1) (serialize m) = [{ hdr := { m.hdr with len := 16 + m.data.length }, data := m.data }] := by
  have hp := C18_parse_serialize m hw hl
  have hlen := serialize_length m
  rw [parseAudit_of_le (by rw [hlen]; omega)] at hp
  simp only [R.ok.injEq, Msg.mk.injEq] at hp
  obtain ⟨hh, hd⟩ := hp
  unfold kernelWalk
  have h1 : ¬ (serialize m).length < 16 := by rw [hlen]; omega
  simp only [h1, if_false, hh]
  have h2 : ¬ (16 + m.data.length < 16 ∨ (serialize m).length < 16 + m.data.length) := by rw [hlen]; omega
  simp only [h2, if_false]
  have htake : (serialize m).take (16 + m.data.length) = serialize m := by
    apply List.take_of_length_le; rw [hlen]; exact Nat.le_refl _
  rw [htake, hd]
  have hdrop : (serialize m).drop ((16 + m.data.length + 3) / 4 * 4) = [] := by
    apply List.drop_of_length_le; rw [hlen]; omega
  rw [hdrop]
  cases fuel with
  | zero => rfl
  | succ f => simp [kernelWalk]

/-- non-vacuity, and the walk does find what is behind a message: two requests in one datagram are two messages. -/
example : kernelWalk 5 (serialize ⟨⟨0, 1001, 5, 7, 99⟩, [1, 2, 3]⟩) = [⟨⟨19, 1001, 5, 7, 99⟩, [1, 2, 3]⟩] := by decide
example : (kernelWalk 5 (serialize ⟨⟨0, 1001, 5, 7, 99⟩, [1, 2, 3, 4]⟩ ++ serialize ⟨⟨0, 1000, 5, 8, 99⟩, []⟩)).length = 2 := by decide
end LA.Netlink

/-! ### the code keeps nothing between calls that the model does not have -/

/-- Outside `init`, no function of the root package writes a package-level variable, hands the address of one to a function or calls a
sync/atomic method on one (regenerated list, see LA.Proofs.StateFacts): all state is in the object the model is given. -/
theorem C18_state_is_in_the_object : LA.StateFacts.ofPkg "" = [] := by decide

/-- What the root package reads of the process it runs in is the clock (the Reassembler's deadlines, which the model is
given as readings), the process id (an input of SetPID) and the page size (the default receive buffer): `envReads`,
regenerated with go/types on every run, lists the package-level functions of os, os/user, os/exec, net, runtime,
math/rand, crypto/rand that are called, time.Now / Since / Until, file-system functions of path/filepath and process
queries of syscall. Nothing else of the machine — processors, environment variables, files, random numbers — can
influence what the Reassembler or the client does. -/
theorem C18_environment_is_clock_pid_pagesize : LA.StateFacts.envOf "" = LA.StateFacts.rootEnv := by decide
