/-
C01 — Reassembler delivers every pushed record exactly once, grouped by sequence.
Property theorems only; helper lemmas are in LA/Proofs/Reasm.lean.
All statements quantify over every configuration (maxInFlight, timeout), every
clock and every operation list of any length.
-/
import LA.Proofs.Reasm

namespace LA.Reasm

/-- Nothing is lost, duplicated or invented, at any point of any history:
the messages delivered so far together with the buffered ones are a permutation
of the non-EOE messages pushed so far. -/
theorem C01_conservation (maxSize timeout : Int) (ops : List Op) :
    (delivered (run (init maxSize timeout) ops).2 ++ allMsgs (run (init maxSize timeout) ops).1.buf).Perm
      (pushed ops) := by
  simpa [init] using run_conserve (init maxSize timeout) ops

def noClose (ops : List Op) : Prop := ∀ op ∈ ops, op ≠ Op.close

theorem run_append (s : St) (a b : List Op) :
    run s (a ++ b) = ((run (run s a).1 b).1, (run s a).2 ++ (run (run s a).1 b).2) := by
  induction a generalizing s with
  | nil => simp [run]
  | cons op a ih => simp [run, ih]

theorem closed_step_of_ne {s : St} {op : Op} (h : op ≠ Op.close) : (step s op).1.closed = s.closed := by
  cases op with
  | push m tp tc => simp [step, evictStep]
  | pushNil => rfl
  | maintain t => simp only [step]; split <;> simp [evictStep]
  | close => exact absurd rfl h

theorem closed_run_noClose {s : St} {ops : List Op} (h : noClose ops) : (run s ops).1.closed = s.closed := by
  induction ops generalizing s with
  | nil => rfl
  | cons op ops ih =>
    simp only [run]
    rw [ih (fun o ho => h o (List.mem_cons_of_mem _ ho)), closed_step_of_ne (h op (List.mem_cons_self ..))]

/-- Exactly once: after any series of pushes/Maintain calls followed by Close, the
delivered messages are a permutation of the pushed non-EOE messages and nothing
stays buffered. -/
theorem C01_exactly_once (maxSize timeout : Int) (ops : List Op) (h : noClose ops) :
    (delivered (run (init maxSize timeout) (ops ++ [Op.close])).2).Perm (pushed ops) ∧
    (run (init maxSize timeout) (ops ++ [Op.close])).1.buf = [] := by
  have hc : (run (init maxSize timeout) ops).1.closed = false := by
    rw [closed_run_noClose h]; rfl
  have hb : (run (init maxSize timeout) (ops ++ [Op.close])).1.buf = [] := by
    simp [run_append, run, step, hc, evictStep]
  refine ⟨?_, hb⟩
  have := C01_conservation maxSize timeout (ops ++ [Op.close])
  rw [hb] at this
  simpa [pushed, pushedOf] using this

/-- Consequently, if the pushed messages are pairwise distinct, no message is delivered twice. -/
theorem C01_no_duplicates (maxSize timeout : Int) (ops : List Op) (h : noClose ops)
    (hd : (pushed ops).Nodup) :
    (delivered (run (init maxSize timeout) (ops ++ [Op.close])).2).Nodup :=
  (C01_exactly_once maxSize timeout ops h).1.nodup_iff.mpr hd

/-- Every group delivered by any call of any history carries a single sequence number,
and is never empty. -/
theorem C01_group_uniform (maxSize timeout : Int) (ops : List Op) :
    ∀ outs ∈ (run (init maxSize timeout) ops).2, ∀ g ∈ groupLists outs,
      g ≠ [] ∧ ∃ seq, ∀ m ∈ g, m.seq = seq := by
  suffices H : ∀ (s : St), Inv s → ∀ outs ∈ (run s ops).2, ∀ g ∈ groupLists outs,
      g ≠ [] ∧ ∃ seq, ∀ m ∈ g, m.seq = seq from H _ (inv_init _ _)
  induction ops with
  | nil => intro s _ outs ho; simp [run] at ho
  | cons op ops ih =>
    intro s hs outs ho g hg
    simp only [run, List.mem_cons] at ho
    rcases ho with ho | ho
    · subst ho
      rw [groupLists_step] at hg
      obtain ⟨p, hp, rfl⟩ := List.mem_map.mp hg
      have hmem : p ∈ bufBeforeEvict s op := (evictedBy_prefix s op).subset hp
      have hinv : Inv { s with buf := bufBeforeEvict s op } := by
        cases op with
        | push m tp tc =>
          have := inv_put hs m tp
          exact ⟨this.nodup, this.uniform, this.nonempty⟩
        | pushNil => exact hs
        | maintain t => exact hs
        | close => exact hs
      exact ⟨hinv.nonempty p hmem, p.1, hinv.uniform p hmem⟩
    · exact ih _ (inv_step hs op) outs ho g hg

/-- Messages inside a group appear in the order they were pushed: every delivered group
is a subsequence of the push sequence. -/
theorem C01_group_order (maxSize timeout : Int) (ops : List Op) :
    ∀ outs ∈ (run (init maxSize timeout) ops).2, ∀ g ∈ groupLists outs, g.Sublist (pushed ops) := by
  have := run_groups_sublist (H := []) (s := init maxSize timeout) (by simp [OrderInv, init]) ops
  simpa using this

/-- Records of one event that arrive while that event is still buffered join it: if a
message with the same sequence is buffered when `m` is pushed, then after `Put` one
event holds both. -/
theorem C01_no_split {s : St} (hs : Inv s) (m m' : Msg) (t : Int) (hm : (m.typ == EOE) = false)
    (hb : m' ∈ allMsgs s.buf) (hseq : m'.seq = m.seq) :
    ∃ p ∈ (put s m t).buf, m' ∈ p.2.msgs ∧ m ∈ p.2.msgs := by
  obtain ⟨p', hp', hm'⟩ : ∃ p' ∈ s.buf, m' ∈ p'.2.msgs := by
    simpa [allMsgs, List.mem_flatMap] using hb
  have hk : p'.1 = m.seq := by rw [← hs.uniform p' hp' m' hm', hseq]
  have hkey : hasKey m.seq s.buf = true := (hasKey_iff _ _).mpr (by
    rw [← hk]; exact List.mem_map.mpr ⟨p', hp', rfl⟩)
  simp only [put, hm, hkey, if_true, Bool.false_eq_true, if_false]
  exact ⟨_, appendTo_mem hs.nodup hp' hk, by simp [hm'], by simp⟩

end LA.Reasm
