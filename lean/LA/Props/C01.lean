/-
C01 — Reassembler delivers every pushed record exactly once, grouped by sequence.
Property theorems only; helper lemmas are in LA/Proofs/Reasm.lean.
All statements quantify over every configuration (maxInFlight, timeout), every
clock and every operation list of any length.
-/
import LA.Proofs.Reasm
import LA.Proofs.StateFacts
import LA.Gen.ReasmFacts

namespace LA.Reasm

/-- Nothing is lost, duplicated or invented, at any point of any history:
the messages delivered so far together with the buffered ones are a permutation
of the non-EOE messages pushed so far. -/
theorem C01_conservation (maxSize timeout : Int) (ops : List Op) :
    (delivered (run (init maxSize timeout) ops).2 ++ allMsgs (run (init maxSize timeout) ops).1.buf).Perm
      (pushed ops) := by
  simpa [init] using run_conserve (init maxSize timeout) ops

def noClose (ops : List Op) : Prop := ∀ op ∈ ops, op ≠ Op.close

theorem run_append (s : St) (a b : List Op) :
    run s (a ++ b) = ((run (run s a).1 b).1, (run s a).2 ++ (run (run s a).1 b).2) := by
  induction a generalizing s with
  | nil => simp [run]
  | cons op a ih => simp [run, ih]

theorem closed_step_of_ne {s : St} {op : Op} (h : op ≠ Op.close) : (step s op).1.closed = s.closed := by
  cases op with
  | push m tp tc => simp [step, evictStep]
  | pushNil => rfl
  | maintain t => simp only [step]; split <;> simp [evictStep]
  | close => exact absurd rfl h

theorem closed_run_noClose {s : St} {ops : List Op} (h : noClose ops) : (run s ops).1.closed = s.closed := by
  induction ops generalizing s with
  | nil => rfl
  | cons op ops ih =>
    simp only [run]
    rw [ih (fun o ho => h o (List.mem_cons_of_mem _ ho)), closed_step_of_ne (h op (List.mem_cons_self ..))]

/-- Exactly once: after any series of pushes/Maintain calls followed by Close, the
delivered messages are a permutation of the pushed non-EOE messages and nothing
stays buffered. -/
theorem C01_exactly_once (maxSize timeout : Int) (ops : List Op) (h : noClose ops) :
    (delivered (run (init maxSize timeout) (ops ++ [Op.close])).2).Perm (pushed ops) ∧
    (run (init maxSize timeout) (ops ++ [Op.close])).1.buf = [] := by
  have hc : (run (init maxSize timeout) ops).1.closed = false := by
    rw [closed_run_noClose h]; rfl
  have hb : (run (init maxSize timeout) (ops ++ [Op.close])).1.buf = [] := by
    simp [run_append, run, step, hc, evictStep]
  refine ⟨?_, hb⟩
  have := C01_conservation maxSize timeout (ops ++ [Op.close])
  rw [hb] at this
  simpa [pushed, pushedOf] using this

/-- Consequently, if the pushed messages are pairwise distinct, no message is delivered twice. -/
theorem C01_no_duplicates (maxSize timeout : Int) (ops : List Op) (h : noClose ops)
    (hd : (pushed ops).Nodup) :
    (delivered (run (init maxSize timeout) (ops ++ [Op.close])).2).Nodup :=
  (C01_exactly_once maxSize timeout ops h).1.nodup_iff.mpr hd

/-- Every group delivered by any call of any history carries a single sequence number,
and is never empty. -/
theorem C01_group_uniform (maxSize timeout : Int) (ops : List Op) :
    ∀ outs ∈ (run (init maxSize timeout) ops).2, ∀ g ∈ groupLists outs,
      g ≠ [] ∧ ∃ seq, ∀ m ∈ g, m.seq = seq := by
  suffices H : ∀ (s : St), Inv s → ∀ outs ∈ (run s ops).2, ∀ g ∈ groupLists outs,
      g ≠ [] ∧ ∃ seq, ∀ m ∈ g, m.seq = seq from H _ (inv_init _ _)
  induction ops with
  | nil => intro s _ outs ho; simp [run] at ho
  | cons op ops ih =>
    intro s hs outs ho g hg
    simp only [run, List.mem_cons] at ho
    rcases ho with ho | ho
    · subst ho
      rw [groupLists_step] at hg
      obtain ⟨p, hp, rfl⟩ := List.mem_map.mp hg
      have hmem : p ∈ bufBeforeEvict s op := (evictedBy_prefix s op).subset hp
      have hinv : Inv { s with buf := bufBeforeEvict s op } := by
        cases op with
        | push m tp tc =>
          have := inv_put hs m tp
          exact ⟨this.nodup, this.uniform, this.nonempty⟩
        | pushNil => exact hs
        | maintain t => exact hs
        | close => exact hs
      exact ⟨hinv.nonempty p hmem, p.1, hinv.uniform p hmem⟩
    · exact ih _ (inv_step hs op) outs ho g hg

/-- Messages inside a group appear in the order they were pushed: every delivered group
is a subsequence of the push sequence. -/
theorem C01_group_order (maxSize timeout : Int) (ops : List Op) :
    ∀ outs ∈ (run (init maxSize timeout) ops).2, ∀ g ∈ groupLists outs, g.Sublist (pushed ops) := by
  have := run_groups_sublist (H := []) (s := init maxSize timeout) (by simp [OrderInv, init]) ops
  simpa using this

/-- Records of one event that arrive while that event is still buffered join it: if a
message with the same sequence is buffered when `m` is pushed, then after `Put` one
event holds both. -/
theorem C01_no_split {s : St} (hs : Inv s) (m m' : Msg) (t : Int) (hm : (m.typ == EOE) = false)
    (hb : m' ∈ allMsgs s.buf) (hseq : m'.seq = m.seq) :
    ∃ p ∈ (put s m t).buf, m' ∈ p.2.msgs ∧ m ∈ p.2.msgs := by
  obtain ⟨p', hp', hm'⟩ : ∃ p' ∈ s.buf, m' ∈ p'.2.msgs := by
    simpa [allMsgs, List.mem_flatMap] using hb
  have hk : p'.1 = m.seq := by rw [← hs.uniform p' hp' m' hm', hseq]
  have hkey : hasKey m.seq s.buf = true := (hasKey_iff _ _).mpr (by
    rw [← hk]; exact List.mem_map.mpr ⟨p', hp', rfl⟩)
  simp only [put, hm, hkey, if_true, Bool.false_eq_true, if_false]
  exact ⟨_, appendTo_mem hs.nodup hp' hk, by simp [hm'], by simp⟩

/-- a key names one event: in a buffer with distinct keys, two events with the same key are the same. -/
theorem event_unique {b : Buf} (hnd : (keys b).Nodup) {p q : Nat × Ev} (hp : p ∈ b) (hq : q ∈ b) (hk : p.1 = q.1) : p = q := by
  induction b with
  | nil => cases hp
  | cons x xs ih =>
    simp only [keys, List.map_cons, List.nodup_cons] at hnd
    rcases List.mem_cons.mp hp with rfl | hp'
    · rcases List.mem_cons.mp hq with rfl | hq'
      · rfl
      · exact absurd (List.mem_map.mpr ⟨q, hq', hk.symm⟩) hnd.1
    · rcases List.mem_cons.mp hq with rfl | hq'
      · exact absurd (List.mem_map.mpr ⟨p, hp', hk⟩) hnd.1
      · exact ih hnd.2 hp' hq'

/-- No split, at the level of whole histories: take any reachable state (any history `ops`), a
buffered message `m'` and a push of a non-EOE message `m` with the same sequence number. Then
(1) every group this very call delivers contains both or neither, and (2) every event still
buffered after the call contains both or neither. Together with `C01_no_split` (one event holds
both) and exactly-once delivery, the two records can never end up in different callbacks. -/
theorem C01_no_split_trace (maxSize timeout : Int) (ops : List Op) (m m' : Msg) (tp tc : Int)
    (hm : (m.typ == EOE) = false)
    (hb : m' ∈ allMsgs (run (init maxSize timeout) ops).1.buf) (hseq : m'.seq = m.seq) :
    (∀ g ∈ groupLists (step (run (init maxSize timeout) ops).1 (.push m tp tc)).2, (m' ∈ g ↔ m ∈ g)) ∧
    (∀ p ∈ (step (run (init maxSize timeout) ops).1 (.push m tp tc)).1.buf, (m' ∈ p.2.msgs ↔ m ∈ p.2.msgs)) := by
  generalize hs0 : (run (init maxSize timeout) ops).1 = s at hb ⊢
  have hs : Inv s := by rw [← hs0]; exact inv_run (inv_init _ _) ops
  have hs1 : Inv (put s m tp) := inv_put hs m tp
  obtain ⟨p0, hp0, hm'0, hm0⟩ := C01_no_split hs m m' tp hm hb hseq
  -- in the buffer after Put, an event holds m' iff it holds m
  have key : ∀ p ∈ (put s m tp).buf, (m' ∈ p.2.msgs ↔ m ∈ p.2.msgs) := by
    intro p hp
    constructor
    · intro h
      have hk : p.1 = p0.1 := by
        rw [← hs1.uniform p hp m' h, ← hs1.uniform p0 hp0 m' hm'0]
      rw [event_unique hs1.nodup hp hp0 hk]; exact hm0
    · intro h
      have hk : p.1 = p0.1 := by
        rw [← hs1.uniform p hp m h, ← hs1.uniform p0 hp0 m hm0]
      rw [event_unique hs1.nodup hp hp0 hk]; exact hm'0
  constructor
  · intro g hg
    rw [groupLists_step] at hg
    obtain ⟨p, hp, rfl⟩ := List.mem_map.mp hg
    have hpre := evictedBy_prefix s (.push m tp tc)
    exact key p (hpre.subset hp)
  · intro p hp
    simp only [step, evictStep] at hp
    have hsuf := cleanUp_snd_suffix tc (put s m tp).maxSize (put s m tp).buf
    exact key p (hsuf.subset hp)

end LA.Reasm

/-! ### the code keeps nothing between calls that the model does not have -/

/-- Outside `init`, no function of the root package writes a package-level variable, hands the address of one to a function or calls a
sync/atomic method on one (regenerated list, see LA.Proofs.StateFacts): all state is in the object the model is given. -/
theorem C01_state_is_in_the_object : LA.StateFacts.ofPkg "" = [] := by decide

/-- The model's message is the record as the Reassembler sees it — an identity, a sequence number and a record type —
and that is all the code looks at: in reassembler.go the only fields of `auparse.AuditMessage` selected are `RecordType`
and `Sequence`, and the only function outside the root package that is handed messages is the Stream's
`ReassemblyComplete` (`msgReads`, regenerated with go/types on every run). Grouping, order, completion, eviction and
loss accounting are therefore functions of (sequence, type) histories and of the clock, as in `Model.Reasm`; a
Reassembler that also consults a record's time stamp, text or parsed data — to guess at a restart of the kernel's
counter, to tell two events with one number apart — is outside that reading whatever it uses them for, and the
drivers' histories (which vary time stamps and bodies independently of the sequence numbers) search for the input on
which it shows. -/
theorem C01_reads_only_sequence_and_type :
    LA.Gen.ReasmFacts.msgReads = ["call:ReassemblyComplete", "field:RecordType", "field:Sequence"] := by decide

/-- What the root package reads of the process it runs in is the clock (the Reassembler's deadlines, which the model is
given as readings), the process id (an input of SetPID) and the page size (the default receive buffer): `envReads`,
regenerated with go/types on every run, lists the package-level functions of os, os/user, os/exec, net, runtime,
math/rand, crypto/rand that are called, time.Now / Since / Until, file-system functions of path/filepath and process
queries of syscall. Nothing else of the machine — processors, environment variables, files, random numbers — can
influence what the Reassembler or the client does. -/
theorem C01_environment_is_clock_pid_pagesize : LA.StateFacts.envOf "" = LA.StateFacts.rootEnv := by decide
