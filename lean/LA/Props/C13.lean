/-
C13 — Rule encoder, decoder and flag parser never panic; bad input is an error.
Go index/slice expressions and array stores of the rule package are modelled by checked
accessors (`Res.panic`); the theorems say that outcome is unreachable for every input.
Allocation in proportion to numbers found in the input is observed by the monitor (TotalAlloc),
not expressed in the model; flags.Parse has no index arithmetic of its own (the `flag` package,
`regexp` and `shellquote` are assumed panic-free), so its model has no panic outcome at all.
-/
import LA.Proofs.Rule
import LA.Proofs.Auparse
import LA.Proofs.StateFacts

namespace LA.Rule
open LA
open LA.Auparse (Res slice slice_ok)

/-- Build never panics, for every Rule value and environment: the stores into the fixed 64-slot
arrays are guarded by the field-count check. -/
theorem C13_build_total (env : Env) (rule : Rule) : build env rule ≠ Res.panic := by
  unfold build
  cases ruleDataOf env rule with
  | none => simp
  | some r =>
    simp only
    unfold toWire
    split
    · simp
    · rename_i h
      have hc : r.trips.length ≤ 64 := by
        have : LA.Gen.RuleTables.maxFields = 64 := by decide
        simp only [RuleData.fields, List.length_map] at h
        omega
      simp [storeAll, RuleData.fields, RuleData.values, RuleData.fieldFlags, hc, bind, Bind.bind]

/-! ### decoding -/

theorem rd32_no_panic (b : Bytes) (off : Nat) (h : off + 4 ≤ b.length) : ∃ w, rd32 b off = Res.ok w := by
  unfold rd32
  rw [slice_ok (by omega)]
  have hl : ((List.drop ((off : Nat) : Int).toNat b).take (((off + 4 : Nat) : Int).toNat - ((off : Nat) : Int).toNat)).length = 4 := by
    simp only [Int.toNat_natCast, List.length_take, List.length_drop]; omega
  have e : ((off : Nat) : Int) + 4 = ((off + 4 : Nat) : Int) := by omega
  rw [e]
  generalize (List.drop ((off : Nat) : Int).toNat b).take (((off + 4 : Nat) : Int).toNat - ((off : Nat) : Int).toNat) = l at hl
  match l, hl with
  | [a, c, d, e], _ => exact ⟨_, rfl⟩

theorem rdWords_ok (b : Bytes) (off n : Nat) (h : off + 4 * n ≤ b.length) :
    ∃ ws, rdWords b off n = Res.ok ws ∧ ws.length = n := by
  induction n generalizing off with
  | zero => exact ⟨[], rfl, rfl⟩
  | succ n ih =>
    obtain ⟨w, hw⟩ := rd32_no_panic b off (by omega)
    obtain ⟨ws, hws, hl⟩ := ih (off + 4) (by omega)
    refine ⟨w :: ws, ?_, by simp [hl]⟩
    simp [rdWords, hw, hws, bind, Bind.bind]

/-- what fromWire guarantees about the record it returns. -/
structure ArdOk (a : Ard) : Prop where
  fields : a.fields.length = 64
  values : a.values.length = 64
  fieldFlags : a.fieldFlags.length = 64
  buf : a.buf.length = a.bufLen

theorem fromWire_spec (data : Bytes) :
    fromWire data = Res.err "err" ∨ ∃ a, fromWire data = Res.ok a ∧ ArdOk a ∧ headerSize + a.bufLen ≤ data.length := by
  unfold fromWire
  split
  · exact Or.inl rfl
  · rename_i hlen
    have hl : 1040 ≤ data.length := by simp only [headerSize] at hlen; omega
    obtain ⟨w0, h0⟩ := rd32_no_panic data 0 (by omega)
    obtain ⟨w4, h4⟩ := rd32_no_panic data 4 (by omega)
    obtain ⟨w8, h8⟩ := rd32_no_panic data 8 (by omega)
    obtain ⟨m, hm, _⟩ := rdWords_ok data 12 64 (by omega)
    obtain ⟨fs, hfs, lfs⟩ := rdWords_ok data 268 64 (by omega)
    obtain ⟨vs, hvs, lvs⟩ := rdWords_ok data 524 64 (by omega)
    obtain ⟨ffs, hffs, lffs⟩ := rdWords_ok data 780 64 (by omega)
    obtain ⟨bl, hbl⟩ := rd32_no_panic data 1036 (by omega)
    simp only [h0, h4, h8, hm, hfs, hvs, hffs, hbl, bind, Bind.bind]
    split
    · exact Or.inl rfl
    · rename_i hb
      have hb' : bl ≤ data.length - headerSize := by
        have := Nat.mod_le (data.length - headerSize) 4294967296
        omega
      right
      have hs : (0 : Int) ≤ (headerSize : Int) ∧ (headerSize : Int) ≤ ((headerSize + bl : Nat) : Int) ∧
          ((headerSize + bl : Nat) : Int) ≤ (data.length : Int) := by
        simp only [headerSize] at hb' ⊢; omega
      have e : (headerSize : Int) + (bl : Int) = ((headerSize + bl : Nat) : Int) := by omega
      rw [e, slice_ok hs]
      refine ⟨_, rfl, ⟨lfs, lvs, lffs, ?_⟩, ?_⟩
      · simp only [Int.toNat_natCast, List.length_take, List.length_drop]
        simp only [headerSize] at hb' ⊢; omega
      · simp only [headerSize] at hb' ⊢; omega

theorem decodeFields_no_panic (a : Ard) (ha : ArdOk a) (n i offset : Nat) (hi : i + n ≤ 64) (ho : offset ≤ a.bufLen) :
    decodeFields a n i offset ≠ Res.panic ∧
    ∀ fs vs ops ss, decodeFields a n i offset = Res.ok (fs, vs, ops, ss) → offset + (ss.map List.length).sum ≤ a.bufLen := by
  induction n generalizing i offset with
  | zero =>
    refine ⟨by simp [decodeFields], ?_⟩
    intro fs vs ops ss h
    simp only [decodeFields, Res.ok.injEq, Prod.mk.injEq] at h
    obtain ⟨_, _, _, rfl⟩ := h
    simpa using ho
  | succ n ih =>
    have hlt : i < 64 := by omega
    obtain ⟨f, hf⟩ : ∃ f, a.fields[i]? = some f := by
      have : i < a.fields.length := by rw [ha.fields]; exact hlt
      exact ⟨a.fields[i], by simp [this]⟩
    obtain ⟨op, hop⟩ : ∃ f, a.fieldFlags[i]? = some f := by
      have : i < a.fieldFlags.length := by rw [ha.fieldFlags]; exact hlt
      exact ⟨a.fieldFlags[i], by simp [this]⟩
    obtain ⟨v, hv⟩ : ∃ f, a.values[i]? = some f := by
      have : i < a.values.length := by rw [ha.values]; exact hlt
      exact ⟨a.values[i], by simp [this]⟩
    unfold decodeFields
    simp only [getAt, hf, hop, hv, bind, Bind.bind]
    by_cases hs : stringFields.contains f = true
    · simp only [hs, if_true]
      by_cases hover : v > a.bufLen - offset
      · simp [hover]
      · simp only [hover, if_false]
        have hsl : (0 : Int) ≤ (offset : Int) ∧ (offset : Int) ≤ ((offset + v : Nat) : Int) ∧ ((offset + v : Nat) : Int) ≤ (a.buf.length : Int) := by
          rw [ha.buf]; omega
        have e : (offset : Int) + (v : Int) = ((offset + v : Nat) : Int) := by omega
        rw [e, slice_ok hsl]
        have hslen : ((List.drop ((offset : Nat) : Int).toNat a.buf).take (((offset + v : Nat) : Int).toNat - ((offset : Nat) : Int).toNat)).length = v := by
          simp only [Int.toNat_natCast, List.length_take, List.length_drop, ha.buf]; omega
        obtain ⟨ih1, ih2⟩ := ih (i + 1) (offset + v) (by omega) (by omega)
        simp only
        cases hrec : decodeFields a n (i + 1) (offset + v) with
        | panic => exact absurd hrec ih1
        | err c => simp
        | ok q =>
          obtain ⟨fs, vs, ops, ss⟩ := q
          refine ⟨by simp, ?_⟩
          intro fs' vs' ops' ss' heq
          simp only [Res.ok.injEq, Prod.mk.injEq] at heq
          obtain ⟨_, _, _, rfl⟩ := heq
          have := ih2 fs vs ops ss hrec
          simp only [List.map_cons, List.sum_cons, hslen]
          omega
    · simp only [hs, Bool.false_eq_true, if_false]
      obtain ⟨ih1, ih2⟩ := ih (i + 1) offset (by omega) ho
      cases hrec : decodeFields a n (i + 1) offset with
      | panic => exact absurd hrec ih1
      | err c => simp
      | ok q =>
        obtain ⟨fs, vs, ops, ss⟩ := q
        refine ⟨by simp, ?_⟩
        intro fs' vs' ops' ss' heq
        simp only [Res.ok.injEq, Prod.mk.injEq] at heq
        obtain ⟨_, _, _, rfl⟩ := heq
        exact ih2 fs vs ops ss hrec

theorem fromArd_no_panic (a : Ard) (ha : ArdOk a) : fromArd a ≠ Res.panic := by
  unfold fromArd
  by_cases hfc : a.fieldCount > LA.Gen.RuleTables.maxFields
  · simp [hfc]
  · simp only [hfc, if_false]
    have hfc' : a.fieldCount ≤ 64 := by
      have : LA.Gen.RuleTables.maxFields = 64 := by decide
      omega
    obtain ⟨h1, _⟩ := decodeFields_no_panic a ha a.fieldCount 0 0 (by omega) (by omega)
    simp only [bind, Bind.bind]
    cases hd : decodeFields a a.fieldCount 0 0 with
    | panic => exact absurd hd h1
    | err c => simp
    | ok q => obtain ⟨fs, vs, ops, ss⟩ := q; simp

/-- ToCommandLine never panics, for every byte slice. -/
theorem C13_decode_total (wf : Bytes) : toCommandLine wf ≠ Res.panic := by
  unfold toCommandLine
  simp only [bind, Bind.bind]
  rcases fromWire_spec wf with h | ⟨a, h, ha, _⟩
  · simp [h]
  · simp only [h]
    cases hr : fromArd a with
    | panic => exact absurd hr (fromArd_no_panic a ha)
    | err c => simp
    | ok r => simp only; split <;> simp

/-- Whenever ToCommandLine succeeds, the bytes were a structurally valid rule: at least a full
header, field count within 64, buflen within the bytes after the header, and the string lengths
add up to at most buflen. -/
theorem C13_valid_when_ok (wf text : Bytes) (h : toCommandLine wf = Res.ok text) :
    ∃ a r, fromWire wf = Res.ok a ∧ fromArd a = Res.ok r ∧ headerSize ≤ wf.length ∧ a.fieldCount ≤ 64 ∧
      headerSize + a.bufLen ≤ wf.length ∧ (r.strings.map List.length).sum ≤ a.bufLen := by
  unfold toCommandLine at h
  simp only [bind, Bind.bind] at h
  rcases fromWire_spec wf with hw | ⟨a, hw, ha, hsz⟩
  · simp [hw] at h
  · simp only [hw] at h
    cases hr : fromArd a with
    | panic => simp [hr] at h
    | err c => simp [hr] at h
    | ok r =>
      have hfcle : a.fieldCount ≤ 64 := by
        unfold fromArd at hr
        by_cases hfc : a.fieldCount > LA.Gen.RuleTables.maxFields
        · simp [hfc] at hr
        · have : LA.Gen.RuleTables.maxFields = 64 := by decide
          omega
      refine ⟨a, r, hw, hr, by omega, hfcle, hsz, ?_⟩
      unfold fromArd at hr
      have hfc : ¬ a.fieldCount > LA.Gen.RuleTables.maxFields := by
        have : LA.Gen.RuleTables.maxFields = 64 := by decide
        omega
      simp only [hfc, if_false, bind, Bind.bind] at hr
      obtain ⟨_, h2⟩ := decodeFields_no_panic a ha a.fieldCount 0 0 (by omega) (by omega)
      cases hd : decodeFields a a.fieldCount 0 0 with
      | panic => simp [hd] at hr
      | err c => simp [hd] at hr
      | ok q =>
        obtain ⟨fs, vs, ops, ss⟩ := q
        simp only [hd, Res.ok.injEq] at hr
        subst hr
        have := h2 fs vs ops ss hd
        simpa using this

/-- non-vacuity: a hostile header (field_count 65) is an error, not a panic. -/
example : toCommandLine (le32 4 ++ le32 2 ++ le32 65 ++ List.replicate 1028 0) = Res.err "err" := by decide +kernel

end LA.Rule

/-! ### the code keeps nothing between calls that the model does not have -/

/-- Packages rule and rule/flags write package-level variables only in the five table builders, which nothing but `init`
mentions (regenerated list, see LA.Proofs.StateFacts): Parse, Build and ToCommandLine are functions of their arguments. -/
theorem C13_rule_packages_keep_nothing_between_calls : LA.StateFacts.ofPkg "rule" = LA.StateFacts.ruleTableBuilders ∧ LA.StateFacts.ofPkg "rule/flags" = [] := by decide

/-- What the rule packages read of the process they run in is what the model is given as `Env`: the file type of a
watched path (os.Stat) and the user and group databases; package flags reads nothing (`envReads`, regenerated with
go/types on every run: package-level functions of os, os/user, os/exec, net, runtime, math/rand, crypto/rand,
time.Now / Since / Until, file-system functions of path/filepath, process queries of syscall). -/
theorem C13_environment_is_stat_and_the_id_databases :
    LA.StateFacts.envOf "rule" = LA.StateFacts.ruleEnv ∧ LA.StateFacts.envOf "rule/flags" = [] := by decide
