/-
C02 — Reassembled events are delivered in ascending sequence order (roll-over aware).
Hypothesis `WinRun`: at every push, the buffered sequence numbers together with the new
one lie in one 2^24 window (the window may be a different one at every push, and may
straddle 2^32-1 → 0).
-/
import LA.Proofs.ReasmOrder
import LA.Gen.Consts
import LA.Proofs.StateFacts
import LA.Gen.ReasmFacts

namespace LA.Reasm

/-- the regenerated constant is the one the model uses. -/
theorem C02_const : LA.Gen.Consts.maxSortRange = maxSortRange ∧ maxSortRange = 2 ^ 24 - 1 := by decide

/-- in-window condition for one operation in state `s`. -/
def winOK (s : St) : Op → Prop
  | .push m _ _ => ∃ w, ∀ k ∈ m.seq :: keys s.buf, InWin w k
  | _ => True

/-- in-window condition for a whole history started in `s`. -/
def WinRun (s : St) : List Op → Prop
  | [] => True
  | op :: ops => winOK s op ∧ WinRun (step s op).1 ops

theorem sorted_put {s : St} (_hs : Inv s) (hsorted : SortedKeys (keys s.buf)) (m : Msg) (t : Int)
    (hw : ∃ w, ∀ k ∈ m.seq :: keys s.buf, InWin w k) : SortedKeys (keys (put s m t).buf) := by
  unfold put
  split
  · simpa using hsorted
  · split
    · simpa using hsorted
    · rename_i _ hk
      obtain ⟨w, hw⟩ := hw
      exact sorted_insertEnd (w := w) _ _ hw (fun h => hk ((hasKey_iff _ _).mpr h)) hsorted

theorem sorted_bufBeforeEvict {s : St} (hs : Inv s) (hsorted : SortedKeys (keys s.buf)) (op : Op)
    (hw : winOK s op) : SortedKeys (keys (bufBeforeEvict s op)) := by
  cases op with
  | push m tp tc => exact sorted_put hs hsorted m tp hw
  | pushNil => exact hsorted
  | maintain t => exact hsorted
  | close => exact hsorted

theorem evicted_append_remaining (s : St) (op : Op) :
    evictedBy s op ++ (step s op).1.buf = bufBeforeEvict s op := by
  cases op with
  | push m tp tc => simp [evictedBy, step, evictStep, bufBeforeEvict, cleanUp_append]
  | pushNil => simp [evictedBy, step, bufBeforeEvict]
  | maintain t =>
    simp only [evictedBy, step, bufBeforeEvict]
    split <;> simp [evictStep, cleanUp_append]
  | close =>
    simp only [evictedBy, step, bufBeforeEvict]
    split <;> simp [evictStep]

theorem sorted_step {s : St} (hs : Inv s) (hsorted : SortedKeys (keys s.buf)) (op : Op) (hw : winOK s op) :
    SortedKeys (keys (step s op).1.buf) := by
  have h := sorted_bufBeforeEvict hs hsorted op hw
  rw [← evicted_append_remaining s op] at h
  exact sortedKeys_sublist h (by simp [keys])

/-- In every reachable in-window state the buffer is sorted by the roll-over aware order
(so the head, the only event CleanUp ever evicts, is the lowest buffered sequence). -/
theorem C02_sorted_inv (maxSize timeout : Int) (ops : List Op) (hw : WinRun (init maxSize timeout) ops) :
    SortedKeys (keys (run (init maxSize timeout) ops).1.buf) := by
  suffices H : ∀ s, Inv s → SortedKeys (keys s.buf) → WinRun s ops → SortedKeys (keys (run s ops).1.buf) from
    H _ (inv_init _ _) (by simp [init, SortedKeys]) hw
  clear hw
  induction ops with
  | nil => intro s _ h _; exact h
  | cons op ops ih =>
    intro s hs hsorted hw
    exact ih _ (inv_step hs op) (sorted_step hs hsorted op hw.1) hw.2

/-- Delivery order. At every call of every in-window history, the events the call
delivers, in delivery order, followed by the events that stay buffered, form a list
sorted by the roll-over aware order: each delivered event is lower than every event
delivered after it in the same call and than every event still buffered. Hence an event
delivered later with a lower sequence cannot have been buffered at that moment: its first
record was pushed afterwards (a late arrival). Close is covered (it delivers the whole
buffer in this order). -/
theorem C02_order (maxSize timeout : Int) (pre : List Op) (op : Op) (post : List Op)
    (hw : WinRun (init maxSize timeout) (pre ++ op :: post)) :
    let s := (run (init maxSize timeout) pre).1
    SortedKeys (keys (evictedBy s op) ++ keys (step s op).1.buf) := by
  intro s
  suffices H : ∀ s0, Inv s0 → SortedKeys (keys s0.buf) → WinRun s0 (pre ++ op :: post) →
      SortedKeys (keys (evictedBy (run s0 pre).1 op) ++ keys (step (run s0 pre).1 op).1.buf) from
    H _ (inv_init _ _) (by simp [init, SortedKeys]) hw
  clear hw s
  induction pre with
  | nil =>
    intro s0 hs hsorted hw
    have h := sorted_bufBeforeEvict hs hsorted op hw.1
    rw [← evicted_append_remaining s0 op] at h
    simpa [keys, run] using h
  | cons o pre ih =>
    intro s0 hs hsorted hw
    exact ih _ (inv_step hs o) (sorted_step hs hsorted o hw.1) hw.2

/-- the roll-over aware order is asymmetric on all of ℕ (no window needed). -/
theorem less_asymm {a b : Nat} (h : less a b = true) : less b a = false := by
  unfold less maxSortRange at *
  by_cases hab : a ≤ b <;> by_cases hba : b ≤ a <;> simp only [hab, hba, if_true, if_false] at h ⊢ <;>
    split at h <;> split <;> simp only [decide_eq_true_eq, decide_eq_false_iff_not] at h ⊢ <;> omega

/-- Second clause of C02 at trace level (late arrival). In every in-window history, if some call
delivers an event with sequence number `a`, and a message `m` whose sequence number is ordered
before `a` is delivered by any later call, then `m` was pushed after the call that delivered `a`:
it was not buffered when `a` left, so the whole lower-numbered event is a late arrival. (Within
one call the delivered events are in ascending order by `C02_order`.) -/
theorem C02_late_arrival (maxSize timeout : Int) (pre : List Op) (op : Op) (post : List Op)
    (hw : WinRun (init maxSize timeout) (pre ++ op :: post))
    (a : Nat) (ha : a ∈ keys (evictedBy (run (init maxSize timeout) pre).1 op))
    (m : Msg) (hm : m ∈ delivered (run (step (run (init maxSize timeout) pre).1 op).1 post).2)
    (hlt : less m.seq a = true) :
    m ∈ pushed post := by
  have hord := C02_order maxSize timeout pre op post hw
  simp only at hord
  have hinv : Inv (step (run (init maxSize timeout) pre).1 op).1 := inv_step (inv_run (inv_init _ _) pre) op
  have hc := run_conserve (step (run (init maxSize timeout) pre).1 op).1 post
  have hmem : m ∈ pushed post ++ allMsgs (step (run (init maxSize timeout) pre).1 op).1.buf :=
    hc.subset (List.mem_append_left _ hm)
  rcases List.mem_append.mp hmem with h | h
  · exact h
  · exfalso
    obtain ⟨p, hp, hmp⟩ := List.mem_flatMap.mp h
    have hk : m.seq = p.1 := hinv.uniform p hp m hmp
    have hkm : m.seq ∈ keys (step (run (init maxSize timeout) pre).1 op).1.buf := by
      rw [hk]; exact List.mem_map.mpr ⟨p, hp, rfl⟩
    have := (List.pairwise_append.mp hord).2.2 a ha m.seq hkm
    rw [less_asymm this] at hlt
    cases hlt

/-- non-vacuity of `C02_late_arrival`: 7 leaves at the third push, 6 arrives late and is delivered
afterwards; all its hypotheses hold on this history. -/
example :
    let pre : List Op := [.push ⟨1, 5, 1300⟩ 0 0, .push ⟨2, 7, 1300⟩ 0 0]
    let op : Op := .push ⟨3, 8, 1300⟩ 0 0
    let post : List Op := [.push ⟨4, 6, 1300⟩ 0 0]
    WinRun (init 1 3600) (pre ++ op :: post) ∧
    7 ∈ keys (evictedBy (run (init 1 3600) pre).1 op) ∧
    (⟨4, 6, 1300⟩ : Msg) ∈ delivered (run (step (run (init 1 3600) pre).1 op).1 post).2 ∧
    less 6 7 = true := by
  refine ⟨⟨⟨0, ?_⟩, ⟨0, ?_⟩, ⟨0, ?_⟩, ⟨0, ?_⟩, trivial⟩, ?_, ?_, ?_⟩ <;> decide

/-- non-vacuity: a window straddling 2^32-1 → 0, with disorder and overflow. -/
example : WinRun (init 1 3600)
    [.push ⟨1, 4294967295, 1300⟩ 0 0, .push ⟨2, 1, 1300⟩ 0 0, .push ⟨3, 0, 1300⟩ 0 0, .close] := by
  refine ⟨⟨4294967290, ?_⟩, ⟨4294967290, ?_⟩, ⟨4294967290, ?_⟩, trivial, trivial⟩ <;> decide

end LA.Reasm

/-! ### the code keeps nothing between calls that the model does not have -/

/-- Outside `init`, no function of the root package writes a package-level variable, hands the address of one to a function or calls a
sync/atomic method on one (regenerated list, see LA.Proofs.StateFacts): all state is in the object the model is given. -/
theorem C02_state_is_in_the_object : LA.StateFacts.ofPkg "" = [] := by decide

/-- The model's message is the record as the Reassembler sees it — an identity, a sequence number and a record type —
and that is all the code looks at: in reassembler.go the only fields of `auparse.AuditMessage` selected are `RecordType`
and `Sequence`, and the only function outside the root package that is handed messages is the Stream's
`ReassemblyComplete` (`msgReads`, regenerated with go/types on every run). Grouping, order, completion, eviction and
loss accounting are therefore functions of (sequence, type) histories and of the clock, as in `Model.Reasm`; a
Reassembler that also consults a record's time stamp, text or parsed data — to guess at a restart of the kernel's
counter, to tell two events with one number apart — is outside that reading whatever it uses them for, and the
drivers' histories (which vary time stamps and bodies independently of the sequence numbers) search for the input on
which it shows. -/
theorem C02_reads_only_sequence_and_type :
    LA.Gen.ReasmFacts.msgReads = ["call:ReassemblyComplete", "field:RecordType", "field:Sequence"] := by decide

/-- What the root package reads of the process it runs in is the clock (the Reassembler's deadlines, which the model is
given as readings), the process id (an input of SetPID) and the page size (the default receive buffer): `envReads`,
regenerated with go/types on every run, lists the package-level functions of os, os/user, os/exec, net, runtime,
math/rand, crypto/rand that are called, time.Now / Since / Until, file-system functions of path/filepath and process
queries of syscall. Nothing else of the machine — processors, environment variables, files, random numbers — can
influence what the Reassembler or the client does. -/
theorem C02_environment_is_clock_pid_pagesize : LA.StateFacts.envOf "" = LA.StateFacts.rootEnv := by decide
