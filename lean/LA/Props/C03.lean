/-
C03 — EventsLost reports exactly the sequence numbers skipped between deliveries.

Independent specification (`specAdvance`): scan the deliveries keeping the last
in-order sequence L; a delivery s is in order iff L is unset or s lies after L in the
window; an in-order delivery contributes the number of sequence numbers strictly between
L and s; late or duplicate deliveries contribute nothing and do not move L.
-/
import LA.Proofs.ReasmOrder
import LA.Proofs.StateFacts
import LA.Gen.ReasmFacts

namespace LA.Reasm

/-- the specification of one accounting step, in terms of window positions only. -/
def specAdvance (w : Nat) (last : Option Nat) (s : Nat) : Option Nat × Nat :=
  match last with
  | none => (some s, 0)
  | some l => if wpos w l < wpos w s then (some s, wpos w s - wpos w l - 1) else (some l, 0)

def specAccount (w : Nat) (last : Option Nat) : List Nat → Option Nat × Nat
  | [] => (last, 0)
  | s :: rest =>
    let a := specAdvance w last s
    let r := specAccount w a.1 rest
    (r.1, a.2 + r.2)

theorem advance_eq_spec {w : Nat} {last : Option Nat} {s : Nat}
    (hl : ∀ l, last = some l → InWin w l) (hs : InWin w s) : advance last s = specAdvance w last s := by
  cases last with
  | none => rfl
  | some l =>
    have hlw := hl l rfl
    simp only [advance, specAdvance, less_window hlw hs, decide_eq_true_eq]
    split
    · rename_i h
      obtain ⟨hb, hl1, hl2⟩ := hlw
      obtain ⟨_, hs1, hs2⟩ := hs
      unfold wpos at *
      congr 1
      omega
    · rfl

/-- the model's accounting equals the specification on any list of in-window deliveries. -/
theorem C03_matches_spec {w : Nat} (last : Option Nat) (ds : List Nat)
    (hl : ∀ l, last = some l → InWin w l) (hd : ∀ s ∈ ds, InWin w s) :
    account last ds = specAccount w last ds := by
  induction ds generalizing last with
  | nil => rfl
  | cons s ds ih =>
    have hs := hd s (List.mem_cons_self ..)
    simp only [account, specAccount, advance_eq_spec hl hs]
    have hl' : ∀ l, (specAdvance w last s).1 = some l → InWin w l := by
      intro l h
      cases last with
      | none => simp [specAdvance] at h; exact h ▸ hs
      | some l0 =>
        simp only [specAdvance] at h
        split at h
        · simp at h; exact h ▸ hs
        · simp at h; exact h ▸ hl l0 rfl
    rw [ih _ hl' (fun s hs => hd s (List.mem_cons_of_mem _ hs))]

/-- sum of the counts passed to EventsLost by one call. -/
def lostOf (outs : List Out) : Nat :=
  (outs.map (fun o => match o with | .lost n => n | _ => 0)).sum

theorem lostOf_callback (ev : Buf) (n : Nat) : lostOf (callback ev n) = n := by
  unfold callback lostOf
  rw [List.map_append, List.sum_append]
  have h1 : ((ev.map (fun p => Out.group p.2.msgs)).map (fun o => match o with | .lost n => n | _ => 0)).sum = 0 := by
    induction ev with
    | nil => rfl
    | cons p ev ih => simpa using ih
  rw [h1]
  split <;> simp <;> omega

/-- Per call: what a call reports is the accounting of exactly the events that this call
delivers, starting from the last in-order delivery of earlier calls; it is reported in one
EventsLost callback placed after the call's groups, and only when positive. -/
theorem C03_per_call (s : St) (op : Op) :
    let a := account s.last (keys (evictedBy s op))
    (step s op).1.last = a.1 ∧
    lostOf (step s op).2 = a.2 ∧
    ((step s op).2 = [Out.err] ∨
     (step s op).2 = (evictedBy s op).map (fun p => Out.group p.2.msgs) ++ (if a.2 > 0 then [Out.lost a.2] else [])) := by
  cases op with
  | push m tp tc =>
    refine ⟨?_, ?_, Or.inr ?_⟩
    · simp [step, evictStep, evictedBy, keys]
    · simp [step, evictStep, evictedBy, lostOf_callback, keys]
    · simp [step, evictStep, evictedBy, keys, callback]
  | pushNil => simp [step, evictedBy, account, lostOf]
  | maintain t =>
    simp only [step, evictedBy]
    split
    · simp [account, lostOf]
    · refine ⟨?_, ?_, Or.inr ?_⟩
      · simp [evictStep, keys]
      · simp [evictStep, lostOf_callback, keys]
      · simp [evictStep, keys, callback]
  | close =>
    simp only [step, evictedBy]
    split
    · simp [account, lostOf]
    · refine ⟨?_, ?_, Or.inr ?_⟩
      · simp [evictStep, keys]
      · simp [evictStep, lostOf_callback, keys]
      · simp [evictStep, keys, callback]

/-- the sequence numbers delivered along a run, in delivery order. -/
def runKeys (s : St) : List Op → List Nat
  | [] => []
  | op :: ops => keys (evictedBy s op) ++ runKeys (step s op).1 ops

theorem account_append (last : Option Nat) (a b : List Nat) :
    account last (a ++ b) = ((account (account last a).1 b).1, (account last a).2 + (account (account last a).1 b).2) := by
  induction a generalizing last with
  | nil => simp [account]
  | cons x a ih => simp [account, ih, Nat.add_assoc]

/-- Over a whole history the reported counts sum to the accounting of all deliveries in
order (so every gap is reported, once, in the call that delivers the event after it). -/
theorem C03_run_total (s : St) (ops : List Op) :
    ((run s ops).2.map lostOf).sum = (account s.last (runKeys s ops)).2 ∧
    (run s ops).1.last = (account s.last (runKeys s ops)).1 := by
  induction ops generalizing s with
  | nil => simp [run, runKeys, account]
  | cons op ops ih =>
    have h := C03_per_call s op
    simp only at h
    simp only [run, runKeys, List.map_cons, List.sum_cons, account_append]
    rw [(ih _).1, (ih _).2, h.1, h.2.1]
    exact ⟨rfl, rfl⟩

/-- Every reported count is positive. -/
theorem C03_positive (maxSize timeout : Int) (ops : List Op) :
    ∀ outs ∈ (run (init maxSize timeout) ops).2, ∀ n, Out.lost n ∈ outs → n > 0 := by
  suffices H : ∀ s, ∀ outs ∈ (run s ops).2, ∀ n, Out.lost n ∈ outs → n > 0 from H _
  induction ops with
  | nil => intro s outs h; simp [run] at h
  | cons op ops ih =>
    intro s outs ho n hn
    simp only [run, List.mem_cons] at ho
    rcases ho with ho | ho
    · subst ho
      rcases (C03_per_call s op).2.2 with h | h
      · rw [h] at hn; simp at hn
      · rw [h] at hn
        rcases List.mem_append.mp hn with hn | hn
        · simp at hn
        · split at hn
          · simp at hn; omega
          · simp at hn
    · exact ih _ outs ho n hn

/-- Late or duplicate deliveries (not after the last in-order one) never add to the count
and do not move the reference point. -/
theorem C03_late_never_counts (l s : Nat) (h : less l s = false) : advance (some l) s = (some l, 0) := by
  simp [advance, h]

/-- In window terms: a delivery at or before the last in-order one contributes nothing. -/
theorem C03_late_spec (w l s : Nat) (h : wpos w s ≤ wpos w l) : specAdvance w (some l) s = (some l, 0) := by
  simp [specAdvance]; omega

/-- Closed form on in-window deliveries: the total equals the window distance covered by the
in-order deliveries minus the number of in-order deliveries, i.e. exactly the sequence
numbers skipped. A stream with no gaps (each in-order delivery one after the previous)
therefore reports nothing. -/
def inOrderCount (w : Nat) (l : Nat) : List Nat → Nat
  | [] => 0
  | s :: rest => if wpos w l < wpos w s then 1 + inOrderCount w s rest else inOrderCount w l rest

theorem C03_total (w l : Nat) (ds : List Nat) :
    ∃ l', (specAccount w (some l) ds).1 = some l' ∧ wpos w l ≤ wpos w l' ∧
      (specAccount w (some l) ds).2 + inOrderCount w l ds = wpos w l' - wpos w l := by
  induction ds generalizing l with
  | nil => exact ⟨l, rfl, Nat.le_refl _, by simp [specAccount, inOrderCount]⟩
  | cons s ds ih =>
    simp only [specAccount, specAdvance, inOrderCount]
    split
    · rename_i h
      obtain ⟨l', h1, h2, h3⟩ := ih s
      exact ⟨l', h1, by omega, by simp only; omega⟩
    · obtain ⟨l', h1, h2, h3⟩ := ih l
      exact ⟨l', h1, h2, by simp only; omega⟩

/-- No gap, no report: consecutive deliveries contribute zero. -/
theorem C03_no_gap_no_report (w l s : Nat) (h : wpos w s = wpos w l + 1) :
    specAdvance w (some l) s = (some s, 0) := by
  unfold specAdvance
  simp only
  rw [if_pos (by omega)]
  congr 1
  omega

/-- non-vacuity / regression witness: the history that the unfixed code got wrong
(late arrival after eviction) reports 5 for the gap and nothing for the late event. -/
example : (run (init 1 3600000000000)
    [.push ⟨1, 10, 1300⟩ 0 0, .push ⟨2, 16, 1300⟩ 0 0, .push ⟨3, 12, 1300⟩ 0 0, .push ⟨4, 17, 1300⟩ 0 0, .close]).2
    = [[], [.group [⟨1, 10, 1300⟩]], [.group [⟨3, 12, 1300⟩], .lost 1], [.group [⟨2, 16, 1300⟩], .lost 3], [.group [⟨4, 17, 1300⟩]]] := by
  decide

end LA.Reasm

/-! ### the code keeps nothing between calls that the model does not have -/

/-- Outside `init`, no function of the root package writes a package-level variable, hands the address of one to a function or calls a
sync/atomic method on one (regenerated list, see LA.Proofs.StateFacts): all state is in the object the model is given. -/
theorem C03_state_is_in_the_object : LA.StateFacts.ofPkg "" = [] := by decide

/-- No component of a Reassembler's state counts operations in fewer than 64 bits: no integer field of at most 32 bits,
anywhere below the struct, grows by a constant small step per delivery, per call or per Close (read off running
Reassemblers through reflection on every run, fields found by behaviour, not by name; harness/cmd/extract/reasmfacts.go).
The model's state has sequence numbers, a flag and sizes, no counters; a counter that wraps after 2^32 events (a few hours
of a busy host, far beyond any history a check can run) would make whatever is decided from it wrong from then on. -/
theorem C03_no_narrow_operation_counters : LA.Gen.ReasmFacts.narrowCounters = [] := by decide

/-- The model's message is the record as the Reassembler sees it — an identity, a sequence number and a record type —
and that is all the code looks at: in reassembler.go the only fields of `auparse.AuditMessage` selected are `RecordType`
and `Sequence`, and the only function outside the root package that is handed messages is the Stream's
`ReassemblyComplete` (`msgReads`, regenerated with go/types on every run). Grouping, order, completion, eviction and
loss accounting are therefore functions of (sequence, type) histories and of the clock, as in `Model.Reasm`; a
Reassembler that also consults a record's time stamp, text or parsed data — to guess at a restart of the kernel's
counter, to tell two events with one number apart — is outside that reading whatever it uses them for, and the
drivers' histories (which vary time stamps and bodies independently of the sequence numbers) search for the input on
which it shows. -/
theorem C03_reads_only_sequence_and_type :
    LA.Gen.ReasmFacts.msgReads = ["call:ReassemblyComplete", "field:RecordType", "field:Sequence"] := by decide

/-- What the root package reads of the process it runs in is the clock (the Reassembler's deadlines, which the model is
given as readings), the process id (an input of SetPID) and the page size (the default receive buffer): `envReads`,
regenerated with go/types on every run, lists the package-level functions of os, os/user, os/exec, net, runtime,
math/rand, crypto/rand that are called, time.Now / Since / Until, file-system functions of path/filepath and process
queries of syscall. Nothing else of the machine — processors, environment variables, files, random numbers — can
influence what the Reassembler or the client does. -/
theorem C03_environment_is_clock_pid_pagesize : LA.StateFacts.envOf "" = LA.StateFacts.rootEnv := by decide
