/-
C10 — Reassembler buffers at most maxInFlight events and evicts only for cause.
-/
import LA.Proofs.ReasmLife
import LA.Gen.ReasmFacts
import LA.Proofs.StateFacts

namespace LA.Reasm

theorem cleanUp_bound (now m : Int) (b : Buf) (hm : 0 ≤ m) : ((cleanUp now m b).2.length : Int) ≤ m := by
  induction b with
  | nil => simpa [cleanUp] using hm
  | cons p b ih =>
    obtain ⟨k, e⟩ := p
    unfold cleanUp
    split
    · exact ih
    · rename_i h
      simp only [evictable, Bool.or_eq_true, decide_eq_true_eq, not_or] at h
      simp only [List.length_cons]
      omega

/-- After any PushMessage or Maintain returns, at most maxInFlight events remain buffered. -/
theorem C10_bound (s : St) (op : Op) (hm : 0 ≤ s.maxSize)
    (hop : (∃ m tp tc, op = .push m tp tc) ∨ (∃ t, op = .maintain t ∧ s.closed = false)) :
    ((step s op).1.buf.length : Int) ≤ s.maxSize := by
  rcases hop with ⟨m, tp, tc, rfl⟩ | ⟨t, rfl, hc⟩
  · simpa [step, evictStep] using cleanUp_bound tc s.maxSize (put s m tp).buf hm
  · simpa [step, evictStep, hc] using cleanUp_bound t s.maxSize s.buf hm

/-- maxSize never changes, so the bound holds in every state reached through a push. -/
theorem C10_maxSize_const (s : St) (op : Op) : (step s op).1.maxSize = s.maxSize := by
  cases op with
  | push m tp tc => simp [step, evictStep]
  | pushNil => rfl
  | maintain t => simp only [step]; split <;> simp [evictStep]
  | close => simp only [step]; split <;> simp [evictStep]

theorem cleanUp_head (now m : Int) (b : Buf) :
    ∀ p, (cleanUp now m b).2.head? = some p →
      evictable now m (cleanUp now m b).2.length p.2 = false := by
  induction b with
  | nil => simp [cleanUp]
  | cons q b ih =>
    obtain ⟨k, e⟩ := q
    unfold cleanUp
    split
    · exact ih
    · rename_i h
      intro p hp
      simp at hp
      subst hp
      simpa using h

/-- After a push (or Maintain), the oldest buffered event is not complete (nor expired, nor
is the buffer over its bound). -/
theorem C10_head_incomplete (s : St) (m : Msg) (tp tc : Int) :
    ∀ p, (step s (.push m tp tc)).1.buf.head? = some p → p.2.complete = false := by
  intro p hp
  have := cleanUp_head tc s.maxSize (put s m tp).buf p (by simpa [step, evictStep] using hp)
  simp only [evictable, Bool.or_eq_false_iff] at this
  exact this.1.1

/-- predicate: every event in `ev` was evictable at the moment it was the head, when `n`
events were buffered. -/
def Caused (now m : Int) : Nat → Buf → Prop
  | _, [] => True
  | n, p :: rest => evictable now m n p.2 = true ∧ Caused now m (n - 1) rest

theorem cleanUp_caused (now m : Int) (b : Buf) : Caused now m b.length (cleanUp now m b).1 := by
  induction b with
  | nil => simp [cleanUp, Caused]
  | cons p b ih =>
    obtain ⟨k, e⟩ := p
    unfold cleanUp
    split
    · rename_i h
      exact ⟨by simpa using h, by simpa using ih⟩
    · simp [Caused]

/-- Outside Close an event is delivered only for cause: when it was evicted it was the head
and it was complete, or more than maxInFlight events were buffered, or its timeout had
elapsed. -/
theorem C10_cause (s : St) (op : Op) (hop : op ≠ .close) :
    ∃ now, Caused now s.maxSize (bufBeforeEvict s op).length (evictedBy s op) := by
  cases op with
  | push m tp tc => exact ⟨tc, by simpa [evictedBy, bufBeforeEvict] using cleanUp_caused tc s.maxSize (put s m tp).buf⟩
  | pushNil => exact ⟨0, by simp [evictedBy, Caused]⟩
  | maintain t =>
    refine ⟨t, ?_⟩
    simp only [evictedBy, bufBeforeEvict]
    split
    · simp [Caused]
    · exact cleanUp_caused t s.maxSize s.buf
  | close => exact absurd rfl hop

theorem mem_evicted_evictable {now M : Int} {b : Buf} {p : Nat × Ev} (h : p ∈ (cleanUp now M b).1) :
    ∃ n, n ≤ b.length ∧ evictable now M n p.2 = true := by
  induction b with
  | nil => simp [cleanUp] at h
  | cons q b ih =>
    obtain ⟨k, e⟩ := q
    unfold cleanUp at h
    split at h
    · rename_i hev
      simp only [List.mem_cons] at h
      rcases h with rfl | h
      · exact ⟨b.length + 1, by simp, hev⟩
      · obtain ⟨n, hn, he⟩ := ih h
        exact ⟨n, by simp; omega, he⟩
    · simp at h

/-- **An event is not delivered by the push that creates it, unless for cause.** A record of a non-terminating
type that opens a new event — no event with its sequence number is buffered — while the buffer stays within
maxInFlight, and whose push's clean-up reads the clock no later than timeout after its Put did (a call lasts far less
than any sensible timeout; with the two readings equal, any timeout ≥ 0 qualifies), is still buffered when the push
returns: nothing the call delivers is that event. The deadline of a new event is computed from a clock reading of
*this* push — not from one cached by an earlier call, however long ago that was. -/
theorem C10_new_event_survives_its_push (s : St) (m : Msg) (tp tc : Int)
    (hE : (m.typ == EOE) = false) (hc : completes m.typ = false) (hk : hasKey m.seq s.buf = false)
    (hsize : ((put s m tp).buf.length : Int) ≤ s.maxSize) (htime : tc ≤ tp + s.timeout) :
    (m.seq, ({ expire := tp + s.timeout, msgs := [m], complete := false } : Ev)) ∉ evictedBy s (.push m tp tc) ∧
    (m.seq, ({ expire := tp + s.timeout, msgs := [m], complete := false } : Ev)) ∈ (step s (.push m tp tc)).1.buf := by
  have hput : (m.seq, ({ expire := tp + s.timeout, msgs := [m], complete := false } : Ev)) ∈ (put s m tp).buf := by
    simp only [put, hE, hk, Bool.false_eq_true, if_false, hc]
    exact mem_insertEnd.mpr (Or.inl rfl)
  have hnot : (m.seq, ({ expire := tp + s.timeout, msgs := [m], complete := false } : Ev)) ∉
      (cleanUp tc (put s m tp).maxSize (put s m tp).buf).1 := by
    intro hmem
    obtain ⟨n, hn, he⟩ := mem_evicted_evictable hmem
    have hms : (put s m tp).maxSize = s.maxSize := by
      simp only [put]; split <;> (try split) <;> rfl
    simp only [evictable, Bool.false_or, Bool.or_eq_true, decide_eq_true_eq, hms] at he
    rcases he with he | he
    · have : (n : Int) ≤ ((put s m tp).buf.length : Int) := by exact_mod_cast hn
      omega
    · omega
  refine ⟨by simpa [evictedBy] using hnot, ?_⟩
  have happ := cleanUp_append tc (put s m tp).maxSize (put s m tp).buf
  have : (m.seq, ({ expire := tp + s.timeout, msgs := [m], complete := false } : Ev)) ∈
      (cleanUp tc (put s m tp).maxSize (put s m tp).buf).1 ++ (cleanUp tc (put s m tp).maxSize (put s m tp).buf).2 := by
    rw [happ]; exact hput
  rcases List.mem_append.mp this with h | h
  · exact absurd h hnot
  · simpa [step, evictStep] using h

/-- non-vacuity: a first record pushed a long time after the previous call (the clock at 10 000, timeout 100) -/
example : (run (init 5 100) [.push ⟨1, 7, 1300⟩ 0 0, .maintain 500, .push ⟨2, 9, 1300⟩ 10000 10000]).2 =
    [[], [.group [⟨1, 7, 1300⟩]], []] := by decide

/-- Completion only for cause: after `Put`, an event is complete only if it already was, or
the pushed record is a terminating one that joined it, or the pushed record is the EOE of
that (buffered) sequence. -/
theorem C10_complete_only_if (s : St) (m : Msg) (t : Int) :
    ∀ p ∈ (put s m t).buf, p.2.complete = true →
      (∃ p' ∈ s.buf, p'.1 = p.1 ∧ p'.2.complete = true) ∨
      (m.typ = EOE ∧ p.1 = m.seq) ∨
      (completes m.typ = true ∧ m ∈ p.2.msgs) := by
  intro p hp hc
  unfold put at hp
  split at hp
  · rename_i he
    obtain ⟨p', hp', h1, _, _, h2⟩ := mem_markComplete hp
    rcases h2 with h2 | ⟨h2, _⟩
    · exact Or.inl ⟨p', hp', h1, by rw [← h2]; exact hc⟩
    · exact Or.inr (Or.inl ⟨by simpa using he, h2⟩)
  · split at hp
    · obtain ⟨p', hp', h1, _, h2⟩ := mem_appendTo hp
      rcases h2 with ⟨_, h2⟩ | ⟨_, h3, h4⟩
      · exact Or.inl ⟨p', hp', h1, by rw [← h2]; exact hc⟩
      · rw [h4] at hc
        rcases Bool.or_eq_true_iff.mp hc with hc | hc
        · exact Or.inl ⟨p', hp', h1, hc⟩
        · exact Or.inr (Or.inr ⟨hc, by rw [h3]; simp⟩)
    · rcases mem_insertEnd.mp hp with hp | hp
      · subst hp
        exact Or.inr (Or.inr ⟨by simpa using hc, by simp⟩)
      · exact Or.inl ⟨p, hp, rfl, hc⟩

/-- … and conversely a terminating record completes its event, and an EOE completes the
buffered event of its sequence. -/
theorem C10_complete_if (s : St) (hs : Inv s) (m : Msg) (t : Int) :
    (m.typ ≠ EOE → completes m.typ = true → ∃ p ∈ (put s m t).buf, p.1 = m.seq ∧ m ∈ p.2.msgs ∧ p.2.complete = true) ∧
    (m.typ = EOE → ∀ p' ∈ s.buf, p'.1 = m.seq → ∃ p ∈ (put s m t).buf, p.1 = m.seq ∧ p.2.complete = true) := by
  constructor
  · intro hne hc
    have hne' : (m.typ == EOE) = false := by simpa using hne
    by_cases hk : hasKey m.seq s.buf = true
    · obtain ⟨p', hp', hk'⟩ : ∃ p' ∈ s.buf, p'.1 = m.seq := by
        have := (hasKey_iff _ _).mp hk
        obtain ⟨p', hp', h⟩ := List.mem_map.mp this
        exact ⟨p', hp', h⟩
      refine ⟨(p'.1, { p'.2 with msgs := p'.2.msgs ++ [m], complete := p'.2.complete || completes m.typ }), ?_, hk', by simp, by simp [hc]⟩
      simpa [put, hne', hk] using appendTo_mem hs.nodup hp' hk'
    · refine ⟨(m.seq, { expire := t + s.timeout, msgs := [m], complete := completes m.typ }), ?_, rfl, by simp, hc⟩
      simp only [put, hne', hk, Bool.false_eq_true, if_false]
      exact mem_insertEnd.mpr (Or.inl rfl)
  · intro he p' hp' hk
    have he' : (m.typ == EOE) = true := by simpa using he
    simp only [put, he', if_true]
    clear hs
    generalize s.buf = b0 at hp'
    induction b0 with
    | nil => simp at hp'
    | cons q b ih =>
      obtain ⟨k, e⟩ := q
      unfold markComplete
      split
      · rename_i hkk
        exact ⟨_, List.mem_cons_self .., by simpa using hkk, rfl⟩
      · rename_i hkk
        rcases List.mem_cons.mp hp' with h | h
        · subst h; exact absurd (by simpa using hk) hkk
        · obtain ⟨p, hp, h1, h2⟩ := ih h
          exact ⟨p, List.mem_cons_of_mem _ hp, h1, h2⟩

/-- Completion by record type, for the whole record-type domain. For every one of the 65536 record
types, the life cycle of a lone record in the model (delivered by its own push because the type
terminates an event; or buffered and delivered, alone, by its EOE; or not buffered at all, the EOE
type itself) is the one the running library shows through its public API: `Gen.ReasmFacts.lifeCycle`
is regenerated on every run by pushing each type into a fresh Reassembler. The table is checked
run by run (`runsOk`), not by enumeration. -/
theorem C10_lifecycle_table (t : Nat) (ht : t < 65536) :
    lookupLife LA.Gen.ReasmFacts.lifeCycle t = some (modelLife t) := by
  rw [modelLife_eq]
  exact runsOk_sound _ 0 (by decide +kernel) t (Nat.zero_le _) ht

/-- … and in closed form: terminating types are PROCTITLE, everything up to 1299 and everything
from 2100; only EOE (1320) is never buffered. -/
theorem C10_lifecycle_closed_form (t : Nat) :
    modelLife t = if t = 1320 then 2 else if t = 1327 ∨ t ≤ 1299 ∨ t ≥ 2100 then 0 else 1 := by
  rw [modelLife_eq, specLife_prop]

/-- non-vacuity: a state where the bound bites and the head stays incomplete. -/
example : (run (init 2 3600) [.push ⟨1, 5, 1300⟩ 0 0, .push ⟨2, 6, 1300⟩ 0 0, .push ⟨3, 7, 1300⟩ 0 0]).1.buf.length = 2 := by
  decide

end LA.Reasm

/-! ### the code keeps nothing between calls that the model does not have -/

/-- Outside `init`, no function of the root package writes a package-level variable, hands the address of one to a function or calls a
sync/atomic method on one (regenerated list, see LA.Proofs.StateFacts): all state is in the object the model is given. -/
theorem C10_state_is_in_the_object : LA.StateFacts.ofPkg "" = [] := by decide

/-- The constructor keeps the `maxInFlight` it is given as the size of the window, for every value of the ladder read
off the running library through reflection (regenerated, see harness/cmd/extract/reasmfacts.go): 0 … 2^20+1, with
the values around 2^16 and 2^17. The model's `new` stores its argument unchanged. -/
theorem C10_window_is_the_one_given : ∀ p ∈ LA.Gen.ReasmFacts.windowStored, p.2 = p.1 := by decide

/-- The third cause, "its timeout had elapsed", is decided on the clock the model assumes: a Reassembler that buffers
one event holds a non-zero `time.Time`, and every such value reachable from it carries a monotonic clock reading (read
off the running library through reflection on every run; see `C19_timeout_on_the_monotonic_clock`). A deadline kept as
a wall-clock number would deliver every buffered event, with none of the three causes, when the system clock is
stepped forward. -/
theorem C10_timeout_on_the_monotonic_clock :
    LA.Gen.ReasmFacts.deadlinesMonotonic ≠ [] ∧ LA.Gen.ReasmFacts.deadlinesMonotonic.all (· == true) = true ∧
    LA.Gen.ReasmFacts.clockStrips = [] := by decide

/-- The model's message is the record as the Reassembler sees it — an identity, a sequence number and a record type —
and that is all the code looks at: in reassembler.go the only fields of `auparse.AuditMessage` selected are `RecordType`
and `Sequence`, and the only function outside the root package that is handed messages is the Stream's
`ReassemblyComplete` (`msgReads`, regenerated with go/types on every run). Grouping, order, completion, eviction and
loss accounting are therefore functions of (sequence, type) histories and of the clock, as in `Model.Reasm`; a
Reassembler that also consults a record's time stamp, text or parsed data — to guess at a restart of the kernel's
counter, to tell two events with one number apart — is outside that reading whatever it uses them for, and the
drivers' histories (which vary time stamps and bodies independently of the sequence numbers) search for the input on
which it shows. -/
theorem C10_reads_only_sequence_and_type :
    LA.Gen.ReasmFacts.msgReads = ["call:ReassemblyComplete", "field:RecordType", "field:Sequence"] := by decide

/-- The deadlines are the only clock readings a Reassembler keeps: the Reassembler the fact above is read from buffers
exactly one event (one push, then a Maintain, so that whatever a clean-up pass might remember about when it ran has
been set), and exactly one non-zero `time.Time` is reachable from it. The model's state has one deadline per buffered
event and nothing else that depends on when something happened; a Reassembler that also remembers when it last
looked — to look less often, to batch, to rate-limit its callbacks — delivers a stale event later than the first call
after its timeout on histories whose calls are spaced just so, which a check finds only if its sleeps happen to
bracket the constant chosen. -/
theorem C10_the_deadlines_are_the_only_clock_state : LA.Gen.ReasmFacts.deadlinesMonotonic.length = 1 := by decide

/-- What the root package reads of the process it runs in is the clock (the Reassembler's deadlines, which the model is
given as readings), the process id (an input of SetPID) and the page size (the default receive buffer): `envReads`,
regenerated with go/types on every run, lists the package-level functions of os, os/user, os/exec, net, runtime,
math/rand, crypto/rand that are called, time.Now / Since / Until, file-system functions of path/filepath and process
queries of syscall. Nothing else of the machine — processors, environment variables, files, random numbers — can
influence what the Reassembler or the client does. -/
theorem C10_environment_is_clock_pid_pagesize : LA.StateFacts.envOf "" = LA.StateFacts.rootEnv := by decide
