/-
C16 — Audit status messages encode and decode per the kernel's audit_status layout.
Property theorems only; helper lemmas are in LA/Proofs/ClientCmd.lean and LA/Proofs/Uapi.lean.

`LA.Gen.ClientConsts` is regenerated from audit.go / netlink.go on every run (go/types constant
evaluation, types.Sizes for gc/amd64); `LA.Spec.Uapi` is the hand-written oracle.  Bytes sent are
decoded with the oracle's own decoder (`Uapi.decode`), not with the model's readers.

Not a theorem: that FromWireFormat never reads beyond `len(buf)`.  In the Go code that is the
semantics of the builtin `copy` (modelled by `copyInto`, which takes a prefix of the source list);
the monitor checks it by decoding buffers placed inside a sentinel-filled arena.
-/
import LA.Proofs.ClientCmd
import LA.Proofs.Uapi
import LA.Gen.ClientConsts
import LA.Gen.ClientFacts
import LA.Proofs.StateFacts

namespace LA.Client
open LA.Netlink LA.Spec

/-- The exported names carry the kernel's numbers; the Go struct has the kernel's layout
(field for field, by name, offset and size); the two size constants are 44 and 32; the constants
taken from auparse and syscall are the kernel's too.  Re-checked against the regenerated
`Gen.ClientConsts` on every run. -/
theorem C16_constants :
    (Gen.ClientConsts.AuditGet = Uapi.AUDIT_GET ∧ Gen.ClientConsts.AuditSet = Uapi.AUDIT_SET) ∧
    (Gen.ClientConsts.SilentOnFailure = Uapi.AUDIT_FAIL_SILENT ∧ Gen.ClientConsts.LogOnFailure = Uapi.AUDIT_FAIL_PRINTK ∧
     Gen.ClientConsts.PanicOnFailure = Uapi.AUDIT_FAIL_PANIC) ∧
    (Gen.ClientConsts.AuditStatusEnabled = Uapi.AUDIT_STATUS_ENABLED ∧
     Gen.ClientConsts.AuditStatusFailure = Uapi.AUDIT_STATUS_FAILURE ∧
     Gen.ClientConsts.AuditStatusPID = Uapi.AUDIT_STATUS_PID ∧
     Gen.ClientConsts.AuditStatusRateLimit = Uapi.AUDIT_STATUS_RATE_LIMIT ∧
     Gen.ClientConsts.AuditStatusBacklogLimit = Uapi.AUDIT_STATUS_BACKLOG_LIMIT ∧
     Gen.ClientConsts.AuditStatusBacklogWaitTime = Uapi.AUDIT_STATUS_BACKLOG_WAIT_TIME ∧
     Gen.ClientConsts.AuditStatusLost = Uapi.AUDIT_STATUS_LOST) ∧
    (Gen.ClientConsts.AuditFeatureBitmapBacklogLimit = Uapi.AUDIT_FEATURE_BITMAP_BACKLOG_LIMIT ∧
     Gen.ClientConsts.AuditFeatureBitmapBacklogWaitTime = Uapi.AUDIT_FEATURE_BITMAP_BACKLOG_WAIT_TIME ∧
     Gen.ClientConsts.AuditFeatureBitmapExecutablePath = Uapi.AUDIT_FEATURE_BITMAP_EXECUTABLE_PATH ∧
     Gen.ClientConsts.AuditFeatureBitmapExcludeExtend = Uapi.AUDIT_FEATURE_BITMAP_EXCLUDE_EXTEND ∧
     Gen.ClientConsts.AuditFeatureBitmapSessionIDFilter = Uapi.AUDIT_FEATURE_BITMAP_SESSIONID_FILTER ∧
     Gen.ClientConsts.AuditFeatureBitmapLostReset = Uapi.AUDIT_FEATURE_BITMAP_LOST_RESET) ∧
    (Gen.ClientConsts.AuditMessageMaxLength = Uapi.MAX_AUDIT_MESSAGE_LENGTH ∧
     Gen.ClientConsts.NetlinkGroupNone = Uapi.AUDIT_NLGRP_NONE ∧ Gen.ClientConsts.NetlinkGroupReadLog = Uapi.AUDIT_NLGRP_READLOG) ∧
    (Gen.ClientConsts.auditStatusFields.map (fun f => (Uapi.cName f.1, f.2.1, f.2.2)) = Uapi.auditStatus ∧
     Gen.ClientConsts.auditStatusSize = Uapi.sizeofAuditStatus ∧
     Gen.ClientConsts.sizeofAuditStatus = Uapi.sizeofAuditStatus ∧
     Gen.ClientConsts.MinSizeofAuditStatus = Uapi.sizeofAuditStatus_2_6_32) ∧
    (Gen.ClientConsts.AUDIT_ADD_RULE = Uapi.AUDIT_ADD_RULE ∧ Gen.ClientConsts.AUDIT_DEL_RULE = Uapi.AUDIT_DEL_RULE ∧
     Gen.ClientConsts.AUDIT_LIST_RULES = Uapi.AUDIT_LIST_RULES) ∧
    (Gen.ClientConsts.NLMSG_ERROR = Uapi.NLMSG_ERROR ∧ Gen.ClientConsts.NLMSG_DONE = Uapi.NLMSG_DONE ∧
     Gen.ClientConsts.NLM_F_REQUEST = Uapi.NLM_F_REQUEST ∧ Gen.ClientConsts.NLM_F_ACK = Uapi.NLM_F_ACK ∧
     Gen.ClientConsts.NLMSG_HDRLEN = Uapi.NLMSG_HDRLEN ∧ Gen.ClientConsts.SizeofNlMsghdr = Uapi.NLMSG_HDRLEN ∧
     Gen.ClientConsts.nlMsghdrFields.map (fun f => (Uapi.nlName f.1, f.2.1, f.2.2)) = Uapi.nlmsghdr ∧
     Gen.ClientConsts.nlMsghdrSize = Uapi.NLMSG_HDRLEN) := by
  decide

/-- the wait modes the models compare against are the library's -/
theorem C16_wait_modes : Gen.ClientConsts.WaitForReply = WaitForReply ∧ Gen.ClientConsts.NoWait = NoWait := by decide

/-- … and the hand-written models use the same numbers as the oracle -/
theorem C16_model_constants :
    (AuditGet = Uapi.AUDIT_GET ∧ AuditSet = Uapi.AUDIT_SET ∧ AUDIT_ADD_RULE = Uapi.AUDIT_ADD_RULE ∧
     AUDIT_DEL_RULE = Uapi.AUDIT_DEL_RULE ∧ AUDIT_LIST_RULES = Uapi.AUDIT_LIST_RULES) ∧
    (AuditStatusEnabled = Uapi.AUDIT_STATUS_ENABLED ∧ AuditStatusFailure = Uapi.AUDIT_STATUS_FAILURE ∧
     AuditStatusPID = Uapi.AUDIT_STATUS_PID ∧ AuditStatusRateLimit = Uapi.AUDIT_STATUS_RATE_LIMIT ∧
     AuditStatusBacklogLimit = Uapi.AUDIT_STATUS_BACKLOG_LIMIT ∧
     AuditStatusBacklogWaitTime = Uapi.AUDIT_STATUS_BACKLOG_WAIT_TIME ∧ AuditStatusLost = Uapi.AUDIT_STATUS_LOST) ∧
    (sizeofAuditStatus = Uapi.sizeofAuditStatus ∧ MinSizeofAuditStatus = Uapi.sizeofAuditStatus_2_6_32) ∧
    (Netlink.NLMSG_ERROR = Uapi.NLMSG_ERROR ∧ Netlink.NLMSG_DONE = Uapi.NLMSG_DONE ∧
     Netlink.NLM_F_REQUEST = Uapi.NLM_F_REQUEST ∧ Netlink.NLM_F_ACK = Uapi.NLM_F_ACK ∧
     Netlink.NLMSG_HDRLEN = Uapi.NLMSG_HDRLEN) := by
  decide

/-! ### what a status looks like on the wire -/

/-- the eleven fields as the kernel names them -/
def named (w : List Nat) : List (String × Nat) := (Uapi.auditStatus.map (·.1)).zip w

/-- every field fits a uint32 -/
def Status.WF (s : Status) : Prop := ∀ w ∈ s.words, w < 4294967296

/-- Layout: `toWireFormat` is 44 bytes; decoded at the kernel's offsets each field of the C struct
has the value of the Go field of the same name. -/
theorem C16_layout (s : Status) (hw : s.WF) :
    s.toWire.length = Uapi.sizeofAuditStatus ∧ Uapi.decode Uapi.auditStatus s.toWire = named s.words := by
  refine ⟨rfl, ?_⟩
  have h : ∀ w ∈ s.words, w % 4294967296 = w := fun w hm => Nat.mod_eq_of_lt (hw w hm)
  simp only [Status.words, List.mem_cons, List.not_mem_nil, or_false, forall_eq_or_imp, forall_eq] at h
  obtain ⟨h0, h1, h2, h3, h4, h5, h6, h7, h8, h9, h10⟩ := h
  simp only [Uapi.decode, Uapi.auditStatus, List.map_cons, List.map_nil, uapi_field4, named, Status.words,
    List.zip_cons_cons, List.zip_nil_right]
  have e : ∀ (a : Nat) (l r : Bytes), rd32 (l ++ (le32 a ++ r)) l.length = a % 4294967296 := by
    intro a l r
    have := rd32_append_right l (le32 a ++ r) 0
    rw [Nat.add_zero] at this
    rw [this, rd32_le32]
  simp only [Status.toWire, List.append_assoc]
  have e0 := e s.mask [] (le32 s.enabled ++ (le32 s.failure ++ (le32 s.pid ++ (le32 s.rateLimit ++ (le32 s.backlogLimit ++
    (le32 s.lost ++ (le32 s.backlog ++ (le32 s.featureBitmap ++ (le32 s.backlogWaitTime ++ le32 s.backlogWaitTimeActual)))))))))
  have e1 := e s.enabled (le32 s.mask) (le32 s.failure ++ (le32 s.pid ++ (le32 s.rateLimit ++ (le32 s.backlogLimit ++
    (le32 s.lost ++ (le32 s.backlog ++ (le32 s.featureBitmap ++ (le32 s.backlogWaitTime ++ le32 s.backlogWaitTimeActual))))))))
  have e2 := e s.failure (le32 s.mask ++ le32 s.enabled) (le32 s.pid ++ (le32 s.rateLimit ++ (le32 s.backlogLimit ++
    (le32 s.lost ++ (le32 s.backlog ++ (le32 s.featureBitmap ++ (le32 s.backlogWaitTime ++ le32 s.backlogWaitTimeActual)))))))
  have e3 := e s.pid (le32 s.mask ++ le32 s.enabled ++ le32 s.failure) (le32 s.rateLimit ++ (le32 s.backlogLimit ++
    (le32 s.lost ++ (le32 s.backlog ++ (le32 s.featureBitmap ++ (le32 s.backlogWaitTime ++ le32 s.backlogWaitTimeActual))))))
  have e4 := e s.rateLimit (le32 s.mask ++ le32 s.enabled ++ le32 s.failure ++ le32 s.pid) (le32 s.backlogLimit ++
    (le32 s.lost ++ (le32 s.backlog ++ (le32 s.featureBitmap ++ (le32 s.backlogWaitTime ++ le32 s.backlogWaitTimeActual)))))
  have e5 := e s.backlogLimit (le32 s.mask ++ le32 s.enabled ++ le32 s.failure ++ le32 s.pid ++ le32 s.rateLimit)
    (le32 s.lost ++ (le32 s.backlog ++ (le32 s.featureBitmap ++ (le32 s.backlogWaitTime ++ le32 s.backlogWaitTimeActual))))
  have e6 := e s.lost (le32 s.mask ++ le32 s.enabled ++ le32 s.failure ++ le32 s.pid ++ le32 s.rateLimit ++ le32 s.backlogLimit)
    (le32 s.backlog ++ (le32 s.featureBitmap ++ (le32 s.backlogWaitTime ++ le32 s.backlogWaitTimeActual)))
  have e7 := e s.backlog (le32 s.mask ++ le32 s.enabled ++ le32 s.failure ++ le32 s.pid ++ le32 s.rateLimit ++
    le32 s.backlogLimit ++ le32 s.lost) (le32 s.featureBitmap ++ (le32 s.backlogWaitTime ++ le32 s.backlogWaitTimeActual))
  have e8 := e s.featureBitmap (le32 s.mask ++ le32 s.enabled ++ le32 s.failure ++ le32 s.pid ++ le32 s.rateLimit ++
    le32 s.backlogLimit ++ le32 s.lost ++ le32 s.backlog) (le32 s.backlogWaitTime ++ le32 s.backlogWaitTimeActual)
  have e9 := e s.backlogWaitTime (le32 s.mask ++ le32 s.enabled ++ le32 s.failure ++ le32 s.pid ++ le32 s.rateLimit ++
    le32 s.backlogLimit ++ le32 s.lost ++ le32 s.backlog ++ le32 s.featureBitmap) (le32 s.backlogWaitTimeActual)
  have e10 := e s.backlogWaitTimeActual (le32 s.mask ++ le32 s.enabled ++ le32 s.failure ++ le32 s.pid ++ le32 s.rateLimit ++
    le32 s.backlogLimit ++ le32 s.lost ++ le32 s.backlog ++ le32 s.featureBitmap ++ le32 s.backlogWaitTime) []
  simp only [List.length_append, le32_length, List.length_nil, List.append_assoc, List.nil_append, List.append_nil,
    Nat.reduceAdd] at e0 e1 e2 e3 e4 e5 e6 e7 e8 e9 e10
  rw [e0, e1, e2, e3, e4, e5, e6, e7, e8, e9, e10, h0, h1, h2, h3, h4, h5, h6, h7, h8, h9, h10]

/-! ### the setters -/

/-- what one setter must put on the wire: one new message of type AUDIT_SET with flags
NLM_F_REQUEST|NLM_F_ACK whose payload is a full audit_status with `mask` and the field `name`
set to `val`, every other field 0 -/
def SendsStatus (before after : List Sent) (fields : List (String × Nat)) : Prop :=
  ∃ m, after = before ++ [m] ∧ m.typ = Uapi.AUDIT_SET ∧ m.flags = Uapi.NLM_F_REQUEST + Uapi.NLM_F_ACK ∧
    m.data.length = Uapi.sizeofAuditStatus ∧ Uapi.decode Uapi.auditStatus m.data = fields

theorem set_sends (s : St) (st : Status) (mode : Nat) (hw : st.WF) :
    SendsStatus s.sent (set s st mode).1.sent (named st.words) :=
  ⟨_, set_sent s st mode, rfl, rfl, rfl, (C16_layout st hw).2⟩

theorem u32OfInt_lt (w : Int) : u32OfInt w < 4294967296 := by
  unfold u32OfInt; omega

/-- Every Set* command — for every argument value of its Go type, in either wait mode (any `wm`),
whatever the kernel then answers — sends exactly one AUDIT_SET request with REQUEST|ACK whose
payload is a full-size audit_status carrying exactly that setting's mask bit and the requested
value in its field, all other fields zero.  (`pid` is what os.Getpid() returned.) -/
theorem C16_setters (s : St) (wm : Nat) (v : Nat) (hv : v < 4294967296) (e : Bool) (w : Int) :
    SendsStatus s.sent (setPID s v wm).1.sent
      [("mask", Uapi.AUDIT_STATUS_PID), ("enabled", 0), ("failure", 0), ("pid", v), ("rate_limit", 0), ("backlog_limit", 0),
       ("lost", 0), ("backlog", 0), ("feature_bitmap", 0), ("backlog_wait_time", 0), ("backlog_wait_time_actual", 0)] ∧
    SendsStatus s.sent (setRateLimit s v wm).1.sent
      [("mask", Uapi.AUDIT_STATUS_RATE_LIMIT), ("enabled", 0), ("failure", 0), ("pid", 0), ("rate_limit", v), ("backlog_limit", 0),
       ("lost", 0), ("backlog", 0), ("feature_bitmap", 0), ("backlog_wait_time", 0), ("backlog_wait_time_actual", 0)] ∧
    SendsStatus s.sent (setBacklogLimit s v wm).1.sent
      [("mask", Uapi.AUDIT_STATUS_BACKLOG_LIMIT), ("enabled", 0), ("failure", 0), ("pid", 0), ("rate_limit", 0), ("backlog_limit", v),
       ("lost", 0), ("backlog", 0), ("feature_bitmap", 0), ("backlog_wait_time", 0), ("backlog_wait_time_actual", 0)] ∧
    SendsStatus s.sent (setEnabled s e wm).1.sent
      [("mask", Uapi.AUDIT_STATUS_ENABLED), ("enabled", if e then 1 else 0), ("failure", 0), ("pid", 0), ("rate_limit", 0),
       ("backlog_limit", 0), ("lost", 0), ("backlog", 0), ("feature_bitmap", 0), ("backlog_wait_time", 0),
       ("backlog_wait_time_actual", 0)] ∧
    SendsStatus s.sent (setImmutable s wm).1.sent
      [("mask", Uapi.AUDIT_STATUS_ENABLED), ("enabled", 2), ("failure", 0), ("pid", 0), ("rate_limit", 0), ("backlog_limit", 0),
       ("lost", 0), ("backlog", 0), ("feature_bitmap", 0), ("backlog_wait_time", 0), ("backlog_wait_time_actual", 0)] ∧
    SendsStatus s.sent (setFailure s v wm).1.sent
      [("mask", Uapi.AUDIT_STATUS_FAILURE), ("enabled", 0), ("failure", v), ("pid", 0), ("rate_limit", 0), ("backlog_limit", 0),
       ("lost", 0), ("backlog", 0), ("feature_bitmap", 0), ("backlog_wait_time", 0), ("backlog_wait_time_actual", 0)] ∧
    SendsStatus s.sent (setBacklogWaitTime s w wm).1.sent
      [("mask", Uapi.AUDIT_STATUS_BACKLOG_WAIT_TIME), ("enabled", 0), ("failure", 0), ("pid", 0), ("rate_limit", 0),
       ("backlog_limit", 0), ("lost", 0), ("backlog", 0), ("feature_bitmap", 0), ("backlog_wait_time", (w % 4294967296).toNat),
       ("backlog_wait_time_actual", 0)] := by
  have wf : ∀ (st : Status), (∀ x ∈ st.words, x = 0 ∨ x < 4294967296) → st.WF := by
    intro st h x hx; rcases h x hx with h | h <;> omega
  refine ⟨?_, ?_, ?_, ?_, ?_, ?_, ?_⟩
  · exact set_sends { s with clearPID := true } { mask := AuditStatusPID, pid := v } wm (wf _ (by simp [Status.words, AuditStatusPID]; omega))
  · exact set_sends s { mask := AuditStatusRateLimit, rateLimit := v } wm (wf _ (by simp [Status.words, AuditStatusRateLimit]; omega))
  · exact set_sends s { mask := AuditStatusBacklogLimit, backlogLimit := v } wm (wf _ (by simp [Status.words, AuditStatusBacklogLimit]; omega))
  · exact set_sends s { mask := AuditStatusEnabled, enabled := if e then 1 else 0 } wm
      (wf _ (by cases e <;> simp [Status.words, AuditStatusEnabled]))
  · exact set_sends s { mask := AuditStatusEnabled, enabled := 2 } wm (wf _ (by simp [Status.words, AuditStatusEnabled]))
  · exact set_sends s { mask := AuditStatusFailure, failure := v } wm (wf _ (by simp [Status.words, AuditStatusFailure]; omega))
  · exact set_sends s { mask := AuditStatusBacklogWaitTime, backlogWaitTime := u32OfInt w } wm
      (wf _ (by have := u32OfInt_lt w; simp [Status.words, AuditStatusBacklogWaitTime]; omega))

/-- for an int32 argument the field holds its two's-complement reading: -1 ↦ 0xFFFFFFFF -/
example : u32OfInt (-1) = 4294967295 ∧ u32OfInt (-2147483648) = 2147483648 ∧ u32OfInt 2147483647 = 2147483647 := by decide

/-- non-vacuity: SetFailure(PanicOnFailure) in NoWait mode on a fresh client -/
example : (setFailure (St.init 0 64 true) Uapi.AUDIT_FAIL_PANIC NoWait).1.sent =
    [⟨1001, 5, 1, [2,0,0,0, 0,0,0,0, 2,0,0,0, 0,0,0,0, 0,0,0,0, 0,0,0,0, 0,0,0,0, 0,0,0,0, 0,0,0,0, 0,0,0,0, 0,0,0,0]⟩] := by
  decide

/-- GetStatus / GetStatusAsync send AUDIT_GET with an empty payload; NLM_F_ACK is set exactly when
an acknowledgement is required (GetStatus always requires it). -/
theorem C16_get (s : St) (requireACK : Bool) :
    (getStatusAsync s requireACK).1.sent =
      s.sent ++ [⟨Uapi.AUDIT_GET, if requireACK then Uapi.NLM_F_REQUEST + Uapi.NLM_F_ACK else Uapi.NLM_F_REQUEST,
                  (s.seq + 1) % 4294967296, []⟩] ∧
    (getStatusAsync s requireACK).2.1 = (s.seq + 1) % 4294967296 ∧
    (getStatus s).1.sent = s.sent ++ [⟨Uapi.AUDIT_GET, Uapi.NLM_F_REQUEST + Uapi.NLM_F_ACK, (s.seq + 1) % 4294967296, []⟩] := by
  refine ⟨by cases requireACK <;> rfl, rfl, ?_⟩
  have hs : (getStatusAsync s true).1.sent =
      s.sent ++ [⟨Uapi.AUDIT_GET, Uapi.NLM_F_REQUEST + Uapi.NLM_F_ACK, (s.seq + 1) % 4294967296, []⟩] := rfl
  unfold getStatus
  cases hsend : getStatusAsync s true with
  | mk s1 x =>
    cases x with
    | mk q ok =>
      rw [hsend] at hs
      simp only at hs
      cases ok with
      | false => exact hs
      | true =>
        simp only
        have hf := getReply_frame q s1
        cases hg : getReply q s1 with
        | mk s2 r =>
          rw [hg] at hf
          cases r with
          | error e => exact hf.sent.trans hs
          | ok ack =>
            simp only
            cases checkAck ack with
            | some e => exact hf.sent.trans hs
            | none =>
              simp only
              have hf2 := getReply_frame q s2
              cases hg2 : getReply q s2 with
              | mk s3 r2 =>
                rw [hg2] at hf2
                cases r2 with
                | error e => exact hf2.sent.trans (hf.sent.trans hs)
                | ok reply =>
                  simp only
                  split
                  · exact hf2.sent.trans (hf.sent.trans hs)
                  · split <;> exact hf2.sent.trans (hf.sent.trans hs)

/-! ### FromWireFormat -/

/-- FromWireFormat by length.  Fewer than 32 bytes: io.ErrUnexpectedEOF.  Otherwise success, and
the receiver's memory image is the buffer's first 44 bytes followed by zeros up to 44 — so byte
`i` of the struct is `buf[i]` for `i < min(len, 44)` and 0 beyond, whatever the receiver held
before; decoded at the kernel's offsets, each field is the little-endian word of that image.

PARTIAL: the property's clause "never reads outside the buffer" is not part of this theorem.  In the
Go code it is the semantics of the builtin `copy` (never more than `len(src)` bytes), which `copyInto`
models by taking a prefix of the source list; the monitor checks it on the real code by decoding
buffers that sit inside a sentinel-filled arena. -/
theorem C16_from_wire_partial (recv : Status) (buf : Bytes) :
    (buf.length < Uapi.sizeofAuditStatus_2_6_32 → fromWire recv buf = none) ∧
    (Uapi.sizeofAuditStatus_2_6_32 ≤ buf.length →
      ∃ st, fromWire recv buf = some st ∧
        st.toWire = buf.take 44 ++ List.replicate (44 - buf.length) 0 ∧
        named st.words = Uapi.decode Uapi.auditStatus (buf.take 44 ++ List.replicate (44 - buf.length) 0)) := by
  simp only [Uapi.sizeofAuditStatus_2_6_32]
  refine ⟨fun h => ?_, fun h => ?_⟩
  · simp [fromWire, fromWireBytes_eq, h]
  · have hn : ¬ buf.length < 32 := by omega
    have hl : (buf.take 44 ++ List.replicate (44 - buf.length) (0 : UInt8)).length = 44 := by
      simp only [List.length_append, List.length_take, List.length_replicate]; omega
    refine ⟨Status.ofBytes (buf.take 44 ++ List.replicate (44 - buf.length) 0), ?_, ?_, ?_⟩
    · simp [fromWire, fromWireBytes_eq, hn]
    · rw [toWire_ofBytes _ (by omega), List.take_of_length_le (by omega)]
    · simp only [named, Status.words, Status.ofBytes, Uapi.decode, Uapi.auditStatus, List.map_cons, List.map_nil,
        uapi_field4, List.zip_cons_cons, List.zip_nil_right]

/-- trailing bytes are ignored, and the receiver's previous content never shows -/
theorem C16_from_wire_trailing (recv recv' : Status) (buf extra : Bytes) (h : 44 ≤ buf.length) :
    fromWire recv (buf ++ extra) = fromWire recv' buf := by
  have h1 : ¬ (buf ++ extra).length < 32 := by simp; omega
  have h2 : ¬ buf.length < 32 := by omega
  have e1 : 44 - (buf ++ extra).length = 0 := by simp; omega
  have e2 : 44 - buf.length = 0 := by omega
  simp only [fromWire, fromWireBytes_eq, h1, h2, if_false, e1, e2, List.replicate_zero, List.append_nil]
  rw [List.take_append_of_le_length h]

theorem C16_from_wire_receiver_irrelevant (recv recv' : Status) (buf : Bytes) : fromWire recv buf = fromWire recv' buf := by
  simp only [fromWire, fromWireBytes_eq]

/-- non-vacuity: a 2.6.32 reply (32 bytes) into a dirty receiver leaves the last three fields 0 -/
example : fromWire { featureBitmap := 7, backlogWaitTime := 8, backlogWaitTimeActual := 9 }
      (List.replicate 32 1) =
    some { mask := 16843009, enabled := 16843009, failure := 16843009, pid := 16843009, rateLimit := 16843009,
           backlogLimit := 16843009, lost := 16843009, backlog := 16843009 } := by
  decide

/-- the receiver used by the translator's probe: all eleven fields 0xAAAAAAAA -/
def probeRecv : Status :=
  { mask := 2863311530, enabled := 2863311530, failure := 2863311530, pid := 2863311530, rateLimit := 2863311530,
    backlogLimit := 2863311530, lost := 2863311530, backlog := 2863311530, featureBitmap := 2863311530,
    backlogWaitTime := 2863311530, backlogWaitTimeActual := 2863311530 }

/-- FromWireFormat as a function of the buffer length, tied to the running library for every length
0..80 (below, between and above the two size thresholds, lengths that end inside a field
included): `Gen.ClientFacts.fromWireByLength` is regenerated on every run by decoding a buffer of
that many 0x55 bytes into a receiver full of 0xAA, so each byte of the result says whether it was
copied, zeroed or left over; the model's `fromWire` yields the same error / the same eleven words
for every length in the table. (For arbitrary contents see `C16_from_wire_partial`,
`C16_from_wire_trailing`, `C16_from_wire_receiver_irrelevant`.) -/
theorem C16_from_wire_by_length :
    (LA.Gen.ClientFacts.fromWireByLength.map (·.1) = List.range 81) ∧
    ∀ e ∈ LA.Gen.ClientFacts.fromWireByLength,
      (fromWire probeRecv (List.replicate e.1 (85 : UInt8))).map Status.words = e.2 := by
  decide +kernel

end LA.Client

/-! ### the code keeps nothing between calls that the model does not have -/

/-- Outside `init`, no function of the root package writes a package-level variable, hands the address of one to a function or calls a
sync/atomic method on one (regenerated list, see LA.Proofs.StateFacts): all state is in the object the model is given. -/
theorem C16_state_is_in_the_object : LA.StateFacts.ofPkg "" = [] := by decide

/-- What the root package reads of the process it runs in is the clock (the Reassembler's deadlines, which the model is
given as readings), the process id (an input of SetPID) and the page size (the default receive buffer): `envReads`,
regenerated with go/types on every run, lists the package-level functions of os, os/user, os/exec, net, runtime,
math/rand, crypto/rand that are called, time.Now / Since / Until, file-system functions of path/filepath and process
queries of syscall. Nothing else of the machine — processors, environment variables, files, random numbers — can
influence what the Reassembler or the client does. -/
theorem C16_environment_is_clock_pid_pagesize : LA.StateFacts.envOf "" = LA.StateFacts.rootEnv := by decide
