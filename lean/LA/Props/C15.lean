/-
C15 — Coalescing is repeatable, leaves its inputs intact and isolates events.

Theorems about the heap layer `LA.Coalesce.coalesceH` / `resolveH` (Model/CoalesceHeap.lean)
over the pure model `coalesce` (Model/Coalesce.lean), for every table set `T`, every heap that
satisfies `HeapWF` (the table slices are readable and have `cap = len` — a fact about the
regenerated tables, discharged for them by `C15_tables_full`), every list of message ids.
What is *not* expressed here: data-race freedom of the Go runtime (the harness's concurrent
runs under the race detector carry that part) — hence `C15_cache_atomic` assumes that one
`stringCache.lookup` is one atomic step (its mutex).
Helper lemmas are in LA/Proofs/CoalesceHeap.lean.
-/
import LA.Proofs.CoalesceLink
import LA.Proofs.CoalesceOrder
import LA.Proofs.StateFacts

namespace LA.Coalesce

/-! ### data obligations on the regenerated tables -/

/-- every ECS category/type slice the YAML decoder produced is full (`cap = len`), so
`append` in `applyNormalization` can never write into a table's backing array. -/
theorem C15_tables_full :
    ∀ n ∈ genTables.norms, n.catCap = n.ecsCategory.length ∧ n.typCap = n.ecsType.length := by
  decide +kernel

/-- no `object_path_index` is negative, so `event.Paths[pathIndex]` is always in range. -/
theorem C15_path_index_nonneg : ∀ n ∈ genTables.norms, 0 ≤ n.objectPathIndex := by
  decide +kernel

/-- the heap after package `init` is well formed. -/
theorem C15_init_wf : HeapWF (Heap.init genTables) := init_wf genTables C15_tables_full

/-! ### frame -/

/-- **Frame.**  `CoalesceMessages` writes nothing that existed before the call except empty
message caches, which it fills with that message's own parse result: every message keeps its
header and parse result and its cache is unchanged or goes from empty to the parse result; no
existing backing array (normalisation tables, slices held by earlier events) is written —
arrays are only added; the table slice headers are unchanged; the heap stays well formed. -/
theorem C15_frame (T : Tables) (h : Heap) (hw : HeapWF h) (ids : List Nat) :
    (coalesceH T h ids).1.msgs.length = h.msgs.length ∧
    (∀ (i : Nat) (c : MsgCell), h.msgs[i]? = some c →
      ∃ c', (coalesceH T h ids).1.msgs[i]? = some c' ∧ CellStep c c') ∧
    (∃ extra, (coalesceH T h ids).1.arrs = h.arrs ++ extra) ∧
    (coalesceH T h ids).1.catSlices = h.catSlices ∧ (coalesceH T h ids).1.typSlices = h.typSlices ∧
    HeapWF (coalesceH T h ids).1 := by
  have hf := coalesceH_hframe T h hw ids
  exact ⟨hf.len, hf.cells, hf.arrs, hf.cat, hf.typ, hw.mono hf⟩

/-- **Inputs intact.**  What every message reports (`Data()`, `Tags()`; `ToMapStr` is a
function of these and the immutable header) is the same after the call as before. -/
theorem C15_inputs_intact (T : Tables) (h : Heap) (hw : HeapWF h) (ids : List Nat) (i : Nat) :
    obsAt (coalesceH T h ids).1 i = obsAt h i ∧ viewAt (coalesceH T h ids).1 i = viewAt h i :=
  ⟨(coalesceH_hframe T h hw ids).obs_eq i, (coalesceH_hframe T h hw ids).view_eq i⟩

/-- `EventValid h eh` (Proofs/CoalesceHeap.lean), spelled out: both slices of the event can be
read in `h` — they are empty or their backing array exists.  True of every event `coalesceH`
returned (`C15_returned_valid`) and kept by later calls (`C15_isolation`). -/
theorem C15_event_valid_iff (h : Heap) (eh : EventH) :
    EventValid h eh ↔ ((eh.cat.len = 0 ∨ eh.cat.cell < h.arrs.length) ∧
                       (eh.typ.len = 0 ∨ eh.typ.cell < h.arrs.length)) := Iff.rfl

/-- **Isolation.**  An event returned earlier reads exactly the same after any later
`CoalesceMessages` call (on the same or on other messages), and stays readable. -/
theorem C15_isolation (T : Tables) (h : Heap) (hw : HeapWF h) (ids : List Nat) (eh : EventH)
    (hv : EventValid h eh) :
    deref (coalesceH T h ids).1 eh = deref h eh ∧ EventValid (coalesceH T h ids).1 eh :=
  ⟨deref_frame (coalesceH_hframe T h hw ids) hv,
   hv.1.mono (coalesceH_hframe T h hw ids), hv.2.mono (coalesceH_hframe T h hw ids)⟩

/-- the event a call returns is readable in the heap the call leaves. -/
theorem C15_returned_valid (T : Tables) (h : Heap) (hw : HeapWF h) (ids : List Nat) (eh : EventH)
    (hr : (coalesceH T h ids).2 = .ok eh) : EventValid (coalesceH T h ids).1 eh := by
  have hs := ecsSlices_spec _ (fill_wf hw (touched (kept ids (ids.map (viewAt h)))))
    (normChoice T (ids.map (viewAt h)))
  unfold coalesceH at hr ⊢
  simp only at hr ⊢
  split at hr
  · cases hr
    exact ⟨hs.2.1, hs.2.2.1⟩
  · cases hr
  · cases hr

/-- `ResolveIDsFromCaches` takes and returns the one event: it keeps every reference the
event holds and has no access to the heap, to other events or to messages. -/
theorem C15_resolve_frame (L : Lookups) (eh : EventH) :
    (resolveH L eh).pathRefs = eh.pathRefs ∧ (resolveH L eh).tagRef = eh.tagRef ∧
    (resolveH L eh).cat = eh.cat ∧ (resolveH L eh).typ = eh.typ ∧
    (resolveH L eh).core = resolveIDs L eh.core ∧
    (∀ h, EventValid h eh → EventValid h (resolveH L eh)) :=
  ⟨rfl, rfl, rfl, rfl, rfl, fun _ hv => hv⟩

/-! ### the heap model agrees with the pure model -/

/-- reading a table slice of the initial heap gives the normalisation's values. -/
theorem C15_init_tables_ok : TablesOK genTables (Heap.init genTables) := init_tables_ok genTables

/-- the two heap invariants hold along every history: they hold initially (`C15_init_wf`,
`C15_init_tables_ok`) and are kept by creating messages and by `CoalesceMessages`
(`ResolveIDs` does not touch the heap). -/
theorem C15_invariants (T : Tables) (h : Heap) (hw : HeapWF h) (hok : TablesOK T h) :
    (∀ ids, HeapWF (coalesceH T h ids).1 ∧ TablesOK T (coalesceH T h ids).1) ∧
    (∀ v, HeapWF (h.newMsg v).1 ∧ TablesOK T (h.newMsg v).1) :=
  ⟨fun ids => ⟨hw.mono (coalesceH_hframe T h hw ids), hok.mono (coalesceH_hframe T h hw ids) hw⟩,
   fun v => ⟨newMsg_wf hw v, fun i => hok i⟩⟩

/-- **The event `coalesceH` returns, read through the heap it leaves, is exactly the event
the pure model `coalesce` (the subject of the C09 theorems) computes from what the messages
report** — or the same error.  So the references an event holds (message maps in `Paths`, the
`Tags` slice, table-backed `Category`/`Type` slices) read as the plain values. -/
theorem C15_deref_pure (T : Tables) (h : Heap) (hw : HeapWF h) (hok : TablesOK T h) (ids : List Nat) :
    derefO (coalesceH T h ids).1 (coalesceH T h ids).2 = coalesce T (ids.map (viewAt h)) :=
  coalesceH_deref T h hw hok ids

/-! ### repeatable -/

/-- **Repeatable.**  Coalescing the same messages again, in the heap the first call left
(caches now filled, arrays possibly added), yields an event that reads exactly as the first
one does — or the same error. -/
theorem C15_repeatable (T : Tables) (h : Heap) (hw : HeapWF h) (ids : List Nat) :
    derefO (coalesceH T (coalesceH T h ids).1 ids).1 (coalesceH T (coalesceH T h ids).1 ids).2 =
    derefO (coalesceH T h ids).1 (coalesceH T h ids).2 := by
  have hf1 := coalesceH_hframe T h hw ids
  have hw' : HeapWF (coalesceH T h ids).1 := hw.mono hf1
  have hf2 := coalesceH_hframe T (coalesceH T h ids).1 hw' ids
  have hviews : ids.map (viewAt (coalesceH T h ids).1) = ids.map (viewAt h) :=
    List.map_congr_left (fun i _ => hf1.view_eq i)
  -- name the pieces of the first run
  generalize hh' : (coalesceH T h ids).1 = h' at hf1 hw' hf2 hviews
  have hfill1 := fill_hframe (touched (kept ids (ids.map (viewAt h)))) h
  have hwfill1 := fill_wf hw (touched (kept ids (ids.map (viewAt h))))
  have hs1 := ecsSlices_spec _ hwfill1 (normChoice T (ids.map (viewAt h)))
  have hfill2 := fill_hframe (touched (kept ids (ids.map (viewAt h)))) h'
  have hwfill2 := fill_wf hw' (touched (kept ids (ids.map (viewAt h))))
  have hs2 := ecsSlices_spec _ hwfill2 (normChoice T (ids.map (viewAt h)))
  have hh1 : (ecsSlices (fill h (touched (kept ids (ids.map (viewAt h))))) (normChoice T (ids.map (viewAt h)))).1 = h' := by
    rw [← hh']; unfold coalesceH; simp only; split <;> rfl
  -- from the filled heap of run 1 to the filled heap of run 2
  have hmid : HFrame (fill h (touched (kept ids (ids.map (viewAt h))))) (fill h' (touched (kept ids (ids.map (viewAt h))))) := by
    have := hs1.1
    rw [hh1] at this
    exact this.trans hfill2
  have hfin : HFrame h' (ecsSlices (fill h' (touched (kept ids (ids.map (viewAt h))))) (normChoice T (ids.map (viewAt h)))).1 :=
    hfill2.trans hs2.1
  unfold coalesceH
  simp only [hviews]
  rw [hh1]
  cases hco : coalesce T (ids.map (viewAt h)) with
  | err x => rfl
  | panic => rfl
  | ok e =>
    simp only [derefO]
    congr 1
    refine deref_congr ?_ ?_ ?_ ?_ ?_
    · rfl
    · apply List.map_congr_left
      intro i _
      rw [hfin.obs_eq i]
    · show tagsRead _ (tagRefOf _) = tagsRead h' (tagRefOf _)
      unfold tagsRead
      cases tagRefOf (kept ids (ids.map (viewAt h))) with
      | none => rfl
      | some i => simp only; rw [hfin.obs_eq]
    · show readSlice _ (ecsSlices _ _).2.1 = readSlice h' (ecsSlices _ _).2.1
      rw [hs2.2.2.2.1, catValue_frame hmid hwfill1]
      have := hs1.2.2.2.1
      rw [hh1] at this
      exact this.symm
    · show readSlice _ (ecsSlices _ _).2.2 = readSlice h' (ecsSlices _ _).2.2
      rw [hs2.2.2.2.2, typValue_frame hmid hwfill1]
      have := hs1.2.2.2.2
      rw [hh1] at this
      exact this.symm

/-! ### no panic -/

/-- **No panic.**  For any table set without negative path indexes (true of the regenerated
tables: `C15_path_index_nonneg`) `CoalesceMessages` returns an event or an error for every
list of message views, well-formed or not — it never reaches the one indexing expression
that could be out of range. -/
theorem C15_no_panic (T : Tables) (hT : ∀ n ∈ T.norms, 0 ≤ n.objectPathIndex) (views : List View) :
    coalesce T views ≠ .panic := by
  intro h
  unfold coalesce at h
  cases ha : assemble T views with
  | err x => rw [ha] at h; cases h
  | panic =>
    unfold assemble at ha
    split at ha
    · cases ha
    · cases ha
    · split at ha <;> cases ha
  | ok e0 =>
    rw [ha] at h
    simp only at h
    cases hn : applyNorm T e0 with
    | ok e1 => rw [hn] at h; cases h
    | err x => rw [hn] at h; cases h
    | panic =>
      unfold applyNorm at hn
      simp only at hn
      split at hn
      · cases hn
      · rename_i ni _
        split at hn
        · cases hn
        · cases hn
        · rename_i hso
          unfold setObject at hso
          split at hso
          · split at hso
            · cases hso
            · rename_i hpaths
              split at hso
              · rename_i hsel
                exact selectPath_some _ _ hpaths (normAt_nonneg T hT ni) hsel
              · cases hso
          · split at hso <;> cases hso

theorem C15_no_panic_heap (T : Tables) (hT : ∀ n ∈ T.norms, 0 ≤ n.objectPathIndex) (h : Heap) (ids : List Nat) :
    (coalesceH T h ids).2 ≠ .panic := by
  intro hp
  have := C15_no_panic T hT (ids.map (viewAt h))
  unfold coalesceH at hp
  simp only at hp
  split at hp
  · cases hp
  · cases hp
  · rename_i hc; exact this hc

/-! ### the ID caches -/

/-- **Cache lookups are atomic and answer from the user database alone.**  Given that one
`stringCache.lookup` is one atomic step (it holds the mutex from the first read to the
write), every interleaving of lookups from any number of goroutines is a sequence of such
steps; for every such sequence, every clock and every expiry setting, each lookup returns
what `lookupFn` (with the hard-coded entries) answers for its key — independent of which
other events were resolved before or in between — and the cache stays consistent. -/
theorem C15_cache_atomic (f : Bytes → Bytes) (exp : Int) (c : Cache) (hc : Cache.Consistent f c)
    (sched : List (Bytes × Int × Int)) :
    (Cache.run f exp c sched).2 = sched.map (fun s => cacheLookup f s.1) ∧
    Cache.Consistent f (Cache.run f exp c sched).1 := by
  induction sched generalizing c with
  | nil => exact ⟨rfl, hc⟩
  | cons s rest ih =>
    obtain ⟨k, t1, t2⟩ := s
    have h1 := Cache.lookup_spec f exp c hc k t1 t2
    have h2 := ih (Cache.lookup f exp c k t1 t2).1 h1.2
    simp only [Cache.run, List.map_cons]
    exact ⟨by rw [h1.1, h2.1], h2.2⟩

/-! ### Go's map iteration order

`CoalesceMessages` ranges over the messages' `Data()` maps; Go visits map entries in a
different order on every call, so "coalescing again yields an equal event" needs the loops to
be insensitive to that order.  The model folds over association lists; a Go map in two
iteration orders is a list `d` and a permutation `d'` of it (keys distinct). -/

/-- the loop of `newEvent` (User.IDs, User.SELinux, Data are maps: equal as lookup functions;
every other field is not touched by the loop at all). -/
theorem C15_order_newEvent (d d' : KV) (hp : d.Perm d') (hn : NoDupKeys d) (e : Event) (k : Bytes) :
    lookup k (d'.foldl distribute e).ids = lookup k (d.foldl distribute e).ids ∧
    lookup k (d'.foldl distribute e).data = lookup k (d.foldl distribute e).data ∧
    lookup k (d'.foldl distribute e).selinux = lookup k (d.foldl distribute e).selinux ∧
    (d'.foldl distribute e).result = (d.foldl distribute e).result ∧
    (d'.foldl distribute e).session = (d.foldl distribute e).session ∧
    (d'.foldl distribute e).warnings = (d.foldl distribute e).warnings := by
  have hn' := hn.perm hp
  have ho := foldl_distribute_other d e
  have ho' := foldl_distribute_other d' e
  refine ⟨?_, ?_, ?_, by rw [ho.1, ho'.1], by rw [ho.2.1, ho'.2.1],
    by rw [ho.2.2.2.2.2.2.2.2.2.1, ho'.2.2.2.2.2.2.2.2.2.1]⟩
  · rw [foldl_distribute_ids d hn, foldl_distribute_ids d' hn', lookup_perm hp hn]
  · rw [foldl_distribute_data d hn, foldl_distribute_data d' hn', lookup_perm hp hn]
  · -- a label k is written only for the record key "subj_" ++ k
    have hpre : hasPrefix kSubj_ (kSubj_ ++ k) = true := by
      unfold hasPrefix
      exact List.isPrefixOf_iff_prefix.mpr (List.prefix_append _ _)
    have hdrop : (kSubj_ ++ k).drop 5 = k := by simp [kSubj_]
    have h1 := foldl_distribute_selinux d hn e (kSubj_ ++ k) hpre
    have h2 := foldl_distribute_selinux d' hn' e (kSubj_ ++ k) hpre
    rw [hdrop] at h1 h2
    rw [h1, h2, lookup_perm hp hn]

/-- the loops of `addFieldsToEventData` and `addSockaddrRecord` (first value of a key kept,
later ones warned about): Data and Warnings are the same up to order. -/
theorem C15_order_addFields (typ : Nat) (d d' : KV) (hp : d.Perm d') (hn : NoDupKeys d) (e : Event) :
    ((d'.foldl (addField typ) e).data).Perm ((d.foldl (addField typ) e).data) ∧
    ((d'.foldl (addField typ) e).warnings).Perm ((d.foldl (addField typ) e).warnings) := by
  have h1 := foldl_addField_closed typ d hn e
  have h2 := foldl_addField_closed typ d' (hn.perm hp) e
  rw [h1.1, h1.2, h2.1, h2.2]
  exact ⟨List.Perm.append_left _ (hp.symm.filter _), List.Perm.append_left _ ((hp.symm.filter _).map _)⟩

/-! ### non-vacuity, and what the `cap = len` hypothesis excludes -/

/-- two normalisations reachable for one record type's events, as in C15's seeded YAML change:
entry 0 (record type 1700) has a category slice with spare capacity. -/
def spareT : Tables :=
  { norms := [{ (default : Norm) with ecsCategory := [b! "intrusion"], catCap := 2 },
              { (default : Norm) with ecsCategory := [b! "process"], catCap := 1 },
              { (default : Norm) with ecsCategory := [b! "network"], catCap := 1 }],
    syscalls := [(b! "ioctl", 1), (b! "sendmsg", 2)], recordTypes := [(1700, [0])],
    ranges := [], defaultCat := 0 }

/-- the same tables with full slices. -/
def fullT : Tables :=
  { spareT with norms := [{ (default : Norm) with ecsCategory := [b! "intrusion"], catCap := 1 },
              { (default : Norm) with ecsCategory := [b! "process"], catCap := 1 },
              { (default : Norm) with ecsCategory := [b! "network"], catCap := 1 }] }

def anom : View := { typ := 1700, seq := 1, ts := 1, tags := [], data := some [(b! "dev", b! "eth0")] }
def sysIoctl : View := { typ := 1300, seq := 1, ts := 1, tags := [], data := some [(kSyscall, b! "ioctl")] }
def sysSendmsg : View := { typ := 1300, seq := 2, ts := 2, tags := [], data := some [(kSyscall, b! "sendmsg")] }

def poolHeap (T : Tables) : Heap :=
  ((((Heap.init T).newMsg anom).1.newMsg sysIoctl).1.newMsg anom).1.newMsg sysSendmsg |>.1

/-- `HeapWF` holds of the initial heap of full tables (and of the regenerated ones: `C15_init_wf`). -/
example : HeapWF (poolHeap fullT) :=
  newMsg_wf (newMsg_wf (newMsg_wf (newMsg_wf (init_wf fullT (by decide +kernel)) _) _) _) _

/-- a run on it: two events held at once read `[intrusion, process]` and `[intrusion, network]`,
the first still reads the same after the second call, caches were filled. -/
example :
    (let r1 := coalesceH fullT (poolHeap fullT) [0, 1]
     let r2 := coalesceH fullT r1.1 [2, 3]
     match r1.2, r2.2 with
     | .ok e1, .ok e2 =>
       decide ((deref r1.1 e1).ecsCategory = [b! "intrusion", b! "process"]) &&
       decide ((deref r2.1 e2).ecsCategory = [b! "intrusion", b! "network"]) &&
       decide (deref r2.1 e1 = deref r1.1 e1) &&
       decide (r2.1.msgs.all (fun c => c.cache.isSome))
     | _, _ => false) = true := by decide +kernel

/-- Without `cap = len` the frame fails, and the model shows how: with one spare slot in the
table's category array, `append` writes the syscall category in place, both events alias that
array, and the second call rewrites what the first event reads. -/
example :
    (let r1 := coalesceH spareT (poolHeap spareT) [0, 1]
     let r2 := coalesceH spareT r1.1 [2, 3]
     match r1.2 with
     | .ok e1 =>
       decide ((deref r1.1 e1).ecsCategory = [b! "intrusion", b! "process"]) &&
       decide ((deref r2.1 e1).ecsCategory = [b! "intrusion", b! "network"])
     | _ => false) = true := by decide +kernel

/-- a consistent cache and a schedule with an expired entry, a hit and a miss. -/
example :
    (Cache.run (fun k => if k = b! "0" then b! "root" else []) 60 [(b! "0", ⟨5, b! "root"⟩)]
      [(b! "0", 10, 11), (b! "0", 12, 13), (b! "7", 14, 15), (vUnset, 16, 17)]).2 =
    [b! "root", b! "root", [], []] := by decide +kernel

end LA.Coalesce

/-! ### the code keeps nothing between calls that the model does not have -/

/-- Package aucoalesce keeps nothing between calls except the two id caches used by `ResolveIDs`, and package auparse
nothing at all (regenerated list, see LA.Proofs.StateFacts): `CoalesceMessages` is a function of its argument. -/
theorem C15_coalescer_keeps_nothing_between_calls : LA.StateFacts.ofPkg "aucoalesce" = LA.StateFacts.coalesceIdCaches ∧ LA.StateFacts.ofPkg "auparse" = [] := by decide

/-- What package aucoalesce reads of the process it runs in is the user and group databases and the clock of the id
caches — both only under ResolveIDs — and package auparse reads nothing (`envReads`, regenerated with go/types on every
run). CoalesceMessages is a function of the messages and the tables. -/
theorem C15_environment_is_the_id_databases :
    LA.StateFacts.envOf "aucoalesce" = LA.StateFacts.coalesceEnv ∧ LA.StateFacts.envOf "auparse" = [] := by decide
