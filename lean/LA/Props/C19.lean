/-
C19 — Stale events are flushed after their timeout and everything is flushed by Close.
The several time.Now() reads inside one call are collapsed to one instant per call.
-/
import LA.Props.C10
import LA.Props.C03
import LA.Proofs.StateFacts
import LA.Proofs.ReasmDeadline
import LA.Gen.ReasmFacts

namespace LA.Reasm

/-- `NewReassembler`: a nil Stream is rejected. -/
def newReassembler (hasStream : Bool) (maxSize timeout : Int) : Option St :=
  if hasStream then some (init maxSize timeout) else none

theorem C19_nil_stream (maxSize timeout : Int) : newReassembler false maxSize timeout = none := rfl

/-- An expired event is delivered by the first Maintain or push after its timeout elapsed, as
soon as it is the oldest buffered event: after the call's CleanUp, the head of the buffer is
never an event whose timeout has elapsed. -/
theorem C19_expired_head_goes (s : St) (op : Op) (now : Int)
    (hop : (∃ m tp, op = .push m tp now) ∨ (op = .maintain now ∧ s.closed = false)) :
    ∀ p, (step s op).1.buf.head? = some p → ¬ (now > p.2.expire) := by
  intro p hp
  have key : ∀ b, (step s op).1.buf = (cleanUp now s.maxSize b).2 →
      evictable now s.maxSize (cleanUp now s.maxSize b).2.length p.2 = false := by
    intro b hb; exact cleanUp_head now s.maxSize b p (hb ▸ hp)
  rcases hop with ⟨m, tp, rfl⟩ | ⟨rfl, hc⟩
  · have := key (put s m tp).buf (by simp [step, evictStep])
    simp only [evictable, Bool.or_eq_false_iff, decide_eq_false_iff_not] at this
    exact this.2
  · have := key s.buf (by simp [step, evictStep, hc])
    simp only [evictable, Bool.or_eq_false_iff, decide_eq_false_iff_not] at this
    exact this.2

/-- … and never on account of time before that: an incomplete event evicted by a push or
Maintain while no more than maxInFlight events were buffered had its timeout elapsed.
(`Caused` unfolds to: complete ∨ size > maxInFlight ∨ now > expire, for each evicted event at
the moment it was the head.) -/
theorem C19_not_before (now m : Int) (n : Nat) (p : Nat × Ev) (rest : Buf)
    (h : Caused now m n (p :: rest)) (hinc : p.2.complete = false) (hsize : ¬ ((n : Int) > m)) :
    now > p.2.expire := by
  have := h.1
  simp only [evictable, hinc, Bool.false_or, Bool.or_eq_true, decide_eq_true_eq] at this
  rcases this with h1 | h1
  · exact absurd h1 hsize
  · exact h1

/-- the expiry deadline of an event is fixed when its first record is buffered (timeout after
that push's clock read) and never changes afterwards. -/
theorem C19_deadline_fixed (s : St) (m : Msg) (t : Int) :
    ∀ p ∈ (put s m t).buf, (∃ p' ∈ s.buf, p'.1 = p.1 ∧ p'.2.expire = p.2.expire) ∨
      (p.1 = m.seq ∧ p.2.expire = t + s.timeout ∧ hasKey m.seq s.buf = false) := by
  intro p hp
  unfold put at hp
  split at hp
  · obtain ⟨p', hp', h1, _, h2, _⟩ := mem_markComplete hp
    exact Or.inl ⟨p', hp', h1, h2⟩
  · split at hp
    · obtain ⟨p', hp', h1, h2, _⟩ := mem_appendTo hp
      exact Or.inl ⟨p', hp', h1, h2⟩
    · rename_i hk
      rcases mem_insertEnd.mp hp with hp | hp
      · subst hp; exact Or.inr ⟨rfl, rfl, by simpa using hk⟩
      · exact Or.inl ⟨p, hp, rfl, rfl⟩

/-- **The timeout runs from the first record, whatever arrives later.** After any history on a fresh
Reassembler, the deadline of every buffered event is the clock reading of the push that buffered the
event's *first* record plus the configured timeout: later records of the event, EOE markers, Maintain
calls and pushes of other events never move it. -/
theorem C19_deadline_from_first_record (maxSize timeout : Int) (ops : List Op) :
    ∀ p ∈ (run (init maxSize timeout) ops).1.buf,
      ∃ m tp tc, Op.push m tp tc ∈ ops ∧ p.2.msgs.head? = some m ∧ p.2.expire = tp + timeout := by
  have := dl_run (T := timeout) ops [] (init maxSize timeout) rfl (fun p hp => by simp [init] at hp)
  simpa [DeadlineFromFirstPush] using this

/-- non-vacuity: an event of three records pushed at 10, 60 and 90 with timeout 100 expires at 110. -/
example : ((run (init 5 100) [.push ⟨1, 7, 1300⟩ 10 10, .push ⟨2, 7, 1307⟩ 60 60, .push ⟨3, 7, 1302⟩ 90 90]).1.buf.map (·.2.expire)) = [110] := by decide

/-- Close delivers every buffered event once, in buffer order, with loss accounting, and
leaves nothing buffered. -/
theorem C19_close_flushes (s : St) (hc : s.closed = false) :
    (step s .close).1.buf = [] ∧ (step s .close).1.closed = true ∧
    groupLists (step s .close).2 = s.buf.map (·.2.msgs) ∧
    lostOf (step s .close).2 = (account s.last (keys s.buf)).2 := by
  refine ⟨by simp [step, hc, evictStep], by simp [step, hc, evictStep], ?_, ?_⟩
  · rw [groupLists_step]; simp [evictedBy, hc]
  · have := (C03_per_call s .close).2.1
    simpa [evictedBy, hc] using this

/-- Once closed, Maintain and Close return an error, deliver nothing and change nothing; and a
closed Reassembler stays closed whatever is called. -/
theorem C19_after_close (s : St) (hc : s.closed = true) :
    step s .close = (s, [Out.err]) ∧ (∀ t, step s (.maintain t) = (s, [Out.err])) ∧
    ∀ op, (step s op).1.closed = true := by
  refine ⟨by simp [step, hc], fun t => by simp [step, hc], fun op => ?_⟩
  cases op with
  | push m tp tc => simp [step, evictStep, hc]
  | pushNil => exact hc
  | maintain t => simp [step, hc]
  | close => simp [step, hc]

/-- non-vacuity: with an elapsed timeout the event leaves at the next Maintain, not before. -/
example : (run (init 5 100) [.push ⟨1, 7, 1300⟩ 0 50, .maintain 100, .maintain 101]).2
    = [[], [], [.group [⟨1, 7, 1300⟩]]] := by decide

end LA.Reasm

/-! ### the code keeps nothing between calls that the model does not have -/

/-- Outside `init`, no function of the root package writes a package-level variable, hands the address of one to a function or calls a
sync/atomic method on one (regenerated list, see LA.Proofs.StateFacts): all state is in the object the model is given. -/
theorem C19_state_is_in_the_object : LA.StateFacts.ofPkg "" = [] := by decide

/-- The time-out is measured on the clock the model assumes: there is a non-zero `time.Time` reachable from a Reassembler
that buffers one event, and every such value (read off the running library through reflection on every run, whatever the fields are called;
see harness/cmd/extract/reasmfacts.go) carries a monotonic clock reading, so a step of the wall clock between arrival
and the next call neither delays nor hastens a delivery. A deadline that went through `UTC()`, `Round`, `Truncate` or
an integer is a wall-clock reading: no history this harness can produce distinguishes it (stepping the system clock
is not something a check may do), which is why it is an obligation. The third conjunct covers the other side of the comparison: reassembler.go calls no
method on a `time.Time` that strips the reading or turns the time into a number (`clockStrips`, regenerated with
go/types), so the value the deadline is compared with carries it too. -/
theorem C19_timeout_on_the_monotonic_clock :
    LA.Gen.ReasmFacts.deadlinesMonotonic ≠ [] ∧ LA.Gen.ReasmFacts.deadlinesMonotonic.all (· == true) = true ∧
    LA.Gen.ReasmFacts.clockStrips = [] := by decide

/-- The model's message is the record as the Reassembler sees it — an identity, a sequence number and a record type —
and that is all the code looks at: in reassembler.go the only fields of `auparse.AuditMessage` selected are `RecordType`
and `Sequence`, and the only function outside the root package that is handed messages is the Stream's
`ReassemblyComplete` (`msgReads`, regenerated with go/types on every run). Grouping, order, completion, eviction and
loss accounting are therefore functions of (sequence, type) histories and of the clock, as in `Model.Reasm`; a
Reassembler that also consults a record's time stamp, text or parsed data — to guess at a restart of the kernel's
counter, to tell two events with one number apart — is outside that reading whatever it uses them for, and the
drivers' histories (which vary time stamps and bodies independently of the sequence numbers) search for the input on
which it shows. -/
theorem C19_reads_only_sequence_and_type :
    LA.Gen.ReasmFacts.msgReads = ["call:ReassemblyComplete", "field:RecordType", "field:Sequence"] := by decide

/-- The deadlines are the only clock readings a Reassembler keeps: the Reassembler the fact above is read from buffers
exactly one event (one push, then a Maintain, so that whatever a clean-up pass might remember about when it ran has
been set), and exactly one non-zero `time.Time` is reachable from it. The model's state has one deadline per buffered
event and nothing else that depends on when something happened; a Reassembler that also remembers when it last
looked — to look less often, to batch, to rate-limit its callbacks — delivers a stale event later than the first call
after its timeout on histories whose calls are spaced just so, which a check finds only if its sleeps happen to
bracket the constant chosen. -/
theorem C19_the_deadlines_are_the_only_clock_state : LA.Gen.ReasmFacts.deadlinesMonotonic.length = 1 := by decide

/-- What the root package reads of the process it runs in is the clock (the Reassembler's deadlines, which the model is
given as readings), the process id (an input of SetPID) and the page size (the default receive buffer): `envReads`,
regenerated with go/types on every run, lists the package-level functions of os, os/user, os/exec, net, runtime,
math/rand, crypto/rand that are called, time.Now / Since / Until, file-system functions of path/filepath and process
queries of syscall. Nothing else of the machine — processors, environment variables, files, random numbers — can
influence what the Reassembler or the client does. -/
theorem C19_environment_is_clock_pid_pagesize : LA.StateFacts.envOf "" = LA.StateFacts.rootEnv := by decide
