/-
C06 — Built rules are byte-exact kernel audit_rule_data for what was asked.
`LA.Spec.RuleLayout.decode` is written from the UAPI struct only; `LA.Spec.RuleUapi` holds the
UAPI numbers. The constants/tables are regenerated from the Go sources on every run.
-/
import LA.Proofs.Rule
import LA.Proofs.RuleBounds
import LA.Spec.RuleUapi
import LA.Proofs.StateFacts

namespace LA.Rule
open LA
open LA.Auparse (Res)

/-- all 32-bit quantities of the accumulated rule data fit a word. -/
def WordsOk (r : RuleData) : Prop :=
  r.flags < 4294967296 ∧ r.action < 4294967296 ∧ (∀ w ∈ r.fields, w < 4294967296) ∧
  (∀ w ∈ r.values, w < 4294967296) ∧ (∀ w ∈ r.fieldFlags, w < 4294967296) ∧
  (∀ w ∈ r.syscalls, w < 2048) ∧ r.strings.flatten.length < 4294967296

theorem padTo_length (n : Nat) (l : List Nat) (h : l.length ≤ n) : (padTo n l).length = n := by
  simp [padTo]; omega

theorem padTo_lt (n : Nat) (l : List Nat) (h : ∀ w ∈ l, w < 4294967296) : ∀ w ∈ padTo n l, w < 4294967296 := by
  intro w hw
  simp only [padTo, List.mem_append, List.mem_replicate] at hw
  rcases hw with hw | ⟨_, rfl⟩
  · exact h w hw
  · omega

theorem maskWord_lt (s : List Nat) (w : Nat) : maskWord s w < 4294967296 := by
  rw [maskWord_eq]; exact bitSum_lt _ 32

theorem maskOf_length (r : RuleData) : (maskOf r).length = 64 := by
  unfold maskOf; split <;> simp

theorem maskOf_lt (r : RuleData) : ∀ w ∈ maskOf r, w < 4294967296 := by
  intro w hw
  unfold maskOf at hw
  split at hw
  · simp only [List.mem_append, List.mem_replicate, List.mem_cons, List.mem_nil_iff, or_false] at hw
    rcases hw with ⟨_, rfl⟩ | rfl <;> omega
  · obtain ⟨i, _, rfl⟩ := List.mem_map.mp hw
    exact maskWord_lt _ _

/-- Layout: whenever the encoder produces bytes, the independent UAPI decoder reads back exactly
list, action, the number of fields, the mask, the field/value/operator triples in the order given
(zero beyond the count), buflen = total length of the strings, the strings laid back to back, and
zero padding to a multiple of 4. -/
theorem C06_layout (r : RuleData) (b : Bytes) (hw : WordsOk r) (h : toWire r = Res.ok b) :
    LA.Spec.RuleLayout.decode b = some
      { flags := r.flags, action := r.action, fieldCount := r.fields.length, mask := maskOf r,
        fields := padTo 64 r.fields, values := padTo 64 r.values, fieldFlags := padTo 64 r.fieldFlags,
        bufLen := r.strings.flatten.length, buf := r.strings.flatten,
        padding := List.replicate ((4 - (1040 + r.strings.flatten.length) % 4) % 4) 0 } ∧
    b.length = (1040 + r.strings.flatten.length + 3) / 4 * 4 ∧ r.fields.length ≤ 64 := by
  obtain ⟨h1, h2, h3, h4, h5, _, h7⟩ := hw
  unfold toWire at h
  split at h
  · simp at h
  · rename_i hcount
    have hc : r.fields.length ≤ 64 := by
      have : LA.Gen.RuleTables.maxFields = 64 := by decide
      omega
    by_cases hv : r.values.length ≤ 64
    · by_cases hf : r.fieldFlags.length ≤ 64
      · simp only [storeAll, hc, hv, hf, if_true, bind, Bind.bind] at h
        simp only [Res.ok.injEq] at h
        have hbl : r.strings.flatten.length % 4294967296 = r.strings.flatten.length := Nat.mod_eq_of_lt h7
        rw [hbl] at h
        subst h
        -- abbreviations
        generalize hM : maskOf r = M at *
        generalize hF : padTo 64 r.fields = F at *
        generalize hV : padTo 64 r.values = V at *
        generalize hFF : padTo 64 r.fieldFlags = FF at *
        generalize hB : r.strings.flatten = buf at *
        have lM : M.length = 64 := by rw [← hM]; exact maskOf_length r
        have lF : F.length = 64 := by rw [← hF]; exact padTo_length _ _ hc
        have lV : V.length = 64 := by rw [← hV]; exact padTo_length _ _ hv
        have lFF : FF.length = 64 := by rw [← hFF]; exact padTo_length _ _ hf
        have bM : ∀ w ∈ M, w < 4294967296 := by rw [← hM]; exact maskOf_lt r
        have bF : ∀ w ∈ F, w < 4294967296 := by rw [← hF]; exact padTo_lt 64 _ h3
        have bV : ∀ w ∈ V, w < 4294967296 := by rw [← hV]; exact padTo_lt 64 _ h4
        have bFF : ∀ w ∈ FF, w < 4294967296 := by rw [← hFF]; exact padTo_lt 64 _ h5
        have hcnt : r.fields.length < 4294967296 := by omega
        generalize hpad : List.replicate ((4 - ((le32 r.flags ++ le32 r.action ++ le32 r.fields.length ++ M.flatMap le32 ++
            F.flatMap le32 ++ V.flatMap le32 ++ FF.flatMap le32 ++ le32 buf.length).length + buf.length) % 4) % 4) 0 = pad
        have hlen : (le32 r.flags ++ le32 r.action ++ le32 r.fields.length ++ M.flatMap le32 ++
            F.flatMap le32 ++ V.flatMap le32 ++ FF.flatMap le32 ++ le32 buf.length).length = 1040 := by
          simp only [List.length_append, le32_length, flatMap_le32_length, lM, lF, lV, lFF]
        have hpad' : pad = List.replicate ((4 - (1040 + buf.length) % 4) % 4) 0 := by rw [← hpad, hlen]
        -- the eight reads
        have r0 : LA.Spec.RuleLayout.word (le32 r.flags ++ le32 r.action ++ le32 r.fields.length ++ M.flatMap le32 ++
            F.flatMap le32 ++ V.flatMap le32 ++ FF.flatMap le32 ++ le32 buf.length ++ buf ++ pad) 0 = some r.flags := by
          simp only [List.append_assoc]; exact spec_word_le32 _ _ h1
        have r4 : LA.Spec.RuleLayout.word (le32 r.flags ++ le32 r.action ++ le32 r.fields.length ++ M.flatMap le32 ++
            F.flatMap le32 ++ V.flatMap le32 ++ FF.flatMap le32 ++ le32 buf.length ++ buf ++ pad) 4 = some r.action := by
          simp only [List.append_assoc]
          have := spec_word_skip (le32 r.flags) (le32 r.action ++ (le32 r.fields.length ++ (M.flatMap le32 ++
            (F.flatMap le32 ++ (V.flatMap le32 ++ (FF.flatMap le32 ++ (le32 buf.length ++ (buf ++ pad)))))))) 0
          simp only [le32_length, Nat.add_zero] at this
          rw [this]; exact spec_word_le32 _ _ h2
        have r8 : LA.Spec.RuleLayout.word (le32 r.flags ++ le32 r.action ++ le32 r.fields.length ++ M.flatMap le32 ++
            F.flatMap le32 ++ V.flatMap le32 ++ FF.flatMap le32 ++ le32 buf.length ++ buf ++ pad) 8 = some r.fields.length := by
          have := spec_word_skip (le32 r.flags ++ le32 r.action) (le32 r.fields.length ++ (M.flatMap le32 ++
            (F.flatMap le32 ++ (V.flatMap le32 ++ (FF.flatMap le32 ++ (le32 buf.length ++ (buf ++ pad))))))) 0
          simp only [List.length_append, le32_length, Nat.add_zero] at this
          simp only [List.append_assoc] at this ⊢
          rw [this]; exact spec_word_le32 _ _ hcnt
        have rM : LA.Spec.RuleLayout.words (le32 r.flags ++ le32 r.action ++ le32 r.fields.length ++ M.flatMap le32 ++
            F.flatMap le32 ++ V.flatMap le32 ++ FF.flatMap le32 ++ le32 buf.length ++ buf ++ pad) 12 64 = some M := by
          have := spec_words_flatMap M (F.flatMap le32 ++ (V.flatMap le32 ++ (FF.flatMap le32 ++ (le32 buf.length ++ (buf ++ pad)))))
            bM 12 (le32 r.flags ++ le32 r.action ++ le32 r.fields.length) (by simp only [List.length_append, le32_length])
          rw [lM] at this
          simp only [List.append_assoc] at this ⊢
          exact this
        have rF : LA.Spec.RuleLayout.words (le32 r.flags ++ le32 r.action ++ le32 r.fields.length ++ M.flatMap le32 ++
            F.flatMap le32 ++ V.flatMap le32 ++ FF.flatMap le32 ++ le32 buf.length ++ buf ++ pad) 268 64 = some F := by
          have := spec_words_flatMap F (V.flatMap le32 ++ (FF.flatMap le32 ++ (le32 buf.length ++ (buf ++ pad))))
            bF 268 (le32 r.flags ++ le32 r.action ++ le32 r.fields.length ++ M.flatMap le32) (by simp only [List.length_append, le32_length, flatMap_le32_length, lM])
          rw [lF] at this
          simp only [List.append_assoc] at this ⊢
          exact this
        have rV : LA.Spec.RuleLayout.words (le32 r.flags ++ le32 r.action ++ le32 r.fields.length ++ M.flatMap le32 ++
            F.flatMap le32 ++ V.flatMap le32 ++ FF.flatMap le32 ++ le32 buf.length ++ buf ++ pad) 524 64 = some V := by
          have := spec_words_flatMap V (FF.flatMap le32 ++ (le32 buf.length ++ (buf ++ pad)))
            bV 524 (le32 r.flags ++ le32 r.action ++ le32 r.fields.length ++ M.flatMap le32 ++ F.flatMap le32)
            (by simp only [List.length_append, le32_length, flatMap_le32_length, lM, lF])
          rw [lV] at this
          simp only [List.append_assoc] at this ⊢
          exact this
        have rFF : LA.Spec.RuleLayout.words (le32 r.flags ++ le32 r.action ++ le32 r.fields.length ++ M.flatMap le32 ++
            F.flatMap le32 ++ V.flatMap le32 ++ FF.flatMap le32 ++ le32 buf.length ++ buf ++ pad) 780 64 = some FF := by
          have := spec_words_flatMap FF (le32 buf.length ++ (buf ++ pad))
            bFF 780 (le32 r.flags ++ le32 r.action ++ le32 r.fields.length ++ M.flatMap le32 ++ F.flatMap le32 ++ V.flatMap le32)
            (by simp only [List.length_append, le32_length, flatMap_le32_length, lM, lF, lV])
          rw [lFF] at this
          simp only [List.append_assoc] at this ⊢
          exact this
        have rB : LA.Spec.RuleLayout.word (le32 r.flags ++ le32 r.action ++ le32 r.fields.length ++ M.flatMap le32 ++
            F.flatMap le32 ++ V.flatMap le32 ++ FF.flatMap le32 ++ le32 buf.length ++ buf ++ pad) 1036 = some buf.length := by
          have := spec_word_skip (le32 r.flags ++ le32 r.action ++ le32 r.fields.length ++ M.flatMap le32 ++ F.flatMap le32 ++
            V.flatMap le32 ++ FF.flatMap le32) (le32 buf.length ++ (buf ++ pad)) 0
          have hl : (le32 r.flags ++ le32 r.action ++ le32 r.fields.length ++ M.flatMap le32 ++ F.flatMap le32 ++
            V.flatMap le32 ++ FF.flatMap le32).length = 1036 := by simp only [List.length_append, le32_length, flatMap_le32_length, lM, lF, lV, lFF]
          rw [hl] at this
          simp only [List.append_assoc, Nat.add_zero] at this ⊢
          rw [this]; exact spec_word_le32 _ _ h7
        refine ⟨?_, ?_, hc⟩
        · unfold LA.Spec.RuleLayout.decode
          rw [r0, r4, r8, rM, rF, rV, rFF, rB]
          simp only
          have hd : (le32 r.flags ++ le32 r.action ++ le32 r.fields.length ++ M.flatMap le32 ++
              F.flatMap le32 ++ V.flatMap le32 ++ FF.flatMap le32 ++ le32 buf.length ++ buf ++ pad).drop 1040 = buf ++ pad := by
            rw [List.append_assoc, ← hlen, List.drop_left' rfl]
          have hsz : LA.Spec.RuleLayout.headerSize = 1040 := by decide
          have htot : LA.Spec.RuleLayout.headerSize + buf.length ≤ (le32 r.flags ++ le32 r.action ++ le32 r.fields.length ++ M.flatMap le32 ++
              F.flatMap le32 ++ V.flatMap le32 ++ FF.flatMap le32 ++ le32 buf.length ++ buf ++ pad).length := by
            rw [List.length_append, List.length_append, hlen, hsz]; omega
          have hd2 : (le32 r.flags ++ le32 r.action ++ le32 r.fields.length ++ M.flatMap le32 ++
              F.flatMap le32 ++ V.flatMap le32 ++ FF.flatMap le32 ++ le32 buf.length ++ buf ++ pad).drop (1040 + buf.length) = pad := by
            rw [← List.drop_drop, hd, List.drop_left' rfl]
          rw [if_pos htot, hsz, hd, hd2, List.take_left' rfl, hpad']
        · rw [List.length_append, List.length_append, hlen, hpad', List.length_replicate]
          omega
      · simp [storeAll, hc, hv, hf, bind, Bind.bind] at h
    · simp [storeAll, hc, hv, bind, Bind.bind] at h

theorem strings_total_le {r : RuleData} (hi : WordsInv r) : r.strings.flatten.length ≤ r.trips.length * 4096 := by
  have key : ∀ (ss : List Bytes), (∀ s ∈ ss, s.length ≤ 4096) → ss.flatten.length ≤ ss.length * 4096 := by
    intro ss
    induction ss with
    | nil => intro _; simp
    | cons s ss ih =>
      intro h
      have h1 := h s (List.mem_cons_self)
      have h2 := ih (fun x hx => h x (List.mem_cons_of_mem _ hx))
      simp only [List.flatten_cons, List.length_append, List.length_cons]
      omega
  exact Nat.le_trans (key r.strings hi.strLen) (Nat.mul_le_mul_right 4096 hi.strCount)

theorem wordsOk_of_inv {r : RuleData} (hi : WordsInv r) (hl : r.trips.length ≤ 64) : WordsOk r := by
  refine ⟨hi.flags, hi.action, ?_, ?_, ?_, hi.syscalls, ?_⟩
  · intro w hw
    obtain ⟨t, ht, rfl⟩ := List.mem_map.mp hw
    exact (hi.trips t ht).1
  · intro w hw
    obtain ⟨t, ht, rfl⟩ := List.mem_map.mp hw
    exact (hi.trips t ht).2.1
  · intro w hw
    obtain ⟨t, ht, rfl⟩ := List.mem_map.mp hw
    exact (hi.trips t ht).2.2
  · have := strings_total_le hi
    omega

/-- The word-size side conditions of `C06_layout` hold for every rule data the encoder itself
accumulates (`ruleDataOf` = the body of rule.Build before serialisation), given only that the
OS user/group database returns 32-bit ids (`EnvOk`, the contract of os/user + ParseUint(…, 32)). -/
theorem C06_words_ok (env : Env) (he : EnvOk env) (rule : Rule) (r : RuleData) (b : Bytes)
    (h : ruleDataOf env rule = some r) (hb : toWire r = Res.ok b) : WordsOk r := by
  have hi := inv_ruleDataOf he h
  refine wordsOk_of_inv hi ?_
  unfold toWire at hb
  split at hb
  · simp at hb
  · rename_i hc
    have : LA.Gen.RuleTables.maxFields = 64 := by decide
    simp only [RuleData.fields, List.length_map] at hc
    omega

/-- C06 end to end for rule.Build: whenever Build returns bytes for a rule specification, the
independent UAPI decoder reads back exactly what the accumulated rule data says. No side
condition on the rule is left. -/
theorem C06_build_layout (env : Env) (he : EnvOk env) (rule : Rule) (b : Bytes) (h : build env rule = Res.ok b) :
    ∃ r, ruleDataOf env rule = some r ∧
      LA.Spec.RuleLayout.decode b = some
        { flags := r.flags, action := r.action, fieldCount := r.fields.length, mask := maskOf r,
          fields := padTo 64 r.fields, values := padTo 64 r.values, fieldFlags := padTo 64 r.fieldFlags,
          bufLen := r.strings.flatten.length, buf := r.strings.flatten,
          padding := List.replicate ((4 - (1040 + r.strings.flatten.length) % 4) % 4) 0 } ∧
      b.length = (1040 + r.strings.flatten.length + 3) / 4 * 4 ∧ r.fields.length ≤ 64 := by
  unfold build at h
  cases hr : ruleDataOf env rule with
  | none => simp [hr] at h
  | some r =>
    simp only [hr] at h
    exact ⟨r, rfl, C06_layout r b (C06_words_ok env he rule r b hr h) h⟩

/-- The syscall mask has exactly the bits of the requested syscalls: bit `bit` of word `w` is set
iff syscall number 32·w + bit was requested; or it is the all-syscalls pattern. -/
theorem C06_mask (r : RuleData) :
    (r.allSyscalls = true → maskOf r = List.replicate 63 0xFFFFFFFF ++ [0x0000FFFF]) ∧
    (r.allSyscalls = false → ∀ w < 64, ∀ bit, ∃ word, (maskOf r)[w]? = some word ∧
      word.testBit bit = (decide (bit < 32) && r.syscalls.contains (w * 32 + bit))) := by
  constructor
  · intro h; simp [maskOf, h]
  · intro h w hw bit
    refine ⟨maskWord r.syscalls w, ?_, ?_⟩
    · simp [maskOf, h, hw]
    · rw [maskWord_eq, testBit_bitSum]

/-- Every field, operator, list and action code equals the Linux UAPI constant for the name used;
the inter-field comparison table holds exactly the UAPI AUDIT_COMPARE_* codes (both operand
orders); sizes and limits are the kernel's. Re-checked against the regenerated tables on every run. -/
theorem C06_constants :
    (∀ p ∈ LA.Gen.RuleTables.fieldsTable, lookupB LA.Spec.RuleUapi.fields p.1 = some p.2) ∧
    LA.Gen.RuleTables.fieldsTable.length = LA.Spec.RuleUapi.fields.length ∧
    (∀ p ∈ LA.Gen.RuleTables.operatorsTable, lookupB LA.Spec.RuleUapi.operators p.1 = some p.2) ∧
    LA.Gen.RuleTables.operatorsTable.length = LA.Spec.RuleUapi.operators.length ∧
    (∀ e ∈ LA.Gen.RuleTables.comparisonsTable,
      (e.1, e.2.1, e.2.2) ∈ LA.Spec.RuleUapi.comparePairs ∨ (e.2.1, e.1, e.2.2) ∈ LA.Spec.RuleUapi.comparePairs) ∧
    (∀ q ∈ LA.Spec.RuleUapi.comparePairs,
      (q.1, q.2.1, q.2.2) ∈ LA.Gen.RuleTables.comparisonsTable ∧ (q.2.1, q.1, q.2.2) ∈ LA.Gen.RuleTables.comparisonsTable) ∧
    (setList (ofString "exit") = lookupB LA.Spec.RuleUapi.lists (ofString "exit") ∧
     setList (ofString "task") = lookupB LA.Spec.RuleUapi.lists (ofString "task") ∧
     setList (ofString "user") = lookupB LA.Spec.RuleUapi.lists (ofString "user") ∧
     setList (ofString "exclude") = lookupB LA.Spec.RuleUapi.lists (ofString "exclude") ∧
     setAction (ofString "always") = lookupB LA.Spec.RuleUapi.actions (ofString "always") ∧
     setAction (ofString "never") = lookupB LA.Spec.RuleUapi.actions (ofString "never")) ∧
    (LA.Gen.RuleTables.fieldCompare = LA.Spec.RuleUapi.AUDIT_FIELD_COMPARE ∧
     LA.Gen.RuleTables.maxFields = LA.Spec.RuleUapi.AUDIT_MAX_FIELDS ∧
     LA.Gen.RuleTables.syscallBitmaskSize = LA.Spec.RuleUapi.AUDIT_BITMASK_SIZE ∧
     LA.Gen.RuleTables.maxKeyLength = LA.Spec.RuleUapi.AUDIT_MAX_KEY_LEN ∧
     LA.Gen.RuleTables.keySeparator = 1 ∧ LA.Gen.RuleTables.pathMax = 4096 ∧
     LA.Gen.RuleTables.ruleHeaderSize = LA.Spec.RuleLayout.headerSize ∧
     LA.Gen.RuleTables.execPerm = LA.Spec.RuleUapi.AUDIT_PERM_EXEC ∧ LA.Gen.RuleTables.writePerm = LA.Spec.RuleUapi.AUDIT_PERM_WRITE ∧
     LA.Gen.RuleTables.readPerm = LA.Spec.RuleUapi.AUDIT_PERM_READ ∧ LA.Gen.RuleTables.attrPerm = LA.Spec.RuleUapi.AUDIT_PERM_ATTR ∧
     LA.Gen.RuleTables.fileFiletype = LA.Spec.RuleUapi.S_IFREG ∧ LA.Gen.RuleTables.dirFiletype = LA.Spec.RuleUapi.S_IFDIR ∧
     LA.Gen.RuleTables.socketFiletype = LA.Spec.RuleUapi.S_IFSOCK ∧ LA.Gen.RuleTables.linkFiletype = LA.Spec.RuleUapi.S_IFLNK ∧
     LA.Gen.RuleTables.characterFiletype = LA.Spec.RuleUapi.S_IFCHR ∧ LA.Gen.RuleTables.blockFiletype = LA.Spec.RuleUapi.S_IFBLK ∧
     LA.Gen.RuleTables.fifoFiletype = LA.Spec.RuleUapi.S_IFIFO ∧
     eqOp = 0x40000000 ∧ lookupB LA.Gen.RuleTables.operatorsTable [61] = some eqOp ∧
     lookupB LA.Gen.RuleTables.operatorsTable [33, 61] = some neOp) := by
  refine ⟨?_, by decide +kernel, ?_, by decide +kernel, ?_, ?_, by decide +kernel, by decide +kernel⟩
  · have cert : LA.Gen.RuleTables.fieldsTable.all (fun p => lookupB LA.Spec.RuleUapi.fields p.1 == some p.2) = true := by decide +kernel
    intro p hp; simpa using List.all_eq_true.mp cert p hp
  · have cert : LA.Gen.RuleTables.operatorsTable.all (fun p => lookupB LA.Spec.RuleUapi.operators p.1 == some p.2) = true := by decide +kernel
    intro p hp; simpa using List.all_eq_true.mp cert p hp
  · have cert : LA.Gen.RuleTables.comparisonsTable.all (fun e =>
        LA.Spec.RuleUapi.comparePairs.contains (e.1, e.2.1, e.2.2) || LA.Spec.RuleUapi.comparePairs.contains (e.2.1, e.1, e.2.2)) = true := by decide +kernel
    intro e he; simpa using List.all_eq_true.mp cert e he
  · have cert : LA.Spec.RuleUapi.comparePairs.all (fun q =>
        LA.Gen.RuleTables.comparisonsTable.contains (q.1, q.2.1, q.2.2) && LA.Gen.RuleTables.comparisonsTable.contains (q.2.1, q.1, q.2.2)) = true := by decide +kernel
    intro q hq; simpa using List.all_eq_true.mp cert q hq

/-- non-vacuity: a concrete rule encodes to a 1044-byte audit_rule_data. -/
example : (match build ⟨false, [], []⟩ (.syscall 3 (ofString "exit") (ofString "always")
    [⟨2, ofString "pid", [61], ofString "1"⟩] [] [ofString "k"]) with
    | .ok b => decide (b.length = 1044)
    | _ => false) = true := by decide +kernel

end LA.Rule

/-! ### the code keeps nothing between calls that the model does not have -/

/-- Packages rule and rule/flags write package-level variables only in the five table builders, which nothing but `init`
mentions (regenerated list, see LA.Proofs.StateFacts): Parse, Build and ToCommandLine are functions of their arguments. -/
theorem C06_rule_packages_keep_nothing_between_calls : LA.StateFacts.ofPkg "rule" = LA.StateFacts.ruleTableBuilders ∧ LA.StateFacts.ofPkg "rule/flags" = [] := by decide

/-- What the rule packages read of the process they run in is what the model is given as `Env`: the file type of a
watched path (os.Stat) and the user and group databases; package flags reads nothing (`envReads`, regenerated with
go/types on every run: package-level functions of os, os/user, os/exec, net, runtime, math/rand, crypto/rand,
time.Now / Since / Until, file-system functions of path/filepath, process queries of syscall). -/
theorem C06_environment_is_stat_and_the_id_databases :
    LA.StateFacts.envOf "rule" = LA.StateFacts.ruleEnv ∧ LA.StateFacts.envOf "rule/flags" = [] := by decide
