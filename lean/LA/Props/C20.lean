/-
C20 — Name/number tables are mutually inverse and internally consistent.
Everything here is about data regenerated from /repo's sources on every run
(LA/Gen/*), so every theorem is re-checked by the kernel whenever a table changes.
-/
import LA.Proofs.TablesRT
import LA.Model.TablesCat
import LA.Proofs.StateFacts
import LA.Gen.Norms

namespace LA.C20
open LA LA.MsgType LA.Tables

/-- Every record type code converts to a name and back to the same number. -/
theorem C20_type_roundtrip (t : Nat) (ht : t < 65536) : getType (typeName t) = some t :=
  LA.TablesRT.type_roundtrip t ht

theorem lower_upper_unknownName (t : Nat) : upper (lower (unknownName t)) = unknownName t := by
  have hd : ∀ b ∈ dec (t % 65536), toUpper (toLower b) = b := by
    intro b hb
    have := dec_digits _ b hb
    simp [isDigit] at this
    have h1 : isUpper b = false := by simp [isUpper]; omega
    have h2 : isLower b = false := by simp [isLower]; omega
    simp [toLower, toUpper, h1, h2]
  have h1 : List.map (toUpper ∘ toLower) (dec (t % 65536)) = dec (t % 65536) :=
    (List.map_congr_left hd).trans (List.map_id _)
  simp only [unknownName, upper, lower, List.map_append, List.map_map, h1]
  rfl

/-- … text marshalling included: UnmarshalText (MarshalText t) = t. -/
theorem C20_text_roundtrip (t : Nat) (ht : t < 65536) : unmarshalText (marshalText t) = some t := by
  unfold unmarshalText marshalText
  rcases typeName_cases t with h | ⟨n, h, hm⟩
  · rw [h]
    have := getType_unknownName t ht
    unfold getType at this ⊢
    simp only [lower_upper_unknownName, upper_unknownName] at this ⊢
    exact this
  · rw [h]
    have := List.all_eq_true.mp cert_type_lower_type (t, n) hm
    simp only [beq_iff_eq] at this
    simp [getType, this]

/-- Every errno number maps to a name that maps back to it. -/
theorem C20_errno_num_name_num :
    ∀ n name, errnoName n = some name → errnoNum name = some n :=
  LA.TablesRT.errno_num_name_num

/-- Every errno name (aliases included) resolves to a number that has a name mapping back to
that same number. -/
theorem C20_errno_aliases :
    ∀ p ∈ LA.Gen.Errno.errnoToNum, errnoNum p.1 = some p.2 ∧
      ∃ name, errnoName p.2 = some name ∧ errnoNum name = some p.2 := by
  have cert : LA.Gen.Errno.errnoToNum.all (fun p =>
      LA.Gen.Errno.numTree.find (encode p.1) == some p.2 &&
      (match lookupN LA.Gen.Errno.errnoToName p.2 with
       | some nm => LA.Gen.Errno.numTree.find (encode nm) == some p.2
       | none => false)) = true := by decide +kernel
  intro p hp
  have := List.all_eq_true.mp cert p hp
  simp only [Bool.and_eq_true, beq_iff_eq] at this
  refine ⟨this.1, ?_⟩
  have h2 := this.2
  unfold errnoName errnoNum
  cases h : lookupN LA.Gen.Errno.errnoToName p.2 with
  | none => simp [h] at h2
  | some nm => exact ⟨nm, rfl, by simpa [h] using h2⟩

/-- Architecture names and codes are in bijection on the table: a name resolves to one code
and back. -/
theorem C20_arch :
    (∀ p ∈ LA.Gen.Arches.archNames, archName p.1 = some p.2 ∧ archCode p.2 = some p.1) := by
  have cert : LA.Gen.Arches.archNames.all (fun p =>
      (match lookupN LA.Gen.Arches.archNames p.1 with | some nm => nm == p.2 | none => false) &&
      (match LA.Gen.Arches.archNames.find? (fun q => q.2 == p.2) with | some q => q.1 == p.1 | none => false)) = true := by
    decide +kernel
  intro p hp
  have := List.all_eq_true.mp cert p hp
  simp only [Bool.and_eq_true] at this
  constructor
  · unfold archName
    cases h : lookupN LA.Gen.Arches.archNames p.1 with
    | none => simp [h] at this
    | some nm => simp [h] at this; rw [this.1]
  · unfold archCode
    cases h : LA.Gen.Arches.archNames.find? (fun q => q.2 == p.2) with
    | none => simp [h] at this
    | some q => simp [h] at this; simp [this.2]

/-- In each architecture's syscall table a name maps to one number: two entries with the same
name have the same number (certificates `cert_names` live in the regenerated per-arch modules). -/
theorem functional_of_cert {tbl : List (Nat × List Nat)} {tree : Tree}
    (cert : tbl.all (fun p => tree.find (encode p.2) == some p.1) = true) :
    ∀ p ∈ tbl, ∀ q ∈ tbl, p.2 = q.2 → p.1 = q.1 := by
  intro p hp q hq h
  have h1 := List.all_eq_true.mp cert p hp
  have h2 := List.all_eq_true.mp cert q hq
  simp only [beq_iff_eq] at h1 h2
  rw [h] at h1
  rw [h1] at h2
  exact Option.some.inj h2

theorem C20_syscalls :
    ∀ t ∈ LA.Gen.Syscalls.tables, (∀ p ∈ t.2.1, ∀ q ∈ t.2.1, p.2 = q.2 → p.1 = q.1) ∧
      strictlyIncreasing (t.2.1.map (·.1)) = true := by
  intro t ht
  simp only [LA.Gen.Syscalls.tables, List.mem_cons, List.mem_nil_iff, or_false] at ht
  rcases ht with h | h | h | h | h | h | h | h | h <;> subst h
  · exact ⟨functional_of_cert LA.Gen.Syscalls_aarch64.cert_names, LA.Gen.Syscalls_aarch64.cert_sorted⟩
  · exact ⟨functional_of_cert LA.Gen.Syscalls_arm.cert_names, LA.Gen.Syscalls_arm.cert_sorted⟩
  · exact ⟨functional_of_cert LA.Gen.Syscalls_i386.cert_names, LA.Gen.Syscalls_i386.cert_sorted⟩
  · exact ⟨functional_of_cert LA.Gen.Syscalls_ppc.cert_names, LA.Gen.Syscalls_ppc.cert_sorted⟩
  · exact ⟨functional_of_cert LA.Gen.Syscalls_s390.cert_names, LA.Gen.Syscalls_s390.cert_sorted⟩
  · exact ⟨functional_of_cert LA.Gen.Syscalls_s390x.cert_names, LA.Gen.Syscalls_s390x.cert_sorted⟩
  · exact ⟨functional_of_cert LA.Gen.Syscalls_x86_64.cert_names, LA.Gen.Syscalls_x86_64.cert_sorted⟩
  · exact ⟨functional_of_cert LA.Gen.Syscalls_ppc.cert_names, LA.Gen.Syscalls_ppc.cert_sorted⟩
  · exact ⟨functional_of_cert LA.Gen.Syscalls_ppc.cert_names, LA.Gen.Syscalls_ppc.cert_sorted⟩

/-- Rule tables: field names and operators map to pairwise distinct codes (so the reverse
tables built at init are well defined), the comparison table is symmetric, and a comparison
code denotes one unordered field pair (so the map-order dependent reverse comparison table
cannot change what is printed). -/
theorem C20_rule_tables :
    (LA.Gen.RuleTables.fieldsTable.map (·.2)).Nodup ∧
    (LA.Gen.RuleTables.operatorsTable.map (·.2)).Nodup ∧
    (∀ e ∈ LA.Gen.RuleTables.comparisonsTable, (e.2.1, e.1, e.2.2) ∈ LA.Gen.RuleTables.comparisonsTable) ∧
    (∀ e ∈ LA.Gen.RuleTables.comparisonsTable, ∀ f ∈ LA.Gen.RuleTables.comparisonsTable, e.2.2 = f.2.2 →
      (e.1 = f.1 ∧ e.2.1 = f.2.1) ∨ (e.1 = f.2.1 ∧ e.2.1 = f.1)) := by
  refine ⟨by decide +kernel, by decide +kernel, ?_, ?_⟩
  · have cert : LA.Gen.RuleTables.comparisonsTable.all (fun e =>
        LA.Gen.RuleTables.comparisonsTable.contains (e.2.1, e.1, e.2.2)) = true := by decide +kernel
    intro e he
    simpa using List.all_eq_true.mp cert e he
  · have cert : LA.Gen.RuleTables.comparisonsTable.all (fun e => LA.Gen.RuleTables.comparisonsTable.all (fun f =>
        !(e.2.2 == f.2.2) || (e.1 == f.1 && e.2.1 == f.2.1) || (e.1 == f.2.1 && e.2.1 == f.1))) = true := by
      decide +kernel
    intro e he f hf h
    have := List.all_eq_true.mp (List.all_eq_true.mp cert e he) f hf
    simp [h] at this
    exact this

/-- Every record type named in the normalisation table is a name the parser produces. -/
theorem C20_norm_record_types :
    ∀ r ∈ LA.Gen.NormNames.recordTypes, ∃ t, t < 65536 ∧ typeName t = r.1 := by
  have cert : LA.Gen.NormNames.recordTypes.all (fun r =>
      match LA.Gen.MsgTypes.nameTree.find (encode r.1) with
      | some t => decide (t < 65536) && (typeName t == r.1)
      | none => false) = true := by decide +kernel
  intro r hr
  have := List.all_eq_true.mp cert r hr
  cases h : LA.Gen.MsgTypes.nameTree.find (encode r.1) with
  | none => simp [h] at this
  | some t => simp [h] at this; exact ⟨t, this.1, this.2⟩

/-- syscall names of the normalisation table that occur in no architecture's table on the
unchanged tree (recorded as known finding KF-C20-syscalls; harmless dead entries). -/
def knownMissingSyscalls : List Bytes :=
  [ofString "fstatat", ofString "futimens", ofString "seteuid", ofString "setegid"]

/-- Every syscall named in the normalisation table is `*`, or occurs in some architecture's
syscall table — except the four recorded dead entries (partial: see KF-C20-syscalls). -/
theorem C20_norm_syscalls_partial :
    ∀ s ∈ LA.Gen.NormNames.syscalls, s.1 = [42] ∨ s.1 ∈ knownMissingSyscalls ∨
      ∃ t ∈ LA.Gen.Syscalls.tables, ∃ n, (n, s.1) ∈ t.2.1 := by
  have cert : LA.Gen.NormNames.syscalls.all (fun s =>
      s.1 == [42] || knownMissingSyscalls.contains s.1 ||
      (match s.2.2 with
       | some (ai, j) =>
         (match LA.Gen.Syscalls.tables[ai]? with
          | some t => (match t.2.1[j]? with | some e => e.2 == s.1 | none => false)
          | none => false)
       | none => false)) = true := by decide +kernel
  intro s hs
  have := List.all_eq_true.mp cert s hs
  simp only [Bool.or_eq_true, beq_iff_eq, List.contains_iff_mem] at this
  rcases this with (h | h) | h
  · exact Or.inl h
  · exact Or.inr (Or.inl h)
  · right; right
    cases hw : s.2.2 with
    | none => simp [hw] at h
    | some w =>
      obtain ⟨ai, j⟩ := w
      simp only [hw] at h
      cases ht : LA.Gen.Syscalls.tables[ai]? with
      | none => simp [ht] at h
      | some t =>
        simp only [ht] at h
        cases he : t.2.1[j]? with
        | none => simp [he] at h
        | some e =>
          simp only [he, beq_iff_eq] at h
          exact ⟨t, List.mem_of_getElem? ht, e.1, by rw [← h]; exact List.mem_of_getElem? he⟩

/-- Each syscall selects one normalisation: no syscall name is listed by two normalisations. -/
theorem C20_norm_syscall_unique :
    ∀ s ∈ LA.Gen.NormNames.syscalls, ∀ s' ∈ LA.Gen.NormNames.syscalls, s.1 = s'.1 → s.2.1 = s'.2.1 := by
  have cert : LA.Gen.NormNames.syscalls.all (fun s =>
      LA.Gen.NormNames.syscallTree.find (encode s.1) == some s.2.1) = true := by decide +kernel
  intro s hs s' hs' h
  have h1 := List.all_eq_true.mp cert s hs
  have h2 := List.all_eq_true.mp cert s' hs'
  simp only [beq_iff_eq] at h1 h2
  rw [h] at h1; rw [h1] at h2
  exact Option.some.inj h2

/-- A record type has several normalisations only if every one but the last carries a
has_fields qualifier, so selection (the last normalisation whose has_fields are all present)
is a function of the event's keys. -/
def qualifiedOk : List (Nat × Bool) → Bool
  | [] => true
  | (c, hf) :: rest => (hf || rest.all (fun q => !(q.1 == c))) && qualifiedOk rest

theorem C20_norm_record_type_qualified :
    qualifiedOk (LA.Gen.NormNames.recordTypes.map (fun r => (encode r.1, r.2.2))) = true := by
  decide +kernel

/-- Categorisation is a total function of the type code (first matching case wins, as in the
Go switch) and every range is well formed. -/
theorem C20_categories :
    (∀ r ∈ LA.Gen.EventTypes.ranges, r.1 ≤ r.2.1 ∧ r.2.1 < 65536) ∧
    (∀ t, ∃ c, category t = c) := by
  refine ⟨?_, fun t => ⟨_, rfl⟩⟩
  have cert : LA.Gen.EventTypes.ranges.all (fun r => decide (r.1 ≤ r.2.1) && decide (r.2.1 < 65536)) = true := by
    decide +kernel
  intro r hr
  simpa using List.all_eq_true.mp cert r hr

/-- Categorisation is the same on every call: the translator's purity check of
GetAuditEventType (it and its callees read only package variables that nothing writes, and use
no sync/atomic/time/rand/os) passed on the current source, and evaluating it over all codes in
two different orders gave one answer per code. -/
theorem C20_category_deterministic :
    LA.Gen.EventTypes.pureFn = true ∧ LA.Gen.EventTypes.orderWitness = none := by
  decide

/-- non-vacuity: the tables are not empty and a concrete round trip. -/
example : LA.Gen.MsgTypes.typeToName.length > 200 ∧ LA.Gen.Errno.errnoToName.length > 100 ∧
    LA.Gen.Syscalls.tables.length = 9 ∧ LA.Gen.NormNames.syscalls.length > 100 := by decide +kernel

end LA.C20

/-! ### the code keeps nothing between calls that the model does not have -/

/-- The tables are fixed once `init` has run: packages auparse and aucoalesce write no package-level variable afterwards
(the id caches of `ResolveIDs` aside) and package rule only inside its five table builders, which nothing but `init` mentions. -/
theorem C20_tables_are_fixed_after_init : LA.StateFacts.ofPkg "auparse" = [] ∧ LA.StateFacts.ofPkg "aucoalesce" = LA.StateFacts.coalesceIdCaches ∧ LA.StateFacts.ofPkg "rule" = LA.StateFacts.ruleTableBuilders := by decide

/-- The lists inside the normalisation table are full (`cap = len`, read off the running library's tables on every
run): `CoalesceMessages` appends the syscall's ECS types to the record type's list, and with room to spare behind a
list that append would write into the table itself, so that what a record type selects would depend on which events
were coalesced before it. (The same fact is `C15_tables_full`; here it is what "the same on every call" rests on.) -/
theorem C20_table_lists_have_no_spare_capacity :
    ∀ n ∈ LA.Gen.Norms.norms, n.catCap = n.ecsCategory.length ∧ n.typCap = n.ecsType.length := by
  decide +kernel

/-- … and reads nothing of the process it runs in: package auparse calls no function of os, os/user, os/exec, net,
runtime, math/rand or crypto/rand, no time.Now / Since / Until, no file-system function of path/filepath and no
process query of syscall (`envReads`, regenerated with go/types on every run). What the parser answers is a function
of the bytes it is given — not of the machine's time zone, locale, user database, number of processors or files. -/
theorem C20_parser_reads_no_environment : LA.StateFacts.envOf "auparse" = [] := by decide
