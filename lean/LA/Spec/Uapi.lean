/-
Hand-written oracle: the numbers and layouts of the kernel's user-space API that the audit
client must agree with.  Copied from include/uapi/linux/audit.h and include/uapi/linux/netlink.h
(the sandbox's /usr/include/linux/{audit,netlink}.h carry the same values; that is supporting
evidence only).  Nothing here is derived from /repo.
-/
namespace LA.Spec.Uapi

/-! ### include/uapi/linux/audit.h -/

def AUDIT_GET : Nat := 1000
def AUDIT_SET : Nat := 1001
def AUDIT_ADD_RULE : Nat := 1011
def AUDIT_DEL_RULE : Nat := 1012
def AUDIT_LIST_RULES : Nat := 1013

def AUDIT_FAIL_SILENT : Nat := 0
def AUDIT_FAIL_PRINTK : Nat := 1
def AUDIT_FAIL_PANIC : Nat := 2

def AUDIT_STATUS_ENABLED : Nat := 0x0001
def AUDIT_STATUS_FAILURE : Nat := 0x0002
def AUDIT_STATUS_PID : Nat := 0x0004
def AUDIT_STATUS_RATE_LIMIT : Nat := 0x0008
def AUDIT_STATUS_BACKLOG_LIMIT : Nat := 0x0010
def AUDIT_STATUS_BACKLOG_WAIT_TIME : Nat := 0x0020
def AUDIT_STATUS_LOST : Nat := 0x0040

def AUDIT_FEATURE_BITMAP_BACKLOG_LIMIT : Nat := 0x01
def AUDIT_FEATURE_BITMAP_BACKLOG_WAIT_TIME : Nat := 0x02
def AUDIT_FEATURE_BITMAP_EXECUTABLE_PATH : Nat := 0x04
def AUDIT_FEATURE_BITMAP_EXCLUDE_EXTEND : Nat := 0x08
def AUDIT_FEATURE_BITMAP_SESSIONID_FILTER : Nat := 0x10
def AUDIT_FEATURE_BITMAP_LOST_RESET : Nat := 0x20

/-- audit-userspace lib/libaudit.h (quoted in the kernel header's comment) -/
def MAX_AUDIT_MESSAGE_LENGTH : Nat := 8970

/-- multicast group AUDIT_NLGRP_READLOG -/
def AUDIT_NLGRP_NONE : Nat := 0
def AUDIT_NLGRP_READLOG : Nat := 1

/-- `struct audit_status`: (field, offset, size), all `__u32`, no padding.
`feature_bitmap` shares its slot with the deprecated `version`. -/
def auditStatus : List (String × Nat × Nat) :=
  [("mask", 0, 4), ("enabled", 4, 4), ("failure", 8, 4), ("pid", 12, 4), ("rate_limit", 16, 4),
   ("backlog_limit", 20, 4), ("lost", 24, 4), ("backlog", 28, 4), ("feature_bitmap", 32, 4),
   ("backlog_wait_time", 36, 4), ("backlog_wait_time_actual", 40, 4)]

def sizeofAuditStatus : Nat := 44

/-- Linux 2.6.32's `struct audit_status` ends with `backlog`. -/
def sizeofAuditStatus_2_6_32 : Nat := 32

/-- the Go struct's field names, in the words of the C struct -/
def cName (goField : String) : String :=
  if goField = "Mask" then "mask"
  else if goField = "Enabled" then "enabled"
  else if goField = "Failure" then "failure"
  else if goField = "PID" then "pid"
  else if goField = "RateLimit" then "rate_limit"
  else if goField = "BacklogLimit" then "backlog_limit"
  else if goField = "Lost" then "lost"
  else if goField = "Backlog" then "backlog"
  else if goField = "FeatureBitmap" then "feature_bitmap"
  else if goField = "BacklogWaitTime" then "backlog_wait_time"
  else if goField = "BacklogWaitTimeActual" then "backlog_wait_time_actual"
  else "?" ++ goField

/-! ### include/uapi/linux/netlink.h -/

def NLMSG_ERROR : Nat := 2
def NLMSG_DONE : Nat := 3
def NLM_F_REQUEST : Nat := 1
def NLM_F_ACK : Nat := 4
def NLMSG_HDRLEN : Nat := 16

/-- `struct nlmsghdr` -/
def nlmsghdr : List (String × Nat × Nat) :=
  [("nlmsg_len", 0, 4), ("nlmsg_type", 4, 2), ("nlmsg_flags", 6, 2), ("nlmsg_seq", 8, 4), ("nlmsg_pid", 12, 4)]

def nlName (goField : String) : String :=
  if goField = "Len" then "nlmsg_len"
  else if goField = "Type" then "nlmsg_type"
  else if goField = "Flags" then "nlmsg_flags"
  else if goField = "Seq" then "nlmsg_seq"
  else if goField = "Pid" then "nlmsg_pid"
  else "?" ++ goField

/-! ### an independent little-endian decoder (does not use the model's readers) -/

def byteAt (b : List UInt8) (i : Nat) : Nat :=
  match b[i]? with
  | some x => x.toNat
  | none => 0

/-- the little-endian unsigned integer of `size` bytes at offset `off` -/
def field (b : List UInt8) (off : Nat) : Nat → Nat
  | 0 => 0
  | size + 1 => byteAt b off + 256 * field b (off + 1) size

/-- all fields of a struct laid out as `layout`, in order -/
def decode (layout : List (String × Nat × Nat)) (b : List UInt8) : List (String × Nat) :=
  layout.map fun f => (f.1, field b f.2.1 f.2.2)

end LA.Spec.Uapi
