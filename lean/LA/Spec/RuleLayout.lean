/-
Independent specification of `struct audit_rule_data` (include/uapi/linux/audit.h), little-endian:
  u32 flags; u32 action; u32 field_count; u32 mask[64]; u32 fields[64]; u32 values[64];
  u32 fieldflags[64]; u32 buflen; char buf[];
written from the struct only, not from the Go code or its model.
-/
namespace LA.Spec.RuleLayout

abbrev Bytes := List Nat

/-- the 32-bit little-endian word at byte offset `off`. -/
def word (b : Bytes) (off : Nat) : Option Nat :=
  match b.drop off with
  | a :: c :: d :: e :: _ => some (a + 256 * c + 65536 * d + 16777216 * e)
  | _ => none

def words (b : Bytes) (off : Nat) : Nat → Option (List Nat)
  | 0 => some []
  | n + 1 =>
    match word b off, words b (off + 4) n with
    | some w, some ws => some (w :: ws)
    | _, _ => none

structure View where
  flags : Nat
  action : Nat
  fieldCount : Nat
  mask : List Nat
  fields : List Nat
  values : List Nat
  fieldFlags : List Nat
  bufLen : Nat
  buf : Bytes
  padding : Bytes
deriving Repr, DecidableEq

def headerSize : Nat := 4 + 4 + 4 + 4 * 64 + 4 * 64 + 4 * 64 + 4 * 64 + 4

def decode (b : Bytes) : Option View :=
  match word b 0, word b 4, word b 8, words b 12 64, words b 268 64, words b 524 64, words b 780 64, word b 1036 with
  | some f, some a, some c, some m, some fs, some vs, some ffs, some bl =>
    if headerSize + bl ≤ b.length then
      some { flags := f, action := a, fieldCount := c, mask := m, fields := fs, values := vs, fieldFlags := ffs,
             bufLen := bl, buf := (b.drop headerSize).take bl, padding := b.drop (headerSize + bl) }
    else none
  | _, _, _, _, _, _, _, _ => none

end LA.Spec.RuleLayout
