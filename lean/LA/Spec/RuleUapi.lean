/-
Hand-written specification of the Linux UAPI numbers (include/uapi/linux/audit.h) that the
library's constants must equal. Independent of the Go sources. (Values transcribed from
/usr/include/linux/audit.h of this sandbox.)
-/
namespace LA.Spec.RuleUapi

def fields : List (List Nat × Nat) := [
  ([97, 48], 200) /- a0 = AUDIT_ARG0 -/,
  ([97, 49], 201) /- a1 = AUDIT_ARG1 -/,
  ([97, 50], 202) /- a2 = AUDIT_ARG2 -/,
  ([97, 51], 203) /- a3 = AUDIT_ARG3 -/,
  ([97, 114, 99, 104], 11) /- arch = AUDIT_ARCH -/,
  ([97, 117, 105, 100], 9) /- auid = AUDIT_LOGINUID -/,
  ([100, 101, 118, 109, 97, 106, 111, 114], 100) /- devmajor = AUDIT_DEVMAJOR -/,
  ([100, 101, 118, 109, 105, 110, 111, 114], 101) /- devminor = AUDIT_DEVMINOR -/,
  ([100, 105, 114], 107) /- dir = AUDIT_DIR -/,
  ([101, 103, 105, 100], 6) /- egid = AUDIT_EGID -/,
  ([101, 117, 105, 100], 2) /- euid = AUDIT_EUID -/,
  ([101, 120, 101], 112) /- exe = AUDIT_EXE -/,
  ([101, 120, 105, 116], 103) /- exit = AUDIT_EXIT -/,
  ([102, 105, 108, 101, 116, 121, 112, 101], 108) /- filetype = AUDIT_FILETYPE -/,
  ([102, 115, 103, 105, 100], 8) /- fsgid = AUDIT_FSGID -/,
  ([102, 115, 117, 105, 100], 4) /- fsuid = AUDIT_FSUID -/,
  ([103, 105, 100], 5) /- gid = AUDIT_GID -/,
  ([105, 110, 111, 100, 101], 102) /- inode = AUDIT_INODE -/,
  ([107, 101, 121], 210) /- key = AUDIT_FILTERKEY -/,
  ([109, 115, 103, 116, 121, 112, 101], 12) /- msgtype = AUDIT_MSGTYPE -/,
  ([111, 98, 106, 95, 103, 105, 100], 110) /- obj_gid = AUDIT_OBJ_GID -/,
  ([111, 98, 106, 95, 108, 101, 118, 95, 104, 105, 103, 104], 23) /- obj_lev_high = AUDIT_OBJ_LEV_HIGH -/,
  ([111, 98, 106, 95, 108, 101, 118, 95, 108, 111, 119], 22) /- obj_lev_low = AUDIT_OBJ_LEV_LOW -/,
  ([111, 98, 106, 95, 114, 111, 108, 101], 20) /- obj_role = AUDIT_OBJ_ROLE -/,
  ([111, 98, 106, 95, 116, 121, 112, 101], 21) /- obj_type = AUDIT_OBJ_TYPE -/,
  ([111, 98, 106, 95, 117, 105, 100], 109) /- obj_uid = AUDIT_OBJ_UID -/,
  ([111, 98, 106, 95, 117, 115, 101, 114], 19) /- obj_user = AUDIT_OBJ_USER -/,
  ([112, 97, 116, 104], 105) /- path = AUDIT_WATCH -/,
  ([112, 101, 114, 109], 106) /- perm = AUDIT_PERM -/,
  ([112, 101, 114, 115], 10) /- pers = AUDIT_PERS -/,
  ([112, 105, 100], 0) /- pid = AUDIT_PID -/,
  ([112, 112, 105, 100], 18) /- ppid = AUDIT_PPID -/,
  ([115, 97, 100, 100, 114, 95, 102, 97, 109], 113) /- saddr_fam = AUDIT_SADDR_FAM -/,
  ([115, 103, 105, 100], 7) /- sgid = AUDIT_SGID -/,
  ([115, 117, 98, 106, 95, 99, 108, 114], 17) /- subj_clr = AUDIT_SUBJ_CLR -/,
  ([115, 117, 98, 106, 95, 114, 111, 108, 101], 14) /- subj_role = AUDIT_SUBJ_ROLE -/,
  ([115, 117, 98, 106, 95, 115, 101, 110], 16) /- subj_sen = AUDIT_SUBJ_SEN -/,
  ([115, 117, 98, 106, 95, 116, 121, 112, 101], 15) /- subj_type = AUDIT_SUBJ_TYPE -/,
  ([115, 117, 98, 106, 95, 117, 115, 101, 114], 13) /- subj_user = AUDIT_SUBJ_USER -/,
  ([115, 117, 99, 99, 101, 115, 115], 104) /- success = AUDIT_SUCCESS -/,
  ([115, 117, 105, 100], 3) /- suid = AUDIT_SUID -/,
  ([117, 105, 100], 1) /- uid = AUDIT_UID -/]
def operators : List (List Nat × Nat) := [
  ([33, 61], 805306368) /- != = AUDIT_NOT_EQUAL -/,
  ([38], 134217728) /- & = AUDIT_BIT_MASK -/,
  ([38, 61], 1207959552) /- &= = AUDIT_BIT_TEST -/,
  ([60], 268435456) /- < = AUDIT_LESS_THAN -/,
  ([60, 61], 1342177280) /- <= = AUDIT_LESS_THAN_OR_EQUAL -/,
  ([61], 1073741824) /- = = AUDIT_EQUAL -/,
  ([62], 536870912) /- > = AUDIT_GREATER_THAN -/,
  ([62, 61], 1610612736) /- >= = AUDIT_GREATER_THAN_OR_EQUAL -/]
def lists : List (List Nat × Nat) := [([101, 120, 99, 108, 117, 100, 101], 5), ([101, 120, 105, 116], 4), ([116, 97, 115, 107], 1), ([117, 115, 101, 114], 0)]
def actions : List (List Nat × Nat) := [([97, 108, 119, 97, 121, 115], 2), ([110, 101, 118, 101, 114], 0)]
def AUDIT_FIELD_COMPARE : Nat := 111
def AUDIT_MAX_FIELDS : Nat := 64
def AUDIT_BITMASK_SIZE : Nat := 64
def AUDIT_MAX_KEY_LEN : Nat := 256
def AUDIT_PERM_EXEC : Nat := 1
def AUDIT_PERM_WRITE : Nat := 2
def AUDIT_PERM_READ : Nat := 4
def AUDIT_PERM_ATTR : Nat := 8
def AUDIT_GET : Nat := 1000
def AUDIT_SET : Nat := 1001
def AUDIT_STATUS_ENABLED : Nat := 1
def AUDIT_STATUS_FAILURE : Nat := 2
def AUDIT_STATUS_PID : Nat := 4
def AUDIT_STATUS_RATE_LIMIT : Nat := 8
def AUDIT_STATUS_BACKLOG_LIMIT : Nat := 16
def AUDIT_STATUS_BACKLOG_WAIT_TIME : Nat := 32
def AUDIT_STATUS_LOST : Nat := 64
def AUDIT_FAIL_SILENT : Nat := 0
def AUDIT_FAIL_PRINTK : Nat := 1
def AUDIT_FAIL_PANIC : Nat := 2
def AUDIT_ADD_RULE : Nat := 1011
def AUDIT_DEL_RULE : Nat := 1012
def AUDIT_LIST_RULES : Nat := 1013
def AUDIT_FILTER_ENTRY : Nat := 2
def AUDIT_FILTER_WATCH : Nat := 3
def AUDIT_FILTER_PREPEND : Nat := 16
def AUDIT_POSSIBLE : Nat := 1
def comparisons : List (String × Nat) := [
  ("AUDIT_COMPARE_UID_TO_OBJ_UID", 1),
  ("AUDIT_COMPARE_GID_TO_OBJ_GID", 2),
  ("AUDIT_COMPARE_EUID_TO_OBJ_UID", 3),
  ("AUDIT_COMPARE_EGID_TO_OBJ_GID", 4),
  ("AUDIT_COMPARE_AUID_TO_OBJ_UID", 5),
  ("AUDIT_COMPARE_SUID_TO_OBJ_UID", 6),
  ("AUDIT_COMPARE_SGID_TO_OBJ_GID", 7),
  ("AUDIT_COMPARE_FSUID_TO_OBJ_UID", 8),
  ("AUDIT_COMPARE_FSGID_TO_OBJ_GID", 9),
  ("AUDIT_COMPARE_UID_TO_AUID", 10),
  ("AUDIT_COMPARE_UID_TO_EUID", 11),
  ("AUDIT_COMPARE_UID_TO_FSUID", 12),
  ("AUDIT_COMPARE_UID_TO_SUID", 13),
  ("AUDIT_COMPARE_AUID_TO_FSUID", 14),
  ("AUDIT_COMPARE_AUID_TO_SUID", 15),
  ("AUDIT_COMPARE_AUID_TO_EUID", 16),
  ("AUDIT_COMPARE_EUID_TO_SUID", 17),
  ("AUDIT_COMPARE_EUID_TO_FSUID", 18),
  ("AUDIT_COMPARE_SUID_TO_FSUID", 19),
  ("AUDIT_COMPARE_GID_TO_EGID", 20),
  ("AUDIT_COMPARE_GID_TO_FSGID", 21),
  ("AUDIT_COMPARE_GID_TO_SGID", 22),
  ("AUDIT_COMPARE_EGID_TO_FSGID", 23),
  ("AUDIT_COMPARE_EGID_TO_SGID", 24),
  ("AUDIT_COMPARE_SGID_TO_FSGID", 25)]
/-- (field A, field B, comparison code) read off the AUDIT_COMPARE_A_TO_B names. -/
def comparePairs : List (Nat × Nat × Nat) := [
  (1, 109, 1) /- AUDIT_COMPARE_UID_TO_OBJ_UID -/,
  (5, 110, 2) /- AUDIT_COMPARE_GID_TO_OBJ_GID -/,
  (2, 109, 3) /- AUDIT_COMPARE_EUID_TO_OBJ_UID -/,
  (6, 110, 4) /- AUDIT_COMPARE_EGID_TO_OBJ_GID -/,
  (9, 109, 5) /- AUDIT_COMPARE_AUID_TO_OBJ_UID -/,
  (3, 109, 6) /- AUDIT_COMPARE_SUID_TO_OBJ_UID -/,
  (7, 110, 7) /- AUDIT_COMPARE_SGID_TO_OBJ_GID -/,
  (4, 109, 8) /- AUDIT_COMPARE_FSUID_TO_OBJ_UID -/,
  (8, 110, 9) /- AUDIT_COMPARE_FSGID_TO_OBJ_GID -/,
  (1, 9, 10) /- AUDIT_COMPARE_UID_TO_AUID -/,
  (1, 2, 11) /- AUDIT_COMPARE_UID_TO_EUID -/,
  (1, 4, 12) /- AUDIT_COMPARE_UID_TO_FSUID -/,
  (1, 3, 13) /- AUDIT_COMPARE_UID_TO_SUID -/,
  (9, 4, 14) /- AUDIT_COMPARE_AUID_TO_FSUID -/,
  (9, 3, 15) /- AUDIT_COMPARE_AUID_TO_SUID -/,
  (9, 2, 16) /- AUDIT_COMPARE_AUID_TO_EUID -/,
  (2, 3, 17) /- AUDIT_COMPARE_EUID_TO_SUID -/,
  (2, 4, 18) /- AUDIT_COMPARE_EUID_TO_FSUID -/,
  (3, 4, 19) /- AUDIT_COMPARE_SUID_TO_FSUID -/,
  (5, 6, 20) /- AUDIT_COMPARE_GID_TO_EGID -/,
  (5, 8, 21) /- AUDIT_COMPARE_GID_TO_FSGID -/,
  (5, 7, 22) /- AUDIT_COMPARE_GID_TO_SGID -/,
  (6, 8, 23) /- AUDIT_COMPARE_EGID_TO_FSGID -/,
  (6, 7, 24) /- AUDIT_COMPARE_EGID_TO_SGID -/,
  (7, 8, 25) /- AUDIT_COMPARE_SGID_TO_FSGID -/]
-- S_IF* file type bits (include/uapi/linux/stat.h)
def S_IFREG : Nat := 32768
def S_IFSOCK : Nat := 49152
def S_IFLNK : Nat := 40960
def S_IFBLK : Nat := 24576
def S_IFDIR : Nat := 16384
def S_IFCHR : Nat := 8192
def S_IFIFO : Nat := 4096

end LA.Spec.RuleUapi
