import LA.Model.ReasmConc
import LA.Drv.Util

/-!
Line-protocol command of the Conc family (property C11):

  conc run <maxInFlight> <timeoutNs> <thread> <thread> … | <schedule>

  thread   := <ops> { "/" <k> "=" <ops> }      main program, then the scripts of the thread's
                                                k-th Stream callback (k counts every callback
                                                made on that thread from 0, ReassemblyComplete
                                                and EventsLost alike, all nesting levels);
                                                callbacks without a script do nothing
  ops      := "-" | <op> { "," <op> }
  op       := "p" <id> ":" <seq> ":" <typ>      PushMessage of message <id>
            | "m"                               Maintain
            | "c"                               Close
  schedule := "-" | <tid> { "," <tid> }         thread ids, from 0 in the order given

Every clock read is 0 (the harness uses timeouts of ±1h, for which the clock is irrelevant).

Reply (one line):
  start=<p,…> pts=<p,…> ret=<r,…>/<r,…>/… cb=<tid>:g:<id,…>;<tid>:lost:<n>;… end=<p,…>
  start the yield point at which every thread waits initially (0: empty program)
  pts   per schedule entry: the yield point (numbers of /repo/verif_on.go) at which the picked
        thread waits after its step, 0 if it finished, "x" if the pick was skipped (no such
        unfinished thread)
  ret   per thread, in order of return: P (PushMessage returned), M / Me (Maintain nil / error),
        C / Ce (Close nil / error)
  cb    the global callback trace in order
  end   the yield point of every thread at the end (all 0 = terminal)
"-" stands for an empty list.  Anything malformed → bad-op.
-/
namespace LA.Drv.Conc
open LA LA.ReasmConc

structure State where
  dummy : Unit := ()

def init : State := {}

def parseOp (s : String) : Option Op :=
  if s == "m" then some (.maintain 0)
  else if s == "c" then some .close
  else match s.toList with
    | 'p' :: rest =>
      match (String.ofList rest).splitOn ":" with
      | [id, seq, typ] =>
        match id.toNat?, seq.toNat?, typ.toNat? with
        | some id, some seq, some typ =>
          if seq < 4294967296 && typ < 65536 then some (.push ⟨id, seq, typ⟩ 0 0) else none
        | _, _, _ => none
      | _ => none
    | _ => none

def parseOps (s : String) : Option (List Op) :=
  if s == "-" then some [] else (s.splitOn ",").mapM parseOp

def parseScript (s : String) : Option (Nat × List Op) :=
  match s.splitOn "=" with
  | [k, ops] =>
    match k.toNat?, parseOps ops with
    | some k, some ops => some (k, ops)
    | _, _ => none
  | _ => none

def lookupScript (tbl : List (Nat × List Op)) (k : Nat) : List Op :=
  match tbl.find? (fun p => p.1 == k) with
  | some p => p.2
  | none => []

def parseThread (s : String) : Option Prog :=
  match s.splitOn "/" with
  | [] => none
  | main :: scripts =>
    match parseOps main, scripts.mapM parseScript with
    | some main, some tbl => some { main := main, cbs := fun k _ => lookupScript tbl k }
    | _, _ => none

def parseSched (s : String) : Option (List Nat) :=
  if s == "-" then some [] else (s.splitOn ",").mapM (·.toNat?)

def commaOr (l : List String) : String := if l.isEmpty then "-" else ",".intercalate l

def renderRet : Ret → String
  | .push => "P" | .maintOk => "M" | .maintErr => "Me" | .closeOk => "C" | .closeErr => "Ce"

def renderCb : Ev → Option String
  | .cb i (.group ms) => some (toString i ++ ":g:" ++ ",".intercalate (ms.map (fun m => toString m.id)))
  | .cb i (.lost n) => some (toString i ++ ":lost:" ++ toString n)
  | .cb i .err => some (toString i ++ ":err")
  | _ => none

def pointOf (s : Sys) (i : Nat) : Nat :=
  match s.threads[i]? with
  | some t => t.point
  | none => 0

/-- run the schedule, recording after every pick where the picked thread now waits. -/
def runPts (s : Sys) : List Nat → List String → Sys × List String
  | [], acc => (s, acc.reverse)
  | i :: is, acc =>
    match step s i with
    | some s' => runPts s' is (toString (pointOf s' i) :: acc)
    | none => runPts s is ("x" :: acc)

def render (s0 s : Sys) (pts : List String) : String :=
  let cbs := s.trace.reverse.filterMap renderCb
  "start=" ++ commaOr (s0.threads.map (fun t => toString t.point)) ++
  " pts=" ++ commaOr pts ++
  " ret=" ++ "/".intercalate (s.threads.map (fun t => commaOr (t.rets.map renderRet))) ++
  " cb=" ++ (if cbs.isEmpty then "-" else ";".intercalate cbs) ++
  " end=" ++ commaOr (s.threads.map (fun t => toString t.point))

def splitBar (args : List String) : Option (List String × List String) :=
  match args.span (· != "|") with
  | (a, _ :: b) => some (a, b)
  | _ => none

def cmd (s : State) (args : List String) : State × String :=
  match args with
  | "run" :: m :: t :: rest =>
    match m.toInt?, t.toInt?, splitBar rest with
    | some m, some t, some (threads, [sched]) =>
      match threads.mapM parseThread, parseSched sched with
      | some progs, some sched =>
        if progs.isEmpty then (s, "bad-op") else
        let s0 := LA.ReasmConc.init m t progs
        let r := runPts s0 sched []
        (s, render s0 r.1 r.2)
      | _, _ => (s, "bad-op")
    | _, _, _ => (s, "bad-op")
  | _ => (s, "bad-op")

end LA.Drv.Conc
