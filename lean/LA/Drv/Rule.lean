import LA.Drv.Util
import LA.Model.Flags

/-! line-protocol commands of the rule family (C06, C07, C13, C14). -/
namespace LA.Drv.Rule
open LA LA.Rule LA.Flags
open LA.Auparse (Res)

structure State where
  dummy : Unit := ()

def init : State := {}

def toNats (b : LA.Drv.Bytes) : LA.Bytes := b.map (·.toNat)
def hexN (b : LA.Bytes) : String := LA.Drv.hex (b.map (fun n => UInt8.ofNat n))

def unhexN (s : String) : Option LA.Bytes := (LA.Drv.unhex s).map toNats

def hexList (l : List LA.Bytes) : String := ",".intercalate (l.map hexN)

def unhexList (s : String) : Option (List LA.Bytes) :=
  if s.isEmpty then some [] else (s.splitOn ",").mapM unhexN

def renderFilter (f : FilterSpec) : String := s!"{f.typ}.{hexN f.lhs}.{hexN f.op}.{hexN f.rhs}"

def renderRule : Rule → String
  | .syscall t l a fs ss ks => s!"S;{t};{hexN l};{hexN a};{",".intercalate (fs.map renderFilter)};{hexList ss};{hexList ks}"
  | .watch p perms ks => s!"W;{hexN p};{String.join (perms.map toString)};{hexList ks}"
  | .deleteAll ks => s!"D;{hexList ks}"

def parseFilterSpec (s : String) : Option FilterSpec :=
  match s.splitOn "." with
  | [t, l, o, r] =>
    match t.toNat?, unhexN l, unhexN o, unhexN r with
    | some t, some l, some o, some r => some ⟨t, l, o, r⟩
    | _, _, _, _ => none
  | _ => none

def parseRule (s : String) : Option Rule :=
  match s.splitOn ";" with
  | ["S", t, l, a, fs, ss, ks] =>
    match t.toNat?, unhexN l, unhexN a, (if fs.isEmpty then some [] else (fs.splitOn ",").mapM parseFilterSpec), unhexList ss, unhexList ks with
    | some t, some l, some a, some fs, some ss, some ks => some (.syscall t l a fs ss ks)
    | _, _, _, _, _, _ => none
  | ["W", p, perms, ks] =>
    match unhexN p, unhexList ks with
    | some p, some ks => some (.watch p (perms.toList.map (fun c => c.toNat - 48)) ks)
    | _, _ => none
  | ["D", ks] => (unhexList ks).map Rule.deleteAll
  | _ => none

def parseLookups (s : String) : Option (List (LA.Bytes × Nat)) :=
  if s == "-" then some [] else
  (s.splitOn ",").mapM (fun e => match e.splitOn ":" with
    | [n, v] => match unhexN n, v.toNat? with
      | some n, some v => some (n, v)
      | _, _ => none
    | _ => none)

def parseEnv (d u g : String) : Option Env :=
  match parseLookups u, parseLookups g with
  | some u, some g => some { isDir := d == "1", users := u, groups := g }
  | _, _ => none

def renderRes : Res LA.Bytes → String
  | .ok b => hexN b
  | .err _ => "err"
  | .panic => "panic"

/-- inputs outside the fidelity domain: Unicode case mapping applies to these values. -/
def unicodeSensitive (r : Rule) : Bool :=
  match r with
  | .syscall _ _ _ fs _ _ =>
    fs.any (fun f => (f.lhs == ofString "arch" || f.lhs == ofString "filetype" || f.lhs == ofString "msgtype") && !isAscii f.rhs)
  | _ => false

def cmd (s : State) (args : List String) : State × String :=
  match args with
  | "flags" :: "parse" :: toks =>
    match toks.mapM unhexN with
    | some toks =>
      match parseArgs toks with
      | some r => (s, renderRule r)
      | none => (s, "err")
    | none => (s, "bad-op")
  | "pipe" :: d :: u :: g :: toks =>
    match parseEnv d u g, toks.mapM unhexN with
    | some env, some toks =>
      match parseArgs toks with
      | none => (s, "P:err")
      | some r =>
        if unicodeSensitive r then (s, "unmodelled:unicode-case") else
        let b := build env r
        let c := match b with
          | .ok wf => renderRes (toCommandLine wf)
          | _ => "-"
        (s, s!"P:{renderRule r}|B:{renderRes b}|C:{c}")
    | _, _ => (s, "bad-op")
  | ["build", d, u, g, spec] =>
    match parseEnv d u g, parseRule spec with
    | some env, some r =>
      if unicodeSensitive r then (s, "unmodelled:unicode-case") else (s, renderRes (build env r))
    | _, _ => (s, "bad-op")
  | ["cmdline", h] =>
    match unhexN h with
    | some wf => (s, renderRes (toCommandLine wf))
    | none => (s, "bad-op")
  | _ => (s, "bad-op")

end LA.Drv.Rule
