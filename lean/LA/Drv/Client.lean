import LA.Model.Client
import LA.Drv.Util

/-!
Line-protocol commands of the Client family (`cli …`, `nl …`).

```
cli new <seq0> <bufLen> <closeOk>          → ok
cli plans <plan> …                         → ok        plan = P<0|1>[,item]…   (one per coming request)
cli enqueue <item> …                       → ok        unsolicited traffic put on the receive queue
      item = i | a | f | n | r<hex> | x<delta>:<hex>  (EINTR, EAGAIN, hard failure, no messages,
             datagram, datagram whose sequence field is overwritten by own+delta)
cli <op> <args>                            → ret=<class> data=<d> sent=<typ.flags.seq.hex;…> recvs=<n> pending=<n,…> closes=<n> queue=<n>
cli late                                   → every byte slice returned so far, read now
cli fromwire <hex receiver image> <hexbuf> → err:eof | <hex image>
nl ser <typ> <flags> <seq> <pid> <hex>     → <hex>
nl send <cpid> <cseq> <typ> <flags> <pid> <hex> → <seq> <hex>
nl parse <hex>                             → err | <len>.<typ>.<flags>.<seq>.<pid>.<hexdata>
nl recv <hex|e> <k<pid>.<groups>|o>         → err:<class> | <as parse>
nl perr <hex>                              → nil | errno:<n> | err
```
-/
namespace LA.Drv.Client
open LA LA.Netlink LA.Client

structure State where
  st   : St := St.init 0 0 true
  refs : List Ref := []

def init : State := {}

def renderErr : Err → String
  | .errno n => "errno:" ++ toString n
  | .eof => "err:eof"
  | _ => "err"

def hexList (bs : List Bytes) : String :=
  if bs.isEmpty then "none" else ",".intercalate (bs.map hex)

def renderData (buf : Bytes) : Data → String
  | .none => "-"
  | .status s => "st:" ++ hex s.toWire
  | .rules rs => "rules:" ++ hexList (rs.map (Ref.deref buf))
  | .count n => "count:" ++ toString n
  | .seq n => "seq:" ++ toString n
  | .raw t d => "raw:" ++ toString t ++ ":" ++ hex (d.deref buf)

def refsOf : Data → List Ref
  | .rules rs => rs
  | .raw _ d => [d]
  | _ => []

def renderSent (m : Sent) : String :=
  toString m.typ ++ "." ++ toString m.flags ++ "." ++ toString m.seq ++ "." ++ hex m.data

def natList (l : List Nat) : String :=
  if l.isEmpty then "-" else ",".intercalate (l.map toString)

def renderStep (s0 s1 : St) (o : Out) : String :=
  let ret := match o with
    | .ok _ => "nil"
    | .fail e => renderErr e
    | .panic => "panic"
  let data := match o with
    | .ok d => renderData s1.buf d
    | _ => "-"
  let newSent := s1.sent.drop s0.sent.length
  "ret=" ++ ret ++ " data=" ++ data ++
  " sent=" ++ (if newSent.isEmpty then "-" else ";".intercalate (newSent.map renderSent)) ++
  " recvs=" ++ toString (s1.recvs - s0.recvs) ++
  " pending=" ++ natList s1.pending ++
  " closes=" ++ toString s1.closes ++
  " queue=" ++ toString s1.queue.length

def parseItem (w : String) : Option PItem :=
  match w.toList with
  | ['i'] => some ⟨.eintr, none⟩
  | ['a'] => some ⟨.eagain, none⟩
  | ['f'] => some ⟨.fail, none⟩
  | ['n'] => some ⟨.nothing, none⟩
  | 'r' :: rest => (unhex (String.ofList rest)).map fun b => ⟨.raw b, none⟩
  | 'x' :: rest =>
    match (String.ofList rest).splitOn ":" with
    | [d, h] =>
      match d.toNat?, unhex h with
      | some d, some b => some ⟨.raw b, some d⟩
      | _, _ => none
    | _ => none
  | _ => none

def parsePlan (w : String) : Option Plan :=
  match w.splitOn "," with
  | "P1" :: items => (items.mapM parseItem).map fun is => { sendOk := true, items := is }
  | "P0" :: items => (items.mapM parseItem).map fun is => { sendOk := false, items := is }
  | _ => none

def parseBool (w : String) : Option Bool :=
  if w == "1" then some true else if w == "0" then some false else none

def parseOp (args : List String) : Option Op :=
  match args with
  | ["getstatus"] => some .getStatus
  | ["getstatusasync", a] => (parseBool a).map .getStatusAsync
  | ["getrules"] => some .getRules
  | ["deleterules"] => some .deleteRules
  | ["deleterule", h] => (unhex h).map .deleteRule
  | ["addrule", h] => (unhex h).map .addRule
  | ["setpid", p, wm] => do some (.setPID (← p.toNat?) (← wm.toNat?))
  | ["setratelimit", v, wm] => do some (.setRateLimit (← v.toNat?) (← wm.toNat?))
  | ["setbackloglimit", v, wm] => do some (.setBacklogLimit (← v.toNat?) (← wm.toNat?))
  | ["setenabled", e, wm] => do some (.setEnabled (← parseBool e) (← wm.toNat?))
  | ["setimmutable", wm] => do some (.setImmutable (← wm.toNat?))
  | ["setfailure", fm, wm] => do some (.setFailure (← fm.toNat?) (← wm.toNat?))
  | ["setbacklogwaittime", w, wm] => do some (.setBacklogWaitTime (← w.toInt?) (← wm.toNat?))
  | ["wait"] => some .waitAcks
  | ["close"] => some .close
  | ["receive"] => some .receive
  | _ => none

def renderMsg (m : Msg) : String :=
  toString m.hdr.len ++ "." ++ toString m.hdr.typ ++ "." ++ toString m.hdr.flags ++ "." ++
  toString m.hdr.seq ++ "." ++ toString m.hdr.pid ++ "." ++ hex m.data

def parseFrom (w : String) : Option From :=
  match w.toList with
  | ['o'] => some .other
  | 'k' :: rest =>
    match (String.ofList rest).splitOn "." with
    | [p, g] => do some (.netlink (← p.toNat?) (← g.toNat?))
    | _ => none
  | _ => none

def renderRecvErr : RecvErr → String
  | .sys => "err:sys"
  | .tooShort => "err:short"
  | .notKernel => "err:notkernel"
  | .writer => "err:writer"
  | .parse => "err:parse"

def parseAuditOpt (b : Bytes) : Option Msg :=
  match parseAudit b with
  | .ok m => some m
  | _ => none

def nlCmd (args : List String) : String :=
  match args with
  | ["ser", t, f, q, p, h] =>
    match t.toNat?, f.toNat?, q.toNat?, p.toNat?, unhex h with
    | some t, some f, some q, some p, some d => hex (serialize ⟨⟨0, t, f, q, p⟩, d⟩)
    | _, _, _, _, _ => "bad-op"
  | ["send", cp, cs, t, f, p, h] =>
    match cp.toNat?, cs.toNat?, t.toNat?, f.toNat?, p.toNat?, unhex h with
    | some cp, some cs, some t, some f, some p, some d =>
      let r := NL.send ⟨cp, cs⟩ ⟨⟨0, t, f, 0, p⟩, d⟩
      toString r.2.1 ++ " " ++ hex r.2.2
    | _, _, _, _, _, _ => "bad-op"
  | ["parse", h] =>
    match unhex h with
    | some b =>
      match parseAudit b with
      | .ok m => renderMsg m
      | .err => "err"
      | .oob => "oob"
    | none => "bad-op"
  | ["recv", h, src] =>
    if h == "e" then
      match NL.receive (α := Msg) none true parseAuditOpt with
      | .ok m => renderMsg m
      | .error e => renderRecvErr e
    else
      match unhex h, parseFrom src with
      | some b, some src =>
        match NL.receive (some (b, src)) true parseAuditOpt with
        | .ok m => renderMsg m
        | .error e => renderRecvErr e
      | _, _ => "bad-op"
  | ["perr", h] =>
    match unhex h with
    | some b =>
      match parseNetlinkError b with
      | .none => "nil"
      | .errno n => "errno:" ++ toString n
      | .short => "err"
      | .oob => "oob"
    | none => "bad-op"
  | _ => "bad-op"

def cmd (s : State) (args : List String) : State × String :=
  match args with
  | "nl" :: rest => (s, nlCmd rest)
  | ["new", q, b, c] =>
    match q.toNat?, b.toNat?, parseBool c with
    | some q, some b, some c => ({ st := St.init q b c, refs := [] }, "ok")
    | _, _, _ => (s, "bad-op")
  | "plans" :: ws =>
    match ws.mapM parsePlan with
    | some ps =>
      let tooBig := ps.any fun p => p.items.any fun it =>
        match it.item with
        | .raw b => b.length > s.st.buf.length
        | _ => false
      if tooBig then (s, "unmodelled:datagram-exceeds-receive-buffer")
      else ({ s with st := (step s.st (.plans ps)).1 }, "ok")
    | none => (s, "bad-op")
  | "enqueue" :: ws =>
    match ws.mapM parseItem with
    | some its =>
      let tooBig := its.any fun it =>
        match it.item with
        | .raw b => b.length > s.st.buf.length
        | _ => false
      if tooBig then (s, "unmodelled:datagram-exceeds-receive-buffer")
      else ({ s with st := (step s.st (.enqueue (its.map (·.item)))).1 }, "ok")
    | none => (s, "bad-op")
  | ["late"] => (s, hexList (s.refs.map (Ref.deref s.st.buf)))
  | ["fromwire", r, h] =>
    match unhex r, unhex h with
    | some r, some b =>
      if r.length ≠ 44 then (s, "bad-op") else
      match fromWireBytes (Status.ofBytes r) b with
      | some img => (s, hex img)
      | none => (s, "err:eof")
    | _, _ => (s, "bad-op")
  | _ =>
    match parseOp args with
    | some op =>
      let r := step s.st op
      let refs := match r.2 with
        | .ok d => refsOf d
        | _ => []
      ({ st := r.1, refs := s.refs ++ refs }, renderStep s.st r.1 r.2)
    | none => (s, "bad-op")

end LA.Drv.Client
