import LA.Drv.Util

/-! line-protocol commands of the Tables family (filled in with its model). -/
namespace LA.Drv.Tables

structure State where
  dummy : Unit := ()

def init : State := {}

def cmd (s : State) (_args : List String) : State × String := (s, "bad-op")

end LA.Drv.Tables
