import LA.Drv.Util
import LA.Model.MsgType
import LA.Model.TablesCat

/-! line-protocol commands of the Tables family (C20). -/
namespace LA.Drv.Tables
open LA

structure State where
  dummy : Unit := ()

def init : State := {}

def toNats (b : LA.Drv.Bytes) : LA.Bytes := b.map (·.toNat)
def ofNats (b : LA.Bytes) : LA.Drv.Bytes := b.map (fun n => UInt8.ofNat n)
def hexN (b : LA.Bytes) : String := LA.Drv.hex (ofNats b)

def optNat : Option Nat → String
  | some n => toString n
  | none => "none"

def optBytes : Option LA.Bytes → String
  | some b => "some:" ++ hexN b
  | none => "none"

def cmd (s : State) (args : List String) : State × String :=
  match args with
  | ["typename", t] =>
    match t.toNat? with
    | some t => (s, hexN (MsgType.typeName t))
    | none => (s, "bad-op")
  | ["marshal", t] =>
    match t.toNat? with
    | some t => (s, hexN (MsgType.marshalText t))
    | none => (s, "bad-op")
  | ["gettype", h] =>
    match LA.Drv.unhex h with
    | some b => let n := toNats b
      if isAscii n then (s, optNat (MsgType.getType n)) else (s, "unmodelled:non-ascii")
    | none => (s, "bad-op")
  | ["errnoname", n] =>
    match n.toNat? with
    | some n => (s, optBytes (Tables.errnoName n))
    | none => (s, "bad-op")
  | ["errnonum", h] =>
    match LA.Drv.unhex h with
    | some b => (s, optNat (Tables.errnoNum (toNats b)))
    | none => (s, "bad-op")
  | ["archname", n] =>
    match n.toNat? with
    | some n => (s, optBytes (Tables.archName n))
    | none => (s, "bad-op")
  | ["archcode", h] =>
    match LA.Drv.unhex h with
    | some b => (s, optNat (Tables.archCode (toNats b)))
    | none => (s, "bad-op")
  | ["sysname", a, n] =>
    match LA.Drv.unhex a, n.toNat? with
    | some a, some n => (s, optBytes (Tables.syscallName (toNats a) n))
    | _, _ => (s, "bad-op")
  | ["sysnum", a, h] =>
    match LA.Drv.unhex a, LA.Drv.unhex h with
    | some a, some b => (s, optNat (Tables.syscallNum (toNats a) (toNats b)))
    | _, _ => (s, "bad-op")
  | ["category", t] =>
    match t.toNat? with
    | some t => (s, toString (Tables.category t))
    | none => (s, "bad-op")
  | _ => (s, "bad-op")

end LA.Drv.Tables
