/-
Helpers shared by the line-protocol drivers: hex transport of byte strings.
-/
namespace LA.Drv

abbrev Bytes := List UInt8

def hexDigit? (c : Char) : Option Nat :=
  if '0' ≤ c ∧ c ≤ '9' then some (c.toNat - '0'.toNat)
  else if 'a' ≤ c ∧ c ≤ 'f' then some (c.toNat - 'a'.toNat + 10)
  else if 'A' ≤ c ∧ c ≤ 'F' then some (c.toNat - 'A'.toNat + 10)
  else none

def unhexAux : List Char → Bytes → Option Bytes
  | [], acc => some acc.reverse
  | [_], _ => none
  | a :: b :: rest, acc =>
    match hexDigit? a, hexDigit? b with
    | some x, some y => unhexAux rest (UInt8.ofNat (x * 16 + y) :: acc)
    | _, _ => none

/-- "-" is the empty byte string. -/
def unhex (s : String) : Option Bytes :=
  if s == "-" then some [] else unhexAux s.toList []

def hexChar (n : Nat) : Char :=
  if n < 10 then Char.ofNat ('0'.toNat + n) else Char.ofNat ('a'.toNat + n - 10)

def hex (b : Bytes) : String :=
  if b.isEmpty then "-" else
  String.ofList (b.flatMap fun x => [hexChar (x.toNat / 16), hexChar (x.toNat % 16)])

def words (line : String) : List String :=
  (line.trimAscii.toString.splitOn " ").filter (· ≠ "")

end LA.Drv
