import LA.Drv.Util
import LA.Model.Auparse

/-! line-protocol commands of the parser family (C04, C05, C12). -/
namespace LA.Drv.Auparse
open LA LA.Auparse

structure State where
  dummy : Unit := ()

def init : State := {}

def toNats (b : LA.Drv.Bytes) : LA.Bytes := b.map (·.toNat)
def hexN (b : LA.Bytes) : String := LA.Drv.hex (b.map (fun n => UInt8.ofNat n))

def lexLt : LA.Bytes → LA.Bytes → Bool
  | [], [] => false
  | [], _ :: _ => true
  | _ :: _, [] => false
  | a :: as, b :: bs => if a < b then true else if b < a then false else lexLt as bs

def insertKV (p : LA.Bytes × LA.Bytes) : List (LA.Bytes × LA.Bytes) → List (LA.Bytes × LA.Bytes)
  | [] => [p]
  | q :: rest => if lexLt p.1 q.1 then p :: q :: rest else q :: insertKV p rest

def sortKV (l : List (LA.Bytes × LA.Bytes)) : List (LA.Bytes × LA.Bytes) := l.foldr insertKV []

def renderMsg : Res Msg → String
  | .ok m => s!"t={m.typ} s={m.sec} ns={m.nsec} q={m.seq} raw={hexN m.raw}"
  | .err c => "err:" ++ c
  | .panic => "panic"

def renderTags (t : List LA.Bytes) : String := "tags=" ++ ",".intercalate (t.map hexN)

def renderData (d : DataOut) : String :=
  match d.data with
  | .ok kvs => "ok " ++ ",".intercalate ((sortKV kvs).map (fun p => hexN p.1 ++ "=" ++ hexN p.2)) ++ ";" ++ renderTags d.tags
  | .err c => "err:" ++ c ++ ";" ++ renderTags d.tags
  | .panic => "panic"

def cmd (s : State) (args : List String) : State × String :=
  match args with
  | ["line", h] =>
    match LA.Drv.unhex h with
    | some b =>
      let l := toNats b
      if modelledLine l then (s, renderMsg (parseLogLine l)) else (s, "unmodelled:typename")
    | none => (s, "bad-op")
  | ["parse", t, h] =>
    match t.toNat?, LA.Drv.unhex h with
    | some t, some b => (s, renderMsg (parse t (toNats b)))
    | _, _ => (s, "bad-op")
  | ["data", t, h] =>
    match t.toNat?, LA.Drv.unhex h with
    | some t, some b =>
      match parse t (toNats b) with
      | .ok m =>
        if m.offset ≥ 0 ∧ !(modelledBody t (m.raw.drop m.offset.toNat)) then (s, "unmodelled:avc")
        else
          -- Data() twice through the cache cell: both results must agree (rendered once if equal)
          let r1 := dataCached m none
          let r2 := dataCached m r1.2
          let a := renderData r1.1
          let b := renderData r2.1
          (s, if a == b then a else "unstable:" ++ a ++ "|" ++ b)
      | .err c => (s, "err:" ++ c)
      | .panic => (s, "panic")
    | _, _ => (s, "bad-op")
  | ["mapstr", t, h] =>
    match t.toNat?, LA.Drv.unhex h with
    | some t, some b =>
      match parse t (toNats b) with
      | .ok m =>
        if m.offset ≥ 0 ∧ !(modelledBody t (m.raw.drop m.offset.toNat)) then (s, "unmodelled:avc")
        else
          let ms := toMapStr m (dataOf m)
          let render : MVal → String
            | .str b => hexN b
            | .tags t => "[" ++ ",".intercalate (t.map hexN) ++ "]"
            | .timestamp sec nsec => s!"ts({sec},{nsec})"
          let kvs := ms.map (fun p => (p.1, (render p.2).toUTF8.toList.map (·.toNat)))
          (s, ",".intercalate ((sortKV kvs).map (fun p => hexN p.1 ++ "=" ++ String.ofList (p.2.map (fun n => Char.ofNat n)))))
      | .err c => (s, "err:" ++ c)
      | .panic => (s, "panic")
    | _, _ => (s, "bad-op")
  | _ => (s, "bad-op")

end LA.Drv.Auparse
