import LA.Model.Reasm
import LA.Drv.Util

namespace LA.Drv.Reasm
open LA

abbrev State := LA.Reasm.St

def init : State := LA.Reasm.init 0 0

def renderOuts (outs : List LA.Reasm.Out) : String :=
  if outs.isEmpty then "-" else
  ";".intercalate (outs.map fun
    | .group ms => "g:" ++ ",".intercalate (ms.map (fun m => toString m.id))
    | .lost n => "lost:" ++ toString n
    | .err => "err")

def cmd (s : State) (args : List String) : State × String :=
  match args with
  | ["new", m, t] =>
    match m.toInt?, t.toInt? with
    | some m, some t => (LA.Reasm.init m t, "ok")
    | _, _ => (s, "bad-op")
  | ["push", id, seq, typ, tp, tc] =>
    match id.toNat?, seq.toNat?, typ.toNat?, tp.toInt?, tc.toInt? with
    | some id, some seq, some typ, some tp, some tc =>
      let r := LA.Reasm.step s (.push ⟨id, seq, typ⟩ tp tc)
      (r.1, renderOuts r.2)
    | _, _, _, _, _ => (s, "bad-op")
  | ["nil"] => (s, "-")
  | ["fail"] => (s, "err")
  | ["maintain", t] =>
    match t.toInt? with
    | some t => let r := LA.Reasm.step s (.maintain t); (r.1, renderOuts r.2)
    | none => (s, "bad-op")
  | ["close"] => let r := LA.Reasm.step s .close; (r.1, renderOuts r.2)
  | ["buf"] => (s, ",".intercalate (s.buf.map (fun p => toString p.1)))
  | _ => (s, "bad-op")

end LA.Drv.Reasm
