import LA.Model.Coalesce
import LA.Model.CoalesceHeap
import LA.Drv.Util

/-!
Line-protocol commands of the Coalesce family (first word `coal`).

```
coal run <view> <view> …          → <event> | err:empty | err:nosyscall | panic      (pure model, C09)
coal reset                         → ok            (C15: fresh heap holding the regenerated tables)
coal msg <view>                    → <id>          (new message object, cache empty)
coal touch <id>                    → ok            (somebody called Data() on it)
coal coalesce <id,id,…>            → <k> <event>   | err:… | panic    (k = index of the new event in the pool)
coal resolve <k> <lookups>         → <event>
coal obs                           → <event>|<event>|…   (every event of the pool as it reads now)
coal msgs                          → <view>|<view>|…     (what every message reports now)
```
view    = `<typ>/<seq>/<ts>/<data>/<tags>`; data = `!` (Data() failed) | `_` | `hk:hv,hk:hv`; tags = `_` | `h,h`
lookups = `<u>/<g>/<un>/<gn>`, each `_` | `hk:hv,…` (id→name for users, groups; name→id for users, groups)
-/
namespace LA.Drv.Coalesce
open LA LA.Coalesce

structure State where
  heap : LA.Coalesce.Heap := LA.Coalesce.Heap.init LA.Coalesce.genTables
  pool : List LA.Coalesce.EventH := []

def init : State := {}

/-! ### parsing -/

def parsePairs (s : String) : Option KV :=
  if s == "_" then some [] else
  (s.splitOn ",").foldr (fun item acc =>
    match acc, item.splitOn ":" with
    | some l, [k, v] =>
      match unhex k, unhex v with
      | some k, some v => some ((k, v) :: l)
      | _, _ => none
    | _, _ => none) (some [])

def parseList (s : String) : Option (List Bytes) :=
  if s == "_" then some [] else
  (s.splitOn ",").foldr (fun item acc =>
    match acc, unhex item with
    | some l, some b => some (b :: l)
    | _, _ => none) (some [])

def parseView (w : String) : Option View :=
  match w.splitOn "/" with
  | [typ, seq, ts, data, tags] =>
    match typ.toNat?, seq.toNat?, ts.toNat?, parseList tags with
    | some typ, some seq, some ts, some tags =>
      if data == "!" then some { typ, seq, ts, data := none, tags }
      else match parsePairs data with
        | some d => some { typ, seq, ts, data := some d, tags }
        | none => none
    | _, _, _, _ => none
  | _ => none

def parseViews (ws : List String) : Option (List View) :=
  ws.foldr (fun w acc => match acc, parseView w with
    | some l, some v => some (v :: l)
    | _, _ => none) (some [])

def parseNats (s : String) : Option (List Nat) :=
  if s == "_" then some [] else
  (s.splitOn ",").foldr (fun item acc => match acc, item.toNat? with
    | some l, some n => some (n :: l)
    | _, _ => none) (some [])

def tableFn (m : KV) : Bytes → Bytes := fun k => getD k m

def parseLookups (w : String) : Option Lookups :=
  match w.splitOn "/" with
  | [u, g, un, gn] =>
    match parsePairs u, parsePairs g, parsePairs un, parsePairs gn with
    | some u, some g, some un, some gn =>
      some { userById := tableFn u, groupById := tableFn g, userByName := tableFn un, groupByName := tableFn gn }
    | _, _, _, _ => none
  | _ => none

/-! ### canonical rendering (the Go side prints the same text from the real *Event) -/

def strLe (a b : String) : Bool := !(decide (b < a))

def renderMap (m : KV) : String :=
  let items := (m.map fun p => (hex p.1, hex p.2)).mergeSort (fun a b => strLe a.1 b.1)
  "[" ++ ",".intercalate (items.map fun p => p.1 ++ ":" ++ p.2) ++ "]"

def renderList (l : List Bytes) : String := "[" ++ ",".intercalate (l.map hex) ++ "]"

def renderWarn : Warn → String
  | .dataErr => "dataerr"
  | .parseFail t =>
    if t = PATH then "parse:path" else if t = SOCKADDR then "parse:sockaddr"
    else if t = EXECVE then "parse:execve" else "parse:other"
  | .sockaddrNoSyscall => "sockaddr-nosyscall"
  | .dupKey k t => "dup:" ++ hex k ++ ":" ++ toString t
  | .noArgc => "noargc"
  | .badArgc => "badargc"
  | .noArg k => "noarg:" ++ hex k
  | .noNorm => "nonorm"
  | .fileObj => "fileobj"
  | .subjPrimary => "subjp"
  | .subjSecondary => "subjs"
  | .objPrimary => "objp"
  | .objSecondary => "objs"
  | .how => "how"
  | .sourceIP => "srcip"

def renderFile : Option File → String
  | none => "nil"
  | some f => ",".intercalate [hex f.path, hex f.device, hex f.inode, hex f.mode, hex f.uid, hex f.gid,
                               hex f.owner, hex f.group, renderMap f.selinux]

def renderAddr : Option Addr → String
  | none => "nil"
  | some a => ",".intercalate [hex a.hostname, hex a.ip, hex a.port, hex a.path]

def renderEntity (x : Entity) : String := hex x.name ++ "," ++ hex x.id

def renderEvent (e : Event) : String :=
  ";".intercalate [
    "ts=" ++ toString e.ts, "seq=" ++ toString e.seq, "cat=" ++ toString e.cat, "typ=" ++ toString e.typ,
    "result=" ++ hex e.result, "session=" ++ hex e.session, "tags=" ++ renderList e.tags,
    "ap=" ++ hex e.actorPrimary, "as=" ++ hex e.actorSecondary, "action=" ++ hex e.action,
    "ot=" ++ hex e.objType, "op=" ++ hex e.objPrimary, "os=" ++ hex e.objSecondary, "how=" ++ hex e.how,
    "ids=" ++ renderMap e.ids, "names=" ++ renderMap e.names, "selinux=" ++ renderMap e.selinux,
    "pid=" ++ hex e.pid, "ppid=" ++ hex e.ppid, "title=" ++ hex e.title, "pname=" ++ hex e.pname,
    "exe=" ++ hex e.exe, "cwd=" ++ hex e.cwd, "args=" ++ renderList e.args,
    "file=" ++ renderFile e.file, "src=" ++ renderAddr e.source, "dst=" ++ renderAddr e.dest,
    "net=" ++ toString (e.net.getD 0),
    "data=" ++ renderMap e.data, "paths=" ++ "|".intercalate (e.paths.map renderMap),
    "kind=" ++ hex e.ecsKind, "ecat=" ++ renderList e.ecsCategory, "etype=" ++ renderList e.ecsType,
    "outcome=" ++ hex e.ecsOutcome,
    "eu=" ++ renderEntity e.ecsUser, "ee=" ++ renderEntity e.ecsEffective, "et=" ++ renderEntity e.ecsTarget,
    "ec=" ++ renderEntity e.ecsChanges, "eg=" ++ renderEntity e.ecsGroup,
    "warn=" ++ ",".intercalate ((e.warnings.map renderWarn).mergeSort strLe)]

def renderOutcome : Outcome Event → String
  | .ok e => renderEvent e
  | .err .empty => "err:empty"
  | .err .noSyscall => "err:nosyscall"
  | .panic => "panic"

def renderParsed (p : Parsed) : String :=
  (match p.data with
   | none => "!"
   | some d => renderMap d) ++ "/" ++ renderList p.tags

/-! ### commands -/

def cmd (s : State) (args : List String) : State × String :=
  match args with
  | "run" :: ws =>
    match parseViews ws with
    | some vs => (s, renderOutcome (coalesce genTables vs))
    | none => (s, "bad-op")
  | ["reset"] => ({}, "ok")
  | ["msg", w] =>
    match parseView w with
    | some v =>
      let r := s.heap.newMsg v
      ({ s with heap := r.1 }, toString r.2)
    | none => (s, "bad-op")
  | ["touch", i] =>
    match i.toNat? with
    | some i => ({ s with heap := (dataH s.heap i).1 }, "ok")
    | none => (s, "bad-op")
  | ["coalesce", ids] =>
    match parseNats ids with
    | some ids =>
      let r := coalesceH genTables s.heap ids
      match r.2 with
      | .ok eh => ({ heap := r.1, pool := s.pool ++ [eh] }, toString s.pool.length ++ " " ++ renderEvent (deref r.1 eh))
      | .err .empty => ({ s with heap := r.1 }, "err:empty")
      | .err .noSyscall => ({ s with heap := r.1 }, "err:nosyscall")
      | .panic => ({ s with heap := r.1 }, "panic")
    | none => (s, "bad-op")
  | ["resolve", k, lk] =>
    match k.toNat?, parseLookups lk with
    | some k, some L =>
      match s.pool[k]? with
      | some eh =>
        let eh' := resolveH L eh
        ({ s with pool := s.pool.set k eh' }, renderEvent (deref s.heap eh'))
      | none => (s, "bad-op")
    | _, _ => (s, "bad-op")
  | ["obs"] => (s, "|".intercalate (s.pool.map fun eh => renderEvent (deref s.heap eh)))
  | ["msgs"] => (s, "|".intercalate (s.heap.msgs.map fun c => renderParsed (obsCell c)))
  | _ => (s, "bad-op")

end LA.Drv.Coalesce
