/-
Helper lemmas about Model.Client: the receive path (receive, tryRecv, getReply).
No property statements here; those live in LA/Props.
-/
import LA.Model.Client
import LA.Proofs.Netlink

namespace LA.Client
open LA.Netlink

/-! ### what a receive leaves alone -/

/-- the parts of the state that receiving never touches -/
structure Frame (s s' : St) : Prop where
  seq      : s'.seq = s.seq
  plans    : s'.plans = s.plans
  sent     : s'.sent = s.sent
  closes   : s'.closes = s.closes
  closeOk  : s'.closeOk = s.closeOk
  pending  : s'.pending = s.pending
  clearPID : s'.clearPID = s.clearPID
  once     : s'.once = s.once

theorem Frame.refl (s : St) : Frame s s := ⟨rfl, rfl, rfl, rfl, rfl, rfl, rfl, rfl⟩

theorem Frame.trans {a b c : St} (h1 : Frame a b) (h2 : Frame b c) : Frame a c :=
  ⟨h2.seq.trans h1.seq, h2.plans.trans h1.plans, h2.sent.trans h1.sent, h2.closes.trans h1.closes,
   h2.closeOk.trans h1.closeOk, h2.pending.trans h1.pending, h2.clearPID.trans h1.clearPID, h2.once.trans h1.once⟩

theorem receive_frame (s : St) : Frame s (receive s).1 := by
  unfold receive
  split
  · exact ⟨rfl, rfl, rfl, rfl, rfl, rfl, rfl, rfl⟩
  · rename_i it q _
    cases it with
    | raw b => simp only; split <;> exact ⟨rfl, rfl, rfl, rfl, rfl, rfl, rfl, rfl⟩
    | _ => exact ⟨rfl, rfl, rfl, rfl, rfl, rfl, rfl, rfl⟩

theorem receive_recvs (s : St) : (receive s).1.recvs = s.recvs + 1 := by
  unfold receive
  split
  · rfl
  · rename_i it q _
    cases it with
    | raw b => simp only; split <;> rfl
    | _ => rfl

/-- a receive that yields a message consumed a queue item -/
theorem receive_queue (s : St) : (receive s).1.queue = s.queue.tail := by
  unfold receive
  split
  · rename_i h; simp [h]
  · rename_i it q h
    cases it with
    | raw b => simp only [h]; split <;> rfl
    | _ => simp [h]

theorem receive_msgs_nonempty {s s' : St} {m : Option Msg} (h : receive s = (s', .msgs m)) : s.queue ≠ [] := by
  intro hq
  unfold receive at h
  simp [hq] at h

theorem tryRecv_frame (n : Nat) (s : St) : Frame s (tryRecv n s).1 := by
  induction n generalizing s with
  | zero => exact Frame.refl s
  | succ n ih =>
    unfold tryRecv
    have hf := receive_frame s
    split
    · rename_i s' _ h
      rw [h] at hf
      exact hf.trans (ih s')
    · exact hf

theorem tryRecv_queue_le (n : Nat) (s : St) : (tryRecv n s).1.queue.length ≤ s.queue.length := by
  induction n generalizing s with
  | zero => exact Nat.le_refl _
  | succ n ih =>
    unfold tryRecv
    have hq := receive_queue s
    split
    · rename_i s' _ h
      rw [h] at hq
      have := ih s'
      rw [hq] at this
      simp at this; omega
    · rw [hq]; simp

/-- a message can only come out of a queue item -/
theorem tryRecv_some_lt {n : Nat} {s s' : St} {m : Msg} (h : tryRecv n s = (s', .msgs (some m))) :
    s'.queue.length < s.queue.length := by
  induction n generalizing s with
  | zero => simp [tryRecv] at h
  | succ n ih =>
    unfold tryRecv at h
    have hq := receive_queue s
    split at h
    · rename_i s1 _ h1
      rw [h1] at hq
      have := ih h
      rw [hq] at this
      simp at this; omega
    · rename_i hnt
      have hne : s.queue ≠ [] := by
        cases hr : receive s with
        | mk a b =>
          rw [hr] at h
          cases h
          exact receive_msgs_nonempty hr
      have : (receive s).1 = s' := by rw [h]
      rw [← this, hq]
      cases hs : s.queue with
      | nil => exact absurd hs hne
      | cons x xs => simp

theorem tryRecv_not_transient (n : Nat) (s : St) (b : Bool) : (tryRecv n s).2 ≠ .transient b := by
  induction n generalizing s with
  | zero => simp [tryRecv]
  | succ n ih =>
    unfold tryRecv
    split
    · exact ih _
    · rename_i hnt
      intro h
      cases hr : receive s with
      | mk a r =>
        rw [hr] at h
        simp only at h
        exact hnt a b (by rw [hr, h])

/-! ### getReply -/

theorem getReplyF_frame (seq f : Nat) (s : St) : Frame s (getReplyF seq f s).1 := by
  induction f generalizing s with
  | zero => exact Frame.refl s
  | succ f ih =>
    unfold getReplyF
    have hf := tryRecv_frame 10 s
    split
    all_goals (rename_i h; rw [h] at hf)
    · exact hf
    · exact hf
    · exact hf
    · split
      · exact hf.trans (ih _)
      · split <;> exact hf

theorem getReply_frame (seq : Nat) (s : St) : Frame s (getReply seq s).1 := getReplyF_frame _ _ _

theorem getReplyF_queue_le (seq f : Nat) (s : St) : (getReplyF seq f s).1.queue.length ≤ s.queue.length := by
  induction f generalizing s with
  | zero => exact Nat.le_refl _
  | succ f ih =>
    unfold getReplyF
    have hq := tryRecv_queue_le 10 s
    split
    all_goals (rename_i h; rw [h] at hq)
    · exact hq
    · exact hq
    · exact hq
    · split
      · exact Nat.le_trans (ih _) hq
      · split <;> exact hq

/-- the fuel `queue.length + 1` is enough: the `fuel` error is never produced -/
theorem getReplyF_fuel (seq f : Nat) (s : St) (h : s.queue.length < f) : (getReplyF seq f s).2 ≠ .error .fuel := by
  induction f generalizing s with
  | zero => omega
  | succ f ih =>
    unfold getReplyF
    split
    · simp
    · simp
    · simp
    · rename_i s' m hm
      split
      · exact ih s' (by have := tryRecv_some_lt hm; omega)
      · split <;> simp

/-- more fuel than needed changes nothing -/
theorem getReplyF_mono (seq f : Nat) (s : St) (h : s.queue.length < f) (g : Nat) :
    getReplyF seq (f + g) s = getReplyF seq f s := by
  induction f generalizing s with
  | zero => omega
  | succ f ih =>
    have : f + 1 + g = (f + g) + 1 := by omega
    rw [this]
    unfold getReplyF
    split
    · rfl
    · rfl
    · rfl
    · rename_i s' m hm
      split
      · exact ih s' (by have := tryRecv_some_lt hm; omega)
      · rfl

theorem getReply_fuel (seq : Nat) (s : St) : (getReply seq s).2 ≠ .error .fuel :=
  getReplyF_fuel _ _ _ (Nat.lt_succ_self _)

theorem getReply_eq_of_fuel (seq : Nat) (s : St) (f : Nat) (h : s.queue.length < f) :
    getReply seq s = getReplyF seq f s := by
  have h1 : f = (s.queue.length + 1) + (f - (s.queue.length + 1)) := by omega
  rw [h1, getReplyF_mono _ _ _ (Nat.lt_succ_self _)]
  rfl

/-! ### transient failures and unsolicited records -/

theorem receive_transient {s : St} {t : Item} {q : List Item} (hq : s.queue = t :: q) (ht : t.transient = true) :
    ∃ b, receive s = ({ s with queue := q, recvs := s.recvs + 1 }, .transient b) := by
  unfold receive
  rw [hq]
  cases t with
  | eintr => exact ⟨false, rfl⟩
  | eagain => exact ⟨true, rfl⟩
  | fail => simp [Item.transient] at ht
  | nothing => simp [Item.transient] at ht
  | raw b => simp [Item.transient] at ht

/-- fewer transient failures than tries: the retry loop gets to the item behind them -/
theorem tryRecv_skip (ts : List Item) (hts : ∀ t ∈ ts, t.transient = true) (n : Nat) (hn : ts.length < n)
    (s : St) (q : List Item) (hq : s.queue = ts ++ q) :
    tryRecv n s = tryRecv (n - ts.length) { s with queue := q, recvs := s.recvs + ts.length } := by
  induction ts generalizing n s with
  | nil =>
    simp only [List.nil_append] at hq
    simp only [List.length_nil, Nat.sub_zero, Nat.add_zero]
    congr 1
    cases s; simp only at hq; simp [hq]
  | cons t ts ih =>
    obtain ⟨n, rfl⟩ : ∃ k, n = k + 1 := ⟨n - 1, by simp at hn; omega⟩
    obtain ⟨b, hr⟩ := receive_transient (s := s) (t := t) (q := ts ++ q) (by simpa using hq) (hts t (List.mem_cons_self ..))
    conv => lhs; unfold tryRecv
    rw [hr]
    simp only
    rw [ih (fun t ht => hts t (List.mem_cons_of_mem _ ht)) n (by simp at hn; omega) _ rfl]
    simp only [List.length_cons]
    have e1 : n + 1 - (ts.length + 1) = n - ts.length := by omega
    rw [e1]
    congr 2
    omega

/-- as many transient failures as tries: the loop falls through with no message -/
theorem tryRecv_exhaust (ts : List Item) (hts : ∀ t ∈ ts, t.transient = true) (s : St) (q : List Item)
    (hq : s.queue = ts ++ q) :
    tryRecv ts.length s = ({ s with queue := q, recvs := s.recvs + ts.length }, .msgs none) := by
  induction ts generalizing s with
  | nil =>
    simp only [List.nil_append] at hq
    simp only [List.length_nil, tryRecv, Nat.add_zero]
    congr 1
    cases s; simp only at hq; simp [hq]
  | cons t ts ih =>
    obtain ⟨b, hr⟩ := receive_transient (s := s) (t := t) (q := ts ++ q) (by simpa using hq) (hts t (List.mem_cons_self ..))
    simp only [List.length_cons]
    conv => lhs; unfold tryRecv
    rw [hr]
    simp only
    rw [ih (fun t ht => hts t (List.mem_cons_of_mem _ ht)) _ rfl]
    congr 2
    dsimp only
    omega

theorem receive_raw {s : St} {b : Bytes} {q : List Item} (hq : s.queue = .raw b :: q) (hb : 16 ≤ b.length) :
    receive s = ({ s with queue := q, recvs := s.recvs + 1, buf := b ++ s.buf.drop b.length },
                 .msgs (some { hdr := Hdr.parse b, data := b.drop 16 })) := by
  unfold receive
  rw [hq]
  simp only [parseAudit_of_le hb]

/-- up to nine transient failures, then a datagram: the retry loop delivers the datagram -/
theorem tryRecv_datagram (ts : List Item) (hts : ∀ t ∈ ts, t.transient = true) (hn : ts.length ≤ 9)
    (s : St) (b : Bytes) (hb : 16 ≤ b.length) (q : List Item) (hq : s.queue = ts ++ .raw b :: q) :
    tryRecv 10 s = ({ s with queue := q, recvs := s.recvs + ts.length + 1, buf := b ++ s.buf.drop b.length },
                    .msgs (some { hdr := Hdr.parse b, data := b.drop 16 })) := by
  rw [tryRecv_skip ts hts 10 (by omega) s _ hq]
  obtain ⟨k, hk⟩ : ∃ k, 10 - ts.length = k + 1 := ⟨10 - ts.length - 1, by omega⟩
  rw [hk]
  unfold tryRecv
  rw [receive_raw (s := { s with queue := .raw b :: q, recvs := s.recvs + ts.length }) rfl hb]

/-! ### noise: unsolicited records and runs of transient failures -/

/-- an unsolicited record: a well-formed datagram whose sequence number is 0 -/
def IsEvent (b : Bytes) : Prop := 16 ≤ b.length ∧ (Hdr.parse b).seq = 0

/-- a run of transient failures no receive loop gives up on -/
def Retryable (ts : List Item) : Prop := (∀ t ∈ ts, t.transient = true) ∧ ts.length ≤ 9

/-- one piece of noise: up to nine transient failures, then an unsolicited record -/
structure Seg where
  ts : List Item
  ev : Bytes

def Seg.Ok (n : Seg) : Prop := Retryable n.ts ∧ IsEvent n.ev

def Seg.items (n : Seg) : List Item := n.ts ++ [.raw n.ev]

def noise (ns : List Seg) : List Item := ns.flatMap Seg.items

/-- `s'` is `s` after `k` more Receive calls that left `rest` on the queue -/
structure Consumed (s s' : St) (k : Nat) (rest : List Item) : Prop where
  frame : Frame s s'
  queue : s'.queue = rest
  recvs : s'.recvs = s.recvs + k

theorem Consumed.trans {a b c : St} {k l : Nat} {r1 r2 : List Item} (h1 : Consumed a b k r1) (h2 : Consumed b c l r2) :
    Consumed a c (k + l) r2 :=
  ⟨h1.frame.trans h2.frame, h2.queue, by rw [h2.recvs, h1.recvs]; omega⟩

/-- one piece of noise costs one iteration of the outer loop and is otherwise invisible -/
theorem getReplyF_seg (seq : Nat) (hseq : seq ≠ 0) (n : Seg) (hn : n.Ok) (s : St) (q : List Item)
    (hq : s.queue = n.items ++ q) (f : Nat) :
    getReplyF seq (f + 1) s =
      getReplyF seq f { s with queue := q, recvs := s.recvs + n.ts.length + 1, buf := n.ev ++ s.buf.drop n.ev.length } := by
  obtain ⟨⟨ht, hl⟩, hb, h0⟩ := hn
  conv => lhs; unfold getReplyF
  rw [tryRecv_datagram n.ts ht hl s n.ev hb q (by simpa [Seg.items] using hq)]
  simp only [h0, true_and]
  rw [if_pos hseq]

theorem getReplyF_noise (seq : Nat) (hseq : seq ≠ 0) (ns : List Seg) (hns : ∀ n ∈ ns, n.Ok) (s : St) (q : List Item)
    (hq : s.queue = noise ns ++ q) :
    ∃ s', Consumed s s' (noise ns).length q ∧ ∀ f, getReplyF seq (f + ns.length) s = getReplyF seq f s' := by
  induction ns generalizing s with
  | nil =>
    refine ⟨s, ⟨Frame.refl s, by simpa [noise] using hq, by simp [noise]⟩, fun f => rfl⟩
  | cons n ns ih =>
    have hq' : s.queue = n.items ++ (noise ns ++ q) := by simpa [noise, List.append_assoc] using hq
    let s1 : St := { s with queue := noise ns ++ q, recvs := s.recvs + n.ts.length + 1, buf := n.ev ++ s.buf.drop n.ev.length }
    obtain ⟨s', hc, hf⟩ := ih (fun m hm => hns m (List.mem_cons_of_mem _ hm)) s1 rfl
    have hc1 : Consumed s s1 (n.items.length) (noise ns ++ q) :=
      ⟨⟨rfl, rfl, rfl, rfl, rfl, rfl, rfl, rfl⟩, rfl, by simp [s1, Seg.items]; omega⟩
    refine ⟨s', ?_, ?_⟩
    · have := hc1.trans hc
      simpa [noise, List.length_append] using this
    · intro f
      have : f + (n :: ns).length = (f + ns.length) + 1 := by simp; omega
      rw [this, getReplyF_seg seq hseq n (hns n (List.mem_cons_self ..)) s _ hq' (f + ns.length)]
      exact hf f

/-- what a request with sequence number `own` finds on the queue: noise, a retryable run of
failures, then a datagram `b` that is not an unsolicited record, then `rest` -/
structure Dialogue (q : List Item) (ns : List Seg) (ts : List Item) (b : Bytes) (rest : List Item) : Prop where
  q_eq  : q = noise ns ++ (ts ++ .raw b :: rest)
  ns_ok : ∀ n ∈ ns, n.Ok
  ts_ok : Retryable ts
  b_len : 16 ≤ b.length
  b_seq : (Hdr.parse b).seq ≠ 0

def Dialogue.cost (ns : List Seg) (ts : List Item) : Nat := (noise ns).length + ts.length + 1

/-- the result of waiting for the reply to `seq` -/
def replyOf (seq : Nat) (b : Bytes) : Except Err Msg :=
  if (Hdr.parse b).seq = seq then .ok { hdr := Hdr.parse b, data := b.drop 16 }
  else .error (.seqMismatch (Hdr.parse b).seq)

theorem getReply_dialogue (seq : Nat) (hseq : seq ≠ 0) (s : St) {ns : List Seg} {ts : List Item} {b : Bytes}
    {rest : List Item} (d : Dialogue s.queue ns ts b rest) :
    (getReply seq s).2 = replyOf seq b ∧ Consumed s (getReply seq s).1 (Dialogue.cost ns ts) rest := by
  obtain ⟨s', hc, hf⟩ := getReplyF_noise seq hseq ns d.ns_ok s _ d.q_eq
  rw [getReply_eq_of_fuel seq s (s.queue.length + 1 + ns.length) (by omega), hf]
  conv => lhs; unfold getReplyF
  conv => rhs; arg 2; unfold getReplyF
  rw [tryRecv_datagram ts d.ts_ok.1 d.ts_ok.2 s' b d.b_len rest hc.queue]
  simp only [d.b_seq, false_and, if_false]
  by_cases he : (Hdr.parse b).seq = seq
  · simp only [he, ne_eq, not_true_eq_false, if_false, replyOf, if_true, true_and]
    have h2 : Consumed s' { s' with queue := rest, recvs := s'.recvs + ts.length + 1, buf := b ++ s'.buf.drop b.length } (ts.length + 1) rest :=
      ⟨⟨rfl, rfl, rfl, rfl, rfl, rfl, rfl, rfl⟩, rfl, by simp; omega⟩
    have := hc.trans h2
    simpa [Dialogue.cost, Nat.add_assoc] using this
  · simp only [ne_eq, he, not_false_eq_true, if_true, replyOf, if_false, true_and]
    have h2 : Consumed s' { s' with queue := rest, recvs := s'.recvs + ts.length + 1, buf := b ++ s'.buf.drop b.length } (ts.length + 1) rest :=
      ⟨⟨rfl, rfl, rfl, rfl, rfl, rfl, rfl, rfl⟩, rfl, by simp; omega⟩
    have := hc.trans h2
    simpa [Dialogue.cost, Nat.add_assoc] using this

/-- ten transient failures in a row (after any noise): "no reply received", exactly those consumed -/
theorem getReply_ten_failures (seq : Nat) (hseq : seq ≠ 0) (s : St) (ns : List Seg) (hns : ∀ n ∈ ns, n.Ok)
    (ts : List Item) (hts : ∀ t ∈ ts, t.transient = true) (hl : ts.length = 10) (rest : List Item)
    (hq : s.queue = noise ns ++ (ts ++ rest)) :
    (getReply seq s).2 = .error .noReply ∧ Consumed s (getReply seq s).1 ((noise ns).length + 10) rest := by
  obtain ⟨s', hc, hf⟩ := getReplyF_noise seq hseq ns hns s _ hq
  rw [getReply_eq_of_fuel seq s (s.queue.length + 1 + ns.length) (by omega), hf]
  conv => lhs; unfold getReplyF
  conv => rhs; arg 2; unfold getReplyF
  have := tryRecv_exhaust ts hts s' rest hc.queue
  rw [hl] at this
  rw [this]
  refine ⟨rfl, ?_⟩
  have h2 : Consumed s' { s' with queue := rest, recvs := s'.recvs + 10 } 10 rest :=
    ⟨⟨rfl, rfl, rfl, rfl, rfl, rfl, rfl, rfl⟩, rfl, rfl⟩
  exact hc.trans h2

/-! ### the ACK check -/

/-- what the ACK check makes of a datagram (`none` = NLMSG_ERROR carrying errno 0) -/
def ackCheck (b : Bytes) : Option Err :=
  if (Hdr.parse b).typ ≠ NLMSG_ERROR then some (.ackType (Hdr.parse b).typ)
  else if b.length < 20 then some .short
  else if rd32 b 16 = 0 then none
  else some (.errno (errnoOf (rd32 b 16)))

/-- the verdict datagram `b` carries for request `own` (`none` = acknowledged with errno 0) -/
def verdict (own : Nat) (b : Bytes) : Option Err :=
  if (Hdr.parse b).seq ≠ own then some (.seqMismatch (Hdr.parse b).seq) else ackCheck b

theorem parseNetlinkError_drop (b : Bytes) (hb : 16 ≤ b.length) :
    parseNetlinkError (b.drop 16) =
      if b.length < 20 then .short else if rd32 b 16 = 0 then .none else .errno (errnoOf (rd32 b 16)) := by
  have hlen : (b.drop 16).length = b.length - 16 := by simp
  unfold parseNetlinkError
  by_cases h : b.length < 20
  · rw [if_neg (by omega), if_pos h]
  · rw [if_pos (by omega), if_neg h]
    have hr : rd32 ((b.drop 16).take 4) 0 = rd32 b 16 := by
      rw [rd32_take _ _ _ (by omega), rd32_drop]
    unfold unsafeRead
    rw [if_pos (by omega)]
    simp only [hr]

theorem checkAck_parse (b : Bytes) (hb : 16 ≤ b.length) :
    checkAck { hdr := Hdr.parse b, data := b.drop 16 } = ackCheck b := by
  unfold checkAck ackCheck
  simp only [parseNetlinkError_drop b hb]
  by_cases h1 : (Hdr.parse b).typ ≠ NLMSG_ERROR
  · rw [if_pos h1, if_pos h1]
  · rw [if_neg h1, if_neg h1]
    by_cases h2 : b.length < 20
    · simp only [h2, if_true]
    · by_cases h3 : rd32 b 16 = 0
      · simp only [h2, h3, if_false, if_true]
      · simp only [h2, h3, if_false]

/-- send a request, wait for its acknowledgement, check it: the shape of AddRule, DeleteRule and
`set` in WaitForReply mode -/
def awaitAck (q : Nat) (s1 : St) : St × Out :=
  match getReply q s1 with
  | (s2, .error e) => (s2, .fail e)
  | (s2, .ok ack) =>
    match checkAck ack with
    | some e => (s2, .fail e)
    | none => (s2, .ok .none)

def outOfVerdict : Option Err → Out
  | none => .ok .none
  | some e => .fail e

theorem awaitAck_dialogue (own : Nat) (hown : own ≠ 0) (s1 : St) {ns : List Seg} {ts : List Item} {b : Bytes}
    {rest : List Item} (d : Dialogue s1.queue ns ts b rest) :
    (awaitAck own s1).2 = outOfVerdict (verdict own b) ∧
    Consumed s1 (awaitAck own s1).1 (Dialogue.cost ns ts) rest := by
  obtain ⟨hr, hc⟩ := getReply_dialogue own hown s1 d
  unfold awaitAck
  cases hg : getReply own s1 with
  | mk s2 r =>
    rw [hg] at hr hc
    simp only at hr hc
    subst hr
    unfold replyOf verdict
    by_cases he : (Hdr.parse b).seq = own
    · rw [if_pos he, if_neg (by simpa using he)]
      simp only [checkAck_parse b d.b_len]
      cases ackCheck b <;> exact ⟨rfl, hc⟩
    · rw [if_neg he, if_pos (by simpa using he)]
      exact ⟨rfl, hc⟩

end LA.Client
