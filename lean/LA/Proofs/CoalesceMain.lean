/-
Helper lemmas for C09 (and the C15 link): case analysis of `assemble`/`coalesce`, what
survives `applyNormalization` and `addProcess`, PATH records, the file summary.
-/
import LA.Proofs.CoalesceNorm

namespace LA.Coalesce

/-- the pair `(k, v)` is present somewhere in the event: Data (also under `socket_`+k), user
ids, SELinux labels (`subj_`+label), Result, Session, some PATH record, `process.args[i]`
for `k = a<i>`, a `process.*` field for pid/ppid/proctitle/comm/exe/cwd, or the source address. -/
def Located (e : Event) (k v : Bytes) : Prop :=
  lookup k e.data = some v ∨ lookup (kSocket_ ++ k) e.data = some v ∨
  StableLoc e k v ∨ ArgsLoc e k v ∨ ProcLoc e k v ∨ (∃ a, e.source = some a ∧ a.ip = v)

theorem assemble_ok_cases {T : Tables} {msgs : List View} {e0 : Event} (h : assemble T msgs = .ok e0) :
    (∃ m, filterEOE msgs = [m] ∧ e0 = newEvent T m m) ∨
    (∃ first second rest s, filterEOE msgs = first :: second :: rest ∧
      (first :: second :: rest).find? (fun v => decide (v.typ = SYSCALL)) = some s ∧
      e0 = (first :: second :: rest).foldl step (newEvent T first s)) := by
  unfold assemble at h
  cases hm : filterEOE msgs with
  | nil => rw [hm] at h; cases h
  | cons first rest =>
    cases rest with
    | nil =>
      rw [hm] at h
      simp only at h
      cases h
      exact Or.inl ⟨first, rfl, rfl⟩
    | cons second rest =>
      rw [hm] at h
      simp only at h
      split at h
      · cases h
      · rename_i s hs
        cases h
        exact Or.inr ⟨first, second, rest, s, rfl, hs, rfl⟩

theorem setObject_no_err (n : Norm) (e : Event) (x : CErr) : setObject n e ≠ .err x := by
  unfold setObject
  split
  · split
    · simp
    · split <;> simp
  · split <;> simp

theorem applyNorm_no_err (T : Tables) (e : Event) (x : CErr) : applyNorm T e ≠ .err x := by
  unfold applyNorm
  simp only
  split
  · simp
  · split
    · simp
    · rename_i y hy
      exact absurd hy (setObject_no_err _ _ _)
    · simp

theorem coalesce_ok_split {T : Tables} {msgs : List View} {e : Event} (h : coalesce T msgs = .ok e) :
    ∃ e0 e1, assemble T msgs = .ok e0 ∧ applyNorm T e0 = .ok e1 ∧ e = addProcess e1 := by
  unfold coalesce at h
  split at h
  · rename_i e0 h0
    split at h
    · rename_i e1 h1
      cases h
      exact ⟨e0, e1, h0, h1, rfl⟩
    · cases h
    · cases h
  · cases h
  · cases h

theorem socket_not_proc (k v : Bytes) (e : Event) : ¬ ProcLoc e (kSocket_ ++ k) v := by
  intro h
  rcases h with ⟨h, _⟩ | ⟨h, _⟩ | ⟨h, _⟩ | ⟨h, _⟩ | ⟨h, _⟩ | ⟨h, _⟩ <;>
    simp [kSocket_, kPid, kPpid, kProctitle, kComm, kExe, kCwd] at h

/-- what survives `applyNormalization` and `addProcess`. -/
theorem finish_located {T : Tables} {e0 e1 : Event} (h1 : applyNorm T e0 = .ok e1) (k v : Bytes) :
    (StableLoc e0 k v → Located (addProcess e1) k v) ∧
    (lookup k e0.data = some v → Located (addProcess e1) k v) ∧
    (lookup (kSocket_ ++ k) e0.data = some v → Located (addProcess e1) k v) ∧
    (ArgsLoc e0 k v → Located (addProcess e1) k v) ∧
    (∀ typ, Warned e0 typ k → Warned (addProcess e1) typ k) := by
  have hn := applyNorm_nframe T e0 e1 h1
  refine ⟨?_, ?_, ?_, ?_, ?_⟩
  · intro h
    refine Or.inr (Or.inr (Or.inl ?_))
    rcases h with h | ⟨hp, h⟩ | ⟨hk, h⟩ | ⟨hk, h⟩ | ⟨p, hp, h⟩
    · exact Or.inl (by show lookup k e1.ids = _; rw [hn.ids]; exact h)
    · exact Or.inr (Or.inl ⟨hp, by show lookup _ e1.selinux = _; rw [hn.selinux]; exact h⟩)
    · exact Or.inr (Or.inr (Or.inl ⟨hk, by show e1.result = _; rw [hn.result]; exact h⟩))
    · exact Or.inr (Or.inr (Or.inr (Or.inl ⟨hk, by show e1.session = _; rw [hn.session]; exact h⟩)))
    · exact Or.inr (Or.inr (Or.inr (Or.inr ⟨p, by show p ∈ e1.paths; rw [hn.paths]; exact hp, h⟩)))
  · intro h
    rcases hn.data k v h with h | ⟨a, ha, hv⟩
    · rcases addProcess_data e1 h with h | h
      · exact Or.inl h
      · exact Or.inr (Or.inr (Or.inr (Or.inr (Or.inl h))))
    · exact Or.inr (Or.inr (Or.inr (Or.inr (Or.inr ⟨a, ha, hv⟩))))
  · intro h
    rcases hn.data _ v h with h | ⟨a, ha, hv⟩
    · rcases addProcess_data e1 h with h | h
      · exact Or.inr (Or.inl h)
      · exact absurd h (socket_not_proc k v _)
    · exact Or.inr (Or.inr (Or.inr (Or.inr (Or.inr ⟨a, ha, hv⟩))))
  · intro ⟨i, hk, hi⟩
    exact Or.inr (Or.inr (Or.inr (Or.inl ⟨i, hk, by show e1.args[i]? = _; rw [hn.args]; exact hi⟩)))
  · intro typ h
    obtain ⟨w, hw⟩ := hn.warn
    have hm : ∀ x, x ∈ e0.warnings → x ∈ (addProcess e1).warnings := fun x hx => by
      show x ∈ e1.warnings; rw [hw]; exact List.mem_append_left _ hx
    rcases h with h | h | ⟨ht, h⟩ | ⟨ht, h | h | ⟨κ, h⟩⟩
    · exact Or.inl (hm _ h)
    · exact Or.inr (Or.inl (hm _ h))
    · exact Or.inr (Or.inr (Or.inl ⟨ht, hm _ h⟩))
    · exact Or.inr (Or.inr (Or.inr ⟨ht, Or.inl (hm _ h)⟩))
    · exact Or.inr (Or.inr (Or.inr ⟨ht, Or.inr (Or.inl (hm _ h))⟩))
    · exact Or.inr (Or.inr (Or.inr ⟨ht, Or.inr (Or.inr ⟨κ, hm _ h⟩)⟩))

theorem safeNA_finish {T : Tables} {e0 e1 : Event} (h1 : applyNorm T e0 = .ok e1) {typ : Nat} {k v : Bytes}
    (h : SafeNA e0 typ k v) : Located (addProcess e1) k v ∨ Warned (addProcess e1) typ k := by
  have f := finish_located h1 k v
  rcases h with h | h | ⟨_, h⟩ | h
  · exact Or.inl (f.1 h)
  · exact Or.inr (f.2.2.2.2 typ h)
  · exact Or.inl (f.2.1 h)
  · exact Or.inl (f.2.2.1 h)

theorem unique_syscall {recs : List View} (h : nSys recs = 1) {m s : View} (hm : m ∈ recs) (hs : s ∈ recs)
    (hmt : m.typ = SYSCALL) (hst : s.typ = SYSCALL) : m = s := by
  induction recs with
  | nil => cases hm
  | cons x tl ih =>
    rw [nSys_cons] at h
    by_cases hx : x.typ = SYSCALL
    · simp only [hx, if_true] at h
      have h0 : nSys tl = 0 := by omega
      have hz := nSys_zero h0
      rcases List.mem_cons.mp hm with rfl | hm'
      · rcases List.mem_cons.mp hs with rfl | hs'
        · rfl
        · exact absurd hst (hz s hs')
      · exact absurd hmt (hz m hm')
    · simp only [hx, if_false] at h
      rcases List.mem_cons.mp hm with rfl | hm'
      · exact absurd hmt hx
      · rcases List.mem_cons.mp hs with rfl | hs'
        · exact absurd hst hx
        · exact ih (by omega) hm' hs'

theorem items_routed : ∀ (e : Event) (v : Bytes), Routed e kItems v → lookup kItems e.data = some v := by
  intro e v h
  unfold Routed at h
  have h1 : ¬ (kItems = kResult ∨ kItems = kSes) := by decide
  have h2 : isIdKey kItems = false := by decide
  have h3 : hasPrefix kSubj_ kItems = false := by decide
  simpa [h1, h2, h3] using h

theorem newEvent_routed (T : Tables) (first src : View) {d : KV} (hd : src.data = some d) (hn : NoDupKeys d)
    {k v : Bytes} (h : (k, v) ∈ d) : Routed (newEvent T first src) k v := by
  unfold newEvent
  rw [hd]
  exact foldl_distribute_routes d _ hn h

theorem step_paths (e : Event) (m : View) :
    (step e m).paths = e.paths ++ (if m.typ = PATH then m.data.toList else []) := by
  unfold step
  by_cases h1 : m.typ = SYSCALL
  · have hsp : SYSCALL ≠ PATH := by decide
    simp [h1, hsp]
  · simp only [h1, if_false]
    by_cases h2 : m.typ = PATH
    · simp only [h2, if_true]
      unfold addPath
      cases m.data <;> simp [warn]
    · simp only [h2, if_false, List.append_nil]
      by_cases h3 : m.typ = SOCKADDR
      · simp only [h3, if_true]
        obtain ⟨x, hx⟩ := (addSockaddr_sframe True True m e).paths
        -- addSockaddr never appends a path
        unfold addSockaddr
        cases m.data with
        | none => simp [warn]
        | some d =>
          simp only
          cases lookup kSyscall e.data with
          | none => simp [warn]
          | some sc =>
            simp only
            have hp : ∀ (l : KV) (e : Event),
                (l.foldl (fun e kv => addField m.typ e (kSocket_ ++ kv.1, kv.2)) e).paths = e.paths := by
              intro l
              induction l with
              | nil => intro e; rfl
              | cons y l ih =>
                intro e
                simp only [List.foldl_cons, ih]
                unfold addField
                split <;> simp [warn]
            split
            · exact hp d e
            · split
              · exact hp d e
              · exact hp d e
      · simp only [h3, if_false]
        by_cases h4 : m.typ = EXECVE
        · simp only [h4, if_true]
          unfold addExecve
          have hf : ∀ (e : Event) (kv : Bytes × Bytes), (addField m.typ e kv).paths = e.paths := by
            intro e kv; unfold addField; split <;> simp [warn]
          cases m.data with
          | none => simp [warn]
          | some d =>
            simp only
            cases lookup kArgc d with
            | none => simp [warn]
            | some argc =>
              simp only
              cases parseUint 10 32 argc with
              | none => simp [warn, hf]
              | some n =>
                simp only
                cases collectArgs d n 0 <;> simp [warn, hf]
        · simp only [h4, if_false]
          unfold addOther
          cases m.data with
          | none => simp [warn]
          | some d =>
            simp only
            have hp : ∀ (l : KV) (e : Event), (l.foldl (addField m.typ) e).paths = e.paths := by
              intro l
              induction l with
              | nil => intro e; rfl
              | cons y l ih =>
                intro e
                simp only [List.foldl_cons, ih]
                unfold addField
                split <;> simp [warn]
            exact hp d e

theorem foldl_step_paths (recs : List View) (e : Event) :
    (recs.foldl step e).paths =
      e.paths ++ (recs.filter (fun m => decide (m.typ = PATH))).flatMap (fun m => m.data.toList) := by
  induction recs generalizing e with
  | nil => simp
  | cons m tl ih =>
    simp only [List.foldl_cons, ih, step_paths, List.filter_cons]
    by_cases h : m.typ = PATH <;> simp [h]

/-- what `setFileObject` derives from the PATH record `p` it selected. -/
def FileMirrors (e : Event) (objectWhat : Bytes) (p : KV) : Prop :=
  ∃ f, e.file = some f ∧ f.path = getD kName p ∧ f.inode = getD kInode p ∧ f.device = getD kRdev p ∧
    f.owner = [] ∧ f.group = [] ∧
    match lookup kMode p with
    | none =>
      f.mode = [] ∧ f.uid = getD kOuid p ∧ f.gid = getD kOgid p ∧ f.selinux = objLabels p ∧
      e.objType = objectWhat
    | some mv =>
      match parseUint 8 64 mv with
      | none =>
        f.mode = [] ∧ f.uid = [] ∧ f.gid = [] ∧ f.selinux = [] ∧ Warn.fileObj ∈ e.warnings ∧
        e.objType = objectWhat
      | some n =>
        f.mode = oct4 (n % 4096) ∧ f.uid = getD kOuid p ∧ f.gid = getD kOgid p ∧ f.selinux = objLabels p ∧
        e.objType = classifyMode (n % 4294967296) objectWhat

theorem fileFromPath_mirrors (e : Event) (p : KV) : FileMirrors (fileFromPath e p) e.objType p := by
  have hmod : ∀ n : Nat, n % 4294967296 % 4096 = n % 4096 := fun n => by omega
  unfold FileMirrors fileFromPath
  simp only
  cases hn : lookup kName p <;> cases hm : lookup kMode p <;> simp only
  · exact ⟨_, rfl, by simp⟩
  · cases hp : parseUint 8 64 _ with
    | none => exact ⟨_, rfl, by simp [warn]⟩
    | some n => exact ⟨_, rfl, by simp [hmod]⟩
  · exact ⟨_, rfl, by simp⟩
  · cases hp : parseUint 8 64 _ with
    | none => exact ⟨_, rfl, by simp [warn]⟩
    | some n => exact ⟨_, rfl, by simp [hmod]⟩


theorem coalesce_paths (T : Tables) (msgs : List View) (e : Event) (h : coalesce T msgs = .ok e) :
    e.paths = if (filterEOE msgs).length ≥ 2 then
      ((filterEOE msgs).filter (fun m => decide (m.typ = PATH))).flatMap (fun m => m.data.toList) else [] := by
  obtain ⟨e0, e1, h0, h1, rfl⟩ := coalesce_ok_split h
  have hn := applyNorm_nframe T e0 e1 h1
  show e1.paths = _
  rw [hn.paths]
  rcases assemble_ok_cases h0 with ⟨m, hm, rfl⟩ | ⟨first, second, rest, s, hm, _, rfl⟩
  · rw [hm]; simp [(newEvent_identity T m m).2.2.2.2.1]
  · rw [hm, foldl_step_paths, (newEvent_identity T first s).2.2.2.2.1]
    simp

/-! ### obj_ labels -/

theorem kObj_length : kObj_.length = 4 := rfl

def objStep (acc : KV) (kv : Bytes × Bytes) : KV :=
  if hasPrefix kObj_ kv.1 then setKV (kv.1.drop 4) kv.2 acc else acc

theorem objLabels_eq (p : KV) : objLabels p = p.foldl objStep [] := rfl

theorem foldl_objStep_preserves (r : KV) (acc : KV) {k v : Bytes} (hk : k ∉ keys r)
    (hp : hasPrefix kObj_ k = true) (h : lookup (k.drop 4) acc = some v) :
    lookup (k.drop 4) (r.foldl objStep acc) = some v := by
  induction r generalizing acc with
  | nil => exact h
  | cons q r ih =>
    simp only [List.foldl_cons]
    have hk' : q.1 ≠ k ∧ k ∉ keys r := by
      simp only [keys, List.map_cons, List.mem_cons, not_or] at hk
      exact ⟨fun h => hk.1 h.symm, hk.2⟩
    apply ih _ hk'.2
    unfold objStep
    split
    · rename_i hq
      rw [lookup_setKV_ne]
      · exact h
      · intro heq
        exact hk'.1 (eq_of_prefix_drop hq hp (by rw [kObj_length]; exact heq.symm))
    · exact h

theorem objLabels_spec (p : KV) (hn : NoDupKeys p) {k v : Bytes} (h : (k, v) ∈ p)
    (hp : hasPrefix kObj_ k = true) : lookup (k.drop 4) (objLabels p) = some v := by
  rw [objLabels_eq]
  suffices H : ∀ acc, lookup (k.drop 4) (p.foldl objStep acc) = some v from H []
  induction p with
  | nil => cases h
  | cons q r ih =>
    intro acc
    have hn' : q.1 ∉ keys r ∧ NoDupKeys r := by simpa [NoDupKeys, keys] using hn
    simp only [List.foldl_cons]
    rcases List.mem_cons.mp h with h | h
    · subst h
      apply foldl_objStep_preserves r _ hn'.1 hp
      simp [objStep, hp, lookup_setKV_self]
    · exact ih hn'.2 h _

/-! ### octal numerals -/

/-- positional value of a list of octal digits, most significant first. -/
def octValue (ds : List Nat) (acc : Nat) : Nat := ds.foldl (fun a d => a * 8 + d) acc

theorem digitVal_digitChar : ∀ d, d < 8 → digitVal (digitChar d) = some d := by decide

/-- `strconv.ParseUint(·, 8, 64)` reads an octal numeral as its positional value. -/
theorem parseDigits_octal (ds : List Nat) (hd : ∀ d ∈ ds, d < 8) (acc : Nat) :
    parseDigits 8 (ds.map digitChar) acc = some (octValue ds acc) := by
  induction ds generalizing acc with
  | nil => rfl
  | cons d r ih =>
    have hd0 : d < 8 := hd d (List.mem_cons_self ..)
    simp only [List.map_cons, parseDigits, digitVal_digitChar d hd0, hd0, if_true]
    exact ih (fun x hx => hd x (List.mem_cons_of_mem _ hx)) _

theorem parseUint_octal (ds : List Nat) (hne : ds ≠ []) (hd : ∀ d ∈ ds, d < 8)
    (hv : octValue ds 0 < 2 ^ 64) :
    parseUint 8 64 (ds.map digitChar) = some (octValue ds 0) := by
  unfold parseUint
  have : ds.map digitChar ≠ [] := by simpa using hne
  simp only [this, if_false, parseDigits_octal ds hd 0, hv, if_true]

end LA.Coalesce
