/-
Helper lemmas about Model.ReasmConc (no property statements here; those live in LA/Props/C11).

Method: every invariant is proved for one `step` from three local facts — one about `act`
(the action of the top frame), one about `settle` (plain returns), one about replacing a
thread in the thread list — and then carried along any schedule by `run_induct`.
Multiset reasoning is done on `List.count` so that `omega` can close the goals.
-/
import LA.Model.ReasmConc
import LA.Proofs.Reasm

namespace LA.ReasmConc
open LA.Reasm

/-! ### abstraction functions used by the property statements -/

/-- what `put` keeps of a message: EOE records only mark an event complete. -/
def stored (m : Msg) : List Msg := if m.typ == EOE then [] else [m]

def Ev.puts : Ev → List Msg
  | .put _ m => stored m
  | _ => []

def Ev.dels : Ev → List Msg
  | .cb _ (.group g) => g
  | _ => []

/-- the (non-EOE) messages whose `put` step has run. -/
def putLog (tr : List Ev) : List Msg := tr.flatMap Ev.puts

/-- the messages handed to `ReassemblyComplete` so far. -/
def delivered (tr : List Ev) : List Msg := tr.flatMap Ev.dels

/-- the callbacks a call frame still has to make (thread-local, detached from the table). -/
def Frame.outs : Frame → List Out
  | .evicted o _ => o
  | .deliver o _ => o
  | _ => []

def Frame.pend (f : Frame) : List Msg := groupsOf f.outs

def stackPend (stk : List Frame) : List Msg := stk.flatMap Frame.pend

/-- messages evicted from the table and waiting in some thread's locals to be delivered. -/
def pending (ts : List Thread) : List Msg := ts.flatMap (fun t => stackPend t.stack)

@[simp] theorem putLog_nil : putLog [] = [] := rfl
@[simp] theorem delivered_nil : delivered [] = [] := rfl
@[simp] theorem stackPend_nil : stackPend [] = [] := rfl
@[simp] theorem putLog_append (a b : List Ev) : putLog (a ++ b) = putLog a ++ putLog b := by
  simp [putLog]
@[simp] theorem delivered_append (a b : List Ev) : delivered (a ++ b) = delivered a ++ delivered b := by
  simp [delivered]
@[simp] theorem putLog_cons (e : Ev) (b : List Ev) : putLog (e :: b) = e.puts ++ putLog b := by
  simp [putLog]
@[simp] theorem delivered_cons (e : Ev) (b : List Ev) : delivered (e :: b) = e.dels ++ delivered b := by
  simp [delivered]
@[simp] theorem stackPend_cons (f : Frame) (s : List Frame) : stackPend (f :: s) = f.pend ++ stackPend s := by
  simp [stackPend]
@[simp] theorem stackPend_append (a b : List Frame) : stackPend (a ++ b) = stackPend a ++ stackPend b := by
  simp [stackPend]

/-! ### the shape of a step, and induction along a schedule -/

theorem step_some {s s' : Sys} {i : Tid} (h : step s i = some s') :
    ∃ t f stk, s.threads[i]? = some t ∧ t.stack = f :: stk ∧
      s' = { st := (act s.st i t.cbs t.cbCount f).st,
             trace := (act s.st i t.cbs t.cbCount f).evs ++ s.trace,
             threads := s.threads.set i (t.after (act s.st i t.cbs t.cbCount f) stk) } := by
  unfold step at h
  split at h
  · exact absurd h (by simp)
  · rename_i t ht
    split at h
    · exact absurd h (by simp)
    · rename_i f stk hstk
      exact ⟨t, f, stk, ht, hstk, (Option.some.inj h).symm⟩

theorem step_isSome_iff (s : Sys) (i : Tid) :
    (step s i).isSome = true ↔ ∃ t, s.threads[i]? = some t ∧ t.stack ≠ [] := by
  unfold step
  split
  · rename_i h; simp [h]
  · rename_i t ht
    split
    · rename_i h; simp [ht, h]
    · rename_i f stk h; simp [ht, h]

theorem run_induct {P : Sys → Prop} (hstep : ∀ s i s', step s i = some s' → P s → P s') :
    ∀ (sched : List Tid) (s : Sys), P s → P (run s sched) := by
  intro sched
  induction sched with
  | nil => intro s h; exact h
  | cons i is ih =>
    intro s h
    unfold run
    split
    · rename_i s' hs; exact ih s' (hstep s i s' hs h)
    · exact ih s h

/-! ### replacing one element of a list -/

theorem sum_map_set {α : Type} (g : α → Nat) :
    ∀ (l : List α) (i : Nat) (a a' : α), l[i]? = some a →
      ((l.set i a').map g).sum + g a = (l.map g).sum + g a' := by
  intro l
  induction l with
  | nil => intro i a a' h; simp at h
  | cons b l ih =>
    intro i a a' h
    cases i with
    | zero =>
      simp at h; subst h
      simp only [List.set_cons_zero, List.map_cons, List.sum_cons]; omega
    | succ i =>
      simp at h
      have := ih i a a' h
      simp only [List.set_cons_succ, List.map_cons, List.sum_cons]; omega

theorem count_flatMap_set {α β : Type} [BEq β] [LawfulBEq β] (f : α → List β) (x : β)
    (l : List α) (i : Nat) (a a' : α) (h : l[i]? = some a) :
    List.count x ((l.set i a').flatMap f) + List.count x (f a) =
      List.count x (l.flatMap f) + List.count x (f a') := by
  rw [List.count_flatMap, List.count_flatMap]
  exact sum_map_set (List.count x ∘ f) l i a a' h

/-! ### settle -/

theorem done_pend {f : Frame} {rs : List Ret} (h : f.done = some rs) : f.pend = [] := by
  cases f with
  | body ops => cases ops <;> simp [Frame.done] at h; simp [Frame.pend, Frame.outs, groupsOf]
  | deliver outs k => cases outs <;> simp [Frame.done] at h; simp [Frame.pend, Frame.outs, groupsOf]
  | _ => simp [Frame.done] at h

theorem settle_pend (stk : List Frame) : stackPend (settle stk).1 = stackPend stk := by
  induction stk with
  | nil => rfl
  | cons f stk ih =>
    unfold settle
    split
    · rename_i rs h; simp [ih, done_pend h]
    · rfl

theorem settle_suffix (stk : List Frame) : (settle stk).1 <:+ stk := by
  induction stk with
  | nil => exact List.suffix_refl _
  | cons f stk ih =>
    unfold settle
    split
    · exact List.IsSuffix.trans ih (List.suffix_cons _ _)
    · exact List.suffix_refl _

/-! ### conservation -/

theorem stored_count (s : St) (m : Msg) (t : Int) (x : Msg) :
    List.count x (allMsgs (put s m t).buf) = List.count x (stored m) + List.count x (allMsgs s.buf) := by
  have := (put_conserve s m t).count_eq x
  simpa [pushedOf, stored, List.count_append] using this

theorem evict_count (s : St) (r : Buf × Buf) (x : Msg) :
    List.count x (groupsOf (evictStep s r).2) + List.count x (allMsgs (evictStep s r).1.buf) =
      List.count x (allMsgs (r.1 ++ r.2)) := by
  rw [← evictStep_conserve s r, List.count_append]

theorem groupsOf_cons (o : Out) (outs : List Out) :
    groupsOf (o :: outs) = (match o with | .group g => g | _ => []) ++ groupsOf outs := by
  cases o <;> simp [groupsOf]

/-- local conservation: what the action of frame `f` does to delivered / pending / buffered / put. -/
theorem act_conserve (st : St) (i : Tid) (cbs : Nat → Out → List Op) (n : Nat) (f : Frame) (x : Msg) :
    List.count x (delivered (act st i cbs n f).evs) + List.count x (stackPend (act st i cbs n f).repl) +
        List.count x (allMsgs (act st i cbs n f).st.buf) =
      List.count x (putLog (act st i cbs n f).evs) + List.count x f.pend + List.count x (allMsgs st.buf) := by
  unfold act
  split
  · simp [Frame.pend, Frame.outs, groupsOf]
  · simp [Frame.pend, Frame.outs, groupsOf, Ev.puts, Ev.dels, stored_count]
  · split <;> simp [Frame.pend, Frame.outs, groupsOf, Ev.puts, Ev.dels]
  · split <;> simp [Frame.pend, Frame.outs, groupsOf, Ev.puts, Ev.dels]
  · rename_i t k
    have := evict_count st (cleanUp t st.maxSize st.buf) x
    rw [cleanUp_append] at this
    simp [Frame.pend, Frame.outs, Ev.puts, Ev.dels, groupsOf] at this ⊢
    omega
  · have := evict_count st (st.buf, []) x
    simp [Frame.pend, Frame.outs, Ev.puts, Ev.dels, groupsOf] at this ⊢
    omega
  · simp [Frame.pend, Frame.outs]
  · simp [Frame.pend, Frame.outs]
  · rename_i o outs k
    simp only [delivered_cons, delivered_nil, stackPend_cons, stackPend_nil, putLog_cons, putLog_nil,
      Frame.pend, Frame.outs, groupsOf_cons, List.count_append, List.append_nil]
    cases o <;> simp [Ev.dels, Ev.puts, groupsOf]

/-- nothing pending disappears: it stays pending or is delivered. -/
theorem act_mono (st : St) (i : Tid) (cbs : Nat → Out → List Op) (n : Nat) (f : Frame) (x : Msg) :
    List.count x f.pend ≤ List.count x (delivered (act st i cbs n f).evs) +
      List.count x (stackPend (act st i cbs n f).repl) := by
  unfold act
  split
  · simp [Frame.pend, Frame.outs, groupsOf]
  · simp [Frame.pend, Frame.outs, groupsOf]
  · split <;> simp [Frame.pend, Frame.outs, groupsOf]
  · split <;> simp [Frame.pend, Frame.outs, groupsOf]
  · simp [Frame.pend, Frame.outs, groupsOf]
  · simp [Frame.pend, Frame.outs, groupsOf]
  · simp [Frame.pend, Frame.outs]
  · simp [Frame.pend, Frame.outs]
  · rename_i o outs k
    simp only [delivered_cons, delivered_nil, stackPend_cons, stackPend_nil,
      Frame.pend, Frame.outs, groupsOf_cons, List.count_append, List.append_nil]
    cases o <;> simp [Ev.dels, groupsOf]

theorem after_pend (t : Thread) (a : Act) (stk : List Frame) :
    stackPend (t.after a stk).stack = stackPend a.repl ++ stackPend stk := by
  simp [Thread.after, settle_pend]

theorem pending_step (ts : List Thread) (i : Tid) (t : Thread) (f : Frame) (stk : List Frame) (a : Act)
    (ht : ts[i]? = some t) (hstk : t.stack = f :: stk) (x : Msg) :
    List.count x (pending (ts.set i (t.after a stk))) + List.count x f.pend =
      List.count x (pending ts) + List.count x (stackPend a.repl) := by
  have := count_flatMap_set (fun t => stackPend t.stack) x ts i t (t.after a stk) ht
  simp only [after_pend, hstk, stackPend_cons, List.count_append] at this
  unfold pending
  omega

/-- delivered ∪ pending ∪ buffered = put, as multisets. -/
def Conserved (s : Sys) : Prop :=
  ∀ x, List.count x (delivered s.trace) + List.count x (pending s.threads) +
    List.count x (allMsgs s.st.buf) = List.count x (putLog s.trace)

theorem conserved_step {s s' : Sys} {i : Tid} (h : step s i = some s') (hc : Conserved s) :
    Conserved s' := by
  obtain ⟨t, f, stk, ht, hstk, rfl⟩ := step_some h
  intro x
  have h1 := pending_step s.threads i t f stk (act s.st i t.cbs t.cbCount f) ht hstk x
  have h2 := act_conserve s.st i t.cbs t.cbCount f x
  have h3 := hc x
  simp only [delivered_append, putLog_append, List.count_append]
  omega

/-- delivered ∪ pending only grows. -/
theorem dp_step {s s' : Sys} {i : Tid} (h : step s i = some s') (x : Msg) :
    List.count x (delivered s.trace) + List.count x (pending s.threads) ≤
      List.count x (delivered s'.trace) + List.count x (pending s'.threads) := by
  obtain ⟨t, f, stk, ht, hstk, rfl⟩ := step_some h
  have h1 := pending_step s.threads i t f stk (act s.st i t.cbs t.cbCount f) ht hstk x
  have h2 := act_mono s.st i t.cbs t.cbCount f x
  simp only [delivered_append, List.count_append]
  omega

theorem mkThread_pend (p : Prog) : stackPend (mkThread p).stack = [] := by
  simp [mkThread, settle_pend, Frame.pend, Frame.outs, groupsOf]

theorem pending_init (progs : List Prog) : pending (progs.map mkThread) = [] := by
  induction progs with
  | nil => rfl
  | cons p ps ih =>
    simp only [pending, List.map_cons, List.flatMap_cons, mkThread_pend, List.nil_append] at ih ⊢
    exact ih

theorem conserved_init (maxSize timeout : Int) (progs : List Prog) :
    Conserved (init maxSize timeout progs) := by
  intro x; simp [init, pending_init, Reasm.init]

/-! ### Close flushes what was put before its Clear -/

theorem act_evs_length (st : St) (i : Tid) (cbs : Nat → Out → List Op) (n : Nat) (f : Frame) :
    (act st i cbs n f).evs.length ≤ 1 := by
  unfold act
  split <;> (try split) <;> simp

theorem act_clear (st : St) (i : Tid) (cbs : Nat → Out → List Op) (n : Nat) (f : Frame)
    (j : Tid) (outs : List Out) (h : Ev.clear j outs ∈ (act st i cbs n f).evs) :
    (act st i cbs n f).st.buf = [] := by
  unfold act at h ⊢
  split at h <;> (try split at h) <;> simp at h
  simp [evictStep]

/-- for every Clear in the history: whatever was put before it is delivered or pending. -/
def Flushed (s : Sys) : Prop :=
  ∀ later earlier j outs, s.trace = later ++ Ev.clear j outs :: earlier →
    ∀ m ∈ putLog earlier, 0 < List.count m (delivered s.trace) + List.count m (pending s.threads)

theorem flushed_step {s s' : Sys} {i : Tid} (h : step s i = some s') (hc : Conserved s)
    (hf : Flushed s) : Flushed s' := by
  have hc' := conserved_step h hc
  have hdp := dp_step h
  obtain ⟨t, f, stk, ht, hstk, hs'⟩ := step_some h
  have hlen := act_evs_length s.st i t.cbs t.cbCount f
  have hclr := act_clear s.st i t.cbs t.cbCount f
  intro later earlier j outs hsplit m hm
  have htr : s'.trace = (act s.st i t.cbs t.cbCount f).evs ++ s.trace := by rw [hs']
  have hst : s'.st = (act s.st i t.cbs t.cbCount f).st := by rw [hs']
  generalize (act s.st i t.cbs t.cbCount f) = a at *
  rcases hev : a.evs with _ | ⟨e, _ | ⟨e2, es⟩⟩
  · rw [htr, hev, List.nil_append] at hsplit
    have := hf later earlier j outs hsplit m hm
    have := hdp m
    omega
  · rw [htr, hev, List.singleton_append] at hsplit
    rcases List.cons_eq_append_iff.mp hsplit with ⟨hl, he⟩ | ⟨later', hl, he⟩
    · -- the step just taken is this Clear
      injection he with he1 he2
      have hb : s'.st.buf = [] := by
        rw [hst]; exact hclr j outs (by rw [hev, he1]; simp)
      have h3 := hc' m
      rw [hb, htr, hev] at h3
      have hm' : 0 < List.count m (putLog s.trace) := List.count_pos_iff.mpr (he2 ▸ hm)
      simp only [allMsgs_nil, List.count_nil, List.singleton_append, putLog_cons, List.count_append] at h3
      rw [htr, hev]
      simp only [List.singleton_append]
      omega
    · have := hf later' earlier j outs he m hm
      have := hdp m
      omega
  · rw [hev] at hlen; simp at hlen

theorem flushed_init (maxSize timeout : Int) (progs : List Prog) : Flushed (init maxSize timeout progs) := by
  intro later earlier j outs h
  simp [init] at h

/-! ### counting invariants: weights on frames, return values and history events -/

structure Weight where
  wf : Frame → Nat
  wr : Ret → Nat
  we : Ev → Nat

namespace Weight

def stack (w : Weight) (stk : List Frame) : Nat := (stk.map w.wf).sum
def rets (w : Weight) (rs : List Ret) : Nat := (rs.map w.wr).sum
def thread (w : Weight) (t : Thread) : Nat := w.stack t.stack + w.rets t.rets
def threads (w : Weight) (ts : List Thread) : Nat := (ts.map w.thread).sum
def trace (w : Weight) (tr : List Ev) : Nat := (tr.map w.we).sum

@[simp] theorem stack_nil (w : Weight) : w.stack [] = 0 := rfl
@[simp] theorem stack_cons (w : Weight) (f : Frame) (s : List Frame) : w.stack (f :: s) = w.wf f + w.stack s := by
  simp [stack]
@[simp] theorem stack_append (w : Weight) (a b : List Frame) : w.stack (a ++ b) = w.stack a + w.stack b := by
  simp [stack]
@[simp] theorem rets_nil (w : Weight) : w.rets [] = 0 := rfl
@[simp] theorem rets_cons (w : Weight) (r : Ret) (s : List Ret) : w.rets (r :: s) = w.wr r + w.rets s := by
  simp [rets]
@[simp] theorem rets_append (w : Weight) (a b : List Ret) : w.rets (a ++ b) = w.rets a + w.rets b := by
  simp [rets]
@[simp] theorem trace_nil (w : Weight) : w.trace [] = 0 := rfl
@[simp] theorem trace_cons (w : Weight) (e : Ev) (s : List Ev) : w.trace (e :: s) = w.we e + w.trace s := by
  simp [trace]
@[simp] theorem trace_append (w : Weight) (a b : List Ev) : w.trace (a ++ b) = w.trace a + w.trace b := by
  simp [trace]

/-- the weight is preserved by every action and by every plain return. -/
structure Sound (w : Weight) : Prop where
  act : ∀ st i cbs n f, w.stack (act st i cbs n f).repl + w.rets (act st i cbs n f).rets =
          w.wf f + w.trace (act st i cbs n f).evs
  done : ∀ f rs, f.done = some rs → w.wf f = w.rets rs
  body : ∀ ops, w.wf (.body ops) = 0

theorem settle_eq {w : Weight} (hw : w.Sound) (stk : List Frame) :
    w.stack (settle stk).1 + w.rets (settle stk).2 = w.stack stk := by
  induction stk with
  | nil => rfl
  | cons f stk ih =>
    unfold settle
    split
    · rename_i rs h
      have := hw.done f rs h
      simp only [rets_append, stack_cons]; omega
    · simp

theorem step_eq {w : Weight} (hw : w.Sound) {s s' : Sys} {i : Tid} (h : step s i = some s') :
    w.threads s'.threads + w.trace s.trace = w.threads s.threads + w.trace s'.trace := by
  obtain ⟨t, f, stk, ht, hstk, rfl⟩ := step_some h
  have h1 := sum_map_set w.thread s.threads i t (t.after (act s.st i t.cbs t.cbCount f) stk) ht
  have h2 := hw.act s.st i t.cbs t.cbCount f
  have h3 := settle_eq hw ((act s.st i t.cbs t.cbCount f).repl ++ stk)
  simp only [threads, trace_append]
  simp only [thread, Thread.after, hstk, rets_append, stack_cons, stack_append] at h1 h3 ⊢
  omega

/-- the invariant: the weight of all threads equals the weight of the history. -/
def Balanced (w : Weight) (s : Sys) : Prop := w.threads s.threads = w.trace s.trace

theorem balanced_step {w : Weight} (hw : w.Sound) {s s' : Sys} {i : Tid} (h : step s i = some s')
    (hb : w.Balanced s) : w.Balanced s' := by
  have := step_eq hw h
  unfold Balanced at *
  omega

theorem balanced_init {w : Weight} (hw : w.Sound) (maxSize timeout : Int) (progs : List Prog) :
    w.Balanced (init maxSize timeout progs) := by
  unfold Balanced init
  simp only [trace_nil, threads]
  induction progs with
  | nil => rfl
  | cons p ps ih =>
    simp only [List.map_cons, List.sum_cons, ih, Nat.add_zero]
    have := settle_eq hw [.body p.main]
    simp only [stack_cons, stack_nil, hw.body] at this
    simp only [thread, mkThread, rets_nil]
    omega

/-- in a terminal state only return values carry weight. -/
theorem threads_terminal (w : Weight) {ts : List Thread} (h : ∀ t ∈ ts, t.stack = []) :
    w.threads ts = (ts.map (fun t => w.rets t.rets)).sum := by
  induction ts with
  | nil => rfl
  | cons t ts ih =>
    have h1 := h t (List.mem_cons_self ..)
    have h2 := ih (fun t' ht' => h t' (List.mem_cons_of_mem _ ht'))
    simp only [threads] at h2
    simp [threads, thread, h1, h2]

end Weight

/-- successful CAS = a successful Close in progress or returned. -/
def wCas : Weight where
  wf | .clear => 1 | .clean _ .close => 1 | .evicted _ .close => 1 | .deliver _ .close => 1 | _ => 0
  wr | .closeOk => 1 | _ => 0
  we | .cas _ true => 1 | _ => 0

/-- Clear has run = a successful Close past its Clear or returned. -/
def wClr : Weight where
  wf | .clean _ .close => 1 | .evicted _ .close => 1 | .deliver _ .close => 1 | _ => 0
  wr | .closeOk => 1 | _ => 0
  we | .clear _ _ => 1 | _ => 0

/-- failed CAS = Close returned the error. -/
def wErr : Weight where
  wf _ := 0
  wr | .closeErr => 1 | _ => 0
  we | .cas _ false => 1 | _ => 0

theorem wCas_sound : wCas.Sound := by
  refine ⟨?_, ?_, ?_⟩
  · intro st i cbs n f
    unfold act
    split <;> (try split) <;> (try rename_i k; cases k) <;> simp [wCas]
  · intro f rs h
    cases f with
    | body ops => cases ops <;> simp [Frame.done] at h; subst h; simp [wCas]
    | deliver outs k => cases outs <;> simp [Frame.done] at h; subst h; cases k <;> simp [wCas, Meth.ret]
    | _ => simp [Frame.done] at h
  · intro ops; rfl

theorem wClr_sound : wClr.Sound := by
  refine ⟨?_, ?_, ?_⟩
  · intro st i cbs n f
    unfold act
    split <;> (try split) <;> (try rename_i k; cases k) <;> simp [wClr]
  · intro f rs h
    cases f with
    | body ops => cases ops <;> simp [Frame.done] at h; subst h; simp [wClr]
    | deliver outs k => cases outs <;> simp [Frame.done] at h; subst h; cases k <;> simp [wClr, Meth.ret]
    | _ => simp [Frame.done] at h
  · intro ops; rfl

theorem wErr_sound : wErr.Sound := by
  refine ⟨?_, ?_, ?_⟩
  · intro st i cbs n f
    unfold act
    split <;> (try split) <;> simp [wErr]
  · intro f rs h
    cases f with
    | body ops => cases ops <;> simp [Frame.done] at h; subst h; simp [wErr]
    | deliver outs k => cases outs <;> simp [Frame.done] at h; subst h; cases k <;> simp [wErr, Meth.ret]
    | _ => simp [Frame.done] at h
  · intro ops; rfl

/-! ### the closed flag -/

@[simp] theorem evictStep_closed (s : St) (r : Buf × Buf) : (evictStep s r).1.closed = s.closed := rfl

theorem act_closed (st : St) (i : Tid) (cbs : Nat → Out → List Op) (n : Nat) (f : Frame) :
    wCas.trace (act st i cbs n f).evs + (if st.closed then 1 else 0) =
      (if (act st i cbs n f).st.closed then 1 else 0) := by
  unfold act
  split <;> (try split) <;> simp_all [wCas]

theorem act_cas_closed (st : St) (i : Tid) (cbs : Nat → Out → List Op) (n : Nat) (f : Frame) :
    (st.closed = true → (act st i cbs n f).st.closed = true) ∧
    (∀ j b, Ev.cas j b ∈ (act st i cbs n f).evs → (act st i cbs n f).st.closed = true) := by
  unfold act
  split <;> (try split) <;> simp_all

/-- the flag is set iff exactly one CAS has succeeded, and any CAS at all implies it is set. -/
def ClosedOnce (s : Sys) : Prop :=
  wCas.trace s.trace = (if s.st.closed then 1 else 0) ∧
  ((∃ j b, Ev.cas j b ∈ s.trace) → s.st.closed = true)

theorem closedOnce_step {s s' : Sys} {i : Tid} (h : step s i = some s') (hc : ClosedOnce s) :
    ClosedOnce s' := by
  obtain ⟨t, f, stk, ht, hstk, rfl⟩ := step_some h
  have h1 := act_closed s.st i t.cbs t.cbCount f
  have h2 := act_cas_closed s.st i t.cbs t.cbCount f
  refine ⟨?_, ?_⟩
  · have := hc.1
    simp only [Weight.trace_append]
    omega
  · rintro ⟨j, b, hj⟩
    simp only [List.mem_append] at hj
    rcases hj with hj | hj
    · exact h2.2 j b hj
    · exact h2.1 (hc.2 ⟨j, b, hj⟩)

theorem closedOnce_init (maxSize timeout : Int) (progs : List Prog) :
    ClosedOnce (init maxSize timeout progs) := by
  refine ⟨by simp [init, Reasm.init], ?_⟩
  rintro ⟨j, b, h⟩; simp [init] at h

/-! ### groups are whole single-sequence events -/

def GroupOK (o : Out) : Prop := ∀ g, o = .group g → g ≠ [] ∧ ∃ seq, ∀ m ∈ g, m.seq = seq

theorem callback_ok {evs : Buf} (h : ∀ p ∈ evs, p.2.msgs ≠ [] ∧ ∀ m ∈ p.2.msgs, m.seq = p.1) (n : Nat) :
    ∀ o ∈ callback evs n, GroupOK o := by
  intro o ho g hg
  subst hg
  simp only [callback, List.mem_append, List.mem_map] at ho
  rcases ho with ⟨p, hp, hpg⟩ | ho
  · injection hpg with hpg
    subst hpg
    exact ⟨(h p hp).1, p.1, (h p hp).2⟩
  · split at ho <;> simp at ho

theorem evictStep_ok {st : St} (hi : Inv st) (r : Buf × Buf) (hr : ∀ p ∈ r.1, p ∈ st.buf) :
    ∀ o ∈ (evictStep st r).2, GroupOK o := by
  simp only [evictStep]
  exact callback_ok (fun p hp => ⟨hi.nonempty p (hr p hp), hi.uniform p (hr p hp)⟩) _

theorem act_uniform (st : St) (i : Tid) (cbs : Nat → Out → List Op) (n : Nat) (f : Frame)
    (hi : Inv st) (hf : ∀ o ∈ f.outs, GroupOK o) :
    Inv (act st i cbs n f).st ∧ (∀ f' ∈ (act st i cbs n f).repl, ∀ o ∈ f'.outs, GroupOK o) ∧
    (∀ j o, Ev.cb j o ∈ (act st i cbs n f).evs → GroupOK o) := by
  unfold act
  split
  · exact ⟨hi, by simp [Frame.outs], by simp⟩
  · exact ⟨inv_put hi _ _, by simp [Frame.outs], by simp⟩
  · split <;> exact ⟨hi, by simp [Frame.outs], by simp⟩
  · split
    · exact ⟨hi, by simp [Frame.outs], by simp⟩
    · exact ⟨⟨hi.nodup, hi.uniform, hi.nonempty⟩, by simp [Frame.outs], by simp⟩
  · rename_i t k
    refine ⟨inv_evictStep hi _ (cleanUp_snd_suffix _ _ _).sublist, ?_, by simp⟩
    intro f' hf' o ho
    simp only [List.mem_singleton] at hf'
    subst hf'
    exact evictStep_ok hi _ (fun p hp => (cleanUp_fst_prefix _ _ _).subset hp) o ho
  · refine ⟨inv_evictStep hi _ (List.nil_sublist _), ?_, by simp⟩
    intro f' hf' o ho
    simp only [List.mem_singleton] at hf'
    subst hf'
    exact evictStep_ok hi _ (fun p hp => hp) o ho
  · refine ⟨hi, ?_, by simp⟩
    intro f' hf' o ho
    simp only [List.mem_singleton] at hf'
    subst hf'
    exact hf o ho
  · refine ⟨hi, ?_, by simp⟩
    intro f' hf' o ho
    simp only [List.mem_singleton] at hf'
    subst hf'
    exact hf o ho
  · rename_i o outs k
    refine ⟨hi, ?_, ?_⟩
    · intro f' hf' o' ho'
      simp only [List.mem_cons, List.not_mem_nil, or_false] at hf'
      rcases hf' with rfl | rfl
      · simp [Frame.outs] at ho'
      · exact hf o' (by simp only [Frame.outs] at ho' ⊢; exact List.mem_cons_of_mem _ ho')
    · intro j o' ho'
      simp only [List.mem_singleton] at ho'
      injection ho' with _ ho'
      subst ho'
      exact hf o' (by simp [Frame.outs])

/-- buffer well-formed; every group waiting in a thread or already delivered is one event. -/
def Uniform (s : Sys) : Prop :=
  Inv s.st ∧ (∀ t ∈ s.threads, ∀ f ∈ t.stack, ∀ o ∈ f.outs, GroupOK o) ∧
  (∀ j o, Ev.cb j o ∈ s.trace → GroupOK o)

theorem uniform_step {s s' : Sys} {i : Tid} (h : step s i = some s') (hu : Uniform s) : Uniform s' := by
  obtain ⟨t, f, stk, ht, hstk, rfl⟩ := step_some h
  have htm : t ∈ s.threads := List.mem_of_getElem? ht
  have hft : ∀ f' ∈ t.stack, ∀ o ∈ f'.outs, GroupOK o := hu.2.1 t htm
  have ha := act_uniform s.st i t.cbs t.cbCount f hu.1
    (hft f (by rw [hstk]; exact List.mem_cons_self ..))
  refine ⟨ha.1, ?_, ?_⟩
  · intro t' ht' f' hf' o ho
    rcases List.mem_or_eq_of_mem_set ht' with ht' | rfl
    · exact hu.2.1 t' ht' f' hf' o ho
    · have hf'' : f' ∈ (act s.st i t.cbs t.cbCount f).repl ++ stk :=
        (settle_suffix _).subset (by simpa [Thread.after] using hf')
      rcases List.mem_append.mp hf'' with hf'' | hf''
      · exact ha.2.1 f' hf'' o ho
      · exact hft f' (by rw [hstk]; exact List.mem_cons_of_mem _ hf'') o ho
  · intro j o ho
    rcases List.mem_append.mp ho with ho | ho
    · exact ha.2.2 j o ho
    · exact hu.2.2 j o ho

theorem uniform_init (maxSize timeout : Int) (progs : List Prog) : Uniform (init maxSize timeout progs) := by
  refine ⟨inv_init _ _, ?_, by simp [init]⟩
  intro t ht f hf o ho
  simp only [init, List.mem_map] at ht
  obtain ⟨p, _, rfl⟩ := ht
  have : f ∈ [Frame.body p.main] := (settle_suffix _).subset (by simpa [mkThread] using hf)
  simp only [List.mem_singleton] at this
  subst this
  simp [Frame.outs] at ho

/-! ### readable counters over the history and the return values -/

/-- number of CompareAndSwap(closed,0,1) steps that succeeded. -/
def nCasOk (tr : List Ev) : Nat := tr.countP (fun e => match e with | .cas _ true => true | _ => false)
/-- number of CompareAndSwap steps that failed. -/
def nCasFail (tr : List Ev) : Nat := tr.countP (fun e => match e with | .cas _ false => true | _ => false)
/-- how many finished calls returned `r`, over all threads. -/
def nRet (r : Ret) (ts : List Thread) : Nat := (ts.map (fun t => t.rets.count r)).sum

theorem wCas_trace (tr : List Ev) : wCas.trace tr = nCasOk tr := by
  induction tr with
  | nil => rfl
  | cons e tr ih =>
    rw [Weight.trace_cons, ih]
    simp only [nCasOk, List.countP_cons]
    cases e with
    | cas j b => cases b <;> simp [wCas, Nat.add_comm]
    | _ => simp [wCas]

theorem wErr_trace (tr : List Ev) : wErr.trace tr = nCasFail tr := by
  induction tr with
  | nil => rfl
  | cons e tr ih =>
    rw [Weight.trace_cons, ih]
    simp only [nCasFail, List.countP_cons]
    cases e with
    | cas j b => cases b <;> simp [wErr, Nat.add_comm]
    | _ => simp [wErr]

theorem wCas_rets (rs : List Ret) : wCas.rets rs = rs.count .closeOk := by
  induction rs with
  | nil => rfl
  | cons r rs ih =>
    rw [Weight.rets_cons, ih, List.count_cons]
    cases r <;> simp [wCas, Nat.add_comm]

theorem wClr_rets (rs : List Ret) : wClr.rets rs = rs.count .closeOk := by
  induction rs with
  | nil => rfl
  | cons r rs ih =>
    rw [Weight.rets_cons, ih, List.count_cons]
    cases r <;> simp [wClr, Nat.add_comm]

theorem wErr_rets (rs : List Ret) : wErr.rets rs = rs.count .closeErr := by
  induction rs with
  | nil => rfl
  | cons r rs ih =>
    rw [Weight.rets_cons, ih, List.count_cons]
    cases r <;> simp [wErr, Nat.add_comm]

theorem rets_le_threads (w : Weight) (ts : List Thread) :
    (ts.map (fun t => w.rets t.rets)).sum ≤ w.threads ts := by
  induction ts with
  | nil => simp [Weight.threads]
  | cons t ts ih =>
    simp only [Weight.threads, List.map_cons, List.sum_cons, Weight.thread] at ih ⊢
    omega

theorem mem_le_sum : ∀ (l : List Nat) (x : Nat), x ∈ l → x ≤ l.sum := by
  intro l
  induction l with
  | nil => intro x h; simp at h
  | cons a l ih =>
    intro x h
    simp only [List.sum_cons]
    rcases List.mem_cons.mp h with rfl | h
    · omega
    · have := ih x h; omega

theorem trace_pos {w : Weight} {tr : List Ev} (h : 0 < w.trace tr) : ∃ e ∈ tr, 0 < w.we e := by
  induction tr with
  | nil => simp at h
  | cons e tr ih =>
    simp only [Weight.trace_cons] at h
    by_cases he : 0 < w.we e
    · exact ⟨e, List.mem_cons_self .., he⟩
    · obtain ⟨e', he', hw⟩ := ih (by omega)
      exact ⟨e', List.mem_cons_of_mem _ he', hw⟩

/-! ### the invariants hold in every reachable state -/

theorem reach_conserved (maxSize timeout : Int) (progs : List Prog) (sched : List Tid) :
    Conserved (run (init maxSize timeout progs) sched) :=
  run_induct (fun _ _ _ h hc => conserved_step h hc) sched _ (conserved_init _ _ _)

theorem reach_flushed (maxSize timeout : Int) (progs : List Prog) (sched : List Tid) :
    Flushed (run (init maxSize timeout progs) sched) :=
  (run_induct (P := fun s => Conserved s ∧ Flushed s)
    (fun _ _ _ h hc => ⟨conserved_step h hc.1, flushed_step h hc.1 hc.2⟩) sched _
    ⟨conserved_init _ _ _, flushed_init _ _ _⟩).2

theorem reach_uniform (maxSize timeout : Int) (progs : List Prog) (sched : List Tid) :
    Uniform (run (init maxSize timeout progs) sched) :=
  run_induct (fun _ _ _ h hc => uniform_step h hc) sched _ (uniform_init _ _ _)

theorem reach_closedOnce (maxSize timeout : Int) (progs : List Prog) (sched : List Tid) :
    ClosedOnce (run (init maxSize timeout progs) sched) :=
  run_induct (fun _ _ _ h hc => closedOnce_step h hc) sched _ (closedOnce_init _ _ _)

theorem reach_balanced {w : Weight} (hw : w.Sound) (maxSize timeout : Int) (progs : List Prog)
    (sched : List Tid) : w.Balanced (run (init maxSize timeout progs) sched) :=
  run_induct (fun _ _ _ h hc => Weight.balanced_step hw h hc) sched _ (Weight.balanced_init hw _ _ _)

end LA.ReasmConc
