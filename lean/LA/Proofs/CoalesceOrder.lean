/-
Go ranges over maps in an unspecified order; the model folds over association lists in list
order.  Closed forms of the two kinds of `for k, v := range data` loops in the coalescer show
that the results do not depend on that order (maps agree as lookup functions / up to
permutation, warnings up to permutation).
-/
import LA.Proofs.CoalesceFold

namespace LA.Coalesce

theorem keys_perm {d d' : KV} (h : d.Perm d') : (keys d).Perm (keys d') := h.map _

theorem NoDupKeys.perm {d d' : KV} (h : d.Perm d') (hn : NoDupKeys d) : NoDupKeys d' :=
  (keys_perm h).nodup_iff.mp hn

/-- a map read as a function does not depend on the order of its entries. -/
theorem lookup_perm {d d' : KV} (h : d.Perm d') (hn : NoDupKeys d) (k : Bytes) : lookup k d' = lookup k d := by
  cases hl : lookup k d with
  | some v => exact lookup_of_mem_nodup (hn.perm h) (h.mem_iff.mp (lookup_mem hl))
  | none =>
    rw [lookup_eq_none_iff] at hl ⊢
    intro hk
    exact hl ((keys_perm h).mem_iff.mpr hk)

/-! ### the loop of `newEvent` -/

def toIds (k : Bytes) : Bool := !(decide (k = kResult ∨ k = kSes)) && isIdKey k
def toSelinux (k : Bytes) : Bool := !(decide (k = kResult ∨ k = kSes)) && !isIdKey k && hasPrefix kSubj_ k
def toData (k : Bytes) : Bool := !(decide (k = kResult ∨ k = kSes)) && !isIdKey k && !hasPrefix kSubj_ k

theorem distribute_ids_self (e : Event) (k v : Bytes) :
    lookup k (distribute e (k, v)).ids = if toIds k then some v else lookup k e.ids := by
  unfold distribute toIds
  by_cases h1 : k = kResult ∨ k = kSes
  · simp [h1]
  · by_cases h2 : isIdKey k = true
    · simp [h1, h2, lookup_setKV_self]
    · by_cases h3 : hasPrefix kSubj_ k = true <;> simp [h1, h2, h3]

theorem distribute_data_self (e : Event) (k v : Bytes) :
    lookup k (distribute e (k, v)).data = if toData k then some v else lookup k e.data := by
  unfold distribute toData
  by_cases h1 : k = kResult ∨ k = kSes
  · simp [h1]
  · by_cases h2 : isIdKey k = true
    · simp [h1, h2]
    · by_cases h3 : hasPrefix kSubj_ k = true <;> simp [h1, h2, h3, lookup_setKV_self]

/-- `User.IDs` after the loop, as a function of the key: the record's value for id keys. -/
theorem foldl_distribute_ids (d : KV) (hn : NoDupKeys d) (e : Event) (k : Bytes) :
    lookup k (d.foldl distribute e).ids =
      match lookup k d with
      | some v => if toIds k then some v else lookup k e.ids
      | none => lookup k e.ids := by
  induction d generalizing e with
  | nil => rfl
  | cons p r ih =>
    have hn' : p.1 ∉ keys r ∧ NoDupKeys r := by simpa [NoDupKeys, keys] using hn
    simp only [List.foldl_cons]
    rw [ih hn'.2, lookup_cons]
    by_cases hk : p.1 = k
    · subst hk
      have : lookup p.1 r = none := lookup_eq_none_iff.mpr hn'.1
      simp only [this, if_true]
      exact distribute_ids_self e p.1 p.2
    · simp only [hk, if_false, distribute_ids e p hk]

/-- `Event.Data` after the loop, as a function of the key. -/
theorem foldl_distribute_data (d : KV) (hn : NoDupKeys d) (e : Event) (k : Bytes) :
    lookup k (d.foldl distribute e).data =
      match lookup k d with
      | some v => if toData k then some v else lookup k e.data
      | none => lookup k e.data := by
  induction d generalizing e with
  | nil => rfl
  | cons p r ih =>
    have hn' : p.1 ∉ keys r ∧ NoDupKeys r := by simpa [NoDupKeys, keys] using hn
    simp only [List.foldl_cons]
    rw [ih hn'.2, lookup_cons]
    by_cases hk : p.1 = k
    · subst hk
      have : lookup p.1 r = none := lookup_eq_none_iff.mpr hn'.1
      simp only [this, if_true]
      exact distribute_data_self e p.1 p.2
    · simp only [hk, if_false, distribute_data e p hk]

theorem distribute_selinux_self (e : Event) (k v : Bytes) (hp : hasPrefix kSubj_ k = true) :
    lookup (k.drop 5) (distribute e (k, v)).selinux =
      if toSelinux k then some v else lookup (k.drop 5) e.selinux := by
  unfold distribute toSelinux
  by_cases h1 : k = kResult ∨ k = kSes
  · simp [h1]
  · by_cases h2 : isIdKey k = true
    · simp [h1, h2]
    · simp [h1, h2, hp, lookup_setKV_self]

/-- `User.SELinux` after the loop, read at the label of a `subj_` key `k`. -/
theorem foldl_distribute_selinux (d : KV) (hn : NoDupKeys d) (e : Event) (k : Bytes)
    (hp : hasPrefix kSubj_ k = true) :
    lookup (k.drop 5) (d.foldl distribute e).selinux =
      match lookup k d with
      | some v => if toSelinux k then some v else lookup (k.drop 5) e.selinux
      | none => lookup (k.drop 5) e.selinux := by
  induction d generalizing e with
  | nil => rfl
  | cons p r ih =>
    have hn' : p.1 ∉ keys r ∧ NoDupKeys r := by simpa [NoDupKeys, keys] using hn
    simp only [List.foldl_cons]
    rw [ih hn'.2, lookup_cons]
    by_cases hk : p.1 = k
    · subst hk
      have : lookup p.1 r = none := lookup_eq_none_iff.mpr hn'.1
      simp only [this, if_true]
      exact distribute_selinux_self e p.1 p.2 hp
    · simp only [hk, if_false, distribute_selinux e p hk hp]

/-! ### the loops of `addFieldsToEventData` / `addSockaddrRecord` -/

theorem addField_fields (typ : Nat) (e : Event) (kv : Bytes × Bytes) :
    (addField typ e kv).data = (if hasKey kv.1 e.data then e.data else e.data ++ [kv]) ∧
    (addField typ e kv).warnings =
      (if hasKey kv.1 e.data then e.warnings ++ [Warn.dupKey kv.1 typ] else e.warnings) := by
  unfold addField
  split <;> simp [warn]

/-- closed form: the pairs whose key is new are appended to Data, the others are warned
about — each decided against the Data of *before the loop*. -/
theorem foldl_addField_closed (typ : Nat) (d : KV) (hn : NoDupKeys d) (e : Event) :
    (d.foldl (addField typ) e).data = e.data ++ d.filter (fun kv => !hasKey kv.1 e.data) ∧
    (d.foldl (addField typ) e).warnings =
      e.warnings ++ (d.filter (fun kv => hasKey kv.1 e.data)).map (fun kv => Warn.dupKey kv.1 typ) := by
  induction d generalizing e with
  | nil => simp
  | cons p r ih =>
    have hn' : p.1 ∉ keys r ∧ NoDupKeys r := by simpa [NoDupKeys, keys] using hn
    simp only [List.foldl_cons]
    have hf := addField_fields typ e p
    have ih' := ih hn'.2 (addField typ e p)
    cases hk : hasKey p.1 e.data with
    | true =>
      simp only [hk, if_true] at hf
      rw [ih'.1, ih'.2, hf.1, hf.2]
      simp [hk]
    | false =>
      simp only [hk, Bool.false_eq_true, if_false] at hf
      have hcongr : ∀ kv ∈ r, hasKey kv.1 (e.data ++ [p]) = hasKey kv.1 e.data := by
        intro kv hkv
        have hne : p.1 ≠ kv.1 := fun h => hn'.1 (h ▸ List.mem_map.mpr ⟨kv, hkv, rfl⟩)
        unfold hasKey
        cases hl : lookup kv.1 e.data with
        | some x => rw [lookup_append_some _ hl]
        | none => rw [lookup_append_none _ hl]; simp [lookup, hne]
      rw [ih'.1, ih'.2, hf.1, hf.2]
      have h1 : r.filter (fun kv => !hasKey kv.1 (e.data ++ [p])) = r.filter (fun kv => !hasKey kv.1 e.data) :=
        List.filter_congr (fun kv hkv => by rw [hcongr kv hkv])
      have h2 : r.filter (fun kv => hasKey kv.1 (e.data ++ [p])) = r.filter (fun kv => hasKey kv.1 e.data) :=
        List.filter_congr (fun kv hkv => by rw [hcongr kv hkv])
      rw [h1, h2]
      simp [hk]

end LA.Coalesce
