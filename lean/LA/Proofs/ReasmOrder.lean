/-
Ordering lemmas for Model.Reasm: inside one 2^24 window the roll-over aware `less`
is the strict total order induced by the distance from the window base.
-/
import LA.Proofs.Reasm

namespace LA.Reasm

/-- distance of sequence `k` from window base `b` (both < 2^32). -/
def wpos (b k : Nat) : Nat := (k + 4294967296 - b) % 4294967296

/-- `k` lies in the 2^24 window starting at `b`. -/
def InWin (b k : Nat) : Prop := b < 4294967296 ∧ k < 4294967296 ∧ wpos b k < 16777216

instance (b k : Nat) : Decidable (InWin b k) := by unfold InWin; infer_instance

theorem less_window {b x y : Nat} (hx : InWin b x) (hy : InWin b y) :
    less x y = decide (wpos b x < wpos b y) := by
  obtain ⟨hb, hx1, hx2⟩ := hx
  obtain ⟨_, hy1, hy2⟩ := hy
  unfold wpos at *
  unfold less maxSortRange
  by_cases h1 : x ≤ y
  · simp only [h1, if_true]
    by_cases h2 : y - x > 16777215
    · simp only [h2, if_true]; apply decide_eq_decide.mpr; omega
    · simp only [h2, if_false]; apply decide_eq_decide.mpr; omega
  · simp only [h1, if_false]
    by_cases h2 : x - y > 16777215
    · simp only [h2, if_true]; apply decide_eq_decide.mpr; omega
    · simp only [h2, if_false]; apply decide_eq_decide.mpr; omega

theorem wpos_inj {b x y : Nat} (hx : InWin b x) (hy : InWin b y) (h : wpos b x = wpos b y) : x = y := by
  obtain ⟨hb, hx1, _⟩ := hx
  obtain ⟨_, hy1, _⟩ := hy
  unfold wpos at h
  omega

/-- sortedness of a key list under `less`. -/
def SortedKeys (l : List Nat) : Prop := l.Pairwise (fun a b => less a b = true)

theorem sortedKeys_sublist {l l' : List Nat} (h : SortedKeys l) (hs : l'.Sublist l) : SortedKeys l' :=
  List.Pairwise.sublist hs h

/-- inserting a new key into a sorted buffer keeps it sorted, when all keys involved lie
in one window. -/
theorem sorted_insertEnd {w : Nat} (x : Nat × Ev) (b : Buf)
    (hw : ∀ k ∈ x.1 :: keys b, InWin w k) (hnew : x.1 ∉ keys b) (hs : SortedKeys (keys b)) :
    SortedKeys (keys (insertEnd x b)) := by
  induction b with
  | nil => simp [insertEnd, SortedKeys]
  | cons y ys ih =>
    unfold insertEnd
    have hxw : InWin w x.1 := hw _ (List.mem_cons_self ..)
    split
    · rename_i hall
      simp only [keys_cons, SortedKeys, List.pairwise_cons]
      refine ⟨?_, ?_⟩
      · intro k hk
        rw [List.all_eq_true] at hall
        rcases List.mem_cons.mp hk with hk | hk
        · subst hk; exact hall y (List.mem_cons_self ..)
        · obtain ⟨p, hp, rfl⟩ := List.mem_map.mp hk
          exact hall p (List.mem_cons_of_mem _ hp)
      · simpa [SortedKeys] using hs
    · rename_i hall
      simp only [keys_cons, SortedKeys, List.pairwise_cons] at hs ⊢
      have hyw : InWin w y.1 := hw _ (List.mem_cons_of_mem _ (List.mem_cons_self ..))
      refine ⟨?_, ?_⟩
      · intro k hk
        rcases List.mem_cons.mp ((keys_insertEnd_perm x ys).subset hk) with hk | hk
        · subst hk
          -- some z in y :: ys is not greater than x, hence y < x
          rw [List.all_eq_true] at hall
          have : ∃ z ∈ y :: ys, less x.1 z.1 = false := by
            refine Classical.byContradiction fun hcon => hall fun z hz => ?_
            cases hzz : less x.1 z.1 with
            | true => simp
            | false => exact absurd ⟨z, hz, hzz⟩ hcon
          obtain ⟨z, hz, hzl⟩ := this
          have hzw : InWin w z.1 := hw _ (List.mem_cons_of_mem _ (List.mem_map.mpr ⟨z, hz, rfl⟩))
          have hzx : z.1 ≠ x.1 := fun h => hnew (h ▸ List.mem_map.mpr ⟨z, hz, rfl⟩)
          rw [less_window hxw hzw] at hzl
          have hzx' : wpos w z.1 ≠ wpos w x.1 := fun h => hzx (wpos_inj hzw hxw h)
          rw [less_window hyw hxw]
          rcases List.mem_cons.mp hz with hz | hz
          · subst hz; simp at hzl ⊢; omega
          · have := hs.1 z.1 (List.mem_map.mpr ⟨z, hz, rfl⟩)
            rw [less_window hyw hzw] at this
            simp at hzl this ⊢; omega
        · exact hs.1 k hk
      · exact ih (fun k hk => hw k (by
            rcases List.mem_cons.mp hk with hk | hk
            · exact hk ▸ List.mem_cons_self ..
            · exact List.mem_cons_of_mem _ (List.mem_cons_of_mem _ hk)))
          (fun h => hnew (List.mem_cons_of_mem _ h)) hs.2

end LA.Reasm
