/-
ToCommandLine succeeds on everything rule.Build produces: helper lemmas for `C07_print_total`.
-/
import LA.Proofs.RuleWire

namespace LA.Rule
open LA
open LA.Auparse (Res)

/-- a (field, value, operator) triple that ToCommandLine can print: the operator has a name; the
arch field carries a displayable architecture, an inter-field comparison is in the table with
named operands, any other field has a name. -/
def tripOk (t : Nat × Nat × Nat) : Bool :=
  (revLookup LA.Gen.RuleTables.operatorsTable t.2.2).isSome &&
  (if t.1 == LA.Gen.RuleTables.archField then (getDisplayArch t.2.1).isSome
   else if t.1 == LA.Gen.RuleTables.fieldCompare then
     match LA.Gen.RuleTables.comparisonsTable.find? (fun e => e.2.2 == t.2.1) with
     | none => false
     | some e => (revLookup LA.Gen.RuleTables.fieldsTable (min e.1 e.2.1)).isSome &&
                 (revLookup LA.Gen.RuleTables.fieldsTable (max e.1 e.2.1)).isSome
   else (revLookup LA.Gen.RuleTables.fieldsTable t.1).isSome)

theorem revLookup_of_lookupB {l : List (Bytes × Nat)} {k : Bytes} {v : Nat} (h : lookupB l k = some v) :
    (revLookup l v).isSome = true := by
  obtain ⟨p, hp, hv⟩ := lookupB_mem h
  unfold revLookup
  rw [Option.isSome_map, List.find?_isSome]
  exact ⟨p, hp, by simp [hv]⟩

theorem lookupN_isSome_of_mem {α : Type} {l : List (Nat × α)} {x : Nat} (h : ∃ p ∈ l, p.1 = x) : (lookupN l x).isSome = true := by
  induction l with
  | nil => obtain ⟨p, hp, _⟩ := h; cases hp
  | cons q qs ih =>
    obtain ⟨k, v⟩ := q
    simp only [lookupN]
    split
    · rfl
    · rename_i hk
      obtain ⟨p, hp, hx⟩ := h
      rcases List.mem_cons.mp hp with rfl | hp
      · simp at hk; exact absurd hx hk
      · exact ih ⟨p, hp, hx⟩

theorem getDisplayArch_of_getArch {rhs : Bytes} {p : Bytes × Nat} (h : getArch rhs = some p) :
    (getDisplayArch p.2).isSome = true := by
  unfold getArch at h
  simp only at h
  split at h
  · rename_i c hc
    simp only [Option.some.injEq] at h
    subst h
    simp only
    unfold getDisplayArch
    split
    · rfl
    · split
      · rfl
      · unfold Tables.archCode at hc
        cases hf : LA.Gen.Arches.archNames.find? (fun p => p.2 == (if (rhs.map lowerB == ofString "b64") = true then runtimeArch
            else if (rhs.map lowerB == ofString "b32") = true then ofString "i386" else rhs)) with
        | none => rw [hf] at hc; simp at hc
        | some q =>
          rw [hf] at hc
          simp only [Option.map_some, Option.some.injEq] at hc
          exact lookupN_isSome_of_mem ⟨q, List.mem_of_find?_eq_some hf, hc⟩
  · simp at h

/-- the arch field takes the arch branch of filterValue. -/
theorem filterValue_arch {env : Env} {r : RuleData} {opc : Nat} {rhs : Bytes} {v : Nat} {s a : Option Bytes}
    (h : filterValue env r LA.Gen.RuleTables.archField opc rhs = some (v, s, a)) :
    ∃ p, getArch rhs = some p ∧ v = p.2 := by
  have c1 : uidFields.contains LA.Gen.RuleTables.archField = false := by decide +kernel
  have c2 : gidFields.contains LA.Gen.RuleTables.archField = false := by decide +kernel
  have c3 : (LA.Gen.RuleTables.archField == LA.Gen.RuleTables.exitField) = false := by decide +kernel
  have c4 : (LA.Gen.RuleTables.archField == LA.Gen.RuleTables.msgTypeField) = false := by decide +kernel
  have c5 : stringFields.contains LA.Gen.RuleTables.archField = false := by decide +kernel
  unfold filterValue at h
  simp only [c1, c2, c3, c4, c5, Bool.false_eq_true, if_false, beq_self_eq_true, if_true] at h
  split at h
  · simp at h
  · cases hg : getArch rhs with
    | none => rw [hg] at h; simp at h
    | some p =>
      rw [hg] at h
      simp only [Option.map_some, Option.some.injEq, Prod.mk.injEq] at h
      exact ⟨p, rfl, h.1.symm⟩

/-- what rule.Build accumulates can be printed: list and action have names and every triple is printable. -/
structure PrintInv (r : RuleData) : Prop where
  words : WordsInv r
  list : (getList r.flags).isSome = true
  action : (getAction r.action).isSome = true
  trips : ∀ t ∈ r.trips, tripOk t = true

theorem printInv_ruleDataOf {env : Env} (he : EnvOk env) {rule : Rule} {r : RuleData} (h : ruleDataOf env rule = some r) :
    PrintInv r := by
  refine ruleDataOf_induct (env := env) PrintInv ?_ ?_ ?_ ?_ h
  · rintro fl ac ⟨l, hl⟩ ⟨a, ha⟩
    have hfl : fl < 4294967296 ∧ (getList fl).isSome = true := by
      unfold setList at hl
      repeat' split at hl
      all_goals first
        | (simp only [Option.some.injEq] at hl; subst hl; exact ⟨by decide, by decide +kernel⟩)
        | (simp at hl)
    have hac : ac < 4294967296 ∧ (getAction ac).isSome = true := by
      unfold setAction at ha
      repeat' split at ha
      all_goals first
        | (simp only [Option.some.injEq] at ha; subst ha; exact ⟨by decide, by decide +kernel⟩)
        | (simp at ha)
    exact ⟨⟨hfl.1, hac.1, by simp, by simp, by simp, by simp⟩, hfl.2, hac.2, by simp⟩
  · intro r r' l o v hp hf
    obtain ⟨hw', hfl, hac⟩ := inv_addFilter he hp.words hf
    refine ⟨hw', by rw [hfl]; exact hp.list, by rw [hac]; exact hp.action, ?_⟩
    have nofc : LA.Gen.RuleTables.fieldsTable.all (fun p => p.2 != LA.Gen.RuleTables.fieldCompare) = true := by decide +kernel
    unfold addFilter at hf
    split at hf
    · rename_i opc f hop hfl'
      split at hf
      · simp at hf
      · cases hv : filterValue env r f opc v with
        | none => rw [hv] at hf; simp at hf
        | some x =>
          obtain ⟨val, s, a⟩ := x
          rw [hv] at hf
          simp only [Option.map_some, Option.some.injEq] at hf
          subst hf
          intro t ht
          simp only [List.mem_append, List.mem_cons, List.mem_nil_iff, or_false] at ht
          rcases ht with ht | rfl
          · exact hp.trips t ht
          · unfold tripOk
            simp only [revLookup_of_lookupB hop, Bool.true_and]
            by_cases ha : (f == LA.Gen.RuleTables.archField) = true
            · rw [if_pos ha]
              have hfe : f = LA.Gen.RuleTables.archField := by simpa using ha
              subst hfe
              obtain ⟨p, hg, rfl⟩ := filterValue_arch hv
              exact getDisplayArch_of_getArch hg
            · rw [if_neg ha]
              obtain ⟨p, hp1, hp2⟩ := lookupB_mem hfl'
              have := List.all_eq_true.mp nofc p hp1
              rw [hp2] at this
              have hne : (f == LA.Gen.RuleTables.fieldCompare) = false := by simpa using this
              simp only [hne, Bool.false_eq_true, if_false]
              exact revLookup_of_lookupB hfl'
    · simp at hf
  · intro r r' l o v hp hi
    obtain ⟨hw', hfl, hac⟩ := inv_addInterField hp.words hi
    refine ⟨hw', by rw [hfl]; exact hp.list, by rw [hac]; exact hp.action, ?_⟩
    have named : LA.Gen.RuleTables.comparisonsTable.all (fun e =>
        (revLookup LA.Gen.RuleTables.fieldsTable (min e.1 e.2.1)).isSome &&
        (revLookup LA.Gen.RuleTables.fieldsTable (max e.1 e.2.1)).isSome) = true := by decide +kernel
    have fca : (LA.Gen.RuleTables.fieldCompare == LA.Gen.RuleTables.archField) = false := by decide +kernel
    unfold addInterField at hi
    cases hop : lookupB LA.Gen.RuleTables.operatorsTable o with
    | none => rw [hop] at hi; simp at hi
    | some opc =>
      rw [hop] at hi
      simp only at hi
      split at hi
      · simp at hi
      · split at hi
        · split at hi
          · simp at hi
          · rename_i lf rf _ _ _
            cases hc : lookupComparison lf rf with
            | none => rw [hc] at hi; simp at hi
            | some c =>
              rw [hc] at hi
              simp only [Option.some.injEq] at hi
              subst hi
              intro t ht
              simp only [List.mem_append, List.mem_cons, List.mem_nil_iff, or_false] at ht
              rcases ht with ht | rfl
              · exact hp.trips t ht
              · unfold tripOk
                simp only [revLookup_of_lookupB hop, Bool.true_and, fca, Bool.false_eq_true, if_false, beq_self_eq_true, if_true]
                -- some entry carries the code c
                unfold lookupComparison at hc
                cases hf : LA.Gen.RuleTables.comparisonsTable.find? (fun e => e.1 == lf && e.2.1 == rf) with
                | none => rw [hf] at hc; simp at hc
                | some e0 =>
                  rw [hf] at hc
                  simp only [Option.map_some, Option.some.injEq] at hc
                  have hex : (LA.Gen.RuleTables.comparisonsTable.find? (fun e => e.2.2 == c)).isSome = true := by
                    rw [List.find?_isSome]
                    exact ⟨e0, List.mem_of_find?_eq_some hf, by simp [hc]⟩
                  cases hf2 : LA.Gen.RuleTables.comparisonsTable.find? (fun e => e.2.2 == c) with
                  | none => rw [hf2] at hex; cases hex
                  | some e1 =>
                    simp only
                    exact List.all_eq_true.mp named e1 (List.mem_of_find?_eq_some hf2)
        · simp at hi
  · intro r r' sc hp hs
    obtain ⟨hw', hfl, hac⟩ := inv_addSyscall hp.words hs
    refine ⟨hw', by rw [hfl]; exact hp.list, by rw [hac]; exact hp.action, ?_⟩
    unfold addSyscall at hs
    split at hs
    · simp only [Option.some.injEq] at hs; subst hs; exact hp.trips
    · simp only at hs
      split at hs
      · simp at hs
      · split at hs
        · simp at hs
        · simp only [Option.some.injEq] at hs; subst hs; exact hp.trips

/-- printFields succeeds on printable triples whose strings are aligned. -/
theorem printFields_isSome (ts : List (Nat × Nat × Nat)) (ss : List Bytes)
    (hok : ∀ t ∈ ts, tripOk t = true) (hal : Aligned ts ss) :
    (printFields (ts.map (·.1)) (ts.map (·.2.1)) (ts.map (·.2.2)) ss).isSome = true := by
  have as : stringFields.contains LA.Gen.RuleTables.archField = false := by decide +kernel
  have cs : stringFields.contains LA.Gen.RuleTables.fieldCompare = false := by decide +kernel
  induction ts generalizing ss with
  | nil => rfl
  | cons t ts ih =>
    have hok' : ∀ t' ∈ ts, tripOk t' = true := fun t' ht' => hok t' (List.mem_cons_of_mem _ ht')
    have ht := hok t List.mem_cons_self
    unfold tripOk at ht
    simp only [Bool.and_eq_true] at ht
    obtain ⟨hop, hrest⟩ := ht
    simp only [List.map_cons, printFields]
    cases hr : revLookup LA.Gen.RuleTables.operatorsTable t.2.2 with
    | none => rw [hr] at hop; cases hop
    | some opS =>
      simp only
      simp only [Aligned] at hal
      by_cases ha : (t.1 == LA.Gen.RuleTables.archField) = true
      · have hfe : t.1 = LA.Gen.RuleTables.archField := by simpa using ha
        rw [if_pos ha]
        rw [hfe, as] at hal
        exact ih ss hok' (by simpa using hal)
      · rw [if_neg ha] at hrest ⊢
        by_cases hc : (t.1 == LA.Gen.RuleTables.fieldCompare) = true
        · have hfe : t.1 = LA.Gen.RuleTables.fieldCompare := by simpa using hc
          rw [if_pos hc] at hrest ⊢
          rw [hfe, cs] at hal
          cases hf : LA.Gen.RuleTables.comparisonsTable.find? (fun e => e.2.2 == t.2.1) with
          | none => rw [hf] at hrest; cases hrest
          | some e =>
            rw [hf] at hrest
            simp only [Bool.and_eq_true] at hrest
            simp only
            cases h1 : revLookup LA.Gen.RuleTables.fieldsTable (min e.1 e.2.1) with
            | none => rw [h1] at hrest; cases hrest.1
            | some an =>
              cases h2 : revLookup LA.Gen.RuleTables.fieldsTable (max e.1 e.2.1) with
              | none => rw [h2] at hrest; cases hrest.2
              | some bn =>
                simp only [Option.isSome_map]
                exact ih ss hok' (by simpa using hal)
        · rw [if_neg hc] at hrest ⊢
          cases hl : revLookup LA.Gen.RuleTables.fieldsTable t.1 with
          | none => rw [hl] at hrest; cases hrest
          | some lhs =>
            simp only
            by_cases hs : stringFields.contains t.1 = true
            · rw [if_pos hs] at hal ⊢
              obtain ⟨s, rest, rfl, _, hrest'⟩ := hal
              simp only [Option.isSome_map]
              exact ih rest hok' hrest'
            · rw [if_neg hs] at hal ⊢
              simp only [Option.isSome_map]
              exact ih ss hok' hal

theorem lastIndexOf_getElem {l : List Nat} {x i : Nat} (h : lastIndexOf l x = some i) : l[i]? = some x := by
  unfold lastIndexOf at h
  cases hg : ((l.zipIdx).filter (fun p => p.1 == x)).getLast? with
  | none => rw [hg] at h; cases h
  | some p =>
    rw [hg] at h
    simp only [Option.map_some, Option.some.injEq] at h
    have hm := List.mem_of_getLast? hg
    rw [List.mem_filter] at hm
    have hz := List.mem_zipIdx_iff_getElem?.mp hm.1
    have hx : p.1 = x := by simpa using hm.2
    rw [← h, hz, hx]

/-- ToCommandLine on decoded rule data succeeds for printable, aligned rule data. -/
theorem cmdLineOf_isSome (r : RuleData) (hl : (getList r.flags).isSome = true) (ha : (getAction r.action).isSome = true)
    (hok : ∀ t ∈ r.trips, tripOk t = true) (hal : Aligned r.trips r.strings) : (cmdLineOf r).isSome = true := by
  unfold cmdLineOf
  cases h1 : getList r.flags with
  | none => rw [h1] at hl; cases hl
  | some list =>
    cases h2 : getAction r.action with
    | none => rw [h2] at ha; cases ha
    | some act =>
      simp only
      cases hw : asFileWatch r with
      | some w => obtain ⟨p, q, k⟩ := w; rfl
      | none =>
        simp only
        have hpf := printFields_isSome r.trips r.strings hok hal
        cases hp : printFields r.fields r.values r.fieldFlags r.strings with
        | none => simp only [RuleData.fields, RuleData.values, RuleData.fieldFlags] at hp; rw [hp] at hpf; cases hpf
        | some fieldArgs =>
          cases hli : lastIndexOf r.fields LA.Gen.RuleTables.archField with
          | none => rfl
          | some i =>
            simp only
            have hfi := lastIndexOf_getElem hli
            simp only [RuleData.fields, List.getElem?_map, Option.map_eq_some_iff] at hfi
            obtain ⟨t, hti, htf⟩ := hfi
            have hv : r.values[i]? = some t.2.1 := by simp [RuleData.values, hti]
            have ho : r.fieldFlags[i]? = some t.2.2 := by simp [RuleData.fieldFlags, hti]
            have htok := hok t (List.mem_of_getElem? hti)
            unfold tripOk at htok
            simp only [Bool.and_eq_true, htf, beq_self_eq_true, if_true] at htok
            rw [hv, ho]
            simp only
            cases hd : getDisplayArch t.2.1 with
            | none => rw [hd] at htok; cases htok.2
            | some a =>
              cases hr : revLookup LA.Gen.RuleTables.operatorsTable t.2.2 with
              | none => rw [hr] at htok; cases htok.1
              | some opS => rfl

end LA.Rule
