/-
String-valued filters in the composed text round trip: the strings of a rule with the reason each
was accepted (`SAligned`), as an invariant of everything rule.Build accumulates. Helper lemmas for
`C07_roundtrip_filters`.
-/
import LA.Proofs.RuleWire
import LA.Proofs.RuleText
namespace LA.Rule
open LA LA.Flags
open LA.Auparse (Res)

theorem filterValue_flags0 (env : Env) (r1 r2 : RuleData) (h : r1.flags = r2.flags) (f opc : Nat) (rhs : Bytes) :
    filterValue env r1 f opc rhs = filterValue env r2 f opc rhs := by
  unfold filterValue
  rw [h]

/-- why a string-valued triple is in a rule: Build accepted that very string for the field under
the rule's list (length limits, exit-only fields), and the exclude-list restriction let it through. -/
def StrOk (env : Env) (fl : Nat) (t : Nat × Nat × Nat) (s : Bytes) : Prop :=
  filterValue env { flags := fl } t.1 t.2.2 s = some (s.length, some s, none) ∧
  (fl == LA.Gen.RuleTables.excludeFilter && !(excludeOkFields.contains t.1)) = false

/-- `Aligned`, with the justification of every string. -/
def SAligned (env : Env) (fl : Nat) : List (Nat × Nat × Nat) → List Bytes → Prop
  | [], ss => ss = []
  | t :: ts, ss =>
    if stringFields.contains t.1 then ∃ s rest, ss = s :: rest ∧ t.2.1 = s.length ∧ StrOk env fl t s ∧ SAligned env fl ts rest
    else SAligned env fl ts ss

theorem saligned_snoc_str {env : Env} {fl : Nat} {ts : List (Nat × Nat × Nat)} {ss : List Bytes} (h : SAligned env fl ts ss)
    (t : Nat × Nat × Nat) (s : Bytes) (hf : stringFields.contains t.1 = true) (hv : t.2.1 = s.length) (hok : StrOk env fl t s) :
    SAligned env fl (ts ++ [t]) (ss ++ [s]) := by
  induction ts generalizing ss with
  | nil =>
    simp only [SAligned] at h
    subst h
    simp only [List.nil_append, SAligned, hf, if_true]
    exact ⟨s, [], rfl, hv, hok, rfl⟩
  | cons x xs ih =>
    simp only [List.cons_append, SAligned] at h ⊢
    split
    · rename_i hx
      rw [if_pos hx] at h
      obtain ⟨s0, rest, rfl, hv0, hk0, hr⟩ := h
      exact ⟨s0, rest ++ [s], rfl, hv0, hk0, ih hr⟩
    · rename_i hx
      rw [if_neg hx] at h
      exact ih h

theorem saligned_snoc_num {env : Env} {fl : Nat} {ts : List (Nat × Nat × Nat)} {ss : List Bytes} (h : SAligned env fl ts ss)
    (t : Nat × Nat × Nat) (hf : stringFields.contains t.1 = false) : SAligned env fl (ts ++ [t]) ss := by
  induction ts generalizing ss with
  | nil =>
    simp only [SAligned] at h
    subst h
    simp only [List.nil_append, SAligned, hf, Bool.false_eq_true, if_false]
  | cons x xs ih =>
    simp only [List.cons_append, SAligned] at h ⊢
    split
    · rename_i hx
      rw [if_pos hx] at h
      obtain ⟨s0, rest, rfl, hv0, hk0, hr⟩ := h
      exact ⟨s0, rest, rfl, hv0, hk0, ih hr⟩
    · rename_i hx
      rw [if_neg hx] at h
      exact ih h

/-- for a string-valued field filterValue returns the value itself. -/
theorem filterValue_string_eq {env : Env} {r : RuleData} {f opc : Nat} {rhs : Bytes} {v : Nat} {s : Option Bytes} {a : Option Bytes}
    (hs : stringFields.contains f = true) (h : filterValue env r f opc rhs = some (v, s, a)) :
    v = rhs.length ∧ s = some rhs ∧ a = none := by
  have disj : stringFields.all (fun x => !(uidFields.contains x) && !(gidFields.contains x) &&
      !(x == LA.Gen.RuleTables.exitField) && !(x == LA.Gen.RuleTables.msgTypeField)) = true := by decide +kernel
  unfold filterValue at h
  have hd := List.all_eq_true.mp disj f (by simpa using hs)
  simp only [Bool.and_eq_true, Bool.not_eq_true'] at hd
  obtain ⟨⟨⟨d1, d2⟩, d3⟩, d4⟩ := hd
  simp only [d1, d2, d3, d4, Bool.false_eq_true, if_false, hs, if_true] at h
  split at h
  · cases h
  · split at h
    · cases h
    · split at h
      · cases h
      · simp only [Option.some.injEq, Prod.mk.injEq] at h
        exact ⟨h.1.symm, h.2.1.symm, h.2.2.symm⟩

theorem saligned_ruleDataOf {env : Env} {rule : Rule} {r : RuleData} (h : ruleDataOf env rule = some r) :
    SAligned env r.flags r.trips r.strings := by
  refine ruleDataOf_induct (env := env) (fun r => SAligned env r.flags r.trips r.strings) ?_ ?_ ?_ ?_ h
  · intro fl ac _ _; simp [SAligned]
  · intro r r' l o v ha hf
    unfold addFilter at hf
    split at hf
    · rename_i opc f hop hfl
      split at hf
      · simp at hf
      · rename_i hex
        cases hv : filterValue env r f opc v with
        | none => rw [hv] at hf; simp at hf
        | some x =>
          obtain ⟨val, s, a⟩ := x
          rw [hv] at hf
          simp only [Option.map_some, Option.some.injEq] at hf
          subst hf
          by_cases hs : stringFields.contains f = true
          · obtain ⟨rfl, rfl, rfl⟩ := filterValue_string_eq hs hv
            refine saligned_snoc_str ha (f, v.length, opc) v hs rfl ⟨?_, by simpa using hex⟩
            rw [filterValue_flags0 env { flags := r.flags } r rfl]
            exact hv
          · have hs' : stringFields.contains f = false := by simpa using hs
            rw [(filterValue_string hv).2 hs']
            exact saligned_snoc_num ha (f, val, opc) hs'
    · simp at hf
  · intro r r' l o v ha hi
    have nc : stringFields.contains LA.Gen.RuleTables.fieldCompare = false := by decide +kernel
    unfold addInterField at hi
    cases hop : lookupB LA.Gen.RuleTables.operatorsTable o with
    | none => rw [hop] at hi; simp at hi
    | some opc =>
      rw [hop] at hi
      simp only at hi
      split at hi
      · simp at hi
      · split at hi
        · split at hi
          · simp at hi
          · rename_i lf rf _ _ _
            cases hc : lookupComparison lf rf with
            | none => rw [hc] at hi; simp at hi
            | some c =>
              rw [hc] at hi
              simp only [Option.some.injEq] at hi
              subst hi
              exact saligned_snoc_num ha _ nc
        · simp at hi
  · intro r r' sc ha hs
    have : r'.flags = r.flags ∧ r'.trips = r.trips ∧ r'.strings = r.strings := by
      unfold addSyscall at hs
      split at hs
      · simp only [Option.some.injEq] at hs; subst hs; exact ⟨rfl, rfl, rfl⟩
      · simp only at hs
        split at hs
        · simp at hs
        · split at hs
          · simp at hs
          · simp only [Option.some.injEq] at hs; subst hs; exact ⟨rfl, rfl, rfl⟩
    rw [this.1, this.2.1, this.2.2]
    exact ha
/-- a printable triple: not arch, not an inter-field comparison, and its field and operator
codes have names (numeric or string-valued). -/
structure PTrip (t : Nat × Nat × Nat) (lhs opS : Bytes) : Prop where
  notArch : (t.1 == LA.Gen.RuleTables.archField) = false
  notCmp : (t.1 == LA.Gen.RuleTables.fieldCompare) = false
  lhs : revLookup LA.Gen.RuleTables.fieldsTable t.1 = some lhs
  op : revLookup LA.Gen.RuleTables.operatorsTable t.2.2 = some opS

/-- the value texts of the triples, in order: the aligned string of a string-valued field, the
printed number (or name) of any other. -/
def rhsList : List (Nat × Nat × Nat) → List Bytes → List Bytes
  | [], _ => []
  | t :: ts, ss =>
    if stringFields.contains t.1 then
      match ss with
      | s :: rest => s :: rhsList ts rest
      | [] => []
    else fieldRhs t.1 t.2.1 :: rhsList ts ss

theorem rhsList_length {ts : List (Nat × Nat × Nat)} {ss : List Bytes} (h : Aligned ts ss) : (rhsList ts ss).length = ts.length := by
  induction ts generalizing ss with
  | nil => rfl
  | cons t ts ih =>
    simp only [Aligned] at h
    simp only [rhsList]
    split
    · rename_i hs
      rw [if_pos hs] at h
      obtain ⟨s, rest, rfl, _, hr⟩ := h
      simp [ih hr]
    · rename_i hs
      rw [if_neg hs] at h
      simp [ih h]

/-- the (lhs, op, rhs) parts printed for the triples -/
def partsMixed : List (Nat × Nat × Nat) → List (Bytes × Bytes) → List Bytes → List (Bytes × Bytes × Bytes)
  | _ :: ts, nm :: names, v :: vals => (nm.1, nm.2, v) :: partsMixed ts names vals
  | _, _, _ => []

/-- printFields on printable triples aligned with their strings prints one `-F name op value`
element per triple, in order. -/
theorem printFields_mixed (ts : List (Nat × Nat × Nat)) (names : List (Bytes × Bytes)) (strs : List Bytes)
    (hal : Aligned ts strs) (hlen : names.length = ts.length)
    (hn : ∀ (i : Nat) (t : Nat × Nat × Nat) (nm : Bytes × Bytes), ts[i]? = some t → names[i]? = some nm → PTrip t nm.1 nm.2) :
    printFields (ts.map (·.1)) (ts.map (·.2.1)) (ts.map (·.2.2)) strs =
      some ((partsMixed ts names (rhsList ts strs)).map (fun p => ofString "-F " ++ p.1 ++ p.2.1 ++ p.2.2)) := by
  induction ts generalizing names strs with
  | nil => simp [printFields, partsMixed]
  | cons t ts ih =>
    cases names with
    | nil => simp at hlen
    | cons nm names =>
      have h0 := hn 0 t nm rfl rfl
      simp only [Aligned] at hal
      by_cases hs : stringFields.contains t.1 = true
      · rw [if_pos hs] at hal
        obtain ⟨s, rest, rfl, _, hr⟩ := hal
        simp only [List.map_cons, printFields, h0.op, h0.notArch, Bool.false_eq_true, if_false, h0.notCmp, h0.lhs, hs, if_true,
          rhsList, partsMixed]
        rw [ih names rest hr (by simpa using hlen) (fun i t' nm' ht hnm => hn (i + 1) t' nm' (by simpa using ht) (by simpa using hnm))]
        simp [List.append_assoc]
      · rw [if_neg hs] at hal
        have hs' : stringFields.contains t.1 = false := by simpa using hs
        simp only [List.map_cons, printFields, h0.op, h0.notArch, Bool.false_eq_true, if_false, h0.notCmp, h0.lhs, hs',
          rhsList, partsMixed]
        rw [ih names strs hal (by simpa using hlen) (fun i t' nm' ht hnm => hn (i + 1) t' nm' (by simpa using ht) (by simpa using hnm))]
        simp [List.append_assoc]
end LA.Rule
