/-
Helper lemmas for C09: where a record's key/value pairs end up, step by step.
No property statements here (they live in LA/Props/C09.lean).
-/
import LA.Proofs.CoalesceKV

namespace LA.Coalesce

/-! ### the places a pair can be found -/

/-- a warning that names record type `typ` and key `k` (or the record as a whole). -/
def Warned (e : Event) (typ : Nat) (k : Bytes) : Prop :=
  Warn.dupKey k typ ∈ e.warnings ∨ Warn.dupKey (kSocket_ ++ k) typ ∈ e.warnings ∨
  (typ = SOCKADDR ∧ Warn.sockaddrNoSyscall ∈ e.warnings) ∨
  (typ = EXECVE ∧ (Warn.noArgc ∈ e.warnings ∨ Warn.badArgc ∈ e.warnings ∨ ∃ κ, Warn.noArg κ ∈ e.warnings))

/-- places that no later step of `CoalesceMessages` touches. -/
def StableLoc (e : Event) (k v : Bytes) : Prop :=
  lookup k e.ids = some v ∨ (hasPrefix kSubj_ k = true ∧ lookup (k.drop 5) e.selinux = some v) ∨
  (k = kResult ∧ e.result = v) ∨ (k = kSes ∧ e.session = v) ∨ (∃ p ∈ e.paths, (k, v) ∈ p)

def ArgsLoc (e : Event) (k v : Bytes) : Prop := ∃ i, k = argKey i ∧ e.args[i]? = some v

/-- kept in a way that survives every later record step. -/
def SafeNA (e : Event) (typ : Nat) (k v : Bytes) : Prop :=
  StableLoc e k v ∨ Warned e typ k ∨ (k ≠ kItems ∧ lookup k e.data = some v) ∨
  lookup (kSocket_ ++ k) e.data = some v

/-! ### frame of the record steps -/

structure SFrame (keepItems keepArgs : Prop) (e e' : Event) : Prop where
  ids : e'.ids = e.ids
  selinux : e'.selinux = e.selinux
  result : e'.result = e.result
  session : e'.session = e.session
  ts : e'.ts = e.ts
  seq : e'.seq = e.seq
  typ : e'.typ = e.typ
  cat : e'.cat = e.cat
  tags : e'.tags = e.tags
  ecsCategory : e'.ecsCategory = e.ecsCategory
  ecsType : e'.ecsType = e.ecsType
  paths : ∃ extra, e'.paths = e.paths ++ extra
  warn : ∃ extra, e'.warnings = e.warnings ++ extra
  data : ∀ κ v, (κ ≠ kItems ∨ keepItems) → lookup κ e.data = some v → lookup κ e'.data = some v
  args : keepArgs → e'.args = e.args

theorem SFrame.refl (a b : Prop) (e : Event) : SFrame a b e e :=
  ⟨rfl, rfl, rfl, rfl, rfl, rfl, rfl, rfl, rfl, rfl, rfl, ⟨[], by simp⟩, ⟨[], by simp⟩, fun _ _ _ h => h, fun _ => rfl⟩

theorem SFrame.trans {a b a' b' : Prop} {e1 e2 e3 : Event} (h1 : SFrame a b e1 e2) (h2 : SFrame a' b' e2 e3) :
    SFrame (a ∧ a') (b ∧ b') e1 e3 := by
  obtain ⟨p1, hp1⟩ := h1.paths
  obtain ⟨p2, hp2⟩ := h2.paths
  obtain ⟨w1, hw1⟩ := h1.warn
  obtain ⟨w2, hw2⟩ := h2.warn
  refine ⟨h2.ids.trans h1.ids, h2.selinux.trans h1.selinux, h2.result.trans h1.result,
    h2.session.trans h1.session, h2.ts.trans h1.ts, h2.seq.trans h1.seq, h2.typ.trans h1.typ,
    h2.cat.trans h1.cat, h2.tags.trans h1.tags, h2.ecsCategory.trans h1.ecsCategory,
    h2.ecsType.trans h1.ecsType, ⟨p1 ++ p2, by rw [hp2, hp1, List.append_assoc]⟩,
    ⟨w1 ++ w2, by rw [hw2, hw1, List.append_assoc]⟩, ?_, ?_⟩
  · intro κ v hk h
    apply h2.data κ v (hk.imp id And.right)
    exact h1.data κ v (hk.imp id And.left) h
  · intro h; rw [h2.args h.2, h1.args h.1]

theorem SFrame.weaken {a b a' b' : Prop} {e e' : Event} (h : SFrame a b e e') (ha : a' → a) (hb : b' → b) :
    SFrame a' b' e e' :=
  { h with data := fun κ v hk hl => h.data κ v (hk.imp id ha) hl, args := fun hb' => h.args (hb hb') }

theorem warn_sframe (a b : Prop) (e : Event) (w : Warn) : SFrame a b e (warn e w) :=
  ⟨rfl, rfl, rfl, rfl, rfl, rfl, rfl, rfl, rfl, rfl, rfl, ⟨[], by simp [warn]⟩, ⟨[w], rfl⟩, fun _ _ _ h => h, fun _ => rfl⟩

theorem addField_sframe (a b : Prop) (typ : Nat) (e : Event) (kv : Bytes × Bytes) :
    SFrame a b e (addField typ e kv) := by
  unfold addField
  split
  · exact warn_sframe a b e _
  · exact ⟨rfl, rfl, rfl, rfl, rfl, rfl, rfl, rfl, rfl, rfl, rfl, ⟨[], by simp⟩, ⟨[], by simp⟩,
      fun κ v _ h => lookup_append_some _ h, fun _ => rfl⟩

theorem foldl_sframe {α : Type} (a b : Prop) (f : Event → α → Event)
    (hf : ∀ e x, SFrame a b e (f e x)) (l : List α) (e : Event) : SFrame a b e (l.foldl f e) := by
  induction l generalizing e with
  | nil => exact SFrame.refl a b e
  | cons x l ih =>
    exact ((hf e x).trans (ih (f e x))).weaken (fun h => ⟨h, h⟩) (fun h => ⟨h, h⟩)

theorem addOther_sframe (a b : Prop) (v : View) (e : Event) : SFrame a b e (addOther v e) := by
  unfold addOther
  split
  · exact warn_sframe a b e _
  · exact foldl_sframe a b _ (addField_sframe a b v.typ) _ e

theorem addPath_sframe (a b : Prop) (v : View) (e : Event) : SFrame a b e (addPath v e) := by
  unfold addPath
  split
  · exact warn_sframe a b e _
  · rename_i d _
    exact ⟨rfl, rfl, rfl, rfl, rfl, rfl, rfl, rfl, rfl, rfl, rfl, ⟨[d], rfl⟩, ⟨[], by simp⟩, fun _ _ _ h => h, fun _ => rfl⟩

theorem sframe_of_eq {a b : Prop} {e e1 e2 : Event} (hf : SFrame a b e e1)
    (h1 : e2.ids = e1.ids) (h2 : e2.selinux = e1.selinux) (h3 : e2.result = e1.result)
    (h4 : e2.session = e1.session) (h5 : e2.ts = e1.ts) (h6 : e2.seq = e1.seq) (h7 : e2.typ = e1.typ)
    (h8 : e2.cat = e1.cat) (h9 : e2.tags = e1.tags) (h10 : e2.paths = e1.paths)
    (h11 : e2.warnings = e1.warnings) (h12 : e2.data = e1.data) (h13 : e2.args = e1.args)
    (h14 : e2.ecsCategory = e1.ecsCategory) (h15 : e2.ecsType = e1.ecsType) :
    SFrame a b e e2 :=
  ⟨h1 ▸ hf.ids, h2 ▸ hf.selinux, h3 ▸ hf.result, h4 ▸ hf.session, h5 ▸ hf.ts, h6 ▸ hf.seq,
    h7 ▸ hf.typ, h8 ▸ hf.cat, h9 ▸ hf.tags, h14 ▸ hf.ecsCategory, h15 ▸ hf.ecsType, h10 ▸ hf.paths,
    h11 ▸ hf.warn, h12 ▸ hf.data, h13 ▸ hf.args⟩

theorem addSockaddr_sframe (a b : Prop) (v : View) (e : Event) : SFrame a b e (addSockaddr v e) := by
  unfold addSockaddr
  cases v.data with
  | none => exact warn_sframe a b e _
  | some d =>
    simp only
    cases lookup kSyscall e.data with
    | none => exact warn_sframe a b e _
    | some sc =>
      simp only
      have h1 : SFrame a b e (d.foldl (fun e kv => addField v.typ e (kSocket_ ++ kv.1, kv.2)) e) :=
        foldl_sframe a b _ (fun e x => addField_sframe a b v.typ e _) _ e
      split
      · exact sframe_of_eq h1 rfl rfl rfl rfl rfl rfl rfl rfl rfl rfl rfl rfl rfl rfl rfl
      · split
        · exact sframe_of_eq h1 rfl rfl rfl rfl rfl rfl rfl rfl rfl rfl rfl rfl rfl rfl rfl
        · exact h1

theorem addExecve_sframe (a : Prop) (v : View) (e : Event) : SFrame a False e (addExecve v e) := by
  unfold addExecve
  cases v.data with
  | none => exact warn_sframe a _ e _
  | some d =>
    simp only
    cases lookup kArgc d with
    | none => exact warn_sframe a _ e _
    | some argc =>
      simp only
      have h1 := addField_sframe a False v.typ e (kArgc, argc)
      cases parseUint 10 32 argc with
      | none => exact (h1.trans (warn_sframe a False _ _)).weaken (fun h => ⟨h, h⟩) (fun h => ⟨h, h⟩)
      | some n =>
        simp only
        cases collectArgs d n 0 with
        | error κ => exact (h1.trans (warn_sframe a False _ _)).weaken (fun h => ⟨h, h⟩) (fun h => ⟨h, h⟩)
        | ok as =>
          exact ⟨h1.ids, h1.selinux, h1.result, h1.session, h1.ts, h1.seq, h1.typ, h1.cat, h1.tags,
            h1.ecsCategory, h1.ecsType, h1.paths, h1.warn, h1.data, fun h => h.elim⟩

theorem step_sframe (e : Event) (m : View) : SFrame (m.typ ≠ SYSCALL) (m.typ ≠ EXECVE) e (step e m) := by
  unfold step
  split
  · rename_i h
    exact ⟨rfl, rfl, rfl, rfl, rfl, rfl, rfl, rfl, rfl, rfl, rfl, ⟨[], by simp⟩, ⟨[], by simp⟩,
      fun κ v hk hl => by
        rcases hk with hk | hk
        · simpa [lookup_erase_ne _ hk] using hl
        · exact absurd h hk,
      fun _ => rfl⟩
  · split
    · exact addPath_sframe _ _ m e
    · split
      · exact addSockaddr_sframe _ _ m e
      · split
        · rename_i h
          exact (addExecve_sframe _ m e).weaken id (fun h' => h' h)
        · exact addOther_sframe _ _ m e

theorem foldl_step_sframe (rest : List View) (e : Event) :
    SFrame (∀ m ∈ rest, m.typ ≠ SYSCALL) (∀ m ∈ rest, m.typ ≠ EXECVE) e (rest.foldl step e) := by
  induction rest generalizing e with
  | nil => exact SFrame.refl _ _ e
  | cons m rest ih =>
    exact ((step_sframe e m).trans (ih (step e m))).weaken
      (fun h => ⟨h m (List.mem_cons_self ..), fun x hx => h x (List.mem_cons_of_mem _ hx)⟩)
      (fun h => ⟨h m (List.mem_cons_self ..), fun x hx => h x (List.mem_cons_of_mem _ hx)⟩)

/-! ### what the frame preserves -/

theorem Warned.mono {a b : Prop} {e e' : Event} (hf : SFrame a b e e') {typ : Nat} {k : Bytes}
    (h : Warned e typ k) : Warned e' typ k := by
  obtain ⟨w, hw⟩ := hf.warn
  have hm : ∀ x, x ∈ e.warnings → x ∈ e'.warnings := fun x hx => by rw [hw]; exact List.mem_append_left _ hx
  rcases h with h | h | ⟨ht, h⟩ | ⟨ht, h | h | ⟨κ, h⟩⟩
  · exact Or.inl (hm _ h)
  · exact Or.inr (Or.inl (hm _ h))
  · exact Or.inr (Or.inr (Or.inl ⟨ht, hm _ h⟩))
  · exact Or.inr (Or.inr (Or.inr ⟨ht, Or.inl (hm _ h)⟩))
  · exact Or.inr (Or.inr (Or.inr ⟨ht, Or.inr (Or.inl (hm _ h))⟩))
  · exact Or.inr (Or.inr (Or.inr ⟨ht, Or.inr (Or.inr ⟨κ, hm _ h⟩)⟩))

theorem StableLoc.mono {a b : Prop} {e e' : Event} (hf : SFrame a b e e') {k v : Bytes}
    (h : StableLoc e k v) : StableLoc e' k v := by
  obtain ⟨px, hp⟩ := hf.paths
  rcases h with h | ⟨hp', h⟩ | ⟨hk, h⟩ | ⟨hk, h⟩ | ⟨p, hpm, h⟩
  · exact Or.inl (by rw [hf.ids]; exact h)
  · exact Or.inr (Or.inl ⟨hp', by rw [hf.selinux]; exact h⟩)
  · exact Or.inr (Or.inr (Or.inl ⟨hk, by rw [hf.result]; exact h⟩))
  · exact Or.inr (Or.inr (Or.inr (Or.inl ⟨hk, by rw [hf.session]; exact h⟩)))
  · exact Or.inr (Or.inr (Or.inr (Or.inr ⟨p, by rw [hp]; exact List.mem_append_left _ hpm, h⟩)))

theorem socket_ne_items (k : Bytes) : kSocket_ ++ k ≠ kItems := by
  intro h
  simp [kSocket_, kItems] at h

theorem SafeNA.mono {a b : Prop} {e e' : Event} (hf : SFrame a b e e') {typ : Nat} {k v : Bytes}
    (h : SafeNA e typ k v) : SafeNA e' typ k v := by
  rcases h with h | h | ⟨hk, h⟩ | h
  · exact Or.inl (h.mono hf)
  · exact Or.inr (Or.inl (h.mono hf))
  · exact Or.inr (Or.inr (Or.inl ⟨hk, hf.data k v (Or.inl hk) h⟩))
  · exact Or.inr (Or.inr (Or.inr (hf.data _ v (Or.inl (socket_ne_items k)) h)))

theorem ArgsLoc.mono {a b : Prop} {e e' : Event} (hf : SFrame a b e e') (hb : b) {k v : Bytes}
    (h : ArgsLoc e k v) : ArgsLoc e' k v := by
  obtain ⟨i, hk, hi⟩ := h
  exact ⟨i, hk, by rw [hf.args hb]; exact hi⟩

/-! ### what each record step establishes -/

theorem addField_of_has {typ : Nat} {e : Event} {kv : Bytes × Bytes} (h : hasKey kv.1 e.data = true) :
    addField typ e kv = warn e (.dupKey kv.1 typ) := by
  simp [addField, h]

theorem addField_of_not {typ : Nat} {e : Event} {kv : Bytes × Bytes} (h : hasKey kv.1 e.data = false) :
    addField typ e kv = { e with data := e.data ++ [kv] } := by
  simp [addField, h]

/-- `addField` loop: every pair of the record is either reported as a duplicate or in Data. -/
theorem foldl_addField_kept (typ : Nat) (d : KV) (e : Event) {k v : Bytes} (h : (k, v) ∈ d) :
    Warn.dupKey k typ ∈ (d.foldl (addField typ) e).warnings ∨
    lookup k (d.foldl (addField typ) e).data = some v := by
  induction d generalizing e with
  | nil => cases h
  | cons p r ih =>
    simp only [List.foldl_cons]
    rcases List.mem_cons.mp h with h | h
    · subst h
      have hf := foldl_sframe True True _ (addField_sframe True True typ) r (addField typ e (k, v))
      obtain ⟨w, hw⟩ := hf.warn
      cases hk : hasKey k e.data with
      | true =>
        left
        rw [hw, addField_of_has (by simpa using hk)]
        apply List.mem_append_left; simp [warn]
      | false =>
        right
        apply hf.data k v (Or.inr trivial)
        rw [addField_of_not (by simpa using hk)]
        have : lookup k e.data = none := hasKey_false_iff.mp hk
        simp [lookup_append_none _ this, lookup]
    · exact ih _ h

theorem addOther_kept (m : View) (e : Event) {d : KV} (hd : m.data = some d) {k v : Bytes} (h : (k, v) ∈ d) :
    Warned (addOther m e) m.typ k ∨ lookup k (addOther m e).data = some v := by
  unfold addOther
  rw [hd]
  rcases foldl_addField_kept m.typ d e h with h | h
  · exact Or.inl (Or.inl h)
  · exact Or.inr h

theorem addPath_kept (m : View) (e : Event) {d : KV} (hd : m.data = some d) {k v : Bytes} (h : (k, v) ∈ d) :
    StableLoc (addPath m e) k v := by
  unfold addPath
  rw [hd]
  exact Or.inr (Or.inr (Or.inr (Or.inr ⟨d, by simp, h⟩)))

theorem foldl_map_addField (typ : Nat) (d : KV) (e : Event) :
    d.foldl (fun e kv => addField typ e (kSocket_ ++ kv.1, kv.2)) e =
    (d.map (fun kv => (kSocket_ ++ kv.1, kv.2))).foldl (addField typ) e := by
  rw [List.foldl_map]

theorem addSockaddr_kept (m : View) (hm : m.typ = SOCKADDR) (e : Event) {d : KV} (hd : m.data = some d)
    {k v : Bytes} (h : (k, v) ∈ d) : SafeNA (addSockaddr m e) m.typ k v := by
  unfold addSockaddr
  rw [hd]
  simp only
  cases lookup kSyscall e.data with
  | none => exact Or.inr (Or.inl (Or.inr (Or.inr (Or.inl ⟨hm, by simp [warn]⟩))))
  | some sc =>
    simp only
    have hmem : (kSocket_ ++ k, v) ∈ d.map (fun kv => (kSocket_ ++ kv.1, kv.2)) :=
      List.mem_map.mpr ⟨(k, v), h, rfl⟩
    have key := foldl_addField_kept m.typ (d.map (fun kv => (kSocket_ ++ kv.1, kv.2))) e hmem
    rw [← foldl_map_addField] at key
    have : SafeNA (d.foldl (fun e kv => addField m.typ e (kSocket_ ++ kv.1, kv.2)) e) m.typ k v := by
      rcases key with key | key
      · exact Or.inr (Or.inl (Or.inr (Or.inl key)))
      · exact Or.inr (Or.inr (Or.inr key))
    split
    · exact this
    · split
      · exact this
      · exact this

theorem collectArgs_get (d : KV) : ∀ (n j : Nat) (as : List Bytes), collectArgs d n j = .ok as →
    ∀ i, i < n → as[i]? = lookup (argKey (j + i)) d := by
  intro n
  induction n with
  | zero => intro j as _ i hi; omega
  | succ n ih =>
    intro j as h i hi
    unfold collectArgs at h
    split at h
    · cases h
    · rename_i a ha
      split at h
      · rename_i as' has'
        cases h
        cases i with
        | zero => simp [ha]
        | succ i =>
          have := ih (j + 1) as' has' i (by omega)
          simp only [List.getElem?_cons_succ, this]
          congr 2; omega
      · cases h

theorem kArgc_ne_items : kArgc ≠ kItems := by decide

theorem addExecve_kept (m : View) (hm : m.typ = EXECVE) (e : Event) {d : KV} (hd : m.data = some d)
    (hn : NoDupKeys d)
    (hkeys : ∀ argc n, lookup kArgc d = some argc → parseUint 10 32 argc = some n →
      ∀ k ∈ keys d, k = kArgc ∨ ∃ i, i < n ∧ k = argKey i)
    {k v : Bytes} (h : (k, v) ∈ d) :
    SafeNA (addExecve m e) m.typ k v ∨ ArgsLoc (addExecve m e) k v := by
  unfold addExecve
  rw [hd]
  simp only
  cases hargc : lookup kArgc d with
  | none => exact Or.inl (Or.inr (Or.inl (Or.inr (Or.inr (Or.inr ⟨hm, Or.inl (by simp [warn])⟩)))))
  | some argc =>
    simp only
    cases hparse : parseUint 10 32 argc with
    | none =>
      exact Or.inl (Or.inr (Or.inl (Or.inr (Or.inr (Or.inr ⟨hm, Or.inr (Or.inl (by simp [warn]))⟩)))))
    | some n =>
      simp only
      cases has : collectArgs d n 0 with
      | error κ =>
        exact Or.inl (Or.inr (Or.inl (Or.inr (Or.inr (Or.inr ⟨hm, Or.inr (Or.inr ⟨κ, by simp [warn]⟩)⟩)))))
      | ok as =>
        simp only
        rcases hkeys argc n hargc hparse k (mem_keys_of_mem h) with hk | ⟨i, hi, hk⟩
        · left
          subst hk
          have hv : v = argc := by
            have := lookup_of_mem_nodup hn h
            rw [hargc] at this; cases this; rfl
          subst hv
          have key := foldl_addField_kept m.typ [(kArgc, v)] e (k := kArgc) (v := v) (by simp)
          simp only [List.foldl_cons, List.foldl_nil] at key
          rcases key with key | key
          · exact Or.inr (Or.inl (Or.inl key))
          · exact Or.inr (Or.inr (Or.inl ⟨kArgc_ne_items, key⟩))
        · right
          refine ⟨i, hk, ?_⟩
          have := collectArgs_get d n 0 as has i hi
          simp only [Nat.zero_add] at this
          show as[i]? = some v
          rw [this, ← hk]
          exact lookup_of_mem_nodup hn h

end LA.Coalesce
