/-
The life cycle of a lone record as a function of its record type: the model's answer in closed form
(`specLife`) and a checker for the run-length table that harness/cmd/extract reads off the running
library for all 65536 record types (Gen/ReasmFacts). Helper lemmas for `C10_lifecycle_table`.
-/
import LA.Proofs.Reasm

namespace LA.Reasm

/-- the life cycle of a lone record of type `t` in the model, observed exactly as
harness/cmd/extract/reasmfacts.go observes the library (maxInFlight 4, one-hour timeout, sequence 7,
then an EOE with the same sequence): 0 delivered by its own push, 1 delivered alone by the EOE's
push, 2 neither push delivers anything, 3 anything else. -/
def modelLife (t : Nat) : Nat :=
  let first : Msg := ⟨0, 7, t⟩
  let r1 := step (init 4 3600000000000) (.push first 0 0)
  if r1.2 = [Out.group [first]] then 0
  else if r1.2 ≠ [] then 3
  else
    let r2 := step r1.1 (.push ⟨1, 7, 1320⟩ 0 0)
    if r2.2 = [] then 2 else if r2.2 = [Out.group [first]] then 1 else 3

def specLife (t : Nat) : Nat := if t = EOE then 2 else if completes t then 0 else 1

theorem modelLife_eq (t : Nat) : modelLife t = specLife t := by
  unfold modelLife specLife
  by_cases he : t = EOE
  · subst he; decide
  · have he' : (t == EOE) = false := by simpa using he
    have h1320 : ¬ t = 1320 := he
    by_cases hc : completes t = true
    · simp [step, put, init, he', hasKey, insertEnd, cleanUp, evictable, hc, evictStep, account, advance, callback, he]
    · have hc' : completes t = false := by simpa using hc
      simp [step, put, init, he', hasKey, insertEnd, cleanUp, evictable, hc', evictStep, account, advance, callback, he, EOE, markComplete, h1320]

def lookupLife (tbl : List (Nat × Nat × Nat)) (t : Nat) : Option Nat :=
  (tbl.find? (fun r => decide (r.1 ≤ t) && decide (t ≤ r.2.1))).map (·.2.2)

/-- the record types at which `specLife` can change value -/
def lifeBreaks : List Nat := [1300, 1320, 1321, 1327, 1328, 2100]

theorem specLife_prop (x : Nat) :
    specLife x = if x = 1320 then 2 else if x = 1327 ∨ x ≤ 1299 ∨ x ≥ 2100 then 0 else 1 := by
  by_cases h : x ≤ 1299 <;> simp [specLife, completes, EOE, PROCTITLE, LAST_DAEMON, ANOM_LOGIN_FAILURES, or_assoc, h]

theorem specLife_const (lo hi t : Nat) (h : lifeBreaks.all (fun b => !(decide (lo < b) && decide (b ≤ hi))) = true)
    (h1 : lo ≤ t) (h2 : t ≤ hi) : specLife t = specLife lo := by
  simp only [lifeBreaks, List.all_cons, List.all_nil, Bool.and_true, Bool.and_eq_true, Bool.not_eq_true',
    Bool.and_eq_false_iff, decide_eq_false_iff_not, Nat.not_lt, Nat.not_le] at h
  obtain ⟨a, b, c, d, e, f⟩ := h
  rw [specLife_prop, specLife_prop]
  split <;> split <;> (try split) <;> (try split) <;> first | rfl | omega

/-- the runs are contiguous from `start` to 65535, none spans a break, and each carries the value
`specLife` has at its left end. -/
def runsOk : Nat → List (Nat × Nat × Nat) → Bool
  | start, [] => start == 65536
  | start, r :: rest =>
    r.1 == start && decide (r.1 ≤ r.2.1) && lifeBreaks.all (fun b => !(decide (r.1 < b) && decide (b ≤ r.2.1))) &&
      specLife r.1 == r.2.2 && runsOk (r.2.1 + 1) rest

theorem runsOk_sound (tbl : List (Nat × Nat × Nat)) (start : Nat) (h : runsOk start tbl = true) (t : Nat)
    (h1 : start ≤ t) (h2 : t < 65536) : lookupLife tbl t = some (specLife t) := by
  induction tbl generalizing start with
  | nil => simp [runsOk] at h; omega
  | cons r rest ih =>
    simp only [runsOk, Bool.and_eq_true, beq_iff_eq, decide_eq_true_eq] at h
    obtain ⟨⟨⟨⟨hs, hle⟩, hb⟩, hv⟩, hrest⟩ := h
    by_cases ht : t ≤ r.2.1
    · have : lookupLife (r :: rest) t = some r.2.2 := by
        simp [lookupLife, List.find?_cons, hs, h1, ht]
      rw [this, ← hv, specLife_const r.1 r.2.1 t hb (by omega) ht]
    · have : lookupLife (r :: rest) t = lookupLife rest t := by
        simp [lookupLife, List.find?_cons, ht]
      rw [this]
      exact ih (r.2.1 + 1) hrest (by omega)

end LA.Reasm
