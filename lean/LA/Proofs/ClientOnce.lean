/-
Helper lemmas about Model.Client for C17: what never touches the Close bookkeeping, the
WaitForPendingACKs loop, ownership of returned rule data, the interleaved Close model.
No property statements here; those live in LA/Props.
-/
import LA.Proofs.ClientCmd

namespace LA.Client
open LA.Netlink

/-! ### the Close bookkeeping is touched by Close only -/

structure CF (s s' : St) : Prop where
  closes  : s'.closes = s.closes
  once    : s'.once = s.once
  closeOk : s'.closeOk = s.closeOk

theorem CF.refl (s : St) : CF s s := ⟨rfl, rfl, rfl⟩
theorem CF.trans {a b c : St} (h1 : CF a b) (h2 : CF b c) : CF a c :=
  ⟨h2.closes.trans h1.closes, h2.once.trans h1.once, h2.closeOk.trans h1.closeOk⟩
theorem Frame.cf {s s' : St} (h : Frame s s') : CF s s' := ⟨h.closes, h.once, h.closeOk⟩

theorem send_cf (s : St) (t f : Nat) (d : Bytes) : CF s (send s t f d).1 := ⟨rfl, rfl, rfl⟩

theorem awaitAck_cf (q : Nat) (s : St) : CF s (awaitAck q s).1 := by
  unfold awaitAck
  have hf := (getReply_frame q s).cf
  cases hg : getReply q s with
  | mk s2 r =>
    rw [hg] at hf
    cases r with
    | error e => exact hf
    | ok ack => simp only; cases checkAck ack <;> exact hf

theorem shape_cf (s : St) (x : St × Nat × Bool) (hx : CF s x.1) :
    CF s (match x with
      | (s1, _, false) => (s1, Out.fail Err.send)
      | (s1, q, true) => awaitAck q s1).1 := by
  obtain ⟨s1, q, ok⟩ := x
  cases ok with
  | false => exact hx
  | true => exact hx.trans (awaitAck_cf q s1)

theorem addRule_cf (s : St) (r : Bytes) : CF s (addRule s r).1 := by
  rw [addRule_eq]; exact shape_cf s _ (send_cf ..)

theorem deleteRule_cf (s : St) (r : Bytes) : CF s (deleteRule s r).1 := by
  rw [deleteRule_eq]; exact shape_cf s _ (send_cf ..)

theorem set_cf (s : St) (st : Status) (mode : Nat) : CF s (set s st mode).1 := by
  by_cases hm : mode = NoWait
  · unfold set
    cases hsend : send s AuditSet (NLM_F_REQUEST + NLM_F_ACK) st.toWire with
    | mk s1 x =>
      have h1 : CF s s1 := by have := send_cf s AuditSet (NLM_F_REQUEST + NLM_F_ACK) st.toWire; rw [hsend] at this; exact this
      obtain ⟨q, ok⟩ := x
      cases ok with
      | false => exact h1
      | true => simp only [hm, if_true]; exact ⟨h1.closes, h1.once, h1.closeOk⟩
  · rw [set_wait_eq s st mode hm]; exact shape_cf s _ (send_cf ..)

theorem getStatus_cf (s : St) : CF s (getStatus s).1 := by
  unfold getStatus
  cases hsend : getStatusAsync s true with
  | mk s1 x =>
    have h1 : CF s s1 := by
      have := send_cf s AuditGet (NLM_F_REQUEST + NLM_F_ACK) []
      unfold getStatusAsync at hsend
      simp only [if_true] at hsend
      rw [hsend] at this; exact this
    obtain ⟨q, ok⟩ := x
    cases ok with
    | false => exact h1
    | true =>
      simp only
      have hf := (getReply_frame q s1).cf
      cases hg : getReply q s1 with
      | mk s2 r =>
        rw [hg] at hf
        cases r with
        | error e => exact h1.trans hf
        | ok ack =>
          simp only
          cases checkAck ack with
          | some e => exact h1.trans hf
          | none =>
            simp only
            have hf2 := (getReply_frame q s2).cf
            cases hg2 : getReply q s2 with
            | mk s3 r2 =>
              rw [hg2] at hf2
              cases r2 with
              | error e => exact (h1.trans hf).trans hf2
              | ok reply =>
                simp only
                split
                · exact (h1.trans hf).trans hf2
                · split <;> exact (h1.trans hf).trans hf2

theorem rulesLoop_cf (q f : Nat) (s : St) (acc : List Ref) : CF s (rulesLoop q f s acc).1 := by
  induction f generalizing s acc with
  | zero => exact CF.refl s
  | succ f ih =>
    unfold rulesLoop
    have hf := (getReply_frame q s).cf
    cases hg : getReply q s with
    | mk s1 r =>
      rw [hg] at hf
      cases r with
      | error e => exact hf
      | ok reply =>
        simp only
        split
        · exact hf
        · split
          · exact hf
          · exact hf.trans (ih _ _)

theorem getRulesE_cf (s : St) : CF s (getRulesE s).1 := by
  unfold getRulesE
  cases hsend : send s AUDIT_LIST_RULES (NLM_F_REQUEST + NLM_F_ACK) [] with
  | mk s1 x =>
    have h1 : CF s s1 := by have := send_cf s AUDIT_LIST_RULES (NLM_F_REQUEST + NLM_F_ACK) []; rw [hsend] at this; exact this
    obtain ⟨q, ok⟩ := x
    cases ok with
    | false => exact h1
    | true =>
      simp only
      have hf := (getReply_frame q s1).cf
      cases hg : getReply q s1 with
      | mk s2 r =>
        rw [hg] at hf
        cases r with
        | error e => exact h1.trans hf
        | ok ack =>
          simp only
          cases checkAck ack with
          | some e => exact h1.trans hf
          | none => exact (h1.trans hf).trans (rulesLoop_cf ..)

theorem getRules_cf (s : St) : CF s (getRules s).1 := by
  unfold getRules
  have := getRulesE_cf s
  cases hg : getRulesE s with
  | mk s1 r => rw [hg] at this; cases r <;> exact this

theorem deleteLoop_cf (rs : List Ref) (s : St) : CF s (deleteLoop rs s).1 := by
  induction rs generalizing s with
  | nil => exact CF.refl s
  | cons r rs ih =>
    unfold deleteLoop
    have hd := deleteRule_cf s (r.deref s.buf)
    cases hg : deleteRule s (r.deref s.buf) with
    | mk s1 o =>
      rw [hg] at hd
      cases o with
      | ok d => exact hd.trans (ih s1)
      | fail e => exact hd
      | panic => exact hd

theorem deleteRules_cf (s : St) : CF s (deleteRules s).1 := by
  unfold deleteRules
  have h1 := getRulesE_cf s
  cases hg : getRulesE s with
  | mk s1 r =>
    rw [hg] at h1
    cases r with
    | error e => exact h1
    | ok rs =>
      simp only
      have h2 := deleteLoop_cf rs s1
      cases hd : deleteLoop rs s1 with
      | mk s2 o => rw [hd] at h2; cases o <;> exact h1.trans h2

theorem waitLoop_cf (ps : List Nat) (s : St) : CF s (waitLoop ps s).1 := by
  induction ps generalizing s with
  | nil => exact CF.refl s
  | cons p ps ih =>
    unfold waitLoop
    have hf := (getReply_frame p s).cf
    cases hg : getReply p s with
    | mk s1 r =>
      rw [hg] at hf
      cases r with
      | error e => exact hf
      | ok ack =>
        simp only
        have h2 : CF s { s1 with pending := ps } := ⟨hf.closes, hf.once, hf.closeOk⟩
        cases checkAck ack with
        | some e => exact h2
        | none => exact h2.trans (ih _)

theorem receiveMsg_cf (s : St) : CF s (receiveMsg s).1 := by
  unfold receiveMsg
  have hf := (receive_frame s).cf
  cases hr : receive s with
  | mk s1 r =>
    rw [hr] at hf
    cases r with
    | transient b => cases b <;> exact hf
    | hard => exact hf
    | msgs m => cases m <;> exact hf

/-- every operation other than Close leaves the Close bookkeeping alone -/
theorem step_cf (s : St) (op : Op) (h : op ≠ .close) : CF s (step s op).1 := by
  cases op with
  | getStatus => exact getStatus_cf s
  | getStatusAsync a =>
    simp only [step]
    have := send_cf s AuditGet (if a then NLM_F_REQUEST + NLM_F_ACK else NLM_F_REQUEST) []
    unfold getStatusAsync
    cases hs : send s AuditGet (if a then NLM_F_REQUEST + NLM_F_ACK else NLM_F_REQUEST) [] with
    | mk s1 x =>
      rw [hs] at this
      obtain ⟨q, ok⟩ := x
      cases ok <;> exact this
  | getRules => exact getRules_cf s
  | deleteRules => exact deleteRules_cf s
  | deleteRule r => exact deleteRule_cf s r
  | addRule r => exact addRule_cf s r
  | setPID p wm =>
    have h1 : CF s { s with clearPID := true } := ⟨rfl, rfl, rfl⟩
    exact h1.trans (set_cf _ _ _)
  | setRateLimit v wm => exact set_cf _ _ _
  | setBacklogLimit v wm => exact set_cf _ _ _
  | setEnabled e wm => exact set_cf _ _ _
  | setImmutable wm => exact set_cf _ _ _
  | setFailure fm wm => exact set_cf _ _ _
  | setBacklogWaitTime w wm => exact set_cf _ _ _
  | waitAcks => exact waitLoop_cf _ _
  | close => exact absurd rfl h
  | receive => exact receiveMsg_cf s
  | plans ps => exact ⟨rfl, rfl, rfl⟩
  | enqueue its => exact ⟨rfl, rfl, rfl⟩

/-! ### Close -/

/-- the optional PID clear that Close performs inside the Once -/
def closeBody (s : St) : St × Out :=
  if s.clearPID then set { s with once := true } { mask := AuditStatusPID, pid := 0 } NoWait
  else ({ s with once := true }, .ok .none)

/-- whatever the PID clear and Netlink.Close return, the first Close leaves this state -/
theorem close_fst (s : St) (h : s.once = false) :
    (close s).1 = { (closeBody s).1 with closes := (closeBody s).1.closes + 1 } := by
  unfold close closeBody
  simp only [h, Bool.false_eq_true, if_false]
  split <;> rfl

theorem closeBody_cf (s : St) : CF { s with once := true } (closeBody s).1 := by
  unfold closeBody
  split
  · exact set_cf _ _ _
  · exact CF.refl _

theorem close_facts (s : St) :
    (s.once = true → close s = (s, .ok .none)) ∧
    (s.once = false → (close s).1.once = true ∧ (close s).1.closes = s.closes + 1 ∧ (close s).1.closeOk = s.closeOk) := by
  refine ⟨fun h => by simp [close, h], fun h => ?_⟩
  have hc := closeBody_cf s
  rw [close_fst s h]
  exact ⟨hc.once, by simp only [hc.closes], hc.closeOk⟩

/-- the Close bookkeeping of any history: the socket has been closed once iff Close ran, never twice -/
def CloseInv (s : St) : Prop := s.closes = if s.once then 1 else 0

theorem closeInv_step (s : St) (op : Op) (h : CloseInv s) : CloseInv (step s op).1 := by
  by_cases hop : op = .close
  · subst hop
    simp only [step]
    unfold CloseInv at *
    cases ho : s.once with
    | true => rw [(close_facts s).1 ho]; simpa [ho] using h
    | false =>
      obtain ⟨h1, h2, _⟩ := (close_facts s).2 ho
      rw [h1, h2, h]; simp [ho]
  · have := step_cf s op hop
    unfold CloseInv at *
    rw [this.closes, this.once]; exact h

theorem closeInv_run (s : St) (ops : List Op) (h : CloseInv s) : CloseInv (run s ops).1 := by
  induction ops generalizing s with
  | nil => exact h
  | cons op ops ih => simp only [run]; exact ih _ (closeInv_step s op h)

/-- once Close has run, it has run -/
theorem once_step (s : St) (op : Op) (h : s.once = true) : (step s op).1.once = true := by
  by_cases hop : op = .close
  · subst hop; simp only [step]; rw [(close_facts s).1 h]; exact h
  · rw [(step_cf s op hop).once]; exact h

theorem once_run (s : St) (ops : List Op) (h : s.once = true) : (run s ops).1.once = true := by
  induction ops generalizing s with
  | nil => exact h
  | cons op ops ih => simp only [run]; exact ih _ (once_step s op h)

theorem close_sets_once (s : St) : (step s .close).1.once = true := by
  simp only [step]
  cases ho : s.once with
  | true => rw [(close_facts s).1 ho]; exact ho
  | false => exact ((close_facts s).2 ho).1

theorem run_append (s : St) (a b : List Op) :
    run s (a ++ b) = ((run (run s a).1 b).1, (run s a).2 ++ (run (run s a).1 b).2) := by
  induction a generalizing s with
  | nil => simp [run]
  | cons op a ih => simp [run, ih]

/-! ### the WaitForPendingACKs loop -/

/-- the acknowledgement of one pending request as the loop finds it -/
structure AckMsg where
  ns : List Seg
  ts : List Item
  b  : Bytes

def AckMsg.items (a : AckMsg) : List Item := noise a.ns ++ (a.ts ++ [.raw a.b])

/-- `a` is a successful acknowledgement of request `p` -/
def AckMsg.Success (p : Nat) (a : AckMsg) : Prop :=
  p ≠ 0 ∧ (∀ n ∈ a.ns, n.Ok) ∧ Retryable a.ts ∧ 16 ≤ a.b.length ∧ verdict p a.b = none

def acks (pa : List (Nat × AckMsg)) : List Item := pa.flatMap fun x => x.2.items

theorem verdict_none_seq {p : Nat} {b : Bytes} (h : verdict p b = none) : (Hdr.parse b).seq = p :=
  ((verdict_none_iff p b).mp h).1

/-- a prefix of successful acknowledgements is consumed in order and popped, one by one -/
theorem waitLoop_prefix (pa : List (Nat × AckMsg)) (hpa : ∀ x ∈ pa, x.2.Success x.1) (more : List Nat)
    (s : St) (q : List Item) (hp : s.pending = pa.map (·.1) ++ more) (hq : s.queue = acks pa ++ q) :
    ∃ s', waitLoop (pa.map (·.1) ++ more) s = waitLoop more s' ∧ s'.pending = more ∧ s'.queue = q ∧
          s'.recvs = s.recvs + (acks pa).length ∧ s'.sent = s.sent := by
  induction pa generalizing s with
  | nil => exact ⟨s, rfl, by simpa using hp, by simpa [acks] using hq, by simp [acks], rfl⟩
  | cons x pa ih =>
    obtain ⟨hp0, hns, hts, hlen, hv⟩ := hpa x (List.mem_cons_self ..)
    have hseq := verdict_none_seq hv
    have d : Dialogue s.queue x.2.ns x.2.ts x.2.b (acks pa ++ q) := by
      refine ⟨?_, hns, hts, hlen, by rw [hseq]; exact hp0⟩
      rw [hq]; simp [acks, AckMsg.items, List.append_assoc]
    obtain ⟨hr, hc⟩ := getReply_dialogue x.1 hp0 s d
    simp only [List.map_cons, List.cons_append]
    conv => enter [1, s', 1, 1]; unfold waitLoop
    cases hg : getReply x.1 s with
    | mk s1 r =>
      rw [hg] at hr hc
      simp only at hr hc
      subst hr
      have hck : checkAck { hdr := Hdr.parse x.2.b, data := x.2.b.drop 16 } = none := by
        rw [checkAck_parse _ hlen]
        have := hv
        unfold verdict at this
        rw [if_neg (by simpa using hseq)] at this
        exact this
      simp only [replyOf, hseq, if_true, hck]
      obtain ⟨s', h1, h2, h3, h4, h5⟩ := ih (fun y hy => hpa y (List.mem_cons_of_mem _ hy))
        { s1 with pending := pa.map (·.1) ++ more } rfl hc.queue
      refine ⟨s', h1, h2, h3, ?_, ?_⟩
      · rw [h4]
        simp only [hc.recvs, acks, List.flatMap_cons, List.length_append, AckMsg.items, Dialogue.cost, List.length_cons,
          List.length_nil]
        omega
      · rw [h5]; exact hc.frame.sent

/-! ### rule data is owned -/

def Ref.Owned : Ref → Prop
  | .owned _ => True
  | .view _ _ => False

theorem rulesLoop_owned (q f : Nat) (s : St) (acc : List Ref) (hacc : ∀ r ∈ acc, r.Owned) :
    ∀ rs, (rulesLoop q f s acc).2 = .ok rs → ∀ r ∈ rs, r.Owned := by
  induction f generalizing s acc with
  | zero => intro rs h; simp [rulesLoop] at h
  | succ f ih =>
    intro rs h
    unfold rulesLoop at h
    cases hg : getReply q s with
    | mk s1 r =>
      rw [hg] at h
      cases r with
      | error e => simp at h
      | ok reply =>
        simp only at h
        split at h
        · simp only [Except.ok.injEq] at h; subst h; exact hacc
        · split at h
          · simp at h
          · refine ih s1 (acc ++ [.owned reply.data]) ?_ rs h
            intro r hr
            rcases List.mem_append.mp hr with hr | hr
            · exact hacc r hr
            · simp only [List.mem_singleton] at hr; subst hr; trivial

theorem getRulesE_owned (s : St) (rs : List Ref) (h : (getRulesE s).2 = .ok rs) : ∀ r ∈ rs, r.Owned := by
  unfold getRulesE at h
  cases hsend : send s AUDIT_LIST_RULES (NLM_F_REQUEST + NLM_F_ACK) [] with
  | mk s1 x =>
    rw [hsend] at h
    obtain ⟨q, ok⟩ := x
    cases ok with
    | false => simp at h
    | true =>
      simp only at h
      cases hg : getReply q s1 with
      | mk s2 r =>
        rw [hg] at h
        cases r with
        | error e => simp at h
        | ok ack =>
          simp only at h
          cases hck : checkAck ack with
          | some e => rw [hck] at h; simp at h
          | none =>
            rw [hck] at h
            simp only at h
            exact rulesLoop_owned q _ s2 [] (by simp) rs h

theorem deref_owned (r : Ref) (h : r.Owned) (buf buf' : Bytes) : r.deref buf = r.deref buf' := by
  cases r with
  | owned b => rfl
  | view o l => exact absurd h (by simp [Ref.Owned])

/-! ### Close from several goroutines -/

/-- everything the Once body does, in order -/
def fullLog (clearPID : Bool) : List CEv := if clearPID then [.clearPID, .sockClose] else [.sockClose]

/-- … up to (not including) Netlink.Close -/
def midLog (clearPID : Bool) : List CEv := if clearPID then [.clearPID] else []

/-- the error the call that runs the body returns -/
def bodyErr (c : CC) : Bool := (c.clearPID && !c.sendOk) || !c.closeOk

/-- where the call that won the Once is -/
inductive WinnerAt (c : CC) (w : Nat) : Prop
  | body : c.phase w = .body → c.log = [] → c.done = false → WinnerAt c w
  | sock : c.phase w = .sock (c.clearPID && !c.sendOk) → c.log = midLog c.clearPID → c.done = false → WinnerAt c w
  | ret : c.phase w = .ret (bodyErr c) → c.log = fullLog c.clearPID → c.done = true → WinnerAt c w

def LoserOk (c : CC) (i : Nat) : Prop :=
  c.phase i = .idle ∨ c.phase i = .waiting ∨ (c.phase i = .ret false ∧ c.done = true)

structure CCInv (c : CC) : Prop where
  fresh : c.once = false → c.log = [] ∧ c.done = false ∧ ∀ i, c.phase i = .idle
  taken : c.once = true → ∃ w, WinnerAt c w ∧ ∀ i, i ≠ w → LoserOk c i

theorem ccInv_init (a b d : Bool) : CCInv (CC.init a b d) :=
  ⟨fun _ => ⟨rfl, rfl, fun _ => rfl⟩, fun h => by simp [CC.init] at h⟩

@[simp] theorem setPhase_phase (c : CC) (i : Nat) (p : CPhase) (j : Nat) :
    (c.setPhase i p).phase j = if j = i then p else c.phase j := rfl

theorem winner_not_loser {c : CC} {w : Nat} (hw : WinnerAt c w) (h : c.phase w = .idle ∨ c.phase w = .waiting) : False := by
  cases hw with
  | body h1 _ _ => rcases h with h | h <;> rw [h1] at h <;> cases h
  | sock h1 _ _ => rcases h with h | h <;> rw [h1] at h <;> cases h
  | ret h1 _ _ => rcases h with h | h <;> rw [h1] at h <;> cases h

theorem ccInv_step {c : CC} (h : CCInv c) (i : Nat) : CCInv (ccStep c i) := by
  unfold ccStep
  cases hp : c.phase i with
  | idle =>
    simp only
    cases ho : c.once with
    | false =>
      obtain ⟨hl, hd, hall⟩ := h.fresh ho
      simp only [Bool.false_eq_true, if_false]
      refine ⟨fun hh => by simp at hh, fun _ => ⟨i, ?_, ?_⟩⟩
      · exact .body (by simp) hl hd
      · intro j hj; left; simp [hj, hall j]
    | true =>
      obtain ⟨w, hw, hlos⟩ := h.taken ho
      have hiw : i ≠ w := fun e => winner_not_loser hw (Or.inl (e ▸ hp))
      simp only [if_true]
      refine ⟨fun hh => by simp [CC.setPhase, ho] at hh, fun _ => ⟨w, ?_, ?_⟩⟩
      · have hwi : ¬ w = i := fun e => hiw e.symm
        have hpw : (c.setPhase i .waiting).phase w = c.phase w := by simp [hwi]
        cases hw with
        | body h1 h2 h3 => exact .body (hpw.trans h1) h2 h3
        | sock h1 h2 h3 => exact .sock (hpw.trans h1) h2 h3
        | ret h1 h2 h3 => exact .ret (hpw.trans h1) h2 h3
      · intro j hj
        by_cases hji : j = i
        · right; left; simp [hji]
        · have := hlos j hj
          unfold LoserOk at *
          simpa [hji, CC.setPhase] using this
  | body =>
    simp only
    have ho : c.once = true := by
      cases hc : c.once with
      | true => rfl
      | false => have := (h.fresh hc).2.2 i; rw [hp] at this; cases this
    obtain ⟨w, hw, hlos⟩ := h.taken ho
    have hiw : i = w := by
      apply Classical.byContradiction; intro hne
      rcases hlos i hne with h1 | h1 | ⟨h1, _⟩ <;> rw [hp] at h1 <;> cases h1
    subst hiw
    have ⟨hlog, hdone⟩ : c.log = [] ∧ c.done = false := by
      cases hw with
      | body _ h2 h3 => exact ⟨h2, h3⟩
      | sock h1 _ _ => rw [hp] at h1; cases h1
      | ret h1 _ _ => rw [hp] at h1; cases h1
    cases hcp : c.clearPID with
    | true =>
      simp only [if_true]
      refine ⟨fun hh => by simp [CC.setPhase, ho] at hh, fun _ => ⟨i, ?_, ?_⟩⟩
      · refine .sock ?_ ?_ ?_
        · simp [CC.setPhase, hcp]
        · simp [CC.setPhase, hlog, midLog, hcp]
        · simpa [CC.setPhase] using hdone
      · intro j hj
        have := hlos j hj
        unfold LoserOk at *
        simpa [hj, CC.setPhase] using this
    | false =>
      simp only [Bool.false_eq_true, if_false]
      refine ⟨fun hh => by simp [CC.setPhase, ho] at hh, fun _ => ⟨i, ?_, ?_⟩⟩
      · refine .sock ?_ ?_ ?_
        · simp [CC.setPhase, hcp]
        · simp [CC.setPhase, hlog, midLog, hcp]
        · simpa [CC.setPhase] using hdone
      · intro j hj
        have := hlos j hj
        unfold LoserOk at *
        simpa [hj, CC.setPhase] using this
  | sock e =>
    simp only
    have ho : c.once = true := by
      cases hc : c.once with
      | true => rfl
      | false => have := (h.fresh hc).2.2 i; rw [hp] at this; cases this
    obtain ⟨w, hw, hlos⟩ := h.taken ho
    have hiw : i = w := by
      apply Classical.byContradiction; intro hne
      rcases hlos i hne with h1 | h1 | ⟨h1, _⟩ <;> rw [hp] at h1 <;> cases h1
    subst hiw
    have ⟨he, hlog⟩ : e = (c.clearPID && !c.sendOk) ∧ c.log = midLog c.clearPID := by
      cases hw with
      | body h1 _ _ => rw [hp] at h1; cases h1
      | sock h1 h2 _ => rw [hp] at h1; cases h1; exact ⟨rfl, h2⟩
      | ret h1 _ _ => rw [hp] at h1; cases h1
    refine ⟨fun hh => by simp [CC.setPhase, ho] at hh, fun _ => ⟨i, ?_, ?_⟩⟩
    · refine .ret ?_ ?_ ?_
      · simp [CC.setPhase, bodyErr, he]
      · simp only [CC.setPhase, hlog, midLog, fullLog]
        cases c.clearPID <;> simp
      · simp [CC.setPhase]
    · intro j hj
      have := hlos j hj
      unfold LoserOk at *
      rcases this with h1 | h1 | ⟨h1, _⟩
      · left; simpa [hj, CC.setPhase] using h1
      · right; left; simpa [hj, CC.setPhase] using h1
      · right; right; exact ⟨by simpa [hj, CC.setPhase] using h1, by simp [CC.setPhase]⟩
  | waiting =>
    simp only
    have ho : c.once = true := by
      cases hc : c.once with
      | true => rfl
      | false => have := (h.fresh hc).2.2 i; rw [hp] at this; cases this
    obtain ⟨w, hw, hlos⟩ := h.taken ho
    have hiw : i ≠ w := fun e => winner_not_loser hw (Or.inr (e ▸ hp))
    cases hd : c.done with
    | false => simp only [Bool.false_eq_true, if_false]; exact h
    | true =>
      simp only [if_true]
      refine ⟨fun hh => by simp [CC.setPhase, ho] at hh, fun _ => ⟨w, ?_, ?_⟩⟩
      · have hwi : ¬ w = i := fun e => hiw e.symm
        have hpw : (c.setPhase i (.ret false)).phase w = c.phase w := by simp [hwi]
        cases hw with
        | body h1 h2 h3 => exact .body (hpw.trans h1) h2 h3
        | sock h1 h2 h3 => exact .sock (hpw.trans h1) h2 h3
        | ret h1 h2 h3 => exact .ret (hpw.trans h1) h2 h3
      · intro j hj
        by_cases hji : j = i
        · right; right; exact ⟨by simp [hji], by simpa [CC.setPhase] using hd⟩
        · have := hlos j hj
          unfold LoserOk at *
          simpa [hji, CC.setPhase] using this
  | ret r => simp only; exact h

theorem ccInv_run (sched : List Nat) {c : CC} (h : CCInv c) : CCInv (ccRun c sched) := by
  induction sched generalizing c with
  | nil => exact h
  | cons i is ih => exact ih (ccInv_step h i)

theorem ccStep_params (c : CC) (i : Nat) :
    (ccStep c i).clearPID = c.clearPID ∧ (ccStep c i).sendOk = c.sendOk ∧ (ccStep c i).closeOk = c.closeOk := by
  unfold ccStep
  cases c.phase i with
  | idle => simp only; split <;> exact ⟨rfl, rfl, rfl⟩
  | body => simp only; split <;> exact ⟨rfl, rfl, rfl⟩
  | sock e => exact ⟨rfl, rfl, rfl⟩
  | waiting => simp only; split <;> exact ⟨rfl, rfl, rfl⟩
  | ret r => exact ⟨rfl, rfl, rfl⟩

theorem ccRun_params (sched : List Nat) (c : CC) :
    (ccRun c sched).clearPID = c.clearPID ∧ (ccRun c sched).sendOk = c.sendOk ∧ (ccRun c sched).closeOk = c.closeOk := by
  induction sched generalizing c with
  | nil => exact ⟨rfl, rfl, rfl⟩
  | cons i is ih =>
    obtain ⟨h1, h2, h3⟩ := ih (ccStep c i)
    obtain ⟨g1, g2, g3⟩ := ccStep_params c i
    exact ⟨h1.trans g1, h2.trans g2, h3.trans g3⟩

end LA.Client
