/-
Helper lemmas about Model.Netlink (no property statements here; those live in LA/Props).
-/
import LA.Model.Netlink

namespace LA.Netlink

/-! ### bytes and words -/

@[simp] theorem byte_toNat (n : Nat) : (byte n).toNat = n % 256 := by
  simp [byte]

theorem rd8_lt (b : Bytes) (i : Nat) : rd8 b i < 256 := by
  unfold rd8; exact UInt8.toNat_lt _

@[simp] theorem rd8_cons_zero (x : UInt8) (xs : Bytes) : rd8 (x :: xs) 0 = x.toNat := by
  simp [rd8]

@[simp] theorem rd8_cons_succ (x : UInt8) (xs : Bytes) (i : Nat) : rd8 (x :: xs) (i + 1) = rd8 xs i := by
  simp [rd8]

theorem rd8_append_right (p l : Bytes) (i : Nat) : rd8 (p ++ l) (p.length + i) = rd8 l i := by
  induction p with
  | nil => simp
  | cons x p ih =>
    have : (x :: p).length + i = (p.length + i) + 1 := by simp; omega
    simp only [List.cons_append, this, rd8_cons_succ, ih]

theorem rd8_append_left (p l : Bytes) (i : Nat) (h : i < p.length) : rd8 (p ++ l) i = rd8 p i := by
  simp [rd8, List.getD_eq_getElem?_getD, List.getElem?_append_left h]

theorem rd8_drop (b : Bytes) (k i : Nat) : rd8 (b.drop k) i = rd8 b (k + i) := by
  simp [rd8, List.getD_eq_getElem?_getD]

theorem rd32_drop (b : Bytes) (k i : Nat) : rd32 (b.drop k) i = rd32 b (k + i) := by
  simp [rd32, rd8_drop, Nat.add_assoc]

theorem rd8_take (b : Bytes) (k i : Nat) (h : i < k) : rd8 (b.take k) i = rd8 b i := by
  simp [rd8, List.getD_eq_getElem?_getD, h]

theorem rd32_take (b : Bytes) (k i : Nat) (h : i + 3 < k) : rd32 (b.take k) i = rd32 b i := by
  unfold rd32
  rw [rd8_take _ _ _ (by omega), rd8_take _ _ _ (by omega), rd8_take _ _ _ (by omega), rd8_take _ _ _ (by omega)]

theorem rd16_take (b : Bytes) (k i : Nat) (h : i + 1 < k) : rd16 (b.take k) i = rd16 b i := by
  unfold rd16
  rw [rd8_take _ _ _ (by omega), rd8_take _ _ _ (by omega)]

theorem rd32_lt (b : Bytes) (i : Nat) : rd32 b i < 4294967296 := by
  have h0 := rd8_lt b i; have h1 := rd8_lt b (i + 1); have h2 := rd8_lt b (i + 2); have h3 := rd8_lt b (i + 3)
  unfold rd32; omega

theorem rd16_lt (b : Bytes) (i : Nat) : rd16 b i < 65536 := by
  have h0 := rd8_lt b i; have h1 := rd8_lt b (i + 1)
  unfold rd16; omega

@[simp] theorem le32_length (n : Nat) : (le32 n).length = 4 := rfl
@[simp] theorem le16_length (n : Nat) : (le16 n).length = 2 := rfl

theorem rd32_le32 (n : Nat) (rest : Bytes) : rd32 (le32 n ++ rest) 0 = n % 4294967296 := by
  simp [rd32, le32]; omega

theorem rd16_le16 (n : Nat) (rest : Bytes) : rd16 (le16 n ++ rest) 0 = n % 65536 := by
  simp [rd16, le16]; omega

theorem rd32_append_right (p l : Bytes) (i : Nat) : rd32 (p ++ l) (p.length + i) = rd32 l i := by
  simp only [rd32, Nat.add_assoc, rd8_append_right]

theorem rd32_append_left (p l : Bytes) (i : Nat) (h : i + 3 < p.length) : rd32 (p ++ l) i = rd32 p i := by
  unfold rd32
  rw [rd8_append_left _ _ _ (by omega), rd8_append_left _ _ _ (by omega), rd8_append_left _ _ _ (by omega),
    rd8_append_left _ _ _ (by omega)]

/-- a word read back from four bytes re-encodes to those bytes -/
theorem le32_rd32 (a b c d : UInt8) (rest : Bytes) : le32 (rd32 (a :: b :: c :: d :: rest) 0) = [a, b, c, d] := by
  have ha := UInt8.toNat_lt a; have hb := UInt8.toNat_lt b; have hc := UInt8.toNat_lt c; have hd := UInt8.toNat_lt d
  simp only [rd32, rd8_cons_zero, rd8_cons_succ, le32, byte]
  have e0 : (a.toNat + 256 * b.toNat + 65536 * c.toNat + 16777216 * d.toNat) % 256 = a.toNat := by omega
  have e1 : (a.toNat + 256 * b.toNat + 65536 * c.toNat + 16777216 * d.toNat) / 256 % 256 = b.toNat := by omega
  have e2 : (a.toNat + 256 * b.toNat + 65536 * c.toNat + 16777216 * d.toNat) / 65536 % 256 = c.toNat := by omega
  have e3 : (a.toNat + 256 * b.toNat + 65536 * c.toNat + 16777216 * d.toNat) / 16777216 % 256 = d.toNat := by omega
  have k : ∀ n x : Nat, ∀ y : UInt8, n % 256 = y.toNat → x = n → UInt8.ofNat x = y := by
    intro n x y h hx; subst hx
    apply UInt8.toNat_inj.mp; simp [h]
  rw [k _ _ a e0 rfl, k _ _ b e1 rfl, k _ _ c e2 rfl, k _ _ d e3 rfl]

/-! ### header -/

@[simp] theorem Hdr.bytes_length (h : Hdr) : h.bytes.length = 16 := rfl

theorem Hdr.parse_bytes (h : Hdr) (rest : Bytes) :
    Hdr.parse (h.bytes ++ rest) =
      { len := h.len % 4294967296, typ := h.typ % 65536, flags := h.flags % 65536,
        seq := h.seq % 4294967296, pid := h.pid % 4294967296 } := by
  simp only [Hdr.parse, Hdr.bytes, rd32, rd16, le32, le16, List.cons_append, List.nil_append,
    rd8_cons_zero, rd8_cons_succ, byte_toNat, Hdr.mk.injEq]
  refine ⟨?_, ?_, ?_, ?_, ?_⟩ <;> omega

theorem Hdr.parse_bytes_wf (h : Hdr) (hw : h.WF) (rest : Bytes) : Hdr.parse (h.bytes ++ rest) = h := by
  obtain ⟨h1, h2, h3, h4, h5⟩ := hw
  rw [Hdr.parse_bytes]
  cases h
  simp only [Hdr.mk.injEq] at *
  refine ⟨?_, ?_, ?_, ?_, ?_⟩ <;> omega

theorem Hdr.parse_wf (b : Bytes) : (Hdr.parse b).WF :=
  ⟨rd32_lt _ _, rd16_lt _ _, rd16_lt _ _, rd32_lt _ _, rd32_lt _ _⟩

/-- parsing depends on the first 16 bytes only -/
theorem Hdr.parse_take (b : Bytes) : Hdr.parse (b.take 16) = Hdr.parse b := by
  simp only [Hdr.parse]
  rw [rd32_take _ _ _ (by omega), rd16_take _ _ _ (by omega), rd16_take _ _ _ (by omega),
    rd32_take _ _ _ (by omega), rd32_take _ _ _ (by omega)]

/-! ### serialize / parseAudit -/

theorem serialize_length (m : Msg) : (serialize m).length = 16 + m.data.length := by
  simp [serialize]

theorem parseAudit_of_le {buf : Bytes} (h : 16 ≤ buf.length) :
    parseAudit buf = .ok { hdr := Hdr.parse buf, data := buf.drop 16 } := by
  have : ¬ buf.length < 16 := by omega
  simp [parseAudit, unsafeRead, NLMSG_HDRLEN, this, h, Hdr.parse_take]

theorem parseAudit_of_lt {buf : Bytes} (h : buf.length < 16) : parseAudit buf = .err := by
  simp [parseAudit, NLMSG_HDRLEN, h]

theorem parseAudit_serialize (m : Msg) :
    parseAudit (serialize m) =
      .ok { hdr := { len := (16 + m.data.length) % 4294967296, typ := m.hdr.typ % 65536, flags := m.hdr.flags % 65536,
                     seq := m.hdr.seq % 4294967296, pid := m.hdr.pid % 4294967296 },
            data := m.data } := by
  rw [parseAudit_of_le (by rw [serialize_length]; omega)]
  have hd : (serialize m).drop 16 = m.data := by
    have : ({ m.hdr with len := (16 + m.data.length) % 4294967296 } : Hdr).bytes.length = 16 := rfl
    simp only [serialize]
    rw [List.drop_left' this]
  rw [hd]
  simp [serialize, Hdr.parse_bytes]

/-! ### concurrent Send -/

/-- values of a log -/
def vals (l : List (Nat × Nat)) : List Nat := l.map (·.2)

theorem mem_of_vals_nodup {l : List (Nat × Nat)} (hn : (vals l).Nodup) {a b q : Nat}
    (ha : (a, q) ∈ l) (hb : (b, q) ∈ l) : a = b := by
  induction l with
  | nil => simp at ha
  | cons x l ih =>
    simp only [vals, List.map_cons, List.nodup_cons] at hn
    rcases List.mem_cons.mp ha with ha | ha <;> rcases List.mem_cons.mp hb with hb | hb
    · rw [← ha] at hb; exact (Prod.mk.inj hb).1.symm
    · exfalso; apply hn.1; rw [← ha]; exact List.mem_map.mpr ⟨(b, q), hb, rfl⟩
    · exfalso; apply hn.1; rw [← hb]; exact List.mem_map.mpr ⟨(a, q), ha, rfl⟩
    · exact ih hn.2 ha hb

/-- invariant of the interleaving model, for a run that started with counter `c0` and has made
`n` atomic steps without wrapping -/
structure CInv (c0 : Nat) (s : CSt) : Prop where
  seq_eq   : s.seq = c0 + s.adds.length
  adds_eq  : vals s.adds = List.range' (c0 + 1) s.adds.length
  wire_sub : ∀ x ∈ s.wire, x ∈ s.adds
  wire_nd  : (vals s.wire).Nodup
  cur_mem  : ∀ t q, s.cur t = some q → (t, q) ∈ s.adds ∧ q ∉ vals s.wire
  per_tid  : ∀ t, s.wire.filter (·.1 == t) ++ (match s.cur t with | some q => [(t, q)] | none => []) =
                  s.adds.filter (·.1 == t)

theorem cinv_init (c0 : Nat) : CInv c0 (CSt.init c0) := by
  refine ⟨by simp [CSt.init], by simp [CSt.init, vals], by simp [CSt.init], by simp [CSt.init, vals], ?_, ?_⟩
  · intro t q h; simp [CSt.init] at h
  · intro t; simp [CSt.init]

theorem range'_nodup (a n : Nat) : (List.range' a n).Nodup := by
  induction n generalizing a with
  | zero => simp
  | succ n ih =>
    rw [List.range'_succ, List.nodup_cons]
    refine ⟨?_, ih _⟩
    simp only [List.mem_range', Nat.one_mul, not_exists, not_and]
    intro x _; omega

theorem adds_nodup {c0 : Nat} {s : CSt} (h : CInv c0 s) : (vals s.adds).Nodup := by
  rw [h.adds_eq]; exact range'_nodup _ _

theorem cinv_step {c0 : Nat} {s : CSt} (h : CInv c0 s) (tid : Nat)
    (hb : c0 + s.adds.length + 1 < 4294967296) : CInv c0 (cstep s tid) := by
  unfold cstep
  cases hc : s.cur tid with
  | none =>
    have hq : (s.seq + 1) % 4294967296 = c0 + s.adds.length + 1 := by
      rw [h.seq_eq]; exact Nat.mod_eq_of_lt hb
    simp only [hq]
    have hfresh : c0 + s.adds.length + 1 ∉ vals s.adds := by
      rw [h.adds_eq]
      simp only [List.mem_range', Nat.one_mul, not_exists, not_and]
      intro x _; omega
    refine ⟨by simp; omega, ?_, ?_, h.wire_nd, ?_, ?_⟩
    · simp only [vals, List.map_append, List.map_cons, List.map_nil, List.length_append, List.length_cons,
        List.length_nil]
      have := h.adds_eq
      simp only [vals] at this
      rw [this, List.range'_concat]
      simp only [Nat.one_mul, List.append_cancel_left_eq, List.cons.injEq, and_true]
      omega
    · intro x hx; exact List.mem_append_left _ (h.wire_sub x hx)
    · intro t q hq'
      by_cases ht : t = tid
      · subst ht
        simp only [if_true] at hq'
        cases hq'
        refine ⟨by simp, ?_⟩
        intro hmem
        obtain ⟨x, hx, hxe⟩ := List.mem_map.mp hmem
        exact hfresh (List.mem_map.mpr ⟨x, h.wire_sub x hx, hxe⟩)
      · simp only [ht, if_false] at hq'
        exact ⟨List.mem_append_left _ (h.cur_mem t q hq').1, (h.cur_mem t q hq').2⟩
    · intro t
      by_cases ht : t = tid
      · subst ht
        have := h.per_tid t
        simp only [hc, List.append_nil] at this
        simp [this, List.filter_append]
      · have := h.per_tid t
        have hne : (tid == t) = false := by simpa using fun e => ht e.symm
        simpa [ht, List.filter_append, hne] using this
  | some q =>
    simp only
    have hmem := h.cur_mem tid q hc
    refine ⟨h.seq_eq, h.adds_eq, ?_, ?_, ?_, ?_⟩
    · intro x hx
      rcases List.mem_append.mp hx with hx | hx
      · exact h.wire_sub x hx
      · simp only [List.mem_singleton] at hx; subst hx; exact hmem.1
    · simp only [vals, List.map_append, List.map_cons, List.map_nil]
      rw [List.nodup_append]
      refine ⟨h.wire_nd, by simp, ?_⟩
      intro a ha b hb'
      simp only [List.mem_singleton] at hb'
      subst hb'
      intro e; subst e; exact hmem.2 ha
    · intro t q' hq'
      by_cases ht : t = tid
      · simp [ht] at hq'
      · simp only [ht, if_false] at hq'
        have hm := h.cur_mem t q' hq'
        refine ⟨hm.1, ?_⟩
        simp only [vals, List.map_append, List.map_cons, List.map_nil, List.mem_append, List.mem_singleton, not_or]
        refine ⟨hm.2, ?_⟩
        intro e; subst e
        exact ht (mem_of_vals_nodup (adds_nodup h) hm.1 hmem.1)
    · intro t
      by_cases ht : t = tid
      · subst ht
        have := h.per_tid t
        simp only [hc] at this
        simp [List.filter_append, this]
      · have := h.per_tid t
        have hne : (tid == t) = false := by simpa using fun e => ht e.symm
        simpa [ht, List.filter_append, hne] using this

/-- number of atomic (fetch-and-add) steps never exceeds the number of scheduled steps -/
theorem adds_length_step (s : CSt) (tid : Nat) : (cstep s tid).adds.length ≤ s.adds.length + 1 := by
  unfold cstep
  cases s.cur tid <;> simp

theorem cinv_run {c0 : Nat} (sched : List Nat) {s : CSt} (h : CInv c0 s)
    (hb : c0 + s.adds.length + sched.length < 4294967296) : CInv c0 (crun s sched) := by
  induction sched generalizing s with
  | nil => exact h
  | cons t ts ih =>
    simp only [crun]
    simp only [List.length_cons] at hb
    apply ih (cinv_step h t (by omega))
    have := adds_length_step s t
    omega

end LA.Netlink
