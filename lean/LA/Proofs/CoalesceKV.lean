/-
Helper lemmas about the association-list maps of Model.CoalesceBase.
-/
import LA.Model.Coalesce

namespace LA.Coalesce

theorem lookup_nil (k : Bytes) : lookup k [] = none := rfl

theorem lookup_cons (k : Bytes) (p : Bytes × Bytes) (r : KV) :
    lookup k (p :: r) = if p.1 = k then some p.2 else lookup k r := rfl

theorem lookup_mem {k v : Bytes} {m : KV} (h : lookup k m = some v) : (k, v) ∈ m := by
  induction m with
  | nil => simp [lookup] at h
  | cons p r ih =>
    rw [lookup_cons] at h
    split at h
    · rename_i hk
      cases h
      have : p = (k, p.2) := by rw [← hk]
      rw [this]; exact List.mem_cons_self ..
    · exact List.mem_cons_of_mem _ (ih h)

theorem lookup_eq_none_iff {k : Bytes} {m : KV} : lookup k m = none ↔ k ∉ keys m := by
  induction m with
  | nil => simp [lookup, keys]
  | cons p r ih =>
    rw [lookup_cons]
    by_cases hk : p.1 = k
    · simp [hk, keys]
    · simp only [hk, if_false, keys, List.map_cons, List.mem_cons, not_or]
      constructor
      · intro h; exact ⟨fun h' => hk h'.symm, ih.mp h⟩
      · intro h; exact ih.mpr h.2

theorem mem_keys_of_mem {k v : Bytes} {m : KV} (h : (k, v) ∈ m) : k ∈ keys m :=
  List.mem_map.mpr ⟨(k, v), h, rfl⟩

theorem lookup_of_mem_nodup {k v : Bytes} {m : KV} (hn : NoDupKeys m) (h : (k, v) ∈ m) :
    lookup k m = some v := by
  induction m with
  | nil => cases h
  | cons p r ih =>
    rw [lookup_cons]
    have hn' : p.1 ∉ keys r ∧ NoDupKeys r := by
      simpa [NoDupKeys, keys] using hn
    rcases List.mem_cons.mp h with h | h
    · subst h; simp
    · have hne : p.1 ≠ k := fun hk => hn'.1 (hk ▸ mem_keys_of_mem h)
      simp only [hne, if_false]
      exact ih hn'.2 h

theorem hasKey_iff {k : Bytes} {m : KV} : hasKey k m = true ↔ ∃ v, lookup k m = some v := by
  unfold hasKey
  cases lookup k m <;> simp

theorem hasKey_false_iff {k : Bytes} {m : KV} : hasKey k m = false ↔ lookup k m = none := by
  unfold hasKey
  cases lookup k m <;> simp

theorem lookup_setKV_self (k v : Bytes) (m : KV) : lookup k (setKV k v m) = some v := by
  induction m with
  | nil => simp [setKV, lookup]
  | cons p r ih =>
    unfold setKV
    split
    · simp [lookup]
    · rename_i h; simp [lookup_cons, h, ih]

theorem lookup_setKV_ne {k k' : Bytes} (v : Bytes) (m : KV) (h : k' ≠ k) :
    lookup k' (setKV k v m) = lookup k' m := by
  induction m with
  | nil => simp [setKV, lookup, Ne.symm h]
  | cons p r ih =>
    unfold setKV
    split
    · rename_i hp
      simp only [lookup_cons, Ne.symm h, if_false]
      rw [hp]; simp [Ne.symm h]
    · simp only [lookup_cons, ih]

theorem lookup_erase_ne {k κ : Bytes} (m : KV) (h : κ ≠ k) : lookup κ (erase k m) = lookup κ m := by
  induction m with
  | nil => rfl
  | cons p r ih =>
    unfold erase at *
    simp only [List.filter_cons]
    by_cases hp : p.1 = k
    · simp only [hp, decide_true, Bool.not_true, Bool.false_eq_true, if_false, lookup_cons]
      rw [ih]; simp [Ne.symm h]
    · simp only [hp, decide_false, Bool.not_false, if_true, lookup_cons, ih]

theorem lookup_erase_self (k : Bytes) (m : KV) : lookup k (erase k m) = none := by
  induction m with
  | nil => rfl
  | cons p r ih =>
    unfold erase at *
    simp only [List.filter_cons]
    by_cases hp : p.1 = k
    · simp [hp, ih]
    · simp [hp, lookup_cons, ih]

theorem lookup_append_some {k v : Bytes} {m : KV} (m' : KV) (h : lookup k m = some v) :
    lookup k (m ++ m') = some v := by
  induction m with
  | nil => simp [lookup] at h
  | cons p r ih =>
    rw [List.cons_append, lookup_cons]
    rw [lookup_cons] at h
    split
    · rename_i hk; simpa [hk] using h
    · rename_i hk; simp only [hk, if_false] at h; exact ih h

theorem lookup_append_none {k : Bytes} {m : KV} (m' : KV) (h : lookup k m = none) :
    lookup k (m ++ m') = lookup k m' := by
  induction m with
  | nil => rfl
  | cons p r ih =>
    rw [List.cons_append, lookup_cons]
    rw [lookup_cons] at h
    split
    · rename_i hk; simp [hk] at h
    · rename_i hk; simp only [hk, if_false] at h; exact ih h

theorem getD_of_lookup {k v : Bytes} {m : KV} (h : lookup k m = some v) : getD k m = v := by
  simp [getD, h]

/-- two keys with the same prefix `p` and the same remainder are equal. -/
theorem eq_of_prefix_drop {p a b : Bytes} (ha : hasPrefix p a = true) (hb : hasPrefix p b = true)
    (h : a.drop p.length = b.drop p.length) : a = b := by
  unfold hasPrefix at ha hb
  obtain ⟨ta, rfl⟩ := List.isPrefixOf_iff_prefix.mp ha
  obtain ⟨tb, rfl⟩ := List.isPrefixOf_iff_prefix.mp hb
  simp at h
  rw [h]

end LA.Coalesce
