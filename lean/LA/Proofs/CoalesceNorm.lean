/-
Helper lemmas for C09/C15: `applyNormalization` and `addProcess` only move pairs, and which
fields each stage leaves alone.
-/
import LA.Proofs.CoalesceFold

namespace LA.Coalesce

/-- frame of `applyNormalization`: stable places untouched, warnings only grow, a pair in
Data stays there or becomes the source address. -/
structure NFrame (e e' : Event) : Prop where
  ids : e'.ids = e.ids
  selinux : e'.selinux = e.selinux
  result : e'.result = e.result
  session : e'.session = e.session
  ts : e'.ts = e.ts
  seq : e'.seq = e.seq
  typ : e'.typ = e.typ
  cat : e'.cat = e.cat
  tags : e'.tags = e.tags
  paths : e'.paths = e.paths
  args : e'.args = e.args
  warn : ∃ extra, e'.warnings = e.warnings ++ extra
  data : ∀ κ v, lookup κ e.data = some v → lookup κ e'.data = some v ∨ ∃ a, e'.source = some a ∧ a.ip = v
  src : ∀ a, e.source = some a → e'.source = some a

theorem NFrame.of_eq {e e' : Event} (h1 : e'.ids = e.ids) (h2 : e'.selinux = e.selinux)
    (h3 : e'.result = e.result) (h4 : e'.session = e.session) (h5 : e'.ts = e.ts) (h6 : e'.seq = e.seq)
    (h7 : e'.typ = e.typ) (h8 : e'.cat = e.cat) (h9 : e'.tags = e.tags) (h10 : e'.paths = e.paths)
    (h11 : e'.args = e.args) (h12 : e'.warnings = e.warnings) (h13 : e'.data = e.data)
    (h14 : e'.source = e.source) : NFrame e e' :=
  ⟨h1, h2, h3, h4, h5, h6, h7, h8, h9, h10, h11, ⟨[], by simp [h12]⟩,
    fun κ v h => Or.inl (by rw [h13]; exact h), fun a h => by rw [h14]; exact h⟩

theorem NFrame.refl (e : Event) : NFrame e e :=
  NFrame.of_eq rfl rfl rfl rfl rfl rfl rfl rfl rfl rfl rfl rfl rfl rfl

theorem NFrame.trans {e1 e2 e3 : Event} (h1 : NFrame e1 e2) (h2 : NFrame e2 e3) : NFrame e1 e3 := by
  obtain ⟨w1, hw1⟩ := h1.warn
  obtain ⟨w2, hw2⟩ := h2.warn
  refine ⟨h2.ids.trans h1.ids, h2.selinux.trans h1.selinux, h2.result.trans h1.result,
    h2.session.trans h1.session, h2.ts.trans h1.ts, h2.seq.trans h1.seq, h2.typ.trans h1.typ,
    h2.cat.trans h1.cat, h2.tags.trans h1.tags, h2.paths.trans h1.paths, h2.args.trans h1.args,
    ⟨w1 ++ w2, by rw [hw2, hw1, List.append_assoc]⟩, ?_, fun a h => h2.src a (h1.src a h)⟩
  intro κ v h
  rcases h1.data κ v h with h | ⟨a, ha, hv⟩
  · exact h2.data κ v h
  · exact Or.inr ⟨a, h2.src a ha, hv⟩

theorem warn_nframe (e : Event) (w : Warn) : NFrame e (warn e w) :=
  ⟨rfl, rfl, rfl, rfl, rfl, rfl, rfl, rfl, rfl, rfl, rfl, ⟨[w], rfl⟩, fun _ _ h => Or.inl h, fun _ h => h⟩

theorem setHowDefaults_nframe (e : Event) : NFrame e (setHowDefaults e) := by
  unfold setHowDefaults
  simp only
  split
  · exact NFrame.refl e
  · split
    · split <;> exact NFrame.of_eq rfl rfl rfl rfl rfl rfl rfl rfl rfl rfl rfl rfl rfl rfl
    · exact NFrame.of_eq rfl rfl rfl rfl rfl rfl rfl rfl rfl rfl rfl rfl rfl rfl

theorem setEcs_nframe (T : Tables) (ni : Nat) (s : Option Nat) (e : Event) : NFrame e (setEcs T ni s e) := by
  unfold setEcs
  simp only
  split <;> exact NFrame.of_eq rfl rfl rfl rfl rfl rfl rfl rfl rfl rfl rfl rfl rfl rfl

theorem fileFromPath_nframe (e : Event) (p : KV) : NFrame e (fileFromPath e p) := by
  unfold fileFromPath
  simp only
  cases lookup kName p <;> cases lookup kMode p <;> simp only
  · exact NFrame.of_eq rfl rfl rfl rfl rfl rfl rfl rfl rfl rfl rfl rfl rfl rfl
  · split
    · refine NFrame.trans ?_ (warn_nframe _ _)
      exact NFrame.of_eq rfl rfl rfl rfl rfl rfl rfl rfl rfl rfl rfl rfl rfl rfl
    · exact NFrame.of_eq rfl rfl rfl rfl rfl rfl rfl rfl rfl rfl rfl rfl rfl rfl
  · exact NFrame.of_eq rfl rfl rfl rfl rfl rfl rfl rfl rfl rfl rfl rfl rfl rfl
  · split
    · refine NFrame.trans ?_ (warn_nframe _ _)
      exact NFrame.of_eq rfl rfl rfl rfl rfl rfl rfl rfl rfl rfl rfl rfl rfl rfl
    · exact NFrame.of_eq rfl rfl rfl rfl rfl rfl rfl rfl rfl rfl rfl rfl rfl rfl

theorem setSocketObject_nframe (e : Event) : NFrame e (setSocketObject e) := by
  unfold setSocketObject
  simp only
  cases lookup (b! "socket_addr") e.data with
  | some v =>
    simp only
    split <;> exact NFrame.of_eq rfl rfl rfl rfl rfl rfl rfl rfl rfl rfl rfl rfl rfl rfl
  | none =>
    simp only
    cases lookup (b! "socket_path") e.data with
    | some v =>
      simp only
      split <;> exact NFrame.of_eq rfl rfl rfl rfl rfl rfl rfl rfl rfl rfl rfl rfl rfl rfl
    | none =>
      simp only
      split <;> exact NFrame.of_eq rfl rfl rfl rfl rfl rfl rfl rfl rfl rfl rfl rfl rfl rfl

theorem setObject_nframe (n : Norm) (e e' : Event) (h : setObject n e = .ok e') : NFrame e e' := by
  unfold setObject at h
  split at h
  · split at h
    · cases h; exact NFrame.refl e
    · split at h
      · cases h
      · cases h; exact fileFromPath_nframe e _
  · split at h
    · cases h; exact setSocketObject_nframe e
    · cases h; exact NFrame.refl e

theorem setBy_nframe (ks : List Bytes) (w : Warn) (upd : Event → Bytes → Event)
    (hu : ∀ e v, NFrame e (upd e v)) (e : Event) : NFrame e (setBy ks w upd e) := by
  unfold setBy
  split
  · exact NFrame.refl e
  · split
    · exact hu e _
    · exact warn_nframe e w

theorem firstDataKey_lookup (ks : List Bytes) (e : Event) {kv : Bytes × Bytes}
    (h : firstDataKey ks e = some kv) : lookup kv.1 e.data = some kv.2 := by
  induction ks with
  | nil => simp [firstDataKey] at h
  | cons k r ih =>
    unfold firstDataKey at h
    split at h
    · rename_i v hv; cases h; exact hv
    · exact ih h

theorem setSourceIPStage_nframe (n : Norm) (e : Event) : NFrame e (setSourceIPStage n e) := by
  unfold setSourceIPStage
  split
  · rename_i hs
    split
    · rename_i kv hkv
      have hl := firstDataKey_lookup _ _ hkv
      refine ⟨rfl, rfl, rfl, rfl, rfl, rfl, rfl, rfl, rfl, rfl, rfl, ⟨[], by simp⟩, ?_, ?_⟩
      · intro κ v h
        by_cases hk : κ = kv.1
        · right
          subst hk
          rw [hl] at h; cases h
          exact ⟨_, rfl, rfl⟩
        · left
          simp only
          rw [lookup_erase_ne _ hk]; exact h
      · intro a ha
        have := hs.1
        rw [ha] at this
        simp at this
    · exact warn_nframe e _
  · exact NFrame.refl e

theorem applyMapping_nframe (e : Event) (m : Nat × Bytes × Nat) : NFrame e (applyMapping e m) := by
  unfold applyMapping
  split
  · exact NFrame.refl e
  · simp only
    split <;> first
      | exact NFrame.of_eq rfl rfl rfl rfl rfl rfl rfl rfl rfl rfl rfl rfl rfl rfl
      | exact NFrame.refl e

theorem foldl_nframe {α : Type} (f : Event → α → Event) (hf : ∀ e x, NFrame e (f e x)) (l : List α) (e : Event) :
    NFrame e (l.foldl f e) := by
  induction l generalizing e with
  | nil => exact NFrame.refl e
  | cons x l ih => exact (hf e x).trans (ih (f e x))

theorem applyTail_nframe (n : Norm) (e : Event) : NFrame e (applyTail n e) := by
  unfold applyTail
  simp only
  have hu1 : ∀ (e : Event) (v : Bytes), NFrame e { e with actorPrimary := v } :=
    fun e v => NFrame.of_eq rfl rfl rfl rfl rfl rfl rfl rfl rfl rfl rfl rfl rfl rfl
  have hu2 : ∀ (e : Event) (v : Bytes), NFrame e { e with actorSecondary := v } :=
    fun e v => NFrame.of_eq rfl rfl rfl rfl rfl rfl rfl rfl rfl rfl rfl rfl rfl rfl
  have hu3 : ∀ (e : Event) (v : Bytes), NFrame e { e with objPrimary := v } :=
    fun e v => NFrame.of_eq rfl rfl rfl rfl rfl rfl rfl rfl rfl rfl rfl rfl rfl rfl
  have hu4 : ∀ (e : Event) (v : Bytes), NFrame e { e with objSecondary := v } :=
    fun e v => NFrame.of_eq rfl rfl rfl rfl rfl rfl rfl rfl rfl rfl rfl rfl rfl rfl
  have hu5 : ∀ (e : Event) (v : Bytes), NFrame e { e with how := v } :=
    fun e v => NFrame.of_eq rfl rfl rfl rfl rfl rfl rfl rfl rfl rfl rfl rfl rfl rfl
  refine NFrame.trans ?_ (foldl_nframe _ applyMapping_nframe _ _)
  refine NFrame.trans ?_ (setSourceIPStage_nframe n _)
  refine NFrame.trans ?_ (setBy_nframe _ _ _ hu5 _)
  refine NFrame.trans ?_ (setBy_nframe _ _ _ hu4 _)
  refine NFrame.trans ?_ (setBy_nframe _ _ _ hu3 _)
  refine NFrame.trans ?_ (setBy_nframe _ _ _ hu2 _)
  exact setBy_nframe _ _ _ hu1 _

theorem applyNorm_nframe (T : Tables) (e e' : Event) (h : applyNorm T e = .ok e') : NFrame e e' := by
  unfold applyNorm at h
  simp only at h
  split at h
  · cases h
    exact (setHowDefaults_nframe e).trans (warn_nframe _ _)
  · rename_i ni _
    split at h
    · rename_i e1 h1
      cases h
      exact (setHowDefaults_nframe e).trans ((setEcs_nframe T ni _ _).trans
        ((setObject_nframe _ _ _ h1).trans (applyTail_nframe _ _)))
    · cases h
    · cases h

/-! ### addProcess -/

def procKeys : List Bytes := [kPid, kPpid, kProctitle, kComm, kExe, kCwd]

/-- moved to a `process.*` field. -/
def ProcLoc (e : Event) (κ v : Bytes) : Prop :=
  (κ = kPid ∧ e.pid = v) ∨ (κ = kPpid ∧ e.ppid = v) ∨ (κ = kProctitle ∧ e.title = v) ∨
  (κ = kComm ∧ e.pname = v) ∨ (κ = kExe ∧ e.exe = v) ∨ (κ = kCwd ∧ e.cwd = v)

theorem addProcess_data (e : Event) {κ v : Bytes} (h : lookup κ e.data = some v) :
    lookup κ (addProcess e).data = some v ∨ ProcLoc (addProcess e) κ v := by
  by_cases h1 : κ = kPid
  · right; left; exact ⟨h1, by subst h1; simp [addProcess, getD, h]⟩
  by_cases h2 : κ = kPpid
  · right; right; left; exact ⟨h2, by subst h2; simp [addProcess, getD, h]⟩
  by_cases h3 : κ = kProctitle
  · right; right; right; left; exact ⟨h3, by subst h3; simp [addProcess, getD, h]⟩
  by_cases h4 : κ = kComm
  · right; right; right; right; left; exact ⟨h4, by subst h4; simp [addProcess, getD, h]⟩
  by_cases h5 : κ = kExe
  · right; right; right; right; right; left; exact ⟨h5, by subst h5; simp [addProcess, getD, h]⟩
  by_cases h6 : κ = kCwd
  · right; right; right; right; right; right; exact ⟨h6, by subst h6; simp [addProcess, getD, h]⟩
  left
  simp only [addProcess]
  rw [lookup_erase_ne _ h6, lookup_erase_ne _ h5, lookup_erase_ne _ h4, lookup_erase_ne _ h3,
    lookup_erase_ne _ h2, lookup_erase_ne _ h1]
  exact h

/-! ### fields the later stages leave alone (file facts, ECS categorisation) -/

structure TFrame (e e' : Event) : Prop where
  file : e'.file = e.file
  objType : e'.objType = e.objType
  action : e'.action = e.action
  ecsKind : e'.ecsKind = e.ecsKind
  ecsCategory : e'.ecsCategory = e.ecsCategory
  ecsType : e'.ecsType = e.ecsType
  ecsOutcome : e'.ecsOutcome = e.ecsOutcome

theorem TFrame.refl (e : Event) : TFrame e e := ⟨rfl, rfl, rfl, rfl, rfl, rfl, rfl⟩

theorem TFrame.trans {e1 e2 e3 : Event} (h1 : TFrame e1 e2) (h2 : TFrame e2 e3) : TFrame e1 e3 :=
  ⟨h2.file.trans h1.file, h2.objType.trans h1.objType, h2.action.trans h1.action, h2.ecsKind.trans h1.ecsKind,
    h2.ecsCategory.trans h1.ecsCategory, h2.ecsType.trans h1.ecsType, h2.ecsOutcome.trans h1.ecsOutcome⟩

theorem warn_tframe (e : Event) (w : Warn) : TFrame e (warn e w) := ⟨rfl, rfl, rfl, rfl, rfl, rfl, rfl⟩

theorem setBy_tframe (ks : List Bytes) (w : Warn) (upd : Event → Bytes → Event)
    (hu : ∀ e v, TFrame e (upd e v)) (e : Event) : TFrame e (setBy ks w upd e) := by
  unfold setBy
  split
  · exact TFrame.refl e
  · split
    · exact hu e _
    · exact warn_tframe e w

theorem setSourceIPStage_tframe (n : Norm) (e : Event) : TFrame e (setSourceIPStage n e) := by
  unfold setSourceIPStage
  split
  · split
    · exact ⟨rfl, rfl, rfl, rfl, rfl, rfl, rfl⟩
    · exact warn_tframe e _
  · exact TFrame.refl e

theorem applyMapping_tframe (e : Event) (m : Nat × Bytes × Nat) : TFrame e (applyMapping e m) := by
  unfold applyMapping
  split
  · exact TFrame.refl e
  · simp only
    split <;> exact ⟨rfl, rfl, rfl, rfl, rfl, rfl, rfl⟩

theorem foldl_tframe {α : Type} (f : Event → α → Event) (hf : ∀ e x, TFrame e (f e x)) (l : List α) (e : Event) :
    TFrame e (l.foldl f e) := by
  induction l generalizing e with
  | nil => exact TFrame.refl e
  | cons x l ih => exact (hf e x).trans (ih (f e x))

theorem applyTail_tframe (n : Norm) (e : Event) : TFrame e (applyTail n e) := by
  unfold applyTail
  simp only
  have hu1 : ∀ (e : Event) (v : Bytes), TFrame e { e with actorPrimary := v } :=
    fun e v => ⟨rfl, rfl, rfl, rfl, rfl, rfl, rfl⟩
  have hu2 : ∀ (e : Event) (v : Bytes), TFrame e { e with actorSecondary := v } :=
    fun e v => ⟨rfl, rfl, rfl, rfl, rfl, rfl, rfl⟩
  have hu3 : ∀ (e : Event) (v : Bytes), TFrame e { e with objPrimary := v } :=
    fun e v => ⟨rfl, rfl, rfl, rfl, rfl, rfl, rfl⟩
  have hu4 : ∀ (e : Event) (v : Bytes), TFrame e { e with objSecondary := v } :=
    fun e v => ⟨rfl, rfl, rfl, rfl, rfl, rfl, rfl⟩
  have hu5 : ∀ (e : Event) (v : Bytes), TFrame e { e with how := v } :=
    fun e v => ⟨rfl, rfl, rfl, rfl, rfl, rfl, rfl⟩
  refine TFrame.trans ?_ (foldl_tframe _ applyMapping_tframe _ _)
  refine TFrame.trans ?_ (setSourceIPStage_tframe n _)
  refine TFrame.trans ?_ (setBy_tframe _ _ _ hu5 _)
  refine TFrame.trans ?_ (setBy_tframe _ _ _ hu4 _)
  refine TFrame.trans ?_ (setBy_tframe _ _ _ hu3 _)
  refine TFrame.trans ?_ (setBy_tframe _ _ _ hu2 _)
  exact setBy_tframe _ _ _ hu1 _

theorem setHowDefaults_tframe (e : Event) : TFrame e (setHowDefaults e) := by
  unfold setHowDefaults
  simp only
  split
  · exact TFrame.refl e
  · split
    · split <;> exact ⟨rfl, rfl, rfl, rfl, rfl, rfl, rfl⟩
    · exact ⟨rfl, rfl, rfl, rfl, rfl, rfl, rfl⟩

theorem addProcess_tframe (e : Event) : TFrame e (addProcess e) := ⟨rfl, rfl, rfl, rfl, rfl, rfl, rfl⟩

end LA.Coalesce
