/-
Link between the heap layer and the pure model: the event `coalesceH` returns, read through
the heap it leaves, is the event `coalesce` computes from the messages' views.
-/
import LA.Proofs.CoalesceMain
import LA.Proofs.CoalesceHeap

namespace LA.Coalesce

/-! ### tags and ECS categorisation of the pure event -/

theorem distribute_ecs (e : Event) (kv : Bytes × Bytes) :
    (distribute e kv).ecsCategory = e.ecsCategory ∧ (distribute e kv).ecsType = e.ecsType := by
  unfold distribute
  split
  · simp
  · split
    · simp
    · split <;> simp

theorem foldl_distribute_ecs (d : KV) (e : Event) :
    (d.foldl distribute e).ecsCategory = e.ecsCategory ∧ (d.foldl distribute e).ecsType = e.ecsType := by
  induction d generalizing e with
  | nil => simp
  | cons p r ih =>
    simp only [List.foldl_cons]
    exact ⟨(ih _).1.trans (distribute_ecs e p).1, (ih _).2.trans (distribute_ecs e p).2⟩

theorem newEvent_extra (T : Tables) (first src : View) :
    (newEvent T first src).ecsCategory = [] ∧ (newEvent T first src).ecsType = [] ∧
    (newEvent T first src).tags = (if src.data.isSome then src.tags else []) := by
  unfold newEvent
  cases src.data with
  | none => simp [warn]
  | some d =>
    simp only
    have h1 := foldl_distribute_ecs d
      { ts := first.ts, seq := first.seq, cat := categoryOf T first.typ, typ := first.typ,
        result := (lookup kResult d).getD vUnknown, session := getD kSes d,
        actorPrimary := getD kAuid d, actorSecondary := getD kUid d, tags := src.tags }
    have h2 := foldl_distribute_other d
      { ts := first.ts, seq := first.seq, cat := categoryOf T first.typ, typ := first.typ,
        result := (lookup kResult d).getD vUnknown, session := getD kSes d,
        actorPrimary := getD kAuid d, actorSecondary := getD kUid d, tags := src.tags }
    exact ⟨h1.1, h1.2, by rw [h2.2.2.2.2.2.2.1]; simp⟩

/-- the record whose fields `newEvent` distributes. -/
def primaryView (recs : List View) : Option View :=
  match recs with
  | [] => none
  | [m] => some m
  | _ => recs.find? (fun v => decide (v.typ = SYSCALL))

def tagsOfViews (views : List View) : List Bytes :=
  match primaryView (filterEOE views) with
  | some p => if p.data.isSome then p.tags else []
  | none => []

theorem assemble_extra {T : Tables} {views : List View} {e0 : Event} (h : assemble T views = .ok e0) :
    e0.tags = tagsOfViews views ∧ e0.ecsCategory = [] ∧ e0.ecsType = [] := by
  unfold tagsOfViews
  rcases assemble_ok_cases h with ⟨m, hm, rfl⟩ | ⟨first, second, rest, s, hm, hs, rfl⟩
  · rw [hm]
    have := newEvent_extra T m m
    exact ⟨this.2.2, this.1, this.2.1⟩
  · rw [hm]
    have := newEvent_extra T first s
    have hf := foldl_step_sframe (first :: second :: rest) (newEvent T first s)
    refine ⟨?_, hf.ecsCategory.trans this.1, hf.ecsType.trans this.2.1⟩
    rw [hf.tags, this.2.2]
    simp only [primaryView, hs]

/-- ECS category of the pure event, from the chosen normalisations. -/
def catPure (T : Tables) (nc : Option (Nat × Option Nat)) : List Bytes :=
  match nc with
  | none => []
  | some (ni, none) => (normAt T ni).ecsCategory
  | some (ni, some si) => (normAt T ni).ecsCategory ++ (normAt T si).ecsCategory

def typPure (T : Tables) (nc : Option (Nat × Option Nat)) : List Bytes :=
  match nc with
  | none => []
  | some (ni, none) => (normAt T ni).ecsType
  | some (ni, some si) => (normAt T ni).ecsType ++ (normAt T si).ecsType

theorem setEcs_values (T : Tables) (ni : Nat) (s : Option Nat) (e : Event) :
    (setEcs T ni s e).ecsCategory = catPure T (some (ni, extraNorm ni s)) ∧
    (setEcs T ni s e).ecsType = typPure T (some (ni, extraNorm ni s)) := by
  unfold setEcs catPure typPure
  simp only
  cases extraNorm ni s <;> simp

theorem setObject_ecs (n : Norm) (e e' : Event) (h : setObject n e = .ok e') :
    e'.ecsCategory = e.ecsCategory ∧ e'.ecsType = e.ecsType := by
  unfold setObject at h
  split at h
  · split at h
    · cases h; exact ⟨rfl, rfl⟩
    · split at h
      · cases h
      · cases h
        unfold fileFromPath
        simp only
        cases lookup kName _ <;> cases lookup kMode _ <;> simp only
        · simp
        · split <;> simp [warn]
        · simp
        · split <;> simp [warn]
  · split at h
    · cases h
      unfold setSocketObject
      simp only
      cases lookup (b! "socket_addr") e.data with
      | some v => simp only; split <;> exact ⟨rfl, rfl⟩
      | none =>
        simp only
        cases lookup (b! "socket_path") e.data with
        | some v => simp only; split <;> exact ⟨rfl, rfl⟩
        | none => simp only; split <;> exact ⟨rfl, rfl⟩
    · cases h; exact ⟨rfl, rfl⟩

/-- tags, paths-independent fields and ECS categorisation of the event `coalesce` returns. -/
theorem coalesce_extra {T : Tables} {views : List View} {e : Event} (h : coalesce T views = .ok e) :
    e.tags = tagsOfViews views ∧ e.ecsCategory = catPure T (normChoice T views) ∧
    e.ecsType = typPure T (normChoice T views) := by
  obtain ⟨e0, e1, h0, h1, rfl⟩ := coalesce_ok_split h
  have hx := assemble_extra h0
  have hn := applyNorm_nframe T e0 e1 h1
  refine ⟨by show e1.tags = _; rw [hn.tags]; exact hx.1, ?_⟩
  show e1.ecsCategory = _ ∧ e1.ecsType = _
  unfold normChoice
  rw [h0]
  simp only
  unfold applyNorm at h1
  simp only at h1
  cases hsel : selectNorm T (setHowDefaults e0) with
  | none =>
    rw [hsel] at h1
    simp only at h1
    cases h1
    have hh := setHowDefaults_tframe e0
    simp only [catPure, typPure]
    exact ⟨by show (setHowDefaults e0).ecsCategory = []; rw [hh.ecsCategory]; exact hx.2.1,
           by show (setHowDefaults e0).ecsType = []; rw [hh.ecsType]; exact hx.2.2⟩
  | some ni =>
    rw [hsel] at h1
    simp only at h1
    split at h1
    · rename_i e2 h2
      cases h1
      have hv := setEcs_values T ni (syscallNormOf T (setHowDefaults e0)) (setHowDefaults e0)
      have ho := setObject_ecs _ _ _ h2
      have ht := applyTail_tframe (normAt T ni) e2
      exact ⟨by rw [ht.ecsCategory, ho.1]; exact hv.1, by rw [ht.ecsType, ho.2]; exact hv.2⟩
    · cases h1
    · cases h1

/-! ### list plumbing: ids, views, the kept prefix -/

theorem filterEOE_take (l : List View) : filterEOE l = l.take (filterEOE l).length := by
  unfold filterEOE
  cases l.getLast? with
  | none => simp
  | some m =>
    simp only
    split
    · rw [List.dropLast_eq_take]; simp
    · simp

theorem zip_map_self (ids : List Nat) (f : Nat → View) :
    ids.zip (ids.map f) = ids.map (fun i => (i, f i)) := by
  induction ids with
  | nil => rfl
  | cons i r ih => simp [ih]

/-- the kept records are the images of a prefix `J` of the ids. -/
theorem kept_eq (ids : List Nat) (f : Nat → View) :
    kept ids (ids.map f) = (ids.take (filterEOE (ids.map f)).length).map (fun i => (i, f i)) ∧
    filterEOE (ids.map f) = (ids.take (filterEOE (ids.map f)).length).map f := by
  constructor
  · unfold kept
    rw [zip_map_self, List.map_take]
  · conv => lhs; rw [filterEOE_take]
    rw [List.map_take]

theorem viewAt_data (h : Heap) (i : Nat) :
    (viewAt h i).data = (obsAt h i).data ∧ (viewAt h i).tags = (obsAt h i).tags := by
  unfold viewAt obsAt
  cases h.msgs[i]? with
  | none => exact ⟨rfl, rfl⟩
  | some c => exact ⟨rfl, rfl⟩

theorem paths_plumbing (J : List Nat) (f : Nat → View) :
    (J.filter (fun i => decide ((f i).typ = PATH) && (f i).data.isSome)).map (fun i => ((f i).data).getD []) =
    ((J.map f).filter (fun m => decide (m.typ = PATH))).flatMap (fun m => m.data.toList) := by
  induction J with
  | nil => rfl
  | cons i r ih =>
    simp only [List.filter_cons, List.map_cons]
    by_cases hp : (f i).typ = PATH
    · cases hd : (f i).data with
      | none => simp [hp, hd, ih]
      | some d => simp [hp, hd, ih]
    · simp [hp, ih]

/-! ### the tables as the heap holds them -/

/-- reading a table slice through the heap gives the normalisation's values. -/
def TablesOK (T : Tables) (h : Heap) : Prop :=
  ∀ i, readSlice h (catSliceAt h i) = (normAt T i).ecsCategory ∧
       readSlice h (typSliceAt h i) = (normAt T i).ecsType

theorem TablesOK.mono {T : Tables} {h h' : Heap} (hf : HFrame h h') (hw : HeapWF h) (ht : TablesOK T h) :
    TablesOK T h' := by
  intro i
  rw [catSliceAt_frame hf, typSliceAt_frame hf, readSlice_frame hf (hw.catAt i).2,
    readSlice_frame hf (hw.typAt i).2]
  exact ht i

theorem initArrs_get (l : List Norm) (i : Nat) :
    (initArrs l)[2 * i]? = (l[i]?).map (fun n => pad n.ecsCategory n.catCap) ∧
    (initArrs l)[2 * i + 1]? = (l[i]?).map (fun n => pad n.ecsType n.typCap) := by
  induction l generalizing i with
  | nil => simp [initArrs]
  | cons n r ih =>
    cases i with
    | zero => simp [initArrs]
    | succ i =>
      have h1 : 2 * (i + 1) = (2 * i) + 1 + 1 := by omega
      rw [h1]
      simp only [initArrs, List.getElem?_cons_succ]
      exact ih i

theorem initCatSlices_get (l : List Norm) (j i : Nat) :
    (initCatSlices j l)[i]? = (l[i]?).map (fun n => (⟨2 * (j + i), n.ecsCategory.length, n.catCap⟩ : Slice)) := by
  induction l generalizing j i with
  | nil => simp [initCatSlices]
  | cons n r ih =>
    cases i with
    | zero => simp [initCatSlices]
    | succ i =>
      simp only [initCatSlices, List.getElem?_cons_succ, ih]
      have : j + 1 + i = j + (i + 1) := by omega
      rw [this]

theorem initTypSlices_get (l : List Norm) (j i : Nat) :
    (initTypSlices j l)[i]? = (l[i]?).map (fun n => (⟨2 * (j + i) + 1, n.ecsType.length, n.typCap⟩ : Slice)) := by
  induction l generalizing j i with
  | nil => simp [initTypSlices]
  | cons n r ih =>
    cases i with
    | zero => simp [initTypSlices]
    | succ i =>
      simp only [initTypSlices, List.getElem?_cons_succ, ih]
      have : j + 1 + i = j + (i + 1) := by omega
      rw [this]

theorem take_pad (l : List Bytes) (cap : Nat) : (pad l cap).take l.length = l := by
  unfold pad
  simp

theorem init_tables_ok (T : Tables) : TablesOK T (Heap.init T) := by
  intro i
  unfold catSliceAt typSliceAt readSlice normAt Heap.init
  simp only
  rw [initCatSlices_get, initTypSlices_get]
  cases hn : T.norms[i]? with
  | none => simp [nilSlice]; exact ⟨rfl, rfl⟩
  | some n =>
    simp only [Option.map_some, Option.getD_some, Nat.zero_add]
    rw [(initArrs_get T.norms i).1, (initArrs_get T.norms i).2, hn]
    simp only [Option.map_some, Option.getD_some]
    exact ⟨take_pad _ _, take_pad _ _⟩

theorem catValue_pure {T : Tables} {h : Heap} (ht : TablesOK T h) (nc : Option (Nat × Option Nat)) :
    catValue h nc = catPure T nc ∧ typValue h nc = typPure T nc := by
  unfold catValue typValue catPure typPure
  rcases nc with _ | ⟨ni, _ | si⟩
  · exact ⟨rfl, rfl⟩
  · exact ⟨(ht ni).1, (ht ni).2⟩
  · simp only
    rw [(ht ni).1, (ht si).1, (ht ni).2, (ht si).2]
    exact ⟨rfl, rfl⟩

/-! ### the link -/

theorem mkDeref_self (e : Event) : mkDeref e e.paths e.tags e.ecsCategory e.ecsType = e := by
  cases e; rfl

theorem find?_map_pair (J : List Nat) (f : Nat → View) (p : View → Bool) :
    (J.map (fun i => (i, f i))).find? (fun q => p q.2) = (J.find? (fun i => p (f i))).map (fun i => (i, f i)) ∧
    (J.map f).find? p = (J.find? (fun i => p (f i))).map f := by
  induction J with
  | nil => exact ⟨rfl, rfl⟩
  | cons i r ih =>
    simp only [List.map_cons, List.find?_cons]
    cases p (f i) with
    | true => exact ⟨rfl, rfl⟩
    | false => exact ih

theorem filter_pairs (J : List Nat) (f : Nat → View) (q : View → Bool) :
    ((J.map (fun i => (i, f i))).filter (fun p => q p.2)).map (fun x => x.1) = J.filter (fun i => q (f i)) := by
  induction J with
  | nil => rfl
  | cons i r ih =>
    simp only [List.map_cons, List.filter_cons]
    cases q (f i) with
    | true => simp [ih]
    | false => simp [ih]

theorem paths_link (T : Tables) (h H : Heap) (hobs : ∀ i, obsAt H i = obsAt h i) (ids : List Nat) (e : Event)
    (hco : coalesce T (ids.map (viewAt h)) = .ok e) :
    (pathRefsOf (kept ids (ids.map (viewAt h)))).map (fun i => ((obsAt H i).data).getD []) = e.paths := by
  have hk := kept_eq ids (viewAt h)
  generalize ids.take (filterEOE (ids.map (viewAt h))).length = J at hk
  have hmap : ∀ (l : List Nat), l.map (fun i => ((obsAt H i).data).getD []) =
      l.map (fun i => ((viewAt h i).data).getD []) := by
    intro l
    apply List.map_congr_left
    intro i _
    rw [hobs i, (viewAt_data h i).1]
  rw [coalesce_paths T _ e hco, hk.2, hk.1, hmap]
  cases J with
  | nil => simp [pathRefsOf]
  | cons a r =>
    cases r with
    | nil => simp [pathRefsOf]
    | cons b r =>
      have hlen : ((a :: b :: r).map (viewAt h)).length ≥ 2 := by simp
      simp only [hlen, if_true]
      rw [← paths_plumbing]
      have hfp := filter_pairs (a :: b :: r) (viewAt h) (fun m => decide (m.typ = PATH) && m.data.isSome)
      simp only [List.map_cons] at hfp
      unfold pathRefsOf
      simp only [List.map_cons]
      rw [hfp]

theorem tags_link (T : Tables) (h H : Heap) (hobs : ∀ i, obsAt H i = obsAt h i) (ids : List Nat) (e : Event)
    (hco : coalesce T (ids.map (viewAt h)) = .ok e) :
    tagsRead H (tagRefOf (kept ids (ids.map (viewAt h)))) = e.tags := by
  have hk := kept_eq ids (viewAt h)
  generalize ids.take (filterEOE (ids.map (viewAt h))).length = J at hk
  rw [(coalesce_extra hco).1]
  unfold tagsOfViews tagsRead tagRefOf
  rw [hk.2, hk.1]
  cases J with
  | nil => simp [primaryOf, primaryView]
  | cons a r =>
    cases r with
    | nil =>
      simp only [primaryOf, primaryView, List.map_cons, List.map_nil]
      by_cases hd : (viewAt h a).data.isSome = true
      · simp only [hd, if_true]; rw [hobs a, (viewAt_data h a).2]
      · simp only [hd]; rfl
    | cons b r =>
      have hf := find?_map_pair (a :: b :: r) (viewAt h) (fun v => decide (v.typ = SYSCALL))
      simp only [primaryOf, primaryView, List.map_cons]
      simp only [List.map_cons] at hf
      rw [hf.1, hf.2]
      cases (a :: b :: r).find? (fun i => decide ((viewAt h i).typ = SYSCALL)) with
      | none => rfl
      | some i =>
        simp only [Option.map_some]
        by_cases hd : (viewAt h i).data.isSome = true
        · simp only [hd, if_true]; rw [hobs i, (viewAt_data h i).2]
        · simp only [hd]; rfl

/-- **The event `coalesceH` returns, read through the heap it leaves, is the event the pure
model computes from what the messages report** (or the same error / panic). -/
theorem coalesceH_deref (T : Tables) (h : Heap) (hw : HeapWF h) (hok : TablesOK T h) (ids : List Nat) :
    derefO (coalesceH T h ids).1 (coalesceH T h ids).2 = coalesce T (ids.map (viewAt h)) := by
  have hfill := fill_hframe (touched (kept ids (ids.map (viewAt h)))) h
  have hwfill : HeapWF (fill h (touched (kept ids (ids.map (viewAt h))))) := hw.mono hfill
  have hs := ecsSlices_spec _ hwfill (normChoice T (ids.map (viewAt h)))
  have hokfill : TablesOK T (fill h (touched (kept ids (ids.map (viewAt h))))) := hok.mono hfill hw
  have hfin : HFrame h (ecsSlices (fill h (touched (kept ids (ids.map (viewAt h))))) (normChoice T (ids.map (viewAt h)))).1 :=
    hfill.trans hs.1
  unfold coalesceH
  simp only
  cases hco : coalesce T (ids.map (viewAt h)) with
  | err x => rfl
  | panic => rfl
  | ok e =>
    simp only [derefO]
    congr 1
    rw [deref_eq]
    have hx := coalesce_extra hco
    have hcat := (catValue_pure hokfill (normChoice T (ids.map (viewAt h))))
    simp only
    rw [paths_link T h _ (fun i => hfin.obs_eq i) ids e hco, tags_link T h _ (fun i => hfin.obs_eq i) ids e hco,
      hs.2.2.2.1, hs.2.2.2.2, hcat.1, hcat.2, ← hx.2.1, ← hx.2.2]
    exact mkDeref_self e

end LA.Coalesce
