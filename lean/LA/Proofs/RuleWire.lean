/-
The library's own decoder (fromWireFormat + fromAuditRuleData) inverts its encoder on everything
rule.Build accumulates: helper lemmas for `C07_wire_roundtrip`.
-/
import LA.Proofs.Rule
import LA.Proofs.RuleBounds

namespace LA.Rule
open LA
open LA.Auparse (Res slice)

@[simp] theorem res_bind_ok {α β : Type} (a : α) (f : α → Res β) : (Res.ok a >>= f) = f a := rfl

/-! ### the model's word reads agree with the independent layout spec -/

theorem rd32_of_word {b : Bytes} {off w : Nat} (h : LA.Spec.RuleLayout.word b off = some w) : rd32 b off = Res.ok w := by
  unfold LA.Spec.RuleLayout.word at h
  split at h
  · rename_i a c d e rest hd
    simp only [Option.some.injEq] at h
    have hl : (b.drop off).length = rest.length + 4 := by rw [hd]; simp
    rw [List.length_drop] at hl
    have hs : slice b (off : Int) ((off : Int) + 4) = Res.ok [a, c, d, e] := by
      unfold slice
      have c1 : (0 : Int) ≤ (off : Int) ∧ (off : Int) ≤ (off : Int) + 4 ∧ (off : Int) + 4 ≤ (b.length : Int) := by omega
      rw [if_pos c1]
      have e1 : ((off : Int) + 4).toNat - (off : Int).toNat = 4 := by omega
      have e2 : (off : Int).toNat = off := by omega
      rw [e1, e2, hd]
      rfl
    unfold rd32
    have : ((off + 4 : Nat) : Int) = (off : Int) + 4 := by omega
    simp only [hs]
    congr 1
    omega
  · simp at h

theorem rdWords_of_words {b : Bytes} {off n : Nat} {l : List Nat} (h : LA.Spec.RuleLayout.words b off n = some l) :
    rdWords b off n = Res.ok l := by
  induction n generalizing off l with
  | zero => simp [LA.Spec.RuleLayout.words] at h; subst h; rfl
  | succ n ih =>
    simp only [LA.Spec.RuleLayout.words] at h
    cases hw : LA.Spec.RuleLayout.word b off with
    | none => simp [hw] at h
    | some w =>
      cases hr : LA.Spec.RuleLayout.words b (off + 4) n with
      | none => simp [hw, hr] at h
      | some ws =>
        simp only [hw, hr, Option.some.injEq] at h
        subst h
        simp only [rdWords, rd32_of_word hw, ih hr, bind, Bind.bind]

/-- whatever the independent UAPI decoder reads, fromWireFormat reads the same (for messages
shorter than 4 GiB). -/
theorem fromWire_of_decode {b : Bytes} {v : LA.Spec.RuleLayout.View} (h : LA.Spec.RuleLayout.decode b = some v)
    (hlen : b.length < 4294967296) :
    fromWire b = Res.ok { flags := v.flags, action := v.action, fieldCount := v.fieldCount, mask := v.mask,
                          fields := v.fields, values := v.values, fieldFlags := v.fieldFlags, bufLen := v.bufLen, buf := v.buf } := by
  unfold LA.Spec.RuleLayout.decode at h
  split at h
  · rename_i f a c m fs vs ffs bl h0 h4 h8 hm hfs hvs hffs hbl
    split at h
    · rename_i htot
      simp only [Option.some.injEq] at h
      subst h
      have hsz : LA.Spec.RuleLayout.headerSize = 1040 := by decide
      rw [hsz] at htot
      unfold fromWire
      have hs : headerSize = 1040 := rfl
      rw [hs]
      have c0 : ¬ b.length < 1040 := by omega
      rw [if_neg c0]
      simp only [rd32_of_word h0, rd32_of_word h4, rd32_of_word h8, rdWords_of_words hm, rdWords_of_words hfs,
        rdWords_of_words hvs, rdWords_of_words hffs, rd32_of_word hbl, bind, Bind.bind]
      have c1 : ¬ (b.length - 1040) % 4294967296 < bl := by
        rw [Nat.mod_eq_of_lt (by omega)]; omega
      rw [if_neg c1]
      have hsl : slice b ((1040 : Nat) : Int) (((1040 : Nat) : Int) + (bl : Int)) = Res.ok ((b.drop 1040).take bl) := by
        unfold slice
        have c2 : (0 : Int) ≤ ((1040 : Nat) : Int) ∧ ((1040 : Nat) : Int) ≤ ((1040 : Nat) : Int) + (bl : Int) ∧ ((1040 : Nat) : Int) + (bl : Int) ≤ (b.length : Int) := by omega
        rw [if_pos c2]
        have e1 : (((1040 : Nat) : Int) + (bl : Int)).toNat - ((1040 : Nat) : Int).toNat = bl := by omega
        have e2 : ((1040 : Nat) : Int).toNat = 1040 := by omega
        rw [e1, e2]
      simp only [hsl, hsz]
    · simp at h
  · simp at h

/-! ### strings align with the string-valued fields -/

/-- the strings of a rule are exactly the values of its string-valued fields, in order, and the
value word of such a field is the string's length. -/
def Aligned : List (Nat × Nat × Nat) → List Bytes → Prop
  | [], ss => ss = []
  | t :: ts, ss =>
    if stringFields.contains t.1 then ∃ s rest, ss = s :: rest ∧ t.2.1 = s.length ∧ Aligned ts rest
    else Aligned ts ss

theorem aligned_snoc_str {ts : List (Nat × Nat × Nat)} {ss : List Bytes} (h : Aligned ts ss) (t : Nat × Nat × Nat) (s : Bytes)
    (hf : stringFields.contains t.1 = true) (hv : t.2.1 = s.length) : Aligned (ts ++ [t]) (ss ++ [s]) := by
  induction ts generalizing ss with
  | nil =>
    simp only [Aligned] at h
    subst h
    simp only [List.nil_append, Aligned, hf, if_true]
    exact ⟨s, [], rfl, hv, rfl⟩
  | cons x xs ih =>
    simp only [List.cons_append, Aligned] at h ⊢
    split
    · rename_i hx
      rw [if_pos hx] at h
      obtain ⟨s0, rest, rfl, hv0, hr⟩ := h
      exact ⟨s0, rest ++ [s], rfl, hv0, ih hr⟩
    · rename_i hx
      rw [if_neg hx] at h
      exact ih h

theorem aligned_snoc_num {ts : List (Nat × Nat × Nat)} {ss : List Bytes} (h : Aligned ts ss) (t : Nat × Nat × Nat)
    (hf : stringFields.contains t.1 = false) : Aligned (ts ++ [t]) ss := by
  induction ts generalizing ss with
  | nil =>
    simp only [Aligned] at h
    subst h
    simp only [List.nil_append, Aligned, hf, Bool.false_eq_true, if_false]
  | cons x xs ih =>
    simp only [List.cons_append, Aligned] at h ⊢
    split
    · rename_i hx
      rw [if_pos hx] at h
      obtain ⟨s0, rest, rfl, hv0, hr⟩ := h
      exact ⟨s0, rest, rfl, hv0, ih hr⟩
    · rename_i hx
      rw [if_neg hx] at h
      exact ih h

/-- "yields no string": every successful result has an empty string component. -/
def NoStr (o : Option (Nat × Option Bytes × Option Bytes)) : Prop := ∀ x, o = some x → x.2.1 = none

theorem noStr_none : NoStr none := by intro x h; cases h
theorem noStr_ite {c : Prop} [Decidable c] {a b : Option (Nat × Option Bytes × Option Bytes)} (ha : NoStr a) (hb : NoStr b) :
    NoStr (if c then a else b) := by split <;> assumption
theorem noStr_map {α : Type} (o : Option α) (g : α → Nat) (z : α → Option Bytes) : NoStr (o.map (fun v => (g v, none, z v))) := by
  intro x h
  cases o with
  | none => simp at h
  | some w => simp only [Option.map_some, Option.some.injEq] at h; subst h; rfl
theorem noStr_bind (o : Option Nat) (c : Nat → Bool) : NoStr (o.bind fun n => if c n = true then some (n, none, none) else none) := by
  intro x h
  cases o with
  | none => simp at h
  | some w =>
    simp only [Option.bind_some] at h
    split at h
    · simp only [Option.some.injEq] at h; subst h; rfl
    · cases h

/-- filterValue hands back a string exactly for the string-valued fields, with value = length. -/
theorem filterValue_string {env : Env} {r : RuleData} {f opc : Nat} {rhs : Bytes} {v : Nat} {s : Option Bytes} {a : Option Bytes}
    (h : filterValue env r f opc rhs = some (v, s, a)) :
    (stringFields.contains f = true → ∃ str, s = some str ∧ v = str.length) ∧ (stringFields.contains f = false → s = none) := by
  have disj : stringFields.all (fun x => !(uidFields.contains x) && !(gidFields.contains x) &&
      !(x == LA.Gen.RuleTables.exitField) && !(x == LA.Gen.RuleTables.msgTypeField)) = true := by decide +kernel
  unfold filterValue at h
  by_cases hs : stringFields.contains f = true
  · have hd := List.all_eq_true.mp disj f (by simpa using hs)
    simp only [Bool.and_eq_true, Bool.not_eq_true'] at hd
    obtain ⟨⟨⟨d1, d2⟩, d3⟩, d4⟩ := hd
    simp only [d1, d2, d3, d4, Bool.false_eq_true, if_false, hs, if_true] at h
    refine ⟨fun _ => ?_, fun hh => (by rw [hs] at hh; cases hh)⟩
    split at h
    · simp at h
    · split at h
      · simp at h
      · split at h
        · simp at h
        · simp only [Option.some.injEq, Prod.mk.injEq] at h
          obtain ⟨rfl, rfl, _⟩ := h
          exact ⟨rhs, rfl, rfl⟩
  · have hs' : stringFields.contains f = false := by simpa using hs
    refine ⟨fun hh => (by rw [hs'] at hh; cases hh), fun _ => ?_⟩
    simp only [hs', Bool.false_eq_true, if_false] at h
    have key : ∀ o, o = some (v, s, a) → NoStr o → s = none := fun o ho hn => hn _ ho
    refine key _ h ?_
    repeat' first
      | exact noStr_none
      | exact noStr_map _ (fun v => v) (fun _ => none)
      | exact noStr_map _ toU32 (fun _ => none)
      | exact noStr_map _ (fun (p : Bytes × Nat) => p.2) (fun (p : Bytes × Nat) => some p.1)
      | exact noStr_bind _ _
      | apply noStr_ite

/-! ### a generic induction principle over what rule.Build accumulates -/

theorem ruleDataOf_induct {env : Env} (P : RuleData → Prop)
    (h0 : ∀ fl ac, (∃ l, setList l = some fl) → (∃ a, setAction a = some ac) →
      P { flags := fl, action := ac, allSyscalls := true })
    (hF : ∀ r r' l o v, P r → addFilter env r l o v = some r' → P r')
    (hI : ∀ r r' l o v, P r → addInterField r l o v = some r' → P r')
    (hS : ∀ r r' sc, P r → addSyscall r sc = some r' → P r')
    {rule : Rule} {r : RuleData} (h : ruleDataOf env rule = some r) : P r := by
  have hK : ∀ r r' keys, P r → addKeys env r keys = some r' → P r' := by
    intro r r' keys hp hk
    unfold addKeys at hk
    split at hk
    · simp only [Option.some.injEq] at hk; subst hk; exact hp
    · exact hF _ _ _ _ _ hp hk
  cases rule with
  | deleteAll ks => simp [ruleDataOf] at h
  | watch path perms keys =>
    simp only [ruleDataOf, addFileWatch] at h
    split at h
    · simp at h
    · obtain ⟨r1, h1, h⟩ := Option.bind_eq_some_iff.mp h
      obtain ⟨r2, h2, h⟩ := Option.bind_eq_some_iff.mp h
      exact hK _ _ _ (hF _ _ _ _ _ (hF _ _ _ _ _ (h0 _ _ ⟨ofString "exit", by decide +kernel⟩ ⟨ofString "always", by decide +kernel⟩) h1) h2) h
  | syscall t list action filters syscalls keys =>
    simp only [ruleDataOf] at h
    split at h
    · rename_i fl ac hfl hac
      have foldF : ∀ (fs : List FilterSpec) (acc : Option RuleData), (∀ x, acc = some x → P x) →
          ∀ x, fs.foldl (fun (acc : Option RuleData) f =>
            acc.bind fun r =>
              if (f.typ == 2) = true then addFilter env r f.lhs f.op f.rhs
              else if (f.typ == 1) = true then addInterField r f.lhs f.op f.rhs
              else some r) acc = some x → P x := by
        intro fs
        induction fs with
        | nil => intro acc ha x hx; exact ha x hx
        | cons f fs ih =>
          intro acc ha x hx
          simp only [List.foldl_cons] at hx
          refine ih _ ?_ x hx
          intro y hy
          cases acc with
          | none => simp at hy
          | some r0 =>
            simp only [Option.bind_some] at hy
            have hr0 := ha r0 rfl
            split at hy
            · exact hF _ _ _ _ _ hr0 hy
            · split at hy
              · exact hI _ _ _ _ _ hr0 hy
              · simp only [Option.some.injEq] at hy; subst hy; exact hr0
      have foldS : ∀ (ss : List Bytes) (acc : Option RuleData), (∀ x, acc = some x → P x) →
          ∀ x, ss.foldl (fun (acc : Option RuleData) s => acc.bind fun r => addSyscall r s) acc = some x → P x := by
        intro ss
        induction ss with
        | nil => intro acc ha x hx; exact ha x hx
        | cons s ss ih =>
          intro acc ha x hx
          simp only [List.foldl_cons] at hx
          refine ih _ ?_ x hx
          intro y hy
          cases acc with
          | none => simp at hy
          | some r0 =>
            simp only [Option.bind_some] at hy
            exact hS _ _ _ (ha r0 rfl) hy
      obtain ⟨r2, hr2, h⟩ := Option.bind_eq_some_iff.mp h
      have i2 : P r2 := foldS syscalls _ (fun x hx => foldF filters _ (fun y hy => by simp only [Option.some.injEq] at hy; subst hy; exact h0 _ _ ⟨_, hfl⟩ ⟨_, hac⟩) x hx) r2 hr2
      exact hK _ _ _ i2 h
    · simp at h

/-- the strings of everything rule.Build accumulates are aligned with its string-valued fields. -/
theorem aligned_ruleDataOf {env : Env} {rule : Rule} {r : RuleData} (h : ruleDataOf env rule = some r) :
    Aligned r.trips r.strings := by
  refine ruleDataOf_induct (env := env) (fun r => Aligned r.trips r.strings) ?_ ?_ ?_ ?_ h
  · intro fl ac _ _; simp [Aligned]
  · intro r r' l o v ha hf
    unfold addFilter at hf
    split at hf
    · rename_i opc f hop hfl
      split at hf
      · simp at hf
      · cases hv : filterValue env r f opc v with
        | none => rw [hv] at hf; simp at hf
        | some x =>
          obtain ⟨val, s, a⟩ := x
          rw [hv] at hf
          simp only [Option.map_some, Option.some.injEq] at hf
          subst hf
          obtain ⟨k1, k2⟩ := filterValue_string hv
          by_cases hs : stringFields.contains f = true
          · obtain ⟨str, rfl, rfl⟩ := k1 hs
            exact aligned_snoc_str ha (f, str.length, opc) str hs rfl
          · have hs' : stringFields.contains f = false := by simpa using hs
            rw [k2 hs']
            exact aligned_snoc_num ha (f, val, opc) hs'
    · simp at hf
  · intro r r' l o v ha hi
    have nc : stringFields.contains LA.Gen.RuleTables.fieldCompare = false := by decide +kernel
    unfold addInterField at hi
    cases hop : lookupB LA.Gen.RuleTables.operatorsTable o with
    | none => rw [hop] at hi; simp at hi
    | some opc =>
      rw [hop] at hi
      simp only at hi
      split at hi
      · simp at hi
      · split at hi
        · split at hi
          · simp at hi
          · rename_i lf rf _ _ _
            cases hc : lookupComparison lf rf with
            | none => rw [hc] at hi; simp at hi
            | some c =>
              rw [hc] at hi
              simp only [Option.some.injEq] at hi
              subst hi
              exact aligned_snoc_num ha (LA.Gen.RuleTables.fieldCompare, c, opc) nc
        · simp at hi
  · intro r r' sc ha hs
    unfold addSyscall at hs
    split at hs
    · simp only [Option.some.injEq] at hs; subst hs; exact ha
    · simp only at hs
      split at hs
      · simp at hs
      · split at hs
        · simp at hs
        · simp only [Option.some.injEq] at hs; subst hs; exact ha

/-! ### fromAuditRuleData reads the triples and the strings back -/

theorem getAt_of {l : List Nat} {i v : Nat} (h : l[i]? = some v) : getAt l i = Res.ok v := by
  simp [getAt, h]

theorem decodeFields_ok (a : Ard) (ts : List (Nat × Nat × Nat)) (ss : List Bytes) (i : Nat) (pre : Bytes)
    (hf : ∀ k t, ts[k]? = some t → a.fields[i + k]? = some t.1)
    (hv : ∀ k t, ts[k]? = some t → a.values[i + k]? = some t.2.1)
    (ho : ∀ k t, ts[k]? = some t → a.fieldFlags[i + k]? = some t.2.2)
    (hal : Aligned ts ss) (hbuf : a.buf = pre ++ ss.flatten) (hbl : a.bufLen = a.buf.length) :
    decodeFields a ts.length i pre.length = Res.ok (ts.map (·.1), ts.map (·.2.1), ts.map (·.2.2), ss) := by
  induction ts generalizing ss i pre with
  | nil =>
    simp only [Aligned] at hal
    subst hal
    rfl
  | cons t ts ih =>
    have f0 := hf 0 t rfl
    have v0 := hv 0 t rfl
    have o0 := ho 0 t rfl
    simp only [Nat.add_zero] at f0 v0 o0
    have hf' : ∀ k t', ts[k]? = some t' → a.fields[i + 1 + k]? = some t'.1 := by
      intro k t' hk; have := hf (k + 1) t' (by simpa using hk); rw [← this]; congr 1; omega
    have hv' : ∀ k t', ts[k]? = some t' → a.values[i + 1 + k]? = some t'.2.1 := by
      intro k t' hk; have := hv (k + 1) t' (by simpa using hk); rw [← this]; congr 1; omega
    have ho' : ∀ k t', ts[k]? = some t' → a.fieldFlags[i + 1 + k]? = some t'.2.2 := by
      intro k t' hk; have := ho (k + 1) t' (by simpa using hk); rw [← this]; congr 1; omega
    simp only [List.length_cons, decodeFields, getAt_of f0, getAt_of v0, getAt_of o0, bind, Bind.bind]
    simp only [Aligned] at hal
    by_cases hs : stringFields.contains t.1 = true
    · rw [if_pos hs] at hal ⊢
      obtain ⟨s, rest, rfl, hlen, hrest⟩ := hal
      have hb2 : a.buf = (pre ++ s) ++ rest.flatten := by rw [hbuf]; simp
      have c1 : ¬ t.2.1 > a.bufLen - pre.length := by
        rw [hbl, hbuf, hlen]; simp
      rw [if_neg c1]
      have hsl : slice a.buf (pre.length : Int) ((pre.length : Int) + (t.2.1 : Int)) = Res.ok s := by
        unfold slice
        have hl : a.buf.length = pre.length + s.length + rest.flatten.length := by rw [hb2]; simp only [List.length_append]
        have c2 : (0 : Int) ≤ (pre.length : Int) ∧ (pre.length : Int) ≤ (pre.length : Int) + (t.2.1 : Int) ∧
            (pre.length : Int) + (t.2.1 : Int) ≤ (a.buf.length : Int) := by omega
        rw [if_pos c2]
        have e1 : ((pre.length : Int) + (t.2.1 : Int)).toNat - (pre.length : Int).toNat = s.length := by omega
        have e2 : (pre.length : Int).toNat = pre.length := by omega
        rw [e1, e2, hbuf]
        simp
      have hcast : ((pre.length + t.2.1 : Nat) : Int) = (pre.length : Int) + (t.2.1 : Int) := by omega
      simp only [hsl]
      have := ih rest (i + 1) (pre ++ s) hf' hv' ho' hrest hb2
      rw [List.length_append, ← hlen] at this
      rw [this]
      rfl
    · rw [if_neg hs] at hal ⊢
      have := ih ss (i + 1) pre hf' hv' ho' hal hbuf
      rw [this]
      rfl

theorem zip_map3 (ts : List (Nat × Nat × Nat)) :
    List.zip (ts.map (·.1)) (List.zip (ts.map (·.2.1)) (ts.map (·.2.2))) = ts := by
  induction ts with
  | nil => rfl
  | cons t ts ih => simp only [List.map_cons, List.zip_cons_cons, ih]

theorem padTo_getElem? (n : Nat) (l : List Nat) (k : Nat) (v : Nat) (h : l[k]? = some v) : (padTo n l)[k]? = some v := by
  unfold padTo
  have hk : k < l.length := by
    rcases Nat.lt_or_ge k l.length with h' | h'
    · exact h'
    · rw [List.getElem?_eq_none h'] at h; cases h
  rw [List.getElem?_append_left hk]; exact h

/-! ### the syscall mask read back -/

theorem mem_syscallsOfMask (mask : List Nat) (n : Nat) :
    n ∈ syscallsOfMask mask ↔ ∃ w, mask[n / 32]? = some w ∧ w.testBit (n % 32) = true := by
  unfold syscallsOfMask
  simp only [List.mem_flatMap, List.mem_filterMap, List.mem_range]
  constructor
  · rintro ⟨p, hp, bit, hbit, hsome⟩
    split at hsome
    · rename_i hb
      simp only [Option.some.injEq] at hsome
      have hp' := List.mem_zipIdx_iff_getElem?.mp hp
      refine ⟨p.1, ?_, ?_⟩
      · rw [← hsome]
        have : (p.2 * 32 + bit) / 32 = p.2 := by omega
        rw [this]; exact hp'
      · rw [← hsome]
        have : (p.2 * 32 + bit) % 32 = bit := by omega
        rw [this, Nat.testBit_eq_decide_div_mod_eq]
        simpa using hb
    · cases hsome
  · rintro ⟨w, hw, hb⟩
    refine ⟨(w, n / 32), List.mem_zipIdx_iff_getElem?.mpr hw, n % 32, Nat.mod_lt _ (by omega), ?_⟩
    rw [Nat.testBit_eq_decide_div_mod_eq] at hb
    have hb' : w / 2 ^ (n % 32) % 2 = 1 := by simpa using hb
    simp only [hb', beq_self_eq_true, if_true, Option.some.injEq]
    omega

/-- with an explicit syscall list below 2048, the mask read back names exactly those syscalls. -/
theorem syscalls_of_maskOf (r : RuleData) (hall : r.allSyscalls = false) (hlt : ∀ w ∈ r.syscalls, w < 2048) (n : Nat) :
    n ∈ syscallsOfMask (maskOf r) ↔ n ∈ r.syscalls := by
  rw [mem_syscallsOfMask]
  simp only [maskOf, hall, Bool.false_eq_true, if_false]
  constructor
  · rintro ⟨w, hw, hb⟩
    rw [List.getElem?_map] at hw
    cases hr : (List.range 64)[n / 32]? with
    | none => simp [hr] at hw
    | some idx =>
      have hidx : idx = n / 32 := by
        have := List.getElem?_range (n := 64) (i := n / 32)
        rcases Nat.lt_or_ge (n / 32) 64 with h' | h'
        · rw [List.getElem?_range h'] at hr; simp at hr; exact hr.symm
        · rw [List.getElem?_eq_none (by simpa using h')] at hr; cases hr
      simp only [hr, Option.map_some, Option.some.injEq] at hw
      subst hw
      rw [maskWord_eq, testBit_bitSum] at hb
      simp only [Bool.and_eq_true, decide_eq_true_eq, List.contains_eq_mem, decide_eq_true_eq] at hb
      have : idx * 32 + n % 32 = n := by omega
      rw [this] at hb
      exact hb.2
  · intro hn
    have hn' := hlt n hn
    have h64 : n / 32 < 64 := by omega
    refine ⟨maskWord r.syscalls (n / 32), ?_, ?_⟩
    · rw [List.getElem?_map, List.getElem?_range h64]; rfl
    · rw [maskWord_eq, testBit_bitSum]
      have : n / 32 * 32 + n % 32 = n := by omega
      simp only [this, Bool.and_eq_true, decide_eq_true_eq, List.contains_eq_mem]
      exact ⟨Nat.mod_lt _ (by omega), hn⟩

end LA.Rule
