/-
Helper lemmas for C09: `newEvent` routes every pair of the primary record, and the record
loop of `normalizeCompound` keeps every pair of every other record.
-/
import LA.Proofs.CoalesceSteps

namespace LA.Coalesce

/-! ### newEvent -/

/-- where `distribute` puts the pair with key `k`. -/
def Routed (e : Event) (k v : Bytes) : Prop :=
  if k = kResult ∨ k = kSes then True
  else if isIdKey k = true then lookup k e.ids = some v
  else if hasPrefix kSubj_ k = true then lookup (k.drop 5) e.selinux = some v
  else lookup k e.data = some v

theorem kSubj_length : kSubj_.length = 5 := rfl

theorem distribute_other (e : Event) (kv : Bytes × Bytes) :
    (distribute e kv).result = e.result ∧ (distribute e kv).session = e.session ∧
    (distribute e kv).ts = e.ts ∧ (distribute e kv).seq = e.seq ∧ (distribute e kv).typ = e.typ ∧
    (distribute e kv).cat = e.cat ∧ (distribute e kv).tags = e.tags ∧ (distribute e kv).paths = e.paths ∧
    (distribute e kv).args = e.args ∧ (distribute e kv).warnings = e.warnings ∧
    (distribute e kv).source = e.source ∧ (distribute e kv).file = e.file := by
  unfold distribute
  split
  · simp
  · split
    · simp
    · split <;> simp

theorem foldl_distribute_other (d : KV) (e : Event) :
    (d.foldl distribute e).result = e.result ∧ (d.foldl distribute e).session = e.session ∧
    (d.foldl distribute e).ts = e.ts ∧ (d.foldl distribute e).seq = e.seq ∧ (d.foldl distribute e).typ = e.typ ∧
    (d.foldl distribute e).cat = e.cat ∧ (d.foldl distribute e).tags = e.tags ∧ (d.foldl distribute e).paths = e.paths ∧
    (d.foldl distribute e).args = e.args ∧ (d.foldl distribute e).warnings = e.warnings ∧
    (d.foldl distribute e).source = e.source ∧ (d.foldl distribute e).file = e.file := by
  induction d generalizing e with
  | nil => simp
  | cons p r ih =>
    simp only [List.foldl_cons]
    have h1 := distribute_other e p
    have h2 := ih (distribute e p)
    refine ⟨h2.1.trans h1.1, h2.2.1.trans h1.2.1, h2.2.2.1.trans h1.2.2.1, h2.2.2.2.1.trans h1.2.2.2.1,
      h2.2.2.2.2.1.trans h1.2.2.2.2.1, h2.2.2.2.2.2.1.trans h1.2.2.2.2.2.1,
      h2.2.2.2.2.2.2.1.trans h1.2.2.2.2.2.2.1, h2.2.2.2.2.2.2.2.1.trans h1.2.2.2.2.2.2.2.1,
      h2.2.2.2.2.2.2.2.2.1.trans h1.2.2.2.2.2.2.2.2.1, h2.2.2.2.2.2.2.2.2.2.1.trans h1.2.2.2.2.2.2.2.2.2.1,
      h2.2.2.2.2.2.2.2.2.2.2.1.trans h1.2.2.2.2.2.2.2.2.2.2.1, h2.2.2.2.2.2.2.2.2.2.2.2.trans h1.2.2.2.2.2.2.2.2.2.2.2⟩

theorem distribute_ids (e : Event) (kv : Bytes × Bytes) {k : Bytes} (hne : kv.1 ≠ k) :
    lookup k (distribute e kv).ids = lookup k e.ids := by
  unfold distribute
  split
  · rfl
  · split
    · exact lookup_setKV_ne _ _ (Ne.symm hne)
    · split <;> rfl

theorem distribute_data (e : Event) (kv : Bytes × Bytes) {k : Bytes} (hne : kv.1 ≠ k) :
    lookup k (distribute e kv).data = lookup k e.data := by
  unfold distribute
  split
  · rfl
  · split
    · rfl
    · split
      · rfl
      · exact lookup_setKV_ne _ _ (Ne.symm hne)

theorem distribute_selinux (e : Event) (kv : Bytes × Bytes) {k : Bytes} (hne : kv.1 ≠ k)
    (hp : hasPrefix kSubj_ k = true) :
    lookup (k.drop 5) (distribute e kv).selinux = lookup (k.drop 5) e.selinux := by
  unfold distribute
  split
  · rfl
  · split
    · rfl
    · split
      · rename_i h6
        apply lookup_setKV_ne
        intro heq
        apply hne
        exact eq_of_prefix_drop h6 hp (by rw [kSubj_length]; exact heq.symm)
      · rfl

/-- a pair with another key does not disturb the place of key `k`. -/
theorem distribute_preserves (e : Event) (kv : Bytes × Bytes) {k v : Bytes} (hne : kv.1 ≠ k)
    (h : Routed e k v) : Routed (distribute e kv) k v := by
  unfold Routed at *
  by_cases h1 : k = kResult ∨ k = kSes
  · simp [h1]
  · simp only [h1, if_false] at h ⊢
    by_cases h2 : isIdKey k = true
    · simp only [h2, if_true] at h ⊢
      rw [distribute_ids e kv hne]; exact h
    · simp only [h2] at h ⊢
      by_cases h3 : hasPrefix kSubj_ k = true
      · simp only [h3, if_true] at h ⊢
        rw [distribute_selinux e kv hne h3]; exact h
      · simp only [h3] at h ⊢
        rw [distribute_data e kv hne]; exact h

theorem distribute_routes (e : Event) (k v : Bytes) : Routed (distribute e (k, v)) k v := by
  by_cases h1 : k = kResult ∨ k = kSes
  · simp [Routed, h1]
  · by_cases h2 : isIdKey k = true
    · simp [Routed, distribute, h1, h2, lookup_setKV_self]
    · by_cases h3 : hasPrefix kSubj_ k = true
      · simp [Routed, distribute, h1, h2, h3, lookup_setKV_self]
      · simp [Routed, distribute, h1, h2, h3, lookup_setKV_self]

theorem foldl_distribute_preserves (d : KV) (e : Event) {k v : Bytes} (hk : k ∉ keys d)
    (h : Routed e k v) : Routed (d.foldl distribute e) k v := by
  induction d generalizing e with
  | nil => exact h
  | cons p r ih =>
    simp only [List.foldl_cons]
    have hk' : p.1 ≠ k ∧ k ∉ keys r := by
      simp only [keys, List.map_cons, List.mem_cons, not_or] at hk
      exact ⟨fun h => hk.1 h.symm, hk.2⟩
    exact ih _ hk'.2 (distribute_preserves e p hk'.1 h)

theorem foldl_distribute_routes (d : KV) (e : Event) (hn : NoDupKeys d) {k v : Bytes} (h : (k, v) ∈ d) :
    Routed (d.foldl distribute e) k v := by
  induction d generalizing e with
  | nil => cases h
  | cons p r ih =>
    simp only [List.foldl_cons]
    have hn' : p.1 ∉ keys r ∧ NoDupKeys r := by simpa [NoDupKeys, keys] using hn
    rcases List.mem_cons.mp h with h | h
    · subst h
      exact foldl_distribute_preserves r _ hn'.1 (distribute_routes e k v)
    · exact ih _ hn'.2 h

/-- every pair of the primary record is in a stable place or in Data. -/
theorem newEvent_kept (T : Tables) (first src : View) {d : KV} (hd : src.data = some d) (hn : NoDupKeys d)
    {k v : Bytes} (h : (k, v) ∈ d) :
    StableLoc (newEvent T first src) k v ∨
    (¬(k = kResult ∨ k = kSes) ∧ lookup k (newEvent T first src).data = some v) := by
  unfold newEvent
  rw [hd]
  simp only
  have hr := foldl_distribute_routes d
    { ts := first.ts, seq := first.seq, cat := categoryOf T first.typ, typ := first.typ,
      result := (lookup kResult d).getD vUnknown, session := getD kSes d,
      actorPrimary := getD kAuid d, actorSecondary := getD kUid d, tags := src.tags } hn h
  have ho := foldl_distribute_other d
    { ts := first.ts, seq := first.seq, cat := categoryOf T first.typ, typ := first.typ,
      result := (lookup kResult d).getD vUnknown, session := getD kSes d,
      actorPrimary := getD kAuid d, actorSecondary := getD kUid d, tags := src.tags }
  unfold Routed at hr
  split at hr
  · rename_i hk
    left
    rcases hk with hk | hk
    · refine Or.inr (Or.inr (Or.inl ⟨hk, ?_⟩))
      rw [ho.1]
      subst hk
      simp [lookup_of_mem_nodup hn h]
    · refine Or.inr (Or.inr (Or.inr (Or.inl ⟨hk, ?_⟩)))
      rw [ho.2.1]
      subst hk
      simp [getD, lookup_of_mem_nodup hn h]
  · rename_i hk
    split at hr
    · exact Or.inl (Or.inl hr)
    · split at hr
      · rename_i hp
        exact Or.inl (Or.inr (Or.inl ⟨hp, hr⟩))
      · exact Or.inr ⟨hk, hr⟩

/-- identity and the other fields `newEvent` fixes. -/
theorem newEvent_identity (T : Tables) (first src : View) :
    (newEvent T first src).ts = first.ts ∧ (newEvent T first src).seq = first.seq ∧
    (newEvent T first src).typ = first.typ ∧ (newEvent T first src).cat = categoryOf T first.typ ∧
    (newEvent T first src).paths = [] ∧ (newEvent T first src).args = [] ∧
    (newEvent T first src).source = none ∧ (newEvent T first src).file = none := by
  unfold newEvent
  cases src.data with
  | none => simp [warn]
  | some d =>
    simp only
    have ho := foldl_distribute_other d
      { ts := first.ts, seq := first.seq, cat := categoryOf T first.typ, typ := first.typ,
        result := (lookup kResult d).getD vUnknown, session := getD kSes d,
        actorPrimary := getD kAuid d, actorSecondary := getD kUid d, tags := src.tags }
    exact ⟨ho.2.2.1, ho.2.2.2.1, ho.2.2.2.2.1, ho.2.2.2.2.2.1, ho.2.2.2.2.2.2.2.1, ho.2.2.2.2.2.2.2.2.1,
      ho.2.2.2.2.2.2.2.2.2.2.1, ho.2.2.2.2.2.2.2.2.2.2.2⟩

/-! ### the record loop -/

def IsOther (typ : Nat) : Prop := typ ≠ SYSCALL ∧ typ ≠ PATH ∧ typ ≠ SOCKADDR ∧ typ ≠ EXECVE

/-- what the property assumes of one record: its Data() map is a map, and an EXECVE record
carries `argc` and `a0 … a(argc-1)` only. -/
structure RecOK (m : View) : Prop where
  nodup : ∀ d, m.data = some d → NoDupKeys d
  execve : m.typ = EXECVE → ∀ d, m.data = some d → ∀ argc n, lookup kArgc d = some argc →
    parseUint 10 32 argc = some n → ∀ k ∈ keys d, k = kArgc ∨ ∃ i, i < n ∧ k = argKey i

def nSys (l : List View) : Nat := l.countP (fun m => decide (m.typ = SYSCALL))
def nExec (l : List View) : Nat := l.countP (fun m => decide (m.typ = EXECVE))

theorem nSys_cons (m : View) (l : List View) : nSys (m :: l) = nSys l + (if m.typ = SYSCALL then 1 else 0) := by
  unfold nSys
  rw [List.countP_cons]
  by_cases h : m.typ = SYSCALL <;> simp [h]

theorem nExec_cons (m : View) (l : List View) : nExec (m :: l) = nExec l + (if m.typ = EXECVE then 1 else 0) := by
  unfold nExec
  rw [List.countP_cons]
  by_cases h : m.typ = EXECVE <;> simp [h]

theorem nSys_zero {l : List View} (h : nSys l = 0) : ∀ m ∈ l, m.typ ≠ SYSCALL := by
  intro m hm
  have := (List.countP_eq_zero.mp h) m hm
  simpa using this

theorem nExec_zero {l : List View} (h : nExec l = 0) : ∀ m ∈ l, m.typ ≠ EXECVE := by
  intro m hm
  have := (List.countP_eq_zero.mp h) m hm
  simpa using this

theorem foldl_addField_dup (typ : Nat) (d : KV) (e : Event) {k v : Bytes} (h : (k, v) ∈ d)
    (hk : hasKey k e.data = true) : Warn.dupKey k typ ∈ (d.foldl (addField typ) e).warnings := by
  induction d generalizing e with
  | nil => cases h
  | cons p r ih =>
    simp only [List.foldl_cons]
    rcases List.mem_cons.mp h with h | h
    · subst h
      have hf := foldl_sframe True True _ (addField_sframe True True typ) r (addField typ e (k, v))
      obtain ⟨w, hw⟩ := hf.warn
      rw [hw, addField_of_has (by simpa using hk)]
      apply List.mem_append_left; simp [warn]
    · apply ih _ h
      obtain ⟨x, hx⟩ := hasKey_iff.mp hk
      exact hasKey_iff.mpr ⟨x, (addField_sframe True True typ e p).data k x (Or.inr trivial) hx⟩

/-- one step keeps the pairs of its own record. -/
theorem step_kept (e : Event) (m : View) (hm : m.typ ≠ SYSCALL) (hok : RecOK m) {d : KV} (hd : m.data = some d)
    {k v : Bytes} (h : (k, v) ∈ d) :
    SafeNA (step e m) m.typ k v ∨ (m.typ = EXECVE ∧ ArgsLoc (step e m) k v) ∨
    (k = kItems ∧ IsOther m.typ ∧ hasKey kItems e.data = false ∧ lookup k (step e m).data = some v) := by
  unfold step
  simp only [hm, if_false]
  split
  · exact Or.inl (Or.inl (addPath_kept m e hd h))
  · rename_i hp
    split
    · rename_i hs
      exact Or.inl (addSockaddr_kept m hs e hd h)
    · rename_i hs
      split
      · rename_i he
        rcases addExecve_kept m he e hd (hok.nodup d hd) (hok.execve he d hd) h with h' | h'
        · exact Or.inl h'
        · exact Or.inr (Or.inl ⟨he, h'⟩)
      · rename_i he
        by_cases hk : k = kItems
        · cases hi : hasKey kItems e.data with
          | true =>
            left
            refine Or.inr (Or.inl (Or.inl ?_))
            unfold addOther
            rw [hd]
            exact foldl_addField_dup m.typ d e h (by rw [hk]; exact hi)
          | false =>
            rcases addOther_kept m e hd h with h' | h'
            · exact Or.inl (Or.inr (Or.inl h'))
            · exact Or.inr (Or.inr ⟨hk, ⟨hm, hp, hs, he⟩, rfl, h'⟩)
        · rcases addOther_kept m e hd h with h' | h'
          · exact Or.inl (Or.inr (Or.inl h'))
          · exact Or.inl (Or.inr (Or.inr (Or.inl ⟨hk, h'⟩)))

/-- the whole loop keeps the pairs of every non-SYSCALL record. -/
theorem fold_kept (rest : List View) : ∀ (e : Event), nSys rest ≤ 1 → nExec rest ≤ 1 →
    (nSys rest = 1 → hasKey kItems e.data = true ∨
      ∀ m ∈ rest, IsOther m.typ → ∀ d, m.data = some d → lookup kItems d = none) →
    (∀ m ∈ rest, RecOK m) →
    ∀ m ∈ rest, m.typ ≠ SYSCALL → ∀ d, m.data = some d → ∀ k v, (k, v) ∈ d →
      SafeNA (rest.foldl step e) m.typ k v ∨ ArgsLoc (rest.foldl step e) k v ∨
      lookup k (rest.foldl step e).data = some v := by
  induction rest with
  | nil => intro e _ _ _ _ m hm; cases hm
  | cons x tl ih =>
    intro e hS hE hI hR m hm hmt d hd k v hkv
    simp only [List.foldl_cons]
    rw [nSys_cons] at hS hI
    rw [nExec_cons] at hE
    have hfr := foldl_step_sframe tl (step e x)
    rcases List.mem_cons.mp hm with hmx | hmtl
    · subst hmx
      rcases step_kept e m hmt (hR m (List.mem_cons_self ..)) hd hkv with h | ⟨he, h⟩ | ⟨hk, ho, hi, hl⟩
      · exact Or.inl (h.mono hfr)
      · right; left
        have hne : nExec tl = 0 := by
          simp only [he, if_true] at hE; omega
        exact h.mono hfr (nExec_zero hne)
      · right; right
        -- k = items, absent before: by hI no SYSCALL record follows
        have hns : nSys tl = 0 := by
          simp only [hmt, if_false] at hS hI
          by_cases h1 : nSys tl = 1
          · exfalso
            rcases hI (by omega) with hh | hh
            · rw [hi] at hh; cases hh
            · have := hh m (List.mem_cons_self ..) ho d hd
              rw [hk] at hkv
              have hmem := mem_keys_of_mem hkv
              exact (lookup_eq_none_iff.mp this) hmem
          · omega
        exact hfr.data k v (Or.inr (nSys_zero hns)) hl
    · apply ih (step e x) (by omega) (by omega) ?_ (fun y hy => hR y (List.mem_cons_of_mem _ hy)) m hmtl hmt d hd k v hkv
      intro h1
      have hx : x.typ ≠ SYSCALL := by
        intro hx; simp only [hx, if_true] at hS; omega
      simp only [hx, if_false] at hI
      rcases hI (by omega) with hh | hh
      · left
        obtain ⟨y, hy⟩ := hasKey_iff.mp hh
        exact hasKey_iff.mpr ⟨y, (step_sframe e x).data kItems y (Or.inr hx) hy⟩
      · right
        exact fun y hy => hh y (List.mem_cons_of_mem _ hy)

end LA.Coalesce
